#!/usr/bin/env python3
"""Regenerates MANIFEST.json from props.py (so the manifest never drifts from what ./check implements)."""
import json, os, sys
sys.path.insert(0, os.path.dirname(os.path.abspath(__file__)))
from props import PROPS
# only properties whose check the maintainer has seen pass are claimed (one id per line)
CLAIMED = [l.strip() for l in open(os.path.join(os.path.dirname(os.path.abspath(__file__)), "propcfg", "CLAIMED")) if l.strip()]
PROPS = {k: v for k, v in PROPS.items() if k in CLAIMED}
ALL = [f"C{i:02d}" for i in range(1, 21)]
NOT_YET = "check not built yet in this round (designed in DESIGN.md section 7; the technique applies)"
checks = []
for pid in ALL:
    if pid not in PROPS:
        continue
    c = PROPS[pid]
    checks.append({
        "property_id": pid,
        "quick_cmd": f"./check {pid} --tier quick",
        "thorough_cmd": f"./check {pid} --tier thorough",
        "evidence_file": f"/verif/evidence/{pid}.json",
        "replay_cmd_template": f"./check {pid} --replay {{path}}",
        "engine": "lean4-proof+correspondence",
        "level_claimed": {"category": "proof", "text": c["level_text"], "design_ref": f"DESIGN.md section 7, {pid}"},
        "level_note": c["level_note"],
        "technique": c["technique"],
    })
manifest = {
    "version": 1,
    "setup_cmd": "./setup.sh",
    "hooks": {
        "guard": "libcnb_verif",
        "enable": "no hooks needed: every check drives /repo through public API, stand-in executables on PATH and LD_PRELOAD (RUSTFLAGS='--cfg libcnb_verif' is reserved)",
        "baseline_off_cmd": "cd /repo && cargo nextest run --workspace --no-fail-fast --tool-config-file pb:/w/lib/nextest.toml --profile pb --test-threads 8 --offline || cargo test --workspace --no-fail-fast --offline",
        "source_commits": [],
        "add_only": True,
    },
    "engines": [{
        "name": "lean4-proof+correspondence", "path": "/verif/check",
        "serves_properties": [c["property_id"] for c in checks],
        "kind_free_text": "Lean 4 theorems about a hand-written model (lean/CnbVerif/Model) meeting a spec (lean/CnbVerif/Spec); "
                          "declarative parts regenerated from /repo by a syn-based translator (lean/CnbVerif/Gen); behaviour tied by a "
                          "differential run of the real Rust code (harness/) against the compiled Lean model (lean/MainCxx.lean, one executable per property) with an "
                          "independent spec oracle judging the implementation's observations",
    }],
    "checks": checks,
    "notes": "Every check: translate -> lake build Props.Cxx + #print axioms audit -> cargo build harness against /repo working tree -> "
             "correspondence -> decide (DESIGN.md section 4). known_findings.json lists recorded findings and fixed defects.",
    "not_applicable": [{"property_id": p, "reason": NOT_YET} for p in ALL if p not in PROPS],
}
json.dump(manifest, open(os.path.join(os.path.dirname(os.path.abspath(__file__)), "MANIFEST.json"), "w"), indent=1)
print("MANIFEST.json:", len(checks), "checks,", len(manifest["not_applicable"]), "not claimed")
