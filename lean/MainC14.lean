import CnbVerif.Base.DriverLoop
import CnbVerif.Driver.C14
/-! Driver executable of property C14: its own binary, so that another property's model being edited (or broken) never
affects this property's check. -/
def main : IO Unit := CnbVerif.runDriver "c14" CnbVerif.DriverC14.handle
