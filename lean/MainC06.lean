import CnbVerif.Base.DriverLoop
import CnbVerif.Driver.C06
/-! Driver executable of property C06: its own binary, so that another property's model being edited (or broken) never
affects this property's check. -/
def main : IO Unit := CnbVerif.runDriver "c06" CnbVerif.DriverC06.handle
