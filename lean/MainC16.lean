import CnbVerif.Base.DriverLoop
import CnbVerif.Driver.C16
/-! Driver executable of property C16: its own binary, so that another property's model being edited (or broken) never
affects this property's check. -/
def main : IO Unit := CnbVerif.runDriver "c16" CnbVerif.DriverC16.handle
