import CnbVerif.Base.DriverLoop
import CnbVerif.Driver.C07
/-! Driver executable of property C07: its own binary, so that another property's model being edited (or broken) never
affects this property's check. -/
def main : IO Unit := CnbVerif.runDriver "c07" CnbVerif.DriverC07.handle
