import CnbVerif.Driver.C04
import CnbVerif.Driver.C03
import CnbVerif.Driver.C01
import CnbVerif.Driver.C02
import CnbVerif.Driver.C10
import CnbVerif.Driver.C19
import CnbVerif.Driver.C13
import CnbVerif.Driver.C09
import CnbVerif.Driver.C05
import CnbVerif.Driver.C08
import CnbVerif.Driver.C14
import CnbVerif.Driver.C18
import CnbVerif.Driver.C17
import CnbVerif.Driver.C07
import CnbVerif.Driver.C16
import CnbVerif.Driver.C06
import CnbVerif.Driver.C15
import CnbVerif.Driver.C12
import CnbVerif.Driver.C11
import CnbVerif.Driver.C20
/-!
Model driver. One request per line, tab separated: `<property> \t <input fields…> \t <implementation observation>`.
Answer: `<model observation> \t <spec verdict on the implementation's observation>`.
-/
open CnbVerif

def dispatch (line : String) : String :=
  match line.splitOn "\t" with
  | prop :: rest =>
    match rest.reverse with
    | obs :: revFields =>
      let fields := revFields.reverse
      let (m, v) :=
        if prop = "c04" then DriverC04.handle fields obs
        else if prop = "c03" then DriverC03.handle fields obs
        else if prop = "c01" then DriverC01.handle fields obs
        else if prop = "c02" then DriverC02.handle fields obs
        else if prop = "c10" then DriverC10.handle fields obs
        else if prop = "c19" then DriverC19.handle fields obs
        else if prop = "c13" then DriverC13.handle fields obs
        else if prop = "c09" then DriverC09.handle fields obs
        else if prop = "c05" then DriverC05.handle fields obs
        else if prop = "c08" then DriverC08.handle fields obs
        else if prop = "c14" then DriverC14.handle fields obs
        else if prop = "c18" then DriverC18.handle fields obs
        else if prop = "c17" then DriverC17.handle fields obs
        else if prop = "c07" then DriverC07.handle fields obs
        else if prop = "c16" then DriverC16.handle fields obs
        else if prop = "c06" then DriverC06.handle fields obs
        else if prop = "c15" then DriverC15.handle fields obs
        else if prop = "c12" then DriverC12.handle fields obs
        else if prop = "c11" then DriverC11.handle fields obs
        else if prop = "c20" then DriverC20.handle fields obs
        else ("bad-op", "bad-op")
      m ++ "\t" ++ v
    | [] => "bad-op\tbad-op"
  | [] => "bad-op\tbad-op"

partial def loop (h : IO.FS.Stream) (out : IO.FS.Stream) : IO Unit := do
  let line ← h.getLine
  if line.isEmpty then return ()
  let l := if line.endsWith "\n" then (line.dropEnd 1).toString else line
  out.putStrLn (dispatch l)
  loop h out

def main : IO Unit := do
  let out ← IO.getStdout
  loop (← IO.getStdin) out
  out.flush
