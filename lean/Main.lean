import CnbVerif.Driver.C04
import CnbVerif.Driver.C03
import CnbVerif.Driver.C19
import CnbVerif.Driver.C13
import CnbVerif.Driver.C09
/-!
Model driver. One request per line, tab separated: `<property> \t <input fields…> \t <implementation observation>`.
Answer: `<model observation> \t <spec verdict on the implementation's observation>`.
-/
open CnbVerif

def dispatch (line : String) : String :=
  match line.splitOn "\t" with
  | prop :: rest =>
    match rest.reverse with
    | obs :: revFields =>
      let fields := revFields.reverse
      let (m, v) :=
        if prop = "c04" then DriverC04.handle fields obs
        else if prop = "c03" then DriverC03.handle fields obs
        else if prop = "c19" then DriverC19.handle fields obs
        else if prop = "c13" then DriverC13.handle fields obs
        else if prop = "c09" then DriverC09.handle fields obs
        else ("bad-op", "bad-op")
      m ++ "\t" ++ v
    | [] => "bad-op\tbad-op"
  | [] => "bad-op\tbad-op"

partial def loop (h : IO.FS.Stream) (out : IO.FS.Stream) : IO Unit := do
  let line ← h.getLine
  if line.isEmpty then return ()
  let l := if line.endsWith "\n" then (line.dropEnd 1).toString else line
  out.putStrLn (dispatch l)
  loop h out

def main : IO Unit := do
  let out ← IO.getStdout
  loop (← IO.getStdin) out
  out.flush
