import CnbVerif.Base.DriverLoop
import CnbVerif.Driver.C08
/-! Driver executable of property C08: its own binary, so that another property's model being edited (or broken) never
affects this property's check. -/
def main : IO Unit := CnbVerif.runDriver "c08" CnbVerif.DriverC08.handle
