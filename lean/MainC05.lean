import CnbVerif.Base.DriverLoop
import CnbVerif.Driver.C05
/-! Driver executable of property C05: its own binary, so that another property's model being edited (or broken) never
affects this property's check. -/
def main : IO Unit := CnbVerif.runDriver "c05" CnbVerif.DriverC05.handle
