import CnbVerif.Base.DriverLoop
import CnbVerif.Driver.C11
/-! Driver executable of property C11: its own binary, so that another property's model being edited (or broken) never
affects this property's check. -/
def main : IO Unit := CnbVerif.runDriver "c11" CnbVerif.DriverC11.handle
