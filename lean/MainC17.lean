import CnbVerif.Base.DriverLoop
import CnbVerif.Driver.C17
/-! Driver executable of property C17: its own binary, so that another property's model being edited (or broken) never
affects this property's check. -/
def main : IO Unit := CnbVerif.runDriver "c17" CnbVerif.DriverC17.handle
