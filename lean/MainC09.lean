import CnbVerif.Base.DriverLoop
import CnbVerif.Driver.C09
/-! Driver executable of property C09: its own binary, so that another property's model being edited (or broken) never
affects this property's check. -/
def main : IO Unit := CnbVerif.runDriver "c09" CnbVerif.DriverC09.handle
