import CnbVerif.Base.DriverLoop
import CnbVerif.Driver.C04
/-! Driver executable of property C04: its own binary, so that another property's model being edited (or broken) never
affects this property's check. -/
def main : IO Unit := CnbVerif.runDriver "c04" CnbVerif.DriverC04.handle
