import CnbVerif.Base.DriverLoop
import CnbVerif.Driver.C18
/-! Driver executable of property C18: its own binary, so that another property's model being edited (or broken) never
affects this property's check. -/
def main : IO Unit := CnbVerif.runDriver "c18" CnbVerif.DriverC18.handle
