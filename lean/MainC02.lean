import CnbVerif.Base.DriverLoop
import CnbVerif.Driver.C02
/-! Driver executable of property C02: its own binary, so that another property's model being edited (or broken) never
affects this property's check. -/
def main : IO Unit := CnbVerif.runDriver "c02" CnbVerif.DriverC02.handle
