import CnbVerif.Base.DriverLoop
import CnbVerif.Driver.C10
/-! Driver executable of property C10: its own binary, so that another property's model being edited (or broken) never
affects this property's check. -/
def main : IO Unit := CnbVerif.runDriver "c10" CnbVerif.DriverC10.handle
