import CnbVerif.Base.Proto
