import CnbVerif.Base.DriverLoop
import CnbVerif.Driver.C01
/-! Driver executable of property C01: its own binary, so that another property's model being edited (or broken) never
affects this property's check. -/
def main : IO Unit := CnbVerif.runDriver "c01" CnbVerif.DriverC01.handle
