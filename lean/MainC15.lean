import CnbVerif.Base.DriverLoop
import CnbVerif.Driver.C15
/-! Driver executable of property C15: its own binary, so that another property's model being edited (or broken) never
affects this property's check. -/
def main : IO Unit := CnbVerif.runDriver "c15" CnbVerif.DriverC15.handle
