import CnbVerif.Base.DriverLoop
import CnbVerif.Driver.C19
/-! Driver executable of property C19: its own binary, so that another property's model being edited (or broken) never
affects this property's check. -/
def main : IO Unit := CnbVerif.runDriver "c19" CnbVerif.DriverC19.handle
