import CnbVerif.Props.C20
#print axioms CnbVerif.C20.canon_preserves_lookup
#print axioms CnbVerif.C20.canon_is_sorted
#print axioms CnbVerif.C20.sameDir_iff_same_lookups
#print axioms CnbVerif.C20.sameDir_same_snapshot
#print axioms CnbVerif.C20.env_iteration_order_irrelevant
#print axioms CnbVerif.C20.execd_iteration_order_irrelevant
#print axioms CnbVerif.C20.execd_loop_order_irrelevant_partial
#print axioms CnbVerif.C20.execd_loop_refines_layer_store_model
#print axioms CnbVerif.C20.execd_error_path_counterexample
#print axioms CnbVerif.C20.iteration_order_irrelevant
#print axioms CnbVerif.C20.iteration_sites_are_modelled
#print axioms CnbVerif.C20.read_dir_sites_are_modelled
#print axioms CnbVerif.C20.no_hash_backed_serialised_field
#print axioms CnbVerif.C20.serialised_types_are_closed
#print axioms CnbVerif.C20.toml_tables_are_ordered
#print axioms CnbVerif.C20.no_clock_or_random_source
