import CnbVerif.Props.C18
#print axioms CnbVerif.C18.resolve_maximal
#print axioms CnbVerif.C18.partial_resolve_maximal
#print axioms CnbVerif.C18.none_iff_nothing_matches
#print axioms CnbVerif.C18.non_matching_artifacts_have_no_influence
#print axioms CnbVerif.C18.hex_roundtrip
#print axioms CnbVerif.C18.checksum_accepted_iff_grammar
#print axioms CnbVerif.C18.checksum_value
#print axioms CnbVerif.C18.record_checksum_is_from_str
#print axioms CnbVerif.C18.record_accepted_iff_checksum_grammar
#print axioms CnbVerif.C18.inventory_accepts_only_grammar_checksums
#print axioms CnbVerif.C18.spec_oracle_is_grammar
#print axioms CnbVerif.C18.checksum_roundtrip
#print axioms CnbVerif.C18.inventory_roundtrip_partial
