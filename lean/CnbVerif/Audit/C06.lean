import CnbVerif.Props.C06
#print axioms CnbVerif.C06.platform_env
#print axioms CnbVerif.C06.platform_env_error_iff
#print axioms CnbVerif.C06.platform_env_missing_dir
#print axioms CnbVerif.C06.platform_env_ignores_non_files
#print axioms CnbVerif.C06.target_ok
#print axioms CnbVerif.C06.target_error
#print axioms CnbVerif.C06.context_fields
#print axioms CnbVerif.C06.context_sources
#print axioms CnbVerif.C06.context_paths_are_supplied_verbatim
#print axioms CnbVerif.C06.context_paths_are_supplied_verbatim_nothing_else
#print axioms CnbVerif.C06.unrepresentable_is_error_partial
#print axioms CnbVerif.C06.variant_silently_dropped
#print axioms CnbVerif.C06.unrepresentable_is_error_counterexample
#print axioms CnbVerif.C06.error_only_when_forced
