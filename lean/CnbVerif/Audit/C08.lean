import CnbVerif.Props.C08
#print axioms CnbVerif.C08.strict_unknown_key
#print axioms CnbVerif.C08.gen_schemas_strict
#print axioms CnbVerif.C08.missing_required_rejected
#print axioms CnbVerif.C08.wrong_kind_rejected
#print axioms CnbVerif.C08.defect_rejected
#print axioms CnbVerif.C08.omitted_key_takes_default
#print axioms CnbVerif.C08.present_key_decodes_exactly
#print axioms CnbVerif.C08.leaf_decodes_exactly
#print axioms CnbVerif.C08.descriptor_with_order_is_composite
#print axioms CnbVerif.C08.descriptor_without_order_is_component
#print axioms CnbVerif.C08.descriptor_order_with_targets_or_stacks_rejected
#print axioms CnbVerif.C08.gen_agrees_with_spec
#print axioms CnbVerif.C08.gen_decodes_as_spec
#print axioms CnbVerif.C08.serde_reader_is_strict_reader_partial
#print axioms CnbVerif.C08.model_rejects_defects_partial
#print axioms CnbVerif.C08.model_decodes_as_spec_partial
#print axioms CnbVerif.C08.serde_leniency_counterexample
