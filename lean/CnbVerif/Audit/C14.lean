import CnbVerif.Props.C14
#print axioms CnbVerif.C14.read_index
#print axioms CnbVerif.C14.libcnb_replaced
#print axioms CnbVerif.C14.error_iff
#print axioms CnbVerif.C14.error_names_the_reference
#print axioms CnbVerif.C14.relative_denotes
#print axioms CnbVerif.C14.relative_idempotent
#print axioms CnbVerif.C14.others_verbatim_partial
#print axioms CnbVerif.C14.buildpack_uri_preserved_partial
#print axioms CnbVerif.C14.full_statement_counterexample
#print axioms CnbVerif.C14.shape_preserved
#print axioms CnbVerif.C14.kinds_exhaustive
#print axioms CnbVerif.C14.result_is_settled
