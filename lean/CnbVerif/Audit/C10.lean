import CnbVerif.Props.C10
#print axioms CnbVerif.C10.table_is_spec
#print axioms CnbVerif.C10.implicit_exact_build
#print axioms CnbVerif.C10.implicit_exact_launch
#print axioms CnbVerif.C10.no_implicit_paths_for_all_and_process
#print axioms CnbVerif.C10.implicit_table_facts
#print axioms CnbVerif.C10.implicit_entries_never_written
#print axioms CnbVerif.C10.read_write_cycle_invariant
#print axioms CnbVerif.C10.read_write_cycle
#print axioms CnbVerif.C10.read_write_cycles
