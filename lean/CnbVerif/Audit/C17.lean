import CnbVerif.Props.C17
#print axioms CnbVerif.C17.docker_run_roundtrip_partial
#print axioms CnbVerif.C17.docker_run_mount_comma_counterexample
#print axioms CnbVerif.C17.run_shell_roundtrip
#print axioms CnbVerif.C17.shell_exec_roundtrip
#print axioms CnbVerif.C17.pack_build_roundtrip_partial
#print axioms CnbVerif.C17.pack_build_buildpack_comma_counterexample
#print axioms CnbVerif.C17.configured_entries_exactly_once
#print axioms CnbVerif.C17.configured_ports_exactly_once
#print axioms CnbVerif.C17.value_positions_docker_run
#print axioms CnbVerif.C17.value_positions_pack_build
#print axioms CnbVerif.C17.small_commands_roundtrip
#print axioms CnbVerif.C17.generated_names_ok
#print axioms CnbVerif.C17.one_pack_build_per_build_call
#print axioms CnbVerif.C17.invocations_independent_of_tool_output
#print axioms CnbVerif.C17.pack_output_handed_over
#print axioms CnbVerif.C17.hand_over_one_per_invocation
#print axioms CnbVerif.C17.lossy_identity_on_ascii
