import CnbVerif.Props.C02
#print axioms CnbVerif.C02.every_history_partial
#print axioms CnbVerif.C02.every_history_modulo_dropped_keys
#print axioms CnbVerif.C02.every_state_partial
#print axioms CnbVerif.C02.invariant_preserved
#print axioms CnbVerif.C02.keep_drops_unknown_keys_counterexample
#print axioms CnbVerif.C02.callback_log
#print axioms CnbVerif.C02.returned_equals_disk
#print axioms CnbVerif.C02.stepOk_callback_log
#print axioms CnbVerif.C02.stepOk_persisted
#print axioms CnbVerif.C02.stepOk_kept
#print axioms CnbVerif.C02.stepOk_error
#print axioms CnbVerif.C02.stepOk_declined
#print axioms CnbVerif.C02.migration_survives_later_failure
#print axioms CnbVerif.C02.stepOk_others_untouched
