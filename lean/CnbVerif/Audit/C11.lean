import CnbVerif.Props.C11
#print axioms CnbVerif.C11.delete_frame
#print axioms CnbVerif.C11.delete_complete
#print axioms CnbVerif.C11.delete_meets_oracle
#print axioms CnbVerif.C11.remove_dir_recursively_frame
#print axioms CnbVerif.C11.unlink_keeps_other_names
#print axioms CnbVerif.C11.request_frame
#print axioms CnbVerif.C11.request_recreated
#print axioms CnbVerif.C11.request_meets_oracle
#print axioms CnbVerif.C11.recreate_frame_abstract
#print axioms CnbVerif.C11.sbom_paths_tied
#print axioms CnbVerif.C11.not_found_means_absent
#print axioms CnbVerif.C11.depth_budget_suffices
#print axioms CnbVerif.C11.d4_counterexample
#print axioms CnbVerif.C11.d8_counterexample
#print axioms CnbVerif.C11.d8_repaired
