import CnbVerif.Props.C01
#print axioms CnbVerif.C01.every_history
#print axioms CnbVerif.C01.every_state
#print axioms CnbVerif.C01.stepOk_reported_state
#print axioms CnbVerif.C01.stepOk_restored_preserves
#print axioms CnbVerif.C01.stepOk_empty_is_empty
#print axioms CnbVerif.C01.stepOk_others_untouched
#print axioms CnbVerif.C01.stepOk_writers
#print axioms CnbVerif.C01.rejected_metadata_write_changes_nothing
