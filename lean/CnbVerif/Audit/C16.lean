import CnbVerif.Props.C16
#print axioms CnbVerif.C16.detached_containers_force_removed
#print axioms CnbVerif.C16.every_container_removed_exactly_once_after_last_use
#print axioms CnbVerif.C16.image_and_volumes_removed_once_after_last_use
#print axioms CnbVerif.C16.only_generated_names_removed
#print axioms CnbVerif.C16.no_temp_dir_left
#print axioms CnbVerif.C16.single_injection_never_aborts
#print axioms CnbVerif.C16.working_docker_rm_never_aborts
#print axioms CnbVerif.C16.cleanup_under_single_injection
#print axioms CnbVerif.C16.cleanup_whenever_docker_rm_works
#print axioms CnbVerif.C16.fault_script_sparing_rm
#print axioms CnbVerif.C16.cleanup_under_fault_script
#print axioms CnbVerif.C16.double_fault_aborts
