import CnbVerif.Props.C04
#print axioms CnbVerif.C04.apply_get
#print axioms CnbVerif.C04.variable_without_entries_unchanged
#print axioms CnbVerif.C04.other_scopes_have_no_effect
#print axioms CnbVerif.C04.unknown_process_is_all
#print axioms CnbVerif.C04.insert_order_irrelevant
#print axioms CnbVerif.C04.insert_order_irrelevant_structural
#print axioms CnbVerif.C04.queries_between_inserts_irrelevant
#print axioms CnbVerif.C04.default_keeps_empty_string
#print axioms CnbVerif.C04.append_to_empty_has_no_delimiter
#print axioms CnbVerif.C04.apply_to_empty_get
#print axioms CnbVerif.C04.all_applies_before_scope
#print axioms CnbVerif.C04.delimiter_alone_has_no_effect
#print axioms CnbVerif.C04.scope_override_replaces
