import CnbVerif.Props.C15
#print axioms CnbVerif.C15.selection
#print axioms CnbVerif.C15.selected_from_buildpack_dir
#print axioms CnbVerif.C15.selected_from_workspace_root
#print axioms CnbVerif.C15.contents_libcnb
#print axioms CnbVerif.C15.contents_composite
#print axioms CnbVerif.C15.composite_refs_resolved
#print axioms CnbVerif.C15.stdout_exact
#print axioms CnbVerif.C15.stale_independent
#print axioms CnbVerif.C15.untouched_elsewhere
#print axioms CnbVerif.C15.main_target_rule
#print axioms CnbVerif.C15.undetermined_main_is_error
#print axioms CnbVerif.C15.output_names_distinct
#print axioms CnbVerif.C15.selection_independent_of_package_dir
#print axioms CnbVerif.C15.outcome_independent_of_package_dir
