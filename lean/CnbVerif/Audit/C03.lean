import CnbVerif.Props.C03
#print axioms CnbVerif.C03.layout
#print axioms CnbVerif.C03.layout_is_spec_files
#print axioms CnbVerif.C03.oracle_files_are_spec_files
#print axioms CnbVerif.C03.file_names_are_spec_names
#print axioms CnbVerif.C03.overwrite
#print axioms CnbVerif.C03.second_write_erases_first
#print axioms CnbVerif.C03.frame
#print axioms CnbVerif.C03.read_back_applies_identically
#print axioms CnbVerif.C03.api_environments_are_ok
#print axioms CnbVerif.C03.suffixless_is_override
#print axioms CnbVerif.C03.extension_decides
