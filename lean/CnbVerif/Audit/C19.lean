import CnbVerif.Props.C19
#print axioms CnbVerif.C19.chunk_independent
#print axioms CnbVerif.C19.output_spec
#print axioms CnbVerif.C19.tee_full_input
#print axioms CnbVerif.C19.tee_full_input_short_writes
#print axioms CnbVerif.C19.mapped_output_short_writes
#print axioms CnbVerif.C19.mapped_output_independent_of_flushes
#print axioms CnbVerif.C19.flushes_change_nothing
#print axioms CnbVerif.C19.tee_full_input_with_flushes
#print axioms CnbVerif.C19.compositions_independent_of_flushes
#print axioms CnbVerif.C19.emitting_flush_violates_spec
#print axioms CnbVerif.C19.unfixed_drop_violates_spec
#print axioms CnbVerif.C19.copier_threads_spawned_before_joined
#print axioms CnbVerif.C19.copiers_are_plain_io_copy
#print axioms CnbVerif.C19.progress
#print axioms CnbVerif.C19.termination
#print axioms CnbVerif.C19.delivery
#print axioms CnbVerif.C19.sequential_variant_deadlocks
