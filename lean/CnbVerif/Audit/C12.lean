import CnbVerif.Props.C12
#print axioms CnbVerif.C12.fault_propagates
#print axioms CnbVerif.C12.unreached_fault_changes_nothing
#print axioms CnbVerif.C12.success_only_fault_free
#print axioms CnbVerif.C12.failure_is_reported
#print axioms CnbVerif.C12.failure_returns_error
#print axioms CnbVerif.C12.modelled_operations_report_failures
#print axioms CnbVerif.C12.cached_migrate_fault_propagates
#print axioms CnbVerif.C12.cached_migrate_success_only_fault_free
#print axioms CnbVerif.C12.trait_migrate_fault_propagates
#print axioms CnbVerif.C12.trait_migrate_success_only_fault_free
#print axioms CnbVerif.C12.handle_layer_any_callbacks_success_only_fault_free
#print axioms CnbVerif.C12.tolerate_swallows_only_not_found
#print axioms CnbVerif.C12.tolerant_calls_are_deletes
#print axioms CnbVerif.C12.refines_replaceMeta
#print axioms CnbVerif.C12.refines_replaceTypes
#print axioms CnbVerif.C12.refines_replaceSboms
