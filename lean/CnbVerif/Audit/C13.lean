import CnbVerif.Props.C13
#print axioms CnbVerif.C13.build_order
#print axioms CnbVerif.C13.build_order_ids
#print axioms CnbVerif.C13.deps_first
#print axioms CnbVerif.C13.nodup
#print axioms CnbVerif.C13.exact
#print axioms CnbVerif.C13.fuel_enough
#print axioms CnbVerif.C13.unknown_root_is_the_only_error
#print axioms CnbVerif.C13.missing_dependency_is_error
#print axioms CnbVerif.C13.createGraph_keeps_every_edge
#print axioms CnbVerif.C13.edges_are_the_declared_dependencies
#print axioms CnbVerif.C13.judge_accepts_model
#print axioms CnbVerif.C13.judge_iff_spec
#print axioms CnbVerif.C13.packaging_order
#print axioms CnbVerif.C13.packaging_missing_dependency_is_error
#print axioms CnbVerif.C13.packaging_roots_known
