import CnbVerif.Props.C07
#print axioms CnbVerif.C07.written_is_read_back
#print axioms CnbVerif.C07.gen_written_read_by_spec
#print axioms CnbVerif.C07.gen_written_read_by_own_reader
#print axioms CnbVerif.C07.buildplan_groups
#print axioms CnbVerif.C07.require_metadata_partial
#print axioms CnbVerif.C07.require_metadata_datetime_counterexample
#print axioms CnbVerif.C07.launch_builder_calls
#print axioms CnbVerif.C07.launch_decodes_to_constructed
#print axioms CnbVerif.C07.buildplan_decodes_to_constructed
#print axioms CnbVerif.C07.layer_metadata_decodes_to_constructed
#print axioms CnbVerif.C07.store_decodes_to_constructed
#print axioms CnbVerif.C07.execd_decodes_to_constructed
#print axioms CnbVerif.C07.package_decodes_to_constructed
#print axioms CnbVerif.C07.package_uri_verbatim_partial
#print axioms CnbVerif.C07.package_uri_respelled_counterexample
