import CnbVerif.Props.C05
#print axioms CnbVerif.C05.detect_pass_with_plan
#print axioms CnbVerif.C05.detect_pass_without_plan
#print axioms CnbVerif.C05.detect_fail
#print axioms CnbVerif.C05.detect_error
#print axioms CnbVerif.C05.build_ok
#print axioms CnbVerif.C05.build_error
#print axioms CnbVerif.C05.gatekeeping
#print axioms CnbVerif.C05.mandatory_variable_missing
#print axioms CnbVerif.C05.mandatory_variable_unset
#print axioms CnbVerif.C05.target_variable_missing_is_an_error
#print axioms CnbVerif.C05.outcome_independent_of_values
#print axioms CnbVerif.C05.on_error_at_most_once
#print axioms CnbVerif.C05.no_on_error_when_exit_0_or_100
#print axioms CnbVerif.C05.plan_written_only_when_passed_with_plan
#print axioms CnbVerif.C05.phases_exclusive
#print axioms CnbVerif.C05.runtime_meets_table
