import CnbVerif.Model.MappedWrite
import CnbVerif.Spec.Streaming
/-! Helper lemmas for C19, model A (mapped writer, tee). -/
namespace CnbVerif.MW
open CnbVerif Spec.Streaming

theorem write_append (m : Nat) (f : Bytes → Bytes) (s : St) (a b : Bytes) :
    write m f s (a ++ b) = write m f (write m f s a) b := by
  simp [write, List.foldl_append]

theorem foldl_write_flatten (m : Nat) (f : Bytes → Bytes) (chunks : List Bytes) (s : St) :
    chunks.foldl (write m f) s = write m f s chunks.flatten := by
  induction chunks generalizing s with
  | nil => simp [write]
  | cons c cs ih => simp [List.flatten_cons, write_append, ih]

/-- put a pending buffer (which holds no marker) in front of a split -/
def prependBuf (buf : Bytes) (sr : List Bytes × Bytes) : List Bytes × Bytes :=
  match sr.1 with
  | [] => ([], buf ++ sr.2)
  | s :: ss => ((buf ++ s) :: ss, sr.2)

def emit (f : Bytes → Bytes) (sr : List Bytes × Bytes) : Bytes :=
  (sr.1.map f).flatten ++ (match sr.2 with | [] => [] | r => f r)

theorem prependBuf_nil (sr : List Bytes × Bytes) : prependBuf [] sr = sr := by
  obtain ⟨segs, rem⟩ := sr
  cases segs <;> simp [prependBuf]

theorem finish_write (m : Nat) (f : Bytes → Bytes) (input : Bytes) (s : St) :
    finish f (write m f s input) = s.out ++ emit f (prependBuf s.buf (segments m input)) := by
  induction input generalizing s with
  | nil =>
    obtain ⟨buf, out⟩ := s
    cases buf <;> simp [write, finish, segments, prependBuf, emit]
  | cons b rest ih =>
    have hw : write m f s (b :: rest) = write m f (stepByte m f s b) rest := by simp [write]
    rw [hw, ih]
    by_cases hb : b = m
    · subst hb
      simp only [stepByte, if_true, segments, prependBuf_nil]
      simp [prependBuf, emit, List.append_assoc]
    · simp only [stepByte, hb, if_false, segments]
      cases hseg : segments m rest with
      | mk segs rem =>
        cases segs with
        | nil => simp [prependBuf, List.append_assoc]
        | cons s1 ss => simp [prependBuf, List.append_assoc]

theorem teeRun_aux (chunks : List Bytes) (t : Tee) :
    chunks.foldl teeWrite t = ⟨t.a ++ chunks.flatten, t.b ++ chunks.flatten⟩ := by
  induction chunks generalizing t with
  | nil => simp
  | cons c cs ih => simp [ih, teeWrite, List.append_assoc]

end CnbVerif.MW
