import CnbVerif.Model.MappedWrite
import CnbVerif.Spec.Streaming
/-! Helper lemmas for C19, model A (mapped writer, tee). -/
namespace CnbVerif.MW
open CnbVerif Spec.Streaming

theorem write_append (m : Nat) (f : Bytes → Bytes) (s : St) (a b : Bytes) :
    write m f s (a ++ b) = write m f (write m f s a) b := by
  simp [write, List.foldl_append]

theorem foldl_write_flatten (m : Nat) (f : Bytes → Bytes) (chunks : List Bytes) (s : St) :
    chunks.foldl (write m f) s = write m f s chunks.flatten := by
  induction chunks generalizing s with
  | nil => simp [write]
  | cons c cs ih => simp [List.flatten_cons, write_append, ih]

/-- put a pending buffer (which holds no marker) in front of a split -/
def prependBuf (buf : Bytes) (sr : List Bytes × Bytes) : List Bytes × Bytes :=
  match sr.1 with
  | [] => ([], buf ++ sr.2)
  | s :: ss => ((buf ++ s) :: ss, sr.2)

def emit (f : Bytes → Bytes) (sr : List Bytes × Bytes) : Bytes :=
  (sr.1.map f).flatten ++ (match sr.2 with | [] => [] | r => f r)

theorem prependBuf_nil (sr : List Bytes × Bytes) : prependBuf [] sr = sr := by
  obtain ⟨segs, rem⟩ := sr
  cases segs <;> simp [prependBuf]

theorem finish_write (m : Nat) (f : Bytes → Bytes) (input : Bytes) (s : St) :
    finish f (write m f s input) = s.out ++ emit f (prependBuf s.buf (segments m input)) := by
  induction input generalizing s with
  | nil =>
    obtain ⟨buf, out⟩ := s
    cases buf <;> simp [write, finish, segments, prependBuf, emit]
  | cons b rest ih =>
    have hw : write m f s (b :: rest) = write m f (stepByte m f s b) rest := by simp [write]
    rw [hw, ih]
    by_cases hb : b = m
    · subst hb
      simp only [stepByte, if_true, segments, prependBuf_nil]
      simp [prependBuf, emit, List.append_assoc]
    · simp only [stepByte, hb, if_false, segments]
      cases hseg : segments m rest with
      | mk segs rem =>
        cases segs with
        | nil => simp [prependBuf, List.append_assoc]
        | cons s1 ss => simp [prependBuf, List.append_assoc]

theorem teeRun_aux (chunks : List Bytes) (t : Tee) :
    chunks.foldl teeWrite t = ⟨t.a ++ chunks.flatten, t.b ++ chunks.flatten⟩ := by
  induction chunks generalizing t with
  | nil => simp
  | cons c cs ih => simp [ih, teeWrite, List.append_assoc]

/-! ### short-writing targets -/

/-- whatever the target's short-write / interrupt behaviour, `write_all` leaves it holding its previous content
followed by the whole buffer -/
theorem writeAll_content (script : List Nat) : ∀ (got buf : Bytes), (writeAll script got buf).1 = got ++ buf := by
  induction script with
  | nil => intro got buf; cases buf <;> simp [writeAll]
  | cons k rest ih =>
    intro got buf
    cases buf with
    | nil => simp [writeAll]
    | cons b bs =>
      cases k with
      | zero => simp only [writeAll]; exact ih got (b :: bs)
      | succ k =>
        simp only [writeAll]
        rw [ih, List.append_assoc, List.take_append_drop]

theorem teeRunS_aux (chunks : List Bytes) (t : TeeS) :
    (chunks.foldl teeWriteS t).a = t.a ++ chunks.flatten ∧ (chunks.foldl teeWriteS t).b = t.b ++ chunks.flatten := by
  induction chunks generalizing t with
  | nil => simp
  | cons c cs ih =>
    simp only [List.foldl_cons, List.flatten_cons]
    have ha : (teeWriteS t c).a = t.a ++ c := by simp [teeWriteS, writeAll_content]
    have hb : (teeWriteS t c).b = t.b ++ c := by simp [teeWriteS, writeAll_content]
    have := ih (teeWriteS t c)
    rw [ha, hb] at this
    simpa [List.append_assoc] using this

theorem stepByteS_sim (m : Nat) (f : Bytes → Bytes) (s : StS) (b : Nat) :
    (stepByteS m f s b).buf = (stepByte m f ⟨s.buf, s.out⟩ b).buf ∧
    (stepByteS m f s b).out = (stepByte m f ⟨s.buf, s.out⟩ b).out := by
  unfold stepByteS stepByte
  by_cases hb : b = m <;> simp [hb, writeAll_content]

theorem writeS_sim (m : Nat) (f : Bytes → Bytes) (chunk : Bytes) : ∀ (s : StS),
    (writeS m f s chunk).buf = (write m f ⟨s.buf, s.out⟩ chunk).buf ∧
    (writeS m f s chunk).out = (write m f ⟨s.buf, s.out⟩ chunk).out := by
  induction chunk with
  | nil => intro s; simp [writeS, write]
  | cons b bs ih =>
    intro s
    have h := stepByteS_sim m f s b
    have := ih (stepByteS m f s b)
    simp only [writeS, write, List.foldl_cons] at this ⊢
    rw [h.1, h.2] at this
    exact this

theorem foldl_writeS_sim (m : Nat) (f : Bytes → Bytes) (chunks : List Bytes) : ∀ (s : StS),
    (chunks.foldl (writeS m f) s).buf = (chunks.foldl (write m f) ⟨s.buf, s.out⟩).buf ∧
    (chunks.foldl (writeS m f) s).out = (chunks.foldl (write m f) ⟨s.buf, s.out⟩).out := by
  induction chunks with
  | nil => intro s; simp
  | cons c cs ih =>
    intro s
    have h := writeS_sim m f c s
    have := ih (writeS m f s c)
    simp only [List.foldl_cons]
    rw [h.1, h.2] at this
    exact this

/-! ### `flush` in the op alphabet; call transducers -/

theorem sinkContent_append (a b : List (Option Bytes)) : sinkContent (a ++ b) = sinkContent a ++ sinkContent b := by
  induction a with
  | nil => simp [sinkContent]
  | cons x xs ih => cases x <;> simp [sinkContent, ih, List.append_assoc]

theorem sinkFlushes_append (a b : List (Option Bytes)) : sinkFlushes (a ++ b) = sinkFlushes a + sinkFlushes b := by
  induction a with
  | nil => simp [sinkFlushes]
  | cons x xs ih => cases x <;> simp [sinkFlushes, ih] <;> omega

/-- the model's "content of a `Vec` after these calls" and the specification's "input of these calls" are the same
function of a call sequence (defined twice on purpose: one belongs to the model, one to the property) -/
theorem sinkContent_eq_writtenBytes (ops : List (Option Bytes)) : sinkContent ops = writtenBytes ops := by
  induction ops with
  | nil => rfl
  | cons x xs ih => cases x <;> simp [sinkContent, writtenBytes, ih]

/-- forget the call structure: the `St` a traced mapped writer stands for -/
def absT (s : StT) : St := ⟨s.buf, sinkContent s.calls⟩

theorem stepByteT_sim (m : Nat) (f : Bytes → Bytes) (s : StT) (b : Nat) :
    absT (stepByteT m f s b) = stepByte m f (absT s) b := by
  unfold stepByteT stepByte absT
  by_cases hb : b = m <;> simp [hb, sinkContent_append, sinkContent]

theorem writeT_sim (m : Nat) (f : Bytes → Bytes) (chunk : Bytes) : ∀ (s : StT),
    absT (chunk.foldl (stepByteT m f) s) = write m f (absT s) chunk := by
  induction chunk with
  | nil => intro s; simp [write]
  | cons b bs ih =>
    intro s
    simp only [List.foldl_cons, write]
    rw [ih, stepByteT_sim]
    rfl

/-- a flush changes neither the pending buffer nor the bytes handed to the inner writer: after any interleaving of
writes and flushes the mapped writer is in the state one `write` of the whole input leaves it in -/
theorem foldl_callT_sim (m : Nat) (f : Bytes → Bytes) (ops : List (Option Bytes)) : ∀ (s : StT),
    absT (ops.foldl (callT m f) s) = write m f (absT s) (writtenBytes ops) := by
  induction ops with
  | nil => intro s; simp [writtenBytes, write]
  | cons op rest ih =>
    intro s
    cases op with
    | none =>
      simp only [List.foldl_cons, writtenBytes]
      rw [ih]
      congr 1
      simp [callT, absT, sinkContent_append, sinkContent]
    | some c =>
      simp only [List.foldl_cons, writtenBytes]
      rw [ih, write_append]
      congr 1
      exact writeT_sim m f c s

theorem sinkContent_dropT (f : Bytes → Bytes) (s : StT) : sinkContent (dropT f s) = finish f (absT s) := by
  unfold dropT finish absT
  by_cases h : s.buf.isEmpty <;> simp [h, sinkContent_append, sinkContent]

theorem mappedCalls_content (m : Nat) (f : Bytes → Bytes) (ops : List (Option Bytes)) :
    sinkContent (mappedCalls m f ops) = mappedOutput m f (writtenBytes ops) := by
  unfold mappedCalls
  rw [sinkContent_dropT, foldl_callT_sim, finish_write]
  simp only [absT, sinkContent, List.nil_append, prependBuf_nil]
  rfl

theorem stepByteT_flushes (m : Nat) (f : Bytes → Bytes) (s : StT) (b : Nat) :
    sinkFlushes (stepByteT m f s b).calls = sinkFlushes s.calls := by
  unfold stepByteT
  by_cases hb : b = m <;> simp [hb, sinkFlushes_append, sinkFlushes]

theorem writeT_flushes (m : Nat) (f : Bytes → Bytes) (chunk : Bytes) : ∀ (s : StT),
    sinkFlushes (chunk.foldl (stepByteT m f) s).calls = sinkFlushes s.calls := by
  induction chunk with
  | nil => intro s; rfl
  | cons b bs ih => intro s; simp only [List.foldl_cons]; rw [ih, stepByteT_flushes]

theorem foldl_callT_flushes (m : Nat) (f : Bytes → Bytes) (ops : List (Option Bytes)) : ∀ (s : StT),
    sinkFlushes (ops.foldl (callT m f) s).calls = sinkFlushes s.calls + sinkFlushes ops := by
  induction ops with
  | nil => intro s; simp [sinkFlushes]
  | cons op rest ih =>
    intro s
    cases op with
    | none => simp only [List.foldl_cons]; rw [ih]; simp [callT, sinkFlushes_append, sinkFlushes]; omega
    | some c => simp only [List.foldl_cons]; rw [ih]; simp only [callT, sinkFlushes]; rw [writeT_flushes]

theorem mappedCalls_flushes (m : Nat) (f : Bytes → Bytes) (ops : List (Option Bytes)) :
    sinkFlushes (mappedCalls m f ops) = sinkFlushes ops := by
  unfold mappedCalls dropT
  split <;> simp [foldl_callT_flushes, sinkFlushes_append, sinkFlushes]

/-- a short-writing / interrupted target ends up with the same bytes as a `Vec` -/
theorem sinkRunS_content (calls : List (Option Bytes)) : ∀ (script : List Nat) (got : Bytes),
    sinkRunS script got calls = got ++ sinkContent calls := by
  induction calls with
  | nil => intro script got; simp [sinkRunS, sinkContent]
  | cons c rest ih =>
    intro script got
    cases c with
    | none => simp [sinkRunS, sinkContent, ih]
    | some bytes => simp [sinkRunS, sinkContent, ih, writeAll_content, List.append_assoc]

end CnbVerif.MW
