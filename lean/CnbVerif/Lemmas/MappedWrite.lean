import CnbVerif.Model.MappedWrite
import CnbVerif.Spec.Streaming
/-! Helper lemmas for C19, model A (mapped writer, tee). -/
namespace CnbVerif.MW
open CnbVerif Spec.Streaming

theorem write_append (m : Nat) (f : Bytes → Bytes) (s : St) (a b : Bytes) :
    write m f s (a ++ b) = write m f (write m f s a) b := by
  simp [write, List.foldl_append]

theorem foldl_write_flatten (m : Nat) (f : Bytes → Bytes) (chunks : List Bytes) (s : St) :
    chunks.foldl (write m f) s = write m f s chunks.flatten := by
  induction chunks generalizing s with
  | nil => simp [write]
  | cons c cs ih => simp [List.flatten_cons, write_append, ih]

/-- put a pending buffer (which holds no marker) in front of a split -/
def prependBuf (buf : Bytes) (sr : List Bytes × Bytes) : List Bytes × Bytes :=
  match sr.1 with
  | [] => ([], buf ++ sr.2)
  | s :: ss => ((buf ++ s) :: ss, sr.2)

def emit (f : Bytes → Bytes) (sr : List Bytes × Bytes) : Bytes :=
  (sr.1.map f).flatten ++ (match sr.2 with | [] => [] | r => f r)

theorem prependBuf_nil (sr : List Bytes × Bytes) : prependBuf [] sr = sr := by
  obtain ⟨segs, rem⟩ := sr
  cases segs <;> simp [prependBuf]

theorem finish_write (m : Nat) (f : Bytes → Bytes) (input : Bytes) (s : St) :
    finish f (write m f s input) = s.out ++ emit f (prependBuf s.buf (segments m input)) := by
  induction input generalizing s with
  | nil =>
    obtain ⟨buf, out⟩ := s
    cases buf <;> simp [write, finish, segments, prependBuf, emit]
  | cons b rest ih =>
    have hw : write m f s (b :: rest) = write m f (stepByte m f s b) rest := by simp [write]
    rw [hw, ih]
    by_cases hb : b = m
    · subst hb
      simp only [stepByte, if_true, segments, prependBuf_nil]
      simp [prependBuf, emit, List.append_assoc]
    · simp only [stepByte, hb, if_false, segments]
      cases hseg : segments m rest with
      | mk segs rem =>
        cases segs with
        | nil => simp [prependBuf, List.append_assoc]
        | cons s1 ss => simp [prependBuf, List.append_assoc]

theorem teeRun_aux (chunks : List Bytes) (t : Tee) :
    chunks.foldl teeWrite t = ⟨t.a ++ chunks.flatten, t.b ++ chunks.flatten⟩ := by
  induction chunks generalizing t with
  | nil => simp
  | cons c cs ih => simp [ih, teeWrite, List.append_assoc]

/-! ### short-writing targets -/

/-- whatever the target's short-write / interrupt behaviour, `write_all` leaves it holding its previous content
followed by the whole buffer -/
theorem writeAll_content (script : List Nat) : ∀ (got buf : Bytes), (writeAll script got buf).1 = got ++ buf := by
  induction script with
  | nil => intro got buf; cases buf <;> simp [writeAll]
  | cons k rest ih =>
    intro got buf
    cases buf with
    | nil => simp [writeAll]
    | cons b bs =>
      cases k with
      | zero => simp only [writeAll]; exact ih got (b :: bs)
      | succ k =>
        simp only [writeAll]
        rw [ih, List.append_assoc, List.take_append_drop]

theorem teeRunS_aux (chunks : List Bytes) (t : TeeS) :
    (chunks.foldl teeWriteS t).a = t.a ++ chunks.flatten ∧ (chunks.foldl teeWriteS t).b = t.b ++ chunks.flatten := by
  induction chunks generalizing t with
  | nil => simp
  | cons c cs ih =>
    simp only [List.foldl_cons, List.flatten_cons]
    have ha : (teeWriteS t c).a = t.a ++ c := by simp [teeWriteS, writeAll_content]
    have hb : (teeWriteS t c).b = t.b ++ c := by simp [teeWriteS, writeAll_content]
    have := ih (teeWriteS t c)
    rw [ha, hb] at this
    simpa [List.append_assoc] using this

theorem stepByteS_sim (m : Nat) (f : Bytes → Bytes) (s : StS) (b : Nat) :
    (stepByteS m f s b).buf = (stepByte m f ⟨s.buf, s.out⟩ b).buf ∧
    (stepByteS m f s b).out = (stepByte m f ⟨s.buf, s.out⟩ b).out := by
  unfold stepByteS stepByte
  by_cases hb : b = m <;> simp [hb, writeAll_content]

theorem writeS_sim (m : Nat) (f : Bytes → Bytes) (chunk : Bytes) : ∀ (s : StS),
    (writeS m f s chunk).buf = (write m f ⟨s.buf, s.out⟩ chunk).buf ∧
    (writeS m f s chunk).out = (write m f ⟨s.buf, s.out⟩ chunk).out := by
  induction chunk with
  | nil => intro s; simp [writeS, write]
  | cons b bs ih =>
    intro s
    have h := stepByteS_sim m f s b
    have := ih (stepByteS m f s b)
    simp only [writeS, write, List.foldl_cons] at this ⊢
    rw [h.1, h.2] at this
    exact this

theorem foldl_writeS_sim (m : Nat) (f : Bytes → Bytes) (chunks : List Bytes) : ∀ (s : StS),
    (chunks.foldl (writeS m f) s).buf = (chunks.foldl (write m f) ⟨s.buf, s.out⟩).buf ∧
    (chunks.foldl (writeS m f) s).out = (chunks.foldl (write m f) ⟨s.buf, s.out⟩).out := by
  induction chunks with
  | nil => intro s; simp
  | cons c cs ih =>
    intro s
    have h := writeS_sim m f c s
    have := ih (writeS m f s c)
    simp only [List.foldl_cons]
    rw [h.1, h.2] at this
    exact this

end CnbVerif.MW
