import CnbVerif.Model.RmTree
/-! Lemmas for C11, part 1: the flat map, prefixes, path resolution along real directories, what each system call
can touch. -/
namespace CnbVerif.RmTree
open CnbVerif

/-! ### the flat map -/

theorem fget_ferase_self (fs : FS) (p : Path) : fget (ferase fs p) p = none := by
  induction fs with
  | nil => rfl
  | cons kv r ih =>
    obtain ⟨k, v⟩ := kv
    unfold ferase at ih ⊢
    by_cases h : k = p
    · simp only [List.filter_cons, h, decide_true, Bool.not_true, Bool.false_eq_true, if_false]; exact ih
    · simp only [List.filter_cons, h, decide_false, Bool.not_false, if_true, fget, if_false]; exact ih

theorem fget_ferase_ne (fs : FS) (p q : Path) (h : q ≠ p) : fget (ferase fs p) q = fget fs q := by
  induction fs with
  | nil => rfl
  | cons kv r ih =>
    obtain ⟨k, v⟩ := kv
    unfold ferase at ih ⊢
    by_cases hk : k = p
    · have hq : ¬ k = q := by intro e; exact h (e ▸ hk)
      simp only [List.filter_cons, hk, decide_true, Bool.not_true, Bool.false_eq_true, if_false, fget]
      rw [ih]
      have : ¬ p = q := fun e => h e.symm
      simp [this]
    · simp only [List.filter_cons, hk, decide_false, Bool.not_false, if_true, fget]
      rw [ih]

theorem fget_fset_self (fs : FS) (p : Path) (v : Node) : fget (fset fs p v) p = some v := by
  simp [fset, fget]

theorem fget_fset_ne (fs : FS) (p q : Path) (v : Node) (h : q ≠ p) : fget (fset fs p v) q = fget fs q := by
  have : ¬ p = q := fun e => h e.symm
  simp [fset, fget, this, fget_ferase_ne fs p q h]

/-! ### prefixes -/

theorem isPre_iff (a b : Path) : isPre a b = true ↔ ∃ r, b = a ++ r := by
  induction a generalizing b with
  | nil => simp [isPre]
  | cons x xs ih =>
    cases b with
    | nil => simp [isPre]
    | cons y ys =>
      by_cases h : x = y
      · subst h; simp [isPre, ih]
      · simp only [isPre, h, if_false, Bool.false_eq_true, false_iff]
        rintro ⟨r, hr⟩
        simp at hr
        exact h hr.1.symm

theorem isPre_refl (a : Path) : isPre a a = true := (isPre_iff a a).mpr ⟨[], by simp⟩

theorem isPre_append (a r : Path) : isPre a (a ++ r) = true := (isPre_iff _ _).mpr ⟨r, rfl⟩

theorem isPre_length {a b : Path} (h : isPre a b = true) : a.length ≤ b.length := by
  obtain ⟨r, rfl⟩ := (isPre_iff a b).mp h
  simp

theorem isPre_false_of_lt {a b : Path} (h : b.length < a.length) : isPre a b = false := by
  cases hp : isPre a b with
  | false => rfl
  | true => have := isPre_length hp; omega

theorem isPre_trans {a b c : Path} (h1 : isPre a b = true) (h2 : isPre b c = true) : isPre a c = true := by
  obtain ⟨r, rfl⟩ := (isPre_iff a b).mp h1
  obtain ⟨s, rfl⟩ := (isPre_iff _ c).mp h2
  exact (isPre_iff _ _).mpr ⟨r ++ s, by simp⟩

theorem isPre_snoc_false {p k : Path} (x : Name) (h : isPre p k = false) : isPre (p ++ [x]) k = false := by
  cases hp : isPre (p ++ [x]) k with
  | false => rfl
  | true =>
    have := isPre_trans (isPre_append p [x]) hp
    rw [this] at h; cases h

theorem isPre_snoc_self_false (p : Path) (x : Name) : isPre (p ++ [x]) p = false :=
  isPre_false_of_lt (by simp)

theorem isPre_snoc_snoc {p : Path} {x y : Name} (h : x ≠ y) : isPre (p ++ [x]) (p ++ [y]) = false := by
  cases hp : isPre (p ++ [x]) (p ++ [y]) with
  | false => rfl
  | true =>
    obtain ⟨r, hr⟩ := (isPre_iff _ _).mp hp
    have hl := congrArg List.length hr
    simp at hl
    have : r = [] := by cases r with
      | nil => rfl
      | cons a b => simp at hl
    subst this
    simp at hr
    exact absurd hr.symm h

theorem stripPre_eq_some {q k r : Path} (h : stripPre q k = some r) : k = q ++ r := by
  induction q generalizing k with
  | nil => simp [stripPre] at h; simp [h]
  | cons a as ih =>
    cases k with
    | nil => simp [stripPre] at h
    | cons b bs =>
      by_cases hab : a = b
      · subst hab
        simp [stripPre] at h
        simp [ih h]
      · simp [stripPre, hab] at h

/-! ### real directories along a path -/

/-- every non-empty proper prefix `pre` of `names` is a real directory below `cur` -/
def DirsAlong (fs : FS) (cur : Path) (names : List Name) : Prop :=
  ∀ pre y rest, names = pre ++ y :: rest → pre ≠ [] → isDirAt fs (cur ++ pre) = true

/-- the syntactic path `p` is its own canonical path as far as its parent: no link on the way -/
def Canon (fs : FS) (p : Path) : Prop := DirsAlong fs [] p

theorem canon_of_agree {s s' : FS} {p : Path} (h : Canon s p)
    (ha : ∀ pre y rest, p = pre ++ y :: rest → fget s' pre = fget s pre) : Canon s' p := by
  intro pre y rest hp hne
  have := h pre y rest hp hne
  simp only [List.nil_append] at this ⊢
  unfold isDirAt at this ⊢
  rw [ha pre y rest hp]; exact this

theorem canon_snoc {s : FS} {p : Path} (x : Name) (h : Canon s p) (hd : isDirAt s p = true) :
    Canon s (p ++ [x]) := by
  intro pre y rest hp hpre
  simp only [List.nil_append]
  -- either rest = [] and pre = p, or pre is a proper prefix of p
  rcases List.eq_nil_or_concat rest with hr | ⟨rest', z, hr⟩
  · subst hr
    have : p = pre ∧ x = y := by
      have := hp
      rw [show pre ++ [y] = pre ++ [y] from rfl] at this
      exact ⟨List.append_inj_left' this rfl, by simpa using List.append_inj_right' this rfl⟩
    rw [← this.1]; exact hd
  · subst hr
    have h2 : p ++ [x] = (pre ++ y :: rest') ++ [z] := by rw [hp]; simp
    have h3 : p = pre ++ y :: rest' := List.append_inj_left' h2 rfl
    have := h pre y rest' h3 hpre
    simpa using this

theorem canon_pair (s : FS) (a b : Name) (h : isDirAt s [a] = true) : Canon s [a, b] := by
  intro pre y rest hp hpre
  cases pre with
  | nil => exact absurd rfl hpre
  | cons c cs =>
    cases cs with
    | nil => simp at hp; simp [← hp.1, h]
    | cons d ds =>
      have := congrArg List.length hp
      simp at this

theorem canon_single (s : FS) (a : Name) : Canon s [a] := by
  intro pre y rest hp hpre
  cases pre with
  | nil => exact absurd rfl hpre
  | cons c cs =>
    have := congrArg List.length hp
    simp at this

/-! ### resolution along real directories -/

theorem walkComps_canon (root : Bool) (fs : FS) (follow : Bool) :
    ∀ (names : List Name) (cur : Path), names ≠ [] → DirsAlong fs cur names →
      walkComps root fs follow cur (names.map Comp.name) = .err .access ∨
      (walkComps root fs follow cur (names.map Comp.name) = .err .notFound ∧ fget fs (cur ++ names) = none) ∨
      (walkComps root fs follow cur (names.map Comp.name) = .done (cur ++ names) ∧
        ∃ v, fget fs (cur ++ names) = some v ∧ (follow = true → v.isLink = false)) ∨
      (follow = true ∧ isLinkAt fs (cur ++ names) = true ∧
        ∃ c cs, walkComps root fs follow cur (names.map Comp.name) = .expand c cs) := by
  intro names
  induction names with
  | nil => intro cur h; exact absurd rfl h
  | cons x rest ih =>
    intro cur _ hd
    cases rest with
    | nil =>
      simp only [List.map, walkComps]
      by_cases hs : searchOk root fs cur = true
      · simp only [hs, if_true]
        cases hg : fget fs (cur ++ [x]) with
        | none => right; left; simp
        | some v =>
          cases v with
          | file m c => right; right; left; simp [Node.isLink]
          | hard i m c => right; right; left; simp [Node.isLink]
          | dir m => right; right; left; simp [Node.isLink]
          | link t =>
            cases follow with
            | false => right; right; left; simp
            | true => right; right; right; simp [isLinkAt, hg]
      · left; simp [hs]
    | cons y rest' =>
      have hdir : isDirAt fs (cur ++ [x]) = true := hd [x] y rest' rfl (by simp)
      have hd' : DirsAlong fs (cur ++ [x]) (y :: rest') := by
        intro pre z r hp hpre
        have := hd (x :: pre) z r (by simp [hp]) (by simp)
        simpa using this
      have := ih (cur ++ [x]) (by simp) hd'
      unfold isDirAt at hdir
      cases hg : fget fs (cur ++ [x]) with
      | none => rw [hg] at hdir; cases hdir
      | some v =>
        rw [hg] at hdir
        cases v with
        | file m c => cases hdir
        | hard i m c => cases hdir
        | link t => cases hdir
        | dir m =>
          by_cases hs : searchOk root fs cur = true
          · have e : walkComps root fs follow cur ((x :: y :: rest').map Comp.name) =
                walkComps root fs follow (cur ++ [x]) ((y :: rest').map Comp.name) := by
              simp only [List.map, walkComps, hs, if_true, hg]
            rw [e]
            have e2 : cur ++ x :: y :: rest' = cur ++ [x] ++ y :: rest' := by simp
            rw [e2]; exact this
          · left; simp [List.map, walkComps, hs]

/-- the three outcomes of resolving a path whose parents are real directories -/
inductive Resolved (fs : FS) (p : Path) (r : Except Err Path) : Prop
  | access : r = .error .access → Resolved fs p r
  | absent : r = .error .notFound → fget fs p = none → Resolved fs p r
  | here (v : Node) : r = .ok p → fget fs p = some v → Resolved fs p r

theorem resolve_canon_nofollow (root : Bool) (fs : FS) (p : Path) (hne : p ≠ []) (hc : Canon fs p) :
    Resolved fs p (resolve root fs false p) := by
  have := walkComps_canon root fs false p [] hne hc
  simp only [List.nil_append] at this
  unfold resolve walk
  rcases this with h | ⟨h, hn⟩ | ⟨h, v, hv, _⟩ | ⟨h, _⟩
  · rw [h]; exact .access rfl
  · rw [h]; exact .absent rfl hn
  · rw [h]; exact .here v rfl hv
  · cases h

theorem resolve_canon_follow (root : Bool) (fs : FS) (p : Path) (hne : p ≠ []) (hc : Canon fs p)
    (hl : isLinkAt fs p = false) : Resolved fs p (resolve root fs true p) := by
  have := walkComps_canon root fs true p [] hne hc
  simp only [List.nil_append] at this
  unfold resolve walk
  rcases this with h | ⟨h, hn⟩ | ⟨h, v, hv, _⟩ | ⟨_, h, _⟩
  · rw [h]; exact .access rfl
  · rw [h]; exact .absent rfl hn
  · rw [h]; exact .here v rfl hv
  · rw [h] at hl; cases hl

/-- outcomes of `lstat`/`stat` on such a path -/
inductive Statted (fs : FS) (p : Path) (r : Except Err (Path × Node)) : Prop
  | access : r = .error .access → Statted fs p r
  | absent : r = .error .notFound → fget fs p = none → Statted fs p r
  | here (v : Node) : r = .ok (p, v) → fget fs p = some v → Statted fs p r

theorem lstat_canon (root : Bool) (fs : FS) (p : Path) (hne : p ≠ []) (hc : Canon fs p) :
    Statted fs p (lstat root fs p) := by
  unfold lstat
  cases resolve_canon_nofollow root fs p hne hc with
  | access h => rw [h]; exact .access rfl
  | absent h hn => rw [h]; exact .absent rfl hn
  | here v h hv => rw [h]; simp only [hv]; exact .here v rfl hv

theorem stat_canon (root : Bool) (fs : FS) (p : Path) (hne : p ≠ []) (hc : Canon fs p)
    (hl : isLinkAt fs p = false) : Statted fs p (stat root fs p) := by
  unfold stat
  cases resolve_canon_follow root fs p hne hc hl with
  | access h => rw [h]; exact .access rfl
  | absent h hn => rw [h]; exact .absent rfl hn
  | here v h hv => rw [h]; simp only [hv]; exact .here v rfl hv

/-! ### what each system call does to such a path -/

/-- `unlink p`: fails (not-found only if nothing is there) or erases exactly `p` -/
inductive Unlinked (fs : FS) (p : Path) (r : Except Err FS) : Prop
  | failed (e : Err) : r = .error e → (e = .notFound → fget fs p = none) → e ≠ .fuel → Unlinked fs p r
  | erased : r = .ok (ferase fs p) → (fget fs p).isSome = true → Unlinked fs p r

theorem unlink_canon (root : Bool) (fs : FS) (p : Path) (hne : p ≠ []) (hc : Canon fs p) :
    Unlinked fs p (unlink root fs p) := by
  unfold unlink
  cases lstat_canon root fs p hne hc with
  | access h => rw [h]; exact .failed .access rfl (by intro e; cases e) (by intro e; cases e)
  | absent h hn => rw [h]; exact .failed .notFound rfl (fun _ => hn) (by intro e; cases e)
  | here v h hv =>
    rw [h]
    cases v with
    | dir m => exact .failed .isDir rfl (by intro e; cases e) (by intro e; cases e)
    | file m c =>
      simp only
      by_cases hw : parentW root fs p = true
      · simp only [hw, if_true]; exact .erased rfl (by simp [hv])
      · simp only [hw]; exact .failed .access rfl (by intro e; cases e) (by intro e; cases e)
    | link t =>
      simp only
      by_cases hw : parentW root fs p = true
      · simp only [hw, if_true]; exact .erased rfl (by simp [hv])
      · simp only [hw]; exact .failed .access rfl (by intro e; cases e) (by intro e; cases e)
    | hard i m c =>
      simp only
      by_cases hw : parentW root fs p = true
      · simp only [hw, if_true]; exact .erased rfl (by simp [hv])
      · simp only [hw]; exact .failed .access rfl (by intro e; cases e) (by intro e; cases e)

theorem hasBelow_false {fs : FS} {q k : Path} (h : hasBelow fs q = false) (hp : isPre q k = true) (hne : k ≠ q) :
    fget fs k = none := by
  induction fs with
  | nil => rfl
  | cons kv r ih =>
    obtain ⟨k', v⟩ := kv
    simp only [hasBelow, List.any_cons, Bool.or_eq_false_iff] at h
    have ih' := ih (by simpa [hasBelow] using h.2)
    by_cases hk : k' = k
    · subst hk
      simp [hp, hne] at h
    · simp [fget, hk, ih']

/-- `rmdir p`: fails (not-found only if nothing is there) or erases exactly `p`, which had nothing below it -/
inductive Rmdired (fs : FS) (p : Path) (r : Except Err FS) : Prop
  | failed (e : Err) : r = .error e → (e = .notFound → fget fs p = none) → e ≠ .fuel → Rmdired fs p r
  | erased : r = .ok (ferase fs p) → hasBelow fs p = false → Rmdired fs p r

theorem rmdir_canon (root : Bool) (fs : FS) (p : Path) (hne : p ≠ []) (hc : Canon fs p) :
    Rmdired fs p (rmdir root fs p) := by
  unfold rmdir
  cases lstat_canon root fs p hne hc with
  | access h => rw [h]; exact .failed .access rfl (by intro e; cases e) (by intro e; cases e)
  | absent h hn => rw [h]; exact .failed .notFound rfl (fun _ => hn) (by intro e; cases e)
  | here v h hv =>
    rw [h]
    cases v with
    | file m c => exact .failed .notDir rfl (by intro e; cases e) (by intro e; cases e)
    | hard i m c => exact .failed .notDir rfl (by intro e; cases e) (by intro e; cases e)
    | link t => exact .failed .notDir rfl (by intro e; cases e) (by intro e; cases e)
    | dir m =>
      simp only
      by_cases hb : hasBelow fs p = true
      · simp only [hb, if_true]; exact .failed .notEmpty rfl (by intro e; cases e) (by intro e; cases e)
      · simp only [hb]
        by_cases hw : parentW root fs p = true
        · simp only [hw, if_true]; exact .erased rfl (by simpa using hb)
        · simp only [hw]; exact .failed .access rfl (by intro e; cases e) (by intro e; cases e)

/-- `chmod p` on a path that is neither a link nor a name of a shared inode: fails, or rewrites exactly `p` keeping its
kind -/
inductive Chmodded (fs : FS) (p : Path) (r : Except Err FS) : Prop
  | failed (e : Err) : r = .error e → (e = .notFound → fget fs p = none) → e ≠ .fuel → Chmodded fs p r
  | done (v v' : Node) : r = .ok (fset fs p v') → fget fs p = some v → v'.isDir = v.isDir → v'.isLink = false →
      Chmodded fs p r

theorem chmod_canon (root : Bool) (fs : FS) (p : Path) (m : Nat) (hne : p ≠ []) (hc : Canon fs p)
    (hl : isLinkAt fs p = false) (hh : isHardAt fs p = false) : Chmodded fs p (chmod root fs p m) := by
  unfold chmod
  cases stat_canon root fs p hne hc hl with
  | access h => rw [h]; exact .failed .access rfl (by intro e; cases e) (by intro e; cases e)
  | absent h hn => rw [h]; exact .failed .notFound rfl (fun _ => hn) (by intro e; cases e)
  | here v h hv =>
    rw [h]
    cases v with
    | file m' c => exact .done _ _ rfl hv rfl rfl
    | dir m' => exact .done _ _ rfl hv rfl rfl
    | link t => simp [isLinkAt, hv] at hl
    | hard i m' c => simp [isHardAt, hv] at hh

/-! ### directory listings -/

theorem mem_childNames {q : Path} {fs : FS} {x : Name} (h : x ∈ childNames q fs) :
    (fget fs (q ++ [x])).isSome = true := by
  induction fs with
  | nil => simp [childNames] at h
  | cons kv r ih =>
    obtain ⟨k, v⟩ := kv
    unfold childNames at h
    have step : ∀ (hx : x ∈ childNames q r), (fget ((k, v) :: r) (q ++ [x])).isSome = true := by
      intro hx
      unfold fget
      by_cases hk : k = q ++ [x]
      · simp [hk]
      · simp [hk, ih hx]
    split at h
    · rename_i x' hs
      have hk := stripPre_eq_some hs
      rcases List.mem_cons.mp h with rfl | h'
      · simp [fget, hk]
      · exact step (List.mem_filter.mp h').1
    · exact step h

theorem nodup_childNames (q : Path) (fs : FS) : (childNames q fs).Nodup := by
  induction fs with
  | nil => simp [childNames]
  | cons kv r ih =>
    obtain ⟨k, v⟩ := kv
    unfold childNames
    split
    · rename_i x' hs
      refine List.nodup_cons.mpr ⟨?_, ?_⟩
      · intro hm
        have := (List.mem_filter.mp hm).2
        simp at this
      · exact List.Pairwise.filter _ ih
    · exact ih

/-- `read_dir p` on a path that is not a link: fails, or lists distinct names of recorded children of a directory, an
entry flagged as a directory being one -/
inductive Listed (fs : FS) (p : Path) (r : Except Err (List (Name × Bool))) : Prop
  | failed (e : Err) : r = .error e → (e = .notFound → fget fs p = none) → e ≠ .fuel → Listed fs p r
  | done (es : List (Name × Bool)) : r = .ok es → isDirAt fs p = true → (es.map Prod.fst).Nodup →
      (∀ x ∈ es.map Prod.fst, (fget fs (p ++ [x])).isSome = true) →
      (∀ x, (x, true) ∈ es → isDirAt fs (p ++ [x]) = true) → Listed fs p r

theorem readDir_canon (root : Bool) (fs : FS) (p : Path) (hne : p ≠ []) (hc : Canon fs p)
    (hl : isLinkAt fs p = false) : Listed fs p (readDir root fs p) := by
  unfold readDir
  cases stat_canon root fs p hne hc hl with
  | access h => rw [h]; exact .failed .access rfl (by intro e; cases e) (by intro e; cases e)
  | absent h hn => rw [h]; exact .failed .notFound rfl (fun _ => hn) (by intro e; cases e)
  | here v h hv =>
    rw [h]
    cases v with
    | file m' c => exact .failed .notDir rfl (by intro e; cases e) (by intro e; cases e)
    | hard i m' c => exact .failed .notDir rfl (by intro e; cases e) (by intro e; cases e)
    | link t => exact .failed .notDir rfl (by intro e; cases e) (by intro e; cases e)
    | dir m' =>
      simp only
      by_cases hr : (root || bit m' 256) = true
      · simp only [hr, if_true]
        refine .done _ rfl (by simp [isDirAt, hv]) ?_ ?_ ?_
        · simp only [List.map_map]
          have : (Prod.fst ∘ fun x => (x, isDirAt fs (p ++ [x]))) = id := by funext x; rfl
          rw [this, List.map_id]; exact nodup_childNames p fs
        · intro x hx
          simp only [List.map_map] at hx
          have : (Prod.fst ∘ fun x => (x, isDirAt fs (p ++ [x]))) = id := by funext x; rfl
          rw [this, List.map_id] at hx
          exact mem_childNames hx
        · intro x hx
          obtain ⟨y, _, hy⟩ := List.mem_map.mp hx
          simp only [Prod.mk.injEq] at hy
          rw [← hy.1]; exact hy.2
      · simp only [hr]; exact .failed .access rfl (by intro e; cases e) (by intro e; cases e)

/-! ### names of shared inodes -/

theorem isHardAt_of_isDirAt {fs : FS} {p : Path} (h : isDirAt fs p = true) : isHardAt fs p = false := by
  unfold isDirAt at h; unfold isHardAt
  cases hg : fget fs p with
  | none => rfl
  | some v => rw [hg] at h; cases v <;> simp_all

theorem fget_chmodIno (i m : Nat) (fs : FS) (k : Path) :
    fget (chmodIno i m fs) k = (fget fs k).map (Node.remode i m) := by
  induction fs with
  | nil => rfl
  | cons kv r ih =>
    obtain ⟨k', v⟩ := kv
    unfold chmodIno at ih ⊢
    simp only [List.map_cons, fget]
    by_cases hk : k' = k
    · simp [hk]
    · simp only [hk, if_false]; exact ih

theorem isDirAt_chmodIno (i m : Nat) (fs : FS) (k : Path) : isDirAt (chmodIno i m fs) k = isDirAt fs k := by
  unfold isDirAt
  rw [fget_chmodIno]
  cases fget fs k with
  | none => rfl
  | some v =>
    cases v with
    | hard j m' c => by_cases h : j = i <;> simp [Node.remode, h]
    | file m' c => rfl
    | dir m' => rfl
    | link t => rfl

end CnbVerif.RmTree
