import CnbVerif.Lemmas.LayerTrait2
/-!
C02 lemmas, part 3: `handle_layer` (trait API) meets `Spec.handleOk` for every layer state satisfying the invariant
and every well-typed layer definition, and re-establishes the invariant.
-/
namespace CnbVerif
open Spec

/-! ### hypotheses on a layer definition (what the Rust types guarantee for every `Layer` implementation) -/

/-- a `LayerResult` as the public API can build it: an environment made by `insert`s (non-empty variable names, process
types not clashing with a launch file name), callback files outside libcnb's own entries, metadata of the layer's type -/
structure ResOk (mt : MetaT) (r : LResult) : Prop where
  env : (r.env.getD LayerEnv.empty).Ok
  files : FilesOk r.files
  typed : decodes mt r.mdata = true ∧ viewAs mt r.mdata = r.mdata

def CbOk (mt : MetaT) : Cb → Prop
  | .ok r => ResOk mt r
  | .fail => True

structure LOk (L : LDef) : Prop where
  create : CbOk L.mt L.create
  update : CbOk L.mt L.update
  /-- a replacement metadata is a value of the layer's metadata type (and therefore decodes as it) -/
  migrate : ∀ m, L.migrate = .replace m → decodes L.mt (some m) = true ∧ viewAs L.mt (some m) = some m

theorem viewAs_idem (mt : MetaT) (m : Option MetaTbl) : viewAs mt (viewAs mt m) = viewAs mt m := by
  cases mt <;> cases m <;> rfl

theorem decodes_viewAs (mt : MetaT) (m : Option MetaTbl) : decodes mt (viewAs mt m) = decodes mt m := by
  cases mt <;> cases m <;> rfl

theorem sameSboms_refl (a : List (Nat × Bytes)) : sameSboms a a = true := by
  unfold sameSboms
  simp only [Bool.and_self, List.all_eq_true, List.contains_iff_mem]
  exact fun x hx => hx

theorem tomlIs_doc (d : Option Dir) (t : LTypes) (m : Option MetaTbl) (sb : List (Nat × Bytes)) :
    tomlIs ⟨d, some (.doc (some t) m), sb⟩ t m = true := by simp [tomlIs]

/-! ### reading -/
theorem tReadLayer_doc (lp : Bytes) (d : Dir) (ty : Option LTypes) (m : Option MetaTbl) (sb : List (Nat × Bytes)) (mt : MetaT)
    (hdec : decodes mt m = true) (le' : LayerEnv) (hr : readFromLayerDir lp d = some le') :
    tReadLayer lp ⟨some d, some (.doc ty m), sb⟩ mt = (⟨some d, some (.doc ty m), sb⟩, .some m le') := by
  simp [tReadLayer, readLayer, hdec, hr]

theorem tReadLayer_undecodable (lp : Bytes) (d : Dir) (ty : Option LTypes) (m : Option MetaTbl) (sb : List (Nat × Bytes))
    (mt : MetaT) (hdec : decodes mt m = false) :
    tReadLayer lp ⟨some d, some (.doc ty m), sb⟩ mt = (⟨some d, some (.doc ty m), sb⟩, .parseErr) := by
  simp [tReadLayer, readLayer, hdec]

theorem tReadLayer_absent (lp : Bytes) (tm : Option Toml) (mt : MetaT) :
    tReadLayer lp ⟨none, tm, []⟩ mt = (Layer.absent, .none) := by
  cases tm <;> simp [tReadLayer, readLayer, Layer.absent]

theorem tReread_doc (lp : Bytes) (d : Dir) (ty : Option LTypes) (m : Option MetaTbl) (sb : List (Nat × Bytes)) (mt : MetaT)
    (hdec : decodes mt m = true) (le' : LayerEnv) (hr : readFromLayerDir lp d = some le') (log : List TCall) :
    tReread lp ⟨some d, some (.doc ty m), sb⟩ mt log = (⟨some d, some (.doc ty m), sb⟩, .data (viewAs mt m) le', log) := by
  simp [tReread, tReadLayer_doc lp d ty m sb mt hdec le' hr]

theorem wfl2_mk (d : Dir) (tm : Option Toml) (sb : List (Nat × Bytes)) (h : Shaped d) : WFL2 ⟨some d, tm, sb⟩ := by
  refine ⟨(by intro hd; cases hd), ?_⟩
  intro d' hd'
  simp only [Option.some.injEq] at hd'
  subst hd'; exact h

/-! ### create / update: the result is persisted -/
theorem tPersist_spec (lp : Bytes) (l : Layer) (d0 : Dir) (hd : l.dir = some d0) (hl : LayerOk d0) (hx : ExecdOk d0)
    (L : LDef) (r : LResult) (hr : ResOk L.mt r) (log : List TCall) :
    match progsOf r.execd with
    | none => ∃ post, tPersist lp l L r log = (post, .err .missingExecd, log) ∧ WFL2 post
    | some progs => ∃ d4 le', tPersist lp l L r log =
          (⟨some d4, some (.doc (some L.types) r.mdata), r.sboms⟩, .data r.mdata le', log) ∧
        ShapedBy (r.env.getD LayerEnv.empty) d4 ∧ ExecdOk d4 ∧ d4.get nExecd = execdNode progs ∧
        (∀ k, k ≠ nEnv → k ≠ nEnvBuild → k ≠ nEnvLaunch → k ≠ nExecd → d4.get k = d0.get k) ∧
        (∀ s env n, (le'.apply s env).get n = specVar lp d4 s env n) := by
  obtain ⟨d4, hs4, hx4, hf4, hm⟩ := tWriteLayer_replace l d0 hd hl hx (r.env.getD LayerEnv.empty) hr.env.proc
    (some L.types) r.mdata r.execd r.sboms
  cases hp : progsOf r.execd with
  | none =>
    rw [hp] at hm
    simp only [] at hm ⊢
    refine ⟨⟨some d4, some (.doc (some L.types) r.mdata), r.sboms⟩, ?_, wfl2_mk d4 _ _ ⟨⟨_, hr.env, hs4⟩, hx4⟩⟩
    simp [tPersist, hr.typed.2, hm]
  | some progs =>
    rw [hp] at hm
    simp only [] at hm ⊢
    obtain ⟨le', hrd, _, _, _, _, hspec⟩ := read_matches_disk _ hr.env lp d4 hs4
    refine ⟨d4, le', ?_, hs4, hx4, hm.2, hf4, hspec⟩
    simp only [tPersist, hr.typed.2, hm.1]
    rw [tReread_doc lp d4 _ _ _ L.mt hr.typed.1 le' hrd, hr.typed.2]

theorem persist_ok (lp : Bytes) (L : LDef) (probes : List (Scope × Env)) (strict : Bool) (pre : Layer)
    (r : LResult) (hr : ResOk L.mt r) (fresh : Bool) (elog : List TCall)
    (hexp : expectedT (Spec.classify pre L.mt) L = some (elog, .persist r fresh))
    (l : Layer) (d0 : Dir) (hd : l.dir = some d0) (hl : LayerOk d0) (hx : ExecdOk d0)
    (hframe : ∀ k, k ≠ nEnv → k ≠ nEnvBuild → k ≠ nEnvLaunch → k ≠ nExecd →
      d0.get k = (applyFiles (if fresh then [] else pre.dir.getD []) r.files).get k) :
    handleOk lp pre (tPersist lp l L r elog).1 L ((tPersist lp l L r elog).2.1.observe probes)
      (tPersist lp l L r elog).2.2 strict = true ∧ WFL2 (tPersist lp l L r elog).1 := by
  have hspec := tPersist_spec lp l d0 hd hl hx L r hr elog
  unfold handleOk
  rw [hexp]
  cases hp : progsOf r.execd with
  | none =>
    rw [hp] at hspec
    obtain ⟨post, he, hwf⟩ := hspec
    rw [he]
    exact ⟨by simp [hp, TOut.observe, isErr], hwf⟩
  | some progs =>
    rw [hp] at hspec
    obtain ⟨d4, le', he, hs4, hx4, hg4, hf4, hsp⟩ := hspec
    rw [he]
    refine ⟨?_, wfl2_mk d4 _ _ ⟨⟨_, hr.env, hs4⟩, hx4⟩⟩
    have h1 : seenAs L.mt r.mdata = r.mdata := by rw [← viewAs_eq]; exact hr.typed.2
    have h2 := persistDirOk_of (if fresh then [] else pre.dir.getD []) d4 r progs hs4 hg4
      (fun k a b c e => by rw [hf4 k a b c e]; exact hframe k a b c e)
    have h3 := readBackOk_of lp d4 le' hsp probes
    simp only [hp, TOut.observe, h1, tomlIs_doc, sameSboms_refl, h2, h3, beq_self_eq_true, Bool.and_self]

/-! ### create -/
theorem create_ok (lp : Bytes) (L : LDef) (hL : LOk L) (probes : List (Scope × Env)) (strict : Bool) (pre : Layer)
    (log0 : List TCall) (hexp : expectedT (Spec.classify pre L.mt) L = some (createT L log0)) :
    handleOk lp pre (tCreate lp Layer.absent L log0).1 L ((tCreate lp Layer.absent L log0).2.1.observe probes)
      (tCreate lp Layer.absent L log0).2.2 strict = true ∧ WFL2 (tCreate lp Layer.absent L log0).1 := by
  have hc := hL.create
  unfold tCreate
  simp only [Layer.absent, Option.getD_none, List.isEmpty_nil]
  cases hcr : L.create with
  | fail =>
    simp only []
    refine ⟨?_, wfl2_mk [] _ _ shaped_nil⟩
    unfold handleOk
    rw [hexp]
    simp [createT, hcr, TOut.observe, isErr]
  | ok r =>
    simp only []
    rw [hcr] at hc
    have hr : ResOk L.mt r := hc
    have hsp := applyFiles_special r.files hr.files []
    have hl : LayerOk (applyFiles [] r.files) :=
      ⟨Or.inl (by rw [hsp.1]; rfl), Or.inl (by rw [hsp.2.1]; rfl), Or.inl (by rw [hsp.2.2.1]; rfl)⟩
    have hx : ExecdOk (applyFiles [] r.files) := Or.inl (by rw [hsp.2.2.2]; rfl)
    exact persist_ok lp L probes strict pre r hr true (log0 ++ [.create true])
      (by rw [hexp]; simp [createT, hcr]) ⟨some (applyFiles [] r.files), none, []⟩ (applyFiles [] r.files) rfl hl hx
      (fun k _ _ _ _ => rfl)

/-! ### an existing layer whose metadata decodes -/
theorem valid_ok (lp : Bytes) (L : LDef) (hL : LOk L) (probes : List (Scope × Env)) (strict : Bool)
    (pre : Layer) (dpre : Dir) (hpd : pre.dir = some dpre) (lepre : LayerEnv) (hspre : ShapedBy lepre dpre)
    (d : Dir) (le : LayerEnv) (hok : le.Ok) (hs : ShapedBy le d) (hx : ExecdOk d) (hsame : EnvSame le lepre)
    (hframe : ∀ k, k ≠ nEnv → k ≠ nEnvBuild → k ≠ nEnvLaunch → d.get k = dpre.get k)
    (ty : Option LTypes) (m : Option MetaTbl) (sb : List (Nat × Bytes)) (hsb : pre.sboms = sb)
    (hty : storedTypes pre = ty)
    (hdec : decodes L.mt m = true) (log0 : List TCall)
    (hexp : expectedT (Spec.classify pre L.mt) L = some (afterValidT L m log0))
    (hstrict : strict = true → L.strategy = .keep → viewAs L.mt m = m) (fuel : Nat) :
    handleOk lp pre (tHandle lp L (fuel + 1) ⟨some d, some (.doc ty m), sb⟩ log0).1 L
      ((tHandle lp L (fuel + 1) ⟨some d, some (.doc ty m), sb⟩ log0).2.1.observe probes)
      (tHandle lp L (fuel + 1) ⟨some d, some (.doc ty m), sb⟩ log0).2.2 strict = true ∧
    WFL2 (tHandle lp L (fuel + 1) ⟨some d, some (.doc ty m), sb⟩ log0).1 := by
  obtain ⟨le1, hr1, ea, eb, el, eproc, _⟩ := read_matches_disk le hok lp d hs
  have hshaped : Shaped d := ⟨⟨le, hok, hs⟩, hx⟩
  -- a failing strategy / update callback: the layer is still what the pre-state was (apart from a metadata replacement)
  have hkd : keepDirOk dpre d = true := keepDirOk_of _ _ (sameOpt_envSame dpre d lepre le hspre hs hsame hframe)
  unfold tHandle
  rw [tReadLayer_doc lp d ty m sb L.mt hdec le1 hr1]
  simp only []
  cases hst : L.strategy with
  | fail =>
    simp only []
    refine ⟨?_, wfl2_mk d _ _ hshaped⟩
    unfold handleOk
    rw [hexp]
    simp [afterValidT, hst, TOut.observe, isErr, viewAs_eq, hpd, docIs, hty, hsb, sameSboms_refl, hkd]
  | recreate =>
    simp only [deleteLayer]
    exact create_ok lp L hL probes strict pre _ (by rw [hexp]; simp [afterValidT, hst, viewAs_eq])
  | update =>
    simp only []
    unfold tUpdate
    have hu := hL.update
    cases hup : L.update with
    | fail =>
      simp only []
      refine ⟨?_, wfl2_mk d _ _ hshaped⟩
      unfold handleOk
      rw [hexp]
      simp [afterValidT, hst, hup, TOut.observe, isErr, viewAs_eq, hpd, docIs, hty, hsb, sameSboms_refl, hkd]
    | ok r =>
      simp only [Option.map_some]
      rw [hup] at hu
      have hr : ResOk L.mt r := hu
      have hsp := applyFiles_special r.files hr.files d
      have hlok := shapedBy_layerOk hs
      have hl : LayerOk (applyFiles d r.files) :=
        ⟨envOk_of_get_eq hsp.1 hlok.env, envOk_of_get_eq hsp.2.1 hlok.build, envOk_of_get_eq hsp.2.2.1 hlok.launch⟩
      have hx' : ExecdOk (applyFiles d r.files) := execdOk_of_frame hsp.2.2.2 hx
      refine persist_ok lp L probes strict pre r hr false _
        (by rw [hexp]; simp [afterValidT, hst, hup, viewAs_eq]) _ (applyFiles d r.files) rfl hl hx' ?_
      intro k h1 h2 h3 _
      simp only [Bool.false_eq_true, if_false, hpd, Option.getD_some]
      rw [applyFiles_get, applyFiles_get, hframe k h1 h2 h3]
  | keep =>
    simp only []
    obtain ⟨hok1, hprocs⟩ := reread_env_ok le hok le1 ea eb el eproc
    have hsame1 : EnvSame le1 le := ⟨ea, eb, el, hprocs⟩
    obtain ⟨d2, hw, hs2, hf2⟩ := tWriteLayer_keep ⟨some d, some (.doc ty m), sb⟩ d rfl (shapedBy_layerOk hs) le1 hok1.proc
      (some L.types) (viewAs L.mt m)
    rw [hw]
    simp only []
    obtain ⟨le2, hr2, _, _, _, _, hsp2⟩ := read_matches_disk le1 hok1 lp d2 hs2
    rw [tReread_doc lp d2 _ _ _ L.mt (by rw [decodes_viewAs]; exact hdec) le2 hr2, viewAs_idem]
    have hx2 : ExecdOk d2 := execdOk_of_frame (hf2 _ nExecd_ne.1 nExecd_ne.2.1 nExecd_ne.2.2) hx
    refine ⟨?_, wfl2_mk d2 _ _ ⟨⟨le1, hok1, hs2⟩, hx2⟩⟩
    unfold handleOk
    rw [hexp]
    have hk : keepDirOk dpre d2 = true := by
      apply keepDirOk_of
      exact sameOpt_envSame dpre d2 lepre le1 hspre hs2 (hsame1.trans hsame)
        (fun k h1 h2 h3 => by rw [hf2 k h1 h2 h3]; exact hframe k h1 h2 h3)
    have hrb := readBackOk_of lp d2 le2 hsp2 probes
    have hmeta : (if strict = true then m else seenAs L.mt m) = viewAs L.mt m := by
      cases strict with
      | true => simp only [if_true]; exact (hstrict rfl hst).symm
      | false => simp [viewAs_eq]
    simp only [afterValidT, hst, TOut.observe, hpd, hmeta, viewAs_eq, tomlIs_doc, hsb, sameSboms_refl, hk, hrb,
      beq_self_eq_true, Bool.and_self]

end CnbVerif
