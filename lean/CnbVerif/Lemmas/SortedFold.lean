/-! A strictly increasing list over `Nat` keys folds like the enumeration of the key range. -/
namespace CnbVerif

def pick {α β} (k : α → Nat) (g : β → α → β) (m : List α) (p : β) (i : Nat) : β :=
  match m.find? (fun e => k e == i) with
  | some e => g p e
  | none => p

theorem foldl_pick_nil {α β} (k : α → Nat) (g : β → α → β) (l : List Nat) (p : β) :
    l.foldl (pick k g []) p = p := by
  induction l generalizing p with
  | nil => rfl
  | cons i t ih => simp [List.foldl_cons, pick, ih]

theorem foldl_pick_congr {α β} (k : α → Nat) (g : β → α → β) (m m' : List α) (l : List Nat) (p : β)
    (h : ∀ i ∈ l, m.find? (fun e => k e == i) = m'.find? (fun e => k e == i)) :
    l.foldl (pick k g m) p = l.foldl (pick k g m') p := by
  induction l generalizing p with
  | nil => rfl
  | cons i t ih =>
    simp only [List.foldl_cons]
    have hi : pick k g m p i = pick k g m' p i := by
      unfold pick; rw [h i (by simp)]
    rw [hi]
    exact ih _ (fun j hj => h j (by simp [hj]))

theorem foldl_sorted_range {α β} (k : α → Nat) (g : β → α → β) :
    ∀ (len lo : Nat) (m : List α) (p : β),
      m.Pairwise (fun a b => k a < k b) → (∀ e ∈ m, lo ≤ k e ∧ k e < lo + len) →
      m.foldl g p = (List.range' lo len).foldl (pick k g m) p := by
  intro len
  induction len with
  | zero =>
    intro lo m p _ hb
    cases m with
    | nil => rfl
    | cons e r => have := hb e (by simp); omega
  | succ len ih =>
    intro lo m p hs hb
    rw [List.range'_succ, List.foldl_cons]
    cases m with
    | nil => simp [pick, foldl_pick_nil]
    | cons e r =>
      have hs' := List.pairwise_cons.mp hs
      by_cases hk : k e = lo
      · have h1 : pick k g (e :: r) p lo = g p e := by simp [pick, hk]
        rw [h1, List.foldl_cons]
        have hr : ∀ x ∈ r, lo + 1 ≤ k x ∧ k x < lo + 1 + len := by
          intro x hx
          have := hs'.1 x hx
          have := hb x (by simp [hx])
          omega
        rw [ih (lo + 1) r (g p e) hs'.2 hr]
        apply foldl_pick_congr
        intro i hi
        have : lo + 1 ≤ i := (List.mem_range'_1.mp hi).1
        have hne : (k e == i) = false := by simp; omega
        simp [hne]
      · have hlo : lo < k e := by have := hb e (by simp); omega
        have hnone : (e :: r).find? (fun x => k x == lo) = none := by
          apply List.find?_eq_none.mpr
          intro x hx
          have : lo < k x := by
            rcases List.mem_cons.mp hx with rfl | hx
            · exact hlo
            · have := hs'.1 x hx; omega
          simp; omega
        have h1 : pick k g (e :: r) p lo = p := by simp [pick, hnone]
        rw [h1]
        apply ih (lo + 1) (e :: r) p hs
        intro x hx
        have hbx := hb x hx
        have : lo < k x := by
          rcases List.mem_cons.mp hx with rfl | hx
          · exact hlo
          · have := hs'.1 x hx; omega
        omega

end CnbVerif
