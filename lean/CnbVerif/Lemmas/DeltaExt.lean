import CnbVerif.Lemmas.EnvLayoutSpec
namespace CnbVerif
open Spec

theorem find_none_of_all_gt (t : Delta) (k : Bytes) (b : Beh) (n : Bytes) (hk : mkKey b n = k)
    (h : ∀ x ∈ t, bytesLt k x.key = true) : t.find b n = none := by
  induction t with
  | nil => rfl
  | cons x r ih =>
    rw [find_cons]
    have hx := h x (by simp)
    have hne : x.key ≠ mkKey b n := by
      rw [hk]; exact fun e => (bytesLt_ne hx) e.symm
    simp only [hne, if_false]
    exact ih (fun y hy => h y (by simp [hy]))

/-- **Deltas in map order are determined by their lookups** (a `BTreeMap` is its key ↦ value function). -/
theorem delta_ext (d d' : Delta) (hs : Sorted d) (hs' : Sorted d') (h : ∀ b n, d.find b n = d'.find b n) : d = d' := by
  induction d generalizing d' with
  | nil =>
    cases d' with
    | nil => rfl
    | cons y t' =>
      have := h y.beh y.name
      rw [find_cons] at this
      simp [Delta.find, Entry.key_eq] at this
  | cons x t ih =>
    cases d' with
    | nil =>
      have := h x.beh x.name
      rw [find_cons] at this
      simp [Delta.find, Entry.key_eq] at this
    | cons y t' =>
      have hsx := List.pairwise_cons.mp hs
      have hsy := List.pairwise_cons.mp hs'
      have hxin : x ∈ y :: t' := by
        apply (mem_iff_find _ hs' x).mpr
        rw [← h]; exact (mem_iff_find _ hs x).mp (by simp)
      have hyin : y ∈ x :: t := by
        apply (mem_iff_find _ hs y).mpr
        rw [h]; exact (mem_iff_find _ hs' y).mp (by simp)
      have hxy : x = y := by
        rcases List.mem_cons.mp hxin with e | hx
        · exact e
        · rcases List.mem_cons.mp hyin with e | hy
          · exact e.symm
          · exfalso
            have h1 := hsy.1 x hx
            have h2 := hsx.1 y hy
            have := bytesLt_trans h1 h2
            simp [bytesLt_irrefl] at this
      subst hxy
      congr 1
      apply ih t' hsx.2 hsy.2
      intro b n
      have hb := h b n
      rw [find_cons, find_cons] at hb
      by_cases hk : x.key = mkKey b n
      · rw [find_none_of_all_gt t x.key b n hk.symm hsx.1, find_none_of_all_gt t' x.key b n hk.symm hsy.1]
      · simpa [hk] using hb

/-- Two insert sequences that are permutations of each other (distinct keys) build the same deltas, for every scope
— including every process type — i.e. the two `LayerEnv` values are equal as Rust's `==` sees them. -/
theorem buildEnv_perm_scoped (ins ins' : List Ins) (hperm : ins.Perm ins') (hnd : (ins.map Ins.key).Nodup) (s : Scope) :
    (buildEnv ins).scoped s = (buildEnv ins').scoped s := by
  apply delta_ext _ _ (LayerEnv.scoped_sorted (wf_buildEnv ins) s) (LayerEnv.scoped_sorted (wf_buildEnv ins') s)
  intro b n
  rw [find_buildEnv, find_buildEnv]
  exact look_perm ins ins' hperm hnd s b n

end CnbVerif
