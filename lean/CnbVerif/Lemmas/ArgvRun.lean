import CnbVerif.Lemmas.ArgvValues
/-! `docker run` / `pack build`: the model's argv parsed back by the reference grammars. -/
set_option linter.unusedSimpArgs false
namespace CnbVerif.ArgvLemmas
open CnbVerif CnbVerif.Argv CnbVerif.Spec.Pflag

/-! ### the `BTreeMap` model keeps exactly what was inserted -/

theorem btInsert_mem {κ ν : Type} (lt : κ → κ → Bool) (k : κ) (v : ν) (l : List (κ × ν)) :
    ∀ kv ∈ btInsert lt k v l, (kv.1 = k ∨ ∃ a ∈ l, kv.1 = a.1) ∧ (kv.2 = v ∨ ∃ a ∈ l, kv.2 = a.2) := by
  induction l with
  | nil => intro kv h; simp [btInsert] at h; simp [h]
  | cons a r ih =>
    intro kv h
    obtain ⟨k', v'⟩ := a
    unfold btInsert at h
    split at h
    · simp only [List.mem_cons] at h
      rcases h with h | h | h
      · subst h; simp
      · subst h; exact ⟨Or.inr ⟨(k', v'), by simp, rfl⟩, Or.inr ⟨(k', v'), by simp, rfl⟩⟩
      · exact ⟨Or.inr ⟨kv, by simp [h], rfl⟩, Or.inr ⟨kv, by simp [h], rfl⟩⟩
    · split at h
      · simp only [List.mem_cons] at h
        rcases h with h | h
        · subst h; exact ⟨Or.inr ⟨(k', v'), by simp, rfl⟩, Or.inr ⟨(k', v'), by simp, rfl⟩⟩
        · obtain ⟨h1, h2⟩ := ih kv h
          refine ⟨?_, ?_⟩
          · rcases h1 with h1 | ⟨a, ha, e⟩
            · exact Or.inl h1
            · exact Or.inr ⟨a, by simp [ha], e⟩
          · rcases h2 with h2 | ⟨a, ha, e⟩
            · exact Or.inl h2
            · exact Or.inr ⟨a, by simp [ha], e⟩
      · simp only [List.mem_cons] at h
        rcases h with h | h
        · subst h; exact ⟨Or.inr ⟨(k', v'), by simp, rfl⟩, Or.inl rfl⟩
        · exact ⟨Or.inr ⟨kv, by simp [h], rfl⟩, Or.inr ⟨kv, by simp [h], rfl⟩⟩

theorem btFold_mem {κ ν : Type} (lt : κ → κ → Bool) (l acc : List (κ × ν)) :
    ∀ kv ∈ l.foldl (fun m kv => btInsert lt kv.1 kv.2 m) acc,
      (∃ a ∈ acc ++ l, kv.1 = a.1) ∧ (∃ a ∈ acc ++ l, kv.2 = a.2) := by
  induction l generalizing acc with
  | nil => intro kv h; exact ⟨⟨kv, by simpa using h, rfl⟩, ⟨kv, by simpa using h, rfl⟩⟩
  | cons x xs ih =>
    intro kv h
    simp only [List.foldl_cons] at h
    obtain ⟨⟨a, ha, e1⟩, ⟨b, hb, e2⟩⟩ := ih _ kv h
    refine ⟨?_, ?_⟩
    · rcases List.mem_append.mp ha with ha | ha
      · rcases (btInsert_mem lt x.1 x.2 acc a ha).1 with h1 | ⟨c, hc, e⟩
        · exact ⟨x, by simp, by rw [e1, h1]⟩
        · exact ⟨c, by simp [hc], by rw [e1, e]⟩
      · exact ⟨a, by simp [ha], e1⟩
    · rcases List.mem_append.mp hb with hb | hb
      · rcases (btInsert_mem lt x.1 x.2 acc b hb).2 with h1 | ⟨c, hc, e⟩
        · exact ⟨x, by simp, by rw [e2, h1]⟩
        · exact ⟨c, by simp [hc], by rw [e2, e]⟩
      · exact ⟨b, by simp [hb], e2⟩

/-- every key (value) of the map was a configured key (value) -/
theorem btOfList_mem {κ ν : Type} (lt : κ → κ → Bool) (l : List (κ × ν)) :
    ∀ kv ∈ btOfList lt l, (∃ a ∈ l, kv.1 = a.1) ∧ (∃ a ∈ l, kv.2 = a.2) := by
  intro kv h
  simpa using btFold_mem lt l [] kv h

/-- two keys the order tells apart -/
def Apart {κ : Type} (lt : κ → κ → Bool) (a b : κ) : Prop := lt a b = true ∨ lt b a = true

theorem btInsert_perm {κ ν : Type} (lt : κ → κ → Bool) (k : κ) (v : ν) (l : List (κ × ν))
    (h : ∀ a ∈ l, Apart lt k a.1) : (btInsert lt k v l).Perm ((k, v) :: l) := by
  induction l with
  | nil => simp [btInsert]
  | cons a r ih =>
    obtain ⟨k', v'⟩ := a
    have hr := ih (fun a ha => h a (List.mem_cons_of_mem _ ha))
    unfold btInsert
    split
    · exact List.Perm.refl _
    · split
      · exact (List.Perm.cons _ hr).trans (List.Perm.swap _ _ _)
      · rename_i h1 h2
        have := h (k', v') (by simp)
        simp [Apart] at this
        rcases this with t | t
        · exact absurd t h1
        · exact absurd t h2

theorem btFold_perm {κ ν : Type} (lt : κ → κ → Bool) (l acc : List (κ × ν))
    (hl : l.Pairwise (fun a b => Apart lt a.1 b.1)) (hacc : ∀ a ∈ acc, ∀ b ∈ l, Apart lt b.1 a.1) :
    (l.foldl (fun m kv => btInsert lt kv.1 kv.2 m) acc).Perm (l ++ acc) := by
  induction l generalizing acc with
  | nil => simp
  | cons x xs ih =>
    simp only [List.foldl_cons]
    have hx := List.pairwise_cons.mp hl
    have hp : (btInsert lt x.1 x.2 acc).Perm (x :: acc) :=
      btInsert_perm lt x.1 x.2 acc (fun a ha => hacc a ha x (by simp))
    have hacc' : ∀ a ∈ btInsert lt x.1 x.2 acc, ∀ b ∈ xs, Apart lt b.1 a.1 := by
      intro a ha b hb
      have := hp.mem_iff.mp ha
      simp only [List.mem_cons] at this
      rcases this with e | hm
      · subst e
        rcases hx.1 b hb with t | t
        · exact Or.inr t
        · exact Or.inl t
      · exact hacc a hm b (by simp [hb])
    have := ih (btInsert lt x.1 x.2 acc) hx.2 hacc'
    refine this.trans ?_
    refine (List.Perm.append_left xs hp).trans ?_
    simp only [List.cons_append]
    exact List.perm_middle

/-- with pairwise distinct keys nothing is lost, duplicated or merged: the map is a permutation of the entries -/
theorem btOfList_perm {κ ν : Type} (lt : κ → κ → Bool) (l : List (κ × ν))
    (hl : l.Pairwise (fun a b => Apart lt a.1 b.1)) : (btOfList lt l).Perm l := by
  have := btFold_perm lt l [] hl (by simp)
  simpa [btOfList] using this

theorem bsInsert_mem (x : Nat) (l : List Nat) : ∀ y ∈ bsInsert x l, y = x ∨ y ∈ l := by
  induction l with
  | nil => intro y h; simp [bsInsert] at h; simp [h]
  | cons a r ih =>
    intro y h
    unfold bsInsert at h
    split at h
    · simp only [List.mem_cons] at h; rcases h with h | h | h <;> simp [h]
    · split at h
      · simp only [List.mem_cons] at h
        rcases h with h | h
        · simp [h]
        · rcases ih y h with e | e <;> simp [e]
      · simp only [List.mem_cons] at h; rcases h with h | h <;> simp [h]

theorem bsOfList_mem (l : List Nat) : ∀ y ∈ bsOfList l, y ∈ l := by
  have gen : ∀ (l acc : List Nat), ∀ y ∈ l.foldl (fun s x => bsInsert x s) acc, y ∈ acc ∨ y ∈ l := by
    intro l
    induction l with
    | nil => intro acc y h; exact Or.inl (by simpa using h)
    | cons x xs ih =>
      intro acc y h
      simp only [List.foldl_cons] at h
      rcases ih _ y h with h | h
      · rcases bsInsert_mem x acc y h with e | e
        · exact Or.inr (by simp [e])
        · exact Or.inl e
      · exact Or.inr (by simp [h])
  intro y h
  rcases gen l [] y h with h | h
  · simp at h
  · exact h

theorem bsInsert_perm (x : Nat) (l : List Nat) (h : x ∉ l) : (bsInsert x l).Perm (x :: l) := by
  induction l with
  | nil => simp [bsInsert]
  | cons a r ih =>
    have hr := ih (fun m => h (by simp [m]))
    have hne : x ≠ a := fun e => h (by simp [e])
    unfold bsInsert
    split
    · exact List.Perm.refl _
    · split
      · exact (List.Perm.cons _ hr).trans (List.Perm.swap _ _ _)
      · omega

/-- distinct ports: the set is a permutation of the configured ports -/
theorem bsOfList_perm (l : List Nat) (hl : l.Nodup) : (bsOfList l).Perm l := by
  have gen : ∀ (l acc : List Nat), l.Nodup → (∀ a ∈ acc, a ∉ l) →
      (l.foldl (fun s x => bsInsert x s) acc).Perm (l ++ acc) := by
    intro l
    induction l with
    | nil => intro acc _ _; simp
    | cons x xs ih =>
      intro acc hnd hacc
      simp only [List.foldl_cons]
      have hx := List.nodup_cons.mp hnd
      have hxacc : x ∉ acc := fun m => hacc x m (by simp)
      have hp := bsInsert_perm x acc hxacc
      have hacc' : ∀ a ∈ bsInsert x acc, a ∉ xs := by
        intro a ha
        have := hp.mem_iff.mp ha
        simp only [List.mem_cons] at this
        rcases this with e | hm
        · subst e; exact hx.1
        · exact fun m => hacc a hm (by simp [m])
      refine (ih _ hx.2 hacc').trans ?_
      refine (List.Perm.append_left xs hp).trans ?_
      simp only [List.cons_append]
      exact List.perm_middle
  have := gen l [] hl (by simp)
  simpa [bsOfList] using this

/-! ### `docker run` -/

/-- the command line of `DockerRunCommand` as items of the grammar -/
def runItems (c : DockerRunCommand) : List Item :=
  [.flag1 w!"--name" w!"name" c.containerName]
  ++ (if c.detach then [.flag0 w!"--detach" w!"detach"] else [])
  ++ (if c.remove then [.flag0 w!"--rm" w!"rm"] else [])
  ++ (match c.platform with | some p => [.flag1 w!"--platform" w!"platform" p] | none => [])
  ++ (match c.entrypoint with | some e => [.flag1 w!"--entrypoint" w!"entrypoint" e] | none => [])
  ++ c.env.map (fun kv => .flag1 w!"--env" w!"env" (kv.1 ++ [61] ++ kv.2))
  ++ c.exposedPorts.map (fun p => .flag1 w!"--publish" w!"publish" (w!"127.0.0.1::" ++ natToDec p))
  ++ c.bindMounts.map (fun m => .flag1 w!"--mount" w!"mount" (w!"type=bind,source=" ++ m.1 ++ w!",target=" ++ m.2))

def cmdOf (c : DockerRunCommand) : List Word := match c.command with | some cmd => cmd | none => []

theorem encode_map_flag1 {α : Type} (l : List α) (wd n : Word) (f : α → Word) :
    encode (l.map (fun x => Item.flag1 wd n (f x))) = l.flatMap (fun x => [wd, f x]) := by
  induction l with
  | nil => rfl
  | cons x xs ih => simp [Item.words, ih]

theorem optsOf_map_flag1 {α : Type} (l : List α) (wd n : Word) (f : α → Word) :
    optsOf (l.map (fun x => Item.flag1 wd n (f x))) = l.map (fun x => (n, f x)) := by
  induction l with
  | nil => rfl
  | cons x xs ih => simp [Item.opt, ih]

theorem dockerRunArgv_eq (c : DockerRunCommand) :
    dockerRunArgv c = w!"run" :: (encode (runItems c) ++ c.imageName :: cmdOf c) := by
  unfold dockerRunArgv runItems cmdOf
  simp only [encode_append, encode_map_flag1]
  cases c.detach <;> cases c.remove <;> cases c.platform <;> cases c.entrypoint <;> cases c.command <;>
    simp [Item.words]

theorem runItems_wf (c : DockerRunCommand) : ∀ i ∈ runItems c, i.WF Spec.Docker.runFlags ∧ i.isFlag := by
  have h1 : classify Spec.Docker.runFlags w!"--name" = .needsArg [] w!"name" := by decide
  have h2 : classify Spec.Docker.runFlags w!"--detach" = .complete [(w!"detach", wTrue)] := by decide
  have h3 : classify Spec.Docker.runFlags w!"--rm" = .complete [(w!"rm", wTrue)] := by decide
  have h4 : classify Spec.Docker.runFlags w!"--platform" = .needsArg [] w!"platform" := by decide
  have h5 : classify Spec.Docker.runFlags w!"--entrypoint" = .needsArg [] w!"entrypoint" := by decide
  have h6 : classify Spec.Docker.runFlags w!"--env" = .needsArg [] w!"env" := by decide
  have h7 : classify Spec.Docker.runFlags w!"--publish" = .needsArg [] w!"publish" := by decide
  have h8 : classify Spec.Docker.runFlags w!"--mount" = .needsArg [] w!"mount" := by decide
  intro i hi
  unfold runItems at hi
  simp only [List.mem_append, List.mem_map, List.mem_singleton] at hi
  rcases hi with ((((((hi | hi) | hi) | hi) | hi) | ⟨_, _, hi⟩) | ⟨_, _, hi⟩) | ⟨_, _, hi⟩
  · subst hi; exact ⟨h1, trivial⟩
  · split at hi
    · simp at hi; subst hi; exact ⟨h2, trivial⟩
    · simp at hi
  · split at hi
    · simp at hi; subst hi; exact ⟨h3, trivial⟩
    · simp at hi
  · split at hi
    · simp at hi; subst hi; exact ⟨h4, trivial⟩
    · simp at hi
  · split at hi
    · simp at hi; subst hi; exact ⟨h5, trivial⟩
    · simp at hi
  · subst hi; exact ⟨h6, trivial⟩
  · subst hi; exact ⟨h7, trivial⟩
  · subst hi; exact ⟨h8, trivial⟩

/-- the (name, value) pairs the tokenizer must report -/
def runOpts (c : DockerRunCommand) : List (Word × Word) :=
  [(w!"name", c.containerName)]
  ++ (if c.detach then [(w!"detach", wTrue)] else [])
  ++ (if c.remove then [(w!"rm", wTrue)] else [])
  ++ (match c.platform with | some p => [(w!"platform", p)] | none => [])
  ++ (match c.entrypoint with | some e => [(w!"entrypoint", e)] | none => [])
  ++ c.env.map (fun kv => (w!"env", kv.1 ++ [61] ++ kv.2))
  ++ c.exposedPorts.map (fun p => (w!"publish", w!"127.0.0.1::" ++ natToDec p))
  ++ c.bindMounts.map (fun m => (w!"mount", w!"type=bind,source=" ++ m.1 ++ w!",target=" ++ m.2))

theorem optsOf_runItems (c : DockerRunCommand) : optsOf (runItems c) = runOpts c := by
  unfold runItems runOpts
  simp only [optsOf_append, optsOf_map_flag1]
  cases c.detach <;> cases c.remove <;> cases c.platform <;> cases c.entrypoint <;> simp [Item.opt]

/-- tokenizer level: every configured string arrives whole as the value of its own flag or as a positional word -/
theorem parseArgs_dockerRun (c : DockerRunCommand) (himg : c.imageName.head? ≠ some 45) :
    ∃ rest, dockerRunArgv c = w!"run" :: rest ∧
      parseArgs Spec.Docker.runFlags false rest = some ⟨runOpts c, c.imageName :: cmdOf c⟩ := by
  refine ⟨_, dockerRunArgv_eq c, ?_⟩
  rw [parseArgs_flags_then_pos _ _ _ _ (fun i hi => (runItems_wf c i hi).1) (fun i hi => (runItems_wf c i hi).2)
    (classify_positional _ _ himg), optsOf_runItems]

theorem valuesOf_nil (n : Word) : valuesOf [] n = [] := rfl

theorem valuesOf_cons (n' val : Word) (r : List (Word × Word)) (n : Word) :
    valuesOf ((n', val) :: r) n = if n' = n then val :: valuesOf r n else valuesOf r n := by
  by_cases h : n' = n
  · simp [valuesOf, h]
  · have : (n' == n) = false := by simpa using h
    simp [valuesOf, h, this]

theorem othersOf_nil (k : List Word) : othersOf [] k = [] := rfl

theorem othersOf_cons_known (n' val : Word) (r : List (Word × Word)) (k : List Word) (h : k.contains n' = true) :
    othersOf ((n', val) :: r) k = othersOf r k := by
  have hm : n' ∈ k := by simpa using h
  simp [othersOf, hm]

theorem allSome_map {α β : Type} (l : List α) (g : α → Option β) (h : α → β) (hg : ∀ x ∈ l, g x = some (h x)) :
    allSome (l.map g) = some (l.map h) := by
  induction l with
  | nil => rfl
  | cons x xs ih =>
    simp only [List.map_cons, allSome, hg x (by simp)]
    rw [ih (fun y hy => hg y (by simp [hy]))]
    rfl

/-- what the reference grammar must read out of `docker run …` for a command struct -/
def expectedRunOf (c : DockerRunCommand) : Spec.Docker.Run :=
  { name := some c.containerName, detach := c.detach, rm := c.remove, platform := c.platform,
    entrypoint := c.entrypoint, env := c.env.map (fun kv => (kv.1, some kv.2)),
    publish := c.exposedPorts.map (fun p => ⟨w!"127.0.0.1", [], p, w!"tcp"⟩),
    mounts := c.bindMounts.map (fun m => ⟨w!"bind", some m.1, m.2, false, []⟩),
    other := [], image := c.imageName, command := cmdOf c }

theorem interpretRun_runOpts (c : DockerRunCommand)
    (henv : ∀ kv ∈ c.env, 61 ∉ kv.1) (hports : ∀ p ∈ c.exposedPorts, p ≤ 65535)
    (hm : ∀ m ∈ c.bindMounts, CsvSafe m.1 ∧ CsvSafe m.2) :
    Spec.Docker.interpretRun ⟨runOpts c, c.imageName :: cmdOf c⟩ = some (expectedRunOf c) := by
  have hpub : allSome ((c.exposedPorts.map (fun p => w!"127.0.0.1::" ++ natToDec p)).map Spec.Docker.parsePublish)
      = some (c.exposedPorts.map (fun p => (⟨w!"127.0.0.1", [], p, w!"tcp"⟩ : Spec.Docker.PortSpec))) := by
    rw [List.map_map]
    exact allSome_map _ _ _ (fun p hp => docker_parsePublish p (hports p hp))
  have hmnt : allSome ((c.bindMounts.map (fun m => w!"type=bind,source=" ++ m.1 ++ w!",target=" ++ m.2)).map Spec.Docker.parseMount)
      = some (c.bindMounts.map (fun m => (⟨w!"bind", some m.1, m.2, false, []⟩ : Spec.Docker.Mount))) := by
    rw [List.map_map]
    exact allSome_map _ _ _ (fun m hmm => docker_parseMount m.1 m.2 (hm m hmm).1 (hm m hmm).2)
  have henv' : (c.env.map (fun kv => kv.1 ++ [61] ++ kv.2)).map Spec.Docker.splitEnv = c.env.map (fun kv => (kv.1, some kv.2)) := by
    rw [List.map_map]
    apply List.map_congr_left
    intro kv hkv
    exact docker_splitEnv kv.1 kv.2 (henv kv hkv)
  unfold Spec.Docker.interpretRun
  simp only []
  have vpub : valuesOf (runOpts c) w!"publish" = c.exposedPorts.map (fun p => w!"127.0.0.1::" ++ natToDec p) := by
    unfold runOpts
    cases c.detach <;> cases c.remove <;> cases c.platform <;> cases c.entrypoint <;>
      simp [valuesOf_append, valuesOf_map, valuesOf_cons, valuesOf_nil]
  have vmnt : valuesOf (runOpts c) w!"mount" = c.bindMounts.map (fun m => w!"type=bind,source=" ++ m.1 ++ w!",target=" ++ m.2) := by
    unfold runOpts
    cases c.detach <;> cases c.remove <;> cases c.platform <;> cases c.entrypoint <;>
      simp [valuesOf_append, valuesOf_map, valuesOf_cons, valuesOf_nil]
  have venv : valuesOf (runOpts c) w!"env" = c.env.map (fun kv => kv.1 ++ [61] ++ kv.2) := by
    unfold runOpts
    cases c.detach <;> cases c.remove <;> cases c.platform <;> cases c.entrypoint <;>
      simp [valuesOf_append, valuesOf_map, valuesOf_cons, valuesOf_nil]
  have vname : lastOf (runOpts c) w!"name" = some c.containerName := by
    unfold runOpts lastOf
    cases c.detach <;> cases c.remove <;> cases c.platform <;> cases c.entrypoint <;>
      simp [valuesOf_append, valuesOf_map, valuesOf_cons, valuesOf_nil]
  have vplat : lastOf (runOpts c) w!"platform" = c.platform := by
    unfold runOpts lastOf
    cases c.detach <;> cases c.remove <;> cases c.platform <;> cases c.entrypoint <;>
      simp [valuesOf_append, valuesOf_map, valuesOf_cons, valuesOf_nil]
  have vep : lastOf (runOpts c) w!"entrypoint" = c.entrypoint := by
    unfold runOpts lastOf
    cases c.detach <;> cases c.remove <;> cases c.platform <;> cases c.entrypoint <;>
      simp [valuesOf_append, valuesOf_map, valuesOf_cons, valuesOf_nil]
  have vdet : boolOf (runOpts c) w!"detach" = some c.detach := by
    unfold runOpts boolOf
    cases c.detach <;> cases c.remove <;> cases c.platform <;> cases c.entrypoint <;>
      simp [valuesOf_append, valuesOf_map, valuesOf_cons, valuesOf_nil, allSome, parseBool, wTrue]
  have vrm : boolOf (runOpts c) w!"rm" = some c.remove := by
    unfold runOpts boolOf
    cases c.detach <;> cases c.remove <;> cases c.platform <;> cases c.entrypoint <;>
      simp [valuesOf_append, valuesOf_map, valuesOf_cons, valuesOf_nil, allSome, parseBool, wTrue]
  have voth : othersOf (runOpts c) Spec.Docker.runKnown = [] := by
    unfold runOpts
    cases c.detach <;> cases c.remove <;> cases c.platform <;> cases c.entrypoint <;>
      simp [othersOf_append, othersOf_map, othersOf_cons_known, othersOf_nil, Spec.Docker.runKnown]
  rw [vpub, vmnt, venv, vname, vplat, vep, vdet, vrm, voth, hpub, hmnt, henv']
  rfl

/-- `parseDockerRun ∘ dockerRunArgv` for any command struct -/
theorem parseDockerRun_argv (c : DockerRunCommand) (himg : c.imageName.head? ≠ some 45)
    (henv : ∀ kv ∈ c.env, 61 ∉ kv.1) (hports : ∀ p ∈ c.exposedPorts, p ≤ 65535)
    (hm : ∀ m ∈ c.bindMounts, CsvSafe m.1 ∧ CsvSafe m.2) :
    Spec.Docker.parseDockerRun (dockerRunArgv c) = some (expectedRunOf c) := by
  obtain ⟨rest, e, hp⟩ := parseArgs_dockerRun c himg
  rw [e]
  simp only [Spec.Docker.parseDockerRun, if_true, hp]
  exact interpretRun_runOpts c henv hports hm

end CnbVerif.ArgvLemmas
