import CnbVerif.Lemmas.DepGraphBuild
/-!
C13 helper lemmas, third part: from node positions to buildpack ids. With pairwise distinct ids the map
"position ↦ id" is injective on the nodes and carries the edges of the created graph onto the declared
dependencies, so a build order of positions is a build order of ids.
-/
namespace CnbVerif.DepGraph
open CnbVerif.Spec.Topo

/-- the dependencies the buildpack with id `x` declares (none if there is no such buildpack) -/
def depsOf (nodes : List Node) (x : String) : List String :=
  match nodes.find? (fun nd => nd.id = x) with
  | some nd => nd.deps
  | none => []

/-- the id of the node at a position -/
def idAt (g : Graph) (i : Nat) : String := g.ids.getD i ""

theorem find?_of_nodup : ∀ {nodes : List Node} {u : Nat} {nd : Node}, (nodes.map (·.id)).Nodup → nodes[u]? = some nd →
    nodes.find? (fun x => x.id = nd.id) = some nd := by
  intro nodes
  induction nodes with
  | nil => intro u nd _ h; simp at h
  | cons x xs ih =>
    intro u nd hnd h
    have hnd' : x.id ∉ xs.map (·.id) ∧ (xs.map (·.id)).Nodup := List.nodup_cons.1 hnd
    cases u with
    | zero =>
      have : x = nd := by simpa using h
      subst this
      simp
    | succ u =>
      have hx : xs[u]? = some nd := by simpa using h
      have hmem : nd.id ∈ xs.map (·.id) := List.mem_map.2 ⟨nd, List.mem_of_getElem? hx, rfl⟩
      have hne : x.id ≠ nd.id := fun e => hnd'.1 (e ▸ hmem)
      rw [List.find?_cons]
      simp only [hne, decide_false]
      exact ih hnd'.2 hx

theorem resolves_map_id {ids : List String} {ds : List String} {row : List Nat} (h : Resolves ids ds row) :
    row.map (fun i => ids.getD i "") = ds := by
  induction h with
  | nil => rfl
  | cons hd _ ih =>
    have := (findIdx_some hd).2.1
    rw [List.map_cons, ih, List.getD_eq_getElem?_getD, this]
    rfl

theorem succ_out_of_range {g : Graph} {u : Nat} (h : g.size ≤ u) : g.succ u = [] := by
  unfold Graph.succ Graph.size at *
  simp [List.getD_eq_getElem?_getD, List.getElem?_eq_none h]

section
variable {nodes : List Node} {g : Graph} (hg : createGraph nodes = .ok g) (hnd : (nodes.map (·.id)).Nodup)

include hg in
theorem size_eq : g.size = nodes.length ∧ g.ids.length = nodes.length := by
  obtain ⟨hids, hadj⟩ := createGraph_ok hg
  exact ⟨by unfold Graph.size; exact hadj.length_eq.symm, by rw [hids]; simp⟩

include hg hnd in
/-- the edges of node `u`, read as ids, are the dependencies its buildpack declares -/
theorem succ_map_id {u : Nat} (hu : u < g.size) : (g.succ u).map (idAt g) = depsOf nodes (idAt g u) := by
  obtain ⟨hids, hadj⟩ := createGraph_ok hg
  have hlen := (size_eq hg).1
  have hun : u < nodes.length := by omega
  have hnu : nodes[u]? = some nodes[u] := List.getElem?_eq_getElem hun
  obtain ⟨row, hrow, hres⟩ := hadj.getElem? hnu
  have hs : g.succ u = row := by
    unfold Graph.succ
    simp [List.getD_eq_getElem?_getD, hrow]
  have hid : idAt g u = nodes[u].id := by
    unfold idAt
    rw [hids]
    simp [List.getD_eq_getElem?_getD, hnu]
  rw [hs, hid]
  unfold depsOf
  rw [find?_of_nodup hnd hnu]
  have := resolves_map_id hres
  rw [← hids] at this
  exact this

include hg hnd in
theorem idAt_inj {i j : Nat} (hi : i < g.size) (hj : j < g.size) (h : idAt g i = idAt g j) : i = j := by
  obtain ⟨hids, _⟩ := createGraph_ok hg
  obtain ⟨h1, h2⟩ := size_eq hg
  have hnd' : g.ids.Nodup := by rw [hids]; exact hnd
  have hi' : g.ids[i]? = some (idAt g i) := by
    unfold idAt
    rw [List.getD_eq_getElem?_getD, List.getElem?_eq_getElem (by omega)]
    rfl
  have hj' : g.ids[j]? = some (idAt g j) := by
    unfold idAt
    rw [List.getD_eq_getElem?_getD, List.getElem?_eq_getElem (by omega)]
    rfl
  have a := findIdx_of_nodup hnd' hi'
  have b := findIdx_of_nodup hnd' hj'
  rw [h, b] at a
  exact (Option.some.inj a).symm

include hg hnd in
/-- acyclic declared dependencies make the created graph acyclic -/
theorem acyclic_of_ids (hac : Acyclic (depsOf nodes)) : Acyclic g.succ := by
  obtain ⟨rank, hrank⟩ := hac
  refine ⟨fun i => rank (idAt g i), ?_⟩
  intro u w hw
  by_cases hu : u < g.size
  · apply hrank
    rw [← succ_map_id hg hnd hu]
    exact List.mem_map.2 ⟨w, hw, rfl⟩
  · rw [succ_out_of_range (Nat.le_of_not_lt hu)] at hw
    simp at hw

include hg hnd in
/-- a build order of positions, read as ids, is a build order of the declared dependency relation -/
theorem buildOrder_ids {roots : List String} {ridx out : List Nat} (hr : RootsAt g roots ridx)
    (h : IsBuildOrder g.succ ridx out) : IsBuildOrder (depsOf nodes) roots (out.map (idAt g)) := by
  have hwf := createGraph_wf hg
  have hrl := rootsAt_lt hg hr
  have hroots : ridx.map (idAt g) = roots := resolves_map_id hr
  -- reachable positions are real nodes and their ids are reachable
  have fwd : ∀ v, Reachable g.succ ridx v → v < g.size ∧ Reachable (depsOf nodes) roots (idAt g v) := by
    intro v hv
    induction hv with
    | root hmem => exact ⟨hrl _ hmem, .root (by rw [← hroots]; exact List.mem_map.2 ⟨_, hmem, rfl⟩)⟩
    | step _ hw ih =>
      refine ⟨hwf _ _ hw, .step ih.2 ?_⟩
      rw [← succ_map_id hg hnd ih.1]
      exact List.mem_map.2 ⟨_, hw, rfl⟩
  have bwd : ∀ y, Reachable (depsOf nodes) roots y → ∃ v, v < g.size ∧ idAt g v = y ∧ Reachable g.succ ridx v := by
    intro y hy
    induction hy with
    | root hmem =>
      rw [← hroots] at hmem
      obtain ⟨r, hr1, hr2⟩ := List.mem_map.1 hmem
      exact ⟨r, hrl r hr1, hr2, .root hr1⟩
    | step _ hw ih =>
      obtain ⟨u, hu, rfl, hru⟩ := ih
      rw [← succ_map_id hg hnd hu] at hw
      obtain ⟨w, hw1, hw2⟩ := List.mem_map.1 hw
      exact ⟨w, hwf _ _ hw1, hw2, .step hru hw1⟩
  have hout : ∀ v ∈ out, v < g.size := fun v hv => (fwd v ((h.exact v).1 hv)).1
  refine ⟨?_, ?_, ?_⟩
  · intro y
    constructor
    · intro hy
      obtain ⟨v, hv, rfl⟩ := List.mem_map.1 hy
      exact (fwd v ((h.exact v).1 hv)).2
    · intro hy
      obtain ⟨v, _, rfl, hv⟩ := bwd y hy
      exact List.mem_map.2 ⟨v, (h.exact v).2 hv, rfl⟩
  · -- injective on the nodes, so no duplicates appear
    have : ∀ (l : List Nat), (∀ v ∈ l, v < g.size) → l.Nodup → (l.map (idAt g)).Nodup := by
      intro l
      induction l with
      | nil => intro _ _; simp
      | cons x xs ih =>
        intro hl hn
        have hn' := List.nodup_cons.1 hn
        rw [List.map_cons]
        refine List.nodup_cons.2 ⟨?_, ih (fun v hv => hl v (List.mem_cons_of_mem _ hv)) hn'.2⟩
        intro hmem
        obtain ⟨y, hy1, hy2⟩ := List.mem_map.1 hmem
        have := idAt_inj hg hnd (hl y (List.mem_cons_of_mem _ hy1)) (hl x (by simp)) hy2
        exact hn'.1 (this ▸ hy1)
    exact this out hout h.nodup
  · intro pre' u' post' e w' hw'
    obtain ⟨l₁, l₂, e1, e2, e3⟩ := List.map_eq_append_iff.1 e
    obtain ⟨u, post, e4, e5, _⟩ := List.map_eq_cons_iff.1 e3
    subst e4
    have hu : u < g.size := hout u (by rw [e1]; simp)
    rw [← e5, ← succ_map_id hg hnd hu] at hw'
    obtain ⟨w, hw1, hw2⟩ := List.mem_map.1 hw'
    have := h.depsFirst l₁ u post e1 w hw1
    rw [← e2, ← hw2]
    exact List.mem_map.2 ⟨w, this, rfl⟩

end

end CnbVerif.DepGraph
