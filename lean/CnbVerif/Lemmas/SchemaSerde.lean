import CnbVerif.Lemmas.SchemaRead
/-! serde's real reader `decodeSerde` coincides with the kind-strict reader `decode` on every document that does not
touch its two leniencies (array for a struct, single-key table for a unit-variant enum). -/
namespace CnbVerif.Codec

theorem mapE_congr_mem {f g : TV → Except Err Val} {xs : List TV} (h : ∀ x ∈ xs, f x = g x) : mapE f xs = mapE g xs := by
  induction xs with
  | nil => rfl
  | cons x xs ih =>
    simp only [mapE, h x (List.mem_cons_self ..), ih (fun y hy => h y (List.mem_cons_of_mem _ hy))]

theorem mapKV_congr_mem {valid : String → Bool} {f g : TV → Except Err Val} {kvs : List (String × TV)}
    (h : ∀ kv ∈ kvs, f kv.2 = g kv.2) : mapKV valid f kvs = mapKV valid g kvs := by
  induction kvs with
  | nil => rfl
  | cons kv kvs ih =>
    obtain ⟨k, x⟩ := kv
    simp only [mapKV, h (k, x) (List.mem_cons_self ..), ih (fun y hy => h y (List.mem_cons_of_mem _ hy))]

theorem decodeStrsSerde_eq (buf : Bool) (v : StrV) (xs : List TV) (h : (∃ vs, v = .oneOf vs) → noTblElem xs = true) :
    decodeStrsSerde buf v xs = decodeStrs v xs := by
  induction xs with
  | nil => rfl
  | cons x xs ih =>
    cases x with
    | str s =>
      have := ih (fun hv => by have := h hv; simpa [noTblElem] using this)
      simp only [decodeStrsSerde, decodeStrs, this]
    | tbl kvs =>
      cases v with
      | oneOf vs => have := h ⟨vs, rfl⟩; simp [noTblElem] at this
      | _ => simp [decodeStrsSerde, decodeStrs]
    | _ => simp [decodeStrsSerde, decodeStrs]

mutual
theorem decodeSerde_eq : ∀ (buf : Bool) (s : Schema) (t : TV), lenientFree s t = true → decodeSerde buf s t = decode s t
  | buf, .str v, t, h => by
    cases t with
    | tbl kvs => cases v <;> first | (simp [lenientFree] at h; done) | simp [decodeSerde, decode]
    | str s =>
      cases v with
      | uri =>
        simp only [lenientFree, Bool.or_eq_true, beq_iff_eq] at h
        simp only [decodeSerde, decode, StrV.serdeNorm, StrV.norm]
        rcases h with h | h <;> simp [h]
      | _ => simp [decodeSerde, decode, StrV.serdeNorm]
    | _ => simp [decodeSerde, decode]
  | buf, .int, t, _ => by cases t <;> simp [decodeSerde, decode]
  | buf, .bool, t, _ => by cases t <;> simp [decodeSerde, decode]
  | buf, .any, t, _ => by simp [decodeSerde, decode]
  | buf, .table, t, _ => by cases t <;> simp [decodeSerde, decode]
  | buf, .vec s, t, h => by
    cases t with
    | arr xs =>
      simp only [lenientFree, List.all_eq_true] at h
      simp only [decodeSerde, decode]
      rw [mapE_congr_mem (fun x hx => decodeSerde_eq buf s x (h x hx))]
    | _ => simp [decodeSerde, decode]
  | buf, .set v, t, h => by
    cases t with
    | arr xs =>
      simp only [decodeSerde, decode]
      rw [decodeStrsSerde_eq buf v xs (fun ⟨vs, hv⟩ => by subst hv; simpa [lenientFree] using h)]
    | _ => simp [decodeSerde, decode]
  | buf, .map k s, t, h => by
    cases t with
    | tbl kvs =>
      simp only [lenientFree, List.all_eq_true] at h
      simp only [decodeSerde, decode]
      rw [mapKV_congr_mem (fun kv hkv => decodeSerde_eq buf s kv.2 (h kv hkv))]
    | _ => simp [decodeSerde, decode]
  | buf, .struct d fs, t, h => by
    cases t with
    | tbl kvs =>
      simp only [lenientFree] at h
      simp only [decodeSerde, decode, decodeFieldsSerde_eq buf fs kvs h]
    | arr xs => simp [lenientFree] at h
    | _ => simp [decodeSerde, decode]
  | buf, .untagged vs, t, h => by
    simp only [lenientFree] at h
    simp only [decodeSerde, decode]
    exact decodeFirstSerde_eq vs t h 0

theorem decodeFieldsSerde_eq : ∀ (buf : Bool) (fs : List Field) (kvs : List (String × TV)), lenientFreeFields fs kvs = true →
    decodeFieldsSerde buf fs kvs = decodeFields fs kvs
  | _, [], _, _ => rfl
  | buf, ⟨key, pres, sk, ne, s, pos⟩ :: fs, kvs, h => by
    simp only [lenientFreeFields, Bool.and_eq_true] at h
    have ih := decodeFieldsSerde_eq buf fs kvs h.2
    simp only [decodeFieldsSerde, decodeFields, ih]
    cases hl : kvs.lookup key with
    | none => rfl
    | some t =>
      have := h.1
      simp only [hl] at this
      simp only [decodeSerde_eq buf s t this]

theorem decodeFirstSerde_eq : ∀ (vs : List Schema) (t : TV), lenientFreeAll vs t = true → ∀ i, decodeFirstSerde vs i t = decodeFirst vs i t
  | [], _, _, _ => rfl
  | s :: vs, t, h, i => by
    simp only [lenientFreeAll, Bool.and_eq_true] at h
    simp only [decodeFirstSerde, decodeFirst, decodeSerde_eq true s t h.1, decodeFirstSerde_eq vs t h.2 (i + 1)]
end

end CnbVerif.Codec
