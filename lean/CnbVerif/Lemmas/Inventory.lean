import CnbVerif.Model.Inventory
import CnbVerif.Spec.Inventory
/-! Helper lemmas for C18: the two "maximum" folds, the `selects` filter. -/
namespace CnbVerif.Inventory
open CnbVerif CnbVerif.Spec.Inventory

/-! ### `max_by_key` (total order) -/

theorem foldl_max_spec {α V : Type} {cmp : V → V → Ordering} (laws : TotalLaws cmp) (key : α → V) :
    ∀ (xs pre : List α) (acc : α), acc ∈ pre → (∀ w ∈ pre, cmp (key acc) (key w) ≠ .lt) →
      (xs.foldl (maxStep cmp key) acc) ∈ pre ++ xs ∧
      ∀ w ∈ pre ++ xs,
        cmp (key (xs.foldl (maxStep cmp key) acc)) (key w) ≠ .lt := by
  intro xs
  induction xs with
  | nil => intro pre acc hm hmax; simpa using ⟨hm, hmax⟩
  | cons x xs ih =>
    intro pre acc hm hmax
    simp only [List.foldl_cons]
    have hpre : pre ++ x :: xs = (pre ++ [x]) ++ xs := by simp
    rw [hpre]
    cases hc : cmp (key acc) (key x) with
    | gt =>
      have hs : maxStep cmp key acc x = acc := by simp [maxStep, hc]
      rw [hs]
      apply ih (pre ++ [x]) acc (by simp [hm])
      intro w hw
      rcases List.mem_append.mp hw with hw | hw
      · exact hmax w hw
      · simp at hw; subst hw; simp [hc]
    | lt =>
      have hs : maxStep cmp key acc x = x := by simp [maxStep, hc]
      rw [hs]
      apply ih (pre ++ [x]) x (by simp)
      intro w hw
      rcases List.mem_append.mp hw with hw | hw
      · intro hlt
        exact hmax w hw (laws.lt_trans _ _ _ hc hlt)
      · simp at hw; subst hw; exact laws.lt_irrefl _
    | eq =>
      have hs : maxStep cmp key acc x = x := by simp [maxStep, hc]
      rw [hs]
      apply ih (pre ++ [x]) x (by simp)
      intro w hw
      rcases List.mem_append.mp hw with hw | hw
      · intro hlt
        exact hmax w hw (laws.eq_lt_trans _ _ _ hc hlt)
      · simp at hw; subst hw; exact laws.lt_irrefl _

theorem maxByKeyLast_spec {α V : Type} {cmp : V → V → Ordering} (laws : TotalLaws cmp) (key : α → V) (l : List α) :
    match maxByKeyLast cmp key l with
    | none => l = []
    | some r => r ∈ l ∧ ∀ w ∈ l, cmp (key r) (key w) ≠ .lt := by
  cases l with
  | nil => simp [maxByKeyLast]
  | cons x xs =>
    simp only [maxByKeyLast]
    have := foldl_max_spec laws key xs [x] x (by simp) (by intro w hw; simp at hw; subst hw; exact laws.lt_irrefl _)
    simpa using this

/-! ### `partial_max_by_key` (partial order) -/

theorem foldl_partial_spec {α V : Type} {pcmp : V → V → Option Ordering} (laws : PartialLaws pcmp) (key : α → V) :
    ∀ (xs pre : List α) (acc : α), acc ∈ pre → (∀ w ∈ pre, pcmp (key acc) (key w) ≠ some .lt) →
      ∃ r, xs.foldl (partialStep pcmp key) (some acc) = some r ∧ r ∈ pre ++ xs ∧
        ∀ w ∈ pre ++ xs, pcmp (key r) (key w) ≠ some .lt := by
  intro xs
  induction xs with
  | nil => intro pre acc hm hmax; exact ⟨acc, rfl, by simpa using hm, by simpa using hmax⟩
  | cons x xs ih =>
    intro pre acc hm hmax
    simp only [List.foldl_cons]
    have hpre : pre ++ x :: xs = (pre ++ [x]) ++ xs := by simp
    rw [hpre]
    -- the item replaces the accumulator
    have hrepl : (pcmp (key x) (key acc) = some .gt ∨ pcmp (key x) (key acc) = some .eq) →
        ∃ r, xs.foldl (partialStep pcmp key) (some x) = some r ∧ r ∈ (pre ++ [x]) ++ xs ∧
          ∀ w ∈ (pre ++ [x]) ++ xs, pcmp (key r) (key w) ≠ some .lt := by
      intro hc
      apply ih (pre ++ [x]) x (by simp)
      intro w hw
      rcases List.mem_append.mp hw with hw | hw
      · intro hlt
        rcases hc with hc | hc
        · exact hmax w hw (laws.lt_trans _ _ _ (laws.lt_of_gt _ _ hc) hlt)
        · exact hmax w hw (laws.eq_lt _ _ _ hc hlt)
      · simp at hw; subst hw; exact laws.lt_irrefl _
    -- the accumulator is kept
    have hkeep : pcmp (key x) (key acc) ≠ some .gt →
        ∃ r, xs.foldl (partialStep pcmp key) (some acc) = some r ∧ r ∈ (pre ++ [x]) ++ xs ∧
          ∀ w ∈ (pre ++ [x]) ++ xs, pcmp (key r) (key w) ≠ some .lt := by
      intro hc
      apply ih (pre ++ [x]) acc (by simp [hm])
      intro w hw
      rcases List.mem_append.mp hw with hw | hw
      · exact hmax w hw
      · simp at hw; subst hw
        intro hlt
        exact hc (laws.gt_of_lt _ _ hlt)
    cases hc : pcmp (key x) (key acc) with
    | none => simpa [partialStep, hc] using hkeep (by simp [hc])
    | some o =>
      cases o with
      | lt => simpa [partialStep, hc] using hkeep (by simp [hc])
      | eq => simpa [partialStep, hc] using hrepl (Or.inr hc)
      | gt => simpa [partialStep, hc] using hrepl (Or.inl hc)

theorem partialMaxByKey_spec {α V : Type} {pcmp : V → V → Option Ordering} (laws : PartialLaws pcmp) (key : α → V)
    (l : List α) :
    match partialMaxByKey pcmp key l with
    | none => l = []
    | some r => r ∈ l ∧ ∀ w ∈ l, pcmp (key r) (key w) ≠ some .lt := by
  cases l with
  | nil => simp [partialMaxByKey]
  | cons x xs =>
    simp only [partialMaxByKey, List.foldl_cons, partialStep]
    obtain ⟨r, hr, hm, hmax⟩ := foldl_partial_spec laws key xs [x] x (by simp)
      (by intro w hw; simp at hw; subst hw; exact laws.lt_irrefl _)
    rw [hr]
    exact ⟨by simpa using hm, by simpa using hmax⟩

/-! ### the filter -/

theorem selects_iff {V M : Type} (os : Os) (arch : Arch) (req : Req V M) (a : Artifact V M) :
    selects os arch req a = true ↔ Matches os arch req a := by
  simp [selects, Matches, and_assoc]

/-- a "maximum of the filtered list" is an acceptable resolution result -/
theorem acceptable_of_filter_max {V M : Type} (lt : V → V → Bool) (inv : List (Artifact V M)) (os : Os) (arch : Arch)
    (req : Req V M) (res : Option (Artifact V M))
    (h : match res with
      | none => inv.filter (selects os arch req) = []
      | some r => r ∈ inv.filter (selects os arch req) ∧ ∀ w ∈ inv.filter (selects os arch req), lt r.version w.version = false) :
    Acceptable lt inv os arch req res := by
  cases res with
  | none =>
    intro w hw hmatch
    have : w ∈ inv.filter (selects os arch req) := List.mem_filter.mpr ⟨hw, (selects_iff _ _ _ _).mpr hmatch⟩
    simp only at h
    rw [h] at this
    simp at this
  | some r =>
    obtain ⟨hm, hmax⟩ := h
    have hm' := List.mem_filter.mp hm
    exact ⟨hm'.1, (selects_iff _ _ _ _).mp hm'.2,
      fun w hw hmatch => hmax w (List.mem_filter.mpr ⟨hw, (selects_iff _ _ _ _).mpr hmatch⟩)⟩

/-! ### the harness's two version orders are lawful -/

theorem natCmp_laws : TotalLaws natCmp := by
  constructor
  · intro a; simp [natCmp]
  · intro a b c; simp only [natCmp, Nat.compare_eq_lt]; omega
  · intro a b c; simp only [natCmp, Nat.compare_eq_lt, Nat.compare_eq_eq]; omega

theorem pairPCmp_lt (a b : Nat × Nat) : pairPCmp a b = some .lt ↔ a.1 ≤ b.1 ∧ a.2 ≤ b.2 ∧ ¬ (a.1 = b.1 ∧ a.2 = b.2) := by
  unfold pairPCmp
  split
  · rename_i h; simp [h]
  · rename_i h
    split
    · rename_i h2; simp [h2]; omega
    · rename_i h2
      split <;> simp <;> omega

theorem pairPCmp_gt (a b : Nat × Nat) : pairPCmp a b = some .gt ↔ b.1 ≤ a.1 ∧ b.2 ≤ a.2 ∧ ¬ (a.1 = b.1 ∧ a.2 = b.2) := by
  unfold pairPCmp
  split
  · rename_i h; simp [h]
  · rename_i h
    split
    · rename_i h2; simp; omega
    · rename_i h2
      split
      · rename_i h3; simp [h3]; omega
      · simp; omega

theorem pairPCmp_eq (a b : Nat × Nat) : pairPCmp a b = some .eq ↔ a.1 = b.1 ∧ a.2 = b.2 := by
  unfold pairPCmp
  split
  · rename_i h; simp [h]
  · rename_i h
    split
    · simp; omega
    · split <;> simp <;> omega

theorem pairPCmp_laws : PartialLaws pairPCmp := by
  constructor
  · intro a; rw [Ne, pairPCmp_lt]; omega
  · intro a b; rw [pairPCmp_gt, pairPCmp_lt]; omega
  · intro a b; rw [pairPCmp_lt, pairPCmp_gt]; omega
  · intro a b c; rw [pairPCmp_lt, pairPCmp_lt, pairPCmp_lt]; omega
  · intro a b c; rw [pairPCmp_eq, pairPCmp_lt, pairPCmp_lt]; omega

end CnbVerif.Inventory
