import CnbVerif.Spec.LayerSpec
import CnbVerif.Lemmas.NodeEq
namespace CnbVerif
open Spec

/-- reachable-state invariant of one layer: SBOM files never outlive the layer directory -/
def WFL (l : Layer) : Prop := l.dir = none → l.sboms = []

theorem optBeq_refl (d : Option Dir) : Dir.optBeq d d = true := (Dir.optBeq_iff d d).mpr rfl

theorem layerEq_refl (l : Layer) : layerEq l l = true := by
  simp [layerEq, optBeq_refl]

theorem decodes_eq (mt : MetaT) (m : Option MetaTbl) : decodes mt m = canDecode mt m := by
  cases mt <;> cases m <;> rfl

theorem viewAs_eq (mt : MetaT) (m : Option MetaTbl) : viewAs mt m = seenAs mt m := by
  cases mt <;> cases m <;> rfl

theorem readLayer_keeps (l : Layer) (mt : MetaT) :
    (readLayer l mt).1.dir = l.dir ∧ (readLayer l mt).1.sboms = l.sboms := by
  obtain ⟨dir, toml, sb⟩ := l
  cases dir <;> cases toml <;> simp [readLayer]
  all_goals (rename_i tm; cases tm <;> simp)

/-- `handle_layer` keeps the invariant, whatever the callbacks answer and however often it re-enters -/
theorem handle_wf (t : LTypes) (mt : MetaT) (ci : CbInv) (cr : CbRes) :
    ∀ (fuel : Nat) (l : Layer) (log : List CbCall), WFL l → WFL (handleLayer l t mt ci cr fuel log).1 := by
  intro fuel
  induction fuel with
  | zero => intro l log h; simpa [handleLayer] using h
  | succ f ih =>
    intro l log h
    have hk := readLayer_keeps l mt
    have h1 : WFL (readLayer l mt).1 := by
      intro hd; rw [hk.2]; exact h (by rw [← hk.1]; exact hd)
    unfold handleLayer
    generalize hr : readLayer l mt = r at h1
    obtain ⟨l1, res⟩ := r
    simp only at h1
    cases res with
    | none => simp [createLayer, WFL]
    | some m =>
      simp only []
      cases cr with
      | fail => exact h1
      | delete c => simp [createLayer, WFL]
      | keep c =>
        simp only []
        cases hrt : replaceTypes l1 t with
        | none => exact h1
        | some l2 =>
          simp only []
          unfold replaceTypes at hrt
          split at hrt
          · simp only [Option.some.injEq] at hrt; subst hrt; exact h1
          · cases hrt
    | parseErr =>
      simp only []
      cases htm : l1.toml with
      | none => exact h1
      | some tm =>
        cases tm with
        | broken => exact h1
        | doc ty m =>
          simp only []
          cases ci with
          | fail => exact h1
          | delete c => simp [createLayer, WFL]
          | replace m' c =>
            simp only [replaceMeta, htm]
            apply ih
            exact h1

/-- what `handle_layer` does with a decodable existing layer -/
def validResult (d : Dir) (ty : Option LTypes) (m : Option MetaTbl) (sb : List (Nat × Bytes)) (t : LTypes) (mt : MetaT)
    (cr : CbRes) (log : List CbCall) : Layer × Out × List CbCall :=
  match cr with
  | .fail => (⟨some d, some (.doc ty m), sb⟩, .err .buildpack, log ++ [.res (viewAs mt m)])
  | .delete c => (⟨some [], some (.doc (some t) none), []⟩, .emptyRes c, log ++ [.res (viewAs mt m)])
  | .keep c => (⟨some d, some (.doc (some t) m), sb⟩, .restored c, log ++ [.res (viewAs mt m)])

/-- a decodable existing layer: the restored-layer callback decides -/
theorem handle_valid (d : Dir) (ty : Option LTypes) (m : Option MetaTbl) (sb : List (Nat × Bytes))
    (t : LTypes) (mt : MetaT) (ci : CbInv) (cr : CbRes) (hdec : decodes mt m = true) (fuel : Nat) (log : List CbCall) :
    handleLayer ⟨some d, some (.doc ty m), sb⟩ t mt ci cr (fuel + 1) log = validResult d ty m sb t mt cr log := by
  cases cr <;> simp [validResult, handleLayer, readLayer, hdec, createLayer, deleteLayer, replaceTypes, Layer.absent]

theorem requestOk_valid (d : Dir) (ty : Option LTypes) (m : Option MetaTbl) (sb : List (Nat × Bytes))
    (pre : Layer) (hpd : pre.dir = some d) (hps : pre.sboms = sb)
    (t : LTypes) (mt : MetaT) (ci : CbInv) (cr : CbRes) (log : List CbCall) (checkLog : Bool)
    (hexp : expected (Spec.classify pre mt) mt ci cr = some (afterValid mt m cr log)) :
    requestOk pre (validResult d ty m sb t mt cr log).1 t mt ci cr (validResult d ty m sb t mt cr log).2.1
      (validResult d ty m sb t mt cr log).2.2 checkLog = true := by
  unfold requestOk
  rw [hexp]
  cases cr <;>
    simp [validResult, afterValid, viewAs_eq, isRestoredOut, isEmptyOut, tomlIs, hpd, hps, optBeq_refl]

theorem handle_norm (d : Dir) (sb : List (Nat × Bytes)) (t : LTypes) (mt : MetaT) (ci : CbInv) (cr : CbRes)
    (fuel : Nat) (log : List CbCall) :
    handleLayer ⟨some d, none, sb⟩ t mt ci cr (fuel + 1) log =
      handleLayer ⟨some d, some (.doc none none), sb⟩ t mt ci cr (fuel + 1) log := by
  have : readLayer ⟨some d, none, sb⟩ mt = readLayer ⟨some d, some (.doc none none), sb⟩ mt := by simp [readLayer]
  unfold handleLayer
  rw [this]

/-- an existing layer with a content-metadata document: the request clauses hold (`pre` is the layer as it
was before normalisation) -/
theorem handle_doc_ok (pre : Layer) (d : Dir) (ty : Option LTypes) (m : Option MetaTbl) (sb : List (Nat × Bytes))
    (hpd : pre.dir = some d) (hps : pre.sboms = sb) (t : LTypes) (mt : MetaT) (ci : CbInv) (cr : CbRes)
    (hcl : Spec.classify pre mt = if canDecode mt m then .valid m else .invalid m)
    (fuel : Nat) (checkLog : Bool) :
    requestOk pre (handleLayer ⟨some d, some (.doc ty m), sb⟩ t mt ci cr (fuel + 2) []).1 t mt ci cr
      (handleLayer ⟨some d, some (.doc ty m), sb⟩ t mt ci cr (fuel + 2) []).2.1
      (handleLayer ⟨some d, some (.doc ty m), sb⟩ t mt ci cr (fuel + 2) []).2.2 checkLog = true := by
  by_cases hdec : canDecode mt m = true
  · rw [handle_valid d ty m sb t mt ci cr (by rw [decodes_eq]; exact hdec) (fuel + 1) []]
    apply requestOk_valid d ty m sb pre hpd hps
    rw [hcl]; simp [hdec, expected]
  · have hdec' : decodes mt m = false := by rw [decodes_eq]; simpa using hdec
    have hcl' : Spec.classify pre mt = .invalid m := by rw [hcl]; simp [hdec]
    cases ci with
    | fail =>
      simp [handleLayer, readLayer, hdec', requestOk, hcl', expected, isRestoredOut, isEmptyOut]
    | delete c =>
      simp [handleLayer, readLayer, hdec', requestOk, hcl', expected, isRestoredOut, isEmptyOut, createLayer,
        deleteLayer, Layer.absent, tomlIs, optBeq_refl]
    | replace m' c =>
      have hstep : handleLayer ⟨some d, some (.doc ty m), sb⟩ t mt (.replace m' c) cr (fuel + 2) [] =
          handleLayer ⟨some d, some (.doc ty (some m')), sb⟩ t mt (.replace m' c) cr (fuel + 1) [.inv m] := by
        conv => lhs; unfold handleLayer
        simp [readLayer, hdec', replaceMeta]
      rw [hstep]
      by_cases hdec2 : canDecode mt (some m') = true
      · rw [handle_valid d ty (some m') sb t mt _ cr (by rw [decodes_eq]; exact hdec2) fuel [.inv m]]
        apply requestOk_valid d ty (some m') sb pre hpd hps
        rw [hcl']; simp [expected, hdec2]
      · unfold requestOk
        rw [hcl']
        simp [expected, hdec2]

/-- **The request step.** For every layer state satisfying the invariant, every requested types, metadata type and
callback decisions, the model's `handle_layer` meets the request clauses of C01. -/
theorem handle_request_ok (l : Layer) (hwf : WFL l) (t : LTypes) (mt : MetaT) (ci : CbInv) (cr : CbRes)
    (fuel : Nat) (checkLog : Bool) :
    requestOk l (handleLayer l t mt ci cr (fuel + 2) []).1 t mt ci cr (handleLayer l t mt ci cr (fuel + 2) []).2.1
      (handleLayer l t mt ci cr (fuel + 2) []).2.2 checkLog = true := by
  obtain ⟨dir, toml, sboms⟩ := l
  cases dir with
  | none =>
    have hs : sboms = [] := hwf rfl
    subst hs
    cases toml <;>
      simp [handleLayer, readLayer, requestOk, Spec.classify, expected, createLayer, isRestoredOut, isEmptyOut, tomlIs,
        optBeq_refl]
  | some d =>
    cases toml with
    | none =>
      rw [handle_norm]
      apply handle_doc_ok _ d none none sboms rfl rfl
      simp [Spec.classify]
    | some tm =>
      cases tm with
      | broken =>
        simp [handleLayer, readLayer, requestOk, Spec.classify, expected, isRestoredOut, isEmptyOut]
      | doc ty m =>
        apply handle_doc_ok _ d ty m sboms rfl rfl
        simp [Spec.classify]

end CnbVerif
