import CnbVerif.Model.Builders
import CnbVerif.Spec.Written
import CnbVerif.Gen.Schemas
/-! The builder models (folds in the code's order) construct what the call sequence is meant to construct; the values
they construct have the type of the written schemas. -/
namespace CnbVerif.Builders
open CnbVerif.Cnb CnbVerif.Codec CnbVerif.Spec.Written

def toCall : PlanOp → Call
  | .provides n => .provides n
  | .requires r => .requires r
  | .or => .or

def toPCall : ProcOp → PCall
  | .arg a => .arg a
  | .args as => .args as
  | .dflt b => .dflt b
  | .wd d => .wd d

def toLCall : LaunchOp → LCall
  | .process t c ops => .process t c (ops.map toPCall)
  | .label k v => .label k v
  | .slice ps => .slice ps

/-! ## build plan -/

theorem groups_ne_nil (cs : List Call) : groups cs ≠ [] := by
  cases cs with
  | nil => simp [groups]
  | cons c cs =>
    cases c <;> simp only [groups] <;> (try split) <;> simp

/-- the accumulated groups once `or()` has run after the calls: the group under construction is continued by the
first group of the calls -/
def merged (b : PlanBuilder) : List (List Call) → List Group
  | [] => [⟨b.curP, b.curR⟩]
  | g :: gs => ⟨b.curP ++ (groupOf g).provides, b.curR ++ (groupOf g).requires⟩ :: gs.map groupOf

theorem foldl_or_acc (ops : List PlanOp) (b : PlanBuilder) :
    (ops.foldl PlanBuilder.step b).or.acc = b.acc ++ merged b (groups (ops.map toCall)) := by
  induction ops generalizing b with
  | nil => simp [PlanBuilder.or, groups, merged, groupOf]
  | cons op ops ih =>
    simp only [List.foldl_cons, List.map_cons]
    rw [ih]
    have hne := groups_ne_nil (ops.map toCall)
    cases hg : groups (ops.map toCall) with
    | nil => exact (hne hg).elim
    | cons g gs =>
      cases op with
      | provides n => simp [PlanBuilder.step, toCall, groups, hg, merged, groupOf]
      | requires r => simp [PlanBuilder.step, toCall, groups, hg, merged, groupOf]
      | or => simp [PlanBuilder.step, PlanBuilder.or, toCall, groups, hg, merged, groupOf]

theorem buildPlan_eq (ops : List PlanOp) : buildPlan ops = intendedPlan (ops.map toCall) := by
  unfold buildPlan PlanBuilder.build intendedPlan
  rw [foldl_or_acc]
  have hne := groups_ne_nil (ops.map toCall)
  cases hg : groups (ops.map toCall) with
  | nil => exact (hne hg).elim
  | cons g gs => simp [PlanBuilder.new, merged]

/-! ## Require::metadata -/

mutual
theorem privDt_of_noDt : ∀ t : TV, noDt t = true → privDt t = t
  | .str _, _ => rfl
  | .int _, _ => rfl
  | .bool _, _ => rfl
  | .flt _, _ => rfl
  | .dt _, h => by simp [noDt] at h
  | .arr xs, h => by simp only [noDt] at h; simp only [privDt, privDtList_of_noDt xs h]
  | .tbl kvs, h => by simp only [noDt] at h; simp only [privDt, privDtKVs_of_noDt kvs h]
theorem privDtList_of_noDt : ∀ xs : List TV, noDtList xs = true → privDtList xs = xs
  | [], _ => rfl
  | x :: xs, h => by
    simp only [noDtList, Bool.and_eq_true] at h
    simp only [privDtList, privDt_of_noDt x h.1, privDtList_of_noDt xs h.2]
theorem privDtKVs_of_noDt : ∀ kvs : List (String × TV), noDtKVs kvs = true → privDtKVs kvs = kvs
  | [], _ => rfl
  | (k, v) :: r, h => by
    simp only [noDtKVs, Bool.and_eq_true] at h
    simp only [privDtKVs, privDt_of_noDt v h.1, privDtKVs_of_noDt r h.2]
end

/-! ## process / launch -/

theorem args_fold (as : List String) (p : Proc) :
    as.foldl (fun q a => { q with args := q.args ++ [a] }) p = { p with args := p.args ++ as } := by
  induction as generalizing p with
  | nil => simp
  | cons a as ih => simp [List.foldl_cons, ih]

theorem procFold (ops : List ProcOp) (p : Proc) :
    ops.foldl procStep p =
      { p with
        args := p.args ++ ((ops.map toPCall).map (fun c => match c with | .arg a => [a] | .args as => as | _ => [])).flatten,
        dflt := lastOr p.dflt ((ops.map toPCall).filterMap (fun c => match c with | .dflt b => some b | _ => none)),
        wd := lastOr p.wd ((ops.map toPCall).filterMap (fun c => match c with | .wd d => some d | _ => none)) } := by
  induction ops generalizing p with
  | nil => simp [lastOr]
  | cons op ops ih =>
    simp only [List.foldl_cons]
    rw [ih]
    cases op <;> simp [procStep, toPCall, lastOr, args_fold]

theorem buildProc_eq (t : String) (c : List String) (ops : List ProcOp) :
    buildProc t c ops = intendedProc t c (ops.map toPCall) := by
  unfold buildProc intendedProc
  rw [procFold]
  first | rfl | (simp [procNew]; exact ⟨rfl, rfl, rfl⟩)

theorem launchFold (ops : List LaunchOp) (l : Launch) :
    ops.foldl launchStep l =
      { labels := l.labels ++ (ops.map toLCall).filterMap (fun c => match c with | .label k v => some (k, v) | _ => none),
        processes := l.processes ++ (ops.map toLCall).filterMap (fun c => match c with | .process t cmd pc => some (intendedProc t cmd pc) | _ => none),
        slices := l.slices ++ (ops.map toLCall).filterMap (fun c => match c with | .slice ps => some ps | _ => none) } := by
  induction ops generalizing l with
  | nil => simp
  | cons op ops ih =>
    simp only [List.foldl_cons]
    rw [ih]
    cases op <;> simp [launchStep, toLCall, buildProc_eq]

theorem buildLaunch_eq (ops : List LaunchOp) : buildLaunch ops = intendedLaunch (ops.map toLCall) := by
  unfold buildLaunch intendedLaunch
  rw [launchFold]
  first | rfl | (simp; exact ⟨rfl, rfl, rfl⟩)

end CnbVerif.Builders
