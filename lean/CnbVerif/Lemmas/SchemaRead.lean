import CnbVerif.Lemmas.Schema
/-! Acceptance facts (what an accepted document decodes to), `readEq` soundness, untagged classification. -/
namespace CnbVerif.Codec

theorem lookup_mem {α} {l : List (String × α)} {k : String} {v : α} (h : l.lookup k = some v) : (k, v) ∈ l := by
  induction l with
  | nil => simp [List.lookup] at h
  | cons kv r ih =>
    obtain ⟨k', v'⟩ := kv
    unfold List.lookup at h
    by_cases hk : k == k'
    · simp only [hk] at h
      have hk' : k = k' := by simpa using hk
      cases h; subst hk'; exact List.mem_cons_self ..
    · simp only [hk] at h
      exact List.mem_cons_of_mem _ (ih h)

theorem lookup_none_of_not_mem {α} {l : List (String × α)} {k : String} (h : ∀ kv ∈ l, kv.1 ≠ k) : l.lookup k = none := by
  induction l with
  | nil => rfl
  | cons kv r ih =>
    obtain ⟨k', v'⟩ := kv
    have hne : k' ≠ k := h (k', v') (List.mem_cons_self ..)
    have : (k == k') = false := by simp [Ne.symm hne]
    simp only [List.lookup, this]
    exact ih (fun kv hkv => h kv (List.mem_cons_of_mem _ hkv))

/-! ## accepted documents -/

theorem decode_struct_ok {d : Bool} {fs : List Field} {kvs : List (String × TV)} {v : Val}
    (h : decode (.struct d fs) (.tbl kvs) = .ok v) :
    ∃ vals, v = .record vals ∧ decodeFields fs kvs = .ok vals ∧ (d = true → ∀ kv ∈ kvs, hasKey fs kv.1 = true) := by
  unfold decode at h
  split at h
  · cases h
  · rename_i hc
    obtain ⟨vals, hv, hr⟩ := map_eq_ok h
    refine ⟨vals, hr.symm, hv, ?_⟩
    intro hd kv hkv
    subst hd
    simp only [Bool.true_and, Bool.not_eq_true', Bool.not_eq_false] at hc
    rw [List.all_eq_true] at hc
    exact hc kv hkv

theorem decode_struct_tbl {d : Bool} {fs : List Field} {t : TV} {v : Val}
    (h : decode (.struct d fs) t = .ok v) : ∃ kvs, t = .tbl kvs := by
  cases t <;> first | exact ⟨_, rfl⟩ | (simp [decode] at h)

/-- every field of an accepted table: a present key decodes under the field's schema to the value recorded under
that key; an absent optional key is recorded as `absent`; an absent defaulted key as the default; a required key is
present -/
theorem decodeFields_ok {fs : List Field} {kvs : List (String × TV)} {vals : List (String × Val)}
    (h : decodeFields fs kvs = .ok vals) :
    vals.map Prod.fst = fieldKeys fs ∧
    ∀ f ∈ fs,
      (∀ t, kvs.lookup f.key = some t → ∃ v, decode f.schema t = .ok v ∧ (f.key, v) ∈ vals) ∧
      (kvs.lookup f.key = none → f.pres ≠ .required ∧
        (f.pres = .optional → (f.key, Val.absent) ∈ vals) ∧ (∀ d, f.pres = .dflt d → (f.key, d.val) ∈ vals)) := by
  induction fs generalizing vals with
  | nil =>
    simp only [decodeFields] at h; cases h
    exact ⟨rfl, fun f hf => by cases hf⟩
  | cons g gs ih =>
    obtain ⟨key, pres, sk, ne, s, pos⟩ := g
    unfold decodeFields at h
    -- common tail step
    have tail : ∀ (v0 : Val) (rest : List (String × Val)), decodeFields gs kvs = .ok rest → vals = (key, v0) :: rest →
        (∀ t, kvs.lookup key = some t → decode s t = .ok v0) →
        (kvs.lookup key = none → pres ≠ .required ∧ (pres = .optional → v0 = .absent) ∧ (∀ d, pres = .dflt d → v0 = d.val)) →
        vals.map Prod.fst = fieldKeys (⟨key, pres, sk, ne, s, pos⟩ :: gs) ∧
        ∀ f ∈ (⟨key, pres, sk, ne, s, pos⟩ :: gs : List Field),
          (∀ t, kvs.lookup f.key = some t → ∃ v, decode f.schema t = .ok v ∧ (f.key, v) ∈ vals) ∧
          (kvs.lookup f.key = none → f.pres ≠ .required ∧
            (f.pres = .optional → (f.key, Val.absent) ∈ vals) ∧ (∀ d, f.pres = .dflt d → (f.key, d.val) ∈ vals)) := by
      intro v0 rest hrest hvals hpres habs
      obtain ⟨hk, hall⟩ := ih hrest
      subst hvals
      refine ⟨by simp [fieldKeys, hk], ?_⟩
      intro f hf
      cases hf with
      | head =>
        refine ⟨fun t ht => ⟨v0, hpres t ht, List.mem_cons_self ..⟩, fun hn => ?_⟩
        obtain ⟨h1, h2, h3⟩ := habs hn
        exact ⟨h1, fun ho => by rw [← h2 ho]; exact List.mem_cons_self .., fun d hd => by rw [← h3 d hd]; exact List.mem_cons_self ..⟩
      | tail _ hm =>
        obtain ⟨a, b⟩ := hall f hm
        refine ⟨fun t ht => ?_, fun hn => ?_⟩
        · obtain ⟨v, hv, hmem⟩ := a t ht; exact ⟨v, hv, List.mem_cons_of_mem _ hmem⟩
        · obtain ⟨h1, h2, h3⟩ := b hn
          exact ⟨h1, fun ho => List.mem_cons_of_mem _ (h2 ho), fun d hd => List.mem_cons_of_mem _ (h3 d hd)⟩
    cases hl : kvs.lookup key with
    | some t =>
      simp only [hl] at h
      cases hd : decode s t with
      | error e => simp [hd] at h
      | ok v0 =>
        simp only [hd] at h
        obtain ⟨rest, hrest, hr⟩ := map_eq_ok h
        exact tail v0 rest hrest hr.symm (fun t' ht' => by rw [hl] at ht'; cases ht'; exact hd) (fun hn => by rw [hl] at hn; cases hn)
    | none =>
      simp only [hl] at h
      cases pres with
      | required => simp at h
      | optional =>
        simp only [] at h
        obtain ⟨rest, hrest, hr⟩ := map_eq_ok h
        exact tail .absent rest hrest hr.symm (fun t ht => by rw [hl] at ht; cases ht) (fun _ => ⟨(by simp), (fun _ => rfl), (fun d hd => by cases hd)⟩)
      | dflt d =>
        simp only [] at h
        obtain ⟨rest, hrest, hr⟩ := map_eq_ok h
        exact tail d.val rest hrest hr.symm (fun t ht => by rw [hl] at ht; cases ht) (fun _ => ⟨(by simp), (fun ho => by cases ho), (fun d' hd => by cases hd; rfl)⟩)

theorem mapE_ok {f : TV → Except Err Val} {xs : List TV} {vs : List Val} (h : mapE f xs = .ok vs) :
    vs.length = xs.length ∧ ∀ i (hi : i < xs.length) (hj : i < vs.length), f xs[i] = .ok vs[i] := by
  induction xs generalizing vs with
  | nil => simp only [mapE] at h; cases h; exact ⟨rfl, fun i hi => by cases hi⟩
  | cons x xs ih =>
    unfold mapE at h
    cases hx : f x with
    | error e => simp [hx] at h
    | ok v =>
      simp only [hx] at h
      obtain ⟨rest, hrest, hr⟩ := map_eq_ok h
      subst hr
      obtain ⟨hl, hall⟩ := ih hrest
      refine ⟨by simp [hl], ?_⟩
      intro i hi hj
      cases i with
      | zero => simpa using hx
      | succ j => simpa using hall j (by simpa using hi) (by simpa using hj)

/-! ## `readEq` is sound: the two schemas read every document identically -/

theorem mapE_congr {f g : TV → Except Err Val} (h : ∀ t, f t = g t) (xs : List TV) : mapE f xs = mapE g xs := by
  have : f = g := funext h
  rw [this]

mutual
theorem readEq_decode : ∀ (a b : Schema), readEq a b = true → ∀ t, decode a t = decode b t
  | .str a, .str b, h, t => by
    have : a = b := by simpa [readEq] using h
    rw [this]
  | .int, .int, _, _ => rfl
  | .bool, .bool, _, _ => rfl
  | .any, .any, _, _ => rfl
  | .table, .table, _, _ => rfl
  | .vec a, .vec b, h, t => by
    have ih := readEq_decode a b (by simpa [readEq] using h)
    cases t <;> simp [decode]
    rw [funext ih]
  | .set a, .set b, h, t => by
    have : a = b := by simpa [readEq] using h
    rw [this]
  | .map k a, .map k' b, h, t => by
    simp only [readEq, Bool.and_eq_true, beq_iff_eq] at h
    have ih := readEq_decode a b h.2
    cases t <;> simp [decode]
    rw [funext ih, h.1]
  | .struct d fs, .struct d' fs', h, t => by
    simp only [readEq, Bool.and_eq_true, beq_iff_eq] at h
    obtain ⟨h1, h2⟩ := readEqFields_decode fs fs' h.2
    cases t <;> simp [decode]
    rename_i kvs
    rw [h.1, h1 kvs, funext h2]
  | .untagged vs, .untagged vs', h, t => by
    simp only [readEq] at h
    simp only [decode]
    exact readEqAll_decode vs vs' h 0 t
  | .str _, .int, h, _ | .str _, .bool, h, _ | .str _, .any, h, _ | .str _, .table, h, _ | .str _, .vec _, h, _
  | .str _, .set _, h, _ | .str _, .map _ _, h, _ | .str _, .struct _ _, h, _ | .str _, .untagged _, h, _
  | .int, .str _, h, _ | .int, .bool, h, _ | .int, .any, h, _ | .int, .table, h, _ | .int, .vec _, h, _
  | .int, .set _, h, _ | .int, .map _ _, h, _ | .int, .struct _ _, h, _ | .int, .untagged _, h, _
  | .bool, .str _, h, _ | .bool, .int, h, _ | .bool, .any, h, _ | .bool, .table, h, _ | .bool, .vec _, h, _
  | .bool, .set _, h, _ | .bool, .map _ _, h, _ | .bool, .struct _ _, h, _ | .bool, .untagged _, h, _
  | .any, .str _, h, _ | .any, .int, h, _ | .any, .bool, h, _ | .any, .table, h, _ | .any, .vec _, h, _
  | .any, .set _, h, _ | .any, .map _ _, h, _ | .any, .struct _ _, h, _ | .any, .untagged _, h, _
  | .table, .str _, h, _ | .table, .int, h, _ | .table, .bool, h, _ | .table, .any, h, _ | .table, .vec _, h, _
  | .table, .set _, h, _ | .table, .map _ _, h, _ | .table, .struct _ _, h, _ | .table, .untagged _, h, _
  | .vec _, .str _, h, _ | .vec _, .int, h, _ | .vec _, .bool, h, _ | .vec _, .any, h, _ | .vec _, .table, h, _
  | .vec _, .set _, h, _ | .vec _, .map _ _, h, _ | .vec _, .struct _ _, h, _ | .vec _, .untagged _, h, _
  | .set _, .str _, h, _ | .set _, .int, h, _ | .set _, .bool, h, _ | .set _, .any, h, _ | .set _, .table, h, _
  | .set _, .vec _, h, _ | .set _, .map _ _, h, _ | .set _, .struct _ _, h, _ | .set _, .untagged _, h, _
  | .map _ _, .str _, h, _ | .map _ _, .int, h, _ | .map _ _, .bool, h, _ | .map _ _, .any, h, _ | .map _ _, .table, h, _
  | .map _ _, .vec _, h, _ | .map _ _, .set _, h, _ | .map _ _, .struct _ _, h, _ | .map _ _, .untagged _, h, _
  | .struct _ _, .str _, h, _ | .struct _ _, .int, h, _ | .struct _ _, .bool, h, _ | .struct _ _, .any, h, _
  | .struct _ _, .table, h, _ | .struct _ _, .vec _, h, _ | .struct _ _, .set _, h, _ | .struct _ _, .map _ _, h, _
  | .struct _ _, .untagged _, h, _
  | .untagged _, .str _, h, _ | .untagged _, .int, h, _ | .untagged _, .bool, h, _ | .untagged _, .any, h, _
  | .untagged _, .table, h, _ | .untagged _, .vec _, h, _ | .untagged _, .set _, h, _ | .untagged _, .map _ _, h, _
  | .untagged _, .struct _ _, h, _ => by simp [readEq] at h

theorem readEqFields_decode : ∀ (fs gs : List Field), readEqFields fs gs = true →
    (∀ kvs, decodeFields fs kvs = decodeFields gs kvs) ∧ (∀ k, hasKey fs k = hasKey gs k)
  | [], [], _ => ⟨fun _ => rfl, fun _ => rfl⟩
  | ⟨k, p, sk, ne, s, ps⟩ :: fs, ⟨k', p', sk', ne', s', ps'⟩ :: gs, h => by
    simp only [readEqFields, Bool.and_eq_true, beq_iff_eq] at h
    obtain ⟨⟨⟨hk, hp⟩, hs⟩, hr⟩ := h
    have ihs := readEq_decode s s' hs
    obtain ⟨ih1, ih2⟩ := readEqFields_decode fs gs hr
    subst hk; subst hp
    refine ⟨fun kvs => ?_, fun key => ?_⟩
    · simp only [decodeFields, ih1 kvs, ihs]
    · simp only [hasKey, List.any_cons] at ih2 ⊢
      rw [ih2 key]
  | [], _ :: _, h => by simp [readEqFields] at h
  | _ :: _, [], h => by simp [readEqFields] at h

theorem readEqAll_decode : ∀ (vs ws : List Schema), readEqAll vs ws = true → ∀ i t, decodeFirst vs i t = decodeFirst ws i t
  | [], [], _, _, _ => rfl
  | a :: as, b :: bs, h, i, t => by
    simp only [readEqAll, Bool.and_eq_true] at h
    have ih := readEq_decode a b h.1
    have ihr := readEqAll_decode as bs h.2
    simp only [decodeFirst, ih t, ihr (i + 1) t]
  | [], _ :: _, h, _, _ => by simp [readEqAll] at h
  | _ :: _, [], h, _, _ => by simp [readEqAll] at h
end

/-! ## an untagged enum of two strict structs -/

theorem decode_untagged2 {a b : Schema} {t : TV} {v : Val} (h : decode (.untagged [a, b]) t = .ok v) :
    (∃ w, decode a t = .ok w ∧ v = .variant 0 w) ∨ (IsErr (decode a t) ∧ ∃ w, decode b t = .ok w ∧ v = .variant 1 w) := by
  simp only [decode, decodeFirst] at h
  cases ha : decode a t with
  | ok w => simp only [ha] at h; cases h; exact .inl ⟨w, rfl, rfl⟩
  | error e =>
    simp only [ha] at h
    cases hb : decode b t with
    | ok w => simp only [hb] at h; cases h; exact .inr ⟨trivial, w, rfl, rfl⟩
    | error e' => simp [hb] at h

end CnbVerif.Codec
