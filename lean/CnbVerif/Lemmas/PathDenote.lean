import CnbVerif.Model.PkgDescriptor
import CnbVerif.Spec.PathDenote
/-!
C14 helper lemmas, part 1: splitting on a character, and `normalize_path` against the denotation of paths.
-/
namespace CnbVerif.PkgDescriptor
open CnbVerif.Chars CnbVerif.Spec.PathDenote

/-! ### `splitOnChar` / `joinChar` -/

theorem splitOnChar_ne_nil (sep : Char) (s : Str) : splitOnChar sep s ≠ [] := by
  induction s with
  | nil => simp [splitOnChar]
  | cons c cs ih =>
    unfold splitOnChar
    by_cases h : c = sep
    · simp [h]
    · simp only [h, if_false]
      cases hs : splitOnChar sep cs with
      | nil => simp
      | cons a b => simp

theorem splitOnChar_cons_ne {sep c : Char} (h : c ≠ sep) (cs : Str) :
    ∃ a t, splitOnChar sep cs = a :: t ∧ splitOnChar sep (c :: cs) = (c :: a) :: t := by
  cases hs : splitOnChar sep cs with
  | nil => exact absurd hs (splitOnChar_ne_nil sep cs)
  | cons a t =>
    refine ⟨a, t, rfl, ?_⟩
    rw [splitOnChar]
    simp only [h, if_false, hs]

theorem splitOnChar_append_sep (sep : Char) (a b : Str) :
    splitOnChar sep (a ++ sep :: b) = splitOnChar sep a ++ splitOnChar sep b := by
  induction a with
  | nil => simp [splitOnChar]
  | cons c cs ih =>
    by_cases h : c = sep
    · subst h
      simp only [List.cons_append, splitOnChar, if_true, ih, List.cons_append]
    · obtain ⟨x, t, h1, h2⟩ := splitOnChar_cons_ne h cs
      obtain ⟨x', t', h1', h2'⟩ := splitOnChar_cons_ne h (cs ++ sep :: b)
      rw [List.cons_append, h2', h2]
      rw [ih, h1] at h1'
      simp only [List.cons_append, List.cons.injEq] at h1'
      obtain ⟨rfl, rfl⟩ := h1'
      rfl

theorem splitOnChar_no_sep {sep : Char} {s : Str} (h : sep ∉ s) : splitOnChar sep s = [s] := by
  induction s with
  | nil => rfl
  | cons c cs ih =>
    have hc : c ≠ sep := fun e => h (by simp [e])
    have hcs : sep ∉ cs := fun e => h (List.mem_cons_of_mem _ e)
    rw [splitOnChar]
    simp only [hc, if_false, ih hcs]

theorem mem_splitOnChar_no_sep (sep : Char) (s : Str) : ∀ p ∈ splitOnChar sep s, sep ∉ p := by
  induction s with
  | nil => intro p hp; simp [splitOnChar] at hp; subst hp; simp
  | cons c cs ih =>
    intro p hp
    by_cases h : c = sep
    · subst h
      simp only [splitOnChar, if_true, List.mem_cons] at hp
      rcases hp with rfl | hp
      · simp
      · exact ih p hp
    · obtain ⟨a, t, h1, h2⟩ := splitOnChar_cons_ne h cs
      rw [h2] at hp
      rcases List.mem_cons.1 hp with rfl | hp
      · intro hm
        rcases List.mem_cons.1 hm with e | hm
        · exact h e.symm
        · exact ih a (by rw [h1]; simp) hm
      · exact ih p (by rw [h1]; exact List.mem_cons_of_mem _ hp)

theorem splitOnChar_joinChar (sep : Char) : ∀ (l : List Str), l ≠ [] → (∀ p ∈ l, sep ∉ p) →
    splitOnChar sep (joinChar sep l) = l := by
  intro l
  induction l with
  | nil => intro h; exact absurd rfl h
  | cons a rest ih =>
    intro _ hl
    cases rest with
    | nil => simpa [joinChar] using splitOnChar_no_sep (hl a (by simp))
    | cons b rest' =>
      rw [joinChar, splitOnChar_append_sep, splitOnChar_no_sep (hl a (by simp)),
        ih (by simp) (fun p hp => hl p (List.mem_cons_of_mem _ hp))]
      rfl

/-! ### `walk` against the model's component loop -/

def modelStep (acc : List Str) (c : Str) : List Str := if c = dotdot then acc.dropLast else acc ++ [c]

def keep (c : Str) : Bool := !c.isEmpty && c != dot

theorem normComps_eq (cs : List Str) : normComps cs = cs.foldl modelStep [] := rfl

theorem comps_eq (s : Str) : comps s = (splitOnChar '/' s).filter keep := rfl

/-- the spec's walk over all pieces is the model's loop over the kept components -/
theorem walk_eq_fold : ∀ (pieces : List Str) (d : Dir), walk d pieces = (pieces.filter keep).foldl modelStep d := by
  intro pieces
  induction pieces with
  | nil => intro d; rfl
  | cons p ps ih =>
    intro d
    simp only [walk, List.foldl_cons] at ih ⊢
    rw [ih]
    by_cases h1 : p = []
    · subst h1; simp [step, keep]
    · by_cases h2 : p = ['.']
      · subst h2; simp [step, keep, dot]
      · have hk : keep p = true := by
          simp only [keep, Bool.and_eq_true, Bool.not_eq_true', bne_iff_ne, ne_eq, dot]
          exact ⟨by cases p <;> simp_all, h2⟩
        simp only [List.filter_cons, hk, if_true, List.foldl_cons]
        congr 1
        simp only [step, h1, h2, or_self, if_false, modelStep, dotdot]
        by_cases h3 : p = ['.', '.'] <;> simp [h3]

theorem walk_append (d : Dir) (a b : List Str) : walk d (a ++ b) = walk (walk d a) b := by
  simp [walk, List.foldl_append]

/-- a normal name: not empty, not `.`, not `..` -/
def Normal (c : Str) : Prop := c ≠ [] ∧ c ≠ dot ∧ c ≠ dotdot

theorem foldl_modelStep_normal : ∀ (cs : List Str) (d : List Str), (∀ c ∈ cs, Normal c) →
    cs.foldl modelStep d = d ++ cs := by
  intro cs
  induction cs with
  | nil => intro d _; simp
  | cons c cs ih =>
    intro d h
    have hc := h c (by simp)
    simp only [List.foldl_cons]
    rw [ih _ (fun x hx => h x (List.mem_cons_of_mem _ hx))]
    simp [modelStep, hc.2.2]

theorem mem_dropLast {α} {l : List α} {a : α} (h : a ∈ l.dropLast) : a ∈ l := (List.dropLast_sublist l).subset h

theorem foldl_modelStep_mem : ∀ (cs : List Str) (d : List Str) (x : Str), x ∈ cs.foldl modelStep d →
    x ∈ d ∨ (x ∈ cs ∧ x ≠ dotdot) := by
  intro cs
  induction cs with
  | nil => intro d x h; exact Or.inl (by simpa using h)
  | cons c cs ih =>
    intro d x h
    simp only [List.foldl_cons] at h
    rcases ih _ x h with h | ⟨h1, h2⟩
    · unfold modelStep at h
      by_cases hc : c = dotdot
      · simp only [hc, if_true] at h
        exact Or.inl (mem_dropLast h)
      · simp only [hc, if_false, List.mem_append, List.mem_singleton] at h
        rcases h with h | rfl
        · exact Or.inl h
        · exact Or.inr ⟨by simp, hc⟩
    · exact Or.inr ⟨List.mem_cons_of_mem _ h1, h2⟩

/-- what `normalize_path` keeps are normal names without a slash -/
theorem normComps_comps_normal (s : Str) : ∀ c ∈ normComps (comps s), Normal c ∧ '/' ∉ c := by
  intro c hc
  rw [normComps_eq] at hc
  rcases foldl_modelStep_mem _ _ _ hc with h | ⟨h1, h2⟩
  · simp at h
  · rw [comps_eq] at h1
    have hm := List.mem_filter.1 h1
    have hk := hm.2
    simp only [keep, Bool.and_eq_true, Bool.not_eq_true', bne_iff_ne, ne_eq] at hk
    refine ⟨⟨?_, hk.2, h2⟩, mem_splitOnChar_no_sep '/' s c hm.1⟩
    intro e; subst e; simp at hk

theorem filter_keep_normal {ns : List Str} (hn : ∀ c ∈ ns, Normal c) : ([] :: ns).filter keep = ns := by
  have h0 : keep ([] : Str) = false := by simp [keep]
  rw [List.filter_cons, h0]
  simp only [Bool.false_eq_true, if_false]
  apply List.filter_eq_self.2
  intro c hc
  have := hn c hc
  simp only [keep, Bool.and_eq_true, Bool.not_eq_true', bne_iff_ne, ne_eq]
  exact ⟨by cases c <;> simp_all [Normal], this.2.1⟩

/-- the text `/a/b/c` of a list of normal names splits back into an empty piece and the names -/
theorem split_render {ns : List Str} (hn : ∀ c ∈ ns, Normal c ∧ '/' ∉ c) :
    splitOnChar '/' ('/' :: joinChar '/' ns) = [] :: (if ns = [] then [[]] else ns) := by
  have : ('/' :: joinChar '/' ns) = [] ++ '/' :: joinChar '/' ns := rfl
  rw [this, splitOnChar_append_sep]
  by_cases h : ns = []
  · subst h; simp [splitOnChar, joinChar]
  · simp only [h, if_false]
    rw [splitOnChar_joinChar '/' ns h (fun p hp => (hn p hp).2)]
    rfl

theorem denote_render {ns : List Str} (hn : ∀ c ∈ ns, Normal c ∧ '/' ∉ c) :
    denote ('/' :: joinChar '/' ns) = ns := by
  unfold denote
  rw [split_render hn, walk_eq_fold]
  by_cases h : ns = []
  · subst h; simp [keep]
  · simp only [h, if_false]
    rw [filter_keep_normal (fun c hc => (hn c hc).1), foldl_modelStep_normal _ _ (fun c hc => (hn c hc).1)]
    simp

theorem dotFree_render {ns : List Str} (hn : ∀ c ∈ ns, Normal c ∧ '/' ∉ c) :
    dotFree ('/' :: joinChar '/' ns) = true := by
  unfold dotFree
  rw [split_render hn]
  by_cases h : ns = []
  · subst h; simp [joinChar]
  · simp only [h, if_false, Bool.and_eq_true, Bool.or_eq_true]
    refine ⟨⟨by decide, by decide⟩, Or.inl ?_⟩
    apply List.all_eq_true.2
    intro c hc
    have := (hn c hc).1
    simp only [Bool.and_eq_true, bne_iff_ne, ne_eq, Bool.not_eq_true']
    exact ⟨⟨this.2.1, this.2.2⟩, by cases c <;> simp_all [Normal]⟩

theorem isAbs_cons {s : Str} (h : isAbs s = true) : ∃ t, s = '/' :: t := by
  cases s with
  | nil => simp [isAbs] at h
  | cons c t =>
    simp only [isAbs, List.head?_cons, Option.some.injEq, decide_eq_true_eq] at h
    exact ⟨t, by rw [h]⟩

/-- pieces of `parent.join(path)` = pieces of parent, then pieces of path (up to one empty piece) -/
theorem walk_joinPath {parent path : Str} (hp : isAbs parent = true) (d : Dir) :
    walk d (splitOnChar '/' (joinPath parent path)) =
      walk (walk d (splitOnChar '/' parent)) (splitOnChar '/' path) := by
  obtain ⟨t, rfl⟩ := isAbs_cons hp
  unfold joinPath
  simp only [List.isEmpty_cons, Bool.false_eq_true, if_false]
  by_cases hl : ('/' :: t).getLast? = some '/'
  · simp only [hl, if_true]
    obtain ⟨p', hp'⟩ := List.getLast?_eq_some_iff.1 hl
    rw [hp']
    have e1 : p' ++ ['/'] ++ path = p' ++ '/' :: path := by simp
    have e2 : p' ++ ['/'] = p' ++ '/' :: [] := rfl
    rw [e1, splitOnChar_append_sep, e2, splitOnChar_append_sep, walk_append, walk_append]
    congr 1
  · simp only [hl, if_false]
    rw [splitOnChar_append_sep, walk_append]

/-- **the path theorem**: a relative path joined to an absolute parent and normalised is absolute, dot-free and
denotes the directory the path denotes from the parent's directory -/
theorem absolutize_relative {path parent : Str} (hrel : isAbs path = false) (hp : isAbs parent = true) :
    isAbsolute (absolutizePath path parent) = true ∧ dotFree (absolutizePath path parent) = true ∧
      denote (absolutizePath path parent) = denoteFrom (denote parent) path := by
  have hj : isAbs (joinPath parent path) = true := by
    obtain ⟨t, rfl⟩ := isAbs_cons hp
    unfold joinPath
    simp only [List.isEmpty_cons, Bool.false_eq_true, if_false]
    split <;> simp [isAbs]
  have hn := normComps_comps_normal (joinPath parent path)
  have ho : absolutizePath path parent = '/' :: joinChar '/' (normComps (comps (joinPath parent path))) := by
    simp [absolutizePath, hrel, normalizePath, hj]
  rw [ho]
  refine ⟨by simp [isAbsolute], dotFree_render hn, ?_⟩
  rw [denote_render hn]
  have hrel' : ¬ path.head? = some '/' := by
    simpa [isAbs] using hrel
  simp only [denoteFrom, hrel', if_false, denote]
  rw [← walk_joinPath hp, walk_eq_fold, normComps_eq, comps_eq]

/-- normalising a normalised absolute path changes nothing -/
theorem normalizePath_render {ns : List Str} (hn : ∀ c ∈ ns, Normal c ∧ '/' ∉ c) :
    normalizePath ('/' :: joinChar '/' ns) = '/' :: joinChar '/' ns := by
  have hc : comps ('/' :: joinChar '/' ns) = ns := by
    rw [comps_eq, split_render hn]
    by_cases h : ns = []
    · subst h; simp [keep]
    · simp only [h, if_false]
      exact filter_keep_normal (fun c hc => (hn c hc).1)
  unfold normalizePath
  simp only [hc, isAbs, List.head?_cons, decide_true, if_true]
  rw [normComps_eq, foldl_modelStep_normal _ _ (fun c hc => (hn c hc).1)]
  simp

end CnbVerif.PkgDescriptor
