import CnbVerif.Lemmas.ArgvRun
/-! `pack build`, `pack sbom download` and the small docker commands, parsed back by the reference grammars. -/
set_option linter.unusedSimpArgs false
namespace CnbVerif.ArgvLemmas
open CnbVerif CnbVerif.Argv CnbVerif.Spec.Pflag

theorem encode_map_flag1_id (l : List Word) (wd n : Word) :
    encode (l.map (fun x => Item.flag1 wd n x)) = l.flatMap (fun x => [wd, x]) :=
  encode_map_flag1 l wd n (fun x => x)

theorem optsOf_map_flag1_id (l : List Word) (wd n : Word) :
    optsOf (l.map (fun x => Item.flag1 wd n x)) = l.map (fun x => (n, x)) :=
  optsOf_map_flag1 l wd n (fun x => x)

theorem valuesOf_map_id (l : List Word) (n n' : Word) :
    valuesOf (l.map (fun x => (n', x))) n = if n' = n then l else [] := by
  have := valuesOf_map l n n' (fun x => x)
  simpa using this

theorem othersOf_map_id (l : List Word) (n' : Word) (k : List Word) (h : k.contains n' = true) :
    othersOf (l.map (fun x => (n', x))) k = [] :=
  othersOf_map l n' k (fun x => x) h

theorem possOf_append (a b : List Item) : possOf (a ++ b) = possOf a ++ possOf b := by simp [possOf]

theorem possOf_map_flag1 {α : Type} (l : List α) (f : α → Item) (h : ∀ x, (f x).posOf = []) : possOf (l.map f) = [] := by
  induction l with
  | nil => rfl
  | cons x xs ih => simp [possOf, h] 

def buildItems (c : PackBuildCommand) : List Item :=
  [.pos c.imageName,
   .flag1 w!"--builder" w!"builder" c.builder,
   .flag1 w!"--cache" w!"cache" (w!"type=build;format=volume;name=" ++ c.buildCacheVolumeName),
   .flag1 w!"--cache" w!"cache" (w!"type=launch;format=volume;name=" ++ c.launchCacheVolumeName),
   .flag1 w!"--path" w!"path" c.path,
   .flag1 w!"--pull-policy" w!"pull-policy" w!"if-not-present"]
  ++ c.buildpacks.map (fun b => .flag1 w!"--buildpack" w!"buildpack" b)
  ++ c.env.map (fun kv => .flag1 w!"--env" w!"env" (kv.1 ++ [61] ++ kv.2))
  ++ [.flag0 w!"--trust-builder" w!"trust-builder", .flag0 w!"--trust-extra-buildpacks" w!"trust-extra-buildpacks"]

theorem packBuildArgv_eq (c : PackBuildCommand) : packBuildArgv c = w!"build" :: encode (buildItems c) := by
  unfold packBuildArgv buildItems
  simp only [encode_append, encode_map_flag1, encode_map_flag1_id]
  simp [Item.words]

theorem buildItems_wf (c : PackBuildCommand) (himg : c.imageName.head? ≠ some 45) :
    ∀ i ∈ buildItems c, i.WF Spec.Pack.buildFlags := by
  have h1 : classify Spec.Pack.buildFlags w!"--builder" = .needsArg [] w!"builder" := by decide
  have h2 : classify Spec.Pack.buildFlags w!"--cache" = .needsArg [] w!"cache" := by decide
  have h3 : classify Spec.Pack.buildFlags w!"--path" = .needsArg [] w!"path" := by decide
  have h4 : classify Spec.Pack.buildFlags w!"--pull-policy" = .needsArg [] w!"pull-policy" := by decide
  have h5 : classify Spec.Pack.buildFlags w!"--buildpack" = .needsArg [] w!"buildpack" := by decide
  have h6 : classify Spec.Pack.buildFlags w!"--env" = .needsArg [] w!"env" := by decide
  have h7 : classify Spec.Pack.buildFlags w!"--trust-builder" = .complete [(w!"trust-builder", wTrue)] := by decide
  have h8 : classify Spec.Pack.buildFlags w!"--trust-extra-buildpacks" = .complete [(w!"trust-extra-buildpacks", wTrue)] := by decide
  intro i hi
  unfold buildItems at hi
  simp only [List.mem_append, List.mem_map, List.mem_cons, List.mem_nil_iff, or_false] at hi
  rcases hi with (((hi | hi | hi | hi | hi | hi) | ⟨_, _, hi⟩) | ⟨_, _, hi⟩) | (hi | hi)
  · subst hi; exact classify_positional _ _ himg
  · subst hi; exact h1
  · subst hi; exact h2
  · subst hi; exact h2
  · subst hi; exact h3
  · subst hi; exact h4
  · subst hi; exact h5
  · subst hi; exact h6
  · subst hi; exact h7
  · subst hi; exact h8

def buildOpts (c : PackBuildCommand) : List (Word × Word) :=
  [(w!"builder", c.builder),
   (w!"cache", w!"type=build;format=volume;name=" ++ c.buildCacheVolumeName),
   (w!"cache", w!"type=launch;format=volume;name=" ++ c.launchCacheVolumeName),
   (w!"path", c.path),
   (w!"pull-policy", w!"if-not-present")]
  ++ c.buildpacks.map (fun b => (w!"buildpack", b))
  ++ c.env.map (fun kv => (w!"env", kv.1 ++ [61] ++ kv.2))
  ++ [(w!"trust-builder", wTrue), (w!"trust-extra-buildpacks", wTrue)]

theorem optsOf_buildItems (c : PackBuildCommand) : optsOf (buildItems c) = buildOpts c := by
  unfold buildItems buildOpts
  simp only [optsOf_append, optsOf_map_flag1, optsOf_map_flag1_id]
  simp [Item.opt]

theorem possOf_buildItems (c : PackBuildCommand) : possOf (buildItems c) = [c.imageName] := by
  unfold buildItems
  rw [possOf_append, possOf_append, possOf_append, possOf_map_flag1 _ _ (fun _ => rfl), possOf_map_flag1 _ _ (fun _ => rfl)]
  simp [possOf, Item.posOf]

/-- tokenizer level for `pack build` -/
theorem parseArgs_packBuild (c : PackBuildCommand) (himg : c.imageName.head? ≠ some 45) :
    ∃ rest, packBuildArgv c = w!"build" :: rest ∧
      parseArgs Spec.Pack.buildFlags true rest = some ⟨buildOpts c, [c.imageName]⟩ := by
  refine ⟨_, packBuildArgv_eq c, ?_⟩
  rw [parseArgs_items _ _ (buildItems_wf c himg), optsOf_buildItems, possOf_buildItems]

theorem concatAll_singletons (l : List Word) : Spec.Pack.concatAll (l.map (fun b => [b])) = l := by
  induction l with
  | nil => rfl
  | cons x xs ih => simp [Spec.Pack.concatAll, ih]

def expectedBuildOf (c : PackBuildCommand) : Spec.Pack.Build :=
  { image := c.imageName, builder := some c.builder, path := some c.path, buildpacks := c.buildpacks,
    env := c.env.map (fun kv => (kv.1, some kv.2)),
    caches := [⟨w!"build", w!"volume", c.buildCacheVolumeName⟩, ⟨w!"launch", w!"volume", c.launchCacheVolumeName⟩],
    pullPolicy := some w!"if-not-present", trustBuilder := true, trustExtraBuildpacks := true, other := [] }

theorem interpretBuild_buildOpts (c : PackBuildCommand)
    (henv : ∀ kv ∈ c.env, 61 ∉ kv.1) (hbp : ∀ b ∈ c.buildpacks, b ≠ [] ∧ CsvSafe b)
    (hbc : NameSafe c.buildCacheVolumeName) (hlc : NameSafe c.launchCacheVolumeName) :
    Spec.Pack.interpretBuild ⟨buildOpts c, [c.imageName]⟩ = some (expectedBuildOf c) := by
  have hbps : allSome ((c.buildpacks).map Spec.Pack.stringSlice) = some (c.buildpacks.map (fun b => [b])) := by
    exact allSome_map _ _ _ (fun b hb => pack_stringSlice b (hbp b hb).1 (hbp b hb).2)
  have henv' : (c.env.map (fun kv => kv.1 ++ [61] ++ kv.2)).map Spec.Pack.splitEnv = c.env.map (fun kv => (kv.1, some kv.2)) := by
    rw [List.map_map]
    apply List.map_congr_left
    intro kv hkv
    exact pack_splitEnv kv.1 kv.2 (henv kv hkv)
  have hc1 := pack_parseCache w!"build" c.buildCacheVolumeName (Or.inl rfl) hbc
  have hc2 := pack_parseCache w!"launch" c.launchCacheVolumeName (Or.inr rfl) hlc
  have vbp : valuesOf (buildOpts c) w!"buildpack" = c.buildpacks := by
    unfold buildOpts
    simp [valuesOf_append, valuesOf_map, valuesOf_map_id, valuesOf_cons, valuesOf_nil]
  have venv : valuesOf (buildOpts c) w!"env" = c.env.map (fun kv => kv.1 ++ [61] ++ kv.2) := by
    unfold buildOpts
    simp [valuesOf_append, valuesOf_map, valuesOf_map_id, valuesOf_cons, valuesOf_nil]
  have vcache : valuesOf (buildOpts c) w!"cache" =
      [w!"type=build;format=volume;name=" ++ c.buildCacheVolumeName, w!"type=launch;format=volume;name=" ++ c.launchCacheVolumeName] := by
    unfold buildOpts
    simp [valuesOf_append, valuesOf_map, valuesOf_map_id, valuesOf_cons, valuesOf_nil]
  have vb : lastOf (buildOpts c) w!"builder" = some c.builder := by
    unfold buildOpts lastOf
    simp [valuesOf_append, valuesOf_map, valuesOf_map_id, valuesOf_cons, valuesOf_nil]
  have vp : lastOf (buildOpts c) w!"path" = some c.path := by
    unfold buildOpts lastOf
    simp [valuesOf_append, valuesOf_map, valuesOf_map_id, valuesOf_cons, valuesOf_nil]
  have vpp : lastOf (buildOpts c) w!"pull-policy" = some w!"if-not-present" := by
    unfold buildOpts lastOf
    simp [valuesOf_append, valuesOf_map, valuesOf_map_id, valuesOf_cons, valuesOf_nil]
  have vtb : boolOf (buildOpts c) w!"trust-builder" = some true := by
    unfold buildOpts boolOf
    simp [valuesOf_append, valuesOf_map, valuesOf_map_id, valuesOf_cons, valuesOf_nil, allSome, parseBool, wTrue]
  have vte : boolOf (buildOpts c) w!"trust-extra-buildpacks" = some true := by
    unfold buildOpts boolOf
    simp [valuesOf_append, valuesOf_map, valuesOf_map_id, valuesOf_cons, valuesOf_nil, allSome, parseBool, wTrue]
  have voth : othersOf (buildOpts c) Spec.Pack.buildKnown = [] := by
    unfold buildOpts
    simp [othersOf_append, othersOf_map, othersOf_map_id, othersOf_cons_known, othersOf_nil, Spec.Pack.buildKnown]
  have hcaches : allSome ([w!"type=build;format=volume;name=" ++ c.buildCacheVolumeName,
      w!"type=launch;format=volume;name=" ++ c.launchCacheVolumeName].map Spec.Pack.parseCache)
      = some [⟨w!"build", w!"volume", c.buildCacheVolumeName⟩, ⟨w!"launch", w!"volume", c.launchCacheVolumeName⟩] := by
    have e1 : (w!"type=build;format=volume;name=" ++ c.buildCacheVolumeName)
        = w!"type=" ++ w!"build" ++ w!";format=volume;name=" ++ c.buildCacheVolumeName := by simp
    have e2 : (w!"type=launch;format=volume;name=" ++ c.launchCacheVolumeName)
        = w!"type=" ++ w!"launch" ++ w!";format=volume;name=" ++ c.launchCacheVolumeName := by simp
    rw [e1, e2]
    simp only [List.map_cons, List.map_nil, hc1, hc2, allSome, Option.map_some]
  unfold Spec.Pack.interpretBuild
  simp only []
  rw [vbp, venv, vcache, vb, vp, vpp, vtb, vte, voth, hbps, hcaches, henv']
  simp only [concatAll_singletons]
  rfl

theorem parsePackBuild_argv (c : PackBuildCommand) (himg : c.imageName.head? ≠ some 45)
    (henv : ∀ kv ∈ c.env, 61 ∉ kv.1) (hbp : ∀ b ∈ c.buildpacks, b ≠ [] ∧ CsvSafe b)
    (hbc : NameSafe c.buildCacheVolumeName) (hlc : NameSafe c.launchCacheVolumeName) :
    Spec.Pack.parsePackBuild (packBuildArgv c) = some (expectedBuildOf c) := by
  obtain ⟨rest, e, hp⟩ := parseArgs_packBuild c himg
  rw [e]
  simp only [Spec.Pack.parsePackBuild, if_true, hp]
  exact interpretBuild_buildOpts c henv hbp hbc hlc

/-! ### the small commands -/

theorem parseDockerExec_argv (ctr cmd : Word) (hc : ctr.head? ≠ some 45) :
    Spec.Docker.parseDockerExec (shellExecArgv ctr cmd) = some ⟨ctr, [launcher, cmd], []⟩ := by
  have := parseArgs_flags_then_pos Spec.Docker.execFlags [] ctr [launcher, cmd] (by simp) (by simp)
    (classify_positional _ _ hc)
  simp only [encode_nil, List.nil_append, optsOf_nil] at this
  simp [shellExecArgv, dockerExecArgv, Spec.Docker.parseDockerExec, this]

theorem parseDockerLogs_argv (ctr : Word) (follow : Bool) (hc : ctr.head? ≠ some 45) :
    Spec.Docker.parseDockerLogs (dockerLogsArgv ctr follow) = some ⟨ctr, follow, []⟩ := by
  have hf : classify Spec.Docker.logsFlags w!"--follow" = .complete [(w!"follow", wTrue)] := by decide
  cases follow with
  | false =>
    have := parseArgs_items Spec.Docker.logsFlags [.pos ctr] (by simpa [Item.WF] using classify_positional _ _ hc)
    simp [Item.words, Item.opt, possOf, Item.posOf] at this
    simp [dockerLogsArgv, Spec.Docker.parseDockerLogs, this, boolOf, valuesOf, allSome, othersOf]
  | true =>
    have := parseArgs_items Spec.Docker.logsFlags [.pos ctr, .flag0 w!"--follow" w!"follow"]
      (by intro i hi; simp at hi; rcases hi with h | h <;> subst h <;> simp [Item.WF, hf, classify_positional _ _ hc])
    simp [Item.words, Item.opt, possOf, Item.posOf] at this
    simp [dockerLogsArgv, Spec.Docker.parseDockerLogs, this, boolOf, valuesOf, allSome, othersOf, parseBool, wTrue]

theorem parseDockerPort_argv (ctr : Word) (p : Nat) (hc : ctr.head? ≠ some 45) (hp : p ≤ 65535) :
    Spec.Docker.parseDockerPort (dockerPortArgv ctr p) = some ⟨ctr, p, w!"tcp"⟩ := by
  have hd : (natToDec p).head? ≠ some 45 := by
    intro h
    have : 45 ∈ natToDec p := by
      cases hn : natToDec p with
      | nil => simp [hn] at h
      | cons x xs => simp [hn] at h; simp [h]
    exact natToDec_not_mem p 45 (by omega) this
  have := parseArgs_items Spec.Docker.portFlags [.pos ctr, .pos (natToDec p)]
    (by intro i hi; simp at hi; rcases hi with h | h <;> subst h <;> simp [Item.WF, classify_positional _ _ hc, classify_positional _ _ hd])
  simp [Item.words, Item.opt, possOf, Item.posOf] at this
  simp [dockerPortArgv, Spec.Docker.parseDockerPort, this, cutAt_none 47 _ (natToDec_not_mem p 47 (by omega)),
    decToNat_natToDec, hp]

theorem encode_map_pos (names : List Word) : encode (names.map Item.pos) = names := by
  induction names with
  | nil => rfl
  | cons x xs ih => simp [Item.words, ih]

theorem optsOf_map_pos (names : List Word) : optsOf (names.map Item.pos) = [] := by
  induction names with
  | nil => rfl
  | cons x xs ih => simp [Item.opt, ih]

theorem possOf_map_pos (names : List Word) : possOf (names.map Item.pos) = names := by
  induction names with
  | nil => rfl
  | cons x xs ih => simp only [possOf] at ih; simp [possOf, Item.posOf, ih]

theorem parseRemove_names_force (tbl : List Flag) (names : List Word) (hne : names ≠ [])
    (hn : ∀ n ∈ names, n.head? ≠ some 45)
    (hf : classify tbl w!"--force" = .complete [(w!"force", wTrue)]) :
    Spec.Docker.parseRemove tbl (names ++ [w!"--force"]) = some ⟨names, true, []⟩ := by
  have := parseArgs_items tbl (names.map Item.pos ++ [.flag0 w!"--force" w!"force"])
    (by
      intro i hi
      simp only [List.mem_append, List.mem_map, List.mem_singleton] at hi
      rcases hi with ⟨n, hnn, e⟩ | e
      · subst e; exact classify_positional _ _ (hn n hnn)
      · subst e; exact hf)
  have e1 : encode (names.map Item.pos ++ [.flag0 w!"--force" w!"force"]) = names ++ [w!"--force"] := by
    simp only [encode_append]
    rw [encode_map_pos]; simp [Item.words]
  have e2 : optsOf (names.map Item.pos ++ [.flag0 w!"--force" w!"force"]) = [(w!"force", wTrue)] := by
    simp only [optsOf_append]
    rw [optsOf_map_pos]; simp [Item.opt]
  have e3 : possOf (names.map Item.pos ++ [.flag0 w!"--force" w!"force"]) = names := by
    rw [possOf_append]
    rw [possOf_map_pos]; simp [possOf, Item.posOf]
  rw [e1, e2, e3] at this
  unfold Spec.Docker.parseRemove
  rw [this]
  cases names with
  | nil => exact absurd rfl hne
  | cons x xs => simp [boolOf, valuesOf, allSome, parseBool, wTrue, othersOf]

theorem parseDockerRm_argv (ctr : Word) (hc : ctr.head? ≠ some 45) :
    Spec.Docker.parseDockerRm (dockerRmArgv ctr) = some ⟨[ctr], true, []⟩ := by
  have := parseRemove_names_force Spec.Docker.rmFlags [ctr] (by simp) (by simpa using hc) (by decide)
  simpa [dockerRmArgv, Spec.Docker.parseDockerRm] using this

theorem parseDockerRmi_argv (img : Word) (hc : img.head? ≠ some 45) :
    Spec.Docker.parseDockerRmi (dockerRmiArgv img) = some ⟨[img], true, []⟩ := by
  have := parseRemove_names_force Spec.Docker.rmiFlags [img] (by simp) (by simpa using hc) (by decide)
  simpa [dockerRmiArgv, Spec.Docker.parseDockerRmi] using this

theorem parseDockerVolumeRm_argv (vols : List Word) (hne : vols ≠ []) (hv : ∀ n ∈ vols, n.head? ≠ some 45) :
    Spec.Docker.parseDockerVolumeRm (dockerVolumeRemoveArgv vols) = some ⟨vols, true, []⟩ := by
  have := parseRemove_names_force Spec.Docker.volumeRmFlags vols hne hv (by decide)
  simpa [dockerVolumeRemoveArgv, Spec.Docker.parseDockerVolumeRm] using this

theorem parsePackSbomDownload_argv (img dir : Word) (hc : img.head? ≠ some 45) :
    Spec.Pack.parsePackSbomDownload (packSbomDownloadArgv img dir) = some ⟨img, some dir, []⟩ := by
  have hf : classify Spec.Pack.sbomFlags w!"--output-dir" = .needsArg [] w!"output-dir" := by decide
  have := parseArgs_items Spec.Pack.sbomFlags [.pos img, .flag1 w!"--output-dir" w!"output-dir" dir]
    (by intro i hi; simp at hi; rcases hi with h | h <;> subst h <;> simp [Item.WF, hf, classify_positional _ _ hc])
  simp [Item.words, Item.opt, possOf, Item.posOf] at this
  simp [packSbomDownloadArgv, Spec.Pack.parsePackSbomDownload, this, lastOf, valuesOf, othersOf]

end CnbVerif.ArgvLemmas
