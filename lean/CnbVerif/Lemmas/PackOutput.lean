import CnbVerif.Model.PackOutput
/-!
Lemmas for the C17 count clause: in the scenario model (`Model/TestRunner.lean`) the only place a `pack build` entry is
appended to the command log is the one `exec` of `evalBuilds` per build of the chain — for **every** oracle, i.e. whatever
any external command returns.
-/
namespace CnbVerif.PackOutput
open CnbVerif CnbVerif.Argv CnbVerif.TestRunner

def isPB : ACmd → Bool
  | .packBuild _ => true
  | _ => false

/-- the `pack build` commands of a log, in order -/
def pbs (log : List Entry) : List ACmd := (log.map (·.cmd)).filter isPB

@[simp] theorem pbs_nil : pbs [] = [] := rfl
@[simp] theorem pbs_append (a b : List Entry) : pbs (a ++ b) = pbs a ++ pbs b := by simp [pbs]

theorem exec_pbs (o : Oracle) (base : Res) (c : ACmd) (s : St) (h : isPB c = false) :
    pbs (s.exec o base c).2.log = pbs s.log := by
  simp [St.exec, pbs, h]

theorem exec_pbs_build (o : Oracle) (base : Res) (c : PackBuildCommand) (s : St) :
    pbs (s.exec o base (.packBuild c)).2.log = pbs s.log ++ [.packBuild c] := by
  simp [St.exec, pbs, isPB]

theorem release_pbs (s : St) (gs : List Guard) : pbs (s.release gs).log = pbs s.log := rfl

theorem evalCAct_pbs (o : Oracle) (ctr : Word) (cfg : ContainerConfig) (a : CAct) (s : St) :
    pbs (evalCAct o ctr cfg a s).2.log = pbs s.log := by
  cases a with
  | logsNow => exact exec_pbs o .ok _ s rfl
  | logsWait => exact exec_pbs o .ok _ s rfl
  | exec cmd => exact exec_pbs o .ok _ s rfl
  | panic => rfl
  | port p =>
    simp only [evalCAct]
    split
    · split
      · exact exec_pbs o .ok _ s rfl
      · rw [exec_pbs o .ok _ _ rfl]; exact exec_pbs o .ok _ s rfl
      · exact exec_pbs o .ok _ s rfl
    · rfl

theorem evalCActs_pbs (o : Oracle) (ctr : Word) (cfg : ContainerConfig) (cas : List CAct) (s : St) :
    pbs (evalCActs o ctr cfg cas s).2.log = pbs s.log := by
  induction cas generalizing s with
  | nil => rfl
  | cons a r ih =>
    simp only [evalCActs]
    split
    · rw [ih]; exact evalCAct_pbs o ctr cfg a s
    · exact evalCAct_pbs o ctr cfg a s

theorem evalStart_pbs (o : Oracle) (image triple : Word) (cfg : ContainerConfig) (cas : List CAct) (s : St) :
    pbs (evalStart o image triple cfg cas s).2.log = pbs s.log := by
  simp only [evalStart]
  split
  · rfl
  · rename_i plat _
    have h1 := exec_pbs o .ok (.run (startContainerCommand image (nameWord s.ids) plat cfg)) { s with ids := s.ids + 1 } rfl
    generalize St.exec o Res.ok (ACmd.run (startContainerCommand image (nameWord s.ids) plat cfg)) _ = r1 at h1 ⊢
    have h2 : pbs (if r1.1 = .ok then evalCActs o (nameWord s.ids) cfg cas r1.2 else (Outcome.panicked, r1.2)).2.log = pbs s.log := by
      split
      · rw [evalCActs_pbs]; exact h1
      · exact h1
    generalize (if r1.1 = .ok then evalCActs o (nameWord s.ids) cfg cas r1.2 else (Outcome.panicked, r1.2)) = r2 at h2 ⊢
    have h3 := exec_pbs o .ok (.rm (nameWord s.ids)) r2.2 rfl
    rw [h2] at h3
    generalize St.exec o Res.ok (ACmd.rm (nameWord s.ids)) r2.2 = r3 at h3 ⊢
    split
    · exact h3
    · split <;> exact h3

theorem evalAct_pbs (o : Oracle) (image triple : Word) (a : Act) (s : St) :
    pbs (evalAct o image triple a s).2.log = pbs s.log := by
  cases a with
  | startContainer cfg cas => exact evalStart_pbs o image triple cfg cas s
  | panic => rfl
  | runShell cmd =>
    simp only [evalAct]
    split
    · rfl
    · exact exec_pbs o .ok _ _ rfl
  | downloadSbom =>
    simp only [evalAct]
    rw [release_pbs]
    exact exec_pbs o .ok _ _ rfl

theorem evalActs_pbs (o : Oracle) (image triple : Word) (acts : List Act) (s : St) :
    pbs (evalActs o image triple acts s).2.log = pbs s.log := by
  induction acts generalizing s with
  | nil => rfl
  | cons a r ih =>
    simp only [evalActs]
    split
    · rw [ih]; exact evalAct_pbs o image triple a s
    · exact evalAct_pbs o image triple a s

theorem dropResources_pbs (o : Oracle) (res : Resources) (s : St) : pbs (dropResources o res s).log = pbs s.log := by
  simp only [dropResources]
  rw [exec_pbs o .ok _ _ rfl]
  exact exec_pbs o .ok _ _ rfl

/-- the `pack build` of one build call: the configuration's command for the resources of the run, pointed at the fixture
itself when there is no preprocessor and at some temporary directory when there is one -/
def BuildOf (res : Resources) (b : Build) (c : ACmd) : Prop :=
  ∃ p, c = .packBuild (packBuildCommand res b.cfg.cfg p) ∧
    (b.cfg.preprocessor = false → p = normalizedAppDir manifestWord b.cfg.cfg.appDir) ∧
    (b.cfg.preprocessor = true → ∃ k, p = tmpWord k)

theorem buildOf_here (res : Resources) (b : Build) (s : St) :
    BuildOf res b (.packBuild (packBuildCommand res b.cfg.cfg (buildAppPath b s))) := by
  refine ⟨buildAppPath b s, rfl, ?_, ?_⟩
  · intro h; simp [buildAppPath, h]
  · intro h; exact ⟨s.tmps, by simp [buildAppPath, h]⟩

/-- element-wise relation of two lists of the same length -/
inductive Paired {α β : Type} (R : α → β → Prop) : List α → List β → Prop
  | nil : Paired R [] []
  | cons {a : α} {b : β} {as : List α} {bs : List β} : R a b → Paired R as bs → Paired R (a :: as) (b :: bs)

theorem Paired.length_eq {α β : Type} {R : α → β → Prop} {as : List α} {bs : List β} (h : Paired R as bs) :
    as.length = bs.length := by
  induction h with
  | nil => rfl
  | cons _ _ ih => simp [ih]

/-- **One `pack build` per build call, whatever the tools return.** The `pack build` commands `evalBuilds` adds to the log
are those of a prefix of the chain, one each, in order — the whole chain when the run ends normally. -/
theorem evalBuilds_pbs (o : Oracle) (res : Resources) (builds : List Build) (s : St) :
    ∃ k, k ≤ builds.length ∧ ∃ added, pbs (evalBuilds o res builds s).2.log = pbs s.log ++ added ∧
      Paired (BuildOf res) (builds.take k) added ∧
      ((evalBuilds o res builds s).1 = .ok → k = builds.length) := by
  induction builds generalizing s with
  | nil =>
    refine ⟨0, Nat.le_refl _, [], ?_, Paired.nil, fun _ => rfl⟩
    simp only [evalBuilds, List.append_nil]
    exact dropResources_pbs o res s
  | cons b rest ih =>
    simp only [evalBuilds]
    split
    · -- invalid app dir: panic before pack is run
      refine ⟨0, Nat.zero_le _, [], ?_, Paired.nil, fun h => by simp at h⟩
      simp only [List.append_nil]
      exact dropResources_pbs o res s
    · generalize hs0 : ({ s with tmps := s.tmps + (buildGuards b s).length, guards := buildGuards b s ++ s.guards } : St) = s0
      have hs0log : s0.log = s.log := by rw [← hs0]
      generalize hc : packBuildCommand res b.cfg.cfg (buildAppPath b s) = c
      have hb : BuildOf res b (.packBuild c) := by rw [← hc]; exact buildOf_here res b s
      have hr : pbs (s0.exec o b.cfg.packResult (.packBuild c)).2.log = pbs s.log ++ [.packBuild c] := by
        rw [exec_pbs_build, hs0log]
      generalize s0.exec o b.cfg.packResult (.packBuild c) = r at hr
      have one : Paired (BuildOf res) ((b :: rest).take 1) [ACmd.packBuild c] := Paired.cons hb Paired.nil
      split
      · -- pack ended against the expectation: panic, nothing more
        refine ⟨1, by simp, [.packBuild c], ?_, one, fun h => by simp at h⟩
        rw [dropResources_pbs, release_pbs]; exact hr
      · have ha : pbs (evalActs o res.imageName b.cfg.triple b.acts r.2).2.log = pbs s.log ++ [.packBuild c] := by
          rw [evalActs_pbs]; exact hr
        generalize evalActs o res.imageName b.cfg.triple b.acts r.2 = ra at ha
        split
        · exact ⟨1, by simp, [.packBuild c], ha, one, fun h => by simp at h⟩
        · refine ⟨1, by simp, [.packBuild c], ?_, one, fun h => by simp at h⟩
          rw [release_pbs, dropResources_pbs]; exact ha
        · obtain ⟨k, hk, added, hlog, hall, hok⟩ := ih ra.2
          have hcons : Paired (BuildOf res) ((b :: rest).take (k + 1)) (ACmd.packBuild c :: added) := Paired.cons hb hall
          split
          · refine ⟨k + 1, by simpa using hk, .packBuild c :: added, ?_, hcons, fun h => by simp at h⟩
            rw [hlog, ha]; simp
          · rename_i oc hne
            refine ⟨k + 1, by simpa using hk, .packBuild c :: added, ?_, hcons, fun h => ?_⟩
            · rw [release_pbs, hlog, ha]; simp
            · simp only at h
              simp [hok h]

/-! ### the panic messages quote the output -/

theorem infix_prepend {α : Type} {x d : List α} (pre : List α) (h : x <:+: d) : x <:+: pre ++ d := by
  obtain ⟨s, t, e⟩ := h
  exact ⟨pre ++ s, t, by rw [← e]; simp [List.append_assoc]⟩

theorem display_quotes (o : LogOutput) : o.stdout <:+: o.display ∧ o.stderr <:+: o.display :=
  ⟨⟨w!"## stderr:\n\n" ++ o.stderr ++ w!"\n## stdout:\n\n", w!"\n", rfl⟩,
   ⟨w!"## stderr:\n\n", w!"\n## stdout:\n\n" ++ o.stdout ++ w!"\n", by simp [LogOutput.display, List.append_assoc]⟩⟩

theorem error_display_quotes (p : Bytes) (c : Nat) (o : LogOutput) :
    o.stdout <:+: (CommandError.nonZero p c o).display ∧ o.stderr <:+: (CommandError.nonZero p c o).display :=
  ⟨infix_prepend _ (display_quotes o).1, infix_prepend _ (display_quotes o).2⟩

end CnbVerif.PackOutput
