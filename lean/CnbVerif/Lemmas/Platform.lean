import CnbVerif.Model.Platform
import CnbVerif.Spec.ContextSpec
/-! Helper lemmas for C06: the environment map, the `read_platform_env` loop, `context_target`. -/
namespace CnbVerif.Platform
open Spec

theorem lookup_filter_ne (e : PEnv) (n m : Bytes) (h : m ≠ n) :
    List.lookup m (e.filter (fun kv => kv.1 != n)) = List.lookup m e := by
  induction e with
  | nil => rfl
  | cons x xs ih =>
    obtain ⟨k, v⟩ := x
    by_cases hk : k = n
    · subst hk
      have hmk : (m == k) = false := by simpa using h
      simp [List.lookup, hmk, ih]
    · have : (k != n) = true := by simpa using hk
      simp only [List.filter_cons, this, if_true, List.lookup]
      cases hmk : m == k <;> simp [ih]

theorem get_insert_self (e : PEnv) (n v : Bytes) : (e.insert n v).get n = some v := by
  simp [PEnv.get, PEnv.insert]

theorem get_insert_ne (e : PEnv) (n m v : Bytes) (h : m ≠ n) : (e.insert n v).get m = e.get m := by
  have hmn : (m == n) = false := by simpa using h
  simp only [PEnv.get, PEnv.insert, List.lookup, hmn]
  exact lookup_filter_ne e n m h

/-- keys of the map stay duplicate-free under `insert` -/
theorem keys_insert_nodup (e : PEnv) (n v : Bytes) (h : (e.map (·.1)).Nodup) : ((e.insert n v).map (·.1)).Nodup := by
  simp only [PEnv.insert, List.map_cons, List.nodup_cons]
  constructor
  · intro hmem
    rw [List.mem_map] at hmem
    obtain ⟨x, hx, hxn⟩ := hmem
    rw [List.mem_filter] at hx
    simp [hxn] at hx
  · exact (List.Nodup.sublist ((List.filter_sublist).map _) h)

/-- for duplicate-free keys, `lookup` is membership -/
theorem lookup_iff_mem (l : List (Bytes × Bytes)) (h : (l.map (·.1)).Nodup) (n c : Bytes) :
    List.lookup n l = some c ↔ (n, c) ∈ l := by
  induction l with
  | nil => simp [List.lookup]
  | cons x xs ih =>
    obtain ⟨k, v⟩ := x
    simp only [List.map_cons, List.nodup_cons] at h
    by_cases hk : n = k
    · subst hk
      simp only [List.lookup, beq_self_eq_true, List.mem_cons, Prod.mk.injEq, true_and]
      constructor
      · intro hh; left; exact (Option.some.inj hh).symm
      · rintro (hh | hh)
        · rw [hh]
        · exact absurd (List.mem_map.mpr ⟨(n, c), hh, rfl⟩) h.1
    · have hnk : (n == k) = false := by simpa using hk
      simp only [List.lookup, hnk, List.mem_cons, Prod.mk.injEq, hk, false_and, false_or]
      exact ih h.2

theorem supplied_cons_file (n : Bytes) (k : EntryKind) (c : Bytes) (rest : List (Bytes × EntryKind))
    (h : k.fileContent = some c) : supplied ((n, k) :: rest) = (n, c) :: supplied rest := by
  cases k <;> simp [EntryKind.fileContent] at h <;> subst h <;> simp [supplied]

theorem supplied_cons_other (n : Bytes) (k : EntryKind) (rest : List (Bytes × EntryKind))
    (h : k.fileContent = none) : supplied ((n, k) :: rest) = supplied rest := by
  cases k <;> simp [EntryKind.fileContent] at h <;> simp [supplied]

theorem supplied_names_sub (l : List (Bytes × EntryKind)) (n : Bytes) (h : n ∈ (supplied l).map (·.1)) : n ∈ l.map (·.1) := by
  induction l with
  | nil => simp [supplied] at h
  | cons x xs ih =>
    obtain ⟨m, k⟩ := x
    cases hk : k.fileContent with
    | none => rw [supplied_cons_other _ _ _ hk] at h; simp only [List.map_cons, List.mem_cons]; right; exact ih h
    | some c =>
      rw [supplied_cons_file _ _ _ _ hk] at h
      simp only [List.map_cons, List.mem_cons] at h ⊢
      rcases h with h | h
      · left; exact h
      · right; exact ih h

theorem supplied_nodup (l : List (Bytes × EntryKind)) (h : (l.map (·.1)).Nodup) : ((supplied l).map (·.1)).Nodup := by
  induction l with
  | nil => simp [supplied]
  | cons x xs ih =>
    obtain ⟨m, k⟩ := x
    simp only [List.map_cons, List.nodup_cons] at h
    cases hk : k.fileContent with
    | none => rw [supplied_cons_other _ _ _ hk]; exact ih h.2
    | some c =>
      rw [supplied_cons_file _ _ _ _ hk]
      simp only [List.map_cons, List.nodup_cons]
      exact ⟨fun hm => h.1 (supplied_names_sub xs m hm), ih h.2⟩

/-- the loop never fails when every file-like entry is representable, and then (names being distinct, as in a
directory) a name maps to the supplied content, or to what the map held before -/
theorem readEntries_ok (valid : Bytes → Bool) (l : List (Bytes × EntryKind)) (env0 : PEnv)
    (hnd : (l.map (·.1)).Nodup) (hv : ∀ kv ∈ supplied l, valid kv.2 = true) (h0 : (env0.map (·.1)).Nodup) :
    ∃ env, readEntries valid l env0 = .ok env ∧ (env.map (·.1)).Nodup ∧
      ∀ n, env.get n = match List.lookup n (supplied l) with | some c => some c | none => env0.get n := by
  induction l generalizing env0 with
  | nil => exact ⟨env0, rfl, h0, fun n => by simp [supplied]⟩
  | cons x xs ih =>
    obtain ⟨m, k⟩ := x
    simp only [List.map_cons, List.nodup_cons] at hnd
    unfold readEntries
    cases hk : k.fileContent with
    | none =>
      rw [supplied_cons_other _ _ _ hk] at hv ⊢
      exact ih env0 hnd.2 hv h0
    | some c =>
      rw [supplied_cons_file _ _ _ _ hk] at hv ⊢
      have hvc : valid c = true := hv (m, c) (List.mem_cons_self ..)
      simp only [hvc, if_true]
      obtain ⟨env, he, hn, hg⟩ := ih (env0.insert m c) hnd.2 (fun kv hkv => hv kv (List.mem_cons_of_mem _ hkv)) (keys_insert_nodup env0 m c h0)
      refine ⟨env, he, hn, fun n => ?_⟩
      rw [hg n]
      by_cases hnm : n = m
      · subst hnm
        have : List.lookup n (supplied xs) = none := by
          cases hl : List.lookup n (supplied xs) with
          | none => rfl
          | some c' =>
            have := (lookup_iff_mem _ (supplied_nodup xs hnd.2) n c').mp hl
            exact absurd (supplied_names_sub xs n (List.mem_map.mpr ⟨_, this, rfl⟩)) hnd.1
        simp [this, get_insert_self, List.lookup]
      · have hb : (n == m) = false := by simpa using hnm
        simp only [List.lookup, hb]
        cases List.lookup n (supplied xs) with
        | some c' => rfl
        | none => exact get_insert_ne env0 m n c hnm

/-- the loop fails exactly when some supplied content is not representable — wherever it sits in the listing -/
theorem readEntries_error_iff (valid : Bytes → Bool) (l : List (Bytes × EntryKind)) (env0 : PEnv) :
    readEntries valid l env0 = .error () ↔ (supplied l).any (fun kv => !valid kv.2) = true := by
  induction l generalizing env0 with
  | nil => simp [readEntries, supplied]
  | cons x xs ih =>
    obtain ⟨m, k⟩ := x
    unfold readEntries
    cases hk : k.fileContent with
    | none => rw [supplied_cons_other _ _ _ hk]; exact ih env0
    | some c =>
      rw [supplied_cons_file _ _ _ _ hk]
      cases hvc : valid c with
      | true => simp only [if_true, List.any_cons, hvc, Bool.not_true, Bool.false_or]; exact ih _
      | false => simp [hvc]

theorem readEntries_total (valid : Bytes → Bool) (l : List (Bytes × EntryKind)) (env0 : PEnv) :
    (∃ env, readEntries valid l env0 = .ok env) ∨ readEntries valid l env0 = .error () := by
  cases h : readEntries valid l env0 with
  | ok e => exact Or.inl ⟨e, rfl⟩
  | error u => cases u; exact Or.inr rfl

theorem envVar_ok (valid : Bytes → Bool) (x : VarVal) (h : varOk valid x = true) : envVar valid x = some (varBytes x) := by
  cases x with
  | unset => simp [varOk] at h
  | val b => simp [varOk] at h; simp [envVar, varBytes, h]

theorem envVar_bad (valid : Bytes → Bool) (x : VarVal) (h : varOk valid x = false) : envVar valid x = none := by
  cases x with
  | unset => rfl
  | val b => simp [varOk] at h; simp [envVar, h]

/-! documents as raw file-system state -/

theorem readError_none (valid : Bytes → Bool) (d : Doc) (h : d.readError valid = none) : d = .asGiven := by
  cases d with
  | asGiven => rfl
  | missing => simp [Doc.readError] at h
  | unreadable => simp [Doc.readError] at h
  | undecodable b => simp only [Doc.readError] at h; cases hv : valid b <;> simp [hv] at h

theorem readError_notFound (valid : Bytes → Bool) (d : Doc) (h : d.readError valid = some .ioNotFound) : d = .missing := by
  cases d with
  | asGiven => simp [Doc.readError] at h
  | missing => rfl
  | unreadable => simp [Doc.readError] at h
  | undecodable b => simp only [Doc.readError] at h; cases hv : valid b <;> simp [hv] at h

end CnbVerif.Platform
