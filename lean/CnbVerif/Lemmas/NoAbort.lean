import CnbVerif.Lemmas.TestRunner
/-! When the model of libcnb-test cannot abort (a panic inside `Drop for ContainerContext` during unwinding). -/
namespace CnbVerif.TestRunner
open CnbVerif CnbVerif.Argv

/-- a step of a container closure that cannot panic by itself -/
def QuietCAct (cfg : ContainerConfig) : CAct → Prop
  | .panic => False
  | .port p => cfg.exposedPorts.contains p = true
  | _ => True

/-- no `panic` step and no look-up of an unexposed port inside any container closure -/
def NoPanicInContainers (sc : Scenario) : Prop :=
  ∀ b ∈ sc, ∀ a ∈ b.acts, match a with
    | .startContainer cfg cas => ∀ ca ∈ cas, QuietCAct cfg ca
    | _ => True

/-- the oracle never makes `docker rm` fail -/
def RmNeverFails (o : Oracle) : Prop := ∀ i ctr n, o i (.rm ctr) n = none

/-- the oracle overrides at most the command with global index `k` -/
def OnlyAt (o : Oracle) (k : Nat) : Prop := ∀ i c n, i ≠ k → o i c n = none

theorem exec_res_of_none (o : Oracle) (base : Res) (c : ACmd) (s : St)
    (h : o s.log.length c (s.log.countP (fun e => e.cmd.prog == c.prog)) = none) : (s.exec o base c).1 = base := by
  simp [St.exec, h]

theorem exec_len (o : Oracle) (base : Res) (c : ACmd) (s : St) : (s.exec o base c).2.log.length = s.log.length + 1 := by
  simp [exec_log]

theorem ext_len {s s' : St} {P : List ACmd → Prop} (h : Ext s s' P) : s.log.length ≤ s'.log.length := by
  obtain ⟨es, l, _⟩ := h
  rw [l, List.length_append]; exact Nat.le_add_right _ _

/-- a quiet step whose commands are not overridden succeeds, and issues at least one command -/
theorem evalCAct_quiet (o : Oracle) (ctr : Word) (cfg : ContainerConfig) (a : CAct) (s : St)
    (hq : QuietCAct cfg a) (ho : ∀ c n, o s.log.length c n = none) :
    (evalCAct o ctr cfg a s).1 = .ok ∧ (evalCAct o ctr cfg a s).2.log.length = s.log.length + 1 := by
  cases a with
  | panic => exact absurd hq (by simp [QuietCAct])
  | logsNow => simp [evalCAct, exec_res_of_none o .ok _ s (ho _ _), ofRes, exec_len]
  | logsWait => simp [evalCAct, exec_res_of_none o .ok _ s (ho _ _), ofRes, exec_len]
  | exec cmd => simp [evalCAct, exec_res_of_none o .ok _ s (ho _ _), ofRes, exec_len]
  | port p =>
    have hq' : cfg.exposedPorts.contains p = true := hq
    have hm : p ∈ cfg.exposedPorts := by simpa using hq'
    simp [evalCAct, hm, exec_res_of_none o .ok _ s (ho _ _), exec_len]

/-- a quiet step issues at least one command, whatever comes of it -/
theorem evalCAct_len (o : Oracle) (ctr : Word) (cfg : ContainerConfig) (a : CAct) (s : St) (hq : QuietCAct cfg a) :
    s.log.length + 1 ≤ (evalCAct o ctr cfg a s).2.log.length := by
  cases a with
  | panic => exact absurd hq (by simp [QuietCAct])
  | logsNow => simp [evalCAct, exec_len]
  | logsWait => simp [evalCAct, exec_len]
  | exec cmd => simp [evalCAct, exec_len]
  | port p =>
    have hq' : cfg.exposedPorts.contains p = true := hq
    simp only [evalCAct, hq', if_true]
    split <;> simp [exec_len] <;> omega

theorem evalCActs_quiet (o : Oracle) (ctr : Word) (cfg : ContainerConfig) (cas : List CAct) (s : St)
    (hq : ∀ ca ∈ cas, QuietCAct cfg ca)
    (ho : ∀ i, s.log.length ≤ i → i < (evalCActs o ctr cfg cas s).2.log.length → ∀ c n, o i c n = none) :
    (evalCActs o ctr cfg cas s).1 = .ok := by
  induction cas generalizing s with
  | nil => rfl
  | cons a r ih =>
    have hmono : ∀ s', s'.log.length ≤ (evalCActs o ctr cfg r s').2.log.length :=
      fun s' => ext_len (evalCActs_spec o ctr cfg r s').1
    -- the first step issues its command at index `s.log.length`, which is below the final length
    have hstep_len : s.log.length < (evalCActs o ctr cfg (a :: r) s).2.log.length := by
      have h1 := evalCAct_len o ctr cfg a s (hq a (by simp))
      simp only [evalCActs]
      split
      · have := hmono (evalCAct o ctr cfg a s).2; omega
      · simp only []; omega
    obtain ⟨hok, hlen⟩ := evalCAct_quiet o ctr cfg a s (hq a (by simp)) (ho s.log.length (Nat.le_refl _) hstep_len)
    have hfinal : (evalCActs o ctr cfg (a :: r) s) = evalCActs o ctr cfg r (evalCAct o ctr cfg a s).2 := by
      simp only [evalCActs, hok]
    rw [hfinal]
    apply ih _ (fun ca hca => hq ca (by simp [hca]))
    intro i hi1 hi2
    apply ho i (by omega)
    rw [hfinal]; exact hi2

/-- `start_container` aborts only if `docker rm` fails after something else inside it went wrong -/
theorem evalStart_not_aborted_of_rm_ok (o : Oracle) (image triple : Word) (cfg : ContainerConfig) (cas : List CAct) (s : St)
    (h : RmNeverFails o) : (evalStart o image triple cfg cas s).1 ≠ .aborted := by
  simp only [evalStart]
  cases platformOf triple with
  | none => simp
  | some plat =>
    simp only []
    have : ∀ x : St, (x.exec o .ok (.rm (nameWord s.ids))).1 = .ok := fun x => exec_res_of_none o .ok _ x (h _ _ _)
    simp only [this, if_true]
    split
    · exact (evalCActs_spec o _ cfg cas _).2.2
    · simp

theorem evalStart_not_aborted_of_single (o : Oracle) (image triple : Word) (cfg : ContainerConfig) (cas : List CAct) (s : St)
    (k : Nat) (ho : OnlyAt o k) (hq : ∀ ca ∈ cas, QuietCAct cfg ca) : (evalStart o image triple cfg cas s).1 ≠ .aborted := by
  simp only [evalStart]
  cases platformOf triple with
  | none => simp
  | some plat =>
    simp only []
    generalize hs0 : ({ s with ids := s.ids + 1 } : St) = s0
    generalize hr1 : s0.exec o .ok (.run (startContainerCommand image (nameWord s.ids) plat cfg)) = r1
    have hr1len : r1.2.log.length = s0.log.length + 1 := by rw [← hr1]; exact exec_len _ _ _ _
    by_cases hrm : ((if r1.1 = .ok then evalCActs o (nameWord s.ids) cfg cas r1.2 else (.panicked, r1.2)).2.exec o .ok (.rm (nameWord s.ids))).1 = .ok
    · simp only [hrm, if_true]
      split
      · exact (evalCActs_spec o _ cfg cas _).2.2
      · simp
    · simp only [hrm, if_false]
      -- the failing `docker rm` is the overridden command, so everything before it ran undisturbed
      have hk : (if r1.1 = .ok then evalCActs o (nameWord s.ids) cfg cas r1.2 else (Outcome.panicked, r1.2)).2.log.length = k := by
        apply Classical.byContradiction
        intro hne
        exact hrm (exec_res_of_none o .ok _ _ (ho _ _ _ hne))
      have hmono : r1.2.log.length ≤ (evalCActs o (nameWord s.ids) cfg cas r1.2).2.log.length :=
        ext_len (evalCActs_spec o _ cfg cas r1.2).1
      have hr1ok : r1.1 = .ok := by
        rw [← hr1]
        apply exec_res_of_none
        apply ho
        intro e
        by_cases h1 : r1.1 = .ok
        · simp only [h1, if_true] at hk; omega
        · simp only [h1, if_false] at hk; omega
      simp only [hr1ok, if_true] at hk ⊢
      have hcok : (evalCActs o (nameWord s.ids) cfg cas r1.2).1 = .ok := by
        apply evalCActs_quiet o _ cfg cas r1.2 hq
        intro i _ hi2 c n
        exact ho i c n (by omega)
      simp [hcok]

/-! ### lifting: only `start_container` can abort -/

theorem evalAct_not_aborted (o : Oracle) (image triple : Word) (a : Act) (s : St)
    (h : ∀ cfg cas, a = .startContainer cfg cas → (evalStart o image triple cfg cas s).1 ≠ .aborted) :
    (evalAct o image triple a s).1 ≠ .aborted := by
  cases a with
  | startContainer cfg cas => exact h cfg cas rfl
  | panic => simp [evalAct]
  | downloadSbom => simp only [evalAct]; exact ofRes_ne_aborted _
  | runShell cmd =>
    simp only [evalAct]
    cases platformOf triple with
    | none => simp
    | some plat => exact ofRes_ne_aborted _

theorem evalActs_not_aborted (o : Oracle) (image triple : Word) (acts : List Act) (s : St)
    (h : ∀ cfg cas s', .startContainer cfg cas ∈ acts → (evalStart o image triple cfg cas s').1 ≠ .aborted) :
    (evalActs o image triple acts s).1 ≠ .aborted := by
  induction acts generalizing s with
  | nil => simp [evalActs]
  | cons a r ih =>
    have ha := evalAct_not_aborted o image triple a s (fun cfg cas e => h cfg cas s (by simp [e]))
    simp only [evalActs]
    split
    · exact ih _ (fun cfg cas s' hm => h cfg cas s' (by simp [hm]))
    · rename_i oc hne
      exact ha

theorem evalBuilds_not_aborted (o : Oracle) (res : Resources) (builds : List Build) (s : St)
    (h : ∀ b ∈ builds, ∀ cfg cas s', .startContainer cfg cas ∈ b.acts →
      (evalStart o res.imageName b.cfg.triple cfg cas s').1 ≠ .aborted) :
    (evalBuilds o res builds s).1 ≠ .aborted := by
  induction builds generalizing s with
  | nil => simp [evalBuilds]
  | cons b rest ih =>
    simp only [evalBuilds]
    split
    · simp
    · split
      · simp
      · have ha := evalActs_not_aborted o res.imageName b.cfg.triple b.acts
          (({ s with tmps := s.tmps + (buildGuards b s).length, guards := buildGuards b s ++ s.guards } : St).exec o b.cfg.packResult
            (.packBuild (packBuildCommand res b.cfg.cfg (buildAppPath b s)))).2
          (fun cfg cas s' hm => h b (by simp) cfg cas s' hm)
        split
        · rename_i hab; exact absurd hab ha
        · simp
        · have hb := ih (evalActs o res.imageName b.cfg.triple b.acts
            (({ s with tmps := s.tmps + (buildGuards b s).length, guards := buildGuards b s ++ s.guards } : St).exec o b.cfg.packResult
              (.packBuild (packBuildCommand res b.cfg.cfg (buildAppPath b s)))).2).2
            (fun b' hb' => h b' (by simp [hb']))
          split
          · rename_i hab; exact absurd hab hb
          · simpa using hb

/-- nothing can abort while `docker rm` works -/
theorem run_not_aborted_of_rm_ok (o : Oracle) (sc : Scenario) (h : RmNeverFails o) : (run o sc).1 ≠ .aborted :=
  evalBuilds_not_aborted o _ sc _ (fun _ _ cfg cas s' _ => evalStart_not_aborted_of_rm_ok o _ _ cfg cas s' h)

/-- a single overridden command cannot abort a scenario whose container closures do not panic by themselves -/
theorem run_not_aborted_of_single (o : Oracle) (sc : Scenario) (k : Nat) (ho : OnlyAt o k) (hq : NoPanicInContainers sc) :
    (run o sc).1 ≠ .aborted :=
  evalBuilds_not_aborted o _ sc _ (fun b hb cfg cas s' hm =>
    evalStart_not_aborted_of_single o _ _ cfg cas s' k ho (hq b hb _ hm))

end CnbVerif.TestRunner
