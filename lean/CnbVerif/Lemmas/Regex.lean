import CnbVerif.Model.Ident
/-!
Helper lemmas for C09: the derivative matcher computes the textbook semantics (`matchB_iff`), and the semantics of the
shapes the generated regexes use (`plus (cls r)`, literals, alternation).
-/
namespace CnbVerif

theorem nullable_iff (r : Re) : nullable r = true ↔ Matches r [] := by
  induction r with
  | empty => simp [nullable]; intro h; cases h
  | eps => simp [nullable]; exact .eps
  | cls p => simp [nullable]; intro h; cases h
  | seq a b iha ihb =>
    simp only [nullable, Bool.and_eq_true, iha, ihb]
    constructor
    · rintro ⟨h1, h2⟩; exact .seq (s := []) (t := []) h1 h2
    · intro h
      generalize he : ([] : List Char) = x at h
      cases h with
      | seq h1 h2 =>
        rename_i s t
        have : s = [] ∧ t = [] := by simpa using he.symm
        obtain ⟨rfl, rfl⟩ := this
        exact ⟨h1, h2⟩
  | alt a b iha ihb =>
    simp only [nullable, Bool.or_eq_true, iha, ihb]
    constructor
    · rintro (h | h)
      · exact .altL h
      · exact .altR h
    · intro h; cases h with
      | altL h => exact Or.inl h
      | altR h => exact Or.inr h
  | star a _ => simp [nullable]; exact .starNil
  | plus a iha =>
    simp only [nullable, iha]
    constructor
    · intro h; exact .plus (s := []) (t := []) h .starNil
    · intro h
      generalize he : ([] : List Char) = x at h
      cases h with
      | plus h1 h2 =>
        rename_i s t
        have : s = [] ∧ t = [] := by simpa using he.symm
        obtain ⟨rfl, rfl⟩ := this
        exact h1

/-- star inversion: a non-empty match of `star a` starts with a non-empty match of `a` -/
theorem star_cons_inv {a : Re} {c : Char} {s : List Char} (h : Matches (.star a) (c :: s)) :
    ∃ s1 s2, s = s1 ++ s2 ∧ Matches a (c :: s1) ∧ Matches (.star a) s2 := by
  generalize hr : Re.star a = r at h
  generalize hx : c :: s = x at h
  induction h with
  | eps => cases hr
  | cls _ => cases hr
  | seq _ _ => cases hr
  | altL _ => cases hr
  | altR _ => cases hr
  | plus _ _ => cases hr
  | starNil => cases hx
  | @starCons a' u t h1 h2 _ ih2 =>
    cases hr
    cases u with
    | nil => exact ih2 rfl (by simpa using hx)
    | cons d u' =>
      simp at hx
      obtain ⟨rfl, rfl⟩ := hx
      exact ⟨u', t, rfl, h1, h2⟩

theorem plus_cons_iff_star (a : Re) (c : Char) (s : List Char) :
    Matches (.plus a) (c :: s) ↔ Matches (.star a) (c :: s) := by
  constructor
  · intro h
    generalize hx : c :: s = x at h
    cases h with
    | plus h1 h2 => exact .starCons h1 h2
  · intro h
    obtain ⟨s1, s2, rfl, h1, h2⟩ := star_cons_inv h
    exact .plus (s := c :: s1) h1 h2

theorem deriv_iff (r : Re) (c : Char) (s : List Char) : Matches (deriv c r) s ↔ Matches r (c :: s) := by
  induction r generalizing s with
  | empty => simp [deriv]; constructor <;> (intro h; cases h)
  | eps => simp [deriv]; constructor <;> (intro h; cases h)
  | cls p =>
    simp only [deriv]
    by_cases hp : inRanges p c.toNat = true
    · simp only [hp, if_true]
      constructor
      · intro h; cases h; exact .cls hp
      · intro h; cases h; exact .eps
    · simp only [hp]
      constructor
      · intro h; cases h
      · intro h; cases h; contradiction
  | seq a b iha ihb =>
    have key : Matches (.seq a b) (c :: s) ↔
        (∃ s1 s2, s = s1 ++ s2 ∧ Matches a (c :: s1) ∧ Matches b s2) ∨ (Matches a [] ∧ Matches b (c :: s)) := by
      constructor
      · intro h
        generalize hx : c :: s = x at h
        cases h with
        | seq h1 h2 =>
          rename_i u t
          cases u with
          | nil => simp at hx; subst hx; exact Or.inr ⟨h1, h2⟩
          | cons d u' =>
            simp at hx; obtain ⟨rfl, rfl⟩ := hx
            exact Or.inl ⟨u', t, rfl, h1, h2⟩
      · rintro (⟨s1, s2, rfl, h1, h2⟩ | ⟨h1, h2⟩)
        · exact .seq (s := c :: s1) h1 h2
        · exact .seq (s := []) h1 h2
    rw [key]
    simp only [deriv]
    by_cases hn : nullable a = true
    · simp only [hn, if_true]
      constructor
      · intro h
        cases h with
        | altL h =>
          cases h with
          | seq h1 h2 => exact Or.inl ⟨_, _, rfl, (iha _).1 h1, h2⟩
        | altR h => exact Or.inr ⟨(nullable_iff a).1 hn, (ihb _).1 h⟩
      · rintro (⟨s1, s2, rfl, h1, h2⟩ | ⟨_, h2⟩)
        · exact .altL (.seq ((iha _).2 h1) h2)
        · exact .altR ((ihb _).2 h2)
    · simp only [hn]
      constructor
      · intro h
        cases h with
        | seq h1 h2 => exact Or.inl ⟨_, _, rfl, (iha _).1 h1, h2⟩
      · rintro (⟨s1, s2, rfl, h1, h2⟩ | ⟨h1, _⟩)
        · exact .seq ((iha _).2 h1) h2
        · exact absurd ((nullable_iff a).2 h1) hn
  | alt a b iha ihb =>
    simp only [deriv]
    constructor
    · intro h; cases h with
      | altL h => exact .altL ((iha _).1 h)
      | altR h => exact .altR ((ihb _).1 h)
    · intro h; cases h with
      | altL h => exact .altL ((iha _).2 h)
      | altR h => exact .altR ((ihb _).2 h)
  | star a iha =>
    simp only [deriv]
    constructor
    · intro h
      cases h with
      | seq h1 h2 => exact .starCons (s := c :: _) ((iha _).1 h1) h2
    · intro h
      obtain ⟨s1, s2, rfl, h1, h2⟩ := star_cons_inv h
      exact .seq ((iha _).2 h1) h2
  | plus a iha =>
    simp only [deriv]
    rw [plus_cons_iff_star]
    constructor
    · intro h
      cases h with
      | seq h1 h2 => exact .starCons (s := c :: _) ((iha _).1 h1) h2
    · intro h
      obtain ⟨s1, s2, rfl, h1, h2⟩ := star_cons_inv h
      exact .seq ((iha _).2 h1) h2

/-- the derivative matcher decides the textbook semantics -/
theorem matchB_iff (r : Re) (s : List Char) : matchB r s = true ↔ Matches r s := by
  induction s generalizing r with
  | nil => simpa [matchB] using nullable_iff r
  | cons c s ih => simp only [matchB]; rw [ih, deriv_iff]

/-! ### the shapes used by the generated regexes -/

theorem matches_alt_iff (a b : Re) (s : List Char) : Matches (.alt a b) s ↔ Matches a s ∨ Matches b s := by
  constructor
  · intro h; cases h with
    | altL h => exact Or.inl h
    | altR h => exact Or.inr h
  · rintro (h | h)
    · exact .altL h
    · exact .altR h

theorem matches_cls_iff (r : Ranges) (s : List Char) : Matches (.cls r) s ↔ ∃ c, s = [c] ∧ inRanges r c.toNat = true := by
  constructor
  · intro h; cases h with
    | cls hc => exact ⟨_, rfl, hc⟩
  · rintro ⟨c, rfl, hc⟩; exact .cls hc

theorem matches_eps_iff (s : List Char) : Matches .eps s ↔ s = [] := by
  constructor
  · intro h; cases h; rfl
  · rintro rfl; exact .eps

theorem matches_seq_iff (a b : Re) (s : List Char) :
    Matches (.seq a b) s ↔ ∃ u t, s = u ++ t ∧ Matches a u ∧ Matches b t := by
  constructor
  · intro h; cases h with
    | seq h1 h2 => exact ⟨_, _, rfl, h1, h2⟩
  · rintro ⟨u, t, rfl, h1, h2⟩; exact .seq h1 h2

/-- a literal matches exactly itself -/
theorem matches_lit_iff (w s : List Char) : Matches (Re.lit w) s ↔ s = w := by
  induction w generalizing s with
  | nil => simpa [Re.lit] using matches_eps_iff s
  | cons c w ih =>
    simp only [Re.lit, matches_seq_iff, matches_cls_iff, ih]
    constructor
    · rintro ⟨u, t, rfl, ⟨d, rfl, hd⟩, rfl⟩
      have : d = c := by
        simp [inRanges] at hd
        exact Char.toNat_inj.mp (by omega)
      simp [this]
    · rintro rfl
      exact ⟨[c], w, rfl, ⟨c, rfl, by simp [inRanges]⟩, rfl⟩

theorem matches_star_cls (r : Ranges) (s : List Char) :
    Matches (.star (.cls r)) s ↔ ∀ c ∈ s, inRanges r c.toNat = true := by
  constructor
  · intro h
    generalize hr : Re.star (.cls r) = x at h
    induction h with
    | eps => cases hr
    | cls _ => cases hr
    | seq _ _ => cases hr
    | altL _ => cases hr
    | altR _ => cases hr
    | plus _ _ => cases hr
    | starNil => simp
    | @starCons a' u t h1 _ _ ih2 =>
      cases hr
      obtain ⟨d, rfl, hd⟩ := (matches_cls_iff r u).1 h1
      intro c hc
      simp at hc
      rcases hc with rfl | hc
      · exact hd
      · exact ih2 rfl c hc
  · intro h
    induction s with
    | nil => exact .starNil
    | cons c s ih =>
      have h1 : Matches (.cls r) [c] := .cls (h c (by simp))
      have h2 : Matches (.star (.cls r)) s := ih (fun d hd => h d (by simp [hd]))
      exact .starCons (s := [c]) h1 h2

/-- `[class]+` = non-empty strings over the class -/
theorem matches_plus_cls (r : Ranges) (s : List Char) :
    Matches (.plus (.cls r)) s ↔ s ≠ [] ∧ ∀ c ∈ s, inRanges r c.toNat = true := by
  cases s with
  | nil =>
    simp
    intro h
    have := (nullable_iff (.plus (.cls r))).2 h
    simp [nullable] at this
  | cons c s =>
    rw [plus_cons_iff_star, matches_star_cls]
    simp

/-- `accepts` unfolded to the semantics -/
theorem accepts_iff (a : Anchored) (s : List Char) :
    accepts a s = true ↔ Matches a.pos s ∧ ∀ n, a.neg = some n → ¬ Matches n s := by
  unfold accepts
  cases hn : a.neg with
  | none => simp [matchB_iff]
  | some n =>
    have : matchB n s = false ↔ ¬ Matches n s := by
      rw [← matchB_iff]; cases matchB n s <;> simp
    simp [matchB_iff, this]

end CnbVerif
