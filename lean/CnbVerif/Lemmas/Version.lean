import CnbVerif.Model.Version
import CnbVerif.Spec.Grammar
import CnbVerif.Lemmas.Decimal
/-!
Helper lemmas for C09: the version / API parsers of the model against the languages of `Spec/Grammar.lean`.
-/
namespace CnbVerif
open Spec

theorem bound_eq : u64Bound = Spec.bound := by decide

theorem isNumber_eq (c : Char) : Spec.isNumber c = isAsciiDigit c := rfl

theorem no_dot_of_digits {s : List Char} (h : s.all isAsciiDigit = true) : '.' ∉ s := by
  intro hm
  have := List.all_eq_true.1 h '.' hm
  exact absurd this (by decide)

theorem no_dot_render (n : Nat) : '.' ∉ render n := no_dot_of_digits (render_all_digits n)

theorem option_ext {α} {x y : Option α} (h : ∀ v, x = some v ↔ y = some v) : x = y := by
  cases x with
  | none =>
    cases y with
    | none => rfl
    | some b => exact absurd ((h b).2 rfl) (by simp)
  | some a => exact ((h a).1 rfl).symm

/-! ### one component -/

theorem u64FromStr_digits {s : List Char} (hs : s ≠ []) (hd : s.all isAsciiDigit = true) :
    u64FromStr s = match digitsValue s with
      | some n => if n < u64Bound then some n else none
      | none => none := by
  cases s with
  | nil => contradiction
  | cons c cs =>
    have hc : c ≠ '+' := by
      intro e; subst e
      simp only [List.all_cons, Bool.and_eq_true] at hd
      exact absurd hd.1 (by decide)
    unfold u64FromStr
    split
    · rename_i r heq
      simp at heq
      exact absurd heq.1 hc
    · rfl

theorem parseU64_iff (s : List Char) (n : Nat) : parseU64 s = some n ↔ IsPlainNumber s n := by
  unfold parseU64 IsPlainNumber
  split
  · rename_i h
    rw [u64FromStr_digits h.1 h.2, bound_eq]
    have hall : ∀ ch ∈ s, isNumber ch = true := fun ch hch => List.all_eq_true.1 h.2 ch hch
    cases hv : digitsValue s with
    | none => simp
    | some m =>
      simp only
      constructor
      · intro hm
        split at hm
        · simp at hm; subst hm; exact ⟨h.1, hall, rfl, by assumption⟩
        · cases hm
      · rintro ⟨_, _, h3, h4⟩
        simp at h3; subst h3
        simp [h4]
  · rename_i h
    constructor
    · intro hh; cases hh
    · rintro ⟨h1, h2, _, _⟩
      exact absurd ⟨h1, List.all_eq_true.2 h2⟩ h

theorem parseU64_render {n : Nat} (h : n < Spec.bound) : parseU64 (render n) = some n :=
  (parseU64_iff _ _).2 ⟨render_ne_nil n, fun ch hch => List.all_eq_true.1 (render_all_digits n) ch hch,
    digitsValue_render n, h⟩

theorem plainNumber_iff (s : List Char) (n : Nat) : plainNumber? s = some n ↔ IsPlainNumber s n := by
  unfold plainNumber? IsPlainNumber
  cases hv : digitsValue s with
  | none => simp
  | some m =>
    simp only
    constructor
    · intro hm
      split at hm
      · simp at hm; subst hm
        exact ⟨digitsValue_ne_nil hv, fun ch hch => List.all_eq_true.1 (digitsValue_all hv) ch hch, rfl, by assumption⟩
      · cases hm
    · rintro ⟨_, _, h3, h4⟩
      simp at h3; subst h3
      simp [h4]

/-- the version component parser accepts exactly the canonical numerals of numbers below 2^64 -/
theorem versionComponent_iff (s : List Char) (n : Nat) :
    versionComponent s = some n ↔ n < Spec.bound ∧ s = render n := by
  unfold versionComponent
  constructor
  · intro h
    split at h
    · cases h
    · rename_i hz
      obtain ⟨_, _, hv, hb⟩ := (parseU64_iff s n).1 h
      refine ⟨hb, (render_digitsValue hv ?_).symm⟩
      intro h0
      exact Classical.byContradiction (fun hne => hz ⟨h0, hne⟩)
  · rintro ⟨hb, rfl⟩
    split
    · rename_i hz
      have := render_head_zero hz.1
      subst this
      exact absurd render_zero hz.2
    · exact parseU64_render hb

theorem canonicalNumber_iff (s : List Char) (n : Nat) :
    canonicalNumber? s = some n ↔ n < Spec.bound ∧ s = render n := by
  unfold canonicalNumber?
  cases hv : digitsValue s with
  | none =>
    simp
    intro _ hs
    rw [hs, digitsValue_render] at hv
    cases hv
  | some m =>
    simp only
    constructor
    · intro hm
      split at hm
      · rename_i hc
        simp at hm; subst hm; exact ⟨hc.1, hc.2.symm⟩
      · cases hm
    · rintro ⟨hb, rfl⟩
      rw [digitsValue_render] at hv
      simp at hv; subst hv
      simp [hb]

theorem versionComponent_eq_canonical (s : List Char) : versionComponent s = canonicalNumber? s :=
  option_ext (fun v => by rw [versionComponent_iff, canonicalNumber_iff])

/-! ### versions -/

theorem allSome_eq_some {β} (l : List (Option β)) (r : List β) : allSome l = some r ↔ l = r.map some := by
  induction l generalizing r with
  | nil => cases r <;> simp [allSome]
  | cons x xs ih =>
    cases x with
    | none => cases r <;> simp [allSome]
    | some v =>
      simp only [allSome, Option.map_eq_some_iff]
      constructor
      · rintro ⟨t, ht, rfl⟩
        simp [(ih t).1 ht]
      · intro h
        cases r with
        | nil => simp at h
        | cons y ys =>
          simp at h
          obtain ⟨rfl, h2⟩ := h
          exact ⟨ys, (ih ys).2 h2, rfl⟩

theorem allSome_three {α β} (f : α → Option β) (l : List α) (a b c : β) :
    allSome (l.map f) = some [a, b, c] ↔ ∃ p q r, l = [p, q, r] ∧ f p = some a ∧ f q = some b ∧ f r = some c := by
  rw [allSome_eq_some]
  constructor
  · intro h
    match l, h with
    | [], h => simp at h
    | [p], h => simp at h
    | [p, q], h => simp at h
    | [p, q, r], h =>
      simp at h
      exact ⟨p, q, r, rfl, h.1, h.2.1, h.2.2⟩
    | p :: q :: r :: t :: rest, h => simp at h
  · rintro ⟨p, q, r, rfl, hp, hq, hr⟩
    simp [hp, hq, hr]

theorem split_versionText (a b c : Nat) :
    splitChar '.' (versionText a b c) = [render a, render b, render c] := by
  unfold versionText
  rw [splitChar_append _ (no_dot_render a), splitChar_append _ (no_dot_render b), splitChar_no_sep (no_dot_render c)]

theorem split_three {s p q r : List Char} (h : splitChar '.' s = [p, q, r]) : s = p ++ '.' :: (q ++ '.' :: r) := by
  have := joinChar_splitChar '.' s
  rw [h] at this
  simpa [joinChar] using this.symm

/-- **the model's version parser accepts exactly the language of the spec, with the denoted value** -/
theorem parseVersion_iff (s : List Char) (a b c : Nat) :
    parseVersion s = some (a, b, c) ↔ IsVersionOf s a b c := by
  unfold IsVersionOf
  constructor
  · intro h
    unfold parseVersion at h
    cases hall : allSome ((splitChar '.' s).map versionComponent) with
    | none => simp [hall] at h
    | some l =>
      rw [hall] at h
      match l, h with
      | [a', b', c'], h =>
        simp at h
        obtain ⟨rfl, rfl, rfl⟩ := h
        obtain ⟨p, q, r, hs, hp, hq, hr⟩ := (allSome_three _ _ _ _ _).1 hall
        obtain ⟨ha, rfl⟩ := (versionComponent_iff _ _).1 hp
        obtain ⟨hb, rfl⟩ := (versionComponent_iff _ _).1 hq
        obtain ⟨hc, rfl⟩ := (versionComponent_iff _ _).1 hr
        exact ⟨ha, hb, hc, split_three hs⟩
  · rintro ⟨ha, hb, hc, rfl⟩
    unfold parseVersion
    have : allSome ((splitChar '.' (versionText a b c)).map versionComponent) = some [a, b, c] :=
      (allSome_three _ _ _ _ _).2 ⟨_, _, _, split_versionText a b c,
        (versionComponent_iff _ _).2 ⟨ha, rfl⟩, (versionComponent_iff _ _).2 ⟨hb, rfl⟩, (versionComponent_iff _ _).2 ⟨hc, rfl⟩⟩
    rw [this]

/-- the executable oracle of the spec decides the declarative language -/
theorem versionValue_iff (s : List Char) (a b c : Nat) :
    versionValue s = some (a, b, c) ↔ IsVersionOf s a b c := by
  unfold IsVersionOf
  constructor
  · intro h
    unfold versionValue at h
    split at h
    · rename_i p q r hs
      cases hp : canonicalNumber? p <;> cases hq : canonicalNumber? q <;> cases hr : canonicalNumber? r <;>
        simp [hp, hq, hr] at h
      obtain ⟨rfl, rfl, rfl⟩ := h
      obtain ⟨ha, rfl⟩ := (canonicalNumber_iff _ _).1 hp
      obtain ⟨hb, rfl⟩ := (canonicalNumber_iff _ _).1 hq
      obtain ⟨hc, rfl⟩ := (canonicalNumber_iff _ _).1 hr
      exact ⟨ha, hb, hc, split_three hs⟩
    · cases h
  · rintro ⟨ha, hb, hc, rfl⟩
    unfold versionValue
    rw [split_versionText]
    simp [(canonicalNumber_iff _ _).2 ⟨ha, rfl⟩, (canonicalNumber_iff _ _).2 ⟨hb, rfl⟩, (canonicalNumber_iff _ _).2 ⟨hc, rfl⟩]

/-! ### API versions -/

theorem plain_no_dot {p : List Char} {n : Nat} (h : IsPlainNumber p n) : '.' ∉ p :=
  no_dot_of_digits (List.all_eq_true.2 h.2.1)

theorem plain_zero : IsPlainNumber ['0'] 0 := by
  refine ⟨by simp, ?_, by decide, by decide⟩
  intro ch hch; simp at hch; subst hch; decide

theorem plain_unique {p : List Char} {n m : Nat} (h1 : IsPlainNumber p n) (h2 : IsPlainNumber p m) : n = m := by
  have := h1.2.2.1.symm.trans h2.2.2.1
  simpa using this

theorem parseApi_iff (s : List Char) (a b : Nat) : parseApi s = some (a, b) ↔ IsApiOf s a b := by
  unfold parseApi IsApiOf
  cases hso : splitOnce '.' s with
  | none =>
    have hnd := splitOnce_none.1 hso
    simp only [Option.getD]
    constructor
    · intro h
      cases h1 : parseU64 s with
      | none => simp [h1] at h
      | some a' =>
        cases h2 : parseU64 ['0'] with
        | none => simp [h1, h2] at h
        | some b' =>
          simp [h1, h2] at h
          obtain ⟨rfl, rfl⟩ := h
          have := plain_unique ((parseU64_iff _ _).1 h2) plain_zero
          exact Or.inl ⟨(parseU64_iff _ _).1 h1, this⟩
    · rintro (⟨h1, rfl⟩ | ⟨p, q, _, _, rfl⟩)
      · rw [(parseU64_iff _ _).2 h1, (parseU64_iff _ _).2 plain_zero]
      · exact absurd (by simp) hnd
  | some pq =>
    obtain ⟨x, y⟩ := pq
    obtain ⟨hs, hx⟩ := splitOnce_some.1 hso
    simp only [Option.getD]
    constructor
    · intro h
      cases h1 : parseU64 x with
      | none => simp [h1] at h
      | some a' =>
        cases h2 : parseU64 y with
        | none => simp [h1, h2] at h
        | some b' =>
          simp [h1, h2] at h
          obtain ⟨rfl, rfl⟩ := h
          exact Or.inr ⟨x, y, (parseU64_iff _ _).1 h1, (parseU64_iff _ _).1 h2, hs⟩
    · rintro (⟨h1, _⟩ | ⟨p, q, hp, hq, hs'⟩)
      · exact absurd (by rw [hs]; simp) (plain_no_dot h1)
      · have : splitOnce '.' s = some (p, q) := splitOnce_some.2 ⟨hs', plain_no_dot hp⟩
        rw [hso] at this
        simp at this
        obtain ⟨rfl, rfl⟩ := this
        rw [(parseU64_iff _ _).2 hp, (parseU64_iff _ _).2 hq]

theorem apiValue_iff (s : List Char) (a b : Nat) : apiValue s = some (a, b) ↔ IsApiOf s a b := by
  unfold IsApiOf
  constructor
  · intro h
    unfold apiValue at h
    split at h
    · rename_i p hs
      have hj := joinChar_splitChar '.' s
      rw [hs] at hj
      simp [joinChar] at hj
      subst hj
      cases hp : plainNumber? p with
      | none => simp [hp] at h
      | some a' =>
        simp [hp] at h
        obtain ⟨rfl, rfl⟩ := h
        exact Or.inl ⟨(plainNumber_iff _ _).1 hp, rfl⟩
    · rename_i p q hs
      have hj := joinChar_splitChar '.' s
      rw [hs] at hj
      simp [joinChar] at hj
      cases hp : plainNumber? p <;> cases hq : plainNumber? q <;> simp [hp, hq] at h
      obtain ⟨rfl, rfl⟩ := h
      exact Or.inr ⟨p, q, (plainNumber_iff _ _).1 hp, (plainNumber_iff _ _).1 hq, hj.symm⟩
    · cases h
  · rintro (⟨h1, rfl⟩ | ⟨p, q, hp, hq, rfl⟩)
    · unfold apiValue
      rw [splitChar_no_sep (plain_no_dot h1)]
      simp [(plainNumber_iff _ _).2 h1]
    · unfold apiValue
      rw [splitChar_append _ (plain_no_dot hp), splitChar_no_sep (plain_no_dot hq)]
      simp [(plainNumber_iff _ _).2 hp, (plainNumber_iff _ _).2 hq]

theorem plain_render {n : Nat} (h : n < Spec.bound) : IsPlainNumber (render n) n :=
  ⟨render_ne_nil n, fun ch hch => List.all_eq_true.1 (render_all_digits n) ch hch, digitsValue_render n, h⟩

theorem isApiOf_apiText {a b : Nat} (ha : a < Spec.bound) (hb : b < Spec.bound) : IsApiOf (apiText a b) a b :=
  Or.inr ⟨render a, render b, plain_render ha, plain_render hb, rfl⟩

/-- a value parsed from a text in `N.M` normal form is the pair of numbers the text was rendered from -/
theorem isApiOf_apiText_inv {a b a' b' : Nat} (h : IsApiOf (apiText a' b') a b) : a = a' ∧ b = b' := by
  rcases h with ⟨h1, _⟩ | ⟨p, q, hp, hq, hs⟩
  · exact absurd (by simp [apiText]) (plain_no_dot h1)
  · have h1 : splitOnce '.' (apiText a' b') = some (render a', render b') :=
      splitOnce_some.2 ⟨rfl, no_dot_render a'⟩
    have h2 : splitOnce '.' (apiText a' b') = some (p, q) := splitOnce_some.2 ⟨hs, plain_no_dot hp⟩
    rw [h1] at h2
    simp at h2
    obtain ⟨rfl, rfl⟩ := h2
    have e1 := hp.2.2.1
    have e2 := hq.2.2.1
    rw [digitsValue_render] at e1 e2
    simp at e1 e2
    exact ⟨e1.symm, e2.symm⟩

end CnbVerif
