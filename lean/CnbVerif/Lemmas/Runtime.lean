import CnbVerif.Model.Runtime
import CnbVerif.Spec.RuntimeTable
/-! Helper lemmas for C05: the SBOM write loop, and the shape of `runtime` behind open / closed gates. -/
namespace CnbVerif.Runtime
open Spec

variable {P L S D : Type}

theorem supportedApi_eq : Gen.supportedApi = Spec.supportedApi := by decide

/-- the loop completes iff no provided format is blocked -/
theorem writeSboms_ok (pre : Fmt → Pre) (l : List (Fmt × D)) (st : Fmt → FileOut D) :
    (writeSboms pre l st).2 = !l.any (fun x => blocked (pre x.1)) := by
  induction l generalizing st with
  | nil => rfl
  | cons x rest ih =>
    obtain ⟨f, d⟩ := x
    unfold writeSboms
    cases h : pre f <;> simp [canWrite, blocked, h, ih]

theorem providedSbom_cons (g f : Fmt) (d : D) (rest : List (Fmt × D)) :
    providedSbom g ((f, d) :: rest) =
      match providedSbom g rest with | some d' => some d' | none => if f = g then some d else none := by
  unfold providedSbom
  by_cases hfg : f = g
  · subst hfg
    rw [List.filter_cons]
    simp only [beq_self_eq_true, if_true, List.getLast?_cons]
    generalize (List.filter (fun x => x.1 == f) rest).getLast? = o
    cases o <;> simp
  · have : (f == g) = false := by simpa using hfg
    rw [List.filter_cons]
    simp only [this, hfg, if_false, Bool.false_eq_true]
    generalize (List.filter (fun x => x.1 == g) rest).getLast? = o
    cases o <;> simp

/-- after a completed loop each format's file holds the last SBOM provided for it, or is as before -/
theorem writeSboms_state (pre : Fmt → Pre) (l : List (Fmt × D)) (st : Fmt → FileOut D)
    (hok : (writeSboms pre l st).2 = true) (g : Fmt) :
    (writeSboms pre l st).1 g = match providedSbom g l with | some d => .written d | none => st g := by
  induction l generalizing st with
  | nil => rfl
  | cons x rest ih =>
    obtain ⟨f, d⟩ := x
    unfold writeSboms at hok ⊢
    cases hc : canWrite (pre f) with
    | false => simp [hc] at hok
    | true =>
      simp only [hc, if_true] at hok ⊢
      rw [ih _ hok, providedSbom_cons]
      cases providedSbom g rest with
      | some d' => rfl
      | none =>
        by_cases hfg : f = g
        · subst hfg; simp
        · have hgf : ¬ g = f := fun h => hfg h.symm
          simp [hfg, hgf]

theorem canWrite_eq (p : Pre) : canWrite p = !blocked p := by cases p <;> rfl
theorem canWrite_store (s : StorePre) : blocked (storeAsPre s) = storeBlocked s := by cases s <;> rfl

theorem buildWrites_blocked (i : Invocation P L S D) (e : Eff P L S D) (r : BuildOk L S D)
    (h : writeBlocked i r = true) : ∃ k, (buildWrites i e r).2 = .error k ∧ (buildWrites i e r).1.detectRan = e.detectRan ∧ (buildWrites i e r).1.buildRan = e.buildRan := by
  unfold buildWrites
  simp only [writeSboms_ok, canWrite_eq, canWrite_store]
  unfold writeBlocked at h
  cases hl : r.launch <;> cases hs : r.store <;> cases hlp : blocked i.launchPre <;> cases hsp : storeBlocked i.storePre <;>
    cases hb : r.bsboms.any (fun x => blocked (i.bPre x.1)) <;> cases hlb : r.lsboms.any (fun x => blocked (i.lPre x.1)) <;>
    simp [hl, hs, hlp, hsp, hb, hlb] at h ⊢

theorem buildWrites_free (i : Invocation P L S D) (e : Eff P L S D) (r : BuildOk L S D)
    (h : writeBlocked i r = false) (he : e.launch = .untouched ∧ e.store = .untouched ∧ (∀ f, e.bsbom f = .untouched) ∧ (∀ f, e.lsbom f = .untouched)) :
    (buildWrites i e r).2 = .ok Gen.exit_GENERIC_SUCCESS ∧
    (buildWrites i e r).1.detectRan = e.detectRan ∧ (buildWrites i e r).1.buildRan = e.buildRan ∧
    (buildWrites i e r).1.plan = e.plan ∧
    (buildWrites i e r).1.launch = expected r.launch ∧ (buildWrites i e r).1.store = expected r.store ∧
    (∀ f, (buildWrites i e r).1.bsbom f = expected (providedSbom f r.bsboms)) ∧
    (∀ f, (buildWrites i e r).1.lsbom f = expected (providedSbom f r.lsboms)) := by
  obtain ⟨hel, hes, heb, hell⟩ := he
  have hb' : (writeSboms i.bPre r.bsboms e.bsbom).2 = true := by
    rw [writeSboms_ok]; unfold writeBlocked at h; simp at h ⊢; intro a b hab; exact (h.1.2 a b hab)
  have hl' : (writeSboms i.lPre r.lsboms e.lsbom).2 = true := by
    rw [writeSboms_ok]; unfold writeBlocked at h; simp at h ⊢; intro a b hab; exact (h.2 a b hab)
  unfold buildWrites
  unfold writeBlocked at h
  cases hl : r.launch <;> cases hs : r.store <;> cases hlp : blocked i.launchPre <;> cases hsp : storeBlocked i.storePre <;>
    simp [hl, hs, hlp, hsp] at h <;>
    simp [canWrite_eq, canWrite_store, hlp, hsp, hb', hl', expected, hel, hes, writeSboms_state _ _ _ hb', writeSboms_state _ _ _ hl', heb, hell] <;>
    (constructor <;> intro f <;> cases providedSbom f _ <;> rfl)
/-! ### environment reads -/

theorem provided_iff (x : Option EnvVal) : provided x = true ↔ ∃ s, x = some (.text s) := by
  cases x with
  | none => simp [provided]
  | some v => cases v <;> simp [provided]

theorem envVar_of_provided (x : Option EnvVal) (h : provided x = true) : ∃ s, envVar x = some s := by
  obtain ⟨s, rfl⟩ := (provided_iff x).1 h; exact ⟨s, rfl⟩

theorem envVar_of_not_provided (x : Option EnvVal) (h : provided x = false) : envVar x = none := by
  cases x with
  | none => rfl
  | some v => cases v <;> simp [provided] at h ⊢ <;> rfl

/-- `read_buildpack_dir` succeeds exactly when CNB_BUILDPACK_DIR is provided — whatever its text -/
theorem readBuildpackDir_ok (v : Vars) (h : provided v.bpDir = true) : ∃ r, readBuildpackDir v = .ok r := by
  obtain ⟨s, hs⟩ := envVar_of_provided _ h
  exact ⟨some s, by simp [readBuildpackDir, Gen.buildpackDirRead, Vars.get, readVar, hs]⟩

theorem readBuildpackDir_err (v : Vars) (h : provided v.bpDir = false) : readBuildpackDir v = .error .bpDir := by
  simp [readBuildpackDir, Gen.buildpackDirRead, Vars.get, readVar, envVar_of_not_provided _ h]

theorem readBuildpackDir_ok_iff (v : Vars) : (∃ r, readBuildpackDir v = .ok r) ↔ provided v.bpDir = true := by
  constructor
  · intro ⟨r, hr⟩
    cases h : provided v.bpDir
    · rw [readBuildpackDir_err v h] at hr; cases hr
    · rfl
  · exact readBuildpackDir_ok v

/-- `context_target` succeeds exactly when os, arch, distro name and distro version are provided — whatever their texts, and
whatever the architecture variant is -/
theorem contextTarget_ok (v : Vars) (h : targetPresent v = true) : contextTarget v = .ok () := by
  simp only [targetPresent, Bool.and_eq_true] at h
  obtain ⟨⟨⟨h1, h2⟩, h3⟩, h4⟩ := h
  obtain ⟨s1, e1⟩ := envVar_of_provided _ h1
  obtain ⟨s2, e2⟩ := envVar_of_provided _ h2
  obtain ⟨s3, e3⟩ := envVar_of_provided _ h3
  obtain ⟨s4, e4⟩ := envVar_of_provided _ h4
  simp [contextTarget, Gen.contextTargetReads, readAll, readVar, Vars.get, e1, e2, e3, e4]

theorem contextTarget_err (v : Vars) (h : targetPresent v = false) : ∃ k, contextTarget v = .error k := by
  simp only [targetPresent] at h
  cases h1 : provided v.os <;> cases h2 : provided v.arch <;> cases h3 : provided v.dname <;> cases h4 : provided v.dver <;>
    simp [h1, h2, h3, h4] at h <;>
    (first
      | (have e1 := envVar_of_not_provided _ h1
         exact ⟨_, by simp [contextTarget, Gen.contextTargetReads, readAll, readVar, Vars.get, e1]; rfl⟩)
      | (obtain ⟨s1, e1⟩ := envVar_of_provided _ h1
         have e2 := envVar_of_not_provided _ h2
         exact ⟨_, by simp [contextTarget, Gen.contextTargetReads, readAll, readVar, Vars.get, e1, e2]; rfl⟩)
      | (obtain ⟨s1, e1⟩ := envVar_of_provided _ h1
         obtain ⟨s2, e2⟩ := envVar_of_provided _ h2
         have e3 := envVar_of_not_provided _ h3
         exact ⟨_, by simp [contextTarget, Gen.contextTargetReads, readAll, readVar, Vars.get, e1, e2, e3]; rfl⟩)
      | (obtain ⟨s1, e1⟩ := envVar_of_provided _ h1
         obtain ⟨s2, e2⟩ := envVar_of_provided _ h2
         obtain ⟨s3, e3⟩ := envVar_of_provided _ h3
         have e4 := envVar_of_not_provided _ h4
         exact ⟨_, by simp [contextTarget, Gen.contextTargetReads, readAll, readVar, Vars.get, e1, e2, e3, e4]; rfl⟩))

/-- what an open gate says about the invocation -/
theorem gateOpen_cases (i : Invocation P L S D) (h : gateOpen i = true) :
    ∃ ok, i.desc = .api 0 10 ok ∧ (∃ r, readBuildpackDir i.vars = .ok r) ∧ contextTarget i.vars = .ok () ∧
      ((i.exe = .detect ∧ i.nargs = 2) ∨ (i.exe = .build ∧ i.nargs = 3)) := by
  simp only [gateOpen, mandatoryPresent, Bool.and_eq_true] at h
  obtain ⟨⟨hapi, hargs⟩, hbp, htp⟩ := h
  cases hd : i.desc <;> simp [hd, apiSupported, Spec.supportedApi] at hapi
  obtain ⟨rfl, rfl⟩ := hapi
  refine ⟨_, rfl, readBuildpackDir_ok _ hbp, contextTarget_ok _ htp, ?_⟩
  cases he : i.exe <;> simp [he, argsRight] at hargs ⊢ <;> exact hargs

theorem detectPhase_target_err (i : Invocation P L S D) (k : ErrKind) (h : contextTarget i.vars = .error k) :
    (detectPhase i).1 = Eff.none ∧ ∃ k', (detectPhase i).2 = .error k' := by
  unfold detectPhase
  simp only [h]
  repeat' split
  all_goals exact ⟨rfl, _, rfl⟩

theorem buildPhase_target_err (i : Invocation P L S D) (k : ErrKind) (h : contextTarget i.vars = .error k) :
    (buildPhase i).1 = Eff.none ∧ ∃ k', (buildPhase i).2 = .error k' := by
  unfold buildPhase
  simp only [h]
  repeat' split
  all_goals exact ⟨rfl, _, rfl⟩

theorem buildWrites_frame (i : Invocation P L S D) (e : Eff P L S D) (r : BuildOk L S D) :
    (buildWrites i e r).1.detectRan = e.detectRan ∧ (buildWrites i e r).1.buildRan = e.buildRan ∧ (buildWrites i e r).1.plan = e.plan := by
  unfold buildWrites
  cases r.launch <;> cases r.store <;> cases canWrite i.launchPre <;> cases canWrite (storeAsPre i.storePre) <;>
    simp only [if_true, if_false, Bool.false_eq_true] <;>
    cases (writeSboms i.bPre r.bsboms e.bsbom).2 <;> cases (writeSboms i.lPre r.lsboms e.lsbom).2 <;> simp

theorem detectPhase_frame (i : Invocation P L S D) :
    (detectPhase i).1.buildRan = false ∧ (detectPhase i).1.plan ≠ .other := by
  unfold detectPhase
  repeat' split
  all_goals simp [Eff.none]

theorem buildPhase_frame (i : Invocation P L S D) :
    (buildPhase i).1.detectRan = false ∧ (buildPhase i).1.plan = .untouched := by
  unfold buildPhase
  repeat' split
  all_goals first | (simp [Eff.none]; done) | exact ⟨(buildWrites_frame i _ _).1, (buildWrites_frame i _ _).2.2⟩

theorem finish_fields (r : Eff P L S D × Except ErrKind Int) :
    (finish r).detectRan = r.1.detectRan ∧ (finish r).buildRan = r.1.buildRan ∧ (finish r).plan = r.1.plan := by
  unfold finish; split <;> simp

theorem detect_never_builds (i : Invocation P L S D) (hexe : i.exe = .detect) : (runtime i).buildRan = false := by
  unfold runtime
  simp only [hexe]
  repeat' split
  all_goals first | rfl | (rw [(finish_fields _).2.1]; exact (detectPhase_frame i).1)

theorem build_never_detects (i : Invocation P L S D) (hexe : i.exe = .build) : (runtime i).detectRan = false := by
  unfold runtime
  simp only [hexe]
  repeat' split
  all_goals first | rfl | (rw [(finish_fields _).1]; exact (buildPhase_frame i).1)

theorem build_plan_untouched (i : Invocation P L S D) (hexe : i.exe = .build) : (runtime i).plan = .untouched := by
  unfold runtime
  simp only [hexe]
  repeat' split
  all_goals first | rfl | (rw [(finish_fields _).2.2]; exact (buildPhase_frame i).2)

theorem plan_never_other (i : Invocation P L S D) : (runtime i).plan ≠ .other := by
  unfold runtime
  repeat' split
  all_goals first
    | (simp [exitEarly]; done)
    | (rw [(finish_fields _).2.2]; exact (detectPhase_frame i).2)
    | (rw [(finish_fields _).2.2, (buildPhase_frame i).2]; simp)
/-- the facts an open gate gives, in the form the proofs below consume -/
theorem open_detect (i : Invocation P L S D) (hg : gateOpen i = true) (hexe : i.exe = .detect) :
    ∃ ok, i.desc = .api 0 10 ok ∧ (∃ r, readBuildpackDir i.vars = .ok r) ∧ contextTarget i.vars = .ok () ∧ i.nargs = 2 := by
  obtain ⟨ok, hdesc, hbp, hct, hex⟩ := gateOpen_cases i hg
  refine ⟨ok, hdesc, hbp, hct, ?_⟩
  rcases hex with ⟨_, hn⟩ | ⟨he, _⟩
  · exact hn
  · rw [hexe] at he; cases he

theorem open_build (i : Invocation P L S D) (hg : gateOpen i = true) (hexe : i.exe = .build) :
    ∃ ok, i.desc = .api 0 10 ok ∧ (∃ r, readBuildpackDir i.vars = .ok r) ∧ contextTarget i.vars = .ok () ∧ i.nargs = 3 := by
  obtain ⟨ok, hdesc, hbp, hct, hex⟩ := gateOpen_cases i hg
  refine ⟨ok, hdesc, hbp, hct, ?_⟩
  rcases hex with ⟨he, _⟩ | ⟨_, hn⟩
  · rw [hexe] at he; cases he
  · exact hn

/-! ### the shape of `runtime` behind a closed gate -/

/-- the API check passes exactly when the buildpack directory is provided and the descriptor names the supported API -/
theorem apiCheck_eq (v : Vars) (d : Desc) : apiCheck v d = (provided v.bpDir && apiSupported d) := by
  unfold apiCheck
  cases h : provided v.bpDir
  · rw [readBuildpackDir_err v h]; rfl
  · obtain ⟨r, hr⟩ := readBuildpackDir_ok v h
    rw [hr]
    cases d <;> simp [apiSupported, supportedApi_eq]

/-- Behind a closed gate `runtime` is one of two things. Either the phase was never determined (API, executable name, argument
count, buildpack directory) and the process exits at once with one of the fixed codes; or the phase was determined and the
only thing wrong is a mandatory target variable, and then the phase function fails before it did anything. -/
theorem runtime_closed_shape (i : Invocation P L S D) (hg : gateOpen i = false) :
    (phaseEntered i = false → ∃ c : Int, c ≠ 0 ∧ c ≠ 100 ∧ runtime i = exitEarly c) ∧
    (phaseEntered i = true → ∃ k, runtime i = finish (Eff.none, .error k)) := by
  have hapi := apiCheck_eq i.vars i.desc
  unfold runtime
  cases hbp : provided i.vars.bpDir
  · -- no buildpack directory
    simp only [hbp, Bool.false_and] at hapi
    simp only [hapi, phaseEntered, hbp, Bool.and_false, Bool.not_false, if_true]
    exact ⟨fun _ => ⟨_, by decide, by decide, rfl⟩, fun h => by cases h⟩
  · cases hd : apiSupported i.desc
    · simp only [hbp, hd, Bool.and_false] at hapi
      simp only [hapi, phaseEntered, hd, Bool.false_and, Bool.not_false, if_true]
      exact ⟨fun _ => ⟨_, by decide, by decide, rfl⟩, fun h => by cases h⟩
    · simp only [hbp, hd, Bool.and_true] at hapi
      simp only [hapi, phaseEntered, hd, hbp, Bool.true_and, Bool.and_true, Bool.not_true, Bool.false_eq_true, if_false]
      cases hexe : i.exe
      · -- detect
        by_cases hn : i.nargs = 2
        · have htp : targetPresent i.vars = false := by
            simpa [gateOpen, hd, hexe, argsRight, hn, mandatoryPresent, hbp] using hg
          obtain ⟨k, hk⟩ := contextTarget_err i.vars htp
          obtain ⟨h1, k', h2⟩ := detectPhase_target_err i k hk
          simp only [argsRight, hn, decide_true, if_true]
          refine ⟨fun h => (by cases h), fun _ => ⟨k', ?_⟩⟩
          congr 1
          exact Prod.ext h1 h2
        · simp only [argsRight, hn, decide_false, if_false]
          exact ⟨fun _ => ⟨_, by decide, by decide, rfl⟩, fun h => by cases h⟩
      · -- build
        by_cases hn : i.nargs = 3
        · have htp : targetPresent i.vars = false := by
            simpa [gateOpen, hd, hexe, argsRight, hn, mandatoryPresent, hbp] using hg
          obtain ⟨k, hk⟩ := contextTarget_err i.vars htp
          obtain ⟨h1, k', h2⟩ := buildPhase_target_err i k hk
          simp only [argsRight, hn, decide_true, if_true]
          refine ⟨fun h => (by cases h), fun _ => ⟨k', ?_⟩⟩
          congr 1
          exact Prod.ext h1 h2
        · simp only [argsRight, hn, decide_false, if_false]
          exact ⟨fun _ => ⟨_, by decide, by decide, rfl⟩, fun h => by cases h⟩
      · simp only [argsRight]
        exact ⟨fun _ => ⟨_, by decide, by decide, rfl⟩, fun h => by cases h⟩

/-! ### the values never matter: only which variables are provided -/

/-- the environment with every value forgotten: a provided variable becomes the empty text, anything else becomes unset -/
def canonVal (x : Option EnvVal) : Option EnvVal := if provided x then some (.text "") else none

def canonVars (v : Vars) : Vars :=
  ⟨canonVal v.bpDir, canonVal v.os, canonVal v.arch, canonVal v.variant, canonVal v.dname, canonVal v.dver⟩

theorem canonVars_get (v : Vars) (n : VarName) : (canonVars v).get n = canonVal (v.get n) := by
  cases n <;> rfl

/-- a read fails on the forgotten value iff it fails on the real one, with the same error -/
theorem readVar_canon (u : EnvUse) (x : Option EnvVal) :
    (∃ k, readVar u x = .error k ∧ readVar u (canonVal x) = .error k) ∨
    (∃ a b, readVar u x = .ok a ∧ readVar u (canonVal x) = .ok b) := by
  cases u <;> (cases x with
    | none => simp [readVar, canonVal, provided, envVar]
    | some w => cases w <;> simp [readVar, canonVal, provided, envVar])

theorem readAll_canon (l : List (VarName × EnvUse)) (v : Vars) : readAll l (canonVars v) = readAll l v := by
  induction l with
  | nil => rfl
  | cons x rest ih =>
    obtain ⟨n, u⟩ := x
    unfold readAll
    rw [canonVars_get]
    rcases readVar_canon u (v.get n) with ⟨k, h1, h2⟩ | ⟨a, b, h1, h2⟩
    · simp [h1, h2]
    · simp [h1, h2, ih]

theorem contextTarget_canon (v : Vars) : contextTarget (canonVars v) = contextTarget v := readAll_canon _ v

theorem readBuildpackDir_canon (v : Vars) :
    (∃ k, readBuildpackDir v = .error k ∧ readBuildpackDir (canonVars v) = .error k) ∨
    (∃ a b, readBuildpackDir v = .ok a ∧ readBuildpackDir (canonVars v) = .ok b) := by
  unfold readBuildpackDir
  rw [canonVars_get]
  exact readVar_canon _ _

end CnbVerif.Runtime
