import CnbVerif.Model.Runtime
import CnbVerif.Spec.RuntimeTable
/-! Helper lemmas for C05: the SBOM write loop, and the shape of `runtime` behind open / closed gates. -/
namespace CnbVerif.Runtime
open Spec

variable {P L S D : Type}

theorem supportedApi_eq : Gen.supportedApi = Spec.supportedApi := by decide

/-- the loop completes iff no provided format is blocked -/
theorem writeSboms_ok (pre : Fmt → Pre) (l : List (Fmt × D)) (st : Fmt → FileOut D) :
    (writeSboms pre l st).2 = !l.any (fun x => blocked (pre x.1)) := by
  induction l generalizing st with
  | nil => rfl
  | cons x rest ih =>
    obtain ⟨f, d⟩ := x
    unfold writeSboms
    cases h : pre f <;> simp [canWrite, blocked, h, ih]

theorem providedSbom_cons (g f : Fmt) (d : D) (rest : List (Fmt × D)) :
    providedSbom g ((f, d) :: rest) =
      match providedSbom g rest with | some d' => some d' | none => if f = g then some d else none := by
  unfold providedSbom
  by_cases hfg : f = g
  · subst hfg
    rw [List.filter_cons]
    simp only [beq_self_eq_true, if_true, List.getLast?_cons]
    generalize (List.filter (fun x => x.1 == f) rest).getLast? = o
    cases o <;> simp
  · have : (f == g) = false := by simpa using hfg
    rw [List.filter_cons]
    simp only [this, hfg, if_false, Bool.false_eq_true]
    generalize (List.filter (fun x => x.1 == g) rest).getLast? = o
    cases o <;> simp

/-- after a completed loop each format's file holds the last SBOM provided for it, or is as before -/
theorem writeSboms_state (pre : Fmt → Pre) (l : List (Fmt × D)) (st : Fmt → FileOut D)
    (hok : (writeSboms pre l st).2 = true) (g : Fmt) :
    (writeSboms pre l st).1 g = match providedSbom g l with | some d => .written d | none => st g := by
  induction l generalizing st with
  | nil => rfl
  | cons x rest ih =>
    obtain ⟨f, d⟩ := x
    unfold writeSboms at hok ⊢
    cases hc : canWrite (pre f) with
    | false => simp [hc] at hok
    | true =>
      simp only [hc, if_true] at hok ⊢
      rw [ih _ hok, providedSbom_cons]
      cases providedSbom g rest with
      | some d' => rfl
      | none =>
        by_cases hfg : f = g
        · subst hfg; simp
        · have hgf : ¬ g = f := fun h => hfg h.symm
          simp [hfg, hgf]

theorem canWrite_eq (p : Pre) : canWrite p = !blocked p := by cases p <;> rfl
theorem canWrite_store (s : StorePre) : blocked (storeAsPre s) = (s == .dir) := by cases s <;> rfl

theorem buildWrites_blocked (i : Invocation P L S D) (e : Eff P L S D) (r : BuildOk L S D)
    (h : writeBlocked i r = true) : ∃ k, (buildWrites i e r).2 = .error k ∧ (buildWrites i e r).1.detectRan = e.detectRan ∧ (buildWrites i e r).1.buildRan = e.buildRan := by
  unfold buildWrites
  simp only [writeSboms_ok, canWrite_eq, canWrite_store]
  unfold writeBlocked at h
  cases hl : r.launch <;> cases hs : r.store <;> cases hlp : blocked i.launchPre <;> cases hsp : (i.storePre == StorePre.dir) <;>
    cases hb : r.bsboms.any (fun x => blocked (i.bPre x.1)) <;> cases hlb : r.lsboms.any (fun x => blocked (i.lPre x.1)) <;>
    simp [hl, hs, hlp, hsp, hb, hlb] at h ⊢

theorem buildWrites_free (i : Invocation P L S D) (e : Eff P L S D) (r : BuildOk L S D)
    (h : writeBlocked i r = false) (he : e.launch = .untouched ∧ e.store = .untouched ∧ (∀ f, e.bsbom f = .untouched) ∧ (∀ f, e.lsbom f = .untouched)) :
    (buildWrites i e r).2 = .ok Gen.exit_GENERIC_SUCCESS ∧
    (buildWrites i e r).1.detectRan = e.detectRan ∧ (buildWrites i e r).1.buildRan = e.buildRan ∧
    (buildWrites i e r).1.plan = e.plan ∧
    (buildWrites i e r).1.launch = expected r.launch ∧ (buildWrites i e r).1.store = expected r.store ∧
    (∀ f, (buildWrites i e r).1.bsbom f = expected (providedSbom f r.bsboms)) ∧
    (∀ f, (buildWrites i e r).1.lsbom f = expected (providedSbom f r.lsboms)) := by
  obtain ⟨hel, hes, heb, hell⟩ := he
  have hb' : (writeSboms i.bPre r.bsboms e.bsbom).2 = true := by
    rw [writeSboms_ok]; unfold writeBlocked at h; simp at h ⊢; intro a b hab; exact (h.1.2 a b hab)
  have hl' : (writeSboms i.lPre r.lsboms e.lsbom).2 = true := by
    rw [writeSboms_ok]; unfold writeBlocked at h; simp at h ⊢; intro a b hab; exact (h.2 a b hab)
  unfold buildWrites
  unfold writeBlocked at h
  cases hl : r.launch <;> cases hs : r.store <;> cases hlp : blocked i.launchPre <;> cases hsp : (i.storePre == StorePre.dir) <;>
    simp [hl, hs, hlp, hsp] at h <;>
    simp [canWrite_eq, canWrite_store, hlp, hsp, hb', hl', expected, hel, hes, writeSboms_state _ _ _ hb', writeSboms_state _ _ _ hl', heb, hell] <;>
    (constructor <;> intro f <;> cases providedSbom f _ <;> rfl)
/-- what an open gate says about the invocation -/
theorem gateOpen_cases (i : Invocation P L S D) (h : gateOpen i = true) :
    ∃ ok, i.desc = .api 0 10 ok ∧ i.vars.bpDir = true ∧ i.vars.os = true ∧ i.vars.arch = true ∧
      i.vars.dname = true ∧ i.vars.dver = true ∧
      ((i.exe = .detect ∧ i.nargs = 2) ∨ (i.exe = .build ∧ i.nargs = 3)) := by
  simp only [gateOpen, mandatoryPresent, Bool.and_eq_true] at h
  obtain ⟨⟨hapi, hargs⟩, ⟨⟨⟨hbp, hos⟩, harch⟩, hdn⟩, hdv⟩ := h
  cases hd : i.desc <;> simp [hd, apiSupported, Spec.supportedApi] at hapi
  obtain ⟨rfl, rfl⟩ := hapi
  refine ⟨_, rfl, hbp, hos, harch, hdn, hdv, ?_⟩
  cases he : i.exe <;> simp [he, argsRight] at hargs ⊢ <;> exact hargs

theorem contextTarget_err (v : Vars) (h : (v.os && v.arch && v.dname && v.dver) = false) : ∃ k, contextTarget v = .error k := by
  unfold contextTarget
  cases h1 : v.os <;> cases h2 : v.arch <;> cases h3 : v.dname <;> cases h4 : v.dver <;> simp [h1, h2, h3, h4] at h ⊢

theorem detectPhase_target_err (i : Invocation P L S D) (k : ErrKind) (h : contextTarget i.vars = .error k) :
    (detectPhase i).1 = Eff.none ∧ ∃ k', (detectPhase i).2 = .error k' := by
  unfold detectPhase
  simp only [h]
  repeat' split
  all_goals exact ⟨rfl, _, rfl⟩

theorem buildPhase_target_err (i : Invocation P L S D) (k : ErrKind) (h : contextTarget i.vars = .error k) :
    (buildPhase i).1 = Eff.none ∧ ∃ k', (buildPhase i).2 = .error k' := by
  unfold buildPhase
  simp only [h]
  repeat' split
  all_goals exact ⟨rfl, _, rfl⟩

theorem buildWrites_frame (i : Invocation P L S D) (e : Eff P L S D) (r : BuildOk L S D) :
    (buildWrites i e r).1.detectRan = e.detectRan ∧ (buildWrites i e r).1.buildRan = e.buildRan ∧ (buildWrites i e r).1.plan = e.plan := by
  unfold buildWrites
  cases r.launch <;> cases r.store <;> cases canWrite i.launchPre <;> cases canWrite (storeAsPre i.storePre) <;>
    simp only [if_true, if_false, Bool.false_eq_true] <;>
    cases (writeSboms i.bPre r.bsboms e.bsbom).2 <;> cases (writeSboms i.lPre r.lsboms e.lsbom).2 <;> simp

theorem detectPhase_frame (i : Invocation P L S D) :
    (detectPhase i).1.buildRan = false ∧ (detectPhase i).1.plan ≠ .other := by
  unfold detectPhase
  repeat' split
  all_goals simp [Eff.none]

theorem buildPhase_frame (i : Invocation P L S D) :
    (buildPhase i).1.detectRan = false ∧ (buildPhase i).1.plan = .untouched := by
  unfold buildPhase
  repeat' split
  all_goals first | (simp [Eff.none]; done) | exact ⟨(buildWrites_frame i _ _).1, (buildWrites_frame i _ _).2.2⟩

theorem finish_fields (r : Eff P L S D × Except ErrKind Int) :
    (finish r).detectRan = r.1.detectRan ∧ (finish r).buildRan = r.1.buildRan ∧ (finish r).plan = r.1.plan := by
  unfold finish; split <;> simp

theorem detect_never_builds (i : Invocation P L S D) (hexe : i.exe = .detect) : (runtime i).buildRan = false := by
  unfold runtime
  simp only [hexe]
  repeat' split
  all_goals first | rfl | (rw [(finish_fields _).2.1]; exact (detectPhase_frame i).1)

theorem build_never_detects (i : Invocation P L S D) (hexe : i.exe = .build) : (runtime i).detectRan = false := by
  unfold runtime
  simp only [hexe]
  repeat' split
  all_goals first | rfl | (rw [(finish_fields _).1]; exact (buildPhase_frame i).1)

theorem build_plan_untouched (i : Invocation P L S D) (hexe : i.exe = .build) : (runtime i).plan = .untouched := by
  unfold runtime
  simp only [hexe]
  repeat' split
  all_goals first | rfl | (rw [(finish_fields _).2.2]; exact (buildPhase_frame i).2)

theorem plan_never_other (i : Invocation P L S D) : (runtime i).plan ≠ .other := by
  unfold runtime
  repeat' split
  all_goals first
    | (simp [exitEarly]; done)
    | (rw [(finish_fields _).2.2]; exact (detectPhase_frame i).2)
    | (rw [(finish_fields _).2.2, (buildPhase_frame i).2]; simp)
/-- the facts an open gate gives, in the form the proofs below consume -/
theorem open_detect (i : Invocation P L S D) (hg : gateOpen i = true) (hexe : i.exe = .detect) :
    ∃ ok, i.desc = .api 0 10 ok ∧ i.vars.bpDir = true ∧ i.vars.os = true ∧ i.vars.arch = true ∧
      i.vars.dname = true ∧ i.vars.dver = true ∧ i.nargs = 2 := by
  obtain ⟨ok, hdesc, hbp, hos, harch, hdn, hdv, hex⟩ := gateOpen_cases i hg
  refine ⟨ok, hdesc, hbp, hos, harch, hdn, hdv, ?_⟩
  rcases hex with ⟨_, hn⟩ | ⟨he, _⟩
  · exact hn
  · rw [hexe] at he; cases he

theorem open_build (i : Invocation P L S D) (hg : gateOpen i = true) (hexe : i.exe = .build) :
    ∃ ok, i.desc = .api 0 10 ok ∧ i.vars.bpDir = true ∧ i.vars.os = true ∧ i.vars.arch = true ∧
      i.vars.dname = true ∧ i.vars.dver = true ∧ i.nargs = 3 := by
  obtain ⟨ok, hdesc, hbp, hos, harch, hdn, hdv, hex⟩ := gateOpen_cases i hg
  refine ⟨ok, hdesc, hbp, hos, harch, hdn, hdv, ?_⟩
  rcases hex with ⟨he, _⟩ | ⟨_, hn⟩
  · rw [hexe] at he; cases he
  · exact hn

end CnbVerif.Runtime
