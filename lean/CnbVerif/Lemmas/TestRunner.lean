import CnbVerif.Model.TestRunner
/-!
Structure of the command log the model of libcnb-test produces (C16): every evaluator only appends to the log, and
what it appends is a sequence of *pieces* — neutral commands, and `docker run --detach` … `docker rm` brackets —
followed, unless the process aborted, by exactly one `docker rmi` and one `docker volume remove`.
-/
namespace CnbVerif.TestRunner
open CnbVerif CnbVerif.Argv

def cmdsOf (es : List Entry) : List ACmd := es.map (·.cmd)

@[simp] theorem cmdsOf_nil : cmdsOf [] = [] := rfl
@[simp] theorem cmdsOf_append (a b : List Entry) : cmdsOf (a ++ b) = cmdsOf a ++ cmdsOf b := by simp [cmdsOf]
@[simp] theorem cmdsOf_singleton (e : Entry) : cmdsOf [e] = [e.cmd] := rfl

/-- a name `util::random_docker_identifier` produced in this run -/
def GenName (n : Word) : Prop := ∃ k, n = nameWord k

/-- commands on a running container -/
def IsInner (ctr : Word) : ACmd → Prop
  | .logs c _ => c = ctr
  | .port c _ => c = ctr
  | .exec c _ => c = ctr
  | _ => False

/-- commands that neither start a detached container nor remove anything -/
def Neutral (img : Word) : ACmd → Prop
  | .packBuild _ => True
  | .sbom _ _ => True
  | .run c => c.detach = false ∧ c.imageName = img
  | _ => False

/-- a log segment made of neutral commands and complete detached-container brackets -/
inductive Pieces (img : Word) : List ACmd → Prop
  | nil : Pieces img []
  | neutral (a : ACmd) (rest : List ACmd) : Neutral img a → Pieces img rest → Pieces img (a :: rest)
  | container (c : DockerRunCommand) (mid rest : List ACmd) :
      c.detach = true → c.imageName = img → GenName c.containerName → (∀ a ∈ mid, IsInner c.containerName a) →
      Pieces img rest → Pieces img (.run c :: (mid ++ .rm c.containerName :: rest))

theorem Pieces.append {img : Word} {a b : List ACmd} (ha : Pieces img a) (hb : Pieces img b) : Pieces img (a ++ b) := by
  induction ha with
  | nil => simpa using hb
  | neutral x rest hx _ ih => exact Pieces.neutral x _ hx ih
  | container c mid rest h1 h2 h3 h4 _ ih =>
    have := Pieces.container c mid (rest ++ b) h1 h2 h3 h4 ih
    simpa [List.append_assoc] using this

theorem Pieces.single_neutral {img : Word} (a : ACmd) (h : Neutral img a) : Pieces img [a] :=
  Pieces.neutral a [] h Pieces.nil

/-! ### one external command -/

theorem exec_log (o : Oracle) (base : Res) (c : ACmd) (s : St) :
    (s.exec o base c).2.log = s.log ++ [⟨c, (s.exec o base c).1⟩] := rfl
theorem exec_ids (o : Oracle) (base : Res) (c : ACmd) (s : St) : (s.exec o base c).2.ids = s.ids := rfl
theorem exec_tmps (o : Oracle) (base : Res) (c : ACmd) (s : St) : (s.exec o base c).2.tmps = s.tmps := rfl
theorem exec_guards (o : Oracle) (base : Res) (c : ACmd) (s : St) : (s.exec o base c).2.guards = s.guards := rfl

/-- `s'` extends `s` by entries whose commands satisfy `P`; guards untouched -/
def Ext (s s' : St) (P : List ACmd → Prop) : Prop :=
  ∃ es : List Entry, s'.log = s.log ++ es ∧ P (cmdsOf es)

theorem Ext.refl (s : St) (P : List ACmd → Prop) (h : P []) : Ext s s P := ⟨[], by simp, h⟩

theorem Ext.exec (o : Oracle) (base : Res) (c : ACmd) (s : St) (P : List ACmd → Prop) (h : P [c]) :
    Ext s (s.exec o base c).2 P := ⟨[⟨c, (s.exec o base c).1⟩], exec_log o base c s, h⟩

theorem Ext.trans {s s1 s2 : St} {P Q R : List ACmd → Prop} (h1 : Ext s s1 P) (h2 : Ext s1 s2 Q)
    (hR : ∀ a b, P a → Q b → R (a ++ b)) : Ext s s2 R := by
  obtain ⟨e1, l1, p1⟩ := h1
  obtain ⟨e2, l2, p2⟩ := h2
  exact ⟨e1 ++ e2, by rw [l2, l1, List.append_assoc], by simpa using hR _ _ p1 p2⟩

theorem Ext.mono {s s' : St} {P Q : List ACmd → Prop} (h : Ext s s' P) (hPQ : ∀ a, P a → Q a) : Ext s s' Q := by
  obtain ⟨e, l, p⟩ := h
  exact ⟨e, l, hPQ _ p⟩

/-! ### inside a container closure -/

def AllInner (ctr : Word) (seg : List ACmd) : Prop := ∀ a ∈ seg, IsInner ctr a

theorem AllInner.append {ctr : Word} {a b : List ACmd} (ha : AllInner ctr a) (hb : AllInner ctr b) : AllInner ctr (a ++ b) := by
  intro x hx
  rcases List.mem_append.mp hx with h | h
  · exact ha x h
  · exact hb x h

theorem ofRes_ne_aborted (r : Res) : ofRes r ≠ .aborted := by unfold ofRes; split <;> simp

theorem evalCAct_spec (o : Oracle) (ctr : Word) (cfg : ContainerConfig) (a : CAct) (s : St) :
    Ext s (evalCAct o ctr cfg a s).2 (AllInner ctr) ∧ ((evalCAct o ctr cfg a s).2.guards = s.guards
      ∧ (evalCAct o ctr cfg a s).2.tmps = s.tmps) ∧ (evalCAct o ctr cfg a s).1 ≠ .aborted := by
  have hp : ∀ p, AllInner ctr [ACmd.port ctr p] := by intro p x hx; simp at hx; subst hx; simp [IsInner]
  have hl : ∀ f, AllInner ctr [ACmd.logs ctr f] := by intro f x hx; simp at hx; subst hx; simp [IsInner]
  have he : ∀ c, AllInner ctr [ACmd.exec ctr c] := by intro c x hx; simp at hx; subst hx; simp [IsInner]
  have hn : AllInner ctr [] := by intro x hx; simp at hx
  cases a with
  | logsNow => exact ⟨Ext.exec o .ok (.logs ctr false) s _ (hl _), ⟨rfl, rfl⟩, ofRes_ne_aborted _⟩
  | logsWait => exact ⟨Ext.exec o .ok (.logs ctr true) s _ (hl _), ⟨rfl, rfl⟩, ofRes_ne_aborted _⟩
  | exec cmd => exact ⟨Ext.exec o .ok (.exec ctr cmd) s _ (he _), ⟨rfl, rfl⟩, ofRes_ne_aborted _⟩
  | panic => exact ⟨Ext.refl s _ hn, ⟨rfl, rfl⟩, by simp [evalCAct]⟩
  | port p =>
    simp only [evalCAct]
    by_cases hc : cfg.exposedPorts.contains p = true
    · simp only [hc, if_true]
      cases hr : (s.exec o .ok (.port ctr p)).1 with
      | ok => exact ⟨Ext.exec o .ok (.port ctr p) s _ (hp _), ⟨rfl, rfl⟩, by simp⟩
      | nonzero =>
        exact ⟨Ext.trans (Ext.exec o .ok (.port ctr p) s _ (hp _)) (Ext.exec o .ok (.logs ctr false) _ _ (hl _))
          (fun _ _ => AllInner.append), ⟨rfl, rfl⟩, by simp⟩
      | notFound => exact ⟨Ext.exec o .ok (.port ctr p) s _ (hp _), ⟨rfl, rfl⟩, by simp⟩
    · simp only [hc]
      exact ⟨Ext.refl s _ hn, ⟨rfl, rfl⟩, by simp⟩

theorem evalCActs_spec (o : Oracle) (ctr : Word) (cfg : ContainerConfig) (cas : List CAct) (s : St) :
    Ext s (evalCActs o ctr cfg cas s).2 (AllInner ctr) ∧ ((evalCActs o ctr cfg cas s).2.guards = s.guards
      ∧ (evalCActs o ctr cfg cas s).2.tmps = s.tmps) ∧ (evalCActs o ctr cfg cas s).1 ≠ .aborted := by
  induction cas generalizing s with
  | nil => exact ⟨Ext.refl s _ (by intro x hx; simp at hx), ⟨rfl, rfl⟩, by simp [evalCActs]⟩
  | cons a r ih =>
    obtain ⟨h1, g1, n1⟩ := evalCAct_spec o ctr cfg a s
    simp only [evalCActs]
    cases hoc : (evalCAct o ctr cfg a s).1 with
    | ok =>
      obtain ⟨h2, g2, n2⟩ := ih (evalCAct o ctr cfg a s).2
      exact ⟨Ext.trans h1 h2 (fun _ _ => AllInner.append), ⟨by rw [g2.1, g1.1], by rw [g2.2, g1.2]⟩, n2⟩
    | panicked => exact ⟨h1, g1, by simp⟩
    | aborted => exact absurd hoc n1

/-! ### the test closure -/

theorem genName_nameWord (k : Nat) : GenName (nameWord k) := ⟨k, rfl⟩

theorem evalStart_spec (o : Oracle) (image triple : Word) (cfg : ContainerConfig) (cas : List CAct) (s : St) :
    Ext s (evalStart o image triple cfg cas s).2 (Pieces image)
      ∧ (evalStart o image triple cfg cas s).2.guards = s.guards ∧ (evalStart o image triple cfg cas s).2.tmps = s.tmps := by
  simp only [evalStart]
  cases hp : platformOf triple with
  | none => exact ⟨⟨[], by simp, Pieces.nil⟩, by simp, by simp⟩
  | some plat =>
    simp only []
    -- names for the intermediate states
    generalize hs0 : ({ s with ids := s.ids + 1 } : St) = s0
    have hs0log : s0.log = s.log := by rw [← hs0]
    have hs0g : s0.guards = s.guards := by rw [← hs0]
    have hs0t : s0.tmps = s.tmps := by rw [← hs0]
    generalize hc : startContainerCommand image (nameWord s.ids) plat cfg = c
    have hcd : c.detach = true := by rw [← hc]; rfl
    have hci : c.imageName = image := by rw [← hc]; rfl
    have hcn : c.containerName = nameWord s.ids := by rw [← hc]; rfl
    generalize hr1 : s0.exec o .ok (.run c) = r1
    have hr1log : r1.2.log = s0.log ++ [⟨.run c, r1.1⟩] := by rw [← hr1]; rfl
    have hr1g : r1.2.guards = s0.guards := by rw [← hr1]; rfl
    have hr1t : r1.2.tmps = s0.tmps := by rw [← hr1]; rfl
    -- the closure
    have hmid : ∃ mid : List Entry, (if r1.1 = .ok then evalCActs o (nameWord s.ids) cfg cas r1.2 else (.panicked, r1.2)).2.log
        = r1.2.log ++ mid ∧ AllInner (nameWord s.ids) (cmdsOf mid)
        ∧ (if r1.1 = .ok then evalCActs o (nameWord s.ids) cfg cas r1.2 else (.panicked, r1.2)).2.guards = r1.2.guards
        ∧ (if r1.1 = .ok then evalCActs o (nameWord s.ids) cfg cas r1.2 else (.panicked, r1.2)).2.tmps = r1.2.tmps := by
      by_cases hok : r1.1 = .ok
      · simp only [hok, if_true]
        obtain ⟨⟨mid, l, p⟩, g, _⟩ := evalCActs_spec o (nameWord s.ids) cfg cas r1.2
        exact ⟨mid, l, p, g.1, g.2⟩
      · simp only [hok, if_false]
        exact ⟨[], by simp, by intro x hx; simp at hx, by simp, by simp⟩
    obtain ⟨mid, hml, hmp, hmg, hmt⟩ := hmid
    generalize hr2 : (if r1.1 = .ok then evalCActs o (nameWord s.ids) cfg cas r1.2 else (Outcome.panicked, r1.2)) = r2 at hml hmg hmt
    generalize hr3 : r2.2.exec o .ok (.rm (nameWord s.ids)) = r3
    have hr3log : r3.2.log = r2.2.log ++ [⟨.rm (nameWord s.ids), r3.1⟩] := by rw [← hr3]; rfl
    have hr3g : r3.2.guards = r2.2.guards := by rw [← hr3]; rfl
    have hr3t : r3.2.tmps = r2.2.tmps := by rw [← hr3]; rfl
    have hfinal : Ext s r3.2 (Pieces image) ∧ r3.2.guards = s.guards ∧ r3.2.tmps = s.tmps := by
      refine ⟨⟨[⟨.run c, r1.1⟩] ++ mid ++ [⟨.rm (nameWord s.ids), r3.1⟩], ?_, ?_⟩, ?_, ?_⟩
      · rw [hr3log, hml, hr1log, hs0log]; simp [List.append_assoc]
      · have := Pieces.container c (cmdsOf mid) [] hcd hci (by rw [hcn]; exact genName_nameWord _)
          (by rw [hcn]; exact hmp) Pieces.nil
        simpa [cmdsOf, hcn] using this
      · rw [hr3g, hmg, hr1g, hs0g]
      · rw [hr3t, hmt, hr1t, hs0t]
    split
    · exact hfinal
    · split <;> exact hfinal

def Guard.id : Guard → Nat
  | .appCopy n => n
  | .bpDir n => n
  | .sbomDir n => n

/-- every live temp-dir guard was created earlier than the next one will be -/
def Fresh (s : St) : Prop := ∀ g ∈ s.guards, g.id < s.tmps

theorem release_guards (s : St) (gs : List Guard) :
    (s.release gs).guards = s.guards.filter (fun g => !gs.contains g) := rfl
theorem release_log (s : St) (gs : List Guard) : (s.release gs).log = s.log := rfl
theorem release_tmps (s : St) (gs : List Guard) : (s.release gs).tmps = s.tmps := rfl

theorem filter_release (gs old : List Guard) (h : ∀ g ∈ old, g ∉ gs) :
    (gs ++ old).filter (fun g => !gs.contains g) = old := by
  rw [List.filter_append]
  have h1 : gs.filter (fun g => !gs.contains g) = [] := by
    rw [List.filter_eq_nil_iff]; intro g hg; simp [hg]
  have h2 : old.filter (fun g => !gs.contains g) = old := by
    rw [List.filter_eq_self]; intro g hg; simp [h g hg]
  rw [h1, h2]; rfl

theorem evalAct_spec (o : Oracle) (image triple : Word) (a : Act) (s : St) (hf : Fresh s) :
    Ext s (evalAct o image triple a s).2 (Pieces image)
      ∧ (evalAct o image triple a s).2.guards = s.guards ∧ s.tmps ≤ (evalAct o image triple a s).2.tmps := by
  cases a with
  | startContainer cfg cas =>
    obtain ⟨h, g, t⟩ := evalStart_spec o image triple cfg cas s
    exact ⟨h, g, by simp only [evalAct]; rw [t]; exact Nat.le_refl _⟩
  | panic => exact ⟨Ext.refl s _ Pieces.nil, rfl, Nat.le_refl _⟩
  | runShell cmd =>
    simp only [evalAct]
    cases platformOf triple with
    | none => exact ⟨⟨[], by simp, Pieces.nil⟩, by simp, by simp⟩
    | some plat =>
      refine ⟨?_, rfl, Nat.le_refl _⟩
      have := Ext.exec o .ok (.run (runShellCommand image (nameWord s.ids) plat cmd)) { s with ids := s.ids + 1 } (Pieces image)
        (Pieces.single_neutral _ ⟨rfl, rfl⟩)
      exact this
  | downloadSbom =>
    simp only [evalAct]
    refine ⟨?_, ?_, ?_⟩
    · have := Ext.exec o .ok (.sbom image (tmpWord s.tmps)) { s with tmps := s.tmps + 1, guards := .sbomDir s.tmps :: s.guards }
        (Pieces image) (Pieces.single_neutral _ trivial)
      exact this
    · rw [release_guards, exec_guards]
      have := filter_release [Guard.sbomDir s.tmps] s.guards (by
        intro g hg hm
        simp at hm; subst hm
        have := hf _ hg
        simp [Guard.id] at this)
      simpa using this
    · rw [release_tmps, exec_tmps]; exact Nat.le_succ _

theorem fresh_of_frame {s s' : St} (hf : Fresh s) (hg : s'.guards = s.guards) (ht : s.tmps ≤ s'.tmps) : Fresh s' := by
  intro g hgm
  rw [hg] at hgm
  exact Nat.lt_of_lt_of_le (hf g hgm) ht

theorem evalActs_spec (o : Oracle) (image triple : Word) (acts : List Act) (s : St) (hf : Fresh s) :
    Ext s (evalActs o image triple acts s).2 (Pieces image)
      ∧ (evalActs o image triple acts s).2.guards = s.guards ∧ s.tmps ≤ (evalActs o image triple acts s).2.tmps := by
  induction acts generalizing s with
  | nil => exact ⟨Ext.refl s _ Pieces.nil, rfl, Nat.le_refl _⟩
  | cons a r ih =>
    obtain ⟨h1, g1, t1⟩ := evalAct_spec o image triple a s hf
    simp only [evalActs]
    cases hoc : (evalAct o image triple a s).1 with
    | ok =>
      obtain ⟨h2, g2, t2⟩ := ih (evalAct o image triple a s).2 (fresh_of_frame hf g1 t1)
      exact ⟨Ext.trans h1 h2 (fun _ _ => Pieces.append), by rw [g2, g1], Nat.le_trans t1 t2⟩
    | panicked => exact ⟨h1, g1, t1⟩
    | aborted => exact ⟨h1, g1, t1⟩

/-! ### builds -/

/-- `Drop for TemporaryDockerResources` as commands -/
def tailOf (res : Resources) : List ACmd :=
  [.rmi res.imageName, .volRm [res.buildCacheVolumeName, res.launchCacheVolumeName]]

theorem dropResources_log (o : Oracle) (res : Resources) (s : St) :
    ∃ es : List Entry, (dropResources o res s).log = s.log ++ es ∧ cmdsOf es = tailOf res := by
  refine ⟨[⟨.rmi res.imageName, (s.exec o .ok (.rmi res.imageName)).1⟩,
    ⟨.volRm [res.buildCacheVolumeName, res.launchCacheVolumeName],
      ((s.exec o .ok (.rmi res.imageName)).2.exec o .ok (.volRm [res.buildCacheVolumeName, res.launchCacheVolumeName])).1⟩], ?_, rfl⟩
  simp [dropResources, exec_log]

theorem dropResources_guards (o : Oracle) (res : Resources) (s : St) : (dropResources o res s).guards = s.guards := rfl
theorem dropResources_tmps (o : Oracle) (res : Resources) (s : St) : (dropResources o res s).tmps = s.tmps := rfl

/-- the shape of a run that did not abort: pieces, then the resources are dropped, then nothing -/
def Finished (res : Resources) (seg : List ACmd) : Prop := ∃ body, seg = body ++ tailOf res ∧ Pieces res.imageName body

theorem buildGuards_fresh (b : Build) (s : St) (hf : Fresh s) : ∀ g ∈ s.guards, g ∉ buildGuards b s := by
  intro g hg hm
  have := hf g hg
  unfold buildGuards at hm
  split at hm
  · simp at hm; rcases hm with h | h <;> subst h <;> simp [Guard.id] at this <;> omega
  · simp at hm; subst hm; simp [Guard.id] at this

theorem evalBuilds_spec (o : Oracle) (res : Resources) (builds : List Build) (s : St) (hf : Fresh s) :
    ((evalBuilds o res builds s).1 ≠ .aborted →
        Ext s (evalBuilds o res builds s).2 (Finished res) ∧ (evalBuilds o res builds s).2.guards = s.guards
          ∧ s.tmps ≤ (evalBuilds o res builds s).2.tmps)
    ∧ ((evalBuilds o res builds s).1 = .aborted → Ext s (evalBuilds o res builds s).2 (Pieces res.imageName)) := by
  induction builds generalizing s with
  | nil =>
    simp only [evalBuilds]
    refine ⟨fun _ => ⟨?_, rfl, Nat.le_refl _⟩, fun h => by simp at h⟩
    obtain ⟨es, l, c⟩ := dropResources_log o res s
    exact ⟨es, l, [], by simp [c], Pieces.nil⟩
  | cons b rest ih =>
    simp only [evalBuilds]
    by_cases hv : b.cfg.appDirValid = true
    · simp only [hv, Bool.not_true, Bool.false_eq_true, if_false]
      generalize hs0 : ({ s with tmps := s.tmps + (buildGuards b s).length, guards := buildGuards b s ++ s.guards } : St) = s0
      have hs0log : s0.log = s.log := by rw [← hs0]
      have hs0g : s0.guards = buildGuards b s ++ s.guards := by rw [← hs0]
      have hs0t : s0.tmps = s.tmps + (buildGuards b s).length := by rw [← hs0]
      generalize hr : s0.exec o b.cfg.packResult (.packBuild (packBuildCommand res b.cfg.cfg (buildAppPath b s))) = r
      have hrlog : r.2.log = s0.log ++ [⟨.packBuild (packBuildCommand res b.cfg.cfg (buildAppPath b s)), r.1⟩] := by rw [← hr]; rfl
      have hrg : r.2.guards = s0.guards := by rw [← hr]; rfl
      have hrt : r.2.tmps = s0.tmps := by rw [← hr]; rfl
      have hpack : Ext s r.2 (Pieces res.imageName) :=
        ⟨[⟨.packBuild (packBuildCommand res b.cfg.cfg (buildAppPath b s)), r.1⟩], by rw [hrlog, hs0log],
          Pieces.single_neutral _ trivial⟩
      have hrel : ∀ x : St, x.guards = buildGuards b s ++ s.guards → (x.release (buildGuards b s)).guards = s.guards := by
        intro x hx
        rw [release_guards, hx]
        exact filter_release _ _ (buildGuards_fresh b s hf)
      have hrfresh : Fresh r.2 := by
        intro g hg
        rw [hrg, hs0g] at hg
        rw [hrt, hs0t]
        rcases List.mem_append.mp hg with h | h
        · cases hpre : b.cfg.preprocessor
          · simp [buildGuards, hpre] at h ⊢
            subst h; simp [Guard.id]
          · simp [buildGuards, hpre] at h ⊢
            rcases h with h | h <;> subst h <;> simp [Guard.id]
        · exact Nat.lt_of_lt_of_le (hf g h) (Nat.le_add_right _ _)
      split
      · -- pack against the expectation (or not found): panic before the closure
        refine ⟨fun _ => ⟨?_, ?_, ?_⟩, fun h => by simp at h⟩
        · obtain ⟨es, l, c⟩ := dropResources_log o res (r.2.release (buildGuards b s))
          refine Ext.trans (Q := fun x => x = tailOf res) hpack ⟨es, by rw [l, release_log], c⟩ ?_
          intro a b' ha hb
          exact ⟨a, by rw [hb], ha⟩
        · rw [dropResources_guards]; exact hrel _ (by rw [hrg, hs0g])
        · rw [dropResources_tmps, release_tmps, hrt, hs0t]; exact Nat.le_add_right _ _
      · obtain ⟨ha, hag, hat⟩ := evalActs_spec o res.imageName b.cfg.triple b.acts r.2 hrfresh
        generalize hra : evalActs o res.imageName b.cfg.triple b.acts r.2 = ra at ha hag hat
        have hsa : Ext s ra.2 (Pieces res.imageName) := Ext.trans hpack ha (fun _ _ => Pieces.append)
        cases hoc : ra.1 with
        | aborted => exact ⟨fun h => by simp at h, fun _ => hsa⟩
        | panicked =>
          refine ⟨fun _ => ⟨?_, ?_, ?_⟩, fun h => by simp at h⟩
          · obtain ⟨es, l, c⟩ := dropResources_log o res ra.2
            refine Ext.trans (Q := fun x => x = tailOf res) hsa ⟨es, by rw [release_log, l], c⟩ ?_
            intro a b' ha' hb
            exact ⟨a, by rw [hb], ha'⟩
          · exact hrel _ (by rw [dropResources_guards, hag, hrg, hs0g])
          · rw [release_tmps, dropResources_tmps]
            exact Nat.le_trans (by rw [hrt, hs0t]; exact Nat.le_add_right _ _) hat
        | ok =>
          simp only []
          have hfa : Fresh ra.2 := fresh_of_frame hrfresh hag hat
          obtain ⟨ih1, ih2⟩ := ih ra.2 hfa
          generalize hrb : evalBuilds o res rest ra.2 = rb at ih1 ih2
          cases hob : rb.1 with
          | aborted =>
            refine ⟨fun h => by simp at h, fun _ => ?_⟩
            exact Ext.trans hsa (ih2 hob) (fun _ _ => Pieces.append)
          | ok =>
            obtain ⟨e1, g1, t1⟩ := ih1 (by rw [hob]; simp)
            refine ⟨fun _ => ⟨?_, ?_, ?_⟩, fun h => by simp at h⟩
            · obtain ⟨es, l, body, hb, hp⟩ := e1
              refine Ext.trans (Q := fun x => x = cmdsOf es) hsa ⟨es, by rw [release_log, l], rfl⟩ ?_
              intro a b' ha' hb'
              exact ⟨a ++ body, by rw [hb', hb, List.append_assoc], Pieces.append ha' hp⟩
            · exact hrel _ (by rw [g1, hag, hrg, hs0g])
            · rw [release_tmps]
              exact Nat.le_trans (Nat.le_trans (by rw [hrt, hs0t]; exact Nat.le_add_right _ _) hat) t1
          | panicked =>
            obtain ⟨e1, g1, t1⟩ := ih1 (by rw [hob]; simp)
            refine ⟨fun _ => ⟨?_, ?_, ?_⟩, fun h => by simp at h⟩
            · obtain ⟨es, l, body, hb, hp⟩ := e1
              refine Ext.trans (Q := fun x => x = cmdsOf es) hsa ⟨es, by rw [release_log, l], rfl⟩ ?_
              intro a b' ha' hb'
              exact ⟨a ++ body, by rw [hb', hb, List.append_assoc], Pieces.append ha' hp⟩
            · exact hrel _ (by rw [g1, hag, hrg, hs0g])
            · rw [release_tmps]
              exact Nat.le_trans (Nat.le_trans (by rw [hrt, hs0t]; exact Nat.le_add_right _ _) hat) t1
    · have hv' : b.cfg.appDirValid = false := by simpa using hv
      simp only [hv', Bool.not_false, if_true]
      refine ⟨fun _ => ⟨?_, rfl, Nat.le_refl _⟩, fun h => by simp at h⟩
      obtain ⟨es, l, c⟩ := dropResources_log o res s
      exact ⟨es, l, [], by simp [c], Pieces.nil⟩

end CnbVerif.TestRunner
