import CnbVerif.Model.DepGraph
import CnbVerif.Spec.Topo
/-!
Helper lemmas for C13: the post-order DFS with a shared visited set meets `Spec.Topo`.

Invariant (DESIGN A.2): every discovered-unfinished ("open") node has a rank above the node being visited, so a
dependency that is already discovered cannot be open — it is finished. The fuel argument is separate from the
rank: the number of undiscovered nodes is below the fuel, and every nested call discovers a new node first.
-/
namespace CnbVerif.DepGraph
open CnbVerif.Spec.Topo

/-- two lists of the same length, related element by element, in order (core Lean has no `List.Forall₂`) -/
inductive Forall₂ {α β : Type} (R : α → β → Prop) : List α → List β → Prop
  | nil : Forall₂ R [] []
  | cons {a b l₁ l₂} : R a b → Forall₂ R l₁ l₂ → Forall₂ R (a :: l₁) (b :: l₂)

theorem Forall₂.length_eq {α β : Type} {R : α → β → Prop} {l₁ : List α} {l₂ : List β} (h : Forall₂ R l₁ l₂) :
    l₁.length = l₂.length := by
  induction h with
  | nil => rfl
  | cons _ _ ih => simp [ih]

theorem Forall₂.exists_right {α β : Type} {R : α → β → Prop} {l₁ : List α} {l₂ : List β} (h : Forall₂ R l₁ l₂)
    {a : α} (ha : a ∈ l₁) : ∃ b, b ∈ l₂ ∧ R a b := by
  induction h with
  | nil => simp at ha
  | @cons a' b' _ _ hr _ ih =>
    rcases List.mem_cons.1 ha with rfl | ha
    · exact ⟨b', by simp, hr⟩
    · obtain ⟨b, hb, hR⟩ := ih ha
      exact ⟨b, List.mem_cons_of_mem _ hb, hR⟩

theorem Forall₂.exists_left {α β : Type} {R : α → β → Prop} {l₁ : List α} {l₂ : List β} (h : Forall₂ R l₁ l₂)
    {b : β} (hb : b ∈ l₂) : ∃ a, a ∈ l₁ ∧ R a b := by
  induction h with
  | nil => simp at hb
  | @cons a' b' _ _ hr _ ih =>
    rcases List.mem_cons.1 hb with rfl | hb
    · exact ⟨a', by simp, hr⟩
    · obtain ⟨a, ha, hR⟩ := ih hb
      exact ⟨a, List.mem_cons_of_mem _ ha, hR⟩

theorem Forall₂.getElem? {α β : Type} {R : α → β → Prop} {l₁ : List α} {l₂ : List β} (h : Forall₂ R l₁ l₂)
    {k : Nat} {a : α} (hk : l₁[k]? = some a) : ∃ b, l₂[k]? = some b ∧ R a b := by
  induction h generalizing k with
  | nil => simp at hk
  | @cons a' b' _ _ hr _ ih =>
    cases k with
    | zero =>
      have : a' = a := by simpa using hk
      subst this
      exact ⟨b', by simp, hr⟩
    | succ k =>
      obtain ⟨b, hb, hR⟩ := ih (by simpa using hk)
      exact ⟨b, by simpa using hb, hR⟩

/-! ### counting undiscovered nodes -/

def unseen (n : Nat) (seen : List Nat) : Nat := (List.range n).countP (fun x => decide (x ∉ seen))

theorem unseen_mono {n : Nat} {s s' : List Nat} (h : ∀ u ∈ s, u ∈ s') : unseen n s' ≤ unseen n s := by
  unfold unseen
  apply List.countP_mono_left
  intro x _ hx
  simp only [decide_eq_true_eq] at hx ⊢
  exact fun hc => hx (h x hc)

theorem unseen_lt {n : Nat} {s s' : List Nat} {v : Nat} (h : ∀ u ∈ s, u ∈ s') (hv : v < n) (hvs : v ∉ s)
    (hvs' : v ∈ s') : unseen n s' < unseen n s := by
  induction n with
  | zero => omega
  | succ n ih =>
    unfold unseen at ih ⊢
    rw [List.range_succ, List.countP_append, List.countP_append]
    have hmono : (List.range n).countP (fun x => decide (x ∉ s')) ≤ (List.range n).countP (fun x => decide (x ∉ s)) :=
      unseen_mono (n := n) h
    have hlast : [n].countP (fun x => decide (x ∉ s')) ≤ [n].countP (fun x => decide (x ∉ s)) := by
      apply List.countP_mono_left
      intro x _ hx
      simp only [decide_eq_true_eq] at hx ⊢
      exact fun hc => hx (h x hc)
    by_cases hvn : v = n
    · subst hvn
      have h1 : [v].countP (fun x => decide (x ∉ s')) = 0 := by simp [hvs']
      have h2 : [v].countP (fun x => decide (x ∉ s)) = 1 := by simp [hvs]
      omega
    · have := ih (by omega)
      omega

theorem unseen_nil (n : Nat) : unseen n [] = n := by
  unfold unseen
  simp

/-! ### the traversal invariant -/

def Open (st : St) (s : Nat) : Prop := s ∈ st.seen ∧ s ∉ st.out

structure Inv (succ : Nat → List Nat) (st : St) : Prop where
  sub : ∀ u ∈ st.out, u ∈ st.seen
  good : DepsFirst succ st.out
  nodup : st.out.Nodup

/-- relation between the state before and after a (sub)traversal -/
structure Ext (succ : Nat → List Nat) (st st' : St) : Prop where
  seen_mono : ∀ u ∈ st.seen, u ∈ st'.seen
  out_ext : ∃ new, st'.out = st.out ++ new
  inv : Inv succ st'
  open_same : ∀ s, Open st' s ↔ Open st s
  starved_same : st'.starved = st.starved

theorem Ext.refl {succ st} (h : Inv succ st) : Ext succ st st :=
  ⟨fun _ h => h, ⟨[], by simp⟩, h, fun _ => Iff.rfl, rfl⟩

theorem Ext.trans {succ a b c} (h1 : Ext succ a b) (h2 : Ext succ b c) : Ext succ a c := by
  refine ⟨fun u hu => h2.seen_mono u (h1.seen_mono u hu), ?_, h2.inv,
    fun s => (h2.open_same s).trans (h1.open_same s), h2.starved_same.trans h1.starved_same⟩
  obtain ⟨n1, e1⟩ := h1.out_ext
  obtain ⟨n2, e2⟩ := h2.out_ext
  exact ⟨n1 ++ n2, by rw [e2, e1, List.append_assoc]⟩

theorem depsFirst_snoc {succ : Nat → List Nat} {out v} (hg : DepsFirst succ out) (hd : ∀ w ∈ succ v, w ∈ out) :
    DepsFirst succ (out ++ [v]) := by
  intro pre u post h w hw
  rcases List.eq_nil_or_concat post with hp | ⟨post', x, hp⟩
  · subst hp
    have : out = pre ∧ v = u := by
      have := List.append_inj' h (by simp)
      simpa using this
    obtain ⟨rfl, rfl⟩ := this
    exact hd w hw
  · subst hp
    have h' : out ++ [v] = (pre ++ u :: post') ++ [x] := by simpa using h
    have := List.append_inj' h' (by simp)
    exact hg pre u post' this.1 w hw

theorem visit_seen {succ : Nat → List Nat} {fuel v : Nat} {st : St} (h : v ∈ st.seen) : visit succ fuel v st = st := by
  unfold visit
  simp [h]

section
variable (succ : Nat → List Nat) (n : Nat) (rank : Nat → Nat)
  (hrank : ∀ u w, w ∈ succ u → rank w < rank u) (hwf : ∀ u w, w ∈ succ u → w < n)

include hrank hwf in
/-- The core statement: one `visit` extends the state, keeps the invariant, finishes `v`, never starves. -/
theorem visit_spec : ∀ (fuel v : Nat) (st : St), Inv succ st → v < n → unseen n st.seen < fuel →
      (∀ s, Open st s → rank v < rank s) →
      Ext succ st (visit succ fuel v st) ∧ v ∈ (visit succ fuel v st).seen ∧
      (v ∉ st.seen → v ∈ (visit succ fuel v st).out) := by
  intro fuel
  induction fuel with
  | zero => intro v st _ _ h; omega
  | succ fuel ih =>
    -- the successors of a node, folded at this fuel
    have all_spec : ∀ (ws : List Nat) (r : Nat) (st : St), Inv succ st → unseen n st.seen < fuel →
        (∀ w ∈ ws, w < n) → (∀ w ∈ ws, rank w < r) → (∀ s, Open st s → r ≤ rank s) →
        Ext succ st (ws.foldl (fun s w => visit succ fuel w s) st) ∧
          ∀ w ∈ ws, w ∈ (ws.foldl (fun s w => visit succ fuel w s) st).seen := by
      intro ws
      induction ws with
      | nil => intro r st hi _ _ _ _; exact ⟨by simpa using Ext.refl hi, by simp⟩
      | cons w ws ihws =>
        intro r st hi hfu hn hws hopen
        have hw : rank w < r := hws w (by simp)
        obtain ⟨e1, hwseen, _⟩ := ih w st hi (hn w (by simp)) hfu (fun s hs => by have := hopen s hs; omega)
        have hopen1 : ∀ s, Open (visit succ fuel w st) s → r ≤ rank s := fun s hs => hopen s ((e1.open_same s).1 hs)
        have hfu1 : unseen n (visit succ fuel w st).seen < fuel :=
          Nat.lt_of_le_of_lt (unseen_mono e1.seen_mono) hfu
        obtain ⟨e2, hall⟩ := ihws r (visit succ fuel w st) e1.inv hfu1 (fun x hx => hn x (by simp [hx]))
          (fun x hx => hws x (by simp [hx])) hopen1
        refine ⟨by simpa using e1.trans e2, ?_⟩
        intro x hx
        simp only [List.foldl_cons]
        rcases List.mem_cons.1 hx with rfl | hx
        · exact e2.seen_mono _ hwseen
        · exact hall x hx
    intro v st hi hvn hfuel hopen
    by_cases hv : v ∈ st.seen
    · rw [visit_seen hv]
      exact ⟨Ext.refl hi, hv, fun h => absurd hv h⟩
    · have hvout : v ∉ st.out := fun h => hv (hi.sub v h)
      -- the state after marking v
      let st0 : St := { st with seen := v :: st.seen }
      have hi0 : Inv succ st0 := ⟨fun u hu => List.mem_cons_of_mem _ (hi.sub u hu), hi.good, hi.nodup⟩
      have hopen0 : ∀ s, Open st0 s → rank v ≤ rank s := by
        intro s ⟨hs1, hs2⟩
        rcases List.mem_cons.1 hs1 with rfl | hs1
        · exact Nat.le_refl _
        · exact Nat.le_of_lt (hopen s ⟨hs1, hs2⟩)
      have hfu0 : unseen n st0.seen < fuel := by
        have : unseen n st0.seen < unseen n st.seen :=
          unseen_lt (v := v) (fun u hu => List.mem_cons_of_mem _ hu) hvn hv (by simp [st0])
        omega
      obtain ⟨e, hall⟩ := all_spec (succ v) (rank v) st0 hi0 hfu0 (fun w hw => hwf v w hw)
        (fun w hw => hrank v w hw) hopen0
      let st1 := (succ v).foldl (fun s w => visit succ fuel w s) st0
      have hvis : visit succ (fuel + 1) v st = { st1 with out := st1.out ++ [v] } := by
        rw [visit]
        simp only [hv, if_false]
        rfl
      rw [hvis]
      -- v is still open after its successors
      have hvopen : Open st1 v := (e.open_same v).2 ⟨by simp [st0], hvout⟩
      -- each successor is finished
      have hdeps : ∀ w ∈ succ v, w ∈ st1.out := by
        intro w hw
        have hwseen := hall w hw
        apply Classical.byContradiction
        intro hnot
        have ho : Open st0 w := (e.open_same w).1 ⟨hwseen, hnot⟩
        have h1 := hopen0 w ho
        have h2 := hrank v w hw
        omega
      have hi1 : Inv succ st1 := e.inv
      refine ⟨⟨?_, ?_, ⟨?_, ?_, ?_⟩, ?_, ?_⟩, ?_, ?_⟩
      · intro u hu; exact e.seen_mono u (List.mem_cons_of_mem _ hu)
      · obtain ⟨nw, hn⟩ := e.out_ext; exact ⟨nw ++ [v], by show st1.out ++ [v] = _; rw [hn]; simp [st0]⟩
      · intro u hu
        rcases List.mem_append.1 hu with h | h
        · exact hi1.sub u h
        · have : u = v := by simpa using h
          subst this; exact hvopen.1
      · exact depsFirst_snoc hi1.good hdeps
      · exact List.nodup_append.2 ⟨hi1.nodup, by simp, by
          intro a ha b hb; have : b = v := by simpa using hb
          subst this; intro hab; subst hab; exact hvopen.2 ha⟩
      · intro s
        constructor
        · intro ⟨hs1, hs2⟩
          have hs2' : s ∉ st1.out ∧ s ≠ v := by
            constructor
            · intro h; exact hs2 (List.mem_append.2 (Or.inl h))
            · intro h; subst h; exact hs2 (List.mem_append.2 (Or.inr (by simp)))
          have ho := (e.open_same s).1 ⟨hs1, hs2'.1⟩
          obtain ⟨h1, h2⟩ := ho
          rcases List.mem_cons.1 h1 with rfl | h1
          · exact absurd rfl hs2'.2
          · exact ⟨h1, h2⟩
        · intro ⟨hs1, hs2⟩
          have hsv : s ≠ v := fun h => hv (h ▸ hs1)
          have ho := (e.open_same s).2 ⟨List.mem_cons_of_mem _ hs1, hs2⟩
          refine ⟨ho.1, ?_⟩
          intro h
          rcases List.mem_append.1 h with h | h
          · exact ho.2 h
          · exact hsv (by simpa using h)
      · exact e.starved_same
      · exact hvopen.1
      · intro _; exact List.mem_append.2 (Or.inr (by simp))

end

end CnbVerif.DepGraph
