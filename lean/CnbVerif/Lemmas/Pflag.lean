import CnbVerif.Spec.Pflag
/-! Lemmas about the reference tokenizer: encoding a list of well-formed items and parsing it back; value codecs. -/
namespace CnbVerif.Spec.Pflag

/-- one thing a command line is made of -/
inductive Item
  | pos (w : Word)
  | flag0 (word name : Word)
  | flag1 (word name val : Word)

def Item.words : Item → List Word
  | .pos w => [w]
  | .flag0 w _ => [w]
  | .flag1 w _ v => [w, v]

def Item.opt : Item → List (Word × Word)
  | .pos _ => []
  | .flag0 _ n => [(n, wTrue)]
  | .flag1 _ n v => [(n, v)]

def Item.posOf : Item → List Word
  | .pos w => [w]
  | _ => []

def encode (items : List Item) : List Word := items.flatMap Item.words
def optsOf (items : List Item) : List (Word × Word) := items.flatMap Item.opt
def possOf (items : List Item) : List Word := items.flatMap Item.posOf

/-- the flag words mean what the item says, whatever the value is -/
def Item.WF (tbl : List Flag) : Item → Prop
  | .pos w => classify tbl w = .positional
  | .flag0 w n => classify tbl w = .complete [(n, wTrue)]
  | .flag1 w n _ => classify tbl w = .needsArg [] n

def Item.isFlag : Item → Prop
  | .pos _ => False
  | _ => True

@[simp] theorem encode_nil : encode [] = [] := rfl
@[simp] theorem encode_cons (i : Item) (r : List Item) : encode (i :: r) = i.words ++ encode r := by
  simp [encode]
@[simp] theorem encode_append (a b : List Item) : encode (a ++ b) = encode a ++ encode b := by
  simp [encode]
@[simp] theorem optsOf_nil : optsOf [] = [] := rfl
@[simp] theorem optsOf_cons (i : Item) (r : List Item) : optsOf (i :: r) = i.opt ++ optsOf r := by
  simp [optsOf]
@[simp] theorem optsOf_append (a b : List Item) : optsOf (a ++ b) = optsOf a ++ optsOf b := by
  simp [optsOf]

/-- flags followed by anything: the flags are recognised, the rest is parsed as if they were not there -/
theorem parseArgs_flags (tbl : List Flag) (inter : Bool) (items : List Item) (rest : List Word)
    (hwf : ∀ i ∈ items, i.WF tbl) (hfl : ∀ i ∈ items, i.isFlag) :
    parseArgs tbl inter (encode items ++ rest) = (parseArgs tbl inter rest).map (Raw.addOpts (optsOf items)) := by
  induction items with
  | nil =>
    simp only [encode_nil, List.nil_append, optsOf_nil]
    cases parseArgs tbl inter rest <;> simp [Raw.addOpts]
  | cons i r ih =>
    have hr := ih (fun j hj => hwf j (List.mem_cons_of_mem _ hj)) (fun j hj => hfl j (List.mem_cons_of_mem _ hj))
    have hi := hwf i (by simp)
    have hf := hfl i (by simp)
    cases i with
    | pos w => exact absurd hf (by simp [Item.isFlag])
    | flag0 w n =>
      simp only [Item.WF] at hi
      simp only [encode_cons, Item.words, List.cons_append, List.nil_append, parseArgs, hi, hr, optsOf_cons, Item.opt]
      cases parseArgs tbl inter rest <;> simp [Raw.addOpts]
    | flag1 w n v =>
      simp only [Item.WF] at hi
      simp only [encode_cons, Item.words, List.cons_append, List.nil_append, parseArgs, hi, hr, optsOf_cons, Item.opt]
      cases parseArgs tbl inter rest <;> simp [Raw.addOpts]

/-- interspersed parsing of any mixture of positional words and flags -/
theorem parseArgs_items (tbl : List Flag) (items : List Item) (hwf : ∀ i ∈ items, i.WF tbl) :
    parseArgs tbl true (encode items) = some ⟨optsOf items, possOf items⟩ := by
  induction items with
  | nil => simp [parseArgs, possOf]
  | cons i r ih =>
    have hr := ih (fun j hj => hwf j (List.mem_cons_of_mem _ hj))
    have hi := hwf i (by simp)
    cases i with
    | pos w =>
      simp only [Item.WF] at hi
      simp [Item.words, parseArgs, hi, hr, Item.opt, Raw.addPos, possOf, Item.posOf]
    | flag0 w n =>
      simp only [Item.WF] at hi
      simp [Item.words, parseArgs, hi, hr, Item.opt, Raw.addOpts, possOf, Item.posOf]
    | flag1 w n v =>
      simp only [Item.WF] at hi
      simp [Item.words, parseArgs, hi, hr, Item.opt, Raw.addOpts, possOf, Item.posOf]

/-- a word that does not start with `-` is positional -/
theorem classify_positional (tbl : List Flag) (w : Word) (h : w.head? ≠ some 45) : classify tbl w = .positional := by
  match w, h with
  | [], _ => rfl
  | x :: xs, h =>
    have hx : x ≠ 45 := by simpa using h
    unfold classify
    split <;> simp_all

/-- non-interspersed: flags, then a positional word ends option parsing -/
theorem parseArgs_flags_then_pos (tbl : List Flag) (items : List Item) (p : Word) (rest : List Word)
    (hwf : ∀ i ∈ items, i.WF tbl) (hfl : ∀ i ∈ items, i.isFlag) (hp : classify tbl p = .positional) :
    parseArgs tbl false (encode items ++ p :: rest) = some ⟨optsOf items, p :: rest⟩ := by
  rw [parseArgs_flags tbl false items (p :: rest) hwf hfl]
  simp [parseArgs, hp, Raw.addOpts]

/-! ### values -/

theorem cutAt_append (c : Nat) (a b : Word) (h : c ∉ a) : cutAt c (a ++ c :: b) = some (a, b) := by
  induction a with
  | nil => simp [cutAt]
  | cons x xs ih =>
    have hx : x ≠ c := fun e => h (by simp [e])
    have hxs : c ∉ xs := fun m => h (by simp [m])
    simp [cutAt, hx, ih hxs]

theorem cutAt_none (c : Nat) (a : Word) (h : c ∉ a) : cutAt c a = none := by
  induction a with
  | nil => rfl
  | cons x xs ih =>
    have hx : x ≠ c := fun e => h (by simp [e])
    have hxs : c ∉ xs := fun m => h (by simp [m])
    simp [cutAt, hx, ih hxs]

theorem splitOn_ne_nil (c : Nat) (a : Word) : splitOn c a ≠ [] := by
  induction a with
  | nil => simp [splitOn]
  | cons x xs ih =>
    unfold splitOn
    split
    · simp
    · split <;> simp

theorem splitOn_not_mem (c : Nat) (a : Word) (h : c ∉ a) : splitOn c a = [a] := by
  induction a with
  | nil => rfl
  | cons x xs ih =>
    have hx : x ≠ c := fun e => h (by simp [e])
    have hxs : c ∉ xs := fun m => h (by simp [m])
    simp [splitOn, hx, ih hxs]

theorem splitOn_append (c : Nat) (a b : Word) (h : c ∉ a) : splitOn c (a ++ c :: b) = a :: splitOn c b := by
  induction a with
  | nil => simp [splitOn]
  | cons x xs ih =>
    have hx : x ≠ c := fun e => h (by simp [e])
    have hxs : c ∉ xs := fun m => h (by simp [m])
    simp [splitOn, hx, ih hxs]

theorem valuesOf_append (a b : List (Word × Word)) (n : Word) : valuesOf (a ++ b) n = valuesOf a n ++ valuesOf b n := by
  simp [valuesOf]

theorem valuesOf_map {α : Type} (l : List α) (n n' : Word) (f : α → Word) :
    valuesOf (l.map (fun x => (n', f x))) n = if n' = n then l.map f else [] := by
  induction l with
  | nil => simp [valuesOf]
  | cons x xs ih =>
    by_cases h : n' = n
    · simp only [valuesOf, h, if_true] at ih ⊢
      simp [ih]
    · simp only [valuesOf, h, if_false] at ih ⊢
      have : (n' == n) = false := by simpa using h
      simp [this, ih]

theorem othersOf_append (a b : List (Word × Word)) (k : List Word) : othersOf (a ++ b) k = othersOf a k ++ othersOf b k := by
  simp [othersOf]

theorem othersOf_map {α : Type} (l : List α) (n' : Word) (k : List Word) (f : α → Word) (h : k.contains n' = true) :
    othersOf (l.map (fun x => (n', f x))) k = [] := by
  have hm : n' ∈ k := by simpa using h
  simp [othersOf, hm]

end CnbVerif.Spec.Pflag
