import CnbVerif.Model.Determinism
import CnbVerif.Spec.Determinism
/-!
Lemmas for the SBOM part of C20: the files left by writing a `Vec<Sbom>` front to back (`Det.writeSbomVec`) hold, per
(base name, format), the bytes registered last (`Spec.Det.lastRegistered`).
-/
namespace CnbVerif
open Spec.Det Det

theorem sbom_lookup_filter_ne (fs : SbomFiles) (k k' : SbomKey) (h : k' ≠ k) :
    List.lookup k' (fs.filter (fun kv => kv.1 != k)) = List.lookup k' fs := by
  induction fs with
  | nil => rfl
  | cons e r ih =>
    obtain ⟨a, v⟩ := e
    by_cases hak : a = k
    · subst hak
      have hne : (k' == a) = false := by simpa using h
      simp [List.filter, List.lookup, hne, ih]
    · have : ((a != k) = true) := by simpa using hak
      simp only [List.filter, this, List.lookup]
      split <;> simp_all

theorem sbom_lookup_write (fs : SbomFiles) (k k' : SbomKey) (b : Bytes) :
    List.lookup k' (fs.write k b) = if k' = k then some b else List.lookup k' fs := by
  unfold SbomFiles.write
  by_cases h : k' = k
  · subst h; simp [List.lookup]
  · have hne : (k' == k) = false := by simpa using h
    simp [List.lookup, hne, h, sbom_lookup_filter_ne fs k k' h]

theorem writeSbomVec_lookup (base : String) (sb : List (Nat × Bytes)) (fs : SbomFiles) (k : SbomKey) :
    List.lookup k (writeSbomVec base fs sb) = (lastRegistered k (sbomRegs base sb)).or (List.lookup k fs) := by
  induction sb generalizing fs with
  | nil => simp [writeSbomVec, sbomRegs, lastRegistered]
  | cons e rest ih =>
    obtain ⟨f, b⟩ := e
    simp only [writeSbomVec, sbomRegs, List.map, lastRegistered]
    rw [ih, sbom_lookup_write]
    have : sbomRegs base rest = List.map (fun x => ((base, x.1), x.2)) rest := rfl
    rw [← this]
    cases lastRegistered k (sbomRegs base rest) with
    | some x => simp
    | none =>
      by_cases h : k = (base, f)
      · subst h; simp
      · have h' : ¬ (base, f) = k := fun e => h e.symm
        simp [h, h']

theorem lastRegistered_append {κ : Type} [DecidableEq κ] (k : κ) (a b : List (κ × Bytes)) :
    lastRegistered k (a ++ b) = (lastRegistered k b).or (lastRegistered k a) := by
  induction a with
  | nil => cases h : lastRegistered k b <;> simp [lastRegistered, h]
  | cons e r ih =>
    obtain ⟨m, c⟩ := e
    simp only [List.cons_append, lastRegistered, ih]
    cases lastRegistered k b <;> simp

theorem lastRegistered_mem {κ : Type} [DecidableEq κ] (k : κ) (b : Bytes) (l : List (κ × Bytes))
    (h : lastRegistered k l = some b) : (k, b) ∈ l := by
  induction l with
  | nil => simp [lastRegistered] at h
  | cons e r ih =>
    obtain ⟨m, c⟩ := e
    simp only [lastRegistered] at h
    cases hr : lastRegistered k r with
    | some x => rw [hr] at h; simp at h; subst h; exact List.mem_cons_of_mem _ (ih hr)
    | none =>
      rw [hr] at h
      by_cases hm : m = k
      · simp [hm] at h; subst h; subst hm; exact List.mem_cons_self
      · simp [hm] at h

theorem lastRegistered_of_mem_nodup {κ : Type} [DecidableEq κ] (k : κ) (b : Bytes) (l : List (κ × Bytes))
    (hm : (k, b) ∈ l) (hnd : (l.map (·.1)).Nodup) : lastRegistered k l = some b := by
  induction l with
  | nil => cases hm
  | cons e r ih =>
    obtain ⟨m, c⟩ := e
    simp only [List.map, List.nodup_cons] at hnd
    simp only [lastRegistered]
    rcases List.mem_cons.mp hm with h | h
    · have hk : k = m := congrArg Prod.fst h
      have hb : b = c := congrArg Prod.snd h
      subst hk; subst hb
      cases hr : lastRegistered k r with
      | some x => exact absurd (List.mem_map.mpr ⟨(k, x), lastRegistered_mem k x r hr, rfl⟩) hnd.1
      | none => simp
    · rw [ih h hnd.2]

/-- with pairwise distinct keys the last registration does not depend on the order of the sequence -/
theorem lastRegistered_perm {κ : Type} [DecidableEq κ] (k : κ) (l l' : List (κ × Bytes)) (hp : l.Perm l')
    (hnd : (l'.map (·.1)).Nodup) : lastRegistered k l = lastRegistered k l' := by
  have hnd' : (l.map (·.1)).Nodup := (hp.map (·.1)).nodup_iff.mpr hnd
  cases h : lastRegistered k l with
  | some b => exact (lastRegistered_of_mem_nodup k b l' (hp.mem_iff.mp (lastRegistered_mem k b l h)) hnd).symm
  | none =>
    cases h' : lastRegistered k l' with
    | none => rfl
    | some b =>
      have := lastRegistered_of_mem_nodup k b l (hp.mem_iff.mpr (lastRegistered_mem k b l' h')) hnd'
      rw [h] at this; cases this

theorem sbom_lookup_filter_base (name : String) (f : Nat) (fs : SbomFiles) :
    List.lookup (name, f) (fs.filter (fun kv => kv.1.1 != name)) = none := by
  induction fs with
  | nil => rfl
  | cons e r ih =>
    obtain ⟨⟨n, g⟩, v⟩ := e
    by_cases hn : n = name
    · simp [List.filter, hn, ih]
    · have : ((n != name) = true) := by simpa using hn
      have hne : ((name, f) == (n, g)) = false := by
        simp; intro h; exact absurd h.symm hn
      simp only [List.filter, this, List.lookup, hne, ih]

theorem sbom_lookup_filter_other (name n : String) (f : Nat) (fs : SbomFiles) (h : n ≠ name) :
    List.lookup (n, f) (fs.filter (fun kv => kv.1.1 != name)) = List.lookup (n, f) fs := by
  induction fs with
  | nil => rfl
  | cons e r ih =>
    obtain ⟨⟨m, g⟩, v⟩ := e
    by_cases hm : m = name
    · subst hm
      have hne : ((n, f) == (m, g)) = false := by simp; intro h'; exact absurd h' h
      simp [List.filter, List.lookup, hne, ih]
    · have : ((m != name) = true) := by simpa using hm
      simp only [List.filter, this, List.lookup, ih]

theorem lastRegistered_other_base (name n : String) (f : Nat) (sb : List (Nat × Bytes)) (h : n ≠ name) :
    lastRegistered (n, f) (sbomRegs name sb) = none := by
  induction sb with
  | nil => rfl
  | cons e r ih =>
    have : sbomRegs name (e :: r) = ((name, e.1), e.2) :: sbomRegs name r := rfl
    rw [this]
    simp only [lastRegistered, ih]
    have : ¬ ((name, e.1) = (n, f)) := fun h' => h (congrArg Prod.fst h').symm
    simp [this]

theorem sbomRegs_perm (base : String) {a b : List (Nat × Bytes)} (h : a.Perm b) :
    (sbomRegs base a).Perm (sbomRegs base b) := h.map _

theorem sbomRegs_keys_nodup (base : String) (sb : List (Nat × Bytes)) (h : (sb.map (·.1)).Nodup) :
    ((sbomRegs base sb).map (·.1)).Nodup := by
  have : (sbomRegs base sb).map (·.1) = (sb.map (·.1)).map (fun f => (base, f)) := by
    simp [sbomRegs, List.map_map, Function.comp_def]
  rw [this]
  exact List.Pairwise.map (fun f => (base, f)) (fun a b hab h' => hab (congrArg Prod.snd h')) h

end CnbVerif
