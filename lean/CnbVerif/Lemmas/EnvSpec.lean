import CnbVerif.Lemmas.LayerEnv2
namespace CnbVerif
open Spec

def Spec.Ins.hits (s : Scope) (b : Beh) (n : Bytes) (i : Ins) : Prop := i.scope = s ∧ i.beh = b ∧ i.name = n
instance (s b n i) : Decidable (Ins.hits s b n i) := by unfold Ins.hits; infer_instance

def lookStep (s : Scope) (b : Beh) (n : Bytes) (acc : Option Bytes) (i : Ins) : Option Bytes :=
  if i.scope = s ∧ i.beh = b ∧ i.name = n then some i.val else acc

theorem lookIns_def (ins : List Ins) (s b n) : lookIns ins s b n = ins.foldl (lookStep s b n) none := rfl

theorem look_nohit (ins : List Ins) (s b n) (acc : Option Bytes) (h : ∀ i ∈ ins, ¬ Ins.hits s b n i) :
    ins.foldl (lookStep s b n) acc = acc := by
  induction ins generalizing acc with
  | nil => rfl
  | cons i t ih =>
    have hi : ¬ Ins.hits s b n i := h i (by simp)
    simp only [List.foldl_cons, lookStep]
    unfold Ins.hits at hi
    simp only [hi, if_false]
    exact ih _ (fun j hj => h j (by simp [hj]))

theorem look_lasthit (l1 l2 : List Ins) (i : Ins) (s b n) (acc : Option Bytes) (hi : Ins.hits s b n i)
    (h2 : ∀ j ∈ l2, ¬ Ins.hits s b n j) :
    (l1 ++ i :: l2).foldl (lookStep s b n) acc = some i.val := by
  rw [List.foldl_append, List.foldl_cons]
  have : lookStep s b n (List.foldl (lookStep s b n) acc l1) i = some i.val := by
    unfold Ins.hits at hi; simp [lookStep, hi]
  rw [this]
  exact look_nohit l2 s b n _ h2

theorem lookIns_no_name (ins : List Ins) (s b n) (h : ∀ i ∈ ins, i.name ≠ n) : lookIns ins s b n = none := by
  rw [lookIns_def]
  apply look_nohit
  intro i hi hh
  exact h i hi hh.2.2

theorem look_filter (p : Ins → Bool) (ins : List Ins) (s b n) (acc : Option Bytes)
    (hp : ∀ i, i.scope = s → p i = true) :
    (ins.filter p).foldl (lookStep s b n) acc = ins.foldl (lookStep s b n) acc := by
  induction ins generalizing acc with
  | nil => rfl
  | cons i t ih =>
    rw [List.filter_cons]
    by_cases hpi : p i = true
    · simp only [hpi, if_true, List.foldl_cons]; exact ih _
    · have hs : i.scope ≠ s := fun e => hpi (hp i e)
      simp only [hpi, List.foldl_cons, lookStep, hs, false_and, if_false]
      exact ih _

def Spec.Ins.key (i : Ins) : Scope × Beh × Bytes := (i.scope, i.beh, i.name)

theorem look_perm (ins ins' : List Ins) (hperm : ins.Perm ins') (hnd : (ins.map Ins.key).Nodup) (s b n) :
    lookIns ins s b n = lookIns ins' s b n := by
  have hnd' : (ins'.map Ins.key).Nodup := (hperm.map Ins.key).nodup_iff.mp hnd
  rw [lookIns_def, lookIns_def]
  by_cases hex : ∃ i ∈ ins, Ins.hits s b n i
  · obtain ⟨i, hi, hh⟩ := hex
    have key_unique : ∀ (l : List Ins), (l.map Ins.key).Nodup → ∀ l1 l2, l = l1 ++ i :: l2 →
        ∀ j ∈ l2, ¬ Ins.hits s b n j := by
      intro l hl l1 l2 e j hj hjh
      subst e
      rw [List.map_append, List.map_cons] at hl
      have := (List.nodup_append.mp hl).2.1
      have hk : j.key = i.key := by
        unfold Ins.hits at hh hjh
        simp [Ins.key, hh, hjh]
      have := (List.nodup_cons.mp this).1
      apply this
      rw [← hk]
      exact List.mem_map_of_mem hj
    obtain ⟨l1, l2, e⟩ := List.append_of_mem hi
    obtain ⟨l1', l2', e'⟩ := List.append_of_mem (hperm.mem_iff.mp hi)
    rw [e, e', look_lasthit l1 l2 i s b n none hh (key_unique _ hnd l1 l2 e),
      look_lasthit l1' l2' i s b n none hh (key_unique _ hnd' l1' l2' e')]
  · have h1 : ∀ i ∈ ins, ¬ Ins.hits s b n i := fun i hi hh => hex ⟨i, hi, hh⟩
    have h2 : ∀ i ∈ ins', ¬ Ins.hits s b n i := fun i hi hh => hex ⟨i, hperm.mem_iff.mpr hi, hh⟩
    rw [look_nohit _ _ _ _ _ h1, look_nohit _ _ _ _ _ h2]

end CnbVerif
