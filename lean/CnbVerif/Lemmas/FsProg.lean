import CnbVerif.Model.FsProg
/-!
Lemmas about the interpreter `FsProg.run`, for every program, every primitive semantics and every fault plan:
the call counter counts the log, a fault that is never reached changes nothing, and a fault that is reached
propagates through every enclosing context except a `tolerate` frame that sees `ENOENT`.
-/
namespace CnbVerif.FsProg

variable {σ : Type} (S : Sem σ)

theorem injected_none_of_ne {k n : Nat} {e : Errno} (h : k ≠ n) : injected (some (k, e)) n = none := by
  simp [injected, h]

@[simp] theorem injected_none (n : Nat) : injected none n = none := rfl

theorem injected_self (k : Nat) (e : Errno) : injected (some (k, e)) k = some e := by
  simp [injected]

/-- the counter after a run is the counter before plus the number of calls made -/
theorem run_count (plan : Plan) (p : Prog) : ∀ (tol : Bool) (s : σ) (n : Nat),
    (run S plan tol p s n).n = n + (run S plan tol p s n).log.length := by
  induction p with
  | ret v => intro tol s n; simp [run]
  | fail t => intro tol s n; simp [run]
  | probe q k ih => intro tol s n; simp only [run]; exact ih _ tol s n
  | call c k ih =>
    intro tol s n
    simp only [run]
    cases hinj : injected plan n with
    | some e => simp
    | none =>
      simp only []
      rcases hex : S.exec c s with ⟨r, s'⟩
      cases r with
      | error e => simp
      | ok v =>
        simp only [List.length_cons]
        have := ih v tol s' (n + 1)
        omega
  | tolerate b k ihb ihk =>
    intro tol s n
    simp only [run]
    split
    · simp only [List.length_append]
      have h1 := ihb true s n
      have h2 := ihk tol (run S plan true b s n).st (run S plan true b s n).n
      omega
    · exact ihb true s n

/-- every call made inside a `tolerate` body is logged as tolerant -/
theorem log_tol (plan : Plan) (p : Prog) : ∀ (s : σ) (n : Nat),
    ∀ ev ∈ (run S plan true p s n).log, ev.tol = true := by
  induction p with
  | ret v => intro s n ev h; simp [run] at h
  | fail t => intro s n ev h; simp [run] at h
  | probe q k ih => intro s n ev h; simp only [run] at h; exact ih _ s n ev h
  | call c k ih =>
    intro s n ev h
    simp only [run] at h
    cases hinj : injected plan n with
    | some e => simp [hinj] at h; rw [h]
    | none =>
      simp only [hinj] at h
      rcases hex : S.exec c s with ⟨r, s'⟩
      rw [hex] at h
      cases r with
      | error e => simp at h; rw [h]
      | ok v =>
        simp only [List.mem_cons] at h
        rcases h with h | h
        · rw [h]
        · exact ih v s' (n + 1) ev h
  | tolerate b k ihb ihk =>
    intro s n ev h
    simp only [run] at h
    split at h
    · simp only [List.mem_append] at h
      rcases h with h | h
      · exact ihb s n ev h
      · exact ihk _ _ ev h
    · exact ihb s n ev h

/-- a fault whose number lies before the first call of a run or after its last call leaves the run unchanged -/
theorem run_unreached (k : Nat) (e : Errno) (p : Prog) : ∀ (tol : Bool) (s : σ) (n : Nat),
    (k < n ∨ n + (run S none tol p s n).log.length ≤ k) →
    run S (some (k, e)) tol p s n = run S none tol p s n := by
  induction p with
  | ret v => intro tol s n _; simp [run]
  | fail t => intro tol s n _; simp [run]
  | probe q kk ih => intro tol s n h; simp only [run] at h ⊢; exact ih _ tol s n h
  | call c kk ih =>
    intro tol s n h
    have hne : k ≠ n := by
      rcases h with h | h
      · omega
      · intro heq
        subst heq
        simp only [run, injected_none] at h
        rcases hex : S.exec c s with ⟨r, s'⟩
        rw [hex] at h
        cases r <;> simp at h <;> omega
    simp only [run, injected_none_of_ne hne, injected_none]
    rcases hex : S.exec c s with ⟨r, s'⟩
    cases r with
    | error e' => rfl
    | ok v =>
      simp only []
      have h' : k < n + 1 ∨ n + 1 + (run S none tol (kk v) s' (n + 1)).log.length ≤ k := by
        rcases h with h | h
        · left; omega
        · right
          simp only [run, injected_none, hex, List.length_cons] at h
          omega
      rw [ih v tol s' (n + 1) h']
  | tolerate b kk ihb ihk =>
    intro tol s n h
    have hc := run_count S none b true s n
    have hb : run S (some (k, e)) true b s n = run S none true b s n := by
      apply ihb
      rcases h with h | h
      · left; exact h
      · right
        simp only [run] at h
        split at h
        · simp only [List.length_append] at h; omega
        · exact h
    simp only [run, hb]
    split
    · rename_i hsw
      have hk : run S (some (k, e)) tol kk (run S none true b s n).st (run S none true b s n).n
          = run S none tol kk (run S none true b s n).st (run S none true b s n).n := by
        apply ihk
        rcases h with h | h
        · left; omega
        · right
          simp only [run, hsw, if_true, List.length_append] at h
          omega
      rw [hk]
    · rfl

/-- a fault that is reached makes the run fail with that errno, unless the failed call is tolerant and the errno is `ENOENT` -/
theorem run_fault_propagates (k : Nat) (e : Errno) (p : Prog) : ∀ (tol : Bool) (s : σ) (n : Nat) (ev : Ev σ),
    n ≤ k → (run S none tol p s n).log[k - n]? = some ev → ¬ (ev.tol = true ∧ e = .enoent) →
    (run S (some (k, e)) tol p s n).out = .err (.io e) := by
  induction p with
  | ret v => intro tol s n ev _ h; simp [run] at h
  | fail t => intro tol s n ev _ h; simp [run] at h
  | probe q kk ih => intro tol s n ev hn h hx; simp only [run] at h ⊢; exact ih _ tol s n ev hn h hx
  | call c kk ih =>
    intro tol s n ev hn h hx
    by_cases hkn : k = n
    · subst hkn
      simp [run, injected_self]
    · simp only [run, injected_none_of_ne hkn]
      simp only [run, injected_none] at h
      rcases hex : S.exec c s with ⟨r, s'⟩
      rw [hex] at h
      cases r with
      | error e' =>
        exfalso
        have : k - n = (k - n - 1) + 1 := by omega
        rw [this] at h
        simp at h
      | ok v =>
        simp only [] at h ⊢
        have hidx : k - n = (k - (n + 1)) + 1 := by omega
        rw [hidx, List.getElem?_cons_succ] at h
        exact ih v tol s' (n + 1) ev (by omega) h hx
  | tolerate b kk ihb ihk =>
    intro tol s n ev hn h hx
    have hc := run_count S none b true s n
    by_cases hin : k - n < (run S none true b s n).log.length
    · -- the fault hits a call of the body
      have hev : (run S none true b s n).log[k - n]? = some ev := by
        simp only [run] at h
        split at h
        · rw [List.getElem?_append_left hin] at h; exact h
        · exact h
      have hb := ihb true s n ev hn hev hx
      have htol : ev.tol = true := log_tol S none b s n ev (List.mem_of_getElem? hev)
      have hne : e ≠ .enoent := fun he => hx ⟨htol, he⟩
      have hsw : (run S (some (k, e)) true b s n).out.swallowed = false := by
        rw [hb]
        cases e <;> simp_all [Outcome.swallowed]
      simp only [run, hsw]
      exact hb
    · -- the fault lies after the body: the body runs as without a fault
      have hb : run S (some (k, e)) true b s n = run S none true b s n :=
        run_unreached S k e b true s n (Or.inr (by omega))
      simp only [run] at h
      split at h
      · rename_i hsw
        have hge : (run S none true b s n).log.length ≤ k - n := by omega
        rw [List.getElem?_append_right hge] at h
        have hidx : k - n - (run S none true b s n).log.length = k - (run S none true b s n).n := by omega
        rw [hidx] at h
        have := ihk tol (run S none true b s n).st (run S none true b s n).n ev (by omega) h hx
        simp only [run, hb, hsw, if_true]
        exact this
      · exfalso
        have : (run S none true b s n).log[k - n]? = none := List.getElem?_eq_none (by omega)
        rw [this] at h
        cases h

end CnbVerif.FsProg
