import CnbVerif.Lemmas.EnvDir3
import CnbVerif.Lemmas.EnvSpec
namespace CnbVerif
open Spec

theorem readLayerPaths_noDirs (lp : Bytes) (layer : Dir) (le : LayerEnv) (specs : List (Bytes × PScope × LSub))
    (h : ∀ sub : LSub, Node.isDirFollow (layer.get sub.dirName) = false) :
    readLayerPaths lp layer le specs = le := by
  induction specs generalizing le with
  | nil => rfl
  | cons s t ih =>
    obtain ⟨v, sc, sub⟩ := s
    simp only [readLayerPaths, h sub, Bool.false_eq_true, if_false]
    exact ih le

theorem readLayerPaths_congr (lp : Bytes) (l l' : Dir) (le : LayerEnv) (specs : List (Bytes × PScope × LSub))
    (h : ∀ sub : LSub, l'.get sub.dirName = l.get sub.dirName) :
    readLayerPaths lp l' le specs = readLayerPaths lp l le specs := by
  induction specs generalizing le with
  | nil => rfl
  | cons s t ih =>
    obtain ⟨v, sc, sub⟩ := s
    simp only [readLayerPaths, h sub]
    exact ih _

theorem sub_ne_env (sub : LSub) : sub.dirName ≠ nEnv ∧ sub.dirName ≠ nEnvBuild ∧ sub.dirName ≠ nEnvLaunch := by
  cases sub <;> decide

/-- `apply` only looks at the deltas through these projections -/
theorem apply_congr (le le' : LayerEnv) (ha : le'.all = le.all) (hb : le'.build = le.build)
    (hl : le'.launch = le.launch) (hp : ∀ p, (procGet le'.process p).getD [] = (procGet le.process p).getD [])
    (hpb : le'.pathsBuild = le.pathsBuild) (hpl : le'.pathsLaunch = le.pathsLaunch) (s : Scope) (env : Env) :
    le'.apply s env = le.apply s env := by
  cases s with
  | all => simp [LayerEnv.apply, LayerEnv.deltas, ha]
  | build => simp [LayerEnv.apply, LayerEnv.deltas, ha, hb, hpb]
  | launch => simp [LayerEnv.apply, LayerEnv.deltas, ha, hl, hpl]
  | process p =>
    have key : ∀ (x : LayerEnv), x.apply (.process p) env = ((procGet x.process p).getD []).apply (x.all.apply env) := by
      intro x
      simp only [LayerEnv.apply, LayerEnv.deltas]
      cases procGet x.process p with
      | none => simp [delta_apply_nil]
      | some d => simp
    rw [key, key, ha, hp]

/-! ### the environment built by inserts is one the writer handles -/
theorem mem_insert_name {d : Delta} {b n v} {x : Entry} (hx : x ∈ d.insert b n v) : x.name = n ∨ x ∈ d := by
  rcases mem_insert hx with h | h
  · exact Or.inl (by rw [h])
  · exact Or.inr h

theorem procSet_keys_nodup (m : List (Bytes × Delta)) (p : Bytes) (d : Delta) (h : (m.map (·.1)).Nodup) :
    ((procSet m p d).map (·.1)).Nodup := by
  induction m with
  | nil => simp [procSet]
  | cons kv t ih =>
    obtain ⟨k, x⟩ := kv
    rw [List.map_cons] at h
    have h' := List.nodup_cons.mp h
    simp only [procSet]
    by_cases hk : k = p
    · subst hk; simpa using h
    · simp only [hk, if_false, List.map_cons]
      apply List.nodup_cons.mpr
      refine ⟨?_, ih h'.2⟩
      intro hm
      obtain ⟨y, hy, hyk⟩ := List.mem_map.mp hm
      have : y.1 = p ∨ y ∈ t := by
        clear ih h h' hm hyk
        induction t with
        | nil => simp [procSet] at hy; exact Or.inl (by rw [hy])
        | cons z r ihr =>
          obtain ⟨zk, zx⟩ := z
          simp only [procSet] at hy
          by_cases hz : zk = p
          · simp only [hz, if_true] at hy
            rcases List.mem_cons.mp hy with e | e
            · exact Or.inl (by rw [e])
            · exact Or.inr (by simp [e])
          · simp only [hz, if_false] at hy
            rcases List.mem_cons.mp hy with e | e
            · exact Or.inr (by simp [e])
            · rcases ihr e with e' | e'
              · exact Or.inl e'
              · exact Or.inr (by simp [e'])
      rcases this with e | e
      · exact hk (by rw [← hyk, e])
      · exact h'.1 (by rw [← hyk]; exact List.mem_map_of_mem (f := (·.1)) e)

end CnbVerif

namespace CnbVerif
open Spec

def NamesOk (le : LayerEnv) : Prop := ∀ s, ∀ e ∈ le.scoped s, e.name ≠ []

theorem namesOk_insert {le : LayerEnv} (h : NamesOk le) (s : Scope) (b : Beh) (n v : Bytes) (hn : n ≠ []) :
    NamesOk (le.insert s b n v) := by
  intro s' e he
  rw [LayerEnv.scoped_insert] at he
  by_cases hs : s = s'
  · simp only [hs, if_true] at he
    rcases mem_insert_name he with h1 | h1
    · rw [h1]; exact hn
    · exact h s' e h1
  · simp only [hs, if_false] at he
    exact h s' e he

theorem procKeys_insert {le : LayerEnv} (h : (le.process.map (·.1)).Nodup) (s : Scope) (b : Beh) (n v : Bytes) :
    ((le.insert s b n v).process.map (·.1)).Nodup := by
  cases s with
  | all => exact h
  | build => exact h
  | launch => exact h
  | process p => exact procSet_keys_nodup _ _ _ h

theorem buildEnv_inv (ins : List Ins) (hn : ∀ i ∈ ins, i.name ≠ []) (le : LayerEnv)
    (h1 : NamesOk le) (h2 : (le.process.map (·.1)).Nodup) :
    NamesOk (ins.foldl Ins.apply le) ∧ ((ins.foldl Ins.apply le).process.map (·.1)).Nodup := by
  induction ins generalizing le with
  | nil => exact ⟨h1, h2⟩
  | cons i t ih =>
    simp only [List.foldl_cons]
    apply ih (fun j hj => hn j (by simp [hj]))
    · exact namesOk_insert h1 _ _ _ _ (hn i (by simp))
    · exact procKeys_insert h2 _ _ _ _

/-- Every layer environment built by `LayerEnv::new()` + inserts with non-empty variable names, whose process
types do not clash with a file name of the launch delta, is one the writer and reader handle (`LayerEnv.Ok`). -/
theorem buildEnv_ok (ins : List Ins) (hn : ∀ i ∈ ins, i.name ≠ [])
    (hfree : ∀ pd ∈ (buildEnv ins).process, Dir.get ((buildEnv ins).launch.map Entry.fileOf) pd.1 = none) :
    (buildEnv ins).Ok := by
  have hwf := wf_buildEnv ins
  have hinv := buildEnv_inv ins hn LayerEnv.empty (by intro s e he; cases s <;> simp [LayerEnv.empty, LayerEnv.scoped, procGet] at he)
    (by simp [LayerEnv.empty])
  refine ⟨⟨hwf.all, hinv.1 .all⟩, ⟨hwf.build, hinv.1 .build⟩, ⟨hwf.launch, hinv.1 .launch⟩, ?_, ⟨hinv.2, hfree⟩⟩
  intro pd hpd
  have hg : procGet (buildEnv ins).process pd.1 = some pd.2 := (lookup_some_iff_mem _ hinv.2 pd.1 pd.2).mpr hpd
  refine ⟨hwf.process pd.1 pd.2 hg, ?_⟩
  have := hinv.1 (.process pd.1)
  simp only [LayerEnv.scoped] at this
  have hg' : procGet (List.foldl Ins.apply LayerEnv.empty ins).process pd.1 = some pd.2 := hg
  rw [hg'] at this
  exact this

end CnbVerif
