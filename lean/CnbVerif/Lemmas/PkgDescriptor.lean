import CnbVerif.Lemmas.PathDenote
/-!
C14 helper lemmas, part 2: schemes (model's `splitScheme` against the spec's `schemeOf` / `kindOf`), the error-first
map, and what `normalizeDescriptor` does to the dependency at each position.
-/
namespace CnbVerif.PkgDescriptor
open CnbVerif.Chars CnbVerif.Spec.PathDenote

/-! ### schemes -/

theorem colon_not_schemeChar : schemeChar ':' = false := by decide

theorem scanScheme_some {s a r : Str} (h : scanScheme s = some (a, r)) :
    s = a ++ ':' :: r ∧ (∀ c ∈ a, schemeChar c = true) := by
  induction s generalizing a with
  | nil => simp [scanScheme] at h
  | cons c cs ih =>
    unfold scanScheme at h
    by_cases hc : c = ':'
    · simp only [hc, if_true, Option.some.injEq, Prod.mk.injEq] at h
      obtain ⟨rfl, rfl⟩ := h
      subst hc
      exact ⟨rfl, by simp⟩
    · simp only [hc, if_false] at h
      by_cases hs : schemeChar c = true
      · simp only [hs, if_true] at h
        cases hr : scanScheme cs with
        | none => simp [hr] at h
        | some ar =>
          obtain ⟨a', r'⟩ := ar
          simp only [hr, Option.some.injEq, Prod.mk.injEq] at h
          obtain ⟨rfl, rfl⟩ := h
          obtain ⟨h1, h2⟩ := ih hr
          refine ⟨by rw [h1]; rfl, ?_⟩
          intro x hx
          rcases List.mem_cons.1 hx with rfl | hx
          · exact hs
          · exact h2 x hx
      · simp [hs] at h

theorem scanScheme_of_eq {a r : Str} (ha : ∀ c ∈ a, schemeChar c = true) : scanScheme (a ++ ':' :: r) = some (a, r) := by
  induction a with
  | nil => simp [scanScheme]
  | cons c cs ih =>
    have hc : schemeChar c = true := ha c (by simp)
    have hne : c ≠ ':' := fun e => by rw [e, colon_not_schemeChar] at hc; cases hc
    rw [List.cons_append, scanScheme]
    simp only [hne, if_false, hc, if_true, ih (fun x hx => ha x (List.mem_cons_of_mem _ hx))]

/-- a reference with a scheme is its scheme, a colon and the rest -/
theorem splitScheme_some {s sch rest : Str} (h : splitScheme s = some (sch, rest)) : s = sch ++ ':' :: rest := by
  cases s with
  | nil => simp [splitScheme] at h
  | cons c cs =>
    unfold splitScheme at h
    by_cases hc : c.isAlpha = true
    · simp only [hc, if_true] at h
      cases hr : scanScheme cs with
      | none => simp [hr] at h
      | some ar =>
        obtain ⟨a, r⟩ := ar
        simp only [hr, Option.some.injEq, Prod.mk.injEq] at h
        obtain ⟨rfl, rfl⟩ := h
        rw [(scanScheme_some hr).1]
        rfl
    · simp [hc] at h

theorem splitScheme_abs {s : Str} (h : isAbs s = true) : splitScheme s = none := by
  obtain ⟨t, rfl⟩ := isAbs_cons h
  have : Char.isAlpha '/' = false := by decide
  simp [splitScheme, this]

theorem splitScheme_libcnb (id : Str) : splitScheme (libcnbScheme ++ ':' :: id) = some (libcnbScheme, id) := by
  have h1 : Char.isAlpha 'l' = true := by decide
  have h2 : ∀ c ∈ "ibcnb".toList, schemeChar c = true := by decide
  show splitScheme ('l' :: ("ibcnb".toList ++ ':' :: id)) = _
  rw [splitScheme]
  simp only [h1, if_true, scanScheme_of_eq h2]
  rfl

/-- the spec's scheme characters are the model's -/
theorem specSchemeChar_eq : (fun c : Char => c.isAlphanum || c = '+' || c = '-' || c = '.') = schemeChar := by
  funext c
  simp only [schemeChar]
  cases c.isAlphanum <;> cases decide (c = '+') <;> cases decide (c = '-') <;> cases decide (c = '.') <;> rfl

theorem takeWhile_scan {cs a r : Str} (h : scanScheme cs = some (a, r)) :
    cs.takeWhile schemeChar = a ∧ cs.drop a.length = ':' :: r := by
  obtain ⟨h1, h2⟩ := scanScheme_some h
  subst h1
  constructor
  · rw [List.takeWhile_append_of_pos (by simpa using h2)]
    simp [colon_not_schemeChar]
  · simp

theorem scan_of_takeWhile {cs r : Str} (h : cs.drop (cs.takeWhile schemeChar).length = ':' :: r) :
    scanScheme cs = some (cs.takeWhile schemeChar, r) := by
  induction cs with
  | nil => simp at h
  | cons c cs ih =>
    by_cases hc : schemeChar c = true
    · have hne : c ≠ ':' := fun e => by rw [e, colon_not_schemeChar] at hc; cases hc
      simp only [List.takeWhile_cons, hc, if_true, List.length_cons, List.drop_succ_cons] at h ⊢
      rw [scanScheme]
      simp only [hne, if_false, hc, if_true, ih h]
    · simp only [List.takeWhile_cons, hc, Bool.false_eq_true, if_false, List.length_nil, List.drop_zero,
        List.cons.injEq] at h ⊢
      obtain ⟨rfl, rfl⟩ := h
      simp [scanScheme]

theorem alpha_schemeChar {c : Char} (h : c.isAlpha = true) : schemeChar c = true := by
  simp [schemeChar, Char.isAlphanum, h]

/-- the spec's reading of "has a scheme" (RFC 3986) and the model of uriparse agree on every text -/
theorem schemeOf_eq (s : Str) : schemeOf s = (splitScheme s).map (·.1) := by
  cases s with
  | nil => rfl
  | cons c cs =>
    unfold schemeOf splitScheme
    by_cases hc : c.isAlpha = true
    · have hsc := alpha_schemeChar hc
      simp only [hc, Bool.not_true, Bool.false_eq_true, if_false, if_true, specSchemeChar_eq,
        List.takeWhile_cons, hsc, List.length_cons, List.drop_succ_cons]
      cases hr : scanScheme cs with
      | some ar =>
        obtain ⟨a, r⟩ := ar
        obtain ⟨h1, h2⟩ := takeWhile_scan hr
        simp [h1, h2]
      | none =>
        simp only [Option.map_none]
        cases hd : cs.drop (cs.takeWhile schemeChar).length with
        | nil => simp
        | cons x r =>
          by_cases hx : x = ':'
          · subst hx
            rw [scan_of_takeWhile hd] at hr
            cases hr
          · simp [hx]
    · simp [hc]

theorem isAbsolute_eq_isAbs (s : Str) : isAbsolute s = isAbs s := rfl

theorem kindOf_libcnb {s id : Str} (h : kindOf s = .libcnb id) :
    s = libcnbScheme ++ ':' :: id ∧ splitScheme s = some (libcnbScheme, id) := by
  unfold kindOf at h
  rw [schemeOf_eq] at h
  cases hs : splitScheme s with
  | none =>
    simp only [hs, Option.map_none] at h
    split at h <;> cases h
  | some ar =>
    obtain ⟨sch, rest⟩ := ar
    simp only [hs, Option.map_some] at h
    by_cases he : sch = "libcnb".toList
    · simp only [he, if_true, Kind.libcnb.injEq] at h
      have e := splitScheme_some hs
      subst he
      have : id = rest := by rw [← h, e]; rfl
      subst this
      exact ⟨e, rfl⟩
    · rw [if_neg he] at h
      cases h

theorem kindOf_other {s : Str} (h : kindOf s = .other) :
    (∃ sch rest, splitScheme s = some (sch, rest) ∧ sch ≠ libcnbScheme) ∨ isAbs s = true := by
  unfold kindOf at h
  rw [schemeOf_eq] at h
  cases hs : splitScheme s with
  | none =>
    simp only [hs, Option.map_none] at h
    by_cases ha : isAbsolute s = true
    · exact Or.inr ha
    · simp [ha] at h
  | some ar =>
    obtain ⟨sch, rest⟩ := ar
    simp only [hs, Option.map_some] at h
    by_cases he : sch = "libcnb".toList
    · simp [he] at h
    · exact Or.inl ⟨sch, rest, rfl, he⟩

theorem kindOf_relative {s : Str} (h : kindOf s = .relative) : splitScheme s = none ∧ isAbs s = false := by
  unfold kindOf at h
  rw [schemeOf_eq] at h
  cases hs : splitScheme s with
  | none =>
    simp only [hs, Option.map_none] at h
    by_cases ha : isAbsolute s = true
    · simp [ha] at h
    · exact ⟨rfl, by simpa [isAbsolute_eq_isAbs] using ha⟩
  | some ar =>
    obtain ⟨sch, rest⟩ := ar
    simp only [hs, Option.map_some] at h
    split at h <;> cases h

theorem kindOf_libcnb_text (id : Str) : kindOf (libcnbScheme ++ ':' :: id) = .libcnb id := by
  unfold kindOf
  rw [schemeOf_eq, splitScheme_libcnb]
  rfl

/-- the spec's id grammar and the model of `BuildpackId::from_str` agree -/
theorem idOk_eq (s : Str) : idOk s = validId s := by
  unfold idOk validId
  have : (fun c : Char => c.isAlphanum || c = '.' || c = '/' || c = '-') = idChar := by funext c; rfl
  rw [this]
  cases s with
  | nil => rfl
  | cons c cs =>
    simp only [List.isEmpty_cons, Bool.not_false, Bool.true_and, List.contains_cons, List.contains_nil, Bool.or_false]
    cases (c :: cs).all idChar <;> simp [bne, Bool.not_or, Bool.and_assoc]

/-! ### the error-first map -/

theorem mapExcept_ok {α β ε} {f : α → Except ε β} : ∀ {l : List α} {r : List β}, mapExcept f l = .ok r →
    r.length = l.length ∧ ∀ (i : Nat) (a : α), l[i]? = some a → ∃ b, r[i]? = some b ∧ f a = .ok b := by
  intro l
  induction l with
  | nil =>
    intro r h
    simp only [mapExcept, Except.ok.injEq] at h
    subst h
    exact ⟨rfl, by simp⟩
  | cons x xs ih =>
    intro r h
    unfold mapExcept at h
    split at h
    · cases h
    · rename_i b hb
      split at h
      · cases h
      · rename_i bs hbs
        simp only [Except.ok.injEq] at h
        subst h
        obtain ⟨h1, h2⟩ := ih hbs
        refine ⟨by simp [h1], ?_⟩
        intro i a hi
        cases i with
        | zero =>
          have : x = a := by simpa using hi
          subst this
          exact ⟨b, by simp, hb⟩
        | succ i => simpa using h2 i a (by simpa using hi)

theorem mapExcept_error {α β ε} {f : α → Except ε β} : ∀ {l : List α} {e : ε}, mapExcept f l = .error e →
    ∃ a ∈ l, f a = .error e := by
  intro l
  induction l with
  | nil => intro e h; simp [mapExcept] at h
  | cons x xs ih =>
    intro e h
    unfold mapExcept at h
    split at h
    · rename_i e' he
      simp only [Except.error.injEq] at h
      subst h
      exact ⟨x, by simp, he⟩
    · split at h
      · rename_i e' he
        simp only [Except.error.injEq] at h
        subst h
        obtain ⟨a, ha, hf⟩ := ih he
        exact ⟨a, List.mem_cons_of_mem _ ha, hf⟩
      · cases h

theorem mapExcept_error_of_mem {α β ε} {f : α → Except ε β} : ∀ {l : List α} {a : α} {e : ε}, a ∈ l →
    f a = .error e → ∃ e', mapExcept f l = .error e' := by
  intro l a e ha hf
  cases hm : mapExcept f l with
  | error e' => exact ⟨e', rfl⟩
  | ok r =>
    obtain ⟨i, hi⟩ := List.getElem?_of_mem ha
    obtain ⟨b, _, hb⟩ := (mapExcept_ok hm).2 i a hi
    rw [hf] at hb
    cases hb

theorem mapExcept_fixed {α ε} {f : α → Except ε α} : ∀ {l : List α}, (∀ a ∈ l, f a = .ok a) → mapExcept f l = .ok l := by
  intro l
  induction l with
  | nil => intro _; rfl
  | cons x xs ih =>
    intro h
    rw [mapExcept, h x (by simp), ih (fun a ha => h a (List.mem_cons_of_mem _ ha))]

/-! ### what happens to the dependency at each position -/

/-- second pass on one dependency: `absolutize_dependency_paths` -/
def fixup (parent : Str) (x : Str) : Str :=
  match splitScheme x with
  | none => absolutizePath x parent
  | some _ => x

theorem normalize_index {paths : Str → Option Str} {parent : Str} {d out : Descriptor}
    (h : normalizeDescriptor paths parent d = .ok out) :
    out.buildpack = d.buildpack ∧ out.platform = d.platform ∧ out.deps.length = d.deps.length ∧
      ∀ (i : Nat) (dep : Str), d.deps[i]? = some dep →
        ∃ x, replaceLibcnbUri paths dep = .ok x ∧ out.deps[i]? = some (fixup parent x) := by
  unfold normalizeDescriptor replaceLibcnbUris at h
  cases hm : mapExcept (replaceLibcnbUri paths) d.deps with
  | error e => simp [hm] at h
  | ok r =>
    simp only [hm, Except.ok.injEq] at h
    subst h
    obtain ⟨hl, hi⟩ := mapExcept_ok hm
    refine ⟨rfl, rfl, by simp [absolutizeDeps, hl], ?_⟩
    intro i dep hdep
    obtain ⟨x, hx, hf⟩ := hi i dep hdep
    refine ⟨x, hf, ?_⟩
    simp only [absolutizeDeps, List.getElem?_map, hx, Option.map_some]
    rfl

theorem normalize_error {paths : Str → Option Str} {parent : Str} {d : Descriptor} {e : Err}
    (h : normalizeDescriptor paths parent d = .error e) : ∃ dep ∈ d.deps, replaceLibcnbUri paths dep = .error e := by
  unfold normalizeDescriptor replaceLibcnbUris at h
  cases hm : mapExcept (replaceLibcnbUri paths) d.deps with
  | error e' =>
    simp only [hm, Except.error.injEq] at h
    subst h
    exact mapExcept_error hm
  | ok r => simp [hm] at h

theorem normalize_error_of_mem {paths : Str → Option Str} {parent : Str} {d : Descriptor} {dep : Str} {e : Err}
    (hd : dep ∈ d.deps) (h : replaceLibcnbUri paths dep = .error e) :
    ∃ e', normalizeDescriptor paths parent d = .error e' := by
  obtain ⟨e', he⟩ := mapExcept_error_of_mem hd h
  exact ⟨e', by simp [normalizeDescriptor, replaceLibcnbUris, he]⟩

theorem replace_libcnb_invalid (paths : Str → Option Str) {id : Str} (h : validId id = false) :
    replaceLibcnbUri paths (libcnbScheme ++ ':' :: id) = .error (.invalidId id) := by
  unfold replaceLibcnbUri
  rw [splitScheme_libcnb]
  simp [h]

theorem replace_libcnb_missing {paths : Str → Option Str} {id : Str} (h : validId id = true) (hp : paths id = none) :
    replaceLibcnbUri paths (libcnbScheme ++ ':' :: id) = .error (.missingPath id) := by
  unfold replaceLibcnbUri
  rw [splitScheme_libcnb]
  simp [h, hp]

theorem replace_libcnb_known {paths : Str → Option Str} {id p : Str} (h : validId id = true) (hp : paths id = some p) :
    replaceLibcnbUri paths (libcnbScheme ++ ':' :: id) = .ok p := by
  unfold replaceLibcnbUri
  rw [splitScheme_libcnb]
  simp [h, hp]

theorem replace_error {paths : Str → Option Str} {dep : Str} {e : Err} (h : replaceLibcnbUri paths dep = .error e) :
    ∃ id, dep = libcnbScheme ++ ':' :: id ∧ (validId id = false ∨ paths id = none) := by
  unfold replaceLibcnbUri at h
  cases hs : splitScheme dep with
  | none => simp [hs] at h
  | some ar =>
    obtain ⟨sch, rest⟩ := ar
    simp only [hs] at h
    by_cases he : sch = libcnbScheme
    · subst he
      refine ⟨rest, splitScheme_some hs, ?_⟩
      by_cases hv : validId rest = true
      · right
        cases hp : paths rest with
        | none => rfl
        | some p => simp [hv, hp] at h
      · left; simpa using hv
    · simp [he] at h

theorem replace_not_libcnb {paths : Str → Option Str} {dep : Str}
    (h : ∀ rest, splitScheme dep ≠ some (libcnbScheme, rest)) : replaceLibcnbUri paths dep = .ok dep := by
  unfold replaceLibcnbUri
  cases hs : splitScheme dep with
  | none => rfl
  | some ar =>
    obtain ⟨sch, rest⟩ := ar
    by_cases he : sch = libcnbScheme
    · subst he; exact absurd hs (h rest)
    · simp [he]

theorem fixup_abs {parent x : Str} (h : isAbs x = true) : fixup parent x = x := by
  simp [fixup, splitScheme_abs h, absolutizePath, h]

theorem fixup_scheme {parent x sch rest : Str} (h : splitScheme x = some (sch, rest)) : fixup parent x = x := by
  simp [fixup, h]

/-- a dependency no later normalisation touches: an absolute path, or a URI with a scheme other than `libcnb` -/
def Settled (o : Str) : Prop := isAbs o = true ∨ ∃ sch rest, splitScheme o = some (sch, rest) ∧ sch ≠ libcnbScheme

theorem settled_fixed {o : Str} (h : Settled o) (paths : Str → Option Str) (parent : Str) :
    replaceLibcnbUri paths o = .ok o ∧ fixup parent o = o := by
  rcases h with h | ⟨sch, rest, hs, hne⟩
  · exact ⟨replace_not_libcnb (by rw [splitScheme_abs h]; intro _ hc; cases hc), fixup_abs h⟩
  · refine ⟨replace_not_libcnb ?_, fixup_scheme hs⟩
    intro r hc
    rw [hs] at hc
    simp only [Option.some.injEq, Prod.mk.injEq] at hc
    exact hne hc.1

end CnbVerif.PkgDescriptor
