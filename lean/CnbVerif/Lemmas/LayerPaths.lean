import CnbVerif.Lemmas.EnvDir4
import CnbVerif.Spec.LayerPaths
namespace CnbVerif
open Spec

/-! ### sortedness of everything the reader builds -/
theorem readFromEnvDir_sorted (es : Dir) (acc : Delta) (h : Sorted acc) (d : Delta)
    (hr : readFromEnvDir es acc = some d) : Sorted d := by
  induction es generalizing acc with
  | nil => simp [readFromEnvDir] at hr; subst hr; exact h
  | cons kv t ih =>
    obtain ⟨k, x⟩ := kv
    cases x with
    | file b =>
      simp only [readFromEnvDir] at hr
      split at hr
      · exact ih _ (sorted_insert h _ _ _) hr
      · exact ih _ h hr
    | dir es' => simp only [readFromEnvDir] at hr; exact ih _ h hr
    | link k' => simp [readFromEnvDir] at hr

def ProcsSorted (m : List (Bytes × Delta)) : Prop := ∀ p d, procGet m p = some d → Sorted d

theorem procsSorted_procSet {m : List (Bytes × Delta)} (h : ProcsSorted m) (p : Bytes) (d : Delta) (hd : Sorted d) :
    ProcsSorted (procSet m p d) := by
  intro q x hq
  rw [procGet_procSet] at hq
  by_cases hpq : p = q
  · simp only [hpq, if_true, Option.some.injEq] at hq; subst hq; exact hd
  · simp only [hpq, if_false] at hq; exact h q x hq

theorem readProcesses_sorted (es : Dir) (acc : List (Bytes × Delta)) (h : ProcsSorted acc)
    (r : List (Bytes × Delta)) (hr : readProcesses es acc = some r) : ProcsSorted r := by
  induction es generalizing acc with
  | nil => simp [readProcesses] at hr; subst hr; exact h
  | cons kv t ih =>
    obtain ⟨k, x⟩ := kv
    cases x with
    | file b => simp only [readProcesses] at hr; exact ih _ h hr
    | link k' => simp only [readProcesses] at hr; exact ih _ h hr
    | dir es' =>
      simp only [readProcesses] at hr
      cases hd : readFromEnvDir es' [] with
      | none => simp [hd] at hr
      | some d =>
        simp only [hd] at hr
        exact ih _ (procsSorted_procSet h k d (readFromEnvDir_sorted es' [] sorted_nil d hd)) hr

theorem readEnvEntry_sorted (l : Dir) (n : Bytes) (d : Delta) (h : readEnvEntry l n = some d) : Sorted d := by
  unfold readEnvEntry at h
  split at h
  · exact readFromEnvDir_sorted _ [] sorted_nil d h
  · simp at h
  · simp at h; subst h; exact sorted_nil

/-! ### the loop over `layer_path_specs` -/
/-- what one scope's implicit delta answers for `(b, n)` after the loop over `specs`, as a fold -/
def pathsLook (lp : Bytes) (layer : Dir) (sc : PScope) (b : Beh) (n : Bytes) (init : Option Bytes)
    (specs : List (Bytes × PScope × LSub)) : Option Bytes :=
  specs.foldl (fun acc (r : Bytes × PScope × LSub) =>
    if r.2.1 = sc ∧ Node.isDirFollow (layer.get r.2.2.dirName) = true ∧ r.1 = n then
      (if b = .prepend then some (joinPath lp r.2.2.dirName) else if b = .delim then some Gen.pathListSeparator else acc)
    else acc) init

def pathsOf (le : LayerEnv) : PScope → Delta
  | .build => le.pathsBuild
  | .launch => le.pathsLaunch

theorem readLayerPaths_spec (lp : Bytes) (layer : Dir) (specs : List (Bytes × PScope × LSub)) :
    ∀ (le : LayerEnv), Sorted le.pathsBuild → Sorted le.pathsLaunch →
      let r := readLayerPaths lp layer le specs
      Sorted r.pathsBuild ∧ Sorted r.pathsLaunch ∧ r.all = le.all ∧ r.build = le.build ∧ r.launch = le.launch ∧
      r.process = le.process ∧
      ∀ sc b n, (pathsOf r sc).find b n = pathsLook lp layer sc b n ((pathsOf le sc).find b n) specs := by
  induction specs with
  | nil => intro le h1 h2; exact ⟨h1, h2, rfl, rfl, rfl, rfl, fun _ _ _ => rfl⟩
  | cons s t ih =>
    obtain ⟨var, sc0, sub⟩ := s
    intro le h1 h2
    simp only [readLayerPaths]
    by_cases hd : Node.isDirFollow (layer.get sub.dirName) = true
    · simp only [hd, if_true]
      cases sc0 with
      | build =>
        obtain ⟨a1, a2, a3, a4, a5, a6, a7⟩ := ih { le with pathsBuild :=
            (le.pathsBuild.insert .prepend var (joinPath lp sub.dirName)).insert .delim var Gen.pathListSeparator }
          (sorted_insert (sorted_insert h1 _ _ _) _ _ _) h2
        refine ⟨a1, a2, a3, a4, a5, a6, ?_⟩
        intro sc b n
        rw [a7 sc b n]
        simp only [pathsLook, List.foldl_cons]
        congr 1
        cases sc with
        | build =>
          simp only [pathsOf, find_insert, hd, true_and]
          by_cases hn : var = n
          · subst hn; cases b <;> simp
          · simp [hn]
        | launch => simp [pathsOf]
      | launch =>
        obtain ⟨a1, a2, a3, a4, a5, a6, a7⟩ := ih { le with pathsLaunch :=
            (le.pathsLaunch.insert .prepend var (joinPath lp sub.dirName)).insert .delim var Gen.pathListSeparator }
          h1 (sorted_insert (sorted_insert h2 _ _ _) _ _ _)
        refine ⟨a1, a2, a3, a4, a5, a6, ?_⟩
        intro sc b n
        rw [a7 sc b n]
        simp only [pathsLook, List.foldl_cons]
        congr 1
        cases sc with
        | launch =>
          simp only [pathsOf, find_insert, hd, true_and]
          by_cases hn : var = n
          · subst hn; cases b <;> simp
          · simp [hn]
        | build => simp [pathsOf]
    · have hd' : Node.isDirFollow (layer.get sub.dirName) = false := by simpa using hd
      rw [if_neg (by simp [hd'])]
      obtain ⟨a1, a2, a3, a4, a5, a6, a7⟩ := ih le h1 h2
      refine ⟨a1, a2, a3, a4, a5, a6, ?_⟩
      intro sc b n
      rw [a7 sc b n]
      simp only [pathsLook, List.foldl_cons, hd']
      simp

end CnbVerif

namespace CnbVerif
open Spec

theorem tables_agree :
    (Gen.layerPathSpecs.all (fun r => Spec.layerPathTable.contains r) &&
     Spec.layerPathTable.all (fun r => Gen.layerPathSpecs.contains r)) = true := by decide

theorem dirName_eq_subName (s : LSub) : s.dirName = Spec.subName s := by cases s <;> rfl

/-- what the implicit delta of scope `sc` answers, in the spec's terms -/
def specPathsLook (lp : Bytes) (isDir : LSub → Bool) (sc : PScope) (b : Beh) (n : Bytes) : Option Bytes :=
  match Spec.implicitSub n sc with
  | some sub =>
    if isDir sub then
      (if b = .prepend then some (lp ++ [47] ++ Spec.subName sub) else if b = .delim then some [58] else none)
    else none
  | none => none

theorem pathsLook_gen (lp : Bytes) (layer : Dir) (sc : PScope) (b : Beh) (n : Bytes) :
    pathsLook lp layer sc b n none Gen.layerPathSpecs
      = specPathsLook lp (fun s => Node.isDirFollow (layer.get s.dirName)) sc b n := by
  unfold specPathsLook
  simp only [pathsLook, Gen.layerPathSpecs, List.foldl_cons, List.foldl_nil, Spec.implicitSub, Spec.layerPathTable,
    joinPath, Gen.pathListSeparator]
  simp only [LSub.dirName]
  by_cases h1 : n = [80, 65, 84, 72]
  · subst h1; cases sc <;> cases b <;> simp [LSub.dirName, Spec.subName] <;>
      cases Node.isDirFollow (layer.get [98, 105, 110]) <;> simp
  by_cases h2 : n = [76, 68, 95, 76, 73, 66, 82, 65, 82, 89, 95, 80, 65, 84, 72]
  · subst h2; cases sc <;> cases b <;> simp [LSub.dirName, Spec.subName] <;>
      cases Node.isDirFollow (layer.get [108, 105, 98]) <;> simp
  by_cases h3 : n = [76, 73, 66, 82, 65, 82, 89, 95, 80, 65, 84, 72]
  · subst h3; cases sc <;> cases b <;> simp [LSub.dirName, Spec.subName] <;>
      cases Node.isDirFollow (layer.get [108, 105, 98]) <;> simp
  by_cases h4 : n = [67, 80, 65, 84, 72]
  · subst h4; cases sc <;> cases b <;> simp [LSub.dirName, Spec.subName] <;>
      cases Node.isDirFollow (layer.get [105, 110, 99, 108, 117, 100, 101]) <;> simp
  by_cases h5 : n = [80, 75, 71, 95, 67, 79, 78, 70, 73, 71, 95, 80, 65, 84, 72]
  · subst h5; cases sc <;> cases b <;> simp [LSub.dirName, Spec.subName] <;>
      cases Node.isDirFollow (layer.get [112, 107, 103, 99, 111, 110, 102, 105, 103]) <;> simp
  have e1 : ¬ ([80, 65, 84, 72] = n) := fun e => h1 e.symm
  have e2 : ¬ ([76, 68, 95, 76, 73, 66, 82, 65, 82, 89, 95, 80, 65, 84, 72] = n) := fun e => h2 e.symm
  have e3 : ¬ ([76, 73, 66, 82, 65, 82, 89, 95, 80, 65, 84, 72] = n) := fun e => h3 e.symm
  have e4 : ¬ ([67, 80, 65, 84, 72] = n) := fun e => h4 e.symm
  have e5 : ¬ ([80, 75, 71, 95, 67, 79, 78, 70, 73, 71, 95, 80, 65, 84, 72] = n) := fun e => h5 e.symm
  simp [e1, e2, e3, e4, e5]

/-- applying an implicit delta described by `specPathsLook` is the spec's implicit rule -/
theorem ruleVar_specPathsLook (lp : Bytes) (isDir : LSub → Bool) (sc : PScope) (n : Bytes) (x : Option Bytes) :
    ruleVar (fun b => specPathsLook lp isDir sc b n) x = Spec.implicitRule lp isDir n sc x := by
  unfold specPathsLook Spec.implicitRule
  cases Spec.implicitSub n sc with
  | none => rfl
  | some sub =>
    simp only []
    cases hd : isDir sub with
    | false => simp [ruleVar]
    | true =>
      cases x with
      | none => simp [ruleVar, rule1, Spec.prependPath]
      | some p => simp [ruleVar, rule1, Spec.prependPath]

end CnbVerif

namespace CnbVerif
open Spec

/-- Everything `read_from_layer_dir` returns is well-formed, and its implicit deltas answer as the spec table says. -/
theorem readFromLayerDir_spec (lp : Bytes) (layer : Dir) (le' : LayerEnv) (h : readFromLayerDir lp layer = some le') :
    le'.WF ∧
    (∀ sc b n, (pathsOf le' sc).find b n = specPathsLook lp (fun s => Node.isDirFollow (layer.get s.dirName)) sc b n) := by
  unfold readFromLayerDir at h
  obtain ⟨s1, s2, _, _, _, _, s7⟩ := readLayerPaths_spec lp layer Gen.layerPathSpecs LayerEnv.empty sorted_nil sorted_nil
  cases ha : readEnvEntry layer nEnv with
  | none => simp [ha] at h
  | some a =>
    cases hb : readEnvEntry layer nEnvBuild with
    | none => simp [ha, hb] at h
    | some b =>
      cases hl : readEnvEntry layer nEnvLaunch with
      | none => simp [ha, hb, hl] at h
      | some l =>
        cases hp : readLaunchProcesses layer with
        | none => simp [ha, hb, hl, hp] at h
        | some ps =>
          simp only [ha, hb, hl, hp, Option.some.injEq] at h
          subst h
          have hps : ProcsSorted ps := by
            unfold readLaunchProcesses at hp
            split at hp
            · exact readProcesses_sorted _ [] (by intro p d hh; simp [procGet] at hh) ps hp
            · simp at hp; subst hp; intro p d hh; simp [procGet] at hh
          refine ⟨⟨readEnvEntry_sorted _ _ _ ha, readEnvEntry_sorted _ _ _ hb, readEnvEntry_sorted _ _ _ hl, hps, s1, s2⟩, ?_⟩
          intro sc b n
          have := s7 sc b n
          have hnone : (pathsOf LayerEnv.empty sc).find b n = none := by cases sc <;> rfl
          rw [hnone, pathsLook_gen] at this
          cases sc <;> exact this

end CnbVerif
