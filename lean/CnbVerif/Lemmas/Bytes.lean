import CnbVerif.Base.Proto
namespace CnbVerif

theorem bytesLt_irrefl : ∀ a : Bytes, bytesLt a a = false
  | [] => rfl
  | x :: xs => by simp [bytesLt, bytesLt_irrefl xs]

theorem bytesLt_trans : ∀ {a b c : Bytes}, bytesLt a b = true → bytesLt b c = true → bytesLt a c = true
  | [], [], _, h, _ => by simp [bytesLt] at h
  | [], _ :: _, [], _, h => by simp [bytesLt] at h
  | [], _ :: _, _ :: _, _, _ => by simp [bytesLt]
  | _ :: _, [], _, h, _ => by simp [bytesLt] at h
  | _ :: _, _ :: _, [], _, h => by simp [bytesLt] at h
  | x :: xs, y :: ys, z :: zs, h1, h2 => by
    simp only [bytesLt] at h1 h2 ⊢
    by_cases hxy : x < y
    · by_cases hyz : y < z
      · have : x < z := Nat.lt_trans hxy hyz
        simp [this]
      · simp only [hyz, if_false] at h2
        by_cases hzy : z < y
        · simp [hzy] at h2
        · have : y = z := by omega
          subst this; simp [hxy]
    · simp only [hxy, if_false] at h1
      by_cases hyx : y < x
      · simp [hyx] at h1
      · simp only [hyx, if_false] at h1
        have hxy' : x = y := by omega
        subst hxy'
        by_cases hyz : x < z
        · simp [hyz]
        · simp only [hyz, if_false] at h2 ⊢
          by_cases hzy : z < x
          · simp [hzy] at h2
          · simp only [hzy, if_false] at h2 ⊢
            exact bytesLt_trans h1 h2

theorem bytesLt_total : ∀ {a b : Bytes}, bytesLt a b = false → bytesLt b a = false → a = b
  | [], [], _, _ => rfl
  | [], _ :: _, h, _ => by simp [bytesLt] at h
  | _ :: _, [], _, h => by simp [bytesLt] at h
  | x :: xs, y :: ys, h1, h2 => by
    simp only [bytesLt] at h1 h2
    by_cases hxy : x < y
    · simp [hxy] at h1
    · by_cases hyx : y < x
      · simp [hyx] at h2
      · simp only [hxy, hyx, if_false] at h1 h2
        have : x = y := by omega
        subst this
        rw [bytesLt_total h1 h2]

theorem bytesLt_asymm {a b : Bytes} (h : bytesLt a b = true) : bytesLt b a = false := by
  cases hb : bytesLt b a with
  | false => rfl
  | true => have := bytesLt_trans h hb; simp [bytesLt_irrefl] at this

theorem bytesLt_ne {a b : Bytes} (h : bytesLt a b = true) : a ≠ b := by
  intro e; subst e; simp [bytesLt_irrefl] at h

end CnbVerif
