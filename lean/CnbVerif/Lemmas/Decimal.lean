import CnbVerif.Base.Decimal
/-!
Helper lemmas for C09 about decimal numerals (`render`, `digitsValue`) and splitting on a separator.
-/
namespace CnbVerif

/-! ### digits -/

theorem charDigit_digitChar (d : Nat) (h : d < 10) : charDigit? (digitChar d) = some d := by
  have : ∀ d, d < 10 → charDigit? (digitChar d) = some d := by decide
  exact this d h

theorem isAsciiDigit_digitChar (d : Nat) (h : d < 10) : isAsciiDigit (digitChar d) = true := by
  have : ∀ d, d < 10 → isAsciiDigit (digitChar d) = true := by decide
  exact this d h

theorem digitChar_eq_zero (d : Nat) (h : d < 10) (h0 : digitChar d = '0') : d = 0 := by
  have : ∀ d, d < 10 → digitChar d = '0' → d = 0 := by decide
  exact this d h h0

theorem charDigit_some {c : Char} {d : Nat} (h : charDigit? c = some d) :
    isAsciiDigit c = true ∧ d < 10 ∧ c = digitChar d := by
  unfold charDigit? at h
  split at h
  · rename_i hc
    simp at h
    refine ⟨by simp [isAsciiDigit, hc.1, hc.2], by omega, ?_⟩
    apply Char.toNat_inj.mp
    subst h
    have hd : c.toNat - 48 < 10 := by omega
    have : ∀ k, k < 10 → (digitChar k).toNat = 48 + k := by decide
    rw [this _ hd]; omega
  · simp at h

theorem charDigit_none {c : Char} (h : charDigit? c = none) : isAsciiDigit c = false := by
  unfold charDigit? at h
  split at h
  · simp at h
  · rename_i hc
    simp only [isAsciiDigit]
    by_cases h1 : 48 ≤ c.toNat <;> by_cases h2 : c.toNat ≤ 57 <;> simp_all

theorem isAsciiDigit_iff (c : Char) : isAsciiDigit c = true ↔ ∃ d, charDigit? c = some d := by
  constructor
  · intro h
    cases hc : charDigit? c with
    | some d => exact ⟨d, rfl⟩
    | none => rw [charDigit_none hc] at h; cases h
  · rintro ⟨d, hd⟩; exact (charDigit_some hd).1

/-! ### value of a digit string -/

theorem digitsValueAux_append (a b : List Char) (acc : Nat) :
    digitsValueAux (a ++ b) acc = (digitsValueAux a acc).bind (fun x => digitsValueAux b x) := by
  induction a generalizing acc with
  | nil => simp [digitsValueAux]
  | cons c cs ih =>
    simp only [List.cons_append, digitsValueAux]
    cases charDigit? c <;> simp [ih]

theorem digitsValueAux_all {s : List Char} {acc n : Nat} (h : digitsValueAux s acc = some n) :
    s.all isAsciiDigit = true := by
  induction s generalizing acc with
  | nil => simp
  | cons c cs ih =>
    simp only [digitsValueAux] at h
    cases hc : charDigit? c with
    | none => simp [hc] at h
    | some d =>
      simp only [hc] at h
      simp [(charDigit_some hc).1, ih h]

theorem digitsValueAux_isSome {s : List Char} (h : s.all isAsciiDigit = true) (acc : Nat) :
    ∃ n, digitsValueAux s acc = some n := by
  induction s generalizing acc with
  | nil => exact ⟨acc, rfl⟩
  | cons c cs ih =>
    simp only [List.all_cons, Bool.and_eq_true] at h
    obtain ⟨d, hd⟩ := (isAsciiDigit_iff c).1 h.1
    simp only [digitsValueAux, hd]
    exact ih h.2 _

theorem digitsValue_ne_nil {s : List Char} {n : Nat} (h : digitsValue s = some n) : s ≠ [] := by
  intro hs; simp [digitsValue, hs] at h

theorem digitsValue_all {s : List Char} {n : Nat} (h : digitsValue s = some n) : s.all isAsciiDigit = true := by
  unfold digitsValue at h
  split at h
  · cases h
  · exact digitsValueAux_all h

theorem digitsValue_isSome {s : List Char} (hs : s ≠ []) (h : s.all isAsciiDigit = true) : ∃ n, digitsValue s = some n := by
  simp only [digitsValue, hs, if_false]
  exact digitsValueAux_isSome h 0

/-! ### canonical numerals -/

theorem render_ne_nil (n : Nat) : render n ≠ [] := by
  unfold render; split <;> simp

theorem render_lt_ten {n : Nat} (h : n < 10) : render n = [digitChar n] := by
  rw [render]; simp [h]

theorem render_zero : render 0 = ['0'] := by
  rw [render_lt_ten (by omega)]; rfl

/-- appending one digit to a positive number -/
theorem render_step (acc d : Nat) (h : 1 ≤ acc) (hd : d < 10) :
    render (acc * 10 + d) = render acc ++ [digitChar d] := by
  rw [render]
  have h1 : ¬ (acc * 10 + d < 10) := by omega
  have h2 : (acc * 10 + d) / 10 = acc := by omega
  have h3 : (acc * 10 + d) % 10 = d := by omega
  simp only [h1, dite_false, h2, h3]

theorem digitsValueAux_render (n : Nat) : digitsValueAux (render n) 0 = some n := by
  induction n using Nat.strongRecOn with
  | _ n ih =>
    rw [render]
    by_cases h : n < 10
    · simp [h, digitsValueAux, charDigit_digitChar n h]
    · simp only [h, dite_false, digitsValueAux_append]
      rw [ih (n / 10) (by omega)]
      simp [digitsValueAux, charDigit_digitChar (n % 10) (by omega)]
      omega

/-- **reading a canonical numeral gives the number back** -/
theorem digitsValue_render (n : Nat) : digitsValue (render n) = some n := by
  simp [digitsValue, render_ne_nil, digitsValueAux_render]

theorem render_all_digits (n : Nat) : (render n).all isAsciiDigit = true :=
  digitsValue_all (digitsValue_render n)

/-- a canonical numeral starts with `0` only if it is `0` -/
theorem render_head_zero {n : Nat} (h : (render n).head? = some '0') : n = 0 := by
  induction n using Nat.strongRecOn with
  | _ n ih =>
    by_cases hn : n < 10
    · rw [render_lt_ten hn] at h
      simp at h
      exact digitChar_eq_zero n hn h
    · rw [render] at h
      simp only [hn, dite_false] at h
      have hne := render_ne_nil (n / 10)
      have : (render (n / 10) ++ [digitChar (n % 10)]).head? = (render (n / 10)).head? := by
        cases hr : render (n / 10) with
        | nil => exact absurd hr hne
        | cons a l => simp
      rw [this] at h
      have := ih (n / 10) (by omega) h
      omega

/-- reading digits after a positive accumulator appends them to its numeral -/
theorem render_digitsValueAux {s : List Char} {acc n : Nat} (hacc : 1 ≤ acc)
    (h : digitsValueAux s acc = some n) : render n = render acc ++ s := by
  induction s generalizing acc with
  | nil => simp [digitsValueAux] at h; simp [h]
  | cons c cs ih =>
    simp only [digitsValueAux] at h
    cases hc : charDigit? c with
    | none => simp [hc] at h
    | some d =>
      simp only [hc] at h
      obtain ⟨_, hd, rfl⟩ := charDigit_some hc
      rw [ih (by omega) h, render_step acc d hacc hd]
      simp

/-- **a numeral without a redundant leading zero is the canonical numeral of its value** -/
theorem render_digitsValue {s : List Char} {n : Nat} (h : digitsValue s = some n)
    (hz : s.head? = some '0' → s = ['0']) : render n = s := by
  unfold digitsValue at h
  split at h
  · cases h
  · cases s with
    | nil => contradiction
    | cons c cs =>
      simp only [digitsValueAux] at h
      cases hc : charDigit? c with
      | none => simp [hc] at h
      | some d =>
        simp only [hc, Nat.zero_mul, Nat.zero_add] at h
        obtain ⟨_, hd, rfl⟩ := charDigit_some hc
        by_cases hd0 : d = 0
        · subst hd0
          have : digitChar 0 :: cs = ['0'] := hz (by simp [digitChar])
          simp at this
          obtain ⟨_, rfl⟩ := this
          simp [digitsValueAux] at h
          subst h
          exact render_zero
        · rw [render_digitsValueAux (by omega) h, render_lt_ten hd]
          simp

/-! ### splitting -/

theorem splitChar_ne_nil (sep : Char) (s : List Char) : splitChar sep s ≠ [] := by
  induction s with
  | nil => simp [splitChar]
  | cons c cs ih =>
    simp only [splitChar]
    split
    · simp
    · split <;> simp

theorem splitChar_no_sep {sep : Char} {s : List Char} (h : sep ∉ s) : splitChar sep s = [s] := by
  induction s with
  | nil => simp [splitChar]
  | cons c cs ih =>
    simp only [List.mem_cons, not_or] at h
    have hc : ¬ c = sep := fun e => h.1 e.symm
    simp [splitChar, hc, ih h.2]

theorem splitChar_append {sep : Char} {a : List Char} (b : List Char) (h : sep ∉ a) :
    splitChar sep (a ++ sep :: b) = a :: splitChar sep b := by
  induction a with
  | nil => simp [splitChar]
  | cons c cs ih =>
    simp only [List.mem_cons, not_or] at h
    have hc : ¬ c = sep := fun e => h.1 e.symm
    simp [splitChar, hc, ih h.2]

theorem joinChar_splitChar (sep : Char) (s : List Char) : joinChar sep (splitChar sep s) = s := by
  induction s with
  | nil => simp [splitChar, joinChar]
  | cons c cs ih =>
    simp only [splitChar]
    split
    · rename_i hc
      subst hc
      cases hs : splitChar c cs with
      | nil => exact absurd hs (splitChar_ne_nil _ _)
      | cons h t => rw [hs] at ih; simp [joinChar, ih]
    · cases hs : splitChar sep cs with
      | nil => exact absurd hs (splitChar_ne_nil _ _)
      | cons h t =>
        rw [hs] at ih
        cases t with
        | nil => simp [joinChar] at ih ⊢; exact ih
        | cons t1 t2 => simp [joinChar] at ih ⊢; exact ih

theorem splitChar_pieces {sep : Char} {s : List Char} : ∀ p ∈ splitChar sep s, sep ∉ p := by
  induction s with
  | nil => simp [splitChar]
  | cons c cs ih =>
    simp only [splitChar]
    split
    · intro p hp
      simp at hp
      rcases hp with rfl | hp
      · simp
      · exact ih p hp
    · rename_i hc
      cases hs : splitChar sep cs with
      | nil => exact absurd hs (splitChar_ne_nil _ _)
      | cons h t =>
        rw [hs] at ih
        intro p hp
        simp at hp
        rcases hp with rfl | hp
        · have := ih h (by simp)
          simp [this]
          exact fun e => hc e.symm
        · exact ih p (by simp [hp])

theorem splitOnce_none {sep : Char} {s : List Char} : splitOnce sep s = none ↔ sep ∉ s := by
  induction s with
  | nil => simp [splitOnce]
  | cons c cs ih =>
    simp only [splitOnce]
    split
    · rename_i hc; simp [hc]
    · rename_i hc
      cases hs : splitOnce sep cs with
      | none =>
        have := ih.1 hs
        simp [this]
        exact fun e => hc e.symm
      | some ab =>
        have : ¬ (sep ∉ cs) := fun h => by rw [ih.2 h] at hs; cases hs
        simp at this
        simp [this]

theorem splitOnce_some {sep : Char} {s a b : List Char} :
    splitOnce sep s = some (a, b) ↔ s = a ++ sep :: b ∧ sep ∉ a := by
  induction s generalizing a b with
  | nil => simp [splitOnce]
  | cons c cs ih =>
    simp only [splitOnce]
    split
    · rename_i hc
      subst hc
      constructor
      · intro h; simp at h; obtain ⟨rfl, rfl⟩ := h; simp
      · rintro ⟨h1, h2⟩
        cases a with
        | nil => simp at h1; simp [h1]
        | cons x xs => simp at h1; simp [h1.1] at h2
    · rename_i hc
      cases hs : splitOnce sep cs with
      | none =>
        have hn := splitOnce_none.1 hs
        simp
        intro h1
        cases a with
        | nil => simp at h1; exact absurd h1.1 hc
        | cons x xs =>
          simp at h1
          exfalso; apply hn
          rw [h1.2]; simp
      | some ab =>
        obtain ⟨a', b'⟩ := ab
        have := (ih (a := a') (b := b')).1 hs
        constructor
        · intro h
          simp at h
          obtain ⟨rfl, rfl⟩ := h
          obtain ⟨h1, h2⟩ := this
          refine ⟨by simp [h1], ?_⟩
          simp [h2]
          exact fun e => hc e.symm
        · rintro ⟨h1, h2⟩
          cases a with
          | nil => simp at h1; exact absurd h1.1 hc
          | cons x xs =>
            simp at h1 h2
            obtain ⟨rfl, h1⟩ := h1
            have := (ih (a := xs) (b := b)).2 ⟨h1, h2.2⟩
            rw [hs] at this
            simp at this
            simp [this.1, this.2]

end CnbVerif
