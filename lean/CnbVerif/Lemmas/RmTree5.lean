import CnbVerif.Lemmas.RmTree4
/-! Lemmas for C11, part 5: the depth budget of the model's recursion is never exhausted (the model's `fuel` error is
not a behaviour of the code; this shows it cannot occur). -/
namespace CnbVerif.RmTree
open CnbVerif

/-- no path is recorded in `s'` that was not recorded in `s` -/
def Shrinks (s s' : FS) : Prop := ∀ k, (fget s' k).isSome = true → (fget s k).isSome = true

theorem Shrinks.refl (s : FS) : Shrinks s s := fun _ h => h
theorem Shrinks.trans {a b c : FS} (h1 : Shrinks a b) (h2 : Shrinks b c) : Shrinks a c := fun k h => h1 k (h2 k h)

theorem shrinks_ferase (s : FS) (q : Path) : Shrinks s (ferase s q) := by
  intro k h
  by_cases e : k = q
  · subst e; rw [fget_ferase_self] at h; cases h
  · rwa [fget_ferase_ne _ _ _ e] at h

theorem shrinks_fset (s : FS) (q : Path) (v : Node) (hq : (fget s q).isSome = true) : Shrinks s (fset s q v) := by
  intro k h
  by_cases e : k = q
  · subst e; exact hq
  · rwa [fget_fset_ne _ _ _ _ e] at h

theorem unlink_shrinks (root : Bool) (s : FS) (p : Path) (hne : p ≠ []) (hc : Canon s p) :
    Shrinks s (lift s (unlink root s p)).2 := by
  cases unlink_canon root s p hne hc with
  | failed e h _ _ => rw [h]; exact Shrinks.refl _
  | erased h _ => rw [h]; exact shrinks_ferase _ _

theorem rmdir_shrinks (root : Bool) (s : FS) (p : Path) (hne : p ≠ []) (hc : Canon s p) :
    Shrinks s (lift s (rmdir root s p)).2 := by
  cases rmdir_canon root s p hne hc with
  | failed e h _ _ => rw [h]; exact Shrinks.refl _
  | erased h _ => rw [h]; exact shrinks_ferase _ _

theorem lift_ne_fuel_unlink (root : Bool) (s : FS) (p : Path) (hne : p ≠ []) (hc : Canon s p) :
    (lift s (unlink root s p)).1 ≠ .error .fuel := by
  cases unlink_canon root s p hne hc with
  | failed e h _ hf => rw [h]; intro heq; exact hf (by simpa [lift] using heq)
  | erased h _ => rw [h]; intro heq; cases heq

section Loop3
variable (root : Bool) (rec : FS → Path → Res)
variable (hrec : ∀ (s : FS) (q : Path), q ≠ [] → Canon s q → isDirAt s q = true → Untouched q s (rec s q).2)
variable (hsh : ∀ (s : FS) (q : Path), q ≠ [] → Canon s q → isDirAt s q = true → Shrinks s (rec s q).2)

include hrec hsh in
theorem rmEntries_shrinks (p : Path) :
    ∀ (es : List (Name × Bool)) (s : FS), Canon s p → isDirAt s p = true → (es.map Prod.fst).Nodup →
      (∀ x, (x, true) ∈ es → isDirAt s (p ++ [x]) = true) → Shrinks s (rmEntries root rec p es s).2 := by
  intro es
  induction es with
  | nil => intro s _ _ _ _; exact Shrinks.refl _
  | cons e es ih =>
    intro s hc hd hnd hdirs
    obtain ⟨x, isD⟩ := e
    have hcc : Canon s (p ++ [x]) := canon_snoc x hc hd
    have hne' : p ++ [x] ≠ [] := by simp
    have hstep : Untouched (p ++ [x]) s
        (if isD then rec s (p ++ [x]) else lift s (unlink root s (p ++ [x]))).2 := by
      cases isD with
      | true => simpa using hrec s (p ++ [x]) hne' hcc (hdirs x List.mem_cons_self)
      | false => simpa using unlink_untouched root s (p ++ [x]) hne' hcc
    have hstep2 : Shrinks s (if isD then rec s (p ++ [x]) else lift s (unlink root s (p ++ [x]))).2 := by
      cases isD with
      | true => simpa using hsh s (p ++ [x]) hne' hcc (hdirs x List.mem_cons_self)
      | false => simpa using unlink_shrinks root s (p ++ [x]) hne' hcc
    unfold rmEntries
    generalize (if isD then rec s (p ++ [x]) else lift s (unlink root s (p ++ [x]))) = r at hstep hstep2
    obtain ⟨res, s'⟩ := r
    cases res with
    | error e => exact hstep2
    | ok u =>
      simp only
      have hc' : Canon s' p := canon_of_agree hc (fun _ _ _ hp => hstep _ (offChildren_proper hp x))
      have hd' : isDirAt s' p = true := by
        unfold isDirAt at hd ⊢
        rw [hstep p (offChildren_self p x)]; exact hd
      simp only [List.map_cons, List.nodup_cons] at hnd
      exact Shrinks.trans hstep2 (ih s' hc' hd' hnd.2 (dirs_step hstep hnd.1 hdirs))

end Loop3

theorem rmRec_shrinks (root : Bool) : ∀ (f : Nat) (s : FS) (p : Path), p ≠ [] → Canon s p →
    Shrinks s (rmRec root f s p).2 := by
  intro f
  induction f with
  | zero => intro s p _ _; exact Shrinks.refl _
  | succ f ih =>
    intro s p hne hc
    unfold rmRec
    cases lstat_canon root s p hne hc with
    | access h => rw [h]; exact Shrinks.refl _
    | absent h _ => rw [h]; exact Shrinks.refl _
    | here v h hv =>
      rw [h]
      have main : ∀ (_ : isLinkAt s p = false) (hnh : isHardAt s p = false), Shrinks s
          (match chmod root s p 0o777 with
            | .error e => (Except.error e, s)
            | .ok fs1 =>
              match readDir root fs1 p with
              | .error e => (Except.error e, fs1)
              | .ok entries =>
                match rmEntries root (fun s q => rmRec root f s q) p entries fs1 with
                | (.error e, fs2) => (Except.error e, fs2)
                | (.ok _, fs2) => lift fs2 (rmdir root fs2 p)).2 := by
        intro hl hnh
        cases chmod_canon root s p 0o777 hne hc hl hnh with
        | failed e hch _ _ => rw [hch]; exact Shrinks.refl _
        | done v0 v' hch hv0 hdir hlink =>
          rw [hch]
          dsimp only
          have hu1 : Untouched p s (fset s p v') := untouched_fset _ _ _
          have hs1 : Shrinks s (fset s p v') := shrinks_fset _ _ _ (by simp [hv0])
          have hc1 : Canon (fset s p v') p := canon_of_untouched hc hu1
          have hl1 : isLinkAt (fset s p v') p = false := by
            unfold isLinkAt; rw [fget_fset_self]
            cases v' with
            | link t => simp [Node.isLink] at hlink
            | file m c => rfl
            | hard i m c => rfl
            | dir m => rfl
          cases readDir_canon root (fset s p v') p hne hc1 hl1 with
          | failed e hrd _ _ => rw [hrd]; exact hs1
          | done es hrd hd1 hnd _ hdirs =>
            rw [hrd]
            simp only
            have hfr := rmEntries_frame root (fun s q => rmRec root f s q)
              (fun s q hq hcq _ => rmRec_untouched root f s q hq hcq)
              p es (fset s p v') hc1 hd1 hnd hdirs
            have hsh := rmEntries_shrinks root (fun s q => rmRec root f s q)
              (fun s q hq hcq _ => rmRec_untouched root f s q hq hcq)
              (fun s q hq hcq _ => ih s q hq hcq)
              p es (fset s p v') hc1 hd1 hnd hdirs
            generalize rmEntries root (fun s q => rmRec root f s q) p es (fset s p v') = r at hfr hsh
            obtain ⟨res, s2⟩ := r
            cases res with
            | error e => exact hs1.trans hsh
            | ok u =>
              simp only
              have hu2 : Untouched p (fset s p v') s2 := fun k hk => hfr k (offChildren_of_not_pre hk)
              have hc2 : Canon s2 p := canon_of_untouched hc1 hu2
              exact (hs1.trans hsh).trans (rmdir_shrinks root s2 p hne hc2)
      cases v with
      | link t => simp only; exact unlink_shrinks root s p hne hc
      | file m c => simp only; exact unlink_shrinks root s p hne hc
      | hard i m c => simp only; exact unlink_shrinks root s p hne hc
      | dir m => exact main (by simp [isLinkAt, hv]) (by simp [isHardAt, hv])

/-- every recorded path is shorter than `bound` -/
def Shorter (s : FS) (bound : Nat) : Prop := ∀ k, (fget s k).isSome = true → k.length < bound

theorem shorter_of_shrinks {s s' : FS} {b : Nat} (h : Shorter s b) (hs : Shrinks s s') : Shorter s' b :=
  fun k hk => h k (hs k hk)

section Loop4
variable (root : Bool) (rec : FS → Path → Res) (bound : Nat) (p : Path)
variable (hrec : ∀ (s : FS) (q : Path), q ≠ [] → Canon s q → isDirAt s q = true → Untouched q s (rec s q).2)
variable (hsh : ∀ (s : FS) (q : Path), q ≠ [] → Canon s q → isDirAt s q = true → Shrinks s (rec s q).2)
variable (hnf : ∀ (s : FS) (x : Name), Canon s (p ++ [x]) → isDirAt s (p ++ [x]) = true →
  (fget s (p ++ [x])).isSome = true → Shorter s bound → (rec s (p ++ [x])).1 ≠ .error .fuel)

include hrec hsh hnf in
theorem rmEntries_ne_fuel :
    ∀ (es : List (Name × Bool)) (s : FS), Canon s p → isDirAt s p = true → (es.map Prod.fst).Nodup →
      (∀ x ∈ es.map Prod.fst, (fget s (p ++ [x])).isSome = true) →
      (∀ x, (x, true) ∈ es → isDirAt s (p ++ [x]) = true) → Shorter s bound →
      (rmEntries root rec p es s).1 ≠ .error .fuel := by
  intro es
  induction es with
  | nil => intro s _ _ _ _ _ _ h; cases h
  | cons e es ih =>
    intro s hc hd hnd hpres hdirs hshort
    obtain ⟨x, isD⟩ := e
    have hcc : Canon s (p ++ [x]) := canon_snoc x hc hd
    have hne' : p ++ [x] ≠ [] := by simp
    have hx : (fget s (p ++ [x])).isSome = true := hpres x (by simp)
    have hstep : Untouched (p ++ [x]) s
        (if isD then rec s (p ++ [x]) else lift s (unlink root s (p ++ [x]))).2 := by
      cases isD with
      | true => simpa using hrec s (p ++ [x]) hne' hcc (hdirs x List.mem_cons_self)
      | false => simpa using unlink_untouched root s (p ++ [x]) hne' hcc
    have hstep2 : Shrinks s (if isD then rec s (p ++ [x]) else lift s (unlink root s (p ++ [x]))).2 := by
      cases isD with
      | true => simpa using hsh s (p ++ [x]) hne' hcc (hdirs x List.mem_cons_self)
      | false => simpa using unlink_shrinks root s (p ++ [x]) hne' hcc
    have hres : (if isD then rec s (p ++ [x]) else lift s (unlink root s (p ++ [x]))).1 ≠ .error .fuel := by
      cases isD with
      | true => simpa using hnf s x hcc (hdirs x List.mem_cons_self) hx hshort
      | false => simpa using lift_ne_fuel_unlink root s (p ++ [x]) hne' hcc
    unfold rmEntries
    generalize (if isD then rec s (p ++ [x]) else lift s (unlink root s (p ++ [x]))) = r at hstep hstep2 hres
    obtain ⟨res, s'⟩ := r
    cases res with
    | error e => simpa using hres
    | ok u =>
      simp only
      have hc' : Canon s' p := canon_of_agree hc (fun _ _ _ hp => hstep _ (offChildren_proper hp x))
      have hd' : isDirAt s' p = true := by
        unfold isDirAt at hd ⊢
        rw [hstep p (offChildren_self p x)]; exact hd
      simp only [List.map_cons, List.nodup_cons] at hnd
      refine ih s' hc' hd' hnd.2 ?_ (dirs_step hstep hnd.1 hdirs) (shorter_of_shrinks hshort hstep2)
      intro y hy
      have hxy : x ≠ y := by intro e; subst e; exact hnd.1 hy
      rw [hstep (p ++ [y]) (isPre_snoc_snoc hxy)]
      exact hpres y (by simp [List.mem_map] at hy ⊢; right; exact hy)

end Loop4

/-- with a budget exceeding the length of every recorded path below `p`, the recursion never runs out of budget -/
theorem rmRec_ne_fuel (root : Bool) : ∀ (f : Nat) (s : FS) (p : Path), p ≠ [] → Canon s p →
    (fget s p).isSome = true → Shorter s (p.length + f) →
    (rmRec root f s p).1 ≠ .error .fuel := by
  intro f
  induction f with
  | zero =>
    intro s p _ _ hs hshort
    have := hshort p hs
    omega
  | succ f ih =>
    intro s p hne hc hs hshort
    unfold rmRec
    cases lstat_canon root s p hne hc with
    | access h => rw [h]; intro e; cases e
    | absent h hn => rw [hn] at hs; cases hs
    | here v h hv =>
      rw [h]
      have main : ∀ (_ : isLinkAt s p = false) (hnh : isHardAt s p = false),
          (match chmod root s p 0o777 with
            | .error e => (Except.error e, s)
            | .ok fs1 =>
              match readDir root fs1 p with
              | .error e => (Except.error e, fs1)
              | .ok entries =>
                match rmEntries root (fun s q => rmRec root f s q) p entries fs1 with
                | (.error e, fs2) => (Except.error e, fs2)
                | (.ok _, fs2) => lift fs2 (rmdir root fs2 p)).1 ≠ .error .fuel := by
        intro hl hnh
        cases chmod_canon root s p 0o777 hne hc hl hnh with
        | failed e hch _ hf => rw [hch]; intro heq; exact hf (by simpa using heq)
        | done v0 v' hch hv0 hdir hlink =>
          rw [hch]
          dsimp only
          have hu1 : Untouched p s (fset s p v') := untouched_fset _ _ _
          have hs1 : Shrinks s (fset s p v') := shrinks_fset _ _ _ (by simp [hv0])
          have hc1 : Canon (fset s p v') p := canon_of_untouched hc hu1
          have hl1 : isLinkAt (fset s p v') p = false := by
            unfold isLinkAt; rw [fget_fset_self]
            cases v' with
            | link t => simp [Node.isLink] at hlink
            | file m c => rfl
            | hard i m c => rfl
            | dir m => rfl
          have hshort1 : Shorter (fset s p v') (p.length + 1 + f) := by
            have := shorter_of_shrinks hshort hs1
            intro k hk; have := this k hk; omega
          cases readDir_canon root (fset s p v') p hne hc1 hl1 with
          | failed e hrd _ hf => rw [hrd]; intro heq; exact hf (by simpa using heq)
          | done es hrd hd1 hnd hpres hdirs =>
            rw [hrd]
            simp only
            have hfr := rmEntries_frame root (fun s q => rmRec root f s q)
              (fun s q hq hcq _ => rmRec_untouched root f s q hq hcq)
              p es (fset s p v') hc1 hd1 hnd hdirs
            have hnf' := rmEntries_ne_fuel root (fun s q => rmRec root f s q) (p.length + 1 + f) p
              (fun s q hq hcq _ => rmRec_untouched root f s q hq hcq)
              (fun s q hq hcq _ => rmRec_shrinks root f s q hq hcq)
              (fun s x hcq _ hsq hshq => ih s (p ++ [x]) (by simp) hcq hsq (by simpa using hshq))
              es (fset s p v') hc1 hd1 hnd hpres hdirs hshort1
            generalize rmEntries root (fun s q => rmRec root f s q) p es (fset s p v') = r at hfr hnf'
            obtain ⟨res, s2⟩ := r
            cases res with
            | error e => simpa using hnf'
            | ok u =>
              simp only
              have hu2 : Untouched p (fset s p v') s2 := fun k hk => hfr k (offChildren_of_not_pre hk)
              have hc2 : Canon s2 p := canon_of_untouched hc1 hu2
              cases rmdir_canon root s2 p hne hc2 with
              | failed e hrm _ hf => rw [hrm]; intro heq; exact hf (by simpa [lift] using heq)
              | erased hrm _ => rw [hrm]; intro heq; cases heq
      cases v with
      | link t => simp only; exact lift_ne_fuel_unlink root s p hne hc
      | file m c => simp only; exact lift_ne_fuel_unlink root s p hne hc
      | hard i m c => simp only; exact lift_ne_fuel_unlink root s p hne hc
      | dir m => exact main (by simp [isLinkAt, hv]) (by simp [isHardAt, hv])

theorem fget_len_le_max {s : FS} {k : Path} (h : (fget s k).isSome = true) : k.length ≤ maxKeyLen s := by
  induction s with
  | nil => cases h
  | cons kv r ih =>
    obtain ⟨k', v⟩ := kv
    unfold fget at h
    unfold maxKeyLen
    by_cases e : k' = k
    · subst e; exact Nat.le_max_left _ _
    · simp only [e, if_false] at h
      exact Nat.le_trans (ih h) (Nat.le_max_right _ _)

theorem rmRec_absent_fst (root : Bool) (f : Nat) (s : FS) (p : Path) (hne : p ≠ []) (hc : Canon s p)
    (hn : fget s p = none) : (rmRec root (f + 1) s p).1 ≠ .error .fuel := by
  unfold rmRec
  cases lstat_canon root s p hne hc with
  | access h => rw [h]; intro e; cases e
  | absent h _ => rw [h]; intro e; cases e
  | here v h hv => rw [hn] at hv; cases hv

theorem unlinkAll_ne_fuel (root : Bool) (d : Name) : ∀ (names : List Name) (s : FS), isDirAt s [d] = true →
    (unlinkAll root s (names.map (fun x => [d, x]))).1 ≠ .error .fuel := by
  intro names
  induction names with
  | nil => intro s _ h; cases h
  | cons x xs ih =>
    intro s hd
    have hc : Canon s [d, x] := canon_pair s d x hd
    simp only [List.map_cons]
    unfold unlinkAll
    cases unlink_canon root s [d, x] (by simp) hc with
    | failed e hu _ hf =>
      rw [hu]
      dsimp only
      by_cases he : e = .notFound
      · rw [if_pos he]; exact ih s hd
      · rw [if_neg he]; intro heq; exact hf (by simpa using heq)
    | erased hu _ =>
      rw [hu]
      dsimp only
      apply ih
      unfold isDirAt at hd ⊢
      rw [fget_ferase_ne _ _ _ (by simp)]; exact hd

/-- `delete_layer` in the model never fails for lack of recursion budget -/
theorem deleteLayer_ne_fuel (root : Bool) (t : FS) (n : Name) (hd : isDirAt t [layersName] = true) :
    (deleteLayer root t n).1 ≠ .error .fuel := by
  have hc : Canon t (layerPath n) := canon_pair t _ _ hd
  have hne := layerPath_ne n
  have hrm : (rmRec root (depthFuel t) t (layerPath n)).1 ≠ .error .fuel := by
    cases hg : fget t (layerPath n) with
    | none => exact rmRec_absent_fst root _ t _ hne hc hg
    | some v =>
      apply rmRec_ne_fuel root _ t _ hne hc (by simp [hg])
      intro k hk
      have := fget_len_le_max hk
      simp only [depthFuel, layerPath, List.length_cons, List.length_nil]
      omega
  rcases deleteLayer_cases root t n with ⟨h, _⟩ | ⟨h, _⟩
  · rw [h]; exact hrm
  · rw [h]
    have hu := rmRec_untouched root (depthFuel t) t (layerPath n) hne hc
    have hd1 := layersDir_of_frame (n := n) (frame_of_untouched hu) hd
    have := unlinkAll_ne_fuel root layersName (ownNames n) _ hd1
    rw [ownNames_paths] at this
    exact this

end CnbVerif.RmTree
