import CnbVerif.Spec.TraitSpec
import CnbVerif.Lemmas.LayerStore2
import CnbVerif.Lemmas.LayerPaths
import CnbVerif.Lemmas.EnvDir4
/-!
C02 lemmas, part 1: the spec's reading of a layer directory (`Spec.specVar`) agrees with `LayerEnv::apply` of what
`read_from_layer_dir` returns, for every directory whose env entries were left by `write_to_layer_dir`.
-/
namespace CnbVerif
open Spec

/-! ### the spec's names are the model's -/
theorem sEnv_eq : sEnv = nEnv := rfl
theorem sEnvBuild_eq : sEnvBuild = nEnvBuild := rfl
theorem sEnvLaunch_eq : sEnvLaunch = nEnvLaunch := rfl
theorem sExecd_eq : sExecd = nExecd := rfl
theorem layerPathOf_eq (n : Bytes) : layerPathOf n = layerPath n := rfl

theorem envFile_eq (e : Entry) : envFile e = Entry.fileOf e := by
  cases e with
  | mk b n v => cases b <;> simp [Entry.fileOf, envFile, Gen.writeSuffix, Spec.suffixName]

theorem envFile_map (d : Delta) : d.map envFile = d.map Entry.fileOf := by
  apply List.map_congr_left; intro e _; exact envFile_eq e

theorem isDirNode_eq (x : Option Node) : isDirNode x = Node.isDirFollow x := by
  unfold isDirNode Node.isDirFollow
  split <;> simp_all

/-! ### the layer directory's env entries are what the writer leaves for `le` -/
structure ShapedBy (le : LayerEnv) (d : Dir) : Prop where
  env : d.get nEnv = deltaNode le.all
  build : d.get nEnvBuild = deltaNode le.build
  launch : d.get nEnvLaunch = launchNode (procDirs le.process ++ le.launch.map Entry.fileOf)

/-! ### spec reading of a file name the writer produced -/
theorem readName_go_dotfree (xr rest acc : Bytes) (h : ∀ c ∈ xr, c ≠ 46) :
    Spec.readName.go (xr ++ rest) acc = Spec.readName.go rest (xr.reverse ++ acc) := by
  induction xr generalizing acc with
  | nil => rfl
  | cons c t ih =>
    have hc : c ≠ 46 := h c (by simp)
    simp only [List.cons_append, Spec.readName.go, hc, if_false]
    rw [ih _ (fun x hx => h x (by simp [hx]))]
    simp

theorem readName_fileOf (b : Beh) (n : Bytes) (hn : n ≠ []) :
    Spec.readName (n ++ Gen.writeSuffix b) = some (b, n) := by
  obtain ⟨ext, hw, hne, hnd, _⟩ := suffix_tables_agree b
  have hext : ext = Spec.suffixName b := by
    cases b <;> simp only [Gen.writeSuffix, List.cons.injEq, true_and] at hw <;> rw [← hw] <;> rfl
  rw [hw]
  unfold Spec.readName
  have hrev : (n ++ 46 :: ext).reverse = ext.reverse ++ 46 :: n.reverse := by simp
  rw [hrev, readName_go_dotfree ext.reverse _ [] (by intro c hc; exact hnd c (by simpa using hc))]
  have hnr : n.reverse ≠ [] := by simpa using hn
  simp only [Spec.readName.go, if_true, hnr, if_false, List.reverse_reverse, List.append_nil]
  subst hext
  cases b <;> rfl

theorem filesOf_written (d : Delta) : filesOf (d.map Entry.fileOf) = d.map (fun e => (e.name ++ Gen.writeSuffix e.beh, e.val)) := by
  induction d with
  | nil => rfl
  | cons e t ih => simp only [List.map_cons, filesOf, List.filterMap_cons, Entry.fileOf] at ih ⊢; rw [ih]

theorem dirLook_written (d : Delta) (hn : ∀ e ∈ d, e.name ≠ []) (b : Beh) (n : Bytes) :
    dirLook (d.map Entry.fileOf) b n = d.find b n := by
  unfold dirLook Delta.find
  rw [filesOf_written]
  induction d with
  | nil => rfl
  | cons e t ih =>
    have he := hn e (by simp)
    simp only [List.map_cons, List.find?_cons, readName_fileOf e.beh e.name he]
    have hk : ((some (e.beh, e.name) : Option (Beh × Bytes)) == some (b, n)) = (e.key == mkKey b n) := by
      rw [Entry.key_eq]
      by_cases h : e.beh = b ∧ e.name = n
      · obtain ⟨h1, h2⟩ := h; subst h1; subst h2; simp
      · have h1 : ((some (e.beh, e.name) : Option (Beh × Bytes)) == some (b, n)) = false := by
          simp only [beq_eq_false_iff_ne, ne_eq, Option.some.injEq, Prod.mk.injEq]; exact h
        have h2 : (mkKey e.beh e.name == mkKey b n) = false := by
          simp only [beq_eq_false_iff_ne, ne_eq, mkKey_inj]; exact h
        rw [h1, h2]
    rw [hk]
    cases hkk : (e.key == mkKey b n) with
    | true => simp
    | false => simp only []; exact ih (fun x hx => hn x (by simp [hx]))

theorem filesOf_append (a b : Dir) : filesOf (a ++ b) = filesOf a ++ filesOf b := by
  simp [filesOf, List.filterMap_append]

theorem filesOf_procDirs (ps : List (Bytes × Delta)) : filesOf (procDirs ps) = [] := by
  unfold procDirs filesOf
  induction (List.filter (fun pd => !pd.2.isEmpty) ps).reverse with
  | nil => rfl
  | cons a t ih => simp at ih ⊢

theorem dirLook_launch (ps : List (Bytes × Delta)) (d : Delta) (hn : ∀ e ∈ d, e.name ≠ []) (b : Beh) (n : Bytes) :
    dirLook (procDirs ps ++ d.map Entry.fileOf) b n = d.find b n := by
  have := dirLook_written d hn b n
  unfold dirLook at this ⊢
  rw [filesOf_append, filesOf_procDirs, List.nil_append]
  exact this

theorem subDir_deltaNode (d : Dir) (k : Bytes) (dl : Delta) (h : d.get k = deltaNode dl) :
    subDir d k = dl.map Entry.fileOf := by
  unfold subDir
  rw [h]
  unfold deltaNode
  cases dl <;> rfl

theorem subDir_launchNode (d : Dir) (k : Bytes) (es : Dir) (h : d.get k = launchNode es) : subDir d k = es := by
  unfold subDir
  rw [h]
  unfold launchNode
  cases es <;> rfl

/-- the process directory of `p` inside a written `env.launch` -/
theorem subDir_procs (L : List (Bytes × Delta)) (F : Delta) (p : Bytes) :
    subDir (L.map (fun pd => (pd.1, Node.dir (pd.2.map Entry.fileOf))) ++ F.map Entry.fileOf) p =
      ((List.lookup p L).getD []).map Entry.fileOf := by
  induction L with
  | nil =>
    simp only [List.map_nil, List.nil_append, List.lookup, Option.getD_none, List.map_nil]
    unfold subDir Dir.get
    induction F with
    | nil => rfl
    | cons e t ih =>
      simp only [List.map_cons, List.lookup, Entry.fileOf]
      cases (p == e.name ++ Gen.writeSuffix e.beh) with
      | true => rfl
      | false => exact ih
  | cons kv t ih =>
    obtain ⟨k, x⟩ := kv
    unfold subDir Dir.get at ih ⊢
    simp only [List.map_cons, List.cons_append, List.lookup]
    cases (p == k) with
    | true => rfl
    | false => exact ih

/-- **Reading back.** For a layer directory whose env entries were left by the writer for an API-built environment,
`read_from_layer_dir` succeeds and the environment it returns applies — for every scope, starting environment and
variable — exactly as the spec's reading of the directory (`Spec.specVar`) says, implicit layer paths included. -/
theorem read_matches_disk (le0 : LayerEnv) (hok : le0.Ok) (lp : Bytes) (d : Dir) (hs : ShapedBy le0 d) :
    ∃ le', readFromLayerDir lp d = some le' ∧ le'.all = le0.all ∧ le'.build = le0.build ∧ le'.launch = le0.launch ∧
      le'.process = (nonEmptyProcs le0.process).foldl (fun a pd => procSet a pd.1 pd.2) [] ∧
      ∀ s env n, (le'.apply s env).get n = specVar lp d s env n := by
  obtain ⟨le', hr, ea, eb, el, _, eproc, _, _⟩ := read_written le0 hok lp d hs.env hs.build hs.launch
  refine ⟨le', hr, ea, eb, el, eproc, ?_⟩
  obtain ⟨hwf, hp⟩ := readFromLayerDir_spec lp d le' hr
  have hall : ∀ b n, le'.all.find b n = dirLook (scopeEntries d .all) b n := by
    intro b n
    rw [ea]; simp only [scopeEntries]
    rw [sEnv_eq, subDir_deltaNode d nEnv le0.all hs.env, dirLook_written _ hok.all.names]
  have hisdir : (fun sub => isDirNode (d.get (subName sub))) = fun s => Node.isDirFollow (d.get s.dirName) := by
    funext s; rw [isDirNode_eq, dirName_eq_subName]
  intro s env n
  rw [layerEnv_apply_get le' hwf]
  have hA : (fun b => le'.all.find b n) = fun b => dirLook (scopeEntries d .all) b n := by funext b; exact hall b n
  cases s with
  | all => simp only [specVar, hA]
  | build =>
    have hB : (fun b => le'.build.find b n) = fun b => dirLook (scopeEntries d .build) b n := by
      funext b
      rw [eb]; simp only [scopeEntries]
      rw [sEnvBuild_eq, subDir_deltaNode d nEnvBuild le0.build hs.build, dirLook_written _ hok.build.names]
    have hP : (fun b => le'.pathsBuild.find b n) =
        fun b => specPathsLook lp (fun s => Node.isDirFollow (d.get s.dirName)) .build b n := by
      funext b; exact hp .build b n
    simp only [specVar, hA, hB, hP, ruleVar_specPathsLook, hisdir]
  | launch =>
    have hB : (fun b => le'.launch.find b n) = fun b => dirLook (scopeEntries d .launch) b n := by
      funext b
      rw [el]; simp only [scopeEntries]
      rw [sEnvLaunch_eq, subDir_launchNode d nEnvLaunch _ hs.launch, dirLook_launch _ _ hok.launch.names]
    have hP : (fun b => le'.pathsLaunch.find b n) =
        fun b => specPathsLook lp (fun s => Node.isDirFollow (d.get s.dirName)) .launch b n := by
      funext b; exact hp .launch b n
    simp only [specVar, hA, hB, hP, ruleVar_specPathsLook, hisdir]
  | process p =>
    have hnd := nonEmptyProcs_nodup le0.process hok.proc.nodup
    have hB : (fun b => (le'.scoped (.process p)).find b n) = fun b => dirLook (scopeEntries d (.process p)) b n := by
      funext b
      simp only [LayerEnv.scoped, scopeEntries]
      rw [sEnvLaunch_eq, subDir_launchNode d nEnvLaunch _ hs.launch, procDirs_eq, subDir_procs, eproc,
        procGet_foldl_procSet _ hnd]
      cases hq : List.lookup p (nonEmptyProcs le0.process) with
      | none =>
        simp only [procGet, List.lookup, Option.getD_none, List.map_nil]
        rfl
      | some dl =>
        simp only [Option.getD_some]
        have hm := (lookup_some_iff_mem _ hnd p dl).mp hq
        have hmem := ((mem_nonEmptyProcs le0.process p dl).mp hm).1
        rw [dirLook_written _ (hok.process (p, dl) hmem).names]
    simp only [specVar, hA, hB]

end CnbVerif
