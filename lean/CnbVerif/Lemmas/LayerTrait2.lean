import CnbVerif.Lemmas.LayerTrait
/-!
C02 lemmas, part 2: what `write_layer` (trait API) leaves on disk — with `Replace` (create/update) and with `Keep`
(writing back the environment that was read) — and the spec's directory predicates for those results.
-/
namespace CnbVerif
open Spec

/-! ### directories compared as sets of entries -/
theorem entryIn_of_mem (eq : Node → Node → Bool) (hrefl : ∀ x, eq x x = true) (kv : Bytes × Node) (es : Dir)
    (h : kv ∈ es) : entryIn eq kv es = true := by
  unfold entryIn
  apply List.any_eq_true.mpr
  exact ⟨kv, h, by simp [hrefl]⟩

theorem sameEntriesBy_of_mem (eq : Node → Node → Bool) (hrefl : ∀ x, eq x x = true) (a b : Dir)
    (h : ∀ x, x ∈ a ↔ x ∈ b) : sameEntriesBy eq a b = true := by
  unfold sameEntriesBy
  simp only [Bool.and_eq_true, List.all_eq_true]
  exact ⟨fun kv hk => entryIn_of_mem eq hrefl kv b ((h kv).mp hk), fun kv hk => entryIn_of_mem eq hrefl kv a ((h kv).mpr hk)⟩

theorem sameNode1_refl (x : Node) : sameNode1 x x = true := by
  cases x with
  | dir a => exact sameEntriesBy_of_mem _ Node.beq_refl a a (fun _ => Iff.rfl)
  | file b => simp [sameNode1, Node.beq]
  | link k => simp [sameNode1, Node.beq]

theorem sameNode2_refl (x : Node) : sameNode2 x x = true := by
  cases x with
  | dir a => exact sameEntriesBy_of_mem _ sameNode1_refl a a (fun _ => Iff.rfl)
  | file b => simp [sameNode2, Node.beq]
  | link k => simp [sameNode2, Node.beq]

theorem sameOpt_refl (x : Option Node) : sameOpt x x = true := by
  cases x with
  | none => rfl
  | some n => exact sameNode2_refl n

theorem sameOpt_of_eq {x y : Option Node} (h : x = y) : sameOpt x y = true := by rw [h]; exact sameOpt_refl y

/-- two `env.launch` contents with the same files and the same process directories in any order -/
theorem sameOpt_launchNode (A A' F : Dir) (h : ∀ x, x ∈ A' ↔ x ∈ A) :
    sameOpt (launchNode (A' ++ F)) (launchNode (A ++ F)) = true := by
  have hm : ∀ x, x ∈ A' ++ F ↔ x ∈ A ++ F := by
    intro x; simp only [List.mem_append, h x]
  unfold launchNode
  by_cases he : (A' ++ F).isEmpty = true
  · have h1 : A' ++ F = [] := by simpa using he
    have h2 : A ++ F = [] := by
      cases hq : A ++ F with
      | nil => rfl
      | cons a t =>
        have : a ∈ A' ++ F := (hm a).mpr (by rw [hq]; simp)
        rw [h1] at this; cases this
    rw [h1, h2]; rfl
  · have he2 : (A ++ F).isEmpty = false := by
      cases hq : A ++ F with
      | nil =>
        exfalso; apply he
        cases hq' : A' ++ F with
        | nil => rfl
        | cons a t =>
          have : a ∈ A ++ F := (hm a).mp (by rw [hq']; simp)
          rw [hq] at this; cases this
      | cons a t => rfl
    have he1 : (A' ++ F).isEmpty = false := by simpa using he
    simp only [he1, he2]
    exact sameEntriesBy_of_mem _ sameNode1_refl _ _ hm

/-! ### the callback's own writes -/
theorem foldl_lastWrite (fs : List (Bytes × Node)) (k : Bytes) (init : Option Node) :
    fs.foldl (fun acc f => if f.1 = k then some f.2 else acc) init =
      match lastWrite fs k with
      | some x => some x
      | none => init := by
  unfold lastWrite
  induction fs generalizing init with
  | nil => rfl
  | cons f t ih =>
    simp only [List.foldl_cons]
    rw [ih, ih (if f.1 = k then some f.2 else none)]
    cases hl : List.foldl (fun acc f => if f.1 = k then some f.2 else acc) none t with
    | some x => rfl
    | none =>
      simp only []
      by_cases hf : f.1 = k <;> simp [hf]

theorem applyFiles_get (fs : List (Bytes × Node)) (d : Dir) (k : Bytes) :
    (applyFiles d fs).get k =
      match lastWrite fs k with
      | some x => some x
      | none => d.get k := by
  rw [← foldl_lastWrite]
  unfold applyFiles
  induction fs generalizing d with
  | nil => rfl
  | cons f t ih =>
    simp only [List.foldl_cons]
    rw [ih]
    congr 1
    by_cases hf : f.1 = k
    · subst hf; simp [Dir.get_set_eq]
    · simp only [hf, if_false]
      exact Dir.get_set_ne d f.1 k f.2 (fun e => hf e.symm)

theorem lastWrite_none (fs : List (Bytes × Node)) (k : Bytes) (h : ∀ f ∈ fs, f.1 ≠ k) : lastWrite fs k = none := by
  unfold lastWrite
  induction fs with
  | nil => rfl
  | cons f t ih =>
    simp only [List.foldl_cons, h f (by simp), if_false]
    exact ih (fun x hx => h x (by simp [hx]))

/-! ### invariant of a stored layer directory -/
def ExecdOk (d : Dir) : Prop := d.get nExecd = none ∨ ∃ es, d.get nExecd = some (.dir es)

/-- env entries as left by the writer for some API-built environment; `exec.d` absent or a directory -/
def Shaped (d : Dir) : Prop := (∃ le : LayerEnv, le.Ok ∧ ShapedBy le d) ∧ ExecdOk d

/-- reachable-state invariant of one layer for the trait API -/
def WFL2 (l : Layer) : Prop := WFL l ∧ ∀ d, l.dir = some d → Shaped d

theorem deltaNode_envOk (d : Dir) (k : Bytes) (dl : Delta) (h : d.get k = deltaNode dl) : EnvOk d k := by
  unfold EnvOk; rw [h]; unfold deltaNode; split
  · exact Or.inl rfl
  · exact Or.inr ⟨_, rfl⟩

theorem shapedBy_layerOk {le : LayerEnv} {d : Dir} (h : ShapedBy le d) : LayerOk d := by
  refine ⟨deltaNode_envOk _ _ _ h.env, deltaNode_envOk _ _ _ h.build, ?_⟩
  unfold EnvOk; rw [h.launch]; unfold launchNode; split
  · exact Or.inl rfl
  · exact Or.inr ⟨_, rfl⟩

theorem emptyEnv_ok : LayerEnv.empty.Ok :=
  ⟨⟨sorted_nil, (by intro e he; cases he)⟩, ⟨sorted_nil, (by intro e he; cases he)⟩, ⟨sorted_nil, (by intro e he; cases he)⟩,
    (by intro pd hpd; cases hpd), ⟨(by simp [LayerEnv.empty]), (by intro pd hpd; cases hpd)⟩⟩

theorem shapedBy_empty : ShapedBy LayerEnv.empty [] := ⟨rfl, rfl, rfl⟩

theorem shaped_nil : Shaped [] := ⟨⟨_, emptyEnv_ok, shapedBy_empty⟩, Or.inl rfl⟩

theorem nExecd_ne : nExecd ≠ nEnv ∧ nExecd ≠ nEnvBuild ∧ nExecd ≠ nEnvLaunch := by decide

/-- names the callback may not write to: the env directories and `exec.d` belong to libcnb -/
def FilesOk (fs : List (Bytes × Node)) : Prop :=
  ∀ f ∈ fs, f.1 ≠ nEnv ∧ f.1 ≠ nEnvBuild ∧ f.1 ≠ nEnvLaunch ∧ f.1 ≠ nExecd

theorem applyFiles_special (fs : List (Bytes × Node)) (hf : FilesOk fs) (d : Dir) :
    (applyFiles d fs).get nEnv = d.get nEnv ∧ (applyFiles d fs).get nEnvBuild = d.get nEnvBuild ∧
    (applyFiles d fs).get nEnvLaunch = d.get nEnvLaunch ∧ (applyFiles d fs).get nExecd = d.get nExecd := by
  refine ⟨?_, ?_, ?_, ?_⟩ <;> rw [applyFiles_get, lastWrite_none]
  · exact fun f h => (hf f h).1
  · exact fun f h => (hf f h).2.1
  · exact fun f h => (hf f h).2.2.1
  · exact fun f h => (hf f h).2.2.2

/-! ### exec.d -/
theorem allSome_progs (ps : List (Bytes × Option Bytes)) :
    allSome (ps.map (fun p => p.2.map (fun b => (p.1, Node.file b)))) =
      (progsOf ps).map (fun l => l.map (fun p => (p.1, Node.file p.2))) := by
  induction ps with
  | nil => rfl
  | cons p t ih =>
    obtain ⟨k, ob⟩ := p
    cases ob with
    | none => rfl
    | some b =>
      simp only [List.map_cons, Option.map_some, allSome, progsOf, ih]
      cases progsOf t <;> rfl

theorem progsOf_isEmpty (ps : List (Bytes × Option Bytes)) (progs : List (Bytes × Bytes)) (h : progsOf ps = some progs) :
    progs.isEmpty = ps.isEmpty := by
  cases ps with
  | nil => simp [progsOf] at h; subst h; rfl
  | cons p t =>
    obtain ⟨k, ob⟩ := p
    cases ob with
    | none => simp [progsOf] at h
    | some b =>
      simp only [progsOf, Option.map_eq_some_iff] at h
      obtain ⟨x, _, rfl⟩ := h
      rfl

theorem progsOf_none_nonempty (ps : List (Bytes × Option Bytes)) (h : progsOf ps = none) : ps.isEmpty = false := by
  cases ps with
  | nil => simp [progsOf] at h
  | cons p t => rfl

/-- `replace_layer_exec_d_programs` on a layer directory without `exec.d` -/
theorem replaceExecd_absent (l : Layer) (d : Dir) (hd : l.dir = some d) (hg : d.get nExecd = none)
    (ps : List (Bytes × Option Bytes)) :
    ∃ d', (∀ k, k ≠ nExecd → d'.get k = d.get k) ∧ ExecdOk d' ∧
      match progsOf ps with
      | some progs => replaceExecd l ps = ({ l with dir := some d' }, .ok) ∧ d'.get nExecd = execdNode progs
      | none => replaceExecd l ps = ({ l with dir := some d' }, .err .missingExecd) := by
  unfold replaceExecd
  rw [hd]
  simp only [hg]
  cases hp : progsOf ps with
  | some progs =>
    by_cases he : ps.isEmpty = true
    · refine ⟨d, fun _ _ => rfl, Or.inl hg, ?_⟩
      simp only [he, if_true, true_and]
      rw [hg]; unfold execdNode; rw [progsOf_isEmpty ps progs hp, he]; rfl
    · have he' : ps.isEmpty = false := by simpa using he
      have hpe : progs.isEmpty = false := by rw [progsOf_isEmpty ps progs hp, he']
      refine ⟨d.set nExecd (.dir (progs.map (fun p => (p.1, Node.file p.2)))),
        fun k hk => Dir.get_set_ne _ _ _ _ hk, Or.inr ⟨_, Dir.get_set_eq _ _ _⟩, ?_⟩
      simp only [he', allSome_progs, hp, Option.map_some, Bool.false_eq_true, if_false, true_and]
      rw [Dir.get_set_eq]; unfold execdNode; simp [hpe]
  | none =>
    have he' : ps.isEmpty = false := progsOf_none_nonempty ps hp
    refine ⟨d.set nExecd (.dir []), fun k hk => Dir.get_set_ne _ _ _ _ hk, Or.inr ⟨_, Dir.get_set_eq _ _ _⟩, ?_⟩
    simp only [he', allSome_progs, hp, Option.map_none, Bool.false_eq_true, if_false]

/-- an existing `exec.d` directory is removed first -/
theorem replaceExecd_erase (l : Layer) (d : Dir) (hd : l.dir = some d) (es : Dir) (hg : d.get nExecd = some (.dir es))
    (ps : List (Bytes × Option Bytes)) :
    replaceExecd l ps = replaceExecd { l with dir := some (d.erase nExecd) } ps := by
  unfold replaceExecd
  rw [hd]
  simp only [hg, Dir.get_erase_eq]

/-- `replace_layer_exec_d_programs` on an existing layer directory whose `exec.d` is absent or a directory -/
theorem replaceExecd_spec (l : Layer) (d : Dir) (hd : l.dir = some d) (hx : ExecdOk d) (ps : List (Bytes × Option Bytes)) :
    ∃ d', (∀ k, k ≠ nExecd → d'.get k = d.get k) ∧ ExecdOk d' ∧
      match progsOf ps with
      | some progs => replaceExecd l ps = ({ l with dir := some d' }, .ok) ∧ d'.get nExecd = execdNode progs
      | none => replaceExecd l ps = ({ l with dir := some d' }, .err .missingExecd) := by
  rcases hx with h | ⟨es, h⟩
  · exact replaceExecd_absent l d hd h ps
  · obtain ⟨d', hf, hx', hm⟩ := replaceExecd_absent { l with dir := some (d.erase nExecd) } (d.erase nExecd) rfl
      (Dir.get_erase_eq d nExecd) ps
    refine ⟨d', fun k hk => by rw [hf k hk]; exact Dir.get_erase_ne d nExecd k hk, hx', ?_⟩
    rw [replaceExecd_erase l d hd es h ps]
    exact hm

/-! ### writing the environment -/
theorem write_env_spec (le : LayerEnv) (hp : ProcOk le) (d0 : Dir) (hl : LayerOk d0) :
    ∃ d2, writeToLayerDir le d0 = some d2 ∧ ShapedBy le d2 ∧
      ∀ k, k ≠ nEnv → k ≠ nEnvBuild → k ≠ nEnvLaunch → d2.get k = d0.get k := by
  obtain ⟨d2, h, g1, g2, g3, f⟩ := writeToLayerDir_spec le d0 hl hp
  exact ⟨d2, h, ⟨g1, g2, g3⟩, f⟩

theorem execdOk_of_frame {d d' : Dir} (h : d'.get nExecd = d.get nExecd) (hx : ExecdOk d) : ExecdOk d' := by
  unfold ExecdOk at *; rw [h]; exact hx

/-- `write_layer(.., ExecDPrograms::Keep, Sboms::Keep)` -/
theorem tWriteLayer_keep (l : Layer) (d0 : Dir) (hd : l.dir = some d0) (hl : LayerOk d0) (le : LayerEnv) (hp : ProcOk le)
    (ty : Option LTypes) (m : Option MetaTbl) :
    ∃ d2, tWriteLayer l le ty m none none = (⟨some d2, some (.doc ty m), l.sboms⟩, none) ∧ ShapedBy le d2 ∧
      ∀ k, k ≠ nEnv → k ≠ nEnvBuild → k ≠ nEnvLaunch → d2.get k = d0.get k := by
  obtain ⟨d2, hw, hs, hf⟩ := write_env_spec le hp d0 hl
  refine ⟨d2, ?_, hs, hf⟩
  simp [tWriteLayer, hd, hw]

/-- `write_layer(.., ExecDPrograms::Replace(ps), Sboms::Replace(sb))` -/
theorem tWriteLayer_replace (l : Layer) (d0 : Dir) (hd : l.dir = some d0) (hl : LayerOk d0) (hx : ExecdOk d0)
    (le : LayerEnv) (hp : ProcOk le) (ty : Option LTypes) (m : Option MetaTbl) (ps : List (Bytes × Option Bytes))
    (sb : List (Nat × Bytes)) :
    ∃ d4, ShapedBy le d4 ∧ ExecdOk d4 ∧
      (∀ k, k ≠ nEnv → k ≠ nEnvBuild → k ≠ nEnvLaunch → k ≠ nExecd → d4.get k = d0.get k) ∧
      match progsOf ps with
      | some progs => tWriteLayer l le ty m (some ps) (some sb) = (⟨some d4, some (.doc ty m), sb⟩, none) ∧
          d4.get nExecd = execdNode progs
      | none => tWriteLayer l le ty m (some ps) (some sb) = (⟨some d4, some (.doc ty m), sb⟩, some .missingExecd) := by
  obtain ⟨d2, hw, hs, hf⟩ := write_env_spec le hp d0 hl
  have hx2 : ExecdOk d2 := execdOk_of_frame (hf _ nExecd_ne.1 nExecd_ne.2.1 nExecd_ne.2.2) hx
  obtain ⟨d4, hf4, hx4, hm⟩ := replaceExecd_spec ⟨some d2, some (.doc ty m), sb⟩ d2 rfl hx2 ps
  have hs4 : ShapedBy le d4 :=
    ⟨by rw [hf4 _ nExecd_ne.1.symm]; exact hs.env, by rw [hf4 _ nExecd_ne.2.1.symm]; exact hs.build,
      by rw [hf4 _ nExecd_ne.2.2.symm]; exact hs.launch⟩
  refine ⟨d4, hs4, hx4, fun k h1 h2 h3 h4 => by rw [hf4 k h4]; exact hf k h1 h2 h3, ?_⟩
  cases hp' : progsOf ps with
  | some progs =>
    rw [hp'] at hm
    simp only [] at hm ⊢
    refine ⟨?_, hm.2⟩
    simp [tWriteLayer, hd, hw, replaceSboms, hm.1]
  | none =>
    rw [hp'] at hm
    simp only [] at hm ⊢
    simp [tWriteLayer, hd, hw, replaceSboms, hm]

/-! ### writing back what was read (keep, metadata replacement) -/

/-- the environment `read_from_layer_dir` returns for a writer-shaped directory is again one the writer handles, with
the same `all`/`build`/`launch` entries and the same non-empty process deltas -/
theorem reread_env_ok (le0 : LayerEnv) (hok : le0.Ok) (le1 : LayerEnv) (ea : le1.all = le0.all) (eb : le1.build = le0.build)
    (el : le1.launch = le0.launch)
    (eproc : le1.process = (nonEmptyProcs le0.process).foldl (fun a pd => procSet a pd.1 pd.2) []) :
    le1.Ok ∧ ∀ x, x ∈ procDirs le1.process ↔ x ∈ procDirs le0.process := by
  have hnd := nonEmptyProcs_nodup le0.process hok.proc.nodup
  have hproc1 : le1.process = nonEmptyProcs le0.process := by
    rw [eproc, foldl_procSet_nodup _ [] (by simpa using hnd)]; simp
  have hmem : ∀ pd ∈ le1.process, pd ∈ le0.process := by
    intro pd hpd; rw [hproc1] at hpd
    exact ((mem_nonEmptyProcs le0.process pd.1 pd.2).mp hpd).1
  refine ⟨⟨by rw [ea]; exact hok.all, by rw [eb]; exact hok.build, by rw [el]; exact hok.launch,
    fun pd hpd => hok.process pd (hmem pd hpd), ⟨by rw [hproc1]; exact hnd, ?_⟩⟩, ?_⟩
  · intro pd hpd; rw [el]; exact hok.proc.free pd (hmem pd hpd)
  · intro x
    rw [hproc1]
    simp only [procDirs, nonEmptyProcs, List.mem_map, List.mem_reverse, List.mem_filter]
    constructor
    · rintro ⟨pd, ⟨⟨hm, _⟩, hne⟩, rfl⟩; exact ⟨pd, ⟨hm, hne⟩, rfl⟩
    · rintro ⟨pd, ⟨hm, hne⟩, rfl⟩; exact ⟨pd, ⟨⟨hm, hne⟩, hne⟩, rfl⟩

/-- "same environment directories": what keep and a metadata replacement preserve -/
structure EnvSame (le1 le0 : LayerEnv) : Prop where
  all : le1.all = le0.all
  build : le1.build = le0.build
  launch : le1.launch = le0.launch
  procs : ∀ x, x ∈ procDirs le1.process ↔ x ∈ procDirs le0.process

theorem EnvSame.refl (le : LayerEnv) : EnvSame le le := ⟨rfl, rfl, rfl, fun _ => Iff.rfl⟩

theorem EnvSame.trans {a b c : LayerEnv} (h1 : EnvSame a b) (h2 : EnvSame b c) : EnvSame a c :=
  ⟨h1.all.trans h2.all, h1.build.trans h2.build, h1.launch.trans h2.launch, fun x => (h1.procs x).trans (h2.procs x)⟩

/-- every entry of two layer directories shaped by "the same" environments, equal elsewhere, is the same -/
theorem sameOpt_envSame (d d' : Dir) (le le' : LayerEnv) (hs : ShapedBy le d) (hs' : ShapedBy le' d') (he : EnvSame le' le)
    (hf : ∀ k, k ≠ nEnv → k ≠ nEnvBuild → k ≠ nEnvLaunch → d'.get k = d.get k) (k : Bytes) :
    sameOpt (d'.get k) (d.get k) = true := by
  by_cases h1 : k = nEnv
  · subst h1; rw [hs.env, hs'.env, he.all]; exact sameOpt_refl _
  by_cases h2 : k = nEnvBuild
  · subst h2; rw [hs.build, hs'.build, he.build]; exact sameOpt_refl _
  by_cases h3 : k = nEnvLaunch
  · subst h3; rw [hs.launch, hs'.launch, he.launch]; exact sameOpt_launchNode _ _ _ he.procs
  · exact sameOpt_of_eq (hf k h1 h2 h3)

theorem keepDirOk_of (d d' : Dir) (h : ∀ k, sameOpt (d'.get k) (d.get k) = true) : keepDirOk d d' = true := by
  unfold keepDirOk
  exact List.all_eq_true.mpr (fun k _ => h k)

/-! ### the layout of a returned environment -/
theorem envDirNode_eq (d : Delta) : envDirNode d = deltaNode d := by
  unfold envDirNode deltaNode; rw [envFile_map]

theorem launchDirNode_same (le : LayerEnv) :
    sameOpt (launchNode (procDirs le.process ++ le.launch.map Entry.fileOf)) (launchDirNode le) = true := by
  have : launchDirNode le =
      launchNode ((le.process.filter (fun pd => !pd.2.isEmpty)).map (fun pd => (pd.1, Node.dir (pd.2.map Entry.fileOf))) ++
        le.launch.map Entry.fileOf) := by
    unfold launchDirNode launchNode; simp only [envFile_map]
  rw [this]
  apply sameOpt_launchNode
  intro x
  simp [procDirs]

theorem persistDirOk_of (base d4 : Dir) (r : LResult) (progs : List (Bytes × Bytes))
    (hs : ShapedBy (r.env.getD {}) d4) (hx : d4.get nExecd = execdNode progs)
    (hf : ∀ k, k ≠ nEnv → k ≠ nEnvBuild → k ≠ nEnvLaunch → k ≠ nExecd → d4.get k = (applyFiles base r.files).get k) :
    persistDirOk base d4 r progs = true := by
  unfold persistDirOk
  apply List.all_eq_true.mpr
  intro k _
  simp only [sEnv_eq, sEnvBuild_eq, sEnvLaunch_eq, sExecd_eq]
  by_cases h1 : k = nEnv
  · subst h1; simp only [if_true]; rw [hs.env, envDirNode_eq]; exact sameOpt_refl _
  simp only [h1, if_false]
  by_cases h2 : k = nEnvBuild
  · subst h2; simp only [if_true]; rw [hs.build, envDirNode_eq]; exact sameOpt_refl _
  simp only [h2, if_false]
  by_cases h3 : k = nEnvLaunch
  · subst h3; simp only [if_true]; rw [hs.launch]; exact launchDirNode_same _
  simp only [h3, if_false]
  by_cases h4 : k = nExecd
  · subst h4; simp only [if_true]; rw [hx]; exact sameOpt_refl _
  simp only [h4, if_false]
  rw [hf k h1 h2 h3 h4, applyFiles_get]
  cases lastWrite r.files k with
  | some x => exact sameOpt_refl _
  | none => exact sameOpt_refl _

theorem readBackOk_of (lp : Bytes) (d : Dir) (le : LayerEnv) (h : ∀ s env n, (le.apply s env).get n = specVar lp d s env n)
    (probes : List (Scope × Env)) :
    readBackOk lp d (probes.map (fun p => (p.1, p.2, le.apply p.1 p.2))) = true := by
  unfold readBackOk
  apply List.all_eq_true.mpr
  intro x hx
  obtain ⟨p, _, rfl⟩ := List.mem_map.mp hx
  apply List.all_eq_true.mpr
  intro n _
  simp only [beq_iff_eq]
  exact h p.1 p.2 n

end CnbVerif
