import CnbVerif.Model.Pipes
import CnbVerif.Spec.Streaming
/-! Helper lemmas for C19, model B (child script, two pipes, two copier threads). -/
namespace CnbVerif.Pipes
open CnbVerif MW Spec.Streaming

@[simp] theorem chan_setChan_same (s : PSt) (st : Bool) (c : Chan) : (s.setChan st c).chan st = c := by
  cases st <;> simp [PSt.chan, PSt.setChan]

theorem chan_setChan_ne (s : PSt) {st st' : Bool} (c : Chan) (h : st ≠ st') : (s.setChan st' c).chan st = s.chan st := by
  cases st <;> cases st' <;> simp_all [PSt.chan, PSt.setChan]

@[simp] theorem script_setChan (s : PSt) (st : Bool) (c : Chan) : (s.setChan st c).script = s.script := by
  cases st <;> simp [PSt.setChan]

@[simp] theorem chan_withScript (s : PSt) (st : Bool) (sc : List (Bool × Bytes)) :
    ({ s with script := sc } : PSt).chan st = s.chan st := by
  cases st <;> simp [PSt.chan]

theorem written_cons_same (st : Bool) (bytes : Bytes) (rest : List (Bool × Bytes)) :
    written st ((st, bytes) :: rest) = bytes ++ written st rest := by
  simp [written]

theorem written_cons_ne {st st' : Bool} (bytes : Bytes) (rest : List (Bool × Bytes)) (h : st ≠ st') :
    written st ((st', bytes) :: rest) = written st rest := by
  have : (st' == st) = false := by cases st <;> cases st' <;> simp_all
  simp [written, this]

theorem written_cons_nil (st st' : Bool) (rest : List (Bool × Bytes)) :
    written st ((st', []) :: rest) = written st rest := by
  by_cases h : st = st'
  · subst h; simp [written_cons_same]
  · exact written_cons_ne [] rest h

theorem written_eq_streamBytes (st : Bool) (script : List (Bool × Bytes)) : written st script = streamBytes st script := by
  induction script with
  | nil => simp [written, streamBytes]
  | cons i rest ih =>
    obtain ⟨st', bytes⟩ := i
    by_cases h : st' = st
    · subst h; simp [written_cons_same, streamBytes, ih]
    · have h' : st ≠ st' := fun e => h e.symm
      simp [written_cons_ne bytes rest h', streamBytes, h, ih]

/-- what holds in every reachable state -/
structure Inv (script0 : List (Bool × Bytes)) (s : PSt) : Prop where
  /-- nothing is lost, duplicated or reordered: delivered ++ in flight ++ still to be written = everything -/
  acct : ∀ st, (s.chan st).tee.a ++ (s.chan st).pipe ++ written st s.script = written st script0
  /-- both targets of the tee hold the same bytes -/
  same : ∀ st, (s.chan st).tee.b = (s.chan st).tee.a
  /-- a copier finishes only at EOF: pipe empty and the child gone -/
  eof : ∀ st, (s.chan st).eof = true → s.script = [] ∧ (s.chan st).pipe = []

theorem inv_init (script : List (Bool × Bytes)) : Inv script (init script) := by
  constructor
  · intro st; cases st <;> simp [init, PSt.chan, Chan.init, Tee.init]
  · intro st; cases st <;> simp [init, PSt.chan, Chan.init, Tee.init]
  · intro st; cases st <;> simp [init, PSt.chan, Chan.init]

theorem inv_childStep {script0 : List (Bool × Bytes)} {cap : Nat} {s s' : PSt} (h : Inv script0 s)
    (hs : childStep cap s = some s') : Inv script0 s' := by
  obtain ⟨hacct, hsame, heof⟩ := h
  unfold childStep at hs
  split at hs
  · simp at hs
  · rename_i st0 rest hscr
    simp only [Option.some.injEq] at hs
    subst hs
    refine ⟨?_, ?_, ?_⟩
    · intro st
      have := hacct st
      rw [hscr, written_cons_nil] at this
      simpa using this
    · intro st; simpa using hsame st
    · intro st he
      have := heof st (by simpa using he)
      rw [hscr] at this
      simp at this
  · rename_i st0 b bs rest hscr
    split at hs
    · simp only [Option.some.injEq] at hs
      subst hs
      refine ⟨?_, ?_, ?_⟩
      · intro st
        have := hacct st
        rw [hscr] at this
        by_cases hst : st = st0
        · subst hst
          rw [written_cons_same] at this
          simp [written_cons_same, ← this, List.append_assoc]
        · rw [written_cons_ne _ _ hst] at this
          simp [chan_setChan_ne _ _ hst, written_cons_ne _ _ hst, this]
      · intro st
        by_cases hst : st = st0
        · subst hst; simpa using hsame st
        · simpa [chan_setChan_ne _ _ hst] using hsame st
      · intro st he
        by_cases hst : st = st0
        · subst hst
          have := heof st (by simpa using he)
          rw [hscr] at this
          simp at this
        · have := heof st (by simpa [chan_setChan_ne _ _ hst] using he)
          rw [hscr] at this
          simp at this
    · simp at hs

theorem inv_copyStep {script0 : List (Bool × Bytes)} {st0 : Bool} {s s' : PSt} (h : Inv script0 s)
    (hs : copyStep st0 s = some s') : Inv script0 s' := by
  obtain ⟨hacct, hsame, heof⟩ := h
  unfold copyStep at hs
  simp only at hs
  split at hs
  · simp at hs
  · rename_i hne
    split at hs
    · rename_i b rest hp
      simp only [Option.some.injEq] at hs
      subst hs
      refine ⟨?_, ?_, ?_⟩
      · intro st
        by_cases hst : st = st0
        · subst hst
          have := hacct st
          rw [hp] at this
          simp [teeWrite, ← this, List.append_assoc]
        · simpa [chan_setChan_ne _ _ hst] using hacct st
      · intro st
        by_cases hst : st = st0
        · subst hst
          simp [teeWrite, hsame st]
        · simpa [chan_setChan_ne _ _ hst] using hsame st
      · intro st he
        by_cases hst : st = st0
        · subst hst
          simp at he
          exact absurd he hne
        · have := heof st (by simpa [chan_setChan_ne _ _ hst] using he)
          simpa [chan_setChan_ne _ _ hst] using this
    · rename_i hp
      split at hs
      · rename_i hemp
        simp only [Option.some.injEq] at hs
        subst hs
        refine ⟨?_, ?_, ?_⟩
        · intro st
          by_cases hst : st = st0
          · subst hst; simpa using hacct st
          · simpa [chan_setChan_ne _ _ hst] using hacct st
        · intro st
          by_cases hst : st = st0
          · subst hst; simpa using hsame st
          · simpa [chan_setChan_ne _ _ hst] using hsame st
        · intro st he
          by_cases hst : st = st0
          · subst hst
            simp only [chan_setChan_same, script_setChan]
            exact ⟨by simpa using hemp, hp⟩
          · have := heof st (by simpa [chan_setChan_ne _ _ hst] using he)
            simpa [chan_setChan_ne _ _ hst] using this
      · simp at hs

theorem mem_succs {mode : Mode} {cap : Nat} {s s' : PSt} (h : s' ∈ succs mode cap s) :
    childStep cap s = some s' ∨ copyStep false s = some s' ∨ copyStep true s = some s' := by
  unfold succs at h
  simp only [List.mem_append, Option.mem_toList] at h
  rcases h with (h | h) | h
  · exact Or.inl h
  · exact Or.inr (Or.inl h)
  · split at h
    · exact Or.inr (Or.inr (by simpa using h))
    · simp at h

theorem inv_succs {script0 : List (Bool × Bytes)} {mode : Mode} {cap : Nat} {s s' : PSt} (h : Inv script0 s)
    (hs : s' ∈ succs mode cap s) : Inv script0 s' := by
  rcases mem_succs hs with h1 | h1 | h1
  · exact inv_childStep h h1
  · exact inv_copyStep h h1
  · exact inv_copyStep h h1

theorem inv_reachable {script0 : List (Bool × Bytes)} {mode : Mode} {cap : Nat} {s : PSt}
    (h : Reachable mode cap (init script0) s) : Inv script0 s := by
  induction h with
  | refl => exact inv_init script0
  | step _ hs ih => exact inv_succs ih hs

/-! ### progress -/

theorem copyStep_isSome_of_pipe {st : Bool} {s : PSt} (he : (s.chan st).eof = false) (hp : (s.chan st).pipe ≠ []) :
    (copyStep st s).isSome = true := by
  unfold copyStep
  simp only [he]
  cases hpp : (s.chan st).pipe with
  | nil => exact absurd hpp hp
  | cons b rest => simp

theorem copyStep_isSome_of_closed {st : Bool} {s : PSt} (he : (s.chan st).eof = false) (hs : s.script = []) :
    (copyStep st s).isSome = true := by
  unfold copyStep
  simp only [he]
  cases hpp : (s.chan st).pipe with
  | nil => simp [hs]
  | cons b rest => simp

theorem succs_parallel_ne_nil_of_copy {cap : Nat} {s : PSt} (st : Bool) (h : (copyStep st s).isSome = true) :
    succs .parallel cap s ≠ [] := by
  obtain ⟨s', hs'⟩ := Option.isSome_iff_exists.mp h
  unfold succs stderrCopierRuns
  cases st
  · simp [hs']
  · simp [hs']

theorem progress_of_inv {script0 : List (Bool × Bytes)} {cap : Nat} {s : PSt} (hcap : 0 < cap) (h : Inv script0 s)
    (hnf : final s = false) : succs .parallel cap s ≠ [] := by
  cases hscr : s.script with
  | nil =>
    -- the child is gone: a copier that has not finished can read (data or EOF)
    have : s.o.eof = false ∨ s.e.eof = false := by
      unfold final at hnf
      simp [hscr] at hnf
      cases ho : s.o.eof <;> cases he : s.e.eof <;> simp_all
    rcases this with ho | he
    · exact succs_parallel_ne_nil_of_copy false (copyStep_isSome_of_closed (by simpa [PSt.chan] using ho) hscr)
    · exact succs_parallel_ne_nil_of_copy true (copyStep_isSome_of_closed (by simpa [PSt.chan] using he) hscr)
  | cons i rest =>
    obtain ⟨st, bytes⟩ := i
    cases bytes with
    | nil =>
      unfold succs childStep
      simp [hscr]
    | cons b bs =>
      by_cases hroom : (s.chan st).pipe.length < cap
      · unfold succs childStep
        simp [hscr, hroom]
      · -- the child is blocked on a full pipe: its copier is alive (EOF needs the child gone) and has data to read
        have heof : (s.chan st).eof = false := by
          cases he : (s.chan st).eof with
          | false => rfl
          | true => have := (h.eof st he).1; rw [hscr] at this; simp at this
        have hp : (s.chan st).pipe ≠ [] := by
          intro hnil
          rw [hnil] at hroom
          simp at hroom
          omega
        exact succs_parallel_ne_nil_of_copy st (copyStep_isSome_of_pipe heof hp)

/-! ### termination -/

theorem measure_childStep {cap : Nat} {s s' : PSt} (hs : childStep cap s = some s') : measure s' < measure s := by
  unfold childStep at hs
  split at hs
  · simp at hs
  · rename_i st0 rest hscr
    simp only [Option.some.injEq] at hs
    subst hs
    simp only [measure, hscr, scriptCost]
    omega
  · rename_i st0 b bs rest hscr
    split at hs
    · simp only [Option.some.injEq] at hs
      subst hs
      cases st0 <;> simp only [measure, hscr, scriptCost, PSt.setChan, PSt.chan, List.length_cons, List.length_append,
        List.length_nil, Bool.false_eq_true, if_false, if_true] <;> omega
    · simp at hs

theorem measure_copyStep {st0 : Bool} {s s' : PSt} (hs : copyStep st0 s = some s') : measure s' < measure s := by
  unfold copyStep at hs
  simp only at hs
  split at hs
  · simp at hs
  · rename_i hne
    split at hs
    · rename_i b rest hp
      simp only [Option.some.injEq] at hs
      subst hs
      cases st0 <;> simp only [PSt.chan, Bool.false_eq_true, if_false, if_true] at hp hne <;>
        simp only [measure, PSt.setChan, PSt.chan, Bool.false_eq_true, if_false, if_true, hp, List.length_cons] <;> omega
    · rename_i hp
      split at hs
      · simp only [Option.some.injEq] at hs
        subst hs
        cases st0 <;> simp only [PSt.chan, Bool.false_eq_true, if_false, if_true] at hp hne <;>
          simp only [measure, PSt.setChan, PSt.chan, Bool.false_eq_true, if_false, if_true, hne] <;> omega
      · simp at hs

theorem measure_succs {mode : Mode} {cap : Nat} {s s' : PSt} (hs : s' ∈ succs mode cap s) : measure s' < measure s := by
  rcases mem_succs hs with h1 | h1 | h1
  · exact measure_childStep h1
  · exact measure_copyStep h1
  · exact measure_copyStep h1

theorem exec_length {mode : Mode} {cap : Nat} {l : List PSt} (h : Exec mode cap l) :
    ∀ s rest, l = s :: rest → rest.length ≤ measure s := by
  induction h with
  | one s0 => intro s rest e; cases e; simp
  | cons hstep _ ih =>
    intro s rest e
    cases e
    have := ih _ _ rfl
    have := measure_succs hstep
    simp only [List.length_cons]
    omega

/-! ### the sequential variant can get stuck -/

theorem final_finalOf (script : List (Bool × Bytes)) : final (finalOf script) = true := by
  simp [final, finalOf]

end CnbVerif.Pipes
