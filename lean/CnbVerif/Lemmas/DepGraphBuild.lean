import CnbVerif.Lemmas.DepGraph
import CnbVerif.Lemmas.Topo
/-!
C13 helper lemmas, second part: `createGraph` resolves every declared dependency (or fails), root lookup, the
fold over the roots, "everything emitted is reachable", and the assembled statement about `getDependencies`.
-/
namespace CnbVerif.DepGraph
open CnbVerif.Spec.Topo

/-! ### `findIdx` -/

theorem findIdx_none_iff (ids : List String) (x : String) : findIdx ids x = none ↔ x ∉ ids := by
  induction ids with
  | nil => simp [findIdx]
  | cons y ys ih =>
    unfold findIdx
    by_cases h : y = x
    · simp [h]
    · simp only [h, if_false, Option.map_eq_none_iff, ih, List.mem_cons]
      constructor
      · intro hn hc; rcases hc with hc | hc
        · exact h hc.symm
        · exact hn hc
      · intro hn hc; exact hn (Or.inr hc)

theorem findIdx_some {ids : List String} {x : String} {i : Nat} (h : findIdx ids x = some i) :
    i < ids.length ∧ ids[i]? = some x ∧ ∀ j, j < i → ids[j]? ≠ some x := by
  induction ids generalizing i with
  | nil => simp [findIdx] at h
  | cons y ys ih =>
    unfold findIdx at h
    by_cases hy : y = x
    · simp only [hy, if_true, Option.some.injEq] at h
      subst h
      exact ⟨by simp, by simp [hy], fun j hj => by omega⟩
    · simp only [hy, if_false, Option.map_eq_some_iff] at h
      obtain ⟨k, hk, rfl⟩ := h
      obtain ⟨h1, h2, h3⟩ := ih hk
      refine ⟨by simp; omega, by simpa using h2, ?_⟩
      intro j hj
      cases j with
      | zero => simp [hy]
      | succ j => simpa using h3 j (by omega)

/-- with pairwise distinct ids the lookup is the inverse of indexing -/
theorem findIdx_of_nodup {ids : List String} (hnd : ids.Nodup) {i : Nat} {x : String} (h : ids[i]? = some x) :
    findIdx ids x = some i := by
  induction ids generalizing i with
  | nil => simp at h
  | cons y ys ih =>
    have hnd' := List.nodup_cons.1 hnd
    unfold findIdx
    cases i with
    | zero =>
      have : y = x := by simpa using h
      simp [this]
    | succ i =>
      have hx : ys[i]? = some x := by simpa using h
      have hmem : x ∈ ys := List.mem_of_getElem? hx
      have hy : y ≠ x := fun e => hnd'.1 (e ▸ hmem)
      simp [hy, ih hnd'.2 hx]

/-! ### `createGraph` -/

/-- `row` are the resolved targets of the declared dependencies `ds`: same length, same order, each target is
the first node carrying the dependency's id -/
def Resolves (ids : List String) (ds : List String) (row : List Nat) : Prop :=
  Forall₂ (fun d i => findIdx ids d = some i) ds row

theorem resolveDeps_ok {ids ds row} (h : resolveDeps ids ds = .ok row) : Resolves ids ds row := by
  induction ds generalizing row with
  | nil =>
    simp only [resolveDeps, Except.ok.injEq] at h
    subst h; exact .nil
  | cons d ds ih =>
    unfold resolveDeps at h
    split at h
    · cases h
    · rename_i i hi
      split at h
      · cases h
      · rename_i r hr
        simp only [Except.ok.injEq] at h
        subst h
        exact .cons hi (ih hr)

theorem resolveDeps_error {ids ds e} (h : resolveDeps ids ds = .error e) : e ∈ ds ∧ e ∉ ids := by
  induction ds with
  | nil => simp [resolveDeps] at h
  | cons d ds ih =>
    unfold resolveDeps at h
    split at h
    · rename_i hn
      simp only [Except.error.injEq] at h
      subst h
      exact ⟨by simp, (findIdx_none_iff ids d).1 hn⟩
    · split at h
      · rename_i e' he
        simp only [Except.error.injEq] at h
        subst h
        exact ⟨List.mem_cons_of_mem _ (ih he).1, (ih he).2⟩
      · cases h

theorem resolveDeps_ok_of_known {ids ds} (h : ∀ d ∈ ds, d ∈ ids) : ∃ row, resolveDeps ids ds = .ok row := by
  cases hr : resolveDeps ids ds with
  | ok row => exact ⟨row, rfl⟩
  | error e => have := resolveDeps_error hr; exact absurd (h e this.1) this.2

theorem resolveAll_ok {ids nodes adj} (h : resolveAll ids nodes = .ok adj) :
    Forall₂ (fun (nd : Node) row => Resolves ids nd.deps row) nodes adj := by
  induction nodes generalizing adj with
  | nil =>
    simp only [resolveAll, Except.ok.injEq] at h
    subst h; exact .nil
  | cons nd nodes ih =>
    unfold resolveAll at h
    split at h
    · cases h
    · rename_i r hr
      split at h
      · cases h
      · rename_i rs hrs
        simp only [Except.ok.injEq] at h
        subst h
        exact .cons (resolveDeps_ok hr) (ih hrs)

theorem resolveAll_error {ids nodes e} (h : resolveAll ids nodes = .error e) :
    ∃ nd ∈ nodes, e ∈ nd.deps ∧ e ∉ ids := by
  induction nodes with
  | nil => simp [resolveAll] at h
  | cons nd nodes ih =>
    unfold resolveAll at h
    split at h
    · rename_i e' he
      simp only [Except.error.injEq] at h
      subst h
      exact ⟨nd, by simp, resolveDeps_error he⟩
    · split at h
      · rename_i e' he
        simp only [Except.error.injEq] at h
        subst h
        obtain ⟨nd', h1, h2⟩ := ih he
        exact ⟨nd', List.mem_cons_of_mem _ h1, h2⟩
      · cases h

theorem resolveAll_ok_of_known {ids nodes} (h : ∀ nd ∈ nodes, ∀ d ∈ nd.deps, d ∈ ids) :
    ∃ adj, resolveAll ids nodes = .ok adj := by
  cases hr : resolveAll ids nodes with
  | ok adj => exact ⟨adj, rfl⟩
  | error e =>
    obtain ⟨nd, h1, h2, h3⟩ := resolveAll_error hr
    exact absurd (h nd h1 e h2) h3

theorem createGraph_ok {nodes g} (h : createGraph nodes = .ok g) :
    g.ids = nodes.map (·.id) ∧
      Forall₂ (fun (nd : Node) row => Resolves (nodes.map (·.id)) nd.deps row) nodes g.adj := by
  unfold createGraph at h
  simp only at h
  split at h
  · cases h
  · rename_i adj hadj
    simp only [Except.ok.injEq] at h
    subst h
    exact ⟨rfl, resolveAll_ok hadj⟩

theorem forall₂_getD_mem {α β : Type} {R : α → β → Prop} {l₁ : List α} {l₂ : List β} (h : Forall₂ R l₁ l₂)
    (d : β) (i : Nat) (hi : i < l₂.length) : ∃ a ∈ l₁, R a (l₂.getD i d) := by
  induction h generalizing i with
  | nil => simp at hi
  | @cons a b _ _ hr _ ih =>
    cases i with
    | zero => exact ⟨a, by simp, by simpa using hr⟩
    | succ i =>
      obtain ⟨a, ha, hR⟩ := ih i (by simpa using hi)
      exact ⟨a, List.mem_cons_of_mem _ ha, by simpa using hR⟩

/-- every edge of a created graph points at an existing node -/
theorem createGraph_wf {nodes g} (h : createGraph nodes = .ok g) : ∀ u w, w ∈ g.succ u → w < g.size := by
  obtain ⟨hids, hadj⟩ := createGraph_ok h
  have hlen : g.adj.length = nodes.length := hadj.length_eq.symm
  intro u w hw
  unfold Graph.succ at hw
  by_cases hu : u < g.adj.length
  · obtain ⟨nd, _, hres⟩ := forall₂_getD_mem hadj [] u hu
    -- w is one of the resolved targets
    have : ∀ {ds : List String} {row : List Nat}, Resolves (nodes.map (·.id)) ds row → w ∈ row → w < nodes.length := by
      intro ds row hr
      induction hr with
      | nil => intro h; simp at h
      | cons hd _ ih =>
        intro hm
        rcases List.mem_cons.1 hm with rfl | hm
        · simpa using (findIdx_some hd).1
        · exact ih hm
    unfold Graph.size
    rw [hlen]
    exact this hres hw
  · have : g.adj.getD u [] = [] := by
      simp [List.getD_eq_getElem?_getD, List.getElem?_eq_none (Nat.le_of_not_lt hu)]
    rw [this] at hw
    simp at hw

/-! ### emitted nodes are reachable -/

theorem visit_out_reachable (succ : Nat → List Nat) : ∀ (fuel v : Nat) (st : St),
    ∀ u ∈ (visit succ fuel v st).out, u ∈ st.out ∨ Reachable succ [v] u := by
  intro fuel
  induction fuel with
  | zero =>
    intro v st u hu
    unfold visit at hu
    by_cases hv : v ∈ st.seen <;> simp [hv] at hu <;> exact Or.inl hu
  | succ fuel ih =>
    have all : ∀ (ws : List Nat) (st : St), ∀ u ∈ (ws.foldl (fun s w => visit succ fuel w s) st).out,
        u ∈ st.out ∨ ∃ w ∈ ws, Reachable succ [w] u := by
      intro ws
      induction ws with
      | nil => intro st u hu; exact Or.inl (by simpa using hu)
      | cons w ws ihws =>
        intro st u hu
        simp only [List.foldl_cons] at hu
        rcases ihws _ u hu with h | ⟨x, hx, hr⟩
        · rcases ih w st u h with h | h
          · exact Or.inl h
          · exact Or.inr ⟨w, by simp, h⟩
        · exact Or.inr ⟨x, List.mem_cons_of_mem _ hx, hr⟩
    intro v st u hu
    by_cases hv : v ∈ st.seen
    · rw [visit_seen hv] at hu; exact Or.inl hu
    · rw [visit] at hu
      simp only [hv, if_false] at hu
      rcases List.mem_append.1 hu with h | h
      · rcases all (succ v) _ u h with h | ⟨w, hw, hr⟩
        · exact Or.inl h
        · exact Or.inr (Reachable.of_dep hw hr)
      · have : u = v := by simpa using h
        subst this
        exact Or.inr (.root (by simp))

theorem visitRoots_out_reachable (succ : Nat → List Nat) (fuel : Nat) : ∀ (roots : List Nat) (st : St),
    ∀ u ∈ (visitRoots succ fuel roots st).out, u ∈ st.out ∨ Reachable succ roots u := by
  intro roots
  induction roots with
  | nil => intro st u hu; exact Or.inl (by simpa [visitRoots] using hu)
  | cons r rs ih =>
    intro st u hu
    simp only [visitRoots, List.foldl_cons] at hu
    rcases ih _ u hu with h | h
    · rcases visit_out_reachable succ fuel r st u h with h | h
      · exact Or.inl h
      · exact Or.inr (h.mono (by simp))
    · exact Or.inr (h.mono (fun x hx => List.mem_cons_of_mem _ hx))

/-! ### the fold over the roots -/

section
variable (succ : Nat → List Nat) (n : Nat) (rank : Nat → Nat)
  (hrank : ∀ u w, w ∈ succ u → rank w < rank u) (hwf : ∀ u w, w ∈ succ u → w < n)

include hrank hwf in
theorem visitRoots_spec : ∀ (roots : List Nat) (st : St), Inv succ st → (∀ s, ¬ Open st s) →
    (∀ r ∈ roots, r < n) → unseen n st.seen < n + 1 →
    Ext succ st (visitRoots succ (n + 1) roots st) ∧ ∀ r ∈ roots, r ∈ (visitRoots succ (n + 1) roots st).out := by
  intro roots
  induction roots with
  | nil => intro st hi _ _ _; exact ⟨by simpa [visitRoots] using Ext.refl hi, by simp⟩
  | cons r rs ih =>
    intro st hi hop hn hfu
    obtain ⟨e1, hseen, _⟩ := visit_spec succ n rank hrank hwf (n + 1) r st hi (hn r (by simp)) hfu
      (fun s hs => absurd hs (hop s))
    have hop1 : ∀ s, ¬ Open (visit succ (n + 1) r st) s := fun s hs => hop s ((e1.open_same s).1 hs)
    have hrout : r ∈ (visit succ (n + 1) r st).out :=
      Classical.byContradiction (fun hnot => hop1 r ⟨hseen, hnot⟩)
    obtain ⟨e2, hall⟩ := ih (visit succ (n + 1) r st) e1.inv hop1 (fun x hx => hn x (by simp [hx]))
      (Nat.lt_of_le_of_lt (unseen_mono e1.seen_mono) hfu)
    refine ⟨by simpa [visitRoots] using e1.trans e2, ?_⟩
    intro x hx
    simp only [visitRoots, List.foldl_cons]
    rcases List.mem_cons.1 hx with rfl | hx
    · obtain ⟨nw, hnw⟩ := e2.out_ext
      have : x ∈ (visitRoots succ (n + 1) rs (visit succ (n + 1) x st)).out := by
        rw [hnw]; exact List.mem_append.2 (Or.inl hrout)
      simpa [visitRoots] using this
    · simpa [visitRoots] using hall x hx

end

theorem inv_empty (succ : Nat → List Nat) : Inv succ St.empty :=
  ⟨by simp [St.empty], by intro pre u post h; simp [St.empty] at h, by simp [St.empty]⟩

/-! ### root lookup: the loop is "resolve every root, then traverse" -/

/-- `ridx` are the nodes the root ids select: each the first node carrying that id -/
def RootsAt (g : Graph) (roots : List String) (ridx : List Nat) : Prop :=
  Forall₂ (fun r i => findIdx g.ids r = some i) roots ridx

theorem getDepsLoop_ok {g : Graph} : ∀ {roots : List String} {st st' : St}, getDepsLoop g roots st = .ok st' →
    ∃ ridx, RootsAt g roots ridx ∧ st' = visitRoots g.succ (g.size + 1) ridx st := by
  intro roots
  induction roots with
  | nil =>
    intro st st' h
    simp only [getDepsLoop, Except.ok.injEq] at h
    exact ⟨[], .nil, by simp [visitRoots, h]⟩
  | cons r rs ih =>
    intro st st' h
    unfold getDepsLoop at h
    split at h
    · cases h
    · rename_i i hi
      obtain ⟨ridx, h1, h2⟩ := ih h
      exact ⟨i :: ridx, .cons hi h1, by simpa [visitRoots] using h2⟩

theorem getDepsLoop_error {g : Graph} : ∀ {roots : List String} {st : St} {e : String},
    getDepsLoop g roots st = .error e → e ∈ roots ∧ e ∉ g.ids := by
  intro roots
  induction roots with
  | nil => intro st e h; simp [getDepsLoop] at h
  | cons r rs ih =>
    intro st e h
    unfold getDepsLoop at h
    split at h
    · rename_i hn
      simp only [Except.error.injEq] at h
      subst h
      exact ⟨by simp, (findIdx_none_iff _ _).1 hn⟩
    · have := ih h
      exact ⟨List.mem_cons_of_mem _ this.1, this.2⟩

theorem getDepsLoop_ok_of_known {g : Graph} : ∀ {roots : List String} (st : St), (∀ r ∈ roots, r ∈ g.ids) →
    ∃ st', getDepsLoop g roots st = .ok st' := by
  intro roots st h
  cases hr : getDepsLoop g roots st with
  | ok st' => exact ⟨st', rfl⟩
  | error e => have := getDepsLoop_error hr; exact absurd (h e this.1) this.2

theorem rootsAt_lt {g : Graph} {nodes} (hg : createGraph nodes = .ok g) {roots ridx} (h : RootsAt g roots ridx) :
    ∀ r ∈ ridx, r < g.size := by
  obtain ⟨hids, hadj⟩ := createGraph_ok hg
  have hlen : g.size = g.ids.length := by
    unfold Graph.size; rw [hids, ← hadj.length_eq]; simp
  induction h with
  | nil => intro r hr; simp at hr
  | cons hd _ ih =>
    intro r hr
    rcases List.mem_cons.1 hr with rfl | hr
    · rw [hlen]; exact (findIdx_some hd).1
    · exact ih r hr

/-- the assembled statement: on a created, acyclic graph the traversal from resolved roots is a build order
and never starves -/
theorem traversal_spec {nodes g} (hg : createGraph nodes = .ok g) (rank : Nat → Nat)
    (hrank : ∀ u w, w ∈ g.succ u → rank w < rank u) {roots ridx} (hr : RootsAt g roots ridx) :
    IsBuildOrder g.succ ridx (visitRoots g.succ (g.size + 1) ridx St.empty).out ∧
      (visitRoots g.succ (g.size + 1) ridx St.empty).starved = false := by
  have hwf := createGraph_wf hg
  obtain ⟨e, hroots⟩ := visitRoots_spec g.succ g.size rank hrank hwf ridx St.empty (inv_empty _)
    (fun s hs => by simp [Open, St.empty] at hs) (rootsAt_lt hg hr)
    (by simp [St.empty, unseen_nil])
  refine ⟨⟨fun v => ⟨?_, reachable_mem_of_depsFirst hroots e.inv.good⟩, e.inv.nodup, e.inv.good⟩, ?_⟩
  · intro hv
    rcases visitRoots_out_reachable g.succ (g.size + 1) ridx St.empty v hv with h | h
    · simp [St.empty] at h
    · exact h
  · rw [e.starved_same]; rfl

end CnbVerif.DepGraph
