import CnbVerif.Model.FsProgOps
/-!
Refinement of some C12 programs to the C01 model (`Model/LayerStore.lean`): the fault-free run of the program, read
through the abstraction `AbsL` of the flat file system, is the model function.
-/
namespace CnbVerif.FsProg

/-! ### the flat file system as a map -/

theorem lookup_filter_ne (l : FS) (p q : Path) :
    (l.filter (fun e => e.1 != p)).lookup q = if q = p then none else l.lookup q := by
  induction l with
  | nil => simp
  | cons x xs ih =>
    obtain ⟨k, o⟩ := x
    by_cases hk : k = p
    · subst hk
      by_cases hq : q = k
      · subst hq; simp [List.filter, ih]
      · have : (q == k) = false := by simp [hq]
        simp [List.filter, ih, hq, List.lookup, this]
    · have hkp : (k != p) = true := by simp [hk]
      by_cases hq : q = k
      · subst hq
        simp [List.filter, hkp, List.lookup, hk]
      · have : (q == k) = false := by simp [hq]
        simp [List.filter, hkp, List.lookup, this, ih]

theorem get_set_same (fs : FS) (p : Path) (o : Obj) (hp : p ≠ []) : (fs.set p o).get p = some o := by
  simp [FS.get, FS.set, hp]

theorem get_set_ne (fs : FS) (p q : Path) (o : Obj) (h : q ≠ p) : (fs.set p o).get q = fs.get q := by
  unfold FS.get FS.set FS.erase
  by_cases hq : q = []
  · simp [hq]
  · have : (q == p) = false := by simp [h]
    simp [hq, List.lookup, this, lookup_filter_ne, h]

theorem get_erase_same (fs : FS) (p : Path) (hp : p ≠ []) : (fs.erase p).get p = none := by
  simp [FS.get, FS.erase, hp, lookup_filter_ne]

theorem get_erase_ne (fs : FS) (p q : Path) (h : q ≠ p) : (fs.erase p).get q = fs.get q := by
  unfold FS.get FS.erase
  by_cases hq : q = []
  · simp [hq]
  · simp [hq, lookup_filter_ne, h]

theorem isDir_congr {fs fs' : FS} {p : Path} (h : fs'.get p = fs.get p) : fs'.isDir p = fs.isDir p := by
  simp [FS.isDir, h]

/-! ### names -/

theorem str_append_ne_self (n s : String) (h : s ≠ "") : n ++ s ≠ n := by
  intro heq
  have := congrArg String.length heq
  simp only [String.length_append] at this
  have hs : s.length = 0 := by omega
  exact h (by simpa using hs)

theorem str_append_inj (n a b : String) (h : n ++ a = n ++ b) : a = b := by
  have := congrArg String.toList h
  simp only [String.toList_append] at this
  have := List.append_cancel_left this
  exact String.ext this

theorem layerToml_ne_layerDir (n : String) : layerToml n ≠ layerDir n := by
  intro h
  simp only [layerToml, layerDir, List.cons.injEq, and_true, true_and] at h
  exact str_append_ne_self n ".toml" (by decide) h

theorem sbomPath_ne_layerDir (n s : String) : sbomPath n s ≠ layerDir n := by
  intro h
  simp only [sbomPath, layerDir, List.cons.injEq, and_true, true_and, String.append_assoc] at h
  refine str_append_ne_self n (".sbom." ++ s) ?_ h
  intro h0
  have := congrArg String.length h0
  simp [String.length_append] at this

theorem sbomPath_ne_layerToml (n s : String) : sbomPath n s ≠ layerToml n := by
  intro h
  simp only [sbomPath, layerToml, List.cons.injEq, and_true, true_and, String.append_assoc] at h
  have := str_append_inj n _ _ h
  have := congrArg String.toList this
  simp [String.toList_append] at this

/-! ### abstraction -/

def absToml (fs : FS) (n : String) : Option Toml :=
  match fs.get (layerToml n) with
  | some (.file c) => some (match parseLToml c with | some (t, m) => .doc t m | none => .broken)
  | _ => none

def fmtSuffix (i : Nat) : String := sbomSuffixList.getD i ""

/-- the SBOM file of format number `i` (index into `Gen.sbomSuffixes`), if there is one -/
def sbomAt (fs : FS) (n : String) (i : Nat) : Option Bytes :=
  if i < 3 then
    match fs.get (sbomPath n (fmtSuffix i)) with
    | some (.file (.raw d)) => some (strBytes d)
    | _ => none
  else none

/-- `l` is what the C01 model sees of layer `n` in the flat file system (the layer directory's content is not abstracted:
the programs refined below never look into it) -/
structure AbsL (fs : FS) (n : String) (l : Layer) : Prop where
  dir : l.dir.isSome = fs.isDir (layerDir n)
  toml : l.toml = absToml fs n
  /-- the model's SBOM list, read as a map format ↦ data, is the set of SBOM files -/
  sboms : ∀ i, l.sboms.lookup i = sbomAt fs n i

theorem sbomAt_congr {fs fs' : FS} {n : String} (h : ∀ s, fs'.get (sbomPath n s) = fs.get (sbomPath n s)) (i : Nat) :
    sbomAt fs' n i = sbomAt fs n i := by
  simp [sbomAt, h]


theorem parentErr_layers {fs : FS} {x : String} (hL : fs.isDir ["layers"] = true) : fs.parentErr ["layers", x] = none := by
  unfold FS.parentErr
  simp only [List.dropLast]
  unfold FS.isDir at hL
  split at hL <;> simp_all

/-- writing a `<layer>.toml` that already is a file, in an existing layers directory -/
theorem exec_rewrite_toml (n : String) (fs : FS) (c c' : Content) (hL : fs.isDir ["layers"] = true)
    (hget : fs.get (layerToml n) = some (.file c)) :
    fsExec (.write (layerToml n) c') fs = (.ok .unit, fs.set (layerToml n) (.file c')) := by
  have hp : fs.parentErr (layerToml n) = none := parentErr_layers hL
  simp [fsExec, writeFs, hp, hget, pure, Except.pure]

theorem absL_set_toml {fs : FS} {n : String} {l : Layer} (h : AbsL fs n l) (t : Option LTypes) (m : Option MetaTbl) :
    AbsL (fs.set (layerToml n) (.file (.ltoml (.doc t m)))) n { l with toml := some (.doc t m) } := by
  constructor
  · rw [isDir_congr (get_set_ne fs _ _ _ (layerToml_ne_layerDir n).symm)]; exact h.dir
  · simp [absToml, get_set_same _ _ _ (show layerToml n ≠ [] by simp [layerToml]), parseLToml]
  · intro i; rw [sbomAt_congr (fun s => get_set_ne fs _ _ _ (sbomPath_ne_layerToml n s))]; exact h.sboms i

/-- how the generic read of `<layer>.toml` goes, by what the abstraction sees -/
theorem run_readGeneric_write (n : String) (fs : FS) (l : Layer) (h : AbsL fs n l) (hL : fs.isDir ["layers"] = true)
    (f : Option LTypes → Option MetaTbl → Content) :
    let r := exec fsSem none (readGeneric (layerToml n) fun t m => fsWrite (layerToml n) (f t m) unit) fs
    match l.toml with
    | some (.doc t m) => r.out.isOk = true ∧ r.st = fs.set (layerToml n) (.file (f t m))
    | _ => r.out.isOk = false ∧ r.st = fs := by
  have htoml := h.toml
  unfold absToml at htoml
  cases hget : fs.get (layerToml n) with
  | none =>
    rw [hget] at htoml
    simp only [htoml]
    simp [exec, run, readGeneric, fsRead, fsSem, fsExec, hget, injected, Outcome.isOk]
  | some o =>
    cases o with
    | dir md =>
      rw [hget] at htoml
      simp only [htoml]
      simp [exec, run, readGeneric, fsRead, fsSem, fsExec, hget, injected, Outcome.isOk]
    | file c =>
      rw [hget] at htoml
      simp only [] at htoml
      cases hparse : parseLToml c with
      | none =>
        rw [hparse] at htoml
        simp only [htoml]
        simp [exec, run, readGeneric, fsRead, fsSem, fsExec, hget, injected, Outcome.isOk, hparse]
      | some tm =>
        obtain ⟨t, m⟩ := tm
        rw [hparse] at htoml
        simp only [htoml]
        have hw := exec_rewrite_toml n fs c (f t m) hL hget
        simp [exec, run, readGeneric, fsRead, fsWrite, fsSem, injected, Outcome.isOk, hparse, hw, unit,
          show fsExec (.read (layerToml n)) fs = (.ok (.content c), fs) by simp [fsExec, hget]]

/-- **`replace_layer_metadata` as a program is `LayerStore.replaceMeta`.** -/
theorem refines_replaceMeta_lemma (n : String) (m : MetaTbl) (fs : FS) (l : Layer) (h : AbsL fs n l)
    (hL : fs.isDir ["layers"] = true) :
    let r := exec fsSem none (FsProg.replaceMeta n m unit) fs
    match CnbVerif.replaceMeta l m with
    | some l' => r.out.isOk = true ∧ AbsL r.st n l'
    | none => r.out.isOk = false ∧ r.st = fs := by
  have hrun := run_readGeneric_write n fs l h hL (fun t _ => .ltoml (.doc t (some m)))
  simp only [FsProg.replaceMeta]
  unfold CnbVerif.replaceMeta
  cases htl : l.toml with
  | none => simp only [htl] at hrun ⊢; exact hrun
  | some tm =>
    cases tm with
    | broken => simp only [htl] at hrun ⊢; exact hrun
    | doc t m0 =>
      simp only [htl] at hrun ⊢
      refine ⟨hrun.1, ?_⟩
      rw [hrun.2]
      exact absL_set_toml h t (some m)

/-- **`replace_layer_types` as a program is `LayerStore.replaceTypes`.** -/
theorem refines_replaceTypes_lemma (n : String) (t : LTypes) (fs : FS) (l : Layer) (h : AbsL fs n l)
    (hL : fs.isDir ["layers"] = true) :
    let r := exec fsSem none (FsProg.replaceTypes n t unit) fs
    match CnbVerif.replaceTypes l t with
    | some l' => r.out.isOk = true ∧ AbsL r.st n l'
    | none => r.out.isOk = false ∧ r.st = fs := by
  have hrun := run_readGeneric_write n fs l h hL (fun _ m => .ltoml (.doc (some t) m))
  simp only [FsProg.replaceTypes]
  unfold CnbVerif.replaceTypes
  cases htl : l.toml with
  | none => simp only [htl] at hrun ⊢; exact hrun
  | some tm =>
    cases tm with
    | broken => simp only [htl] at hrun ⊢; exact hrun
    | doc t0 m0 =>
      simp only [htl] at hrun ⊢
      refine ⟨hrun.1, ?_⟩
      rw [hrun.2]
      exact absL_set_toml h (some t) m0


/-! ### `replace_layer_sboms` -/

theorem sbomPath_inj {n s s' : String} (h : sbomPath n s = sbomPath n s') : s = s' := by
  simp only [sbomPath, List.cons.injEq, and_true, true_and, String.append_assoc] at h
  exact str_append_inj _ _ _ (str_append_inj _ _ _ h)

theorem sbomPath_ne_layers (n s : String) : sbomPath n s ≠ ["layers"] := by simp [sbomPath]
theorem sbomPath_ne_nil (n s : String) : sbomPath n s ≠ [] := by simp [sbomPath]

/-- what a tolerant `remove_file(p)` leaves behind -/
def eraseFile (fs : FS) (p : Path) : FS :=
  match fs.get p with
  | some (.file _) => fs.erase p
  | _ => fs

theorem eraseFile_get_ne (fs : FS) {p q : Path} (h : q ≠ p) : (eraseFile fs p).get q = fs.get q := by
  unfold eraseFile; split
  · exact get_erase_ne fs p q h
  · rfl

theorem eraseFile_get_same (fs : FS) {p : Path} (hp : p ≠ []) (hnd : ∀ md, fs.get p ≠ some (.dir md)) :
    (eraseFile fs p).get p = none := by
  unfold eraseFile
  cases hg : fs.get p with
  | none => simp [hg]
  | some o =>
    cases o with
    | file c => simp [get_erase_same fs p hp]
    | dir md => exact absurd hg (hnd md)

/-- one `default_on_not_found(fs::remove_file(p))?` at an SBOM path, fault-free -/
theorem run_tolerate_unlink (tol : Bool) (n s : String) (k : Prog) (fs : FS) (n0 : Nat)
    (hL : fs.isDir ["layers"] = true) (hnd : ∀ md, fs.get (sbomPath n s) ≠ some (.dir md)) :
    (run fsSem none tol (.tolerate (.call (.unlink (sbomPath n s)) fun _ => unit) k) fs n0).out
        = (run fsSem none tol k (eraseFile fs (sbomPath n s)) (n0 + 1)).out ∧
    (run fsSem none tol (.tolerate (.call (.unlink (sbomPath n s)) fun _ => unit) k) fs n0).st
        = (run fsSem none tol k (eraseFile fs (sbomPath n s)) (n0 + 1)).st := by
  have hp : fs.parentErr (sbomPath n s) = none := parentErr_layers hL
  cases hg : fs.get (sbomPath n s) with
  | none =>
    have he : fsExec (.unlink (sbomPath n s)) fs = (.error .enoent, fs) := by simp [fsExec, hg, hp]
    simp [run, fsSem, he, injected, Outcome.swallowed, eraseFile, hg]
  | some o =>
    cases o with
    | dir md => exact absurd hg (hnd md)
    | file c =>
      have he : fsExec (.unlink (sbomPath n s)) fs = (.ok .unit, fs.erase (sbomPath n s)) := by simp [fsExec, hg]
      simp [run, fsSem, he, injected, Outcome.swallowed, eraseFile, hg, unit]

def eraseSboms (fs : FS) (n : String) (ss : List String) : FS := ss.foldl (fun fs s => eraseFile fs (sbomPath n s)) fs

theorem eraseSboms_get_other (n : String) (q : Path) : ∀ (ss : List String) (fs : FS), (∀ s ∈ ss, q ≠ sbomPath n s) →
    (eraseSboms fs n ss).get q = fs.get q := by
  intro ss
  induction ss with
  | nil => intro fs _; rfl
  | cons s rest ih =>
    intro fs h
    simp only [eraseSboms, List.foldl_cons]
    have := ih (eraseFile fs (sbomPath n s)) (fun s' hs' => h s' (List.mem_cons_of_mem _ hs'))
    simp only [eraseSboms] at this
    rw [this, eraseFile_get_ne fs (h s (List.mem_cons_self ..))]

theorem eraseSboms_get_in (n : String) : ∀ (ss : List String) (fs : FS), (∀ s ∈ ss, ∀ md, fs.get (sbomPath n s) ≠ some (.dir md)) →
    ∀ s ∈ ss, (eraseSboms fs n ss).get (sbomPath n s) = none := by
  intro ss
  induction ss with
  | nil => intro fs _ s hs; cases hs
  | cons s0 rest ih =>
    intro fs hnd s hs
    simp only [eraseSboms, List.foldl_cons]
    have hnd' : ∀ s' ∈ rest, ∀ md, (eraseFile fs (sbomPath n s0)).get (sbomPath n s') ≠ some (.dir md) := by
      intro s' hs' md
      by_cases heq : sbomPath n s' = sbomPath n s0
      · rw [heq, eraseFile_get_same fs (sbomPath_ne_nil n s0) (hnd s0 (List.mem_cons_self ..))]; simp
      · rw [eraseFile_get_ne fs heq]; exact hnd s' (List.mem_cons_of_mem _ hs') md
    by_cases hin : s ∈ rest
    · have := ih (eraseFile fs (sbomPath n s0)) hnd' s hin
      simpa [eraseSboms] using this
    · have hs0 : s = s0 := by
        rcases List.mem_cons.mp hs with h | h
        · exact h
        · exact absurd h hin
      subst hs0
      have := eraseSboms_get_other n (sbomPath n s) rest (eraseFile fs (sbomPath n s))
        (fun s' hs' heq => hin (by rw [sbomPath_inj heq]; exact hs'))
      simp only [eraseSboms] at this
      rw [this, eraseFile_get_same fs (sbomPath_ne_nil n s) (hnd s (List.mem_cons_self ..))]

theorem run_unlinkSboms (tol : Bool) (n : String) (k : Prog) : ∀ (ss : List String) (fs : FS) (n0 : Nat),
    fs.isDir ["layers"] = true → (∀ s ∈ ss, ∀ md, fs.get (sbomPath n s) ≠ some (.dir md)) →
    (run fsSem none tol (unlinkSboms n ss k) fs n0).out = (run fsSem none tol k (eraseSboms fs n ss) (n0 + ss.length)).out ∧
    (run fsSem none tol (unlinkSboms n ss k) fs n0).st = (run fsSem none tol k (eraseSboms fs n ss) (n0 + ss.length)).st := by
  intro ss
  induction ss with
  | nil => intro fs n0 _ _; simp [unlinkSboms, eraseSboms]
  | cons s0 rest ih =>
    intro fs n0 hL hnd
    have h1 := run_tolerate_unlink tol n s0 (unlinkSboms n rest k) fs n0 hL (hnd s0 (List.mem_cons_self ..))
    have hL' : (eraseFile fs (sbomPath n s0)).isDir ["layers"] = true := by
      rw [isDir_congr (eraseFile_get_ne fs (sbomPath_ne_layers n s0).symm)]; exact hL
    have hnd' : ∀ s' ∈ rest, ∀ md, (eraseFile fs (sbomPath n s0)).get (sbomPath n s') ≠ some (.dir md) := by
      intro s' hs' md
      by_cases heq : sbomPath n s' = sbomPath n s0
      · rw [heq, eraseFile_get_same fs (sbomPath_ne_nil n s0) (hnd s0 (List.mem_cons_self ..))]; simp
      · rw [eraseFile_get_ne fs heq]; exact hnd s' (List.mem_cons_of_mem _ hs') md
    have h2 := ih (eraseFile fs (sbomPath n s0)) (n0 + 1) hL' hnd'
    have hlen : n0 + (s0 :: rest).length = n0 + 1 + rest.length := by simp only [List.length_cons]; omega
    simp only [unlinkSboms, eraseSboms, List.foldl_cons, hlen] at h1 h2 ⊢
    exact ⟨h1.1.trans h2.1, h1.2.trans h2.2⟩

def writeSbomFiles (fs : FS) (n : String) (items : List (String × String)) : FS :=
  items.foldl (fun fs x => fs.set (sbomPath n x.1) (.file (.raw x.2))) fs

theorem run_writeSboms (tol : Bool) (n : String) (k : Prog) : ∀ (items : List (String × String)) (fs : FS) (n0 : Nat),
    fs.isDir ["layers"] = true → (∀ x ∈ items, ∀ md, fs.get (sbomPath n x.1) ≠ some (.dir md)) →
    (run fsSem none tol (writeSboms n items k) fs n0).out = (run fsSem none tol k (writeSbomFiles fs n items) (n0 + items.length)).out ∧
    (run fsSem none tol (writeSboms n items k) fs n0).st = (run fsSem none tol k (writeSbomFiles fs n items) (n0 + items.length)).st := by
  intro items
  induction items with
  | nil => intro fs n0 _ _; simp [writeSboms, writeSbomFiles]
  | cons x rest ih =>
    intro fs n0 hL hnd
    obtain ⟨s0, d0⟩ := x
    have hp : fs.parentErr (sbomPath n s0) = none := parentErr_layers hL
    have he : fsExec (.write (sbomPath n s0) (.raw d0)) fs = (.ok .unit, fs.set (sbomPath n s0) (.file (.raw d0))) := by
      have hnd0 := hnd (s0, d0) (List.mem_cons_self ..)
      simp only [fsExec, writeFs, hp]
      cases hg : fs.get (sbomPath n s0) with
      | none => simp [pure, Except.pure]
      | some o =>
        cases o with
        | file c => simp [pure, Except.pure]
        | dir md => exact absurd hg (hnd0 md)
    have hL' : (fs.set (sbomPath n s0) (.file (.raw d0))).isDir ["layers"] = true := by
      rw [isDir_congr (get_set_ne fs _ _ _ (sbomPath_ne_layers n s0).symm)]; exact hL
    have hnd' : ∀ x ∈ rest, ∀ md, (fs.set (sbomPath n s0) (.file (.raw d0))).get (sbomPath n x.1) ≠ some (.dir md) := by
      intro x hx md
      by_cases heq : sbomPath n x.1 = sbomPath n s0
      · rw [heq, get_set_same fs _ _ (sbomPath_ne_nil n s0)]; simp
      · rw [get_set_ne fs _ _ _ heq]; exact hnd x (List.mem_cons_of_mem _ hx) md
    have h2 := ih (fs.set (sbomPath n s0) (.file (.raw d0))) (n0 + 1) hL' hnd'
    have hlen : n0 + ((s0, d0) :: rest).length = n0 + 1 + rest.length := by simp only [List.length_cons]; omega
    simp only [writeSboms, fsWrite, run, fsSem, injected, he, writeSbomFiles, List.foldl_cons, hlen] at h2 ⊢
    exact h2

theorem writeSbomFiles_get_other (n : String) (q : Path) : ∀ (items : List (String × String)) (fs : FS),
    (∀ x ∈ items, q ≠ sbomPath n x.1) → (writeSbomFiles fs n items).get q = fs.get q := by
  intro items
  induction items with
  | nil => intro fs _; rfl
  | cons x rest ih =>
    intro fs h
    simp only [writeSbomFiles, List.foldl_cons]
    have := ih (fs.set (sbomPath n x.1) (.file (.raw x.2))) (fun y hy => h y (List.mem_cons_of_mem _ hy))
    simp only [writeSbomFiles] at this
    rw [this, get_set_ne fs _ _ _ (h x (List.mem_cons_self ..))]

theorem writeSbomFiles_get (n : String) : ∀ (items : List (String × String)) (fs : FS), (items.map (·.1)).Nodup →
    ∀ s, (writeSbomFiles fs n items).get (sbomPath n s) =
      match items.lookup s with
      | some d => some (.file (.raw d))
      | none => fs.get (sbomPath n s) := by
  intro items
  induction items with
  | nil => intro fs _ s; rfl
  | cons x rest ih =>
    intro fs hnd s
    obtain ⟨s0, d0⟩ := x
    simp only [List.map_cons, List.nodup_cons] at hnd
    simp only [writeSbomFiles, List.foldl_cons]
    have := ih (fs.set (sbomPath n s0) (.file (.raw d0))) hnd.2 s
    simp only [writeSbomFiles] at this
    rw [this]
    by_cases hs : s = s0
    · subst hs
      have hnone : rest.lookup s = none := by
        rw [List.lookup_eq_none_iff]
        intro y hy
        simp only [bne_iff_ne, ne_eq]
        intro heq
        exact hnd.1 (List.mem_map.mpr ⟨y, hy, heq.symm⟩)
      simp [hnone, List.lookup, get_set_same fs _ _ (sbomPath_ne_nil n s)]
    · have hb : (s == s0) = false := by simp [hs]
      simp only [List.lookup, hb]
      cases rest.lookup s with
      | some d => rfl
      | none => simp only []; exact get_set_ne fs _ _ _ (fun h => hs (sbomPath_inj h))

theorem fmtSuffix_inj {i j : Nat} (hi : i < 3) (hj : j < 3) (h : fmtSuffix i = fmtSuffix j) : i = j := by
  have : i = 0 ∨ i = 1 ∨ i = 2 := by omega
  have : j = 0 ∨ j = 1 ∨ j = 2 := by omega
  rcases ‹i = 0 ∨ i = 1 ∨ i = 2› with rfl | rfl | rfl <;> rcases ‹j = 0 ∨ j = 1 ∨ j = 2› with rfl | rfl | rfl <;>
    first | rfl | (exfalso; revert h; decide)

theorem fmtSuffix_mem {i : Nat} (hi : i < 3) : fmtSuffix i ∈ sbomSuffixList := by
  have : i = 0 ∨ i = 1 ∨ i = 2 := by omega
  rcases this with rfl | rfl | rfl <;> decide

/-- the program's argument list and the model's, from one list of (format number, data) -/
def sbomArgs (sb : List (Nat × String)) : List (String × String) := sb.map (fun x => (fmtSuffix x.1, x.2))
def sbomBytes (sb : List (Nat × String)) : List (Nat × Bytes) := sb.map (fun x => (x.1, strBytes x.2))

theorem lookup_sbomArgs (sb : List (Nat × String)) (hfmt : ∀ x ∈ sb, x.1 < 3) (i : Nat) (hi : i < 3) :
    ((sbomArgs sb).lookup (fmtSuffix i)).map strBytes = (sbomBytes sb).lookup i := by
  induction sb with
  | nil => rfl
  | cons x rest ih =>
    obtain ⟨j, d⟩ := x
    have hj : j < 3 := hfmt (j, d) (List.mem_cons_self ..)
    have ih' := ih (fun y hy => hfmt y (List.mem_cons_of_mem _ hy))
    simp only [sbomArgs, sbomBytes, List.map_cons, List.lookup] at ih' ⊢
    by_cases hij : i = j
    · subst hij; simp
    · have h1 : (fmtSuffix i == fmtSuffix j) = false := by
        simp only [beq_eq_false_iff_ne, ne_eq]; exact fun h => hij (fmtSuffix_inj hi hj h)
      have h2 : (i == j) = false := by simp [hij]
      simp only [h1, h2]
      exact ih'

theorem lookup_sbomBytes_ge (sb : List (Nat × String)) (hfmt : ∀ x ∈ sb, x.1 < 3) (i : Nat) (hi : ¬ i < 3) :
    (sbomBytes sb).lookup i = none := by
  rw [List.lookup_eq_none_iff]
  intro y hy
  simp only [sbomBytes, List.mem_map] at hy
  obtain ⟨x, hx, rfl⟩ := hy
  have := hfmt x hx
  simp only [bne_iff_ne, ne_eq]
  omega

theorem nodup_map_of_inj_on {α β : Type} (f : α → β) : ∀ (l : List α), l.Nodup → (∀ a ∈ l, ∀ b ∈ l, f a = f b → a = b) →
    (l.map f).Nodup := by
  intro l
  induction l with
  | nil => intro _ _; exact List.nodup_nil
  | cons x rest ih =>
    intro hnd hinj
    simp only [List.nodup_cons, List.map_cons] at hnd ⊢
    refine ⟨?_, ih hnd.2 (fun a ha b hb => hinj a (List.mem_cons_of_mem _ ha) b (List.mem_cons_of_mem _ hb))⟩
    intro hmem
    obtain ⟨y, hy, hxy⟩ := List.mem_map.mp hmem
    have := hinj y (List.mem_cons_of_mem _ hy) x (List.mem_cons_self ..) hxy
    exact hnd.1 (this ▸ hy)

/-- **`replace_layer_sboms` as a program is `LayerStore.replaceSboms`.** -/
theorem refines_replaceSboms_lemma (n : String) (sb : List (Nat × String)) (fs : FS) (l : Layer) (h : AbsL fs n l)
    (hL : fs.isDir ["layers"] = true) (hfmt : ∀ x ∈ sb, x.1 < 3) (hnodup : (sb.map (·.1)).Nodup)
    (hnd : ∀ s ∈ sbomSuffixList, ∀ md, fs.get (sbomPath n s) ≠ some (.dir md)) :
    let r := exec fsSem none (FsProg.replaceSboms n (sbomArgs sb) unit) fs
    let m := CnbVerif.replaceSboms l (sbomBytes sb)
    (m.2 = .ok → r.out.isOk = true ∧ AbsL r.st n m.1) ∧
    (m.2 ≠ .ok → r.out.isOk = false ∧ r.st = fs ∧ m.1 = l) := by
  intro r m
  have hdir := h.dir
  cases hld : l.dir with
  | none =>
    have hfalse : fs.isDir (layerDir n) = false := by rw [← hdir, hld]; rfl
    have hm : m = (l, .err .missingLayer) := by simp [m, CnbVerif.replaceSboms, hld]
    have hr : r = ⟨.err (.other "missingLayer"), fs, 0, []⟩ := by
      simp [r, exec, run, FsProg.replaceSboms, fsSem, fsProbe, hfalse]
    refine ⟨fun hok => ?_, fun _ => ?_⟩
    · rw [hm] at hok; cases hok
    · rw [hr, hm]; exact ⟨rfl, rfl, rfl⟩
  | some d =>
    have htrue : fs.isDir (layerDir n) = true := by rw [← hdir, hld]; rfl
    have hm : m = ({ l with sboms := sbomBytes sb }, .ok) := by simp [m, CnbVerif.replaceSboms, hld]
    -- the run: three tolerant unlinks, then the writes
    have h1 := run_unlinkSboms false n (writeSboms n (sbomArgs sb) unit) sbomSuffixList fs 0 hL hnd
    have hL1 : (eraseSboms fs n sbomSuffixList).isDir ["layers"] = true := by
      rw [isDir_congr (eraseSboms_get_other n _ _ fs (fun s _ => (sbomPath_ne_layers n s).symm))]; exact hL
    have hnd1 : ∀ x ∈ sbomArgs sb, ∀ md, (eraseSboms fs n sbomSuffixList).get (sbomPath n x.1) ≠ some (.dir md) := by
      intro x hx md
      simp only [sbomArgs, List.mem_map] at hx
      obtain ⟨y, hy, rfl⟩ := hx
      rw [eraseSboms_get_in n _ fs hnd _ (fmtSuffix_mem (hfmt y hy))]; simp
    have h2 := run_writeSboms false n unit (sbomArgs sb) (eraseSboms fs n sbomSuffixList) (0 + sbomSuffixList.length) hL1 hnd1
    have hout : r.out = .ok .unit := by
      have : r.out = (run fsSem none false (unlinkSboms n sbomSuffixList (writeSboms n (sbomArgs sb) unit)) fs 0).out := by
        simp [r, exec, run, FsProg.replaceSboms, fsSem, fsProbe, htrue]
      rw [this, h1.1, h2.1]; rfl
    have hst : r.st = writeSbomFiles (eraseSboms fs n sbomSuffixList) n (sbomArgs sb) := by
      have : r.st = (run fsSem none false (unlinkSboms n sbomSuffixList (writeSboms n (sbomArgs sb) unit)) fs 0).st := by
        simp [r, exec, run, FsProg.replaceSboms, fsSem, fsProbe, htrue]
      rw [this, h1.2, h2.2]; rfl
    have hother : ∀ q, (∀ s, q ≠ sbomPath n s) → r.st.get q = fs.get q := by
      intro q hq
      rw [hst, writeSbomFiles_get_other n q _ _ (fun x _ => hq x.1), eraseSboms_get_other n q _ fs (fun s _ => hq s)]
    refine ⟨fun _ => ?_, fun hne => ?_⟩
    · rw [hm]
      refine ⟨by rw [hout]; rfl, ?_, ?_, ?_⟩
      · simp only [hld, Option.isSome_some]
        rw [isDir_congr (hother _ (fun s => (sbomPath_ne_layerDir n s).symm))]; exact htrue.symm
      · show l.toml = absToml r.st n
        have : absToml r.st n = absToml fs n := by
          simp only [absToml, hother _ (fun s => (sbomPath_ne_layerToml n s).symm)]
        rw [this]; exact h.toml
      · intro i
        show (sbomBytes sb).lookup i = sbomAt r.st n i
        by_cases hi : i < 3
        · have hargsnd : ((sbomArgs sb).map (·.1)).Nodup := by
            simp only [sbomArgs, List.map_map]
            have : (sb.map ((fun x => x.1) ∘ fun x => (fmtSuffix x.1, x.2))) = (sb.map (·.1)).map fmtSuffix := by
              simp [List.map_map, Function.comp]
            rw [this]
            refine nodup_map_of_inj_on fmtSuffix _ hnodup ?_
            intro a ha b hb hab
            simp only [List.mem_map] at ha hb
            obtain ⟨x, hx, rfl⟩ := ha
            obtain ⟨y, hy, rfl⟩ := hb
            exact fmtSuffix_inj (hfmt x hx) (hfmt y hy) hab
          have hg := writeSbomFiles_get n (sbomArgs sb) (eraseSboms fs n sbomSuffixList) hargsnd (fmtSuffix i)
          rw [← lookup_sbomArgs sb hfmt i hi]
          simp only [sbomAt, hi, if_true, hst, hg]
          cases (sbomArgs sb).lookup (fmtSuffix i) with
          | some d => rfl
          | none =>
            simp only [Option.map_none, eraseSboms_get_in n _ fs hnd _ (fmtSuffix_mem hi)]
        · rw [lookup_sbomBytes_ge sb hfmt i hi]; simp [sbomAt, hi]
    · rw [hm] at hne; exact absurd rfl hne

end CnbVerif.FsProg
