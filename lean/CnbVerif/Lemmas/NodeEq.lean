import CnbVerif.Model.EnvDir
namespace CnbVerif
mutual
theorem Node.beq_eq : ∀ a b : Node, Node.beq a b = true → a = b
  | .file a, .file b, h => by simp [Node.beq] at h; rw [h]
  | .dir a, .dir b, h => by simp only [Node.beq] at h; rw [Node.beqList_eq a b h]
  | .link a, .link b, h => by simp [Node.beq] at h; rw [h]
  | .file _, .dir _, h => by simp [Node.beq] at h
  | .file _, .link _, h => by simp [Node.beq] at h
  | .dir _, .file _, h => by simp [Node.beq] at h
  | .dir _, .link _, h => by simp [Node.beq] at h
  | .link _, .file _, h => by simp [Node.beq] at h
  | .link _, .dir _, h => by simp [Node.beq] at h
theorem Node.beqList_eq : ∀ a b : List (Bytes × Node), Node.beqList a b = true → a = b
  | [], [], _ => rfl
  | [], _ :: _, h => by simp [Node.beqList] at h
  | _ :: _, [], h => by simp [Node.beqList] at h
  | (k, x) :: r, (k', x') :: r', h => by
    simp only [Node.beqList, Bool.and_eq_true, beq_iff_eq] at h
    rw [h.1.1, Node.beq_eq x x' h.1.2, Node.beqList_eq r r' h.2]
end

mutual
theorem Node.beq_refl : ∀ a : Node, Node.beq a a = true
  | .file a => by simp [Node.beq]
  | .dir a => by simp only [Node.beq]; exact Node.beqList_refl a
  | .link a => by simp [Node.beq]
theorem Node.beqList_refl : ∀ a : List (Bytes × Node), Node.beqList a a = true
  | [] => rfl
  | (k, x) :: r => by simp [Node.beqList, Node.beq_refl x, Node.beqList_refl r]
end

theorem Dir.optBeq_iff (a b : Option Dir) : Dir.optBeq a b = true ↔ a = b := by
  cases a <;> cases b <;> simp [Dir.optBeq]
  constructor
  · exact Node.beqList_eq _ _
  · intro h; rw [h]; exact Node.beqList_refl _

end CnbVerif
