import CnbVerif.Base.Schema
/-! Helper lemmas about the generic schema codec (`Base/Schema.lean`): rejection, acceptance, `readEq`. -/
namespace CnbVerif.Codec

/-! ## `Except` plumbing -/

def IsErr {α} : Except Err α → Prop
  | .error _ => True
  | .ok _ => False

theorem isErr_map {α β} (f : α → β) (x : Except Err α) : IsErr (x.map f) ↔ IsErr x := by
  cases x <;> simp [IsErr, Except.map]

theorem map_eq_ok {α β} {f : α → β} {x : Except Err α} {b : β} (h : x.map f = .ok b) : ∃ a, x = .ok a ∧ f a = b := by
  cases x with
  | error e => simp [Except.map] at h
  | ok a => exact ⟨a, rfl, by simpa [Except.map] using h⟩

theorem accepts_false_iff (s : Schema) (t : TV) : accepts s t = false ↔ IsErr (decode s t) := by
  unfold accepts; cases decode s t <;> simp [IsErr]

theorem accepts_true_iff (s : Schema) (t : TV) : accepts s t = true ↔ ∃ v, decode s t = .ok v := by
  unfold accepts; cases decode s t <;> simp

/-! ## rejection -/

theorem mapE_err_of_mem (f : TV → Except Err Val) {xs : List TV} {x : TV} (hx : x ∈ xs) (h : IsErr (f x)) :
    IsErr (mapE f xs) := by
  induction xs with
  | nil => cases hx
  | cons y ys ih =>
    unfold mapE
    cases hx with
    | head => cases hfx : f x with
      | error e => simp [IsErr]
      | ok v => rw [hfx] at h; exact h.elim
    | tail _ hm => cases f y with
      | error e => simp [IsErr]
      | ok v => simp only []; rw [isErr_map]; exact ih hm

theorem mapKV_err_of_mem (valid : String → Bool) (f : TV → Except Err Val) {kvs : List (String × TV)} {k : String} {x : TV}
    (hx : (k, x) ∈ kvs) (h : IsErr (f x)) : IsErr (mapKV valid f kvs) := by
  induction kvs with
  | nil => cases hx
  | cons y ys ih =>
    obtain ⟨ky, vy⟩ := y
    unfold mapKV
    by_cases hv : valid ky = true
    · simp only [hv, if_true]
      cases hx with
      | head => cases hfx : f x with
        | error e => simp [IsErr]
        | ok v => rw [hfx] at h; exact h.elim
      | tail _ hm => cases f vy with
        | error e => simp [IsErr]
        | ok v => simp only []; rw [isErr_map]; exact ih hm
    · simp [hv, IsErr]

theorem mapKV_err_of_key (valid : String → Bool) (f : TV → Except Err Val) {kvs : List (String × TV)} {k : String} {x : TV}
    (hx : (k, x) ∈ kvs) (h : valid k = false) : IsErr (mapKV valid f kvs) := by
  induction kvs with
  | nil => cases hx
  | cons y ys ih =>
    obtain ⟨ky, vy⟩ := y
    unfold mapKV
    by_cases hv : valid ky = true
    · simp only [hv, if_true]
      cases hx with
      | head => rw [h] at hv; cases hv
      | tail _ hm => cases f vy with
        | error e => simp [IsErr]
        | ok v => simp only []; rw [isErr_map]; exact ih hm
    · simp [hv, IsErr]

/-- a required key that is missing -/
theorem decodeFields_err_of_missing {fs : List Field} {kvs : List (String × TV)} {f : Field}
    (hf : f ∈ fs) (hreq : f.pres = .required) (hm : kvs.lookup f.key = none) : IsErr (decodeFields fs kvs) := by
  induction fs with
  | nil => cases hf
  | cons g gs ih =>
    obtain ⟨key, pres, sk, ne, s, pos⟩ := g
    unfold decodeFields
    cases hf with
    | head => simp only [] at hreq hm; simp only [hm, hreq]; simp [IsErr]
    | tail _ hmem =>
      have := ih hmem
      cases hl : kvs.lookup key with
      | some t => simp only []; cases decode s t with
        | error e => simp [IsErr]
        | ok v => simp only []; rw [isErr_map]; exact this
      | none => simp only []; cases pres with
        | required => simp [IsErr]
        | optional => simp only []; rw [isErr_map]; exact this
        | dflt d => simp only []; rw [isErr_map]; exact this

/-- a present key whose value is not read by the field's schema -/
theorem decodeFields_err_of_field {fs : List Field} {kvs : List (String × TV)} {f : Field} {t : TV}
    (hf : f ∈ fs) (hl : kvs.lookup f.key = some t) (he : IsErr (decode f.schema t)) : IsErr (decodeFields fs kvs) := by
  induction fs with
  | nil => cases hf
  | cons g gs ih =>
    obtain ⟨key, pres, sk, ne, s, pos⟩ := g
    unfold decodeFields
    cases hf with
    | head =>
      simp only [] at hl he
      simp only [hl]
      cases hd : decode s t with
      | error e => simp [IsErr]
      | ok v => rw [hd] at he; exact he.elim
    | tail _ hmem =>
      have := ih hmem
      cases hl' : kvs.lookup key with
      | some t' => simp only []; cases decode s t' with
        | error e => simp [IsErr]
        | ok v => simp only []; rw [isErr_map]; exact this
      | none => simp only []; cases pres with
        | required => simp [IsErr]
        | optional => simp only []; rw [isErr_map]; exact this
        | dflt d => simp only []; rw [isErr_map]; exact this

theorem decodeFirst_err {vs : List Schema} {t : TV} (h : ∀ s ∈ vs, IsErr (decode s t)) (i : Nat) :
    IsErr (decodeFirst vs i t) := by
  induction vs generalizing i with
  | nil => simp [decodeFirst, IsErr]
  | cons s vs ih =>
    unfold decodeFirst
    have hs := h s (List.mem_cons_self ..)
    cases hd : decode s t with
    | ok v => rw [hd] at hs; exact hs.elim
    | error e => simp only []; exact ih (fun s' hs' => h s' (List.mem_cons_of_mem _ hs')) (i + 1)

/-- a value whose TOML kind the schema does not read (scalars retyped, table for array, …) -/
def kindMismatch : Schema → TV → Bool
  | .str _, .str _ => false
  | .int, .int _ => false
  | .bool, .bool _ => false
  | .any, _ => false
  | .table, .tbl _ => false
  | .vec _, .arr _ => false
  | .set _, .arr _ => false
  | .map _ _, .tbl _ => false
  | .struct _ _, .tbl _ => false
  | .untagged _, _ => false
  | _, _ => true

theorem decode_err_of_kindMismatch {s : Schema} {t : TV} (h : kindMismatch s t = true) : IsErr (decode s t) := by
  cases s <;> cases t <;> simp [kindMismatch] at h <;> simp [decode, IsErr]

theorem hasKey_false_of {fs : List Field} {k : String} (h : hasKey fs k = false) : ∀ f ∈ fs, f.key ≠ k := by
  intro f hf hk
  unfold hasKey at h
  rw [List.any_eq_false] at h
  exact h f hf (by simp [hk])

/-- what makes a document unreadable under a schema: at any path, an undefined key under a struct that denies
unknown fields, a missing required key, a value of the wrong kind; under an untagged enum, a defect for every variant -/
inductive Defect : Schema → TV → Prop
  | unknownKey {fs kvs} (k : String) (v : TV) : (k, v) ∈ kvs → hasKey fs k = false → Defect (.struct true fs) (.tbl kvs)
  | missing {d fs kvs} (f : Field) : f ∈ fs → f.pres = .required → kvs.lookup f.key = none → Defect (.struct d fs) (.tbl kvs)
  | wrongKind {s t} : kindMismatch s t = true → Defect s t
  | inField {d fs kvs} (f : Field) (t : TV) : f ∈ fs → kvs.lookup f.key = some t → Defect f.schema t → Defect (.struct d fs) (.tbl kvs)
  | inElem {s xs} (x : TV) : x ∈ xs → Defect s x → Defect (.vec s) (.arr xs)
  | inMapValue {k s kvs} (key : String) (x : TV) : (key, x) ∈ kvs → Defect s x → Defect (.map k s) (.tbl kvs)
  | allVariants {vs t} : (∀ s ∈ vs, Defect s t) → Defect (.untagged vs) t

theorem defect_isErr {s : Schema} {t : TV} (h : Defect s t) : IsErr (decode s t) := by
  induction h with
  | @unknownKey fs kvs k v hmem hk =>
    have : (kvs.all fun kv => hasKey fs kv.1) = false := by
      rw [List.all_eq_false]; exact ⟨(k, v), hmem, by simp [hk]⟩
    simp [decode, this, IsErr]
  | @missing d fs kvs f hf hreq hl =>
    unfold decode
    split
    · simp [IsErr]
    · rw [isErr_map]; exact decodeFields_err_of_missing hf hreq hl
  | wrongKind hk => exact decode_err_of_kindMismatch hk
  | @inField d fs kvs f t hf hl _ ih =>
    unfold decode
    split
    · simp [IsErr]
    · rw [isErr_map]; exact decodeFields_err_of_field hf hl ih
  | @inElem s xs x hx _ ih =>
    unfold decode; rw [isErr_map]; exact mapE_err_of_mem _ hx ih
  | @inMapValue k s kvs key x hx _ ih =>
    unfold decode; rw [isErr_map]; exact mapKV_err_of_mem _ _ hx ih
  | @allVariants vs t _ ih =>
    unfold decode; exact decodeFirst_err ih 0

/-- an undefined key at some struct-level path of the document (for an untagged enum: under every variant) -/
inductive UnknownKeyAt : Schema → TV → Prop
  | here {d fs kvs} (k : String) (v : TV) : (k, v) ∈ kvs → hasKey fs k = false → UnknownKeyAt (.struct d fs) (.tbl kvs)
  | inField {d fs kvs} (f : Field) (t : TV) : f ∈ fs → kvs.lookup f.key = some t → UnknownKeyAt f.schema t → UnknownKeyAt (.struct d fs) (.tbl kvs)
  | inElem {s xs} (x : TV) : x ∈ xs → UnknownKeyAt s x → UnknownKeyAt (.vec s) (.arr xs)
  | inMapValue {k s kvs} (key : String) (x : TV) : (key, x) ∈ kvs → UnknownKeyAt s x → UnknownKeyAt (.map k s) (.tbl kvs)
  | allVariants {vs t} : (∀ s ∈ vs, UnknownKeyAt s t) → UnknownKeyAt (.untagged vs) t

theorem strictFields_mem {fs : List Field} (h : strictFields fs = true) : ∀ f ∈ fs, strict f.schema = true := by
  induction fs with
  | nil => intro f hf; cases hf
  | cons g gs ih =>
    obtain ⟨key, pres, sk, ne, s, pos⟩ := g
    simp only [strictFields, Bool.and_eq_true] at h
    intro f hf
    cases hf with
    | head => exact h.1
    | tail _ hm => exact ih h.2 f hm

theorem strictAll_mem {vs : List Schema} (h : strictAll vs = true) : ∀ s ∈ vs, strict s = true := by
  induction vs with
  | nil => intro s hs; cases hs
  | cons a as ih =>
    simp only [strictAll, Bool.and_eq_true] at h
    intro s hs
    cases hs with
    | head => exact h.1
    | tail _ hm => exact ih h.2 s hm

theorem unknownKeyAt_defect {s : Schema} {t : TV} (h : UnknownKeyAt s t) (hs : strict s = true) : Defect s t := by
  induction h with
  | @here d fs kvs k v hm hk =>
    simp only [strict, Bool.and_eq_true] at hs
    rw [hs.1]; exact .unknownKey k v hm hk
  | @inField d fs kvs f t hf hl _ ih =>
    simp only [strict, Bool.and_eq_true] at hs
    exact .inField f t hf hl (ih (strictFields_mem hs.2 f hf))
  | @inElem s xs x hx _ ih =>
    simp only [strict] at hs
    exact .inElem x hx (ih hs)
  | @inMapValue k s kvs key x hx _ ih =>
    simp only [strict] at hs
    exact .inMapValue key x hx (ih hs)
  | @allVariants vs t _ ih =>
    simp only [strict] at hs
    exact .allVariants (fun s hmem => ih s hmem (strictAll_mem hs s hmem))

end CnbVerif.Codec
