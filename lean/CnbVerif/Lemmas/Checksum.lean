import CnbVerif.Model.Inventory
import CnbVerif.Spec.Inventory
/-! Helper lemmas for C18: hex codec, `split_once(':')`, the checksum grammar. -/
namespace CnbVerif.Inventory
open CnbVerif CnbVerif.Spec.Inventory

/-! ### hex -/

theorem hexVal_hexDigit_fin : ∀ n : Fin 16, hexVal (hexDigit n.val) = some n.val := by decide

theorem hexVal_hexDigit {n : Nat} (h : n < 16) : hexVal (hexDigit n) = some n := hexVal_hexDigit_fin ⟨n, h⟩

theorem hexDecode_hexEncode (b : Bytes) (hb : ∀ x ∈ b, x < 256) : decodeHex (encodeHex b) = some b := by
  unfold decodeHex encodeHex
  induction b with
  | nil => simp [hexEncodeChars, hexDecodeChars]
  | cons x xs ih =>
    have hx : x < 256 := hb x (by simp)
    have h1 : x / 16 < 16 := by omega
    have h2 : x % 16 < 16 := by omega
    have ih' := ih (fun y hy => hb y (by simp [hy]))
    simp only [hexEncodeChars, hexDecodeChars, hexVal_hexDigit h1, hexVal_hexDigit h2, ih']
    have : x / 16 * 16 + x % 16 = x := by omega
    simp [this]

theorem hexVal_some_iff (c : Char) : (∃ v, hexVal c = some v) ↔ isHexDigit c = true := by
  unfold hexVal isHexDigit
  simp only []
  constructor
  · rintro ⟨v, hv⟩
    split at hv
    · rename_i h; simp [h.1, h.2]
    · split at hv
      · rename_i h; simp [h.1, h.2]
      · split at hv
        · rename_i h; simp [h.1, h.2]
        · simp at hv
  · intro h
    simp only [Bool.or_eq_true, Bool.and_eq_true, decide_eq_true_eq] at h
    rcases h with (h | h) | h
    · exact ⟨_, by rw [if_pos h]⟩
    · by_cases h0 : 48 ≤ c.toNat ∧ c.toNat ≤ 57
      · exact ⟨_, by rw [if_pos h0]⟩
      · exact ⟨_, by rw [if_neg h0, if_pos h]⟩
    · by_cases h0 : 48 ≤ c.toNat ∧ c.toNat ≤ 57
      · exact ⟨_, by rw [if_pos h0]⟩
      · by_cases h1 : 97 ≤ c.toNat ∧ c.toNat ≤ 102
        · exact ⟨_, by rw [if_neg h0, if_pos h1]⟩
        · exact ⟨_, by rw [if_neg h0, if_neg h1, if_pos h]⟩

theorem hexVal_eq_digitValue {c : Char} {v : Nat} (h : hexVal c = some v) : v = digitValue c := by
  unfold hexVal at h
  unfold digitValue
  simp only [] at h ⊢
  split at h
  · rename_i h0; simp at h; subst h; simp [h0.2]
  · rename_i h0
    split at h
    · rename_i h1
      simp at h; subst h
      have : ¬ c.toNat ≤ 57 := by omega
      simp [this, h1.1]
    · rename_i h1
      split at h
      · rename_i h2
        simp at h; subst h
        have a : ¬ c.toNat ≤ 57 := by omega
        have b : ¬ 97 ≤ c.toNat := by omega
        simp [a, b]
      · simp at h

theorem two_step_induction {P : List Char → Prop} (h0 : P []) (h1 : ∀ c, P [c])
    (h2 : ∀ a c rest, P rest → P (a :: c :: rest)) : ∀ s, P s := by
  intro s
  have : P s ∧ ∀ x, P (x :: s) := by
    induction s with
    | nil => exact ⟨h0, h1⟩
    | cons y ys ih => exact ⟨ih.2 y, fun x => h2 x y ys ih.1⟩
  exact this.1

/-- `hex::decode` succeeds exactly on an even number of hex digits, and yields the bytes they denote -/
theorem hexDecode_some_iff (s : List Char) : ∀ (b : Bytes),
    decodeHex s = some b ↔ (∀ c ∈ s, isHexDigit c = true) ∧ s.length = 2 * b.length ∧ b = hexValue s := by
  unfold decodeHex
  induction s using two_step_induction with
  | h0 =>
    intro b
    simp only [hexDecodeChars, hexValue, List.length_nil]
    constructor
    · intro h; simp at h; subst h; simp
    · rintro ⟨_, _, h⟩; simp [h]
  | h1 c =>
    intro b
    simp only [hexDecodeChars, List.length_cons, List.length_nil]
    constructor
    · intro h; simp at h
    · rintro ⟨_, hl, _⟩; omega
  | h2 a c rest ih =>
    intro b
    simp only [hexDecodeChars]
    constructor
    · intro h
      cases ha : hexVal a with
      | none => simp [ha] at h
      | some x =>
        cases hc : hexVal c with
        | none => simp [ha, hc] at h
        | some y =>
          cases hr : hexDecodeChars rest with
          | none => simp [ha, hc, hr] at h
          | some r =>
            simp only [ha, hc, hr, Option.some.injEq] at h
            subst h
            obtain ⟨h1, h2, h3⟩ := (ih r).mp hr
            refine ⟨?_, ?_, ?_⟩
            · intro ch hch
              simp only [List.mem_cons] at hch
              rcases hch with rfl | rfl | hch
              · exact (hexVal_some_iff _).mp ⟨_, ha⟩
              · exact (hexVal_some_iff _).mp ⟨_, hc⟩
              · exact h1 ch hch
            · simp only [List.length_cons]; omega
            · simp only [hexValue, ← h3, hexVal_eq_digitValue ha, hexVal_eq_digitValue hc]
    · rintro ⟨h1, h2, h3⟩
      obtain ⟨x, ha⟩ := (hexVal_some_iff a).mpr (h1 a (by simp))
      obtain ⟨y, hc⟩ := (hexVal_some_iff c).mpr (h1 c (by simp))
      cases b with
      | nil => simp at h2
      | cons b0 bs =>
        simp only [hexValue, List.cons.injEq] at h3
        have hrest := (ih bs).mpr ⟨fun ch hch => h1 ch (by simp [hch]), by simp only [List.length_cons] at h2; omega, h3.2⟩
        simp only [ha, hc, hrest, Option.some.injEq, List.cons.injEq, and_true]
        rw [h3.1, hexVal_eq_digitValue ha, hexVal_eq_digitValue hc]

/-! ### `split_once(':')` -/

theorem splitOnceColon_some_iff (s k v : List Char) :
    splitOnceColon s = some (k, v) ↔ s = k ++ ':' :: v ∧ ':' ∉ k := by
  induction s generalizing k with
  | nil => simp [splitOnceColon]
  | cons c rest ih =>
    simp only [splitOnceColon]
    by_cases hc : c = ':'
    · subst hc
      simp only [if_true, Option.some.injEq, Prod.mk.injEq]
      constructor
      · rintro ⟨rfl, rfl⟩; simp
      · rintro ⟨h, hk⟩
        cases k with
        | nil => simp only [List.nil_append, List.cons.injEq, true_and] at h; exact ⟨rfl, h⟩
        | cons k0 ks =>
          simp only [List.cons_append, List.cons.injEq] at h
          exact absurd (by simp [← h.1]) hk
    · simp only [hc, if_false]
      constructor
      · intro h
        cases hr : splitOnceColon rest with
        | none => simp [hr] at h
        | some p =>
          obtain ⟨k', v'⟩ := p
          simp only [hr, Option.some.injEq, Prod.mk.injEq] at h
          obtain ⟨rfl, rfl⟩ := h
          obtain ⟨h1, h2⟩ := (ih k').mp hr
          refine ⟨by simp [h1], ?_⟩
          simp only [List.mem_cons, not_or]
          exact ⟨fun e => hc e.symm, h2⟩
      · rintro ⟨h, hk⟩
        cases k with
        | nil => simp only [List.nil_append, List.cons.injEq] at h; exact absurd h.1 hc
        | cons k0 ks =>
          simp only [List.cons_append, List.cons.injEq] at h
          obtain ⟨rfl, hrest⟩ := h
          have := (ih ks).mpr ⟨hrest, fun hm => hk (by simp [hm])⟩
          simp [this]

theorem splitOnceColon_none_iff (s : List Char) : splitOnceColon s = none ↔ ':' ∉ s := by
  induction s with
  | nil => simp [splitOnceColon]
  | cons c rest ih =>
    simp only [splitOnceColon]
    by_cases hc : c = ':'
    · subst hc; simp
    · simp only [hc, if_false, List.mem_cons, not_or]
      cases hr : splitOnceColon rest with
      | none => simp [← ih, hr]; exact fun e => hc e.symm
      | some p => simp [← ih, hr]

/-! ### the grammar -/

theorem mem_splits (s : List Char) (p : List Char × List Char) : p ∈ splits s ↔ s = p.1 ++ p.2 := by
  induction s generalizing p with
  | nil =>
    obtain ⟨a, b⟩ := p
    simp [splits]
  | cons c rest ih =>
    obtain ⟨a, b⟩ := p
    simp only [splits, List.mem_cons, List.mem_map, Prod.mk.injEq]
    constructor
    · rintro (⟨rfl, rfl⟩ | ⟨q, hq, rfl, rfl⟩)
      · simp
      · simp [(ih q).mp hq]
    · intro h
      cases a with
      | nil => left; simpa using h.symm
      | cons a0 as =>
        simp only [List.cons_append, List.cons.injEq] at h
        right
        exact ⟨(as, b), (ih (as, b)).mpr h.2, by simp [h.1], rfl⟩

theorem acceptsAt_iff (d : Digest) (name post : List Char) :
    acceptsAt d (name, post) = true ↔ ∃ hex, post = ':' :: hex ∧ ':' ∉ name ∧ d.nameCompatible name = true ∧
      (∀ c ∈ hex, isHexDigit c = true) ∧ ∃ n, hex.length = 2 * n ∧ d.lengthCompatible n = true := by
  unfold acceptsAt
  cases post with
  | nil => simp
  | cons p0 hex =>
    by_cases hp : p0 = ':'
    · subst hp
      simp only [Bool.and_eq_true, Bool.not_eq_true', List.contains_eq_mem, decide_eq_false_iff_not, List.all_eq_true,
        beq_iff_eq, List.cons.injEq, true_and, exists_eq_left']
      constructor
      · rintro ⟨⟨⟨⟨h1, h2⟩, h3⟩, h4⟩, h5⟩
        exact ⟨h1, h2, h3, hex.length / 2, by omega, h5⟩
      · rintro ⟨h1, h2, h3, n, h4, h5⟩
        have : hex.length / 2 = n := by omega
        exact ⟨⟨⟨⟨h1, h2⟩, h3⟩, by omega⟩, by rw [this]; exact h5⟩
    · have : ∀ hex', ¬ (p0 :: hex = ':' :: hex') := by
        intro hex' h; simp only [List.cons.injEq] at h; exact hp h.1
      constructor
      · intro h
        split at h
        · rename_i heq; exact absurd heq (this _)
        · simp at h
      · rintro ⟨hex', h, _⟩; exact absurd h (this _)

theorem accepts_iff_grammar (d : Digest) (s : List Char) : accepts d s = true ↔ ChecksumGrammar d s := by
  unfold accepts ChecksumGrammar
  simp only [List.any_eq_true]
  constructor
  · rintro ⟨⟨name, post⟩, hm, ha⟩
    obtain ⟨hex, rfl, h⟩ := (acceptsAt_iff d name post).mp ha
    exact ⟨name, hex, (mem_splits s _).mp hm, h⟩
  · rintro ⟨name, hex, hs, h⟩
    exact ⟨(name, ':' :: hex), (mem_splits s _).mpr hs, (acceptsAt_iff d name _).mpr ⟨hex, rfl, h⟩⟩

end CnbVerif.Inventory
