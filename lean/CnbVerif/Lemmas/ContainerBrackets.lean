import CnbVerif.Lemmas.TestRunner
import CnbVerif.Model.TestRunnerFaults
/-!
C16, the container clause read strictly: in the model's command log every `docker run` that names a container for
`start_container` is followed by **exactly one** `docker rm` of that container, and no command after that `rm` addresses
the container again (removed once, after its last use) — for every oracle and every way the run ends, abort included.

The log is a sequence of *brackets* over increasing identifiers: identifier `k` is used by the `k`-th
`start_container` / `run_shell_command`, nowhere else.
-/
namespace CnbVerif.TestRunner
open CnbVerif CnbVerif.Argv

def isRmOf (n : Word) : ACmd → Bool
  | .rm c => c == n
  | _ => false

/-- the command addresses container `n` (`--name n`, or `n` as the container argument of exec / logs / port / rm) -/
def addresses (n : Word) (a : ACmd) : Bool := a.container? == some n

/-- the first `docker rm n` exists and nothing after it addresses `n` -/
def removedOnceAfter (n : Word) : List ACmd → Bool
  | [] => false
  | a :: rest => if isRmOf n a then rest.all (fun d => !addresses n d) else removedOnceAfter n rest

/-- every detached `docker run` is followed by exactly one `docker rm` of its container, after the container's last use -/
def removedOnce : List ACmd → Bool
  | [] => true
  | a :: rest =>
    (match a with
     | .run c => !c.detach || removedOnceAfter c.containerName rest
     | _ => true) && removedOnce rest

/-- log segments that use the identifiers `lo ≤ k < hi`, each for one `docker run` (bracketed by its `docker rm` when it
is a `start_container`) or for nothing at all -/
inductive Brackets : Nat → Nat → List ACmd → Prop
  | nil (lo : Nat) : Brackets lo lo []
  | skip (lo hi : Nat) (l : List ACmd) : Brackets (lo + 1) hi l → Brackets lo hi l
  | free (a : ACmd) (lo hi : Nat) (rest : List ACmd) : a.container? = none → Brackets lo hi rest → Brackets lo hi (a :: rest)
  | shell (c : DockerRunCommand) (lo hi : Nat) (rest : List ACmd) : c.detach = false → c.containerName = nameWord lo →
      Brackets (lo + 1) hi rest → Brackets lo hi (.run c :: rest)
  | container (c : DockerRunCommand) (mid : List ACmd) (lo hi : Nat) (rest : List ACmd) : c.containerName = nameWord lo →
      (∀ a ∈ mid, IsInner (nameWord lo) a) → Brackets (lo + 1) hi rest →
      Brackets lo hi (.run c :: (mid ++ .rm (nameWord lo) :: rest))

theorem Brackets.append {lo m hi : Nat} {a b : List ACmd} (ha : Brackets lo m a) (hb : Brackets m hi b) :
    Brackets lo hi (a ++ b) := by
  induction ha with
  | nil lo => simpa using hb
  | skip lo m l _ ih => exact Brackets.skip _ _ _ (ih hb)
  | free x lo m rest hx _ ih => exact Brackets.free x _ _ _ hx (ih hb)
  | shell c lo m rest hd hn _ ih => exact Brackets.shell c _ _ _ hd hn (ih hb)
  | container c mid lo m rest hn hm _ ih =>
    have := Brackets.container c mid lo hi (rest ++ b) hn hm (ih hb)
    simpa [List.append_assoc] using this

theorem nameWord_inj {j k : Nat} (h : nameWord j = nameWord k) : j = k := by
  simpa [nameWord] using h

theorem addresses_inner {n ctr : Word} {a : ACmd} (h : IsInner ctr a) : addresses n a = (ctr == n) := by
  cases a <;> simp_all [IsInner, addresses, ACmd.container?]

theorem isRmOf_inner {n ctr : Word} {a : ACmd} (h : IsInner ctr a) : isRmOf n a = false := by
  cases a <;> simp_all [IsInner, isRmOf]

/-- a segment over identifiers `≥ lo` addresses no container with a smaller identifier -/
theorem Brackets.fresh {lo hi : Nat} {l : List ACmd} (h : Brackets lo hi l) :
    ∀ j, j < lo → ∀ a ∈ l, addresses (nameWord j) a = false := by
  induction h with
  | nil lo => intro j _ a ha; simp at ha
  | skip lo hi l _ ih => intro j hj a ha; exact ih j (Nat.lt_succ_of_lt hj) a ha
  | free x lo hi rest hx _ ih =>
    intro j hj a ha
    rcases List.mem_cons.mp ha with e | e
    · subst e; simp [addresses, hx]
    · exact ih j hj a e
  | shell c lo hi rest _ hn _ ih =>
    intro j hj a ha
    rcases List.mem_cons.mp ha with e | e
    · subst e
      simp only [addresses, ACmd.container?, hn]
      have : nameWord lo ≠ nameWord j := fun e => by have := nameWord_inj e; omega
      simpa using this
    · exact ih j (Nat.lt_succ_of_lt hj) a e
  | container c mid lo hi rest hn hm _ ih =>
    intro j hj a ha
    have hne : nameWord lo ≠ nameWord j := fun e => by have := nameWord_inj e; omega
    simp only [List.mem_cons, List.mem_append] at ha
    rcases ha with e | e | e | e
    · subst e; simp only [addresses, ACmd.container?, hn]; simpa using hne
    · rw [addresses_inner (hm a e)]; simpa using hne
    · subst e; simp only [addresses, ACmd.container?]; simpa using hne
    · exact ih j (Nat.lt_succ_of_lt hj) a e

theorem removedOnceAfter_inner_prefix {n : Word} (mid : List ACmd) (hm : ∀ a ∈ mid, IsInner n a) (Z : List ACmd) :
    removedOnceAfter n (mid ++ Z) = removedOnceAfter n Z := by
  induction mid with
  | nil => rfl
  | cons a r ih =>
    simp only [List.cons_append, removedOnceAfter, isRmOf_inner (hm a (by simp)), Bool.false_eq_true, if_false]
    exact ih (fun x hx => hm x (by simp [hx]))

theorem removedOnce_inner_prefix {n : Word} (mid : List ACmd) (hm : ∀ a ∈ mid, IsInner n a) (Z : List ACmd) :
    removedOnce (mid ++ Z) = removedOnce Z := by
  induction mid with
  | nil => rfl
  | cons a r ih =>
    have h := hm a (by simp)
    have : removedOnce (a :: (r ++ Z)) = removedOnce (r ++ Z) := by
      cases a <;> simp_all [IsInner, removedOnce]
    rw [List.cons_append, this]
    exact ih (fun x hx => hm x (by simp [hx]))

theorem Brackets.removedOnce {lo hi : Nat} {l : List ACmd} (h : Brackets lo hi l) : removedOnce l = true := by
  induction h with
  | nil lo => rfl
  | skip lo hi l _ ih => exact ih
  | free x lo hi rest hx _ ih =>
    have : TestRunner.removedOnce (x :: rest) = TestRunner.removedOnce rest := by
      cases x <;> simp_all [TestRunner.removedOnce, ACmd.container?]
    rw [this]; exact ih
  | shell c lo hi rest hd _ _ ih => simp [TestRunner.removedOnce, hd, ih]
  | container c mid lo hi rest hn hm hrest ih =>
    have hafter : removedOnceAfter (nameWord lo) (mid ++ .rm (nameWord lo) :: rest) = true := by
      rw [removedOnceAfter_inner_prefix mid hm]
      simp only [removedOnceAfter, isRmOf, beq_self_eq_true, if_true]
      rw [List.all_eq_true]
      intro d hd
      simp [hrest.fresh lo (Nat.lt_succ_self lo) d hd]
    have hrestOnce : TestRunner.removedOnce (mid ++ .rm (nameWord lo) :: rest) = true := by
      rw [removedOnce_inner_prefix mid hm]
      simp [TestRunner.removedOnce, ih]
    simp [TestRunner.removedOnce, hn, hafter, hrestOnce]

/-! ### the evaluators produce brackets -/

/-- `s'` extends the log of `s` by brackets over the identifiers `s.ids ≤ k < s'.ids` -/
def BExt (s s' : St) : Prop := ∃ es : List Entry, s'.log = s.log ++ es ∧ Brackets s.ids s'.ids (cmdsOf es)

theorem BExt.of_eq {s s' : St} (hl : s'.log = s.log) (hi : s'.ids = s.ids) : BExt s s' :=
  ⟨[], by simp [hl], by rw [hi]; exact Brackets.nil _⟩

theorem BExt.refl (s : St) : BExt s s := BExt.of_eq rfl rfl

theorem BExt.trans {s s1 s2 : St} (h1 : BExt s s1) (h2 : BExt s1 s2) : BExt s s2 := by
  obtain ⟨e1, l1, p1⟩ := h1
  obtain ⟨e2, l2, p2⟩ := h2
  exact ⟨e1 ++ e2, by rw [l2, l1, List.append_assoc], by simpa using Brackets.append p1 p2⟩

theorem BExt.free (o : Oracle) (base : Res) (c : ACmd) (s : St) (h : c.container? = none) : BExt s (s.exec o base c).2 :=
  ⟨[⟨c, (s.exec o base c).1⟩], exec_log o base c s, by
    rw [exec_ids]; exact Brackets.free c _ _ _ h (Brackets.nil _)⟩

theorem evalCAct_ids (o : Oracle) (ctr : Word) (cfg : ContainerConfig) (a : CAct) (s : St) :
    (evalCAct o ctr cfg a s).2.ids = s.ids := by
  cases a with
  | port p =>
    simp only [evalCAct]
    split
    · split <;> rfl
    · rfl
  | _ => rfl

theorem evalCActs_ids (o : Oracle) (ctr : Word) (cfg : ContainerConfig) (cas : List CAct) (s : St) :
    (evalCActs o ctr cfg cas s).2.ids = s.ids := by
  induction cas generalizing s with
  | nil => rfl
  | cons a r ih =>
    simp only [evalCActs]
    split
    · rw [ih, evalCAct_ids]
    · exact evalCAct_ids o ctr cfg a s

theorem evalStart_brackets (o : Oracle) (image triple : Word) (cfg : ContainerConfig) (cas : List CAct) (s : St) :
    BExt s (evalStart o image triple cfg cas s).2 := by
  simp only [evalStart]
  cases hp : platformOf triple with
  | none => exact ⟨[], by simp, Brackets.skip _ _ _ (Brackets.nil _)⟩
  | some plat =>
    simp only []
    generalize hs0 : ({ s with ids := s.ids + 1 } : St) = s0
    have hs0log : s0.log = s.log := by rw [← hs0]
    have hs0i : s0.ids = s.ids + 1 := by rw [← hs0]
    generalize hc : startContainerCommand image (nameWord s.ids) plat cfg = c
    have hcn : c.containerName = nameWord s.ids := by rw [← hc]; rfl
    generalize hr1 : s0.exec o .ok (.run c) = r1
    have hr1log : r1.2.log = s0.log ++ [⟨.run c, r1.1⟩] := by rw [← hr1]; rfl
    have hr1i : r1.2.ids = s0.ids := by rw [← hr1]; rfl
    have hmid : ∃ mid : List Entry, (if r1.1 = .ok then evalCActs o (nameWord s.ids) cfg cas r1.2 else (.panicked, r1.2)).2.log
        = r1.2.log ++ mid ∧ AllInner (nameWord s.ids) (cmdsOf mid)
        ∧ (if r1.1 = .ok then evalCActs o (nameWord s.ids) cfg cas r1.2 else (.panicked, r1.2)).2.ids = r1.2.ids := by
      by_cases hok : r1.1 = .ok
      · simp only [hok, if_true]
        obtain ⟨⟨mid, l, p⟩, _, _⟩ := evalCActs_spec o (nameWord s.ids) cfg cas r1.2
        exact ⟨mid, l, p, evalCActs_ids o _ cfg cas r1.2⟩
      · simp only [hok, if_false]
        exact ⟨[], by simp, by intro x hx; simp at hx, by simp⟩
    obtain ⟨mid, hml, hmp, hmi⟩ := hmid
    generalize hr2 : (if r1.1 = .ok then evalCActs o (nameWord s.ids) cfg cas r1.2 else (Outcome.panicked, r1.2)) = r2 at hml hmi
    generalize hr3 : r2.2.exec o .ok (.rm (nameWord s.ids)) = r3
    have hr3log : r3.2.log = r2.2.log ++ [⟨.rm (nameWord s.ids), r3.1⟩] := by rw [← hr3]; rfl
    have hr3i : r3.2.ids = r2.2.ids := by rw [← hr3]; rfl
    have hfinal : BExt s r3.2 := by
      refine ⟨[⟨.run c, r1.1⟩] ++ mid ++ [⟨.rm (nameWord s.ids), r3.1⟩], ?_, ?_⟩
      · rw [hr3log, hml, hr1log, hs0log]; simp [List.append_assoc]
      · rw [hr3i, hmi, hr1i, hs0i]
        have := Brackets.container c (cmdsOf mid) s.ids (s.ids + 1) [] hcn hmp (Brackets.nil _)
        simpa [cmdsOf] using this
    split
    · exact hfinal
    · split <;> exact hfinal

theorem release_ids (s : St) (gs : List Guard) : (s.release gs).ids = s.ids := rfl

theorem evalAct_brackets (o : Oracle) (image triple : Word) (a : Act) (s : St) : BExt s (evalAct o image triple a s).2 := by
  cases a with
  | startContainer cfg cas => exact evalStart_brackets o image triple cfg cas s
  | panic => exact BExt.refl s
  | runShell cmd =>
    simp only [evalAct]
    cases platformOf triple with
    | none => exact ⟨[], by simp, Brackets.skip _ _ _ (Brackets.nil _)⟩
    | some plat =>
      refine ⟨[⟨.run (runShellCommand image (nameWord s.ids) plat cmd), _⟩], exec_log o .ok _ _, ?_⟩
      rw [exec_ids]
      exact Brackets.shell _ _ _ _ rfl rfl (Brackets.nil _)
  | downloadSbom =>
    simp only [evalAct]
    have h := BExt.free o .ok (.sbom image (tmpWord s.tmps)) { s with tmps := s.tmps + 1, guards := .sbomDir s.tmps :: s.guards } rfl
    obtain ⟨es, l, p⟩ := h
    exact ⟨es, by rw [release_log, l], by rw [release_ids]; exact p⟩

theorem evalActs_brackets (o : Oracle) (image triple : Word) (acts : List Act) (s : St) :
    BExt s (evalActs o image triple acts s).2 := by
  induction acts generalizing s with
  | nil => exact BExt.refl s
  | cons a r ih =>
    have h1 := evalAct_brackets o image triple a s
    simp only [evalActs]
    split
    · exact BExt.trans h1 (ih _)
    · exact h1

theorem dropResources_brackets (o : Oracle) (res : Resources) (s : St) : BExt s (dropResources o res s) :=
  BExt.trans (BExt.free o .ok (.rmi res.imageName) s rfl) (BExt.free o .ok (.volRm _) _ rfl)

theorem BExt.release {s s' : St} (h : BExt s s') (gs : List Guard) : BExt s (s'.release gs) := by
  obtain ⟨es, l, p⟩ := h
  exact ⟨es, by rw [release_log, l], by rw [release_ids]; exact p⟩

theorem evalBuilds_brackets (o : Oracle) (res : Resources) (builds : List Build) (s : St) :
    BExt s (evalBuilds o res builds s).2 := by
  induction builds generalizing s with
  | nil => exact dropResources_brackets o res s
  | cons b rest ih =>
    simp only [evalBuilds]
    split
    · exact dropResources_brackets o res s
    · generalize hs0 : ({ s with tmps := s.tmps + (buildGuards b s).length, guards := buildGuards b s ++ s.guards } : St) = s0
      have h0 : BExt s s0 := BExt.of_eq (by rw [← hs0]) (by rw [← hs0])
      have hpack : BExt s (s0.exec o b.cfg.packResult (.packBuild (packBuildCommand res b.cfg.cfg (buildAppPath b s)))).2 :=
        BExt.trans h0 (BExt.free o _ _ s0 rfl)
      generalize s0.exec o b.cfg.packResult (.packBuild (packBuildCommand res b.cfg.cfg (buildAppPath b s))) = r at hpack
      split
      · exact BExt.trans (hpack.release _) (dropResources_brackets o res _)
      · have hacts := BExt.trans hpack (evalActs_brackets o res.imageName b.cfg.triple b.acts r.2)
        generalize evalActs o res.imageName b.cfg.triple b.acts r.2 = ra at hacts
        split
        · exact hacts
        · exact (BExt.trans hacts (dropResources_brackets o res _)).release _
        · have hb := BExt.trans hacts (ih ra.2)
          split
          · exact hb
          · exact hb.release _

/-- the whole run: whatever the oracle, however it ends -/
theorem run_removedOnce (o : Oracle) (sc : Scenario) : removedOnce (cmdsOf (run o sc).2.log) = true := by
  obtain ⟨es, l, p⟩ := evalBuilds_brackets o (resourcesFor (nameWord 0)) sc initSt
  have : (run o sc).2.log = es := by unfold run; rw [l]; simp [initSt]
  rw [this]
  exact p.removedOnce

end CnbVerif.TestRunner
