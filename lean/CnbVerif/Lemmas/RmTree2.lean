import CnbVerif.Lemmas.RmTree
/-! Lemmas for C11, part 2: `remove_dir_recursively` touches nothing outside its argument, never reports not-found for
something that is there, and on success leaves nothing; `delete_layer`. -/
namespace CnbVerif.RmTree
open CnbVerif

/-- nothing outside `p` (neither `p` itself nor anything below it) differs between `s` and `s'` -/
def Untouched (p : Path) (s s' : FS) : Prop := ∀ k, isPre p k = false → fget s' k = fget s k

theorem Untouched.refl (p : Path) (s : FS) : Untouched p s s := fun _ _ => rfl

theorem Untouched.trans {p : Path} {a b c : FS} (h1 : Untouched p a b) (h2 : Untouched p b c) : Untouched p a c :=
  fun k hk => (h2 k hk).trans (h1 k hk)

theorem untouched_ferase (p : Path) (s : FS) : Untouched p s (ferase s p) := by
  intro k hk
  apply fget_ferase_ne
  intro e; subst e; rw [isPre_refl] at hk; cases hk

theorem untouched_fset (p : Path) (s : FS) (v : Node) : Untouched p s (fset s p v) := by
  intro k hk
  apply fget_fset_ne
  intro e; subst e; rw [isPre_refl] at hk; cases hk

theorem untouched_snoc {p : Path} {x : Name} {s s' : FS} (h : Untouched (p ++ [x]) s s') : Untouched p s s' :=
  fun k hk => h k (isPre_snoc_false x hk)

/-- proper prefixes of `p` are not at or below `p` -/
theorem isPre_proper_false {p pre : Path} {y : Name} {rest : Path} (hp : p = pre ++ y :: rest) : isPre p pre = false :=
  isPre_false_of_lt (by rw [hp]; simp)

theorem canon_of_untouched {p : Path} {s s' : FS} (hc : Canon s p) (h : Untouched p s s') : Canon s' p :=
  canon_of_agree hc (fun _ _ _ hp => h _ (isPre_proper_false hp))

theorem lift_snd_cases (fs : FS) (r : Except Err FS) :
    (lift fs r).2 = fs ∨ ∃ fs', r = .ok fs' ∧ (lift fs r).2 = fs' := by
  cases r with
  | error e => left; rfl
  | ok fs' => right; exact ⟨fs', rfl, rfl⟩

theorem unlink_untouched (root : Bool) (s : FS) (p : Path) (hne : p ≠ []) (hc : Canon s p) :
    Untouched p s (lift s (unlink root s p)).2 := by
  cases unlink_canon root s p hne hc with
  | failed e h _ => rw [h]; exact Untouched.refl _ _
  | erased h _ => rw [h]; exact untouched_ferase _ _

theorem rmdir_untouched (root : Bool) (s : FS) (p : Path) (hne : p ≠ []) (hc : Canon s p) :
    Untouched p s (lift s (rmdir root s p)).2 := by
  cases rmdir_canon root s p hne hc with
  | failed e h _ => rw [h]; exact Untouched.refl _ _
  | erased h _ => rw [h]; exact untouched_ferase _ _

/-- keys that are neither a child of `p` nor below one -/
def OffChildren (p k : Path) : Prop := ∀ x : Name, isPre (p ++ [x]) k = false

theorem offChildren_self (p : Path) : OffChildren p p := fun x => isPre_snoc_self_false p x

theorem offChildren_of_not_pre {p k : Path} (h : isPre p k = false) : OffChildren p k :=
  fun x => isPre_snoc_false x h

theorem offChildren_proper {p pre : Path} {y : Name} {rest : Path} (hp : p = pre ++ y :: rest) : OffChildren p pre :=
  offChildren_of_not_pre (isPre_proper_false hp)

theorem isDirAt_congr {s s' : FS} {k : Path} (h : fget s' k = fget s k) : isDirAt s' k = isDirAt s k := by
  unfold isDirAt; rw [h]

/-- entries flagged as directories stay directories while an earlier, different entry is being removed -/
theorem dirs_step {p : Path} {x : Name} {b : Bool} {es : List (Name × Bool)} {s s' : FS}
    (hstep : Untouched (p ++ [x]) s s') (hx : x ∉ es.map Prod.fst)
    (hdirs : ∀ y, (y, true) ∈ (x, b) :: es → isDirAt s (p ++ [y]) = true) :
    ∀ y, (y, true) ∈ es → isDirAt s' (p ++ [y]) = true := by
  intro y hy
  have hxy : x ≠ y := by intro e; subst e; exact hx (List.mem_map.mpr ⟨(x, true), hy, rfl⟩)
  rw [isDirAt_congr (hstep (p ++ [y]) (isPre_snoc_snoc hxy))]
  exact hdirs y (List.mem_cons_of_mem _ hy)

section Loop
variable (root : Bool) (rec : FS → Path → Res)
variable (hrec : ∀ (s : FS) (q : Path), q ≠ [] → Canon s q → isDirAt s q = true → Untouched q s (rec s q).2)

include hrec in
/-- the entry loop changes nothing except at or below children of `p` -/
theorem rmEntries_frame (p : Path) :
    ∀ (es : List (Name × Bool)) (s : FS), Canon s p → isDirAt s p = true → (es.map Prod.fst).Nodup →
      (∀ x, (x, true) ∈ es → isDirAt s (p ++ [x]) = true) →
      ∀ k, OffChildren p k → fget (rmEntries root rec p es s).2 k = fget s k := by
  intro es
  induction es with
  | nil => intro s _ _ _ _ k _; rfl
  | cons e es ih =>
    intro s hc hd hnd hdirs k hk
    obtain ⟨x, isD⟩ := e
    have hcc : Canon s (p ++ [x]) := canon_snoc x hc hd
    have hne' : p ++ [x] ≠ [] := by simp
    -- one step
    have hstep : Untouched (p ++ [x]) s
        (if isD then rec s (p ++ [x]) else lift s (unlink root s (p ++ [x]))).2 := by
      cases isD with
      | true => simpa using hrec s (p ++ [x]) hne' hcc (hdirs x List.mem_cons_self)
      | false => simpa using unlink_untouched root s (p ++ [x]) hne' hcc
    unfold rmEntries
    generalize (if isD then rec s (p ++ [x]) else lift s (unlink root s (p ++ [x]))) = r at hstep
    obtain ⟨res, s'⟩ := r
    cases res with
    | error e => exact hstep k (hk x)
    | ok u =>
      simp only
      have hc' : Canon s' p := canon_of_agree hc (fun _ _ _ hp => hstep _ (offChildren_proper hp x))
      have hd' : isDirAt s' p = true := by
        unfold isDirAt at hd ⊢
        rw [hstep p (offChildren_self p x)]; exact hd
      simp only [List.map_cons, List.nodup_cons] at hnd
      rw [ih s' hc' hd' hnd.2 (dirs_step hstep hnd.1 hdirs) k hk]
      exact hstep k (hk x)

end Loop

/-- **Frame of the recursion.** `remove_dir_recursively p` changes nothing that is neither `p` nor below `p`, whatever
is inside and however it ends. -/
theorem rmRec_untouched (root : Bool) : ∀ (f : Nat) (s : FS) (p : Path), p ≠ [] → Canon s p →
    Untouched p s (rmRec root f s p).2 := by
  intro f
  induction f with
  | zero => intro s p _ _; exact Untouched.refl _ _
  | succ f ih =>
    intro s p hne hc
    unfold rmRec
    cases lstat_canon root s p hne hc with
    | access h => rw [h]; exact Untouched.refl _ _
    | absent h _ => rw [h]; exact Untouched.refl _ _
    | here v h hv =>
      rw [h]
      have main : ∀ (_ : isLinkAt s p = false) (hnh : isHardAt s p = false), Untouched p s
          (match chmod root s p 0o777 with
            | .error e => (Except.error e, s)
            | .ok fs1 =>
              match readDir root fs1 p with
              | .error e => (Except.error e, fs1)
              | .ok entries =>
                match rmEntries root (fun s q => rmRec root f s q) p entries fs1 with
                | (.error e, fs2) => (Except.error e, fs2)
                | (.ok _, fs2) => lift fs2 (rmdir root fs2 p)).2 := by
        intro hl hnh
        cases chmod_canon root s p 0o777 hne hc hl hnh with
        | failed e hch _ => rw [hch]; exact Untouched.refl _ _
        | done v0 v' hch hv0 hdir hlink =>
          rw [hch]
          dsimp only
          have hu1 : Untouched p s (fset s p v') := untouched_fset _ _ _
          have hc1 : Canon (fset s p v') p := canon_of_untouched hc hu1
          have hl1 : isLinkAt (fset s p v') p = false := by
            unfold isLinkAt; rw [fget_fset_self]
            cases v' with
            | link t => simp [Node.isLink] at hlink
            | file m c => rfl
            | hard i m c => rfl
            | dir m => rfl
          cases readDir_canon root (fset s p v') p hne hc1 hl1 with
          | failed e hrd _ => rw [hrd]; exact hu1
          | done es hrd hd1 hnd _ hdirs =>
            rw [hrd]
            simp only
            have hloop := rmEntries_frame root (fun s q => rmRec root f s q)
              (fun s q hq hcq _ => ih s q hq hcq) p es (fset s p v') hc1 hd1 hnd hdirs
            generalize rmEntries root (fun s q => rmRec root f s q) p es (fset s p v') = r at hloop
            obtain ⟨res, s2⟩ := r
            have hu2 : Untouched p (fset s p v') s2 := fun k hk => hloop k (offChildren_of_not_pre hk)
            cases res with
            | error e => exact hu1.trans hu2
            | ok u =>
              simp only
              have hc2 : Canon s2 p := canon_of_untouched hc1 hu2
              exact (hu1.trans hu2).trans (rmdir_untouched root s2 p hne hc2)
      cases v with
      | link t => simp only; exact unlink_untouched root s p hne hc
      | file m c => simp only; exact unlink_untouched root s p hne hc
      | hard i m c => simp only; exact unlink_untouched root s p hne hc
      | dir m => exact main (by simp [isLinkAt, hv]) (by simp [isHardAt, hv])

/-! ### not-found is never reported for something that is there -/

theorem lift_ne_notFound_unlink (root : Bool) (s : FS) (p : Path) (hne : p ≠ []) (hc : Canon s p)
    (hs : (fget s p).isSome = true) : (lift s (unlink root s p)).1 ≠ .error .notFound := by
  cases unlink_canon root s p hne hc with
  | failed e h hn =>
    rw [h]; intro heq
    have : e = .notFound := by simpa [lift] using heq
    rw [hn this] at hs; cases hs
  | erased h _ => rw [h]; intro heq; cases heq

section Loop2
variable (root : Bool) (rec : FS → Path → Res)
variable (hrec : ∀ (s : FS) (q : Path), q ≠ [] → Canon s q → isDirAt s q = true → Untouched q s (rec s q).2)
variable (hnn : ∀ (s : FS) (q : Path), q ≠ [] → Canon s q → isDirAt s q = true → (fget s q).isSome = true →
  (rec s q).1 ≠ .error .notFound)

include hrec hnn in
theorem rmEntries_ne_notFound (p : Path) :
    ∀ (es : List (Name × Bool)) (s : FS), Canon s p → isDirAt s p = true → (es.map Prod.fst).Nodup →
      (∀ x ∈ es.map Prod.fst, (fget s (p ++ [x])).isSome = true) →
      (∀ x, (x, true) ∈ es → isDirAt s (p ++ [x]) = true) →
      (rmEntries root rec p es s).1 ≠ .error .notFound := by
  intro es
  induction es with
  | nil => intro s _ _ _ _ _ h; cases h
  | cons e es ih =>
    intro s hc hd hnd hpres hdirs
    obtain ⟨x, isD⟩ := e
    have hcc : Canon s (p ++ [x]) := canon_snoc x hc hd
    have hne' : p ++ [x] ≠ [] := by simp
    have hx : (fget s (p ++ [x])).isSome = true := hpres x (by simp)
    have hstep : Untouched (p ++ [x]) s
        (if isD then rec s (p ++ [x]) else lift s (unlink root s (p ++ [x]))).2 := by
      cases isD with
      | true => simpa using hrec s (p ++ [x]) hne' hcc (hdirs x List.mem_cons_self)
      | false => simpa using unlink_untouched root s (p ++ [x]) hne' hcc
    have hres : (if isD then rec s (p ++ [x]) else lift s (unlink root s (p ++ [x]))).1 ≠ .error .notFound := by
      cases isD with
      | true => simpa using hnn s (p ++ [x]) hne' hcc (hdirs x List.mem_cons_self) hx
      | false => simpa using lift_ne_notFound_unlink root s (p ++ [x]) hne' hcc hx
    unfold rmEntries
    generalize (if isD then rec s (p ++ [x]) else lift s (unlink root s (p ++ [x]))) = r at hstep hres
    obtain ⟨res, s'⟩ := r
    cases res with
    | error e => simpa using hres
    | ok u =>
      simp only
      have hc' : Canon s' p := canon_of_agree hc (fun _ _ _ hp => hstep _ (offChildren_proper hp x))
      have hd' : isDirAt s' p = true := by
        unfold isDirAt at hd ⊢
        rw [hstep p (offChildren_self p x)]; exact hd
      simp only [List.map_cons, List.nodup_cons] at hnd
      refine ih s' hc' hd' hnd.2 ?_ (dirs_step hstep hnd.1 hdirs)
      intro y hy
      have hxy : x ≠ y := by intro e; subst e; exact hnd.1 hy
      rw [hstep (p ++ [y]) (isPre_snoc_snoc hxy)]
      exact hpres y (by simp [List.mem_map] at hy ⊢; right; exact hy)

end Loop2

theorem rmRec_ne_notFound (root : Bool) : ∀ (f : Nat) (s : FS) (p : Path), p ≠ [] → Canon s p →
    (fget s p).isSome = true → (rmRec root f s p).1 ≠ .error .notFound := by
  intro f
  induction f with
  | zero => intro s p _ _ _ h; cases h
  | succ f ih =>
    intro s p hne hc hs
    unfold rmRec
    cases lstat_canon root s p hne hc with
    | access h => rw [h]; intro e; cases e
    | absent h hn => rw [hn] at hs; cases hs
    | here v h hv =>
      rw [h]
      have main : ∀ (_ : isLinkAt s p = false) (hnh : isHardAt s p = false),
          (match chmod root s p 0o777 with
            | .error e => (Except.error e, s)
            | .ok fs1 =>
              match readDir root fs1 p with
              | .error e => (Except.error e, fs1)
              | .ok entries =>
                match rmEntries root (fun s q => rmRec root f s q) p entries fs1 with
                | (.error e, fs2) => (Except.error e, fs2)
                | (.ok _, fs2) => lift fs2 (rmdir root fs2 p)).1 ≠ .error .notFound := by
        intro hl hnh
        cases chmod_canon root s p 0o777 hne hc hl hnh with
        | failed e hch hn =>
          rw [hch]; intro heq
          have : e = .notFound := by simpa using heq
          rw [hn this] at hs; cases hs
        | done v0 v' hch hv0 hdir hlink =>
          rw [hch]
          dsimp only
          have hu1 : Untouched p s (fset s p v') := untouched_fset _ _ _
          have hc1 : Canon (fset s p v') p := canon_of_untouched hc hu1
          have hl1 : isLinkAt (fset s p v') p = false := by
            unfold isLinkAt; rw [fget_fset_self]
            cases v' with
            | link t => simp [Node.isLink] at hlink
            | file m c => rfl
            | hard i m c => rfl
            | dir m => rfl
          cases readDir_canon root (fset s p v') p hne hc1 hl1 with
          | failed e hrd hn =>
            rw [hrd]; intro heq
            have : e = .notFound := by simpa using heq
            have := hn this
            rw [fget_fset_self] at this; cases this
          | done es hrd hd1 hnd hpres hdirs =>
            rw [hrd]
            simp only
            have hfr := rmEntries_frame root (fun s q => rmRec root f s q)
              (fun s q hq hcq _ => rmRec_untouched root f s q hq hcq)
              p es (fset s p v') hc1 hd1 hnd hdirs
            have hnn := rmEntries_ne_notFound root (fun s q => rmRec root f s q)
              (fun s q hq hcq _ => rmRec_untouched root f s q hq hcq)
              (fun s q hq hcq _ hsq => ih s q hq hcq hsq)
              p es (fset s p v') hc1 hd1 hnd hpres hdirs
            generalize rmEntries root (fun s q => rmRec root f s q) p es (fset s p v') = r at hfr hnn
            obtain ⟨res, s2⟩ := r
            cases res with
            | error e => simpa using hnn
            | ok u =>
              simp only
              have hu2 : Untouched p (fset s p v') s2 := fun k hk => hfr k (offChildren_of_not_pre hk)
              have hc2 : Canon s2 p := canon_of_untouched hc1 hu2
              have hp2 : (fget s2 p).isSome = true := by
                rw [hfr p (offChildren_self p), fget_fset_self]; rfl
              cases rmdir_canon root s2 p hne hc2 with
              | failed e hrm hn =>
                rw [hrm]; intro heq
                have : e = .notFound := by simpa [lift] using heq
                rw [hn this] at hp2; cases hp2
              | erased hrm _ => rw [hrm]; intro heq; cases heq
      cases v with
      | link t => simp only; exact lift_ne_notFound_unlink root s p hne hc hs
      | file m c => simp only; exact lift_ne_notFound_unlink root s p hne hc hs
      | hard i m c => simp only; exact lift_ne_notFound_unlink root s p hne hc hs
      | dir m => exact main (by simp [isLinkAt, hv]) (by simp [isHardAt, hv])

/-- if nothing is recorded at `p`, the recursion fails at once and changes nothing -/
theorem rmRec_absent (root : Bool) (f : Nat) (s : FS) (p : Path) (hne : p ≠ []) (hc : Canon s p)
    (hn : fget s p = none) : (rmRec root (f + 1) s p).2 = s := by
  unfold rmRec
  cases lstat_canon root s p hne hc with
  | access h => rw [h]
  | absent h _ => rw [h]
  | here v h hv => rw [hn] at hv; cases hv

/-! ### success leaves nothing -/

/-- **Completeness of the recursion.** If `remove_dir_recursively p` succeeds, nothing is left at or below `p` (given
that nothing was recorded below `p` unless `p` is a directory — true of every tree). -/
theorem rmRec_ok_gone (root : Bool) (f : Nat) (s : FS) (p : Path) (hne : p ≠ []) (hc : Canon s p)
    (hb : isDirAt s p = false → ∀ k, isPre p k = true → k ≠ p → fget s k = none)
    (hok : (rmRec root f s p).1 = .ok ()) : ∀ k, isPre p k = true → fget (rmRec root f s p).2 k = none := by
  cases f with
  | zero => simp [rmRec] at hok
  | succ f =>
    unfold rmRec at hok ⊢
    cases lstat_canon root s p hne hc with
    | access h => rw [h] at hok; cases hok
    | absent h _ => rw [h] at hok; cases hok
    | here v h hv =>
      rw [h] at hok ⊢
      have main : ∀ (_ : isLinkAt s p = false) (hnh : isHardAt s p = false),
          (match chmod root s p 0o777 with
            | .error e => (Except.error e, s)
            | .ok fs1 =>
              match readDir root fs1 p with
              | .error e => (Except.error e, fs1)
              | .ok entries =>
                match rmEntries root (fun s q => rmRec root f s q) p entries fs1 with
                | (.error e, fs2) => (Except.error e, fs2)
                | (.ok _, fs2) => lift fs2 (rmdir root fs2 p)).1 = .ok () →
          ∀ k, isPre p k = true → fget
          (match chmod root s p 0o777 with
            | .error e => (Except.error e, s)
            | .ok fs1 =>
              match readDir root fs1 p with
              | .error e => (Except.error e, fs1)
              | .ok entries =>
                match rmEntries root (fun s q => rmRec root f s q) p entries fs1 with
                | (.error e, fs2) => (Except.error e, fs2)
                | (.ok _, fs2) => lift fs2 (rmdir root fs2 p)).2 k = none := by
        intro hl hnh
        cases chmod_canon root s p 0o777 hne hc hl hnh with
        | failed e hch _ => rw [hch]; intro h; cases h
        | done v0 v' hch hv0 hdir hlink =>
          rw [hch]
          dsimp only
          have hu1 : Untouched p s (fset s p v') := untouched_fset _ _ _
          have hc1 : Canon (fset s p v') p := canon_of_untouched hc hu1
          have hl1 : isLinkAt (fset s p v') p = false := by
            unfold isLinkAt; rw [fget_fset_self]
            cases v' with
            | link t => simp [Node.isLink] at hlink
            | file m c => rfl
            | hard i m c => rfl
            | dir m => rfl
          cases readDir_canon root (fset s p v') p hne hc1 hl1 with
          | failed e hrd _ => rw [hrd]; intro h; cases h
          | done es hrd hd1 hnd _ hdirs =>
            rw [hrd]
            simp only
            have hfr := rmEntries_frame root (fun s q => rmRec root f s q)
              (fun s q hq hcq _ => rmRec_untouched root f s q hq hcq)
              p es (fset s p v') hc1 hd1 hnd hdirs
            generalize rmEntries root (fun s q => rmRec root f s q) p es (fset s p v') = r at hfr
            obtain ⟨res, s2⟩ := r
            cases res with
            | error e => intro h; cases h
            | ok u =>
              simp only
              have hu2 : Untouched p (fset s p v') s2 := fun k hk => hfr k (offChildren_of_not_pre hk)
              have hc2 : Canon s2 p := canon_of_untouched hc1 hu2
              cases rmdir_canon root s2 p hne hc2 with
              | failed e hrm _ => rw [hrm]; intro h; cases h
              | erased hrm hbel =>
                rw [hrm]
                intro _ k hk
                simp only [lift]
                by_cases hkp : k = p
                · subst hkp; exact fget_ferase_self _ _
                · rw [fget_ferase_ne _ _ _ hkp]; exact hasBelow_false hbel hk hkp
      have nondir : isDirAt s p = false → (lift s (unlink root s p)).1 = .ok () →
          ∀ k, isPre p k = true → fget (lift s (unlink root s p)).2 k = none := by
        intro hnd hok
        cases unlink_canon root s p hne hc with
        | failed e hu _ => rw [hu] at hok; cases hok
        | erased hu _ =>
          rw [hu]
          intro k hk
          simp only [lift]
          by_cases hkp : k = p
          · subst hkp; exact fget_ferase_self _ _
          · rw [fget_ferase_ne _ _ _ hkp]
            exact hb hnd k hk hkp
      cases v with
      | link t => simp only at hok ⊢; exact nondir (by simp [isDirAt, hv]) hok
      | file m c => simp only at hok ⊢; exact nondir (by simp [isDirAt, hv]) hok
      | hard i m c => simp only at hok ⊢; exact nondir (by simp [isDirAt, hv]) hok
      | dir m => exact main (by simp [isLinkAt, hv]) (by simp [isHardAt, hv]) hok

/-! ### `chmod` on an inode keeps directories -/

theorem canon_chmodIno {s : FS} {p : Path} (i m : Nat) (hc : Canon s p) : Canon (chmodIno i m s) p := by
  intro pre y rest hp hpre
  rw [isDirAt_chmodIno]; exact hc pre y rest hp hpre

/-! ### `unlinkAll` over entries of one real directory -/

theorem unlinkAll_spec (root : Bool) (d : Name) : ∀ (names : List Name) (s : FS), isDirAt s [d] = true →
    (∀ k, k ∉ names.map (fun x => [d, x]) → fget (unlinkAll root s (names.map (fun x => [d, x]))).2 k = fget s k) ∧
    ((unlinkAll root s (names.map (fun x => [d, x]))).1 = .ok () →
      ∀ k ∈ names.map (fun x => [d, x]), fget (unlinkAll root s (names.map (fun x => [d, x]))).2 k = none) := by
  intro names
  induction names with
  | nil => intro s _; exact ⟨fun _ _ => rfl, fun _ k hk => by simp at hk⟩
  | cons x xs ih =>
    intro s hd
    have hc : Canon s [d, x] := canon_pair s d x hd
    simp only [List.map_cons]
    unfold unlinkAll
    cases unlink_canon root s [d, x] (by simp) hc with
    | failed e hu hn =>
      rw [hu]
      by_cases he : e = .notFound
      · subst he
        simp only [if_true]
        have ⟨ih1, ih2⟩ := ih s hd
        refine ⟨fun k hk => ih1 k (fun hm => hk (List.mem_cons_of_mem _ hm)), fun hok k hk => ?_⟩
        rcases List.mem_cons.mp hk with rfl | hk'
        · by_cases hm : [d, x] ∈ xs.map (fun x => [d, x])
          · exact ih2 hok _ hm
          · rw [ih1 _ hm]; exact hn rfl
        · exact ih2 hok k hk'
      · dsimp only
        rw [if_neg he]
        exact ⟨fun _ _ => rfl, fun h => by cases h⟩
    | erased hu _ =>
      rw [hu]
      simp only
      have hd' : isDirAt (ferase s [d, x]) [d] = true := by
        unfold isDirAt at hd ⊢
        rw [fget_ferase_ne _ _ _ (by simp)]; exact hd
      have ⟨ih1, ih2⟩ := ih (ferase s [d, x]) hd'
      refine ⟨fun k hk => ?_, fun hok k hk => ?_⟩
      · rw [ih1 k (fun hm => hk (List.mem_cons_of_mem _ hm))]
        exact fget_ferase_ne _ _ _ (fun e => hk (e ▸ List.mem_cons_self))
      · rcases List.mem_cons.mp hk with rfl | hk'
        · by_cases hm : [d, x] ∈ xs.map (fun x => [d, x])
          · exact ih2 hok _ hm
          · rw [ih1 _ hm]; exact fget_ferase_self _ _
        · exact ih2 hok k hk'

end CnbVerif.RmTree
