import CnbVerif.Lemmas.EnvDir2
namespace CnbVerif

theorem lookup_some_iff_mem {β} (L : List (Bytes × β)) (hnd : (L.map (·.1)).Nodup) (p : Bytes) (d : β) :
    List.lookup p L = some d ↔ (p, d) ∈ L := by
  induction L with
  | nil => simp [List.lookup]
  | cons kv t ih =>
    obtain ⟨k, x⟩ := kv
    rw [List.map_cons] at hnd
    have hnd' := List.nodup_cons.mp hnd
    by_cases hk : p = k
    · subst hk
      simp only [List.lookup, beq_self_eq_true, Option.some.injEq, List.mem_cons, Prod.mk.injEq, true_and]
      constructor
      · intro h; exact Or.inl h.symm
      · rintro (h | h)
        · exact h.symm
        · exact absurd (List.mem_map_of_mem (f := (·.1)) h) hnd'.1
    · have hb : (p == k) = false := by simpa using hk
      simp only [List.lookup, hb, List.mem_cons, Prod.mk.injEq, hk, false_and, false_or]
      exact ih hnd'.2

theorem procGet_foldl_procSet (L : List (Bytes × Delta)) (hnd : (L.map (·.1)).Nodup)
    (acc : List (Bytes × Delta)) (p : Bytes) :
    procGet (L.foldl (fun a pd => procSet a pd.1 pd.2) acc) p =
      match List.lookup p L with
      | some d => some d
      | none => procGet acc p := by
  induction L generalizing acc with
  | nil => rfl
  | cons pd t ih =>
    rw [List.map_cons] at hnd
    have hnd' := List.nodup_cons.mp hnd
    simp only [List.foldl_cons]
    rw [ih hnd'.2, procGet_procSet]
    by_cases hk : p = pd.1
    · subst hk
      have hnone : List.lookup pd.1 t = none := by
        cases h : List.lookup pd.1 t with
        | none => rfl
        | some d =>
          have := (lookup_some_iff_mem t hnd'.2 pd.1 d).mp h
          exact absurd (List.mem_map_of_mem (f := (·.1)) this) hnd'.1
      simp [List.lookup, hnone]
    · have hb : (p == pd.1) = false := by simpa using hk
      have hk' : ¬ pd.1 = p := fun e => hk e.symm
      simp only [List.lookup, hb, hk', if_false]

/-- the deltas libcnb itself builds: in map order, with non-empty variable names -/
structure DeltaOk (d : Delta) : Prop where
  sorted : Sorted d
  names : ∀ e ∈ d, e.name ≠ []

theorem readProcesses_dirs (L : List (Bytes × Delta)) (hok : ∀ pd ∈ L, DeltaOk pd.2) (files : Delta)
    (acc : List (Bytes × Delta)) :
    readProcesses (L.map (fun pd => (pd.1, Node.dir (pd.2.map Entry.fileOf))) ++ files.map Entry.fileOf) acc
      = some (L.foldl (fun a pd => procSet a pd.1 pd.2) acc) := by
  induction L generalizing acc with
  | nil => simpa using readProcesses_files files acc
  | cons pd t ih =>
    have h := hok pd (by simp)
    simp only [List.map_cons, List.cons_append, readProcesses, read_write_delta pd.2 h.sorted h.names,
      List.foldl_cons]
    exact ih (fun x hx => hok x (by simp [hx])) _

structure LayerEnv.Ok (le : LayerEnv) : Prop where
  all : DeltaOk le.all
  build : DeltaOk le.build
  launch : DeltaOk le.launch
  process : ∀ pd ∈ le.process, DeltaOk pd.2
  proc : ProcOk le

theorem deltaNode_none {d : Delta} (h : deltaNode d = none) : d = [] := by
  unfold deltaNode at h
  cases d with
  | nil => rfl
  | cons a t => simp at h

theorem readEnvEntry_written (l : Dir) (name : Bytes) (d : Delta) (hd : DeltaOk d) (h : l.get name = deltaNode d) :
    readEnvEntry l name = some d := by
  unfold readEnvEntry
  rw [h]
  cases d with
  | nil => rfl
  | cons a t =>
    simp only [deltaNode, List.isEmpty_cons, Bool.false_eq_true, if_false]
    exact read_write_delta _ hd.sorted hd.names

def nonEmptyProcs (ps : List (Bytes × Delta)) : List (Bytes × Delta) :=
  (ps.filter (fun pd => !pd.2.isEmpty)).reverse

theorem procDirs_eq (ps : List (Bytes × Delta)) :
    procDirs ps = (nonEmptyProcs ps).map (fun pd => (pd.1, Node.dir (pd.2.map Entry.fileOf))) := rfl

theorem nonEmptyProcs_nodup (ps : List (Bytes × Delta)) (h : (ps.map (·.1)).Nodup) :
    ((nonEmptyProcs ps).map (·.1)).Nodup := by
  unfold nonEmptyProcs
  rw [List.map_reverse]
  apply (List.reverse_perm _).nodup_iff.mpr
  exact List.Nodup.sublist (List.Sublist.map _ List.filter_sublist) h

theorem mem_nonEmptyProcs (ps : List (Bytes × Delta)) (p : Bytes) (d : Delta) :
    (p, d) ∈ nonEmptyProcs ps ↔ (p, d) ∈ ps ∧ d ≠ [] := by
  unfold nonEmptyProcs
  simp [List.mem_filter]

/-- the explicit part of what `read_from_layer_dir` returns for a directory written by `write_to_layer_dir` -/
theorem read_written (le : LayerEnv) (hok : le.Ok) (lp : Bytes) (l' : Dir)
    (g1 : l'.get nEnv = deltaNode le.all) (g2 : l'.get nEnvBuild = deltaNode le.build)
    (g3 : l'.get nEnvLaunch = launchNode (procDirs le.process ++ le.launch.map Entry.fileOf)) :
    ∃ le', readFromLayerDir lp l' = some le' ∧ le'.all = le.all ∧ le'.build = le.build ∧ le'.launch = le.launch ∧
      (∀ p, (procGet le'.process p).getD [] = (procGet le.process p).getD []) ∧
      le'.process = (nonEmptyProcs le.process).foldl (fun a pd => procSet a pd.1 pd.2) [] ∧
      le'.pathsBuild = (readLayerPaths lp l' LayerEnv.empty Gen.layerPathSpecs).pathsBuild ∧
      le'.pathsLaunch = (readLayerPaths lp l' LayerEnv.empty Gen.layerPathSpecs).pathsLaunch := by
  have ra := readEnvEntry_written l' nEnv le.all hok.all g1
  have rb := readEnvEntry_written l' nEnvBuild le.build hok.build g2
  have hneOk : ∀ pd ∈ nonEmptyProcs le.process, DeltaOk pd.2 := by
    intro pd hpd
    exact hok.process pd ((mem_nonEmptyProcs le.process pd.1 pd.2).mp hpd).1
  -- env.launch: either absent (everything empty) or the directory of process dirs followed by the launch files
  have key : readEnvEntry l' nEnvLaunch = some le.launch ∧
      readLaunchProcesses l' = some ((nonEmptyProcs le.process).foldl (fun a pd => procSet a pd.1 pd.2) []) := by
    by_cases he : (procDirs le.process ++ le.launch.map Entry.fileOf).isEmpty = true
    · have hnil : procDirs le.process ++ le.launch.map Entry.fileOf = [] := by simpa using he
      have h1 : procDirs le.process = [] := (List.append_eq_nil_iff.mp hnil).1
      have h2 : le.launch = [] := by
        have := (List.append_eq_nil_iff.mp hnil).2
        cases hl : le.launch with
        | nil => rfl
        | cons a t => rw [hl] at this; simp at this
      have h3 : nonEmptyProcs le.process = [] := by
        rw [procDirs_eq] at h1
        cases hq : nonEmptyProcs le.process with
        | nil => rfl
        | cons a t => rw [hq] at h1; simp at h1
      have hg : l'.get nEnvLaunch = none := by rw [g3, hnil]; rfl
      simp [readEnvEntry, readLaunchProcesses, hg, h2, h3]
    · have hg : l'.get nEnvLaunch = some (.dir (procDirs le.process ++ le.launch.map Entry.fileOf)) := by
        rw [g3]; simp [launchNode, he]
      constructor
      · unfold readEnvEntry
        rw [hg]
        simp only []
        rw [readFromEnvDir_skip]
        · exact read_write_delta _ hok.launch.sorted hok.launch.names
        · intro kv hkv
          rw [procDirs_eq] at hkv
          obtain ⟨pd, _, rfl⟩ := List.mem_map.mp hkv
          exact ⟨_, rfl⟩
      · unfold readLaunchProcesses
        rw [hg]
        simp only []
        rw [procDirs_eq]
        exact readProcesses_dirs _ hneOk _ _
  unfold readFromLayerDir
  simp only [ra, rb, key.1, key.2]
  refine ⟨_, rfl, rfl, rfl, rfl, ?_, rfl, rfl, rfl⟩
  intro p
  simp only []
  rw [procGet_foldl_procSet _ (nonEmptyProcs_nodup _ hok.proc.nodup)]
  have hnd := hok.proc.nodup
  cases hq : List.lookup p (nonEmptyProcs le.process) with
  | some d =>
    have hm := (lookup_some_iff_mem _ (nonEmptyProcs_nodup _ hnd) p d).mp hq
    have hm' := (mem_nonEmptyProcs le.process p d).mp hm
    have : procGet le.process p = some d := (lookup_some_iff_mem _ hnd p d).mpr hm'.1
    simp [this]
  | none =>
    simp only [procGet, List.lookup, Option.getD_none]
    cases hp : List.lookup p le.process with
    | none => rfl
    | some d =>
      have hm := (lookup_some_iff_mem _ hnd p d).mp hp
      by_cases hd : d = []
      · simp [hd]
      · have := (lookup_some_iff_mem _ (nonEmptyProcs_nodup _ hnd) p d).mpr
          ((mem_nonEmptyProcs le.process p d).mpr ⟨hm, hd⟩)
        rw [hq] at this; cases this

theorem procSet_append_new (acc : List (Bytes × Delta)) (p : Bytes) (d : Delta) (h : p ∉ acc.map (·.1)) :
    procSet acc p d = acc ++ [(p, d)] := by
  induction acc with
  | nil => rfl
  | cons kv t ih =>
    obtain ⟨k, x⟩ := kv
    have hk : k ≠ p := fun e => h (by simp [e])
    have ht : p ∉ t.map (·.1) := fun e => h (by simp [e])
    simp [procSet, hk, ih ht]

theorem foldl_procSet_nodup (L acc : List (Bytes × Delta)) (h : ((acc ++ L).map (·.1)).Nodup) :
    L.foldl (fun a pd => procSet a pd.1 pd.2) acc = acc ++ L := by
  induction L generalizing acc with
  | nil => simp
  | cons pd t ih =>
    simp only [List.foldl_cons]
    have hnotin : pd.1 ∉ acc.map (·.1) := by
      rw [List.map_append, List.map_cons] at h
      have := (List.nodup_append.mp h).2.2
      intro hm
      exact this _ hm _ (by simp) rfl
    rw [procSet_append_new acc pd.1 pd.2 hnotin]
    have : acc ++ [(pd.1, pd.2)] ++ t = acc ++ pd :: t := by simp
    rw [ih (acc ++ [(pd.1, pd.2)]) (by rw [this]; exact h), this]

end CnbVerif
