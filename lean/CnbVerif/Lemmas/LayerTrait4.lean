import CnbVerif.Lemmas.LayerTrait3
/-!
C02 lemmas, part 4: every pre-state of the layer (absent, toml-less, undecodable, broken, decodable), the step on
the whole layers directory, and the invariant.
-/
namespace CnbVerif
open Spec

theorem keepDropsNothing_valid (pre : Layer) (L : LDef) (m : Option MetaTbl) (hc : Spec.classify pre L.mt = .valid m)
    (strict : Bool) (h : strict = true → keepDropsNothing pre L = true) :
    strict = true → L.strategy = .keep → viewAs L.mt m = m := by
  intro hs hk
  have := h hs
  unfold keepDropsNothing at this
  rw [hc, hk] at this
  simp only [bne_self_eq_false, Bool.false_or, beq_iff_eq] at this
  rw [viewAs_eq]; exact this

/-- an existing layer with a content-metadata document (`pre` is the layer as it was before the read normalised it) -/
theorem doc_ok (lp : Bytes) (L : LDef) (hL : LOk L) (probes : List (Scope × Env)) (strict : Bool)
    (pre : Layer) (d : Dir) (hpd : pre.dir = some d) (sb : List (Nat × Bytes)) (hsb : pre.sboms = sb)
    (le : LayerEnv) (hok : le.Ok) (hs : ShapedBy le d) (hx : ExecdOk d)
    (ty : Option LTypes) (m : Option MetaTbl) (hty : storedTypes pre = ty)
    (hcl : Spec.classify pre L.mt = if canDecode L.mt m then .valid m else .invalid m)
    (hstrict : strict = true → keepDropsNothing pre L = true) (fuel : Nat) :
    handleOk lp pre (tHandle lp L (fuel + 2) ⟨some d, some (.doc ty m), sb⟩ []).1 L
      ((tHandle lp L (fuel + 2) ⟨some d, some (.doc ty m), sb⟩ []).2.1.observe probes)
      (tHandle lp L (fuel + 2) ⟨some d, some (.doc ty m), sb⟩ []).2.2 strict = true ∧
    WFL2 (tHandle lp L (fuel + 2) ⟨some d, some (.doc ty m), sb⟩ []).1 := by
  have hshaped : Shaped d := ⟨⟨le, hok, hs⟩, hx⟩
  by_cases hdec : canDecode L.mt m = true
  · have hcl' : Spec.classify pre L.mt = .valid m := by rw [hcl]; simp [hdec]
    exact valid_ok lp L hL probes strict pre d hpd le hs d le hok hs hx (EnvSame.refl le) (fun _ _ _ _ => rfl) ty m sb hsb hty
      (by rw [decodes_eq]; exact hdec) [] (by rw [hcl']; rfl) (keepDropsNothing_valid pre L m hcl' strict hstrict) (fuel + 1)
  · have hdec' : decodes L.mt m = false := by rw [decodes_eq]; simpa using hdec
    have hcl' : Spec.classify pre L.mt = .invalid m := by rw [hcl]; simp [hdec]
    obtain ⟨le1, hr1, ea, eb, el, eproc, _⟩ := read_matches_disk le hok lp d hs
    unfold tHandle
    rw [tReadLayer_undecodable lp d ty m sb L.mt hdec']
    simp only []
    rw [tReadLayer_doc lp d ty m sb .generic rfl le1 hr1]
    simp only []
    cases hmg : L.migrate with
    | fail =>
      simp only []
      refine ⟨?_, wfl2_mk d _ _ hshaped⟩
      unfold handleOk
      rw [hcl']
      simp [expectedT, hmg, TOut.observe, isErr]
    | recreate =>
      simp only [deleteLayer]
      unfold tHandle
      rw [show (Layer.absent : Layer) = ⟨none, none, []⟩ from rfl, tReadLayer_absent]
      simp only []
      exact create_ok lp L hL probes strict pre _ (by rw [hcl']; simp [expectedT, hmg])
    | replace m' =>
      simp only [tomlTypes]
      obtain ⟨hd', hv'⟩ := hL.migrate m' hmg
      obtain ⟨hok1, hprocs⟩ := reread_env_ok le hok le1 ea eb el eproc
      obtain ⟨d2, hw, hs2, hf2⟩ := tWriteLayer_keep ⟨some d, some (.doc ty m), sb⟩ d rfl (shapedBy_layerOk hs) le1 hok1.proc
        ty (viewAs L.mt (some m'))
      rw [hw, hv']
      simp only []
      have hx2 : ExecdOk d2 := execdOk_of_frame (hf2 _ nExecd_ne.1 nExecd_ne.2.1 nExecd_ne.2.2) hx
      have hcd : canDecode L.mt (some m') = true := by rw [← decodes_eq]; exact hd'
      exact valid_ok lp L hL probes strict pre d hpd le hs d2 le1 hok1 hs2 hx2 ⟨ea, eb, el, hprocs⟩ hf2 ty (some m') sb hsb hty
        hd' [.migrate m] (by rw [hcl']; simp [expectedT, hmg, hcd]) (fun _ _ => hv') fuel

/-- the read normalisation: a directory without metadata file is handled as one with an empty document -/
theorem tHandle_norm (lp : Bytes) (L : LDef) (d : Dir) (sb : List (Nat × Bytes)) (fuel : Nat) (log : List TCall) :
    tHandle lp L (fuel + 1) ⟨some d, none, sb⟩ log = tHandle lp L (fuel + 1) ⟨some d, some (.doc none none), sb⟩ log := by
  have : tReadLayer lp ⟨some d, none, sb⟩ L.mt = tReadLayer lp ⟨some d, some (.doc none none), sb⟩ L.mt := by
    simp [tReadLayer, readLayer]
  unfold tHandle
  rw [this]

/-- **One `handle_layer` call.** For every layer state satisfying the invariant and every well-typed layer definition,
the model's `handle_layer` meets the clauses of C02 (`strict = true` under the condition that excludes the known
deviation) and re-establishes the invariant. -/
theorem handle_ok (lp : Bytes) (l : Layer) (hwf : WFL2 l) (L : LDef) (hL : LOk L) (probes : List (Scope × Env))
    (strict : Bool) (hstrict : strict = true → keepDropsNothing l L = true) (fuel : Nat) :
    handleOk lp l (tHandle lp L (fuel + 2) l []).1 L ((tHandle lp L (fuel + 2) l []).2.1.observe probes)
      (tHandle lp L (fuel + 2) l []).2.2 strict = true ∧ WFL2 (tHandle lp L (fuel + 2) l []).1 := by
  obtain ⟨dir, toml, sboms⟩ := l
  cases dir with
  | none =>
    have hs : sboms = [] := hwf.1 rfl
    subst hs
    unfold tHandle
    rw [tReadLayer_absent]
    simp only []
    exact create_ok lp L hL probes strict _ [] (by simp [Spec.classify, expectedT])
  | some d =>
    obtain ⟨⟨le, hok, hs⟩, hx⟩ := hwf.2 d rfl
    cases toml with
    | none =>
      rw [tHandle_norm]
      exact doc_ok lp L hL probes strict _ d rfl sboms rfl le hok hs hx none none rfl (by simp [Spec.classify]) hstrict fuel
    | some tm =>
      cases tm with
      | broken =>
        refine ⟨?_, ?_⟩
        · unfold handleOk
          simp [tHandle, tReadLayer, readLayer, Spec.classify, expectedT, TOut.observe, isErr]
        · simp only [tHandle, tReadLayer, readLayer]
          exact wfl2_mk d _ _ ⟨⟨le, hok, hs⟩, hx⟩
      | doc ty m =>
        exact doc_ok lp L hL probes strict _ d rfl sboms rfl le hok hs hx ty m rfl (by simp [Spec.classify]) hstrict fuel

/-! ### the returned layer data is what a read of the post-state gives (structural: no invariant needed) -/

/-- whenever layer data is returned, its environment is `read_from_layer_dir` of the layer directory left behind -/
def DataFromDisk (lp : Bytes) (res : Layer × TOut × List TCall) : Prop :=
  ∀ m le, res.2.1 = .data m le → ∃ d, res.1.dir = some d ∧ readFromLayerDir lp d = some le

theorem tReadLayer_some (lp : Bytes) (l l1 : Layer) (mt : MetaT) (m : Option MetaTbl) (le : LayerEnv)
    (h : tReadLayer lp l mt = (l1, .some m le)) : ∃ d, l1.dir = some d ∧ readFromLayerDir lp d = some le := by
  unfold tReadLayer at h
  split at h
  · cases h
  · cases h
  · rename_i l2 m2 _
    split at h
    · rename_i d hd
      split at h
      · rename_i le2 hr
        simp only [Prod.mk.injEq, TRead.some.injEq] at h
        obtain ⟨rfl, _, rfl⟩ := h
        exact ⟨d, hd, hr⟩
      · cases h
    · cases h

theorem tReread_dfd (lp : Bytes) (l : Layer) (mt : MetaT) (log : List TCall) : DataFromDisk lp (tReread lp l mt log) := by
  intro m le h
  unfold tReread at h ⊢
  split at h
  · rename_i l1 m1 le1 hr
    simp only [TOut.data.injEq] at h
    obtain ⟨_, rfl⟩ := h
    exact tReadLayer_some lp l l1 mt m1 le1 hr
  all_goals cases h

theorem tPersist_dfd (lp : Bytes) (l : Layer) (L : LDef) (r : LResult) (log : List TCall) :
    DataFromDisk lp (tPersist lp l L r log) := by
  unfold tPersist
  split
  · intro m le h; cases h
  · exact tReread_dfd lp _ _ _

theorem tCreate_dfd (lp : Bytes) (l : Layer) (L : LDef) (log : List TCall) : DataFromDisk lp (tCreate lp l L log) := by
  unfold tCreate
  simp only []
  split
  · intro m le h; cases h
  · exact tPersist_dfd lp _ _ _ _

theorem tUpdate_dfd (lp : Bytes) (l : Layer) (L : LDef) (m0 : Option MetaTbl) (log : List TCall) :
    DataFromDisk lp (tUpdate lp l L m0 log) := by
  unfold tUpdate
  simp only []
  split
  · intro m le h; cases h
  · exact tPersist_dfd lp _ _ _ _

theorem tHandle_dfd (lp : Bytes) (L : LDef) : ∀ (fuel : Nat) (l : Layer) (log : List TCall),
    DataFromDisk lp (tHandle lp L fuel l log) := by
  intro fuel
  induction fuel with
  | zero => intro l log m le h; cases h
  | succ f ih =>
    intro l log
    unfold tHandle
    split
    · exact tCreate_dfd lp _ _ _
    · intro m le h; cases h
    · simp only []
      split
      · intro m le h; cases h
      · exact tCreate_dfd lp _ _ _
      · exact tUpdate_dfd lp _ _ _ _
      · split
        · intro m le h; cases h
        · exact tReread_dfd lp _ _ _
    · split
      · simp only []
        split
        · intro m le h; cases h
        · exact ih _ _
        · split
          · intro m le h; cases h
          · exact ih _ _
      all_goals (intro m le h; cases h)

/-! ### the layers directory -/

/-- reachable-state invariant of the layers directory for the trait API -/
def WFT (s : Store) : Prop := ∀ n, WFL2 (s.get n)

theorem wft_empty : WFT [] := by
  intro n
  refine ⟨by simp [Store.get, List.lookup, Layer.absent, WFL], ?_⟩
  intro d hd
  simp [Store.get, List.lookup, Layer.absent] at hd

theorem wft_set {s : Store} (h : WFT s) (n : Bytes) (l : Layer) (hl : WFL2 l) : WFT (s.set n l) := by
  intro k
  by_cases hk : k = n
  · subst hk; rw [Store.get_set_eq]; exact hl
  · rw [Store.get_set_ne _ _ _ _ hk]; exact h k

theorem wfl2_restore (l : Layer) (h : WFL2 l) : WFL2 (restoreLayer l) := by
  refine ⟨wfl_restore l h.1, ?_⟩
  intro d hd
  unfold restoreLayer at hd
  split at hd
  · split at hd
    · exact h.2 d hd
    · split at hd <;> simp [Layer.absent] at hd
  · simp [Layer.absent] at hd

/-- the hypotheses on an operation: the layer definition of a `handle` is well typed -/
def TOpOk : TOp → Prop
  | .handle _ L => LOk L
  | _ => True

/-- the condition excluding the known deviation, for one step of a history -/
def stepKeepsAll (pre : Store) : TOp → Bool
  | .handle n L => keepDropsNothing (sget pre n) L
  | _ => true

/-- **One step of a history.** -/
theorem tstep_ok (names : List Bytes) (probes : List (Scope × Env)) (s : Store) (op : TOp) (hwf : WFT s) (hop : TOpOk op)
    (strict : Bool) (hstrict : strict = true → stepKeepsAll s op = true) :
    tStepOk names s op ((tStep s op).2.1.observe probes) (tStep s op).2.2 (tStep s op).1 strict = true ∧
      WFT (tStep s op).1 := by
  cases op with
  | restore =>
    refine ⟨by simp [tStepOk], ?_⟩
    intro n
    show WFL2 (Store.get (s.map (fun kv => (kv.1, restoreLayer kv.2))) n)
    rw [Store.get_map _ _ (by simp [restoreLayer, Layer.absent])]
    exact wfl2_restore _ (hwf n)
  | breakToml n =>
    refine ⟨by simp [tStepOk, tStep, othersUntouched_set], ?_⟩
    apply wft_set hwf
    have h := hwf n
    refine ⟨h.1, h.2⟩
  | handle n L =>
    have hr := handle_ok (layerPath n) (s.get n) (hwf n) L hop probes strict hstrict 1
    refine ⟨?_, wft_set hwf _ _ hr.2⟩
    simp only [tStepOk, tStep, sget_eq, Store.get_set_eq, othersUntouched_set, Bool.and_true, layerPathOf_eq]
    exact hr.1

/-! ### histories -/

/-- one entry of a history's trace: state before, operation, returned data, callback log, state after -/
structure TEntry where
  pre : Store
  op : TOp
  out : TOut
  log : List TCall
  post : Store

def ttrace : Store → List TOp → List TEntry
  | _, [] => []
  | s, op :: rest => ⟨s, op, (tStep s op).2.1, (tStep s op).2.2, (tStep s op).1⟩ :: ttrace (tStep s op).1 rest

theorem history_gen (names : List Bytes) (probes : List (Scope × Env)) (strict : Bool) :
    ∀ (ops : List TOp) (s : Store), WFT s → (∀ op ∈ ops, TOpOk op) →
      (strict = true → ∀ e ∈ ttrace s ops, stepKeepsAll e.pre e.op = true) →
      ∀ e ∈ ttrace s ops, tStepOk names e.pre e.op (e.out.observe probes) e.log e.post strict = true := by
  intro ops
  induction ops with
  | nil => intro s _ _ _ e he; simp [ttrace] at he
  | cons op rest ih =>
    intro s hwf hops hfree e he
    have hs := tstep_ok names probes s op hwf (hops op (by simp)) strict
      (fun h => hfree h ⟨s, op, (tStep s op).2.1, (tStep s op).2.2, (tStep s op).1⟩ (by simp [ttrace]))
    simp only [ttrace, List.mem_cons] at he
    rcases he with rfl | he
    · exact hs.1
    · exact ih _ hs.2 (fun o ho => hops o (by simp [ho])) (fun h e' he' => hfree h e' (by simp [ttrace, he'])) e he

/-- a read of a directory satisfying the invariant applies as the spec reads the directory -/
theorem read_shaped (lp : Bytes) (d : Dir) (hs : Shaped d) (le : LayerEnv) (hr : readFromLayerDir lp d = some le) :
    ∀ s env n, (le.apply s env).get n = specVar lp d s env n := by
  obtain ⟨⟨le0, hok, hsb⟩, _⟩ := hs
  obtain ⟨le', hr', _, _, _, _, hsp⟩ := read_matches_disk le0 hok lp d hsb
  rw [hr] at hr'
  simp only [Option.some.injEq] at hr'
  subst hr'
  exact hsp

end CnbVerif
