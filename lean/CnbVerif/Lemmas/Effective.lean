import CnbVerif.Lemmas.EnvLayoutSpec
namespace CnbVerif
open Spec

/-- one step of `Spec.effective` -/
def effStep (acc : List Ins) (i : Ins) : List Ins :=
  acc.filter (fun j => ¬ (j.scope = i.scope ∧ j.beh = i.beh ∧ j.name = i.name)) ++ [i]

theorem effective_def (ins : List Ins) : effective ins = ins.foldl effStep [] := rfl

/-- the value the accumulator holds for key `(s, b, n)`: the first (and, by the invariant, only) hit -/
def accLook (acc : List Ins) (s : Scope) (b : Beh) (n : Bytes) : Option Bytes :=
  (acc.find? (fun j => decide (j.scope = s ∧ j.beh = b ∧ j.name = n))).map (·.val)

theorem find_filter_other (acc : List Ins) (i : Ins) (s : Scope) (b : Beh) (n : Bytes)
    (hi : ¬ (i.scope = s ∧ i.beh = b ∧ i.name = n)) :
    (acc.filter (fun j => decide ¬ (j.scope = i.scope ∧ j.beh = i.beh ∧ j.name = i.name))).find?
        (fun j => decide (j.scope = s ∧ j.beh = b ∧ j.name = n))
      = acc.find? (fun j => decide (j.scope = s ∧ j.beh = b ∧ j.name = n)) := by
  induction acc with
  | nil => rfl
  | cons x t ih =>
    rw [List.filter_cons]
    by_cases hx : x.scope = i.scope ∧ x.beh = i.beh ∧ x.name = i.name
    · have hxs : ¬ (x.scope = s ∧ x.beh = b ∧ x.name = n) := by
        intro h; apply hi; obtain ⟨a1, a2, a3⟩ := hx; obtain ⟨b1, b2, b3⟩ := h
        exact ⟨a1 ▸ b1, a2 ▸ b2, a3 ▸ b3⟩
      have h2 : decide (x.scope = s ∧ x.beh = b ∧ x.name = n) = false := decide_eq_false hxs
      rw [if_neg (by simpa using hx), List.find?_cons, h2]
      exact ih
    · rw [if_pos (decide_eq_true hx)]
      simp only [List.find?_cons]
      split
      · rfl
      · exact ih

theorem accLook_step (acc : List Ins) (i : Ins) (s : Scope) (b : Beh) (n : Bytes) :
    accLook (effStep acc i) s b n = lookStep s b n (accLook acc s b n) i := by
  unfold accLook effStep lookStep
  by_cases hi : i.scope = s ∧ i.beh = b ∧ i.name = n
  · obtain ⟨rfl, rfl, rfl⟩ := hi
    simp only [and_self, if_true]
    rw [List.find?_append]
    have : (acc.filter (fun j => decide ¬ (j.scope = i.scope ∧ j.beh = i.beh ∧ j.name = i.name))).find?
        (fun j => decide (j.scope = i.scope ∧ j.beh = i.beh ∧ j.name = i.name)) = none := by
      apply List.find?_eq_none.mpr
      intro x hx
      have hx2 := of_decide_eq_true (List.mem_filter.mp hx).2
      rw [decide_eq_false hx2]; simp
    rw [this]
    simp
  · simp only [hi, if_false]
    rw [List.find?_append]
    have hni : (List.find? (fun j => decide (j.scope = s ∧ j.beh = b ∧ j.name = n)) [i]) = none := by
      simp [hi]
    rw [hni, Option.or_none, find_filter_other acc i s b n hi]

theorem accLook_foldl (ins acc : List Ins) (s : Scope) (b : Beh) (n : Bytes) :
    accLook (ins.foldl effStep acc) s b n = ins.foldl (lookStep s b n) (accLook acc s b n) := by
  induction ins generalizing acc with
  | nil => rfl
  | cons i t ih => simp only [List.foldl_cons]; rw [ih, accLook_step]

/-- `lookIns` is the lookup in the list of effective inserts -/
theorem lookIns_eq_accLook (ins : List Ins) (s : Scope) (b : Beh) (n : Bytes) :
    lookIns ins s b n = accLook (effective ins) s b n := by
  rw [effective_def, accLook_foldl, lookIns_def]; rfl

/-- keys of the accumulator stay pairwise distinct -/
theorem effStep_nodup (acc : List Ins) (i : Ins) (h : (acc.map Ins.key).Nodup) : ((effStep acc i).map Ins.key).Nodup := by
  unfold effStep
  rw [List.map_append]
  apply List.nodup_append.mpr
  refine ⟨List.Nodup.sublist (List.Sublist.map _ List.filter_sublist) h, by simp, ?_⟩
  intro a ha b hb
  simp only [List.map_cons, List.map_nil, List.mem_singleton] at hb
  subst hb
  obtain ⟨x, hx, rfl⟩ := List.mem_map.mp ha
  have := (List.mem_filter.mp hx).2
  simp only [decide_not, Bool.not_eq_eq_eq_not, Bool.not_true, decide_eq_false_iff_not] at this
  intro e
  apply this
  simp only [Ins.key, Prod.mk.injEq] at e
  exact e

theorem effective_nodup (ins : List Ins) : ((effective ins).map Ins.key).Nodup := by
  rw [effective_def]
  have : ∀ acc : List Ins, (acc.map Ins.key).Nodup → ((ins.foldl effStep acc).map Ins.key).Nodup := by
    induction ins with
    | nil => intro acc h; exact h
    | cons i t ih => intro acc h; exact ih _ (effStep_nodup acc i h)
  exact this [] (by simp)

/-- **The oracle's file list is the theorem's spec.** A (path, content) pair is in `Spec.specFiles ins` (what the driver
compares the real directory with) iff it is a `SpecFileIn` file of its scope's directory. -/
theorem mem_specFiles_iff (ins : List Ins) (path : List Bytes) (c : Bytes) :
    (path, c) ∈ specFiles ins ↔ ∃ s f, path = scopeDir s ++ [f] ∧ SpecFileIn ins s f c := by
  unfold specFiles SpecFileIn
  simp only [List.mem_map, Prod.mk.injEq]
  constructor
  · rintro ⟨i, hi, hp, hc⟩
    refine ⟨i.scope, i.name ++ [46] ++ suffixName i.beh, hp.symm, i.beh, i.name, ?_, rfl⟩
    rw [lookIns_eq_accLook]
    unfold accLook
    -- i is the only element of `effective ins` with its key
    have hnd := effective_nodup ins
    have : (effective ins).find? (fun j => decide (j.scope = i.scope ∧ j.beh = i.beh ∧ j.name = i.name)) = some i := by
      generalize effective ins = l at hi hnd
      induction l with
      | nil => cases hi
      | cons x t ih =>
        rw [List.map_cons] at hnd
        have hnd' := List.nodup_cons.mp hnd
        by_cases hx : x.scope = i.scope ∧ x.beh = i.beh ∧ x.name = i.name
        · rcases List.mem_cons.mp hi with e | e
          · subst e; simp
          · exfalso
            apply hnd'.1
            have : x.key = i.key := by simp [Ins.key, hx]
            rw [this]; exact List.mem_map_of_mem e
        · rcases List.mem_cons.mp hi with e | e
          · subst e; simp at hx
          · simp only [List.find?_cons, hx, decide_false]
            exact ih e hnd'.2
    rw [this]; simp [hc]
  · rintro ⟨s, f, hp, b, n, hl, hf⟩
    rw [lookIns_eq_accLook] at hl
    unfold accLook at hl
    cases hfind : (effective ins).find? (fun j => decide (j.scope = s ∧ j.beh = b ∧ j.name = n)) with
    | none => rw [hfind] at hl; cases hl
    | some i =>
      rw [hfind] at hl
      have hmem := List.mem_of_find?_eq_some hfind
      have hk := List.find?_some hfind
      simp only [decide_eq_true_eq] at hk
      obtain ⟨h1, h2, h3⟩ := hk
      simp only [Option.map_some, Option.some.injEq] at hl
      exact ⟨i, hmem, by rw [hp, hf, h1, h2, h3], hl⟩

end CnbVerif
