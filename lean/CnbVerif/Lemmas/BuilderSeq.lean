import CnbVerif.Lemmas.Builders
/-! `build()` anywhere in a call sequence of a non-consuming builder (C07): the model (`runSeq`: a state, `build` reads
it) returns at every `build()` what the specification says it is meant to return (`callsBefore`: the value of all calls
made before it). -/
namespace CnbVerif.Builders
open CnbVerif.Cnb CnbVerif.Codec CnbVerif.Spec.Written

def toStep {α γ : Type} (f : α → γ) : SeqOp α → Step γ
  | .call op => .call (f op)
  | .build => .build

/-- the configuring calls of a sequence, `build()`s left out -/
def callsOf {α : Type} : List (SeqOp α) → List α
  | [] => []
  | .call op :: rest => op :: callsOf rest
  | .build :: rest => callsOf rest

/-- the number of `build()` calls of a sequence -/
def buildsIn {α : Type} : List (SeqOp α) → Nat
  | [] => 0
  | .call _ :: rest => buildsIn rest
  | .build :: rest => buildsIn rest + 1

theorem callsOf_append {α : Type} (a b : List (SeqOp α)) : callsOf (a ++ b) = callsOf a ++ callsOf b := by
  induction a with
  | nil => rfl
  | cons op a ih => cases op <;> simp [callsOf, ih]

theorem buildsIn_append {α : Type} (a b : List (SeqOp α)) : buildsIn (a ++ b) = buildsIn a + buildsIn b := by
  induction a with
  | nil => simp [buildsIn]
  | cons op a ih => cases op <;> simp [buildsIn, ih] <;> omega

theorem toStep_append_build {α γ : Type} (f : α → γ) (ops : List (SeqOp α)) :
    (ops ++ [SeqOp.build]).map (toStep f) = ops.map (toStep f) ++ [Step.build] := by
  simp [toStep]

/-! ## generic: the state machine against the specification's prefix reading -/

/-- if building after any calls gives the intended value of those calls, then **every** `build()` of **every** sequence
returns the intended value of the calls made before it -/
theorem runSeq_eq {σ α β γ : Type} (step : σ → α → σ) (build : σ → β) (intended : List γ → β) (f : α → γ) (s0 : σ)
    (h : ∀ cs : List α, build (cs.foldl step s0) = intended (cs.map f)) (ops : List (SeqOp α)) (before : List α) :
    runSeq step build (before.foldl step s0) ops = (callsBefore (before.map f) (ops.map (toStep f))).map intended := by
  induction ops generalizing before with
  | nil => rfl
  | cons op ops ih =>
    cases op with
    | call op =>
      have hs : step (before.foldl step s0) op = (before ++ [op]).foldl step s0 := by simp [List.foldl_append]
      simp only [runSeq, List.map_cons, toStep, callsBefore]
      rw [hs, ih (before ++ [op])]
      simp
    | build =>
      simp only [runSeq, List.map_cons, toStep, callsBefore]
      rw [ih before, h before]

/-- history form, on the model alone: the `build()` that follows the prefix `pre` returns the value of the state reached
by the configuring calls of `pre` — the `build()`s inside `pre` change nothing -/
theorem runSeq_prefix {σ α β : Type} (step : σ → α → σ) (build : σ → β) (s : σ) (pre post : List (SeqOp α)) :
    (runSeq step build s (pre ++ .build :: post))[buildsIn pre]? = some (build ((callsOf pre).foldl step s)) := by
  induction pre generalizing s with
  | nil => simp [runSeq, buildsIn, callsOf]
  | cons op pre ih =>
    cases op with
    | call op => simpa [runSeq, buildsIn, callsOf] using ih (step s op)
    | build => simpa [runSeq, buildsIn, callsOf] using ih s

theorem runSeq_length {σ α β : Type} (step : σ → α → σ) (build : σ → β) (s : σ) (ops : List (SeqOp α)) :
    (runSeq step build s ops).length = buildsIn ops := by
  induction ops generalizing s with
  | nil => rfl
  | cons op ops ih => cases op <;> simp [runSeq, buildsIn, ih]

/-- the specification's recursive reading, said with prefixes: the `build()` that follows `pre` is meant to return the
value of exactly the configuring calls of `pre` -/
theorem callsBefore_prefix {α : Type} (before : List α) (pre post : List (Step α)) :
    (callsBefore before (pre ++ .build :: post))[(callsBefore before pre).length]? =
      some (before ++ pre.filterMap (fun s => match s with | .call c => some c | .build => none)) := by
  induction pre generalizing before with
  | nil => simp [callsBefore]
  | cons s pre ih =>
    cases s with
    | call c => simpa [callsBefore, List.append_assoc] using ih (before ++ [c])
    | build => simpa [callsBefore] using ih before

/-! ## Require: repeated `metadata` -/

theorem requireSeq_fold (tables : List Table) (r : Req) :
    tables.foldl (fun r t => (⟨r.name, privDtKVs t⟩ : Req)) r = ⟨r.name, lastOr r.mdata (tables.map privDtKVs)⟩ := by
  induction tables generalizing r with
  | nil => rfl
  | cons t ts ih => simp only [List.foldl_cons, List.map_cons, lastOr]; rw [ih]

theorem map_privDtKVs_of_noDt (tables : List Table) (h : ∀ t ∈ tables, noDtKVs t = true) : tables.map privDtKVs = tables := by
  induction tables with
  | nil => rfl
  | cons t ts ih =>
    simp only [List.map_cons]
    rw [privDtKVs_of_noDt t (h t (by simp)), ih (fun t' ht' => h t' (by simp [ht']))]

/-! ## ProcessBuilder -/

theorem procSession_eq (t : String) (c : List String) (ops : List (SeqOp ProcOp)) :
    procSession t c ops = intendedBuilds (intendedProc t c) (ops.map (toStep toPCall) ++ [.build]) := by
  unfold procSession intendedBuilds
  have h := runSeq_eq procStep (fun p => p) (intendedProc t c) toPCall (procNew t c)
    (fun cs => buildProc_eq t c cs) (ops ++ [.build]) []
  simp only [List.foldl_nil, List.map_nil, toStep_append_build] at h
  exact h

/-! ## LaunchBuilder -/

def toLCallX : LaunchOpX → LCallX
  | .session t c ops => .session t c (ops.map (toStep toPCall))
  | .processes ps => .processes (ps.map (fun p => (p.1, p.2.1, p.2.2.map toPCall)))
  | .label k v => .label k v
  | .labels kvs => .labels kvs
  | .slice ps => .slice ps
  | .slices pss => .slices pss

def labOf : LCall → Option (String × String) := fun c => match c with | .label k v => some (k, v) | _ => none
def prcOf : LCall → Option Proc := fun c => match c with | .process t cmd pc => some (intendedProc t cmd pc) | _ => none
def slcOf : LCall → Option (List String) := fun c => match c with | .slice ps => some ps | _ => none

theorem intendedLaunch_eq (calls : List LCall) :
    intendedLaunch calls = ⟨calls.filterMap labOf, calls.filterMap prcOf, calls.filterMap slcOf⟩ := rfl

theorem filterMap_map_some {α β γ : Type} (g : α → β) (k : β → Option γ) (m : α → γ) (h : ∀ a, k (g a) = some (m a))
    (l : List α) : (l.map g).filterMap k = l.map m := by
  induction l with
  | nil => rfl
  | cons a l ih => simp [h a, ih]

theorem filterMap_map_none {α β γ : Type} (g : α → β) (k : β → Option γ) (h : ∀ a, k (g a) = none)
    (l : List α) : (l.map g).filterMap k = [] := by
  induction l with
  | nil => rfl
  | cons a l ih => simp [h a, ih]

theorem foldl_push (ps : List Proc) (l : Launch) :
    ps.foldl launchPush l = { l with processes := l.processes ++ ps } := by
  induction ps generalizing l with
  | nil => simp
  | cons p ps ih => simp only [List.foldl_cons]; rw [ih]; simp [launchPush]

theorem foldl_processes (ps : List (String × List String × List ProcOp)) (l : Launch) :
    ps.foldl (fun l p => launchStep l (.process p.1 p.2.1 p.2.2)) l =
      { l with processes := l.processes ++ ps.map (fun p => intendedProc p.1 p.2.1 (p.2.2.map toPCall)) } := by
  induction ps generalizing l with
  | nil => simp
  | cons p ps ih => simp only [List.foldl_cons]; rw [ih]; simp [launchStep, buildProc_eq]

theorem foldl_labels (kvs : List (String × String)) (l : Launch) :
    kvs.foldl (fun l kv => launchStep l (.label kv.1 kv.2)) l = { l with labels := l.labels ++ kvs } := by
  induction kvs generalizing l with
  | nil => simp
  | cons kv kvs ih => simp only [List.foldl_cons]; rw [ih]; simp [launchStep]

theorem foldl_slices (pss : List (List String)) (l : Launch) :
    pss.foldl (fun l ps => launchStep l (.slice ps)) l = { l with slices := l.slices ++ pss } := by
  induction pss generalizing l with
  | nil => simp
  | cons ps pss ih => simp only [List.foldl_cons]; rw [ih]; simp [launchStep]

/-- one call of the builder adds exactly what its singular reading adds, at the back, in order -/
theorem launchStepX_eq (l : Launch) (op : LaunchOpX) :
    launchStepX l op =
      ⟨l.labels ++ (toLCallX op).singular.filterMap labOf, l.processes ++ (toLCallX op).singular.filterMap prcOf,
       l.slices ++ (toLCallX op).singular.filterMap slcOf⟩ := by
  cases op with
  | session t c ops =>
    simp only [launchStepX, toLCallX, LCallX.singular, foldl_push, procSession_eq, intendedBuilds]
    rw [filterMap_map_none _ labOf (fun _ => rfl), filterMap_map_none _ slcOf (fun _ => rfl),
      filterMap_map_some _ prcOf (intendedProc t c) (fun _ => rfl)]
    simp
  | processes ps =>
    simp only [launchStepX, toLCallX, LCallX.singular, foldl_processes, List.map_map]
    rw [filterMap_map_none _ labOf (fun _ => rfl), filterMap_map_none _ slcOf (fun _ => rfl),
      filterMap_map_some _ prcOf (fun p => intendedProc p.1 p.2.1 (p.2.2.map toPCall)) (fun _ => rfl)]
    simp
  | label k v => simp [launchStepX, launchStep, toLCallX, LCallX.singular, labOf, prcOf, slcOf]
  | labels kvs =>
    simp only [launchStepX, toLCallX, LCallX.singular, foldl_labels]
    rw [filterMap_map_none _ prcOf (fun _ => rfl), filterMap_map_none _ slcOf (fun _ => rfl),
      filterMap_map_some _ labOf (fun kv => kv) (fun _ => rfl)]
    simp
  | slice ps => simp [launchStepX, launchStep, toLCallX, LCallX.singular, labOf, prcOf, slcOf]
  | slices pss =>
    simp only [launchStepX, toLCallX, LCallX.singular, foldl_slices]
    rw [filterMap_map_none _ labOf (fun _ => rfl), filterMap_map_none _ prcOf (fun _ => rfl),
      filterMap_map_some _ slcOf (fun ps => ps) (fun _ => rfl)]
    simp

theorem launchFoldX (ops : List LaunchOpX) (l : Launch) :
    ops.foldl launchStepX l =
      ⟨l.labels ++ ((ops.map toLCallX).flatMap LCallX.singular).filterMap labOf,
       l.processes ++ ((ops.map toLCallX).flatMap LCallX.singular).filterMap prcOf,
       l.slices ++ ((ops.map toLCallX).flatMap LCallX.singular).filterMap slcOf⟩ := by
  induction ops generalizing l with
  | nil => simp
  | cons op ops ih =>
    simp only [List.foldl_cons, List.map_cons, List.flatMap_cons, List.filterMap_append]
    rw [ih, launchStepX_eq]
    simp [List.append_assoc]

theorem launchX_eq (ops : List LaunchOpX) :
    ops.foldl launchStepX ⟨[], [], []⟩ = intendedLaunchX (ops.map toLCallX) := by
  rw [launchFoldX, intendedLaunchX, intendedLaunch_eq]
  simp

theorem launchSession_eq (ops : List (SeqOp LaunchOpX)) :
    launchSession ops = intendedLaunchDocs (ops.map (toStep toLCallX)) := by
  unfold launchSession intendedLaunchDocs intendedBuilds
  have h := runSeq_eq launchStepX (fun l => l) intendedLaunchX toLCallX ⟨[], [], []⟩ launchX_eq (ops ++ [.build]) []
  simp only [List.foldl_nil, List.map_nil, toStep_append_build] at h
  exact h

/-- what one `LaunchBuilder` holds after the configuring calls `cs` extends what it held after a prefix of them: nothing
added earlier is lost or reordered by what follows (calls or `build()`s) -/
theorem launch_extends (cs more : List LaunchOpX) :
    ∃ ls ps ss, (cs ++ more).foldl launchStepX ⟨[], [], []⟩ =
      ⟨(cs.foldl launchStepX ⟨[], [], []⟩).labels ++ ls, (cs.foldl launchStepX ⟨[], [], []⟩).processes ++ ps,
       (cs.foldl launchStepX ⟨[], [], []⟩).slices ++ ss⟩ := by
  rw [List.foldl_append]
  exact ⟨_, _, _, launchFoldX more _⟩

end CnbVerif.Builders
