import CnbVerif.Model.Argv
import CnbVerif.Spec.DockerGrammar
import CnbVerif.Spec.PackGrammar
import CnbVerif.Lemmas.Pflag
/-! Value codecs: what the model writes into an option value, read back by the reference grammars. -/
namespace CnbVerif.ArgvLemmas
open CnbVerif CnbVerif.Argv CnbVerif.Spec.Pflag

/-! ### decimals -/

theorem decAux_append (a b : Word) (acc : Nat) :
    decAux (a ++ b) acc = (decAux a acc).bind (fun x => decAux b x) := by
  induction a generalizing acc with
  | nil => simp [decAux]
  | cons c cs ih =>
    simp only [List.cons_append, decAux]
    split <;> simp [ih]

theorem decAux_natToDec (n : Nat) : decAux (natToDec n) 0 = some n := by
  induction n using Nat.strongRecOn with
  | _ n ih =>
    unfold natToDec
    by_cases h : n < 10
    · have hd : isDigit (48 + n) = true := by simp [isDigit]; omega
      simp [h, decAux, hd]
    · simp only [h, dite_false, decAux_append]
      rw [ih (n / 10) (by omega)]
      have hd : isDigit (48 + n % 10) = true := by simp [isDigit]; omega
      simp [decAux, hd]
      omega

theorem natToDec_ne_nil (n : Nat) : natToDec n ≠ [] := by
  unfold natToDec; split <;> simp

theorem decToNat_natToDec (n : Nat) : decToNat (natToDec n) = some n := by
  simp [decToNat, natToDec_ne_nil, decAux_natToDec]

theorem natToDec_digits (n : Nat) : ∀ b ∈ natToDec n, 48 ≤ b ∧ b ≤ 57 := by
  induction n using Nat.strongRecOn with
  | _ n ih =>
    unfold natToDec
    by_cases h : n < 10
    · simp [h]; omega
    · simp only [h, dite_false, List.mem_append, List.mem_singleton]
      intro b hb
      cases hb with
      | inl hb => exact ih (n / 10) (by omega) b hb
      | inr hb => omega

theorem natToDec_not_mem (n c : Nat) (hc : c < 48 ∨ 57 < c) : c ∉ natToDec n := by
  intro h
  have := natToDec_digits n c h
  omega

/-! ### `--env` -/

theorem docker_splitEnv (k val : Word) (hk : 61 ∉ k) :
    Spec.Docker.splitEnv (k ++ [61] ++ val) = (k, some val) := by
  simp [Spec.Docker.splitEnv, cutAt_append 61 k val hk]

theorem pack_splitEnv (k val : Word) (hk : 61 ∉ k) :
    Spec.Pack.splitEnv (k ++ [61] ++ val) = (k, some val) := by
  simp [Spec.Pack.splitEnv, cutAt_append 61 k val hk]

/-! ### `--publish` -/

theorem docker_parsePublish (p : Nat) (hp : p ≤ 65535) :
    Spec.Docker.parsePublish (w!"127.0.0.1::" ++ natToDec p) = some ⟨w!"127.0.0.1", [], p, w!"tcp"⟩ := by
  have h58 : 58 ∉ natToDec p := natToDec_not_mem p 58 (by omega)
  have h47 : 47 ∉ natToDec p := natToDec_not_mem p 47 (by omega)
  have hsplit : splitOn 58 (w!"127.0.0.1::" ++ natToDec p) = [w!"127.0.0.1", [], natToDec p] := by
    have e : (w!"127.0.0.1::" ++ natToDec p) = w!"127.0.0.1" ++ 58 :: ([] ++ 58 :: natToDec p) := by simp
    rw [e, splitOn_append 58 _ _ (by decide), splitOn_append 58 _ _ (by simp), splitOn_not_mem 58 _ h58]
  unfold Spec.Docker.parsePublish
  simp only [hsplit]
  simp [cutAt_none 47 _ h47, decToNat_natToDec, Spec.Docker.joinColon]
  refine ⟨by omega, ?_⟩
  decide

/-! ### `--mount` -/

/-- no CSV metacharacter of Go's `encoding/csv` with separator `,` -/
def CsvSafe (w : Word) : Prop := 44 ∉ w ∧ 34 ∉ w ∧ 10 ∉ w ∧ 13 ∉ w

instance (w : Word) : Decidable (CsvSafe w) := by unfold CsvSafe; exact inferInstance

theorem any_meta_false (w : Word) (h34 : 34 ∉ w) (h10 : 10 ∉ w) (h13 : 13 ∉ w) :
    w.any (fun b => b == 34 || b == 10 || b == 13) = false := by
  rw [List.any_eq_false]
  intro x hx
  have h1 : x ≠ 34 := fun e => h34 (e ▸ hx)
  have h2 : x ≠ 10 := fun e => h10 (e ▸ hx)
  have h3 : x ≠ 13 := fun e => h13 (e ▸ hx)
  simp [h1, h2, h3]

theorem mountField_type (acc : Spec.Docker.MountAcc) :
    Spec.Docker.mountField acc w!"type=bind" = some { acc with typ := some w!"bind" } := by
  have c : cutAt 61 w!"type=bind" = some (w!"type", w!"bind") := by decide
  unfold Spec.Docker.mountField
  rw [c]
  simp [lower]

theorem mountField_source (acc : Spec.Docker.MountAcc) (s : Word) :
    Spec.Docker.mountField acc (w!"source=" ++ s) = some { acc with source := some s } := by
  have c : cutAt 61 (w!"source=" ++ s) = some (w!"source", s) := cutAt_append 61 w!"source" s (by decide)
  unfold Spec.Docker.mountField
  rw [c]
  simp [lower]

theorem mountField_target (acc : Spec.Docker.MountAcc) (t : Word) :
    Spec.Docker.mountField acc (w!"target=" ++ t) = some { acc with target := some t } := by
  have c : cutAt 61 (w!"target=" ++ t) = some (w!"target", t) := cutAt_append 61 w!"target" t (by decide)
  unfold Spec.Docker.mountField
  rw [c]
  simp [lower]

theorem docker_parseMount (s t : Word) (hs : CsvSafe s) (ht : CsvSafe t) :
    Spec.Docker.parseMount (w!"type=bind,source=" ++ s ++ w!",target=" ++ t) = some ⟨w!"bind", some s, t, false, []⟩ := by
  obtain ⟨hs44, hs34, hs10, hs13⟩ := hs
  obtain ⟨ht44, ht34, ht10, ht13⟩ := ht
  have hany : (w!"type=bind,source=" ++ s ++ w!",target=" ++ t).any (fun b => b == 34 || b == 10 || b == 13) = false := by
    simp only [List.any_append, any_meta_false s hs34 hs10 hs13, any_meta_false t ht34 ht10 ht13]
    decide
  have hsplit : splitOn 44 (w!"type=bind,source=" ++ s ++ w!",target=" ++ t)
      = [w!"type=bind", w!"source=" ++ s, w!"target=" ++ t] := by
    have e : (w!"type=bind,source=" ++ s ++ w!",target=" ++ t)
        = w!"type=bind" ++ 44 :: ((w!"source=" ++ s) ++ 44 :: (w!"target=" ++ t)) := by simp
    rw [e, splitOn_append 44 _ _ (by decide), splitOn_append 44 _ _ (by simp [hs44]), splitOn_not_mem 44 _ (by simp [ht44])]
  unfold Spec.Docker.parseMount csvRecord
  rw [hany]
  simp only [hsplit, Bool.false_eq_true, if_false]
  simp only [Spec.Docker.mountFields, mountField_type, mountField_source, mountField_target]
  simp

/-! ### pack: `--buildpack` (string slice), `--cache` -/

theorem pack_stringSlice (b : Word) (hne : b ≠ []) (hs : CsvSafe b) : Spec.Pack.stringSlice b = some [b] := by
  obtain ⟨h44, h34, h10, h13⟩ := hs
  unfold Spec.Pack.stringSlice csvRecord
  simp [hne, any_meta_false b h34 h10 h13, splitOn_not_mem 44 b h44]

/-- no metacharacter of the `;`-separated `--cache` record -/
def NameSafe (w : Word) : Prop := 59 ∉ w ∧ 34 ∉ w ∧ 10 ∉ w ∧ 13 ∉ w

instance (w : Word) : Decidable (NameSafe w) := by unfold NameSafe; exact inferInstance

theorem pack_parseCache (kind n : Word) (hk : kind = w!"build" ∨ kind = w!"launch") (hn : NameSafe n) :
    Spec.Pack.parseCache (w!"type=" ++ kind ++ w!";format=volume;name=" ++ n) = some ⟨kind, w!"volume", n⟩ := by
  obtain ⟨h59, h34, h10, h13⟩ := hn
  have hk34 : 34 ∉ kind := by rcases hk with h | h <;> subst h <;> decide
  have hk10 : 10 ∉ kind := by rcases hk with h | h <;> subst h <;> decide
  have hk13 : 13 ∉ kind := by rcases hk with h | h <;> subst h <;> decide
  have hk59 : 59 ∉ kind := by rcases hk with h | h <;> subst h <;> decide
  have hk61 : 61 ∉ kind := by rcases hk with h | h <;> subst h <;> decide
  have hany : (w!"type=" ++ kind ++ w!";format=volume;name=" ++ n).any (fun b => b == 34 || b == 10 || b == 13) = false := by
    simp only [List.any_append, any_meta_false n h34 h10 h13, any_meta_false kind hk34 hk10 hk13]
    decide
  have hsplit : splitOn 59 (w!"type=" ++ kind ++ w!";format=volume;name=" ++ n)
      = [w!"type=" ++ kind, w!"format=volume", w!"name=" ++ n] := by
    have e : (w!"type=" ++ kind ++ w!";format=volume;name=" ++ n)
        = (w!"type=" ++ kind) ++ 59 :: (w!"format=volume" ++ 59 :: (w!"name=" ++ n)) := by simp
    rw [e, splitOn_append 59 _ _ (by simp [hk59]), splitOn_append 59 _ _ (by decide), splitOn_not_mem 59 _ (by simp [h59])]
  have c1 : cutAt 61 (w!"type=" ++ kind) = some (w!"type", kind) := cutAt_append 61 w!"type" kind (by decide)
  have c2 : cutAt 61 w!"format=volume" = some (w!"format", w!"volume") := by decide
  have c3 : cutAt 61 (w!"name=" ++ n) = some (w!"name", n) := cutAt_append 61 w!"name" n (by decide)
  have hlow : lower kind = kind := by rcases hk with h | h <;> subst h <;> decide
  unfold Spec.Pack.parseCache csvRecord
  rw [hany]
  simp only [hsplit, Bool.false_eq_true, if_false, List.map_cons, List.map_nil, c1, c2, c3, allSome, Option.map_some]
  have l1 : lower w!"type" = w!"type" := by decide
  have l2 : lower w!"format" = w!"format" := by decide
  have l3 : lower w!"name" = w!"name" := by decide
  have l4 : lower w!"volume" = w!"volume" := by decide
  simp only [l1, l2, l3]
  rcases hk with h | h <;> subst h <;> simp [lastOf, valuesOf, l4] <;> decide

end CnbVerif.ArgvLemmas
