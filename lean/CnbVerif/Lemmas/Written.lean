import CnbVerif.Lemmas.Builders
import CnbVerif.Lemmas.SchemaWrite
/-! The values the builder models construct have the type of the schemas regenerated from the code. -/
namespace CnbVerif.Cnb
open CnbVerif.Codec

theorem valid_plain (s : String) : StrV.plain.valid s = true := rfl
theorem valid_path (s : String) : StrV.path.valid s = true := rfl

theorem all_map_true {α} (f : α → Val) (s : Schema) (l : List α) (h : ∀ x ∈ l, hasType s (f x) = true) :
    (l.map f).all (hasType s) = true := by
  simp only [List.all_map, List.all_eq_true]
  intro x hx; exact h x hx

theorem all_strs (l : List String) : (l.map Val.str).all (hasType (.str .plain)) = true :=
  all_map_true _ _ _ (fun x _ => by simp [hasType, valid_plain])

theorem hasType_proc (p : Proc) (h : StrV.processType.valid p.type = true) : hasType Gen.S.Process p.toVal = true := by
  have h1 := all_strs p.args
  have h2 := all_strs p.command
  cases hw : p.wd <;>
    simp only [Gen.S.Process, Proc.toVal, strs, hasType, hasTypeFields, hw] <;>
    rw [h1, h2, h] <;> simp [Pres.allowsAbsent, valid_path]

theorem hasType_label (l : String × String) : hasType Gen.S.Label (labelVal l) = true := by
  simp [Gen.S.Label, labelVal, hasType, hasTypeFields, valid_plain]

theorem hasType_slice (s : List String) : hasType Gen.S.Slice (sliceVal s) = true := by
  have h1 := all_strs s
  simp only [Gen.S.Slice, sliceVal, strs, hasType, hasTypeFields]
  rw [h1]; rfl

theorem hasType_launch (l : Launch) (h : ∀ p ∈ l.processes, StrV.processType.valid p.type = true) :
    hasType Gen.S.Launch l.toVal = true := by
  have h1 := all_map_true labelVal Gen.S.Label l.labels (fun x _ => hasType_label x)
  have h2 := all_map_true Proc.toVal Gen.S.Process l.processes (fun x hx => hasType_proc x (h x hx))
  have h3 := all_map_true sliceVal Gen.S.Slice l.slices (fun x _ => hasType_slice x)
  simp only [Gen.S.Launch, Launch.toVal, hasType, hasTypeFields]
  rw [h1, h2, h3]; rfl

theorem hasType_provide (n : String) : hasType Gen.S.Provide (provideVal n) = true := by
  simp [Gen.S.Provide, provideVal, hasType, hasTypeFields, valid_plain]

theorem hasType_req (r : Req) : hasType Gen.S.Require r.toVal = true := by
  simp [Gen.S.Require, Req.toVal, hasType, hasTypeFields, valid_plain]

theorem hasType_group (g : Group) : hasType Gen.S.Or g.toVal = true := by
  have h1 := all_map_true provideVal Gen.S.Provide g.provides (fun x _ => hasType_provide x)
  have h2 := all_map_true Req.toVal Gen.S.Require g.requires (fun x _ => hasType_req x)
  simp only [Gen.S.Or, Group.toVal, hasType, hasTypeFields]
  rw [h1, h2]; rfl

theorem hasType_plan (p : Plan) : hasType Gen.S.BuildPlan p.toVal = true := by
  have h0 := all_map_true Group.toVal Gen.S.Or p.ors (fun x _ => hasType_group x)
  have h1 := all_map_true provideVal Gen.S.Provide p.first.provides (fun x _ => hasType_provide x)
  have h2 := all_map_true Req.toVal Gen.S.Require p.first.requires (fun x _ => hasType_req x)
  simp only [Gen.S.BuildPlan, Plan.toVal, hasType, hasTypeFields]
  rw [h0, h1, h2]; rfl

theorem hasType_layer (m : LayerMeta) : hasType (Gen.S.LayerContentMetadata .optionalTable) m.toVal = true := by
  cases hm : m.mdata <;> cases ht : m.types <;>
    simp [Gen.S.LayerContentMetadata, Gen.S.LayerTypes, LayerMeta.toVal, LayerTypes.toVal, Param.optionalTable, hasType, hasTypeFields,
      hm, ht, Pres.allowsAbsent]

theorem hasType_store (t : Table) : hasType Gen.S.Store (storeVal t) = true := by
  simp [Gen.S.Store, storeVal, hasType, hasTypeFields]

theorem hasType_execd (kvs : List (String × String)) (h : ∀ kv ∈ kvs, StrV.execdKey.valid kv.1 = true) :
    hasType Gen.S.ExecDProgramOutput (execdVal kvs) = true := by
  simp only [Gen.S.ExecDProgramOutput, execdVal, hasType, List.all_map, List.all_eq_true]
  intro kv hkv
  simp only [Function.comp, h kv hkv, hasType, valid_plain, Bool.and_self]

theorem hasType_package (p : Package) (h : p.os = "linux" ∨ p.os = "windows")
    (hb : StrV.uri.valid p.buildpack = true) (hdeps : ∀ u ∈ p.dependencies, StrV.uri.valid u = true) :
    hasType Gen.S.PackageDescriptor p.toVal = true := by
  have hd := all_map_true (fun u => Val.record [("uri", .str u)]) Gen.S.PackageDescriptorDependency p.dependencies
    (fun x hx => by simp [Gen.S.PackageDescriptorDependency, hasType, hasTypeFields, hdeps x hx])
  rcases h with h | h <;>
    simp only [Gen.S.PackageDescriptor, Gen.S.PackageDescriptorBuildpackReference, Gen.S.Platform, Package.toVal, hasType, hasTypeFields, h] <;>
    rw [hd, hb] <;> simp [StrV.valid]

end CnbVerif.Cnb
