import CnbVerif.Model.Packager
import CnbVerif.Spec.Packaging
import CnbVerif.Lemmas.DepGraphIds
/-!
C15 helper lemmas: the flat tree (`lookup` after `write` / `removeAll` / `writeAll` / `applyStep` / a fold of steps),
the entries of one packaged directory, the planning loop, the inversion of `package`, sorting.
-/
namespace CnbVerif.Packager
open CnbVerif.Chars CnbVerif.PkgDescriptor CnbVerif.DepGraph CnbVerif.Spec.Topo

/-! ### the flat tree -/

set_option linter.unusedSimpArgs false

theorem lookup_write (p q : Path) (n : Node) (fs : FS) :
    lookup (write p n fs) q = if p = q then some n else lookup fs q := by
  unfold lookup write
  by_cases h : p = q
  · simp [h]
  · have hb : (p == q) = false := by simpa using h
    simp [List.find?_cons, h, hb]

theorem lookup_removeAll (p q : Path) (fs : FS) :
    lookup (removeAll p fs) q = if p.isPrefixOf q then none else lookup fs q := by
  unfold lookup removeAll
  induction fs with
  | nil => simp
  | cons e rest ih =>
    by_cases hq : e.1 = q
    · subst hq
      by_cases hp : p.isPrefixOf e.1 = true
      · simp only [List.filter_cons, hp, Bool.not_true, Bool.false_eq_true, if_false, if_true]
        simpa [hp] using ih
      · simp [List.filter_cons, hp, List.find?_cons]
    · have hb : (e.1 == q) = false := by simpa using hq
      by_cases hp : p.isPrefixOf e.1 = true
      · simp only [List.filter_cons, hp, Bool.not_true, Bool.false_eq_true, if_false, List.find?_cons, hb]
        exact ih
      · simp only [List.filter_cons, hp, Bool.not_false, if_true, List.find?_cons, hb]
        exact ih
