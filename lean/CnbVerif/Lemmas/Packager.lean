import CnbVerif.Model.Packager
import CnbVerif.Spec.Packaging
import CnbVerif.Props.C13
/-!
C15 helper lemmas: the flat tree (`lookup` after `write` / `removeAll` / `writeAll` / `applyStep` / a fold of steps),
the entries of one packaged directory, the planning loop, the inversion of `package`, sorting.
-/
namespace CnbVerif.Packager
open CnbVerif.Chars CnbVerif.PkgDescriptor CnbVerif.DepGraph CnbVerif.Spec.Topo

/-! ### the flat tree -/

set_option linter.unusedSimpArgs false

theorem isPrefixOf_self (l : Path) : l.isPrefixOf l = true := by
  rw [List.isPrefixOf_iff_prefix]; exact List.prefix_refl l

theorem isPrefixOf_append (l r : Path) : l.isPrefixOf (l ++ r) = true := by
  rw [List.isPrefixOf_iff_prefix]; exact List.prefix_append l r

theorem lookup_write (p q : Path) (n : Node) (fs : FS) :
    lookup (write p n fs) q = if p = q then some n else lookup fs q := by
  unfold lookup write
  by_cases h : p = q
  · simp [h]
  · have hb : (p == q) = false := by simpa using h
    simp [List.find?_cons, h, hb]

theorem lookup_removeAll (p q : Path) (fs : FS) :
    lookup (removeAll p fs) q = if p.isPrefixOf q then none else lookup fs q := by
  unfold lookup removeAll
  induction fs with
  | nil => simp
  | cons e rest ih =>
    by_cases hq : e.1 = q
    · subst hq
      by_cases hp : p.isPrefixOf e.1 = true
      · simp only [List.filter_cons, hp, Bool.not_true, Bool.false_eq_true, if_false, if_true]
        simpa [hp] using ih
      · simp [List.filter_cons, hp, List.find?_cons]
    · have hb : (e.1 == q) = false := by simpa using hq
      by_cases hp : p.isPrefixOf e.1 = true
      · simp only [List.filter_cons, hp, Bool.not_true, Bool.false_eq_true, if_false, List.find?_cons, hb]
        exact ih
      · simp only [List.filter_cons, hp, Bool.not_false, if_true, List.find?_cons, hb]
        exact ih

theorem lookup_writeAll (dest : Path) (its : List (Path × Node)) (fs : FS) (q : Path) :
    lookup (writeAll dest its fs) q =
      match its.reverse.find? (fun it => dest ++ it.1 == q) with
      | some it => some it.2
      | none => lookup fs q := by
  induction its generalizing fs with
  | nil => simp [writeAll]
  | cons it its ih =>
    have hstep : writeAll dest (it :: its) fs = writeAll dest its (write (dest ++ it.1) it.2 fs) := by
      simp [writeAll]
    rw [hstep, ih, List.reverse_cons, List.find?_append]
    cases hf : its.reverse.find? (fun it => dest ++ it.1 == q) with
    | some x => simp
    | none =>
      simp only [Option.none_or, List.find?_cons, List.find?_nil]
      rw [lookup_write]
      by_cases h : dest ++ it.1 = q
      · simp [h]
      · have hb : (dest ++ it.1 == q) = false := by simpa using h
        simp [h, hb]

theorem lookup_append (l fs : FS) (q : Path) : lookup (l ++ fs) q = (lookup l q).or (lookup fs q) := by
  unfold lookup
  rw [List.find?_append]
  cases l.find? (fun e => e.1 == q) <;> simp

theorem lookup_allDir : ∀ (l : FS) (q : Path), (∀ e ∈ l, e.2 = Node.dir) →
    lookup l q = if l.any (fun e => e.1 == q) then some .dir else none := by
  intro l q
  induction l with
  | nil => intro _; rfl
  | cons e rest ih =>
    intro h
    have he : e.2 = Node.dir := h e (List.mem_cons_self ..)
    have ih' := ih (fun x hx => h x (List.mem_cons_of_mem _ hx))
    unfold lookup at ih' ⊢
    by_cases hq : e.1 = q
    · simp [List.find?_cons, hq, he]
    · have hb : (e.1 == q) = false := by simpa using hq
      simp only [List.find?_cons, hb, List.any_cons, Bool.false_or]
      exact ih'

theorem mem_dirEntries {p : Path} {e : Path × Node} (h : e ∈ dirEntries p) :
    ∃ k, k < p.length ∧ e = (p.take (k + 1), Node.dir) := by
  unfold dirEntries at h
  obtain ⟨k, hk, rfl⟩ := List.mem_map.1 h
  exact ⟨k, List.mem_range.1 hk, rfl⟩

/-- `q` is one of the directories `create_dir_all p` makes -/
def isMadeDir (p q : Path) : Bool := (dirEntries p).any (fun e => e.1 == q)

theorem lookup_mkdirAll (p q : Path) (fs : FS) :
    lookup (mkdirAll p fs) q = if isMadeDir p q then some .dir else lookup fs q := by
  unfold mkdirAll isMadeDir
  rw [lookup_append, lookup_allDir _ _ (fun e he => by obtain ⟨k, _, rfl⟩ := mem_dirEntries he; rfl)]
  cases (dirEntries p).any (fun e => e.1 == q) <;> simp

theorem isMadeDir_prefix {p q : Path} (h : isMadeDir p q = true) : q.isPrefixOf p = true ∧ q ≠ [] := by
  unfold isMadeDir at h
  obtain ⟨e, he, heq⟩ := List.any_eq_true.1 h
  obtain ⟨k, hk, rfl⟩ := mem_dirEntries he
  simp only [beq_iff_eq] at heq
  subst heq
  constructor
  · rw [List.isPrefixOf_iff_prefix]; exact List.take_prefix _ _
  · intro h0
    have h1 : (p.take (k + 1)).length = k + 1 := by rw [List.length_take]; omega
    rw [h0] at h1
    simp at h1

theorem isMadeDir_self {p : Path} (h : p ≠ []) : isMadeDir p p = true := by
  unfold isMadeDir
  apply List.any_eq_true.2
  have hl : 0 < p.length := List.length_pos_iff.2 h
  refine ⟨(p.take (p.length - 1 + 1), Node.dir), ?_, ?_⟩
  · unfold dirEntries
    exact List.mem_map.2 ⟨p.length - 1, List.mem_range.2 (by omega), rfl⟩
  · have : p.length - 1 + 1 = p.length := by omega
    simp [this]

/-- what one iteration leaves at `q`, given what was there -/
def stepValue (s : Step) (q : Path) (old : Option Node) : Option Node :=
  match s.items.reverse.find? (fun it => s.dest ++ it.1 == q) with
  | some it => some it.2
  | none => if isMadeDir s.dest q then some .dir else if s.dest.isPrefixOf q then none else old

theorem lookup_applyStep (fs : FS) (s : Step) (q : Path) :
    lookup (applyStep fs s) q = stepValue s q (lookup fs q) := by
  unfold applyStep stepValue
  rw [lookup_writeAll]
  cases hf : s.items.reverse.find? (fun it => s.dest ++ it.1 == q) with
  | some x => rfl
  | none => simp only [lookup_mkdirAll, lookup_removeAll]

/-- a path below the destination of a step does not depend on what was there before -/
theorem stepValue_inside (s : Step) (q : Path) (a b : Option Node) (h : s.dest.isPrefixOf q = true) :
    stepValue s q a = stepValue s q b := by
  unfold stepValue
  cases s.items.reverse.find? (fun it => s.dest ++ it.1 == q) with
  | some x => rfl
  | none => simp [h]

/-- a path that is neither below the destination of a step nor on the way to it is left alone -/
theorem stepValue_outside (s : Step) (q : Path) (a : Option Node) (h : s.dest.isPrefixOf q = false)
    (h' : isMadeDir s.dest q = false) : stepValue s q a = a := by
  unfold stepValue
  cases hf : s.items.reverse.find? (fun it => s.dest ++ it.1 == q) with
  | some x =>
    exfalso
    have := List.find?_some hf
    simp only [beq_iff_eq] at this
    rw [← this, isPrefixOf_append] at h
    cases h
  | none => simp [h, h']

/-- a path on the way to the destination (a proper prefix of it) is a directory afterwards, whatever was there -/
theorem stepValue_congr (s : Step) (q : Path) (a b : Option Node) (h : a = b ∨ s.dest.isPrefixOf q = true) :
    stepValue s q a = stepValue s q b := by
  rcases h with h | h
  · rw [h]
  · exact stepValue_inside s q a b h

/-- seed independence, one path: equal before or wiped on the way ⇒ equal after -/
theorem lookup_steps_congr (steps : List Step) (q : Path) (fs₁ fs₂ : FS)
    (h : lookup fs₁ q = lookup fs₂ q ∨ ∃ s ∈ steps, s.dest.isPrefixOf q = true) :
    lookup (steps.foldl applyStep fs₁) q = lookup (steps.foldl applyStep fs₂) q := by
  induction steps generalizing fs₁ fs₂ with
  | nil =>
    rcases h with h | ⟨s, hs, _⟩
    · exact h
    · simp at hs
  | cons s rest ih =>
    simp only [List.foldl_cons]
    apply ih
    by_cases hp : s.dest.isPrefixOf q = true
    · left
      rw [lookup_applyStep, lookup_applyStep]
      exact stepValue_inside s q _ _ hp
    · rcases h with h | ⟨s', hs', hp'⟩
      · left
        rw [lookup_applyStep, lookup_applyStep, h]
      · rcases List.mem_cons.1 hs' with rfl | hm
        · exact absurd hp' hp
        · right; exact ⟨s', hm, hp'⟩

/-- frame: a path below no destination keeps what it had -/
theorem lookup_steps_outside (steps : List Step) (q : Path) (fs : FS)
    (h : ∀ s ∈ steps, s.dest.isPrefixOf q = false) (h' : ∀ s ∈ steps, isMadeDir s.dest q = false) :
    lookup (steps.foldl applyStep fs) q = lookup fs q := by
  induction steps generalizing fs with
  | nil => rfl
  | cons s rest ih =>
    simp only [List.foldl_cons]
    rw [ih _ (fun s' hs' => h s' (List.mem_cons_of_mem _ hs')) (fun s' hs' => h' s' (List.mem_cons_of_mem _ hs')),
      lookup_applyStep, stepValue_outside s q _ (h s (List.mem_cons_self ..)) (h' s (List.mem_cons_self ..))]

/-! ### one packaged directory -/

/-- what a freshly written directory holds at a relative path: the last entry written there; the directory itself -/
def atRel (items : List (Path × Node)) (rel : Path) : Option Node :=
  match items.reverse.find? (fun it => it.1 == rel) with
  | some it => some it.2
  | none => if rel = [] then some .dir else none

theorem stepValue_rel (s : Step) (hne : s.dest ≠ []) (rel : Path) (old : Option Node) :
    stepValue s (s.dest ++ rel) old = atRel s.items rel := by
  unfold stepValue atRel
  have hfun : (fun it : Path × Node => s.dest ++ it.1 == s.dest ++ rel) = (fun it => it.1 == rel) := by
    funext it
    by_cases h : it.1 = rel
    · simp [h]
    · have h1 : (it.1 == rel) = false := by simpa using h
      have h2 : (s.dest ++ it.1 == s.dest ++ rel) = false := by simpa using h
      rw [h1, h2]
  rw [hfun]
  cases items_find : s.items.reverse.find? (fun it => it.1 == rel) with
  | some x => rfl
  | none =>
    by_cases hr : rel = []
    · simp [hr, isMadeDir_self hne]
    · have : isMadeDir s.dest (s.dest ++ rel) = false := by
        cases hm : isMadeDir s.dest (s.dest ++ rel) with
        | false => rfl
        | true =>
          exfalso
          have h1 := (isMadeDir_prefix hm).1
          rw [List.isPrefixOf_iff_prefix] at h1
          have h2 := h1.length_le
          simp only [List.length_append] at h2
          have : rel.length = 0 := by omega
          exact hr (List.length_eq_zero_iff.1 this)
      simp [hr, this, isPrefixOf_append]

theorem atRel_of_mem {items : List (Path × Node)} {k : Path} {v : Node} (hm : (k, v) ∈ items)
    (hf : ∀ it ∈ items, it.1 = k → it.2 = v) : atRel items k = some v := by
  unfold atRel
  cases hfind : items.reverse.find? (fun it => it.1 == k) with
  | some x =>
    have h1 := List.find?_some hfind
    have h2 := List.mem_of_find?_eq_some hfind
    simp only [beq_iff_eq] at h1
    simp [hf x (List.mem_reverse.1 h2) h1]
  | none =>
    exfalso
    have := List.find?_eq_none.1 hfind (k, v) (List.mem_reverse.2 hm)
    simp at this

theorem atRel_some {items : List (Path × Node)} {rel : Path} {n : Node} (h : atRel items rel = some n) :
    (rel = [] ∧ n = .dir) ∨ (rel, n) ∈ items := by
  unfold atRel at h
  cases hfind : items.reverse.find? (fun it => it.1 == rel) with
  | some x =>
    rw [hfind] at h
    have h1 := List.find?_some hfind
    have h2 := List.mem_of_find?_eq_some hfind
    simp only [beq_iff_eq] at h1
    simp only [Option.some.injEq] at h
    right
    have : x = (rel, n) := by cases x; simp_all
    rw [← this]; exact List.mem_reverse.1 h2
  | none =>
    rw [hfind] at h
    by_cases hr : rel = []
    · simp [hr] at h; exact Or.inl ⟨hr, h.symm⟩
    · simp [hr] at h

theorem prefix_same_length {a b rel : Path} (h : a.isPrefixOf (b ++ rel) = true) (hl : a.length = b.length) : a = b := by
  rw [List.isPrefixOf_iff_prefix] at h
  have := List.prefix_iff_eq_take.1 h
  rw [hl, List.take_left'] at this
  · exact this
  · rfl

/-- with destinations of one (non-zero) length and pairwise distinct, a fold of steps leaves below the destination of a
step exactly what that step wrote -/
theorem lookup_steps_inside (steps : List Step) (n : Nat) (hpos : 0 < n) (hlen : ∀ a ∈ steps, a.dest.length = n)
    (hnd : (steps.map (·.dest)).Nodup) (s : Step) (hs : s ∈ steps) (rel : Path) (fs : FS) :
    lookup (steps.foldl applyStep fs) (s.dest ++ rel) = atRel s.items rel := by
  obtain ⟨pre, post, rfl⟩ := List.append_of_mem hs
  rw [List.foldl_append, List.foldl_cons]
  have hsl : s.dest.length = n := hlen s (by simp)
  have hne : s.dest ≠ [] := by
    intro h0; rw [h0] at hsl; simp at hsl; omega
  have hdiff : ∀ s' ∈ post, s'.dest ≠ s.dest := by
    intro s' hs' heq
    simp only [List.map_append, List.map_cons] at hnd
    have h2 := (List.nodup_append.1 hnd).2.1
    have h3 := (List.nodup_cons.1 h2).1
    exact h3 (heq ▸ List.mem_map.2 ⟨s', hs', rfl⟩)
  have hpost : ∀ s' ∈ post, s'.dest.isPrefixOf (s.dest ++ rel) = false := by
    intro s' hs'
    cases hp : s'.dest.isPrefixOf (s.dest ++ rel) with
    | false => rfl
    | true =>
      exact absurd (prefix_same_length hp ((hlen s' (by simp [hs'])).trans hsl.symm)) (hdiff s' hs')
  have hpost' : ∀ s' ∈ post, isMadeDir s'.dest (s.dest ++ rel) = false := by
    intro s' hs'
    cases hm : isMadeDir s'.dest (s.dest ++ rel) with
    | false => rfl
    | true =>
      exfalso
      have h1 := (isMadeDir_prefix hm).1
      have h1' := h1
      rw [List.isPrefixOf_iff_prefix] at h1'
      have h2 := h1'.length_le
      have h3 : s'.dest.length = n := hlen s' (by simp [hs'])
      simp only [List.length_append] at h2
      have hr : rel = [] := List.length_eq_zero_iff.1 (by omega)
      subst hr
      have h4 : (s.dest).isPrefixOf (s'.dest ++ []) = true := by simpa using h1
      exact hdiff s' hs' (prefix_same_length h4 (hsl.trans h3.symm)).symm
  rw [lookup_steps_outside post _ _ hpost hpost', lookup_applyStep, stepValue_rel s hne]

/-! ### main binary, entries of a packaged directory -/

open CnbVerif.Spec.Packaging in
theorem mainTarget_ok_iff (p : String) (bins : List String) (m : String) :
    mainTarget p bins = .ok m ↔ mainOf p bins = some m := by
  unfold mainTarget mainOf
  match bins with
  | [] => simp
  | [b] => simp
  | b :: c :: rest =>
    by_cases h : p ∈ b :: c :: rest
    · have hc : (b :: c :: rest).contains p = true := by simpa using h
      simp [h, hc]
    · have hc : (b :: c :: rest).contains p = false := by simpa using h
      simp [h, hc]

open CnbVerif.Spec.Packaging in
theorem additional_eq (m : String) (bins : List String) : additionalTargets m bins = additionalOf m bins := rfl

theorem mem_libcnbItems {profile : Profile} {d p m : String} {adds : List String} {it : Path × Node} :
    it ∈ libcnbItems profile d p m adds ↔
      it = (["buildpack.toml"], .file (.raw d)) ∨ it = (["bin"], .dir) ∨
      it = (["bin", "build"], .file (.artifact p m profile)) ∨ it = (["bin", "detect"], .link "build") ∨
      (adds ≠ [] ∧ it = ([".libcnb-cargo"], .dir)) ∨
      (adds ≠ [] ∧ it = (additionalDir, .dir)) ∨
      (∃ n ∈ adds, it = (additionalDir ++ [n], .file (.artifact p n profile))) ∨
      it = (["package.toml"], .file (.pkg libcnbPackageToml)) := by
  unfold libcnbItems
  cases adds with
  | nil => simp
  | cons a rest =>
    simp only [List.isEmpty_cons, Bool.false_eq_true, if_false, List.mem_append, List.mem_cons, List.mem_map,
      List.not_mem_nil, or_false, ne_eq, reduceCtorEq, not_false_eq_true, true_and]
    constructor
    · intro h
      rcases h with (h | h) | h
      · rcases h with h | h | h | h
        · exact Or.inl h
        · exact Or.inr (Or.inl h)
        · exact Or.inr (Or.inr (Or.inl h))
        · exact Or.inr (Or.inr (Or.inr (Or.inl h)))
      · rcases h with h | h | h
        · exact Or.inr (Or.inr (Or.inr (Or.inr (Or.inl h))))
        · exact Or.inr (Or.inr (Or.inr (Or.inr (Or.inr (Or.inl h)))))
        · obtain ⟨n, hn, he⟩ := h
          exact Or.inr (Or.inr (Or.inr (Or.inr (Or.inr (Or.inr (Or.inl ⟨n, hn, he.symm⟩))))))
      · exact Or.inr (Or.inr (Or.inr (Or.inr (Or.inr (Or.inr (Or.inr h))))))
    · intro h
      rcases h with h | h | h | h | h | h | h | h
      · exact Or.inl (Or.inl (Or.inl h))
      · exact Or.inl (Or.inl (Or.inr (Or.inl h)))
      · exact Or.inl (Or.inl (Or.inr (Or.inr (Or.inl h))))
      · exact Or.inl (Or.inl (Or.inr (Or.inr (Or.inr h))))
      · exact Or.inl (Or.inr (Or.inl h))
      · exact Or.inl (Or.inr (Or.inr (Or.inl h)))
      · obtain ⟨n, hn, he⟩ := h
        exact Or.inl (Or.inr (Or.inr (Or.inr ⟨n, hn, he.symm⟩)))
      · exact Or.inr h

open CnbVerif.Spec.Packaging in
theorem linksToBuild_build : linksToBuild "build" = true := by decide +kernel

open CnbVerif.Spec.Packaging in
/-- a directory that received exactly the entries of `libcnbItems` is a complete packaged libcnb.rs buildpack -/
theorem libcnbItems_packaged (profile : Profile) (d p m : String) (adds : List String) :
    PackagedLibcnb (atRel (libcnbItems profile d p m adds)) d p m adds profile := by
  have key : ∀ (k : Path) (v : Node), (k, v) ∈ libcnbItems profile d p m adds →
      (∀ it ∈ libcnbItems profile d p m adds, it.1 = k → it.2 = v) →
      atRel (libcnbItems profile d p m adds) k = some v := fun k v h1 h2 => atRel_of_mem h1 h2
  refine ⟨?_, ?_, ?_, ⟨"build", ?_, linksToBuild_build⟩, ?_, ⟨libcnbPackageToml, ?_⟩, ?_⟩
  · apply key
    · exact mem_libcnbItems.2 (Or.inl rfl)
    · intro it hit hk
      rcases mem_libcnbItems.1 hit with rfl | rfl | rfl | rfl | ⟨_, rfl⟩ | ⟨_, rfl⟩ | ⟨n, _, rfl⟩ | rfl <;>
        first | rfl | (simp [additionalDir, relBuildpackToml] at hk)
  · apply key
    · exact mem_libcnbItems.2 (Or.inr (Or.inl rfl))
    · intro it hit hk
      rcases mem_libcnbItems.1 hit with rfl | rfl | rfl | rfl | ⟨_, rfl⟩ | ⟨_, rfl⟩ | ⟨n, _, rfl⟩ | rfl <;>
        first | rfl | (simp [additionalDir, relBin] at hk)
  · apply key
    · exact mem_libcnbItems.2 (Or.inr (Or.inr (Or.inl rfl)))
    · intro it hit hk
      rcases mem_libcnbItems.1 hit with rfl | rfl | rfl | rfl | ⟨_, rfl⟩ | ⟨_, rfl⟩ | ⟨n, _, rfl⟩ | rfl <;>
        first | rfl | (simp [additionalDir, relBuild] at hk)
  · apply key
    · exact mem_libcnbItems.2 (Or.inr (Or.inr (Or.inr (Or.inl rfl))))
    · intro it hit hk
      rcases mem_libcnbItems.1 hit with rfl | rfl | rfl | rfl | ⟨_, rfl⟩ | ⟨_, rfl⟩ | ⟨n, _, rfl⟩ | rfl <;>
        first | rfl | (simp [additionalDir, relDetect] at hk)
  · intro a ha
    apply key
    · exact mem_libcnbItems.2 (Or.inr (Or.inr (Or.inr (Or.inr (Or.inr (Or.inr (Or.inl ⟨a, ha, rfl⟩)))))))
    · intro it hit hk
      rcases mem_libcnbItems.1 hit with rfl | rfl | rfl | rfl | ⟨_, rfl⟩ | ⟨_, rfl⟩ | ⟨n, _, rfl⟩ | rfl <;>
        first | (simp [additionalDir, relAdditional] at hk; done) | skip
      simp only [additionalDir, relAdditional, List.cons_append, List.nil_append, List.cons.injEq, and_true, true_and] at hk
      subst hk; rfl
  · apply key
    · exact mem_libcnbItems.2 (Or.inr (Or.inr (Or.inr (Or.inr (Or.inr (Or.inr (Or.inr rfl)))))))
    · intro it hit hk
      rcases mem_libcnbItems.1 hit with rfl | rfl | rfl | rfl | ⟨_, rfl⟩ | ⟨_, rfl⟩ | ⟨n, _, rfl⟩ | rfl <;>
        first | rfl | (simp [additionalDir, relPackageToml] at hk)
  · intro rel n h
    rcases atRel_some h with ⟨hr, _⟩ | hm
    · exact Or.inl hr
    · rcases mem_libcnbItems.1 hm with he | he | he | he | ⟨hne, he⟩ | ⟨hne, he⟩ | ⟨a, ha, he⟩ | he <;>
        simp only [Prod.mk.injEq] at he <;> obtain ⟨h1, h2⟩ := he
      · exact Or.inr (Or.inl h1)
      · exact Or.inr (Or.inr (Or.inl h1))
      · exact Or.inr (Or.inr (Or.inr (Or.inl h1)))
      · exact Or.inr (Or.inr (Or.inr (Or.inr (Or.inl h1))))
      · exact Or.inr (Or.inr (Or.inr (Or.inr (Or.inr (Or.inr (Or.inl ⟨hne, h2, Or.inl h1⟩))))))
      · exact Or.inr (Or.inr (Or.inr (Or.inr (Or.inr (Or.inr (Or.inl ⟨hne, h2, Or.inr h1⟩))))))
      · exact Or.inr (Or.inr (Or.inr (Or.inr (Or.inr (Or.inr (Or.inr ⟨a, ha, h1⟩))))))
      · exact Or.inr (Or.inr (Or.inr (Or.inr (Or.inr (Or.inl h1)))))

open CnbVerif.Spec.Packaging in
theorem compositeItems_packaged (d : String) (out : Descriptor) :
    PackagedComposite (atRel (compositeItems d out)) d out := by
  refine ⟨?_, ?_, ?_⟩
  · apply atRel_of_mem
    · simp [compositeItems, relBuildpackToml]
    · intro it hit hk
      simp only [compositeItems, List.mem_cons, List.not_mem_nil, or_false] at hit
      rcases hit with rfl | rfl
      · rfl
      · simp [relBuildpackToml] at hk
  · apply atRel_of_mem
    · simp [compositeItems, relPackageToml]
    · intro it hit hk
      simp only [compositeItems, List.mem_cons, List.not_mem_nil, or_false] at hit
      rcases hit with rfl | rfl
      · simp [relPackageToml] at hk
      · rfl
  · intro rel n h
    rcases atRel_some h with ⟨hr, _⟩ | hm
    · exact Or.inl hr
    · simp only [compositeItems, List.mem_cons, List.not_mem_nil, or_false, Prod.mk.injEq] at hm
      rcases hm with ⟨h1, _⟩ | ⟨h1, _⟩
      · exact Or.inr (Or.inl h1)
      · exact Or.inr (Or.inr h1)

/-! ### the planning loop -/

theorem planLoop_ok {ws : Workspace} {cfg : Config} {pk : Str} :
    ∀ (bps : List Buildpack) (dirs : List (String × Str)) {steps : List Step} {dirs' : List (String × Str)},
      planLoop ws cfg pk bps dirs = .ok (steps, dirs') →
      dirs' = dirs ++ bps.map (fun bp => (bp.id, destStr pk cfg bp.id)) ∧
      steps.map (·.id) = bps.map (·.id) ∧
      steps.map (·.dest) = bps.map (fun bp => destPath cfg bp.id) ∧
      ∀ s ∈ steps, ∃ bp ∈ bps, ∃ before : List (String × Str),
        s.id = bp.id ∧ s.dest = destPath cfg bp.id ∧ itemsFor ws cfg before bp = .ok s.items ∧
        ∀ e ∈ before, e ∈ dirs ∨ ∃ b ∈ bps, e = (b.id, destStr pk cfg b.id) := by
  intro bps
  induction bps with
  | nil =>
    intro dirs steps dirs' h
    simp only [planLoop, Except.ok.injEq, Prod.mk.injEq] at h
    obtain ⟨rfl, rfl⟩ := h
    simp
  | cons bp rest ih =>
    intro dirs steps dirs' h
    unfold planLoop at h
    cases hs : planStep ws cfg dirs bp with
    | error e => rw [hs] at h; cases h
    | ok s =>
      rw [hs] at h
      simp only at h
      cases hr : planLoop ws cfg pk rest (dirs ++ [(bp.id, destStr pk cfg bp.id)]) with
      | error e => rw [hr] at h; cases h
      | ok r =>
        obtain ⟨ss, d2⟩ := r
        rw [hr] at h
        simp only [Except.ok.injEq, Prod.mk.injEq] at h
        obtain ⟨rfl, rfl⟩ := h
        obtain ⟨h1, h2, h3, h4⟩ := ih _ hr
        unfold planStep at hs
        cases hi : itemsFor ws cfg dirs bp with
        | error e => rw [hi] at hs; cases hs
        | ok items =>
          rw [hi] at hs
          simp only [Except.ok.injEq] at hs
          subst hs
          refine ⟨by simp [h1], by simp [h2], by simp [h3], ?_⟩
          intro s hsm
          rcases List.mem_cons.1 hsm with rfl | hsm
          · exact ⟨bp, List.mem_cons_self .., dirs, rfl, rfl, hi, fun e he => Or.inl he⟩
          · obtain ⟨b, hb, before, e1, e2, e3, e4⟩ := h4 s hsm
            refine ⟨b, List.mem_cons_of_mem _ hb, before, e1, e2, e3, ?_⟩
            intro e he
            rcases e4 e he with h5 | ⟨b', hb', rfl⟩
            · rcases List.mem_append.1 h5 with h6 | h6
              · exact Or.inl h6
              · simp only [List.mem_cons, List.not_mem_nil, or_false] at h6
                exact Or.inr ⟨bp, List.mem_cons_self .., h6⟩
            · exact Or.inr ⟨b', List.mem_cons_of_mem _ hb', rfl⟩

theorem toNodes_ids : ∀ {bps : List Buildpack} {nodes : List DepGraph.Node}, toNodes bps = .ok nodes →
    nodes.map (·.id) = bps.map (·.id) := by
  intro bps
  induction bps with
  | nil => intro nodes h; simp only [toNodes, Except.ok.injEq] at h; subst h; rfl
  | cons bp rest ih =>
    intro nodes h
    unfold toNodes at h
    cases hn : toNode bp with
    | error e => rw [hn] at h; cases h
    | ok n =>
      rw [hn] at h
      simp only at h
      cases hr : toNodes rest with
      | error e => rw [hr] at h; cases h
      | ok ns =>
        rw [hr] at h
        simp only [Except.ok.injEq] at h
        subst h
        have hid : n.id = bp.id := by
          unfold toNode at hn
          split at hn
          · split at hn
            · cases hn
            · simp only [Except.ok.injEq] at hn; subst hn; rfl
          · simp only [Except.ok.injEq] at hn; subst hn; rfl
        simp [hid, ih hr]

/-! ### inversion of `plan` and `package` -/

theorem plan_ok {ws : Workspace} {inv : Str} {cfg : Config} {pl : Plan} (hp : plan ws inv cfg = .ok pl) :
    ∃ nodes g order,
      toNodes (nodesOf ws) = .ok nodes ∧ createGraph nodes = .ok g ∧
      getDependencies g (rootIds ws inv) = .ok order ∧ order ≠ [] ∧
      planLoop ws cfg (packageDirAbs ws inv cfg) (order.filterMap (fun i => (nodesOf ws)[i]?)) [] = .ok (pl.steps, pl.dirs) ∧
      pl.roots = rootIds ws inv := by
  unfold plan at hp
  simp only at hp
  cases hn : toNodes (nodesOf ws) with
  | error e => rw [hn] at hp; cases hp
  | ok nodes =>
    rw [hn] at hp
    simp only at hp
    cases hg : createGraph nodes with
    | error e => rw [hg] at hp; cases hp
    | ok g =>
      rw [hg] at hp
      simp only at hp
      cases ho : getDependencies g (rootIds ws inv) with
      | error e => rw [ho] at hp; cases hp
      | ok order =>
        rw [ho] at hp
        simp only at hp
        by_cases he : order.isEmpty = true
        · rw [if_pos he] at hp; cases hp
        · rw [if_neg he] at hp
          cases hl : planLoop ws cfg (packageDirAbs ws inv cfg) (order.filterMap (fun i => (nodesOf ws)[i]?)) [] with
          | error e => rw [hl] at hp; cases hp
          | ok r =>
            obtain ⟨steps, dirs⟩ := r
            rw [hl] at hp
            simp only [Except.ok.injEq] at hp
            subst hp
            refine ⟨nodes, g, order, rfl, hg, ho, ?_, hl, rfl⟩
            intro hnil; rw [hnil] at he; simp at he

theorem package_ok {ws : Workspace} {inv : Str} {cfg : Config} {seed : FS} {res : Result}
    (h : package ws inv cfg seed = .ok res) :
    ∃ pl, plan ws inv cfg = .ok pl ∧
      res = ⟨pl.steps.foldl applyStep seed, stdoutLines pl.roots pl.dirs, pl.steps.map (·.id)⟩ := by
  unfold package at h
  cases hp : plan ws inv cfg with
  | error e => rw [hp] at h; cases h
  | ok pl =>
    rw [hp] at h
    simp only [Except.ok.injEq] at h
    exact ⟨pl, rfl, h.symm⟩

/-- the outcome class and everything but the tree do not depend on what the package directory held -/
theorem package_seed_shape (ws : Workspace) (inv : Str) (cfg : Config) (seed : FS) :
    package ws inv cfg seed =
      match plan ws inv cfg with
      | .error e => .error e
      | .ok pl => .ok ⟨pl.steps.foldl applyStep seed, stdoutLines pl.roots pl.dirs, pl.steps.map (·.id)⟩ := rfl

/-! ### order, ids, sorting, names -/

/-- the build order only holds positions of real nodes -/
theorem order_lt {nodes : List DepGraph.Node} {g : Graph} {roots : List String} {order : List Nat}
    (hg : createGraph nodes = .ok g) (hac : Acyclic g.succ) (ho : getDependencies g roots = .ok order) :
    ∀ i ∈ order, i < g.size := by
  obtain ⟨ridx, hr, hbo⟩ := CnbVerif.C13.build_order nodes g roots order hg hac ho
  have hwf := createGraph_wf hg
  have hrl := rootsAt_lt hg hr
  intro i hi
  have : Reachable g.succ ridx i := (hbo.exact i).1 hi
  induction this with
  | root hm => exact hrl _ hm
  | step _ hw _ => exact hwf _ _ hw

theorem filterMap_ids (bps : List Buildpack) (ids : List String) (hids : ids = bps.map (·.id)) :
    ∀ order : List Nat, (∀ i ∈ order, i < bps.length) →
      (order.filterMap (fun i => bps[i]?)).map (·.id) = order.map (fun i => ids.getD i "") := by
  intro order
  induction order with
  | nil => intro _; rfl
  | cons i rest ih =>
    intro h
    have hi : i < bps.length := h i (List.mem_cons_self ..)
    have h1 : bps[i]? = some bps[i] := List.getElem?_eq_getElem hi
    have h2 : ids.getD i "" = bps[i].id := by
      subst hids
      rw [List.getD_eq_getElem?_getD, List.getElem?_map, h1]; rfl
    simp only [List.filterMap_cons, h1, List.map_cons, h2]
    rw [ih (fun j hj => h j (List.mem_cons_of_mem _ hj))]

theorem mem_filterMap_getElem {bps : List Buildpack} {order : List Nat} {bp : Buildpack}
    (h : bp ∈ order.filterMap (fun i => bps[i]?)) : bp ∈ bps := by
  obtain ⟨i, _, hi⟩ := List.mem_filterMap.1 h
  exact List.mem_of_getElem? hi

theorem eq_of_id_eq : ∀ {bps : List Buildpack}, (bps.map (·.id)).Nodup → ∀ {a b : Buildpack}, a ∈ bps → b ∈ bps →
    a.id = b.id → a = b := by
  intro bps
  induction bps with
  | nil => intro _ a b ha; simp at ha
  | cons x rest ih =>
    intro hnd a b ha hb hid
    simp only [List.map_cons, List.nodup_cons] at hnd
    rcases List.mem_cons.1 ha with hax | har
    · rcases List.mem_cons.1 hb with hbx | hbr
      · rw [hax, hbx]
      · exact absurd (List.mem_map.2 ⟨b, hbr, by rw [← hid, hax]⟩) hnd.1
    · rcases List.mem_cons.1 hb with hbx | hbr
      · exact absurd (List.mem_map.2 ⟨a, har, by rw [hid, hbx]⟩) hnd.1
      · exact ih hnd.2 har hbr hid

theorem insertBy_perm {α} (lt : α → α → Bool) (x : α) : ∀ l : List α, (insertBy lt x l).Perm (x :: l)
  | [] => List.Perm.refl _
  | y :: ys => by
    unfold insertBy
    by_cases h : lt x y = true
    · simp [h]
    · simp only [h, if_false]
      exact ((insertBy_perm lt x ys).cons y).trans (List.Perm.swap x y ys)

theorem sortBy_perm {α} (lt : α → α → Bool) : ∀ l : List α, (sortBy lt l).Perm l
  | [] => List.Perm.refl _
  | x :: xs => by
    have : sortBy lt (x :: xs) = insertBy lt x (sortBy lt xs) := rfl
    rw [this]
    exact (insertBy_perm lt x _).trans ((sortBy_perm lt xs).cons x)

theorem map_slash_inj : ∀ {a b : List Char}, '_' ∉ a → '_' ∉ b →
    a.map (fun c => if c = '/' then '_' else c) = b.map (fun c => if c = '/' then '_' else c) → a = b
  | [], [], _, _, _ => rfl
  | [], _ :: _, _, _, h => by simp at h
  | _ :: _, [], _, _, h => by simp at h
  | x :: xs, y :: ys, ha, hb, h => by
    simp only [List.map_cons, List.cons.injEq] at h
    simp only [List.mem_cons, not_or] at ha hb
    have hxy : x = y := by
      by_cases hx : x = '/' <;> by_cases hy : y = '/'
      · rw [hx, hy]
      · simp only [hx, hy, if_true, if_false] at h; exact absurd h.1 hb.1
      · simp only [hx, hy, if_true, if_false] at h; exact absurd h.1.symm ha.1
      · simp only [hx, hy, if_false] at h; exact h.1
    rw [hxy, map_slash_inj ha.2 hb.2 h.2]

/-- distinct ids over an alphabet without `_` (the CNB id alphabet) get distinct directory names -/
theorem dirName_inj {a b : String} (ha : '_' ∉ a.toList) (hb : '_' ∉ b.toList) (h : dirName a = dirName b) : a = b := by
  unfold dirName at h
  exact String.toList_inj.1 (map_slash_inj ha hb (String.ofList_inj.1 h))

/-- everything the property theorems need to know about a successful run -/
theorem package_facts {ws : Workspace} {inv : Str} {cfg : Config} {seed : FS} {res : Result} {nodes : List DepGraph.Node}
    (hn : toNodes (nodesOf ws) = .ok nodes) (hnd : ((nodesOf ws).map (·.id)).Nodup) (hac : Acyclic (depsOf nodes))
    (h : package ws inv cfg seed = .ok res) :
    ∃ steps dirs bps,
      res.fs = steps.foldl applyStep seed ∧ res.built = steps.map (·.id) ∧
      res.stdout = stdoutLines (rootIds ws inv) dirs ∧
      IsBuildOrder (depsOf nodes) (rootIds ws inv) res.built ∧
      (∀ bp ∈ bps, bp ∈ nodesOf ws) ∧ bps.map (·.id) = res.built ∧
      planLoop ws cfg (packageDirAbs ws inv cfg) bps [] = .ok (steps, dirs) := by
  obtain ⟨pl, hp, rfl⟩ := package_ok h
  obtain ⟨nodes', g, order, hn', hg, ho, _, hl, hroots⟩ := plan_ok hp
  obtain ⟨roots, steps, dirs⟩ := pl
  simp only at hl hroots
  subst hroots
  rw [hn] at hn'
  simp only [Except.ok.injEq] at hn'
  subst hn'
  have hids : nodes.map (·.id) = (nodesOf ws).map (·.id) := toNodes_ids hn
  have hndn : (nodes.map (·.id)).Nodup := by rw [hids]; exact hnd
  have hbo := CnbVerif.C13.build_order_ids nodes g (rootIds ws inv) order hndn hg hac ho
  have hlt : ∀ i ∈ order, i < (nodesOf ws).length := by
    intro i hi
    have h1 := order_lt hg (acyclic_of_ids hg hndn hac) ho i hi
    have h2 := (size_eq hg).1
    have h3 : nodes.length = (nodesOf ws).length := by
      have := congrArg List.length hids
      simpa using this
    omega
  have hgids : g.ids = (nodesOf ws).map (·.id) := by rw [(createGraph_ok hg).1, hids]
  have hb : (order.filterMap (fun i => (nodesOf ws)[i]?)).map (·.id) = order.map (idAt g) :=
    filterMap_ids (nodesOf ws) g.ids hgids order hlt
  obtain ⟨_, h2, _, _⟩ := planLoop_ok _ _ hl
  refine ⟨steps, dirs, order.filterMap (fun i => (nodesOf ws)[i]?), rfl, rfl, rfl, ?_, ?_, ?_, hl⟩
  · show IsBuildOrder (depsOf nodes) (rootIds ws inv) (steps.map (·.id))
    rw [h2, hb]; exact hbo
  · intro bp hbp; exact mem_filterMap_getElem hbp
  · exact h2.symm

theorem inj_of_nodup_map {α β} (f : α → β) : ∀ {l : List α}, (l.map f).Nodup → ∀ {a b : α}, a ∈ l → b ∈ l → f a = f b → a = b := by
  intro l
  induction l with
  | nil => intro _ a b ha; simp at ha
  | cons x rest ih =>
    intro hnd a b ha hb hid
    simp only [List.map_cons, List.nodup_cons] at hnd
    rcases List.mem_cons.1 ha with hax | har
    · rcases List.mem_cons.1 hb with hbx | hbr
      · rw [hax, hbx]
      · exact absurd (List.mem_map.2 ⟨b, hbr, by rw [← hid, hax]⟩) hnd.1
    · rcases List.mem_cons.1 hb with hbx | hbr
      · exact absurd (List.mem_map.2 ⟨a, har, by rw [hid, hbx]⟩) hnd.1
      · exact ih hnd.2 har hbr hid

theorem nodup_map_of_inj_on {α β} (f : α → β) : ∀ {l : List α}, l.Nodup → (∀ a ∈ l, ∀ b ∈ l, f a = f b → a = b) →
    (l.map f).Nodup := by
  intro l
  induction l with
  | nil => intro _ _; simp
  | cons x rest ih =>
    intro hnd hinj
    simp only [List.nodup_cons] at hnd
    simp only [List.map_cons, List.nodup_cons]
    refine ⟨?_, ih hnd.2 (fun a ha b hb => hinj a (List.mem_cons_of_mem _ ha) b (List.mem_cons_of_mem _ hb))⟩
    intro hm
    obtain ⟨y, hy, hfy⟩ := List.mem_map.1 hm
    have := hinj y (List.mem_cons_of_mem _ hy) x (List.mem_cons_self ..) hfy
    exact hnd.1 (this ▸ hy)

theorem nodup_of_nodup_map {α β} (f : α → β) : ∀ {l : List α}, (l.map f).Nodup → l.Nodup := by
  intro l
  induction l with
  | nil => intro _; simp
  | cons x rest ih =>
    intro h
    simp only [List.map_cons, List.nodup_cons] at h
    simp only [List.nodup_cons]
    exact ⟨fun hm => h.1 (List.mem_map.2 ⟨x, hm, rfl⟩), ih h.2⟩

/-- every planned step writes to the packaged directory of its own id -/
theorem plan_steps_dest {ws : Workspace} {inv : Str} {cfg : Config} {pl : Plan} (hp : plan ws inv cfg = .ok pl) :
    ∀ s ∈ pl.steps, s.dest = destPath cfg s.id := by
  obtain ⟨_, _, _, _, _, _, _, hl, _⟩ := plan_ok hp
  obtain ⟨_, _, _, h4⟩ := planLoop_ok _ _ hl
  intro s hs
  obtain ⟨bp, _, _, e1, e2, _, _⟩ := h4 s hs
  rw [e2, e1]

theorem rootIds_nodup {ws : Workspace} (hnd : ((nodesOf ws).map (·.id)).Nodup) (inv : Str) : (rootIds ws inv).Nodup := by
  unfold rootIds
  split
  · simp
  · split
    · exact hnd
    · simp

/-- what a successful run leaves in the packaged directory of a buildpack it built -/
theorem built_lookup {ws : Workspace} {inv : Str} {cfg : Config} {seed : FS} {res : Result} {nodes : List DepGraph.Node}
    (hn : toNodes (nodesOf ws) = .ok nodes) (hnd : ((nodesOf ws).map (·.id)).Nodup)
    (hnames : ((nodesOf ws).map (fun bp => dirName bp.id)).Nodup) (hac : Acyclic (depsOf nodes))
    (h : package ws inv cfg seed = .ok res) {bp : Buildpack} (hbp : bp ∈ nodesOf ws) (hb : bp.id ∈ res.built) :
    ∃ before items, itemsFor ws cfg before bp = .ok items ∧
      (∀ e ∈ before, ∃ b ∈ nodesOf ws, b.id ∈ res.built ∧ e = (b.id, destStr (packageDirAbs ws inv cfg) cfg b.id)) ∧
      ∀ rel, lookup res.fs (destPath cfg bp.id ++ rel) = atRel items rel := by
  obtain ⟨steps, dirs, bps, hfs, hbuilt, _, hbo, hsub, hids, hl⟩ := package_facts hn hnd hac h
  obtain ⟨_, h2, h3, h4⟩ := planLoop_ok _ _ hl
  rw [hbuilt] at hb
  obtain ⟨s, hs, hsid⟩ := List.mem_map.1 hb
  obtain ⟨bp', hbp', before, e1, e2, e3, e4⟩ := h4 s hs
  have hbpeq : bp' = bp := eq_of_id_eq hnd (hsub bp' hbp') hbp (by rw [← e1, hsid])
  subst hbpeq
  refine ⟨before, s.items, e3, ?_, ?_⟩
  · intro e he
    rcases e4 e he with h5 | ⟨b, hb', rfl⟩
    · simp at h5
    · refine ⟨b, hsub b hb', ?_, rfl⟩
      rw [← hids]; exact List.mem_map.2 ⟨b, hb', rfl⟩
  · intro rel
    have hlen : ∀ a ∈ steps, a.dest.length = 3 := by
      intro a ha
      obtain ⟨b, _, _, _, e2', _, _⟩ := h4 a ha
      rw [e2']; rfl
    have hndd : (steps.map (·.dest)).Nodup := by
      rw [h3]
      apply nodup_map_of_inj_on
      · have : (bps.map (·.id)).Nodup := by rw [hids]; exact hbo.nodup
        exact nodup_of_nodup_map _ this
      · intro a ha b hb' hab
        have hab' : (fun bp : Buildpack => dirName bp.id) a = (fun bp : Buildpack => dirName bp.id) b :=
          (List.cons.inj (List.cons.inj (List.cons.inj hab).2).2).1
        exact inj_of_nodup_map (fun bp : Buildpack => dirName bp.id) hnames (hsub a ha) (hsub b hb') hab'
    rw [hfs, ← e2, lookup_steps_inside steps 3 (by omega) hlen hndd s hs rel seed]

open CnbVerif.Spec.PathDenote in
theorem isAbsolute_joinPath {a b : Str} (h : isAbsolute a = true) : isAbsolute (joinPath a b) = true := by
  cases a with
  | nil => simp [isAbsolute] at h
  | cons c cs =>
    have hc : c = '/' := by simpa [isAbsolute] using h
    subst hc
    unfold joinPath
    simp only [List.isEmpty_cons, Bool.false_eq_true, if_false]
    split <;> simp [isAbsolute]

open CnbVerif.Spec.PathDenote in
theorem isAbsolute_destStr {pk : Str} (cfg : Config) (id : String) (h : isAbsolute pk = true) :
    isAbsolute (destStr pk cfg id) = true := by
  unfold destStr
  exact isAbsolute_joinPath (isAbsolute_joinPath (isAbsolute_joinPath h))

end CnbVerif.Packager
