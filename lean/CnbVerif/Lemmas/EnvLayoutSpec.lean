import CnbVerif.Lemmas.EnvDir4
import CnbVerif.Spec.EnvLayout
namespace CnbVerif
open Spec

/-- in a delta in map order, membership is the same as being found under one's own key -/
theorem mem_iff_find (d : Delta) (hs : Sorted d) (e : Entry) : e ∈ d ↔ d.find e.beh e.name = some e.val := by
  induction d with
  | nil => simp [Delta.find]
  | cons x t ih =>
    have hs' := List.pairwise_cons.mp hs
    rw [find_cons]
    by_cases hk : x.key = mkKey e.beh e.name
    · simp only [hk, if_true, Option.some.injEq, List.mem_cons]
      constructor
      · rintro (h | h)
        · rw [h]
        · exfalso
          have := hs'.1 e h
          rw [hk] at this
          have : bytesLt (mkKey e.beh e.name) (mkKey e.beh e.name) = true := this
          simp [bytesLt_irrefl] at this
      · intro hv
        left
        have hbn := mkKey_inj.mp (by rw [← Entry.key_eq] at hk; exact hk.symm : mkKey e.beh e.name = mkKey x.beh x.name)
        cases e; cases x
        simp only [Entry.mk.injEq] at *
        exact ⟨hbn.1, hbn.2, hv.symm⟩
    · simp only [hk, if_false, List.mem_cons]
      rw [← ih hs'.2]
      constructor
      · rintro (h | h)
        · exfalso; apply hk; rw [h]; rfl
        · exact h
      · intro h; exact Or.inr h

theorem mem_map_fileOf (d : Delta) (f c : Bytes) :
    (f, Node.file c) ∈ d.map Entry.fileOf ↔ ∃ e ∈ d, e.name ++ Gen.writeSuffix e.beh = f ∧ e.val = c := by
  simp only [List.mem_map, Entry.fileOf, Prod.mk.injEq, Node.file.injEq]

theorem writeSuffix_eq (b : Beh) : Gen.writeSuffix b = 46 :: Spec.suffixName b := by cases b <;> rfl

/-- what the CNB layout prescribes in the env directory of scope `s` after the inserts `ins`: a file
`NAME.<suffix>` with content `c` for exactly the (behaviour, name) whose last insert in that scope has value `c` -/
def SpecFileIn (ins : List Ins) (s : Scope) (f c : Bytes) : Prop :=
  ∃ b n, lookIns ins s b n = some c ∧ f = n ++ [46] ++ Spec.suffixName b

theorem files_of_scope (ins : List Ins) (s : Scope) (f c : Bytes) :
    (f, Node.file c) ∈ ((buildEnv ins).scoped s).map Entry.fileOf ↔ SpecFileIn ins s f c := by
  have hsorted := LayerEnv.scoped_sorted (wf_buildEnv ins) s
  rw [mem_map_fileOf]
  constructor
  · rintro ⟨e, he, hf, hc⟩
    refine ⟨e.beh, e.name, ?_, ?_⟩
    · rw [← find_buildEnv, ← hc]; exact (mem_iff_find _ hsorted e).mp he
    · rw [← hf, writeSuffix_eq]; simp
  · rintro ⟨b, n, hl, hf⟩
    refine ⟨⟨b, n, c⟩, ?_, ?_, rfl⟩
    · apply (mem_iff_find _ hsorted ⟨b, n, c⟩).mpr
      rw [find_buildEnv]; exact hl
    · rw [hf, writeSuffix_eq]; simp

theorem mem_procDirs (ps : List (Bytes × Delta)) (p : Bytes) (es : Dir) :
    (p, Node.dir es) ∈ procDirs ps ↔ ∃ d, (p, d) ∈ ps ∧ d ≠ [] ∧ es = d.map Entry.fileOf := by
  rw [procDirs_eq]
  simp only [List.mem_map, Prod.mk.injEq, Node.dir.injEq]
  constructor
  · rintro ⟨pd, hpd, hp, hes⟩
    have := (mem_nonEmptyProcs ps pd.1 pd.2).mp hpd
    exact ⟨pd.2, by rw [← hp]; exact this.1, this.2, hes.symm⟩
  · rintro ⟨d, hd, hne, hes⟩
    exact ⟨(p, d), (mem_nonEmptyProcs ps p d).mpr ⟨hd, hne⟩, rfl, hes.symm⟩

end CnbVerif

namespace CnbVerif
open Spec

theorem deltaNode_mem (d : Delta) (x : Bytes × Node) :
    (∃ es, deltaNode d = some (.dir es) ∧ x ∈ es) ↔ x ∈ d.map Entry.fileOf := by
  unfold deltaNode
  cases d with
  | nil => simp
  | cons a t => simp

theorem launchNode_mem (es0 : Dir) (x : Bytes × Node) :
    (∃ es, launchNode es0 = some (.dir es) ∧ x ∈ es) ↔ x ∈ es0 := by
  unfold launchNode
  cases es0 with
  | nil => simp
  | cons a t => simp

theorem file_not_in_procDirs (ps : List (Bytes × Delta)) (f c : Bytes) : (f, Node.file c) ∉ procDirs ps := by
  rw [procDirs_eq]; simp

theorem dir_not_in_files (d : Delta) (p : Bytes) (es : Dir) : (p, Node.dir es) ∉ d.map Entry.fileOf := by
  simp [Entry.fileOf]

/-- **Layout = the spec's files.** After `write_to_layer_dir` of an environment built by inserts, the regular files
in `env`, `env.build`, `env.launch` and in each `env.launch/<process>` are exactly the files the CNB layout prescribes
for that scope (name `NAME.<suffix>`, raw content of the last insert), nothing more and nothing less. -/
theorem layout_spec_files (ins : List Ins) (layer : Dir) (hl : LayerOk layer) (hok : (buildEnv ins).Ok) :
    ∃ l', writeToLayerDir (buildEnv ins) layer = some l' ∧
      (∀ f c, (∃ es, l'.get nEnv = some (.dir es) ∧ (f, Node.file c) ∈ es) ↔ SpecFileIn ins .all f c) ∧
      (∀ f c, (∃ es, l'.get nEnvBuild = some (.dir es) ∧ (f, Node.file c) ∈ es) ↔ SpecFileIn ins .build f c) ∧
      (∀ f c, (∃ es, l'.get nEnvLaunch = some (.dir es) ∧ (f, Node.file c) ∈ es) ↔ SpecFileIn ins .launch f c) ∧
      (∀ p f c, (∃ es ps, l'.get nEnvLaunch = some (.dir es) ∧ (p, Node.dir ps) ∈ es ∧ (f, Node.file c) ∈ ps) ↔
        SpecFileIn ins (.process p) f c) := by
  obtain ⟨l', hw, g1, g2, g3, _⟩ := writeToLayerDir_spec (buildEnv ins) layer hl hok.proc
  refine ⟨l', hw, ?_, ?_, ?_, ?_⟩
  · intro f c; rw [g1, deltaNode_mem]; exact files_of_scope ins .all f c
  · intro f c; rw [g2, deltaNode_mem]; exact files_of_scope ins .build f c
  · intro f c
    rw [g3, launchNode_mem, List.mem_append]
    constructor
    · rintro (h | h)
      · exact absurd h (file_not_in_procDirs _ _ _)
      · exact (files_of_scope ins .launch f c).mp h
    · intro h; exact Or.inr ((files_of_scope ins .launch f c).mpr h)
  · intro p f c
    have hnd := hok.proc.nodup
    constructor
    · rintro ⟨es, ps, hg, hp, hf⟩
      rw [g3] at hg
      have hp' : (p, Node.dir ps) ∈ procDirs (buildEnv ins).process ++ (buildEnv ins).launch.map Entry.fileOf :=
        (launchNode_mem _ _).mp ⟨es, hg, hp⟩
      rcases List.mem_append.mp hp' with h | h
      · obtain ⟨d, hd, _, hps⟩ := (mem_procDirs _ p ps).mp h
        have hget : procGet (buildEnv ins).process p = some d := (lookup_some_iff_mem _ hnd p d).mpr hd
        have hsc : (buildEnv ins).scoped (.process p) = d := by simp [LayerEnv.scoped, hget]
        rw [hps, ← hsc] at hf
        exact (files_of_scope ins (.process p) f c).mp hf
      · exact absurd h (dir_not_in_files _ _ _)
    · intro h
      have hf := (files_of_scope ins (.process p) f c).mpr h
      cases hget : procGet (buildEnv ins).process p with
      | none => simp [LayerEnv.scoped, hget] at hf
      | some d =>
        have hsc : (buildEnv ins).scoped (.process p) = d := by simp [LayerEnv.scoped, hget]
        rw [hsc] at hf
        have hne : d ≠ [] := by intro e; rw [e] at hf; simp at hf
        have hd : (p, d) ∈ (buildEnv ins).process := (lookup_some_iff_mem _ hnd p d).mp hget
        have hin : (p, Node.dir (d.map Entry.fileOf)) ∈
            procDirs (buildEnv ins).process ++ (buildEnv ins).launch.map Entry.fileOf :=
          List.mem_append.mpr (Or.inl ((mem_procDirs _ p _).mpr ⟨d, hd, hne, rfl⟩))
        obtain ⟨es, hes, hmem⟩ := (launchNode_mem _ _).mpr hin
        exact ⟨es, d.map Entry.fileOf, by rw [g3]; exact hes, hmem, hf⟩

end CnbVerif
