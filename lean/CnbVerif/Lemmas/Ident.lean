import CnbVerif.Lemmas.Regex
import CnbVerif.Spec.Grammar
/-!
Helper lemmas for C09: a regex of the shape `^(?!(w1|w2|…)$)[class]+$` accepts exactly the non-empty strings over the
class that are none of the words.
-/
namespace CnbVerif

/-- every `Char` is a Unicode scalar value -/
theorem char_toNat_lt (c : Char) : c.toNat < 1114112 := by
  have := c.valid
  simp only [UInt32.isValidChar, Nat.isValidChar] at this
  show c.val.toNat < 1114112
  omega

theorem char_eq_iff (c d : Char) : c = d ↔ c.toNat = d.toNat := Char.toNat_inj.symm

theorem accepts_shape (R : Ranges) (neg : Option Re) (ws : List (List Char)) (p : Char → Bool)
    (hR : ∀ c : Char, inRanges R c.toNat = p c)
    (hneg : ∀ s, (∃ n, neg = some n ∧ Matches n s) ↔ s ∈ ws) (s : List Char) :
    accepts ⟨neg, .plus (.cls R)⟩ s = (s != [] && s.all p && !ws.contains s) := by
  apply Bool.eq_iff_iff.2
  rw [accepts_iff, matches_plus_cls]
  simp only [Bool.and_eq_true, bne_iff_ne, ne_eq, List.all_eq_true, Bool.not_eq_true', hR]
  have : (∀ n, neg = some n → ¬ Matches n s) ↔ ws.contains s = false := by
    rw [← Bool.not_eq_true, List.contains_iff_mem, ← hneg s]
    simp
  rw [this]

/-- the same without a look-ahead: `^[class]+$` -/
theorem accepts_shape_plain (R : Ranges) (p : Char → Bool) (hR : ∀ c : Char, inRanges R c.toNat = p c) (s : List Char) :
    accepts ⟨none, .plus (.cls R)⟩ s = (s != [] && s.all p) := by
  simpa using accepts_shape R none [] p hR (by simp) s

end CnbVerif
