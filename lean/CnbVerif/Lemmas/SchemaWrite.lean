import CnbVerif.Lemmas.SchemaRead
/-! Round trip: what `encode` writes under a schema `w` is read back by `decode` under a schema `r` related to it by
`wrOK` (same keys and kinds; every left-out key is one the reader defaults to the value left out). -/
namespace CnbVerif.Codec

theorem norm_of_ne_api (a : StrV) (s : String) (h : a ≠ .api) : a.norm s = s := by
  cases a <;> simp [StrV.norm] at *

theorem wrOKFields_keys : ∀ (fs gs : List Field), wrOKFields fs gs = true → fieldKeys fs = fieldKeys gs
  | [], [], _ => rfl
  | ⟨k, pw, sk, ne, s, p⟩ :: fs, ⟨k', pr, sk', ne', s', p'⟩ :: gs, h => by
    simp only [wrOKFields, Bool.and_eq_true, beq_iff_eq] at h
    have := wrOKFields_keys fs gs h.2
    simp only [fieldKeys, List.map_cons] at this ⊢
    rw [this, h.1.1.1]
  | [], _ :: _, h => by simp [wrOKFields] at h
  | _ :: _, [], h => by simp [wrOKFields] at h

theorem hasKey_of_mem_keys {fs : List Field} {k : String} (h : k ∈ fieldKeys fs) : hasKey fs k = true := by
  simp only [fieldKeys, List.mem_map] at h
  obtain ⟨f, hf, hk⟩ := h
  simp only [hasKey, List.any_eq_true]
  exact ⟨f, hf, by simp [hk]⟩

theorem lookup_cons_ne {α} {k k' : String} {v : α} {l : List (String × α)} (h : k ≠ k') :
    List.lookup k ((k', v) :: l) = List.lookup k l := by
  have : (k == k') = false := by simp [h]
  simp [List.lookup, this]

theorem lookup_cons_self {α} {k : String} {v : α} {l : List (String × α)} : List.lookup k ((k, v) :: l) = some v := by
  simp [List.lookup]

theorem mapO_mapE {w r : Schema} {vs : List Val}
    (h : ∀ v ∈ vs, ∃ t, encode w v = some t ∧ decode r t = .ok v) :
    ∃ ts, mapO (encode w) vs = some ts ∧ mapE (decode r) ts = .ok vs := by
  induction vs with
  | nil => exact ⟨[], rfl, rfl⟩
  | cons v vs ih =>
    obtain ⟨t, ht, hd⟩ := h v (List.mem_cons_self ..)
    obtain ⟨ts, hts, hds⟩ := ih (fun x hx => h x (List.mem_cons_of_mem _ hx))
    exact ⟨t :: ts, by simp [mapO, ht, hts], by simp [mapE, hd, hds, Except.map]⟩

theorem mapKVO_mapKV {k : StrV} {w r : Schema} {kvs : List (String × Val)}
    (h : ∀ kv ∈ kvs, k.valid kv.1 = true ∧ ∃ t, encode w kv.2 = some t ∧ decode r t = .ok kv.2) :
    ∃ ts, mapKVO (encode w) kvs = some ts ∧ mapKV k.valid (decode r) ts = .ok kvs := by
  induction kvs with
  | nil => exact ⟨[], rfl, rfl⟩
  | cons kv kvs ih =>
    obtain ⟨key, v⟩ := kv
    obtain ⟨hv, t, ht, hd⟩ := h (key, v) (List.mem_cons_self ..)
    obtain ⟨ts, hts, hds⟩ := ih (fun x hx => h x (List.mem_cons_of_mem _ hx))
    simp only [] at hv ht hd
    exact ⟨(key, t) :: ts, by simp [mapKVO, ht, hts], by simp [mapKV, hv, hd, hds, Except.map]⟩

theorem nodupB_cons {k : String} {ks : List String} (h : nodupB (k :: ks) = true) : k ∉ ks ∧ nodupB ks = true := by
  simp only [nodupB, Bool.and_eq_true, Bool.not_eq_true', List.contains_eq_mem, decide_eq_false_iff_not] at h
  exact h

/-- the value a reader with presence `pr` yields for a left-out key is the value that was left out -/
theorem skipped_value {pw pr : Pres} {sk : Skip} {ne : Option String} {s : Schema} {v : Val}
    (hok : fieldOK pw sk ne s pr = true) (hty : (match v with | .absent => pw.allowsAbsent | v => hasType s v) = true)
    (hskip : sk.holds v = true ∨ (v = .absent ∧ ne = none)) :
    pr ≠ .required ∧ (pr = .optional → v = .absent) ∧ (∀ d, pr = .dflt d → d.val = v) := by
  simp only [fieldOK, Bool.and_eq_true, Bool.or_eq_true, Bool.not_eq_true', beq_iff_eq] at hok
  obtain ⟨h1, h2⟩ := hok
  have absentCase : v = .absent → pr ≠ .required ∧ (pr = .optional → v = .absent) ∧ (∀ d, pr = .dflt d → d.val = v) := by
    intro hv; subst hv
    simp only [] at hty
    have hpr : pr.allowsAbsent = true := by
      rcases h1 with h1 | h1
      · rw [h1] at hty; cases hty
      · exact h1.1
    simp only [Pres.allowsAbsent, Bool.or_eq_true, beq_iff_eq] at hpr
    rcases hpr with rfl | rfl
    · exact ⟨(by simp), (fun _ => rfl), (fun d hd => by cases hd)⟩
    · exact ⟨(by simp), (fun h => by cases h), (fun d hd => by cases hd; rfl)⟩
  rcases hskip with hs | ⟨hv, _⟩
  · cases sk with
    | never => simp [Skip.holds] at hs
    | ifAbsent =>
      have : v = .absent := by cases v <;> simp [Skip.holds] at hs ⊢
      exact absentCase this
    | ifFalse =>
      simp only [Bool.and_eq_true, beq_iff_eq] at h2
      obtain ⟨hsb, hpr⟩ := h2
      have hv : v = .bool false := by
        cases v with
        | bool b => cases b <;> simp [Skip.holds] at hs ⊢
        | _ => simp [Skip.holds] at hs
      subst hv; subst hpr
      exact ⟨(by simp), (fun h => by cases h), (fun d hd => by cases hd; rfl)⟩
    | ifEmpty =>
      simp only [Bool.or_eq_true, Bool.and_eq_true, beq_iff_eq] at h2
      rcases h2 with ⟨hvec, hpr⟩ | ⟨htab, hpr⟩
      · have hv : v = .arr [] := by
          cases s <;> simp [Schema.isVec] at hvec
          cases v with
          | arr xs => cases xs <;> simp [Skip.holds] at hs ⊢
          | absent => simp [Skip.holds] at hs
          | _ => simp [hasType] at hty
        subst hv; subst hpr
        exact ⟨(by simp), (fun h => by cases h), (fun d hd => by cases hd; rfl)⟩
      · have hv : v = .free (.tbl []) := by
          cases s <;> simp at htab
          cases v with
          | free t =>
            cases t with
            | tbl kvs => cases kvs <;> simp [Skip.holds] at hs ⊢
            | _ => simp [hasType] at hty
          | absent => simp [Skip.holds] at hs
          | _ => simp [hasType] at hty
        subst hv; subst hpr
        exact ⟨(by simp), (fun h => by cases h), (fun d hd => by cases hd; rfl)⟩
  · exact absentCase hv

mutual
theorem roundtrip : ∀ (w r : Schema) (v : Val), wrOK w r = true → hasType w v = true →
    ∃ t, encode w v = some t ∧ decode r t = .ok v
  | .str a, r, v, h, ht => by
    cases r <;> simp only [wrOK, Bool.false_eq_true] at h
    rename_i b
    simp only [Bool.and_eq_true, beq_iff_eq, bne_iff_ne, ne_eq] at h
    obtain ⟨rfl, hne⟩ := h
    cases v <;> simp only [hasType, Bool.false_eq_true] at ht
    rename_i s
    exact ⟨.str s, rfl, by simp [decode, ht, norm_of_ne_api a s hne]⟩
  | .int, r, v, h, ht => by
    cases r <;> simp only [wrOK, Bool.false_eq_true] at h
    cases v <;> simp only [hasType, Bool.false_eq_true] at ht
    exact ⟨_, rfl, rfl⟩
  | .bool, r, v, h, ht => by
    cases r <;> simp only [wrOK, Bool.false_eq_true] at h
    cases v <;> simp only [hasType, Bool.false_eq_true] at ht
    exact ⟨_, rfl, rfl⟩
  | .any, r, v, h, ht => by
    cases r <;> simp only [wrOK, Bool.false_eq_true] at h
    cases v <;> simp only [hasType, Bool.false_eq_true] at ht
    exact ⟨_, rfl, by simp [decode]⟩
  | .table, r, v, h, ht => by
    cases r <;> simp only [wrOK, Bool.false_eq_true] at h
    cases v with
    | free t =>
      cases t with
      | tbl kvs => exact ⟨_, rfl, rfl⟩
      | _ => simp [hasType] at ht
    | _ => simp [hasType] at ht
  | .vec a, r, v, h, ht => by
    cases r <;> simp only [wrOK, Bool.false_eq_true] at h
    rename_i b
    cases v <;> simp only [hasType, Bool.false_eq_true] at ht
    rename_i vs
    rw [List.all_eq_true] at ht
    obtain ⟨ts, h1, h2⟩ := mapO_mapE (w := a) (r := b) (vs := vs) (fun x hx => roundtrip a b x h (ht x hx))
    exact ⟨.arr ts, by simp [encode, h1], by simp [decode, h2, Except.map]⟩
  | .set _, r, _, h, _ => by cases r <;> simp [wrOK] at h
  | .map k a, r, v, h, ht => by
    cases r <;> simp only [wrOK, Bool.false_eq_true] at h
    rename_i k' b
    simp only [Bool.and_eq_true, beq_iff_eq] at h
    obtain ⟨rfl, hab⟩ := h
    cases v <;> simp only [hasType, Bool.false_eq_true] at ht
    rename_i kvs
    rw [List.all_eq_true] at ht
    obtain ⟨ts, h1, h2⟩ := mapKVO_mapKV (k := k) (w := a) (r := b) (kvs := kvs) (fun kv hkv => by
      have := ht kv hkv
      simp only [Bool.and_eq_true] at this
      exact ⟨this.1, roundtrip a b kv.2 hab this.2⟩)
    exact ⟨.tbl ts, by simp [encode, h1], by simp [decode, h2, Except.map]⟩
  | .struct d fs, r, v, h, ht => by
    cases r <;> simp only [wrOK, Bool.false_eq_true] at h
    rename_i d' gs
    simp only [Bool.and_eq_true] at h
    cases v <;> simp only [hasType, Bool.false_eq_true] at ht
    rename_i vals
    obtain ⟨part, hp, hkeys, hdec⟩ := roundtripFields fs gs vals h.2 ht h.1
    refine ⟨.tbl part, by simp [encode, hp], ?_⟩
    have hall : (part.all fun kv => hasKey gs kv.1) = true := by
      rw [List.all_eq_true]
      intro kv hkv
      exact hasKey_of_mem_keys (by rw [← wrOKFields_keys fs gs h.2]; exact hkeys kv hkv)
    simp [decode, hall, hdec part (fun _ _ => rfl), Except.map]
  | .untagged _, r, _, h, _ => by cases r <;> simp [wrOK] at h

theorem roundtripFields : ∀ (fs gs : List Field) (vals : List (String × Val)), wrOKFields fs gs = true →
    hasTypeFields fs vals = true → nodupB (fs.map (·.key)) = true →
    ∃ part, encodeFields fs vals = some part ∧ (∀ kv ∈ part, kv.1 ∈ fieldKeys fs) ∧
      ∀ KVS : List (String × TV), (∀ k ∈ fieldKeys fs, KVS.lookup k = part.lookup k) → decodeFields gs KVS = .ok vals
  | [], [], vals, _, ht, _ => by
    cases vals <;> simp only [hasTypeFields, Bool.false_eq_true] at ht
    exact ⟨[], rfl, (fun kv hkv => by cases hkv), (fun _ _ => rfl)⟩
  | ⟨k, pw, sk, ne, s, p⟩ :: fs, ⟨k', pr, sk', ne', s', p'⟩ :: gs, vals, h, ht, hnd => by
    cases vals with
    | nil => simp [hasTypeFields] at ht
    | cons kv vals =>
      obtain ⟨kk, v⟩ := kv
      simp only [wrOKFields, Bool.and_eq_true, beq_iff_eq] at h
      obtain ⟨⟨⟨hk, hfo⟩, hss⟩, hrest⟩ := h
      subst hk
      simp only [hasTypeFields, Bool.and_eq_true, beq_iff_eq] at ht
      obtain ⟨⟨hkk, htv⟩, htr⟩ := ht
      subst hkk
      have hnd2 : nodupB (kk :: fs.map (·.key)) = true := by simpa using hnd
      obtain ⟨hnotin, hnd'⟩ := nodupB_cons hnd2
      obtain ⟨part', hp', hkeys', hdec'⟩ := roundtripFields fs gs vals hrest htr hnd'
      have hnone : part'.lookup kk = none :=
        lookup_none_of_not_mem (fun kv hkv hk => hnotin (by rw [← hk]; exact hkeys' kv hkv))
      -- the tail, for any KVS that agrees with a `part` extending `part'` by at most the key `kk`
      have tailOK : ∀ (part : List (String × TV)), (∀ k2, k2 ≠ kk → part.lookup k2 = part'.lookup k2) →
          ∀ KVS : List (String × TV), (∀ k2 ∈ fieldKeys (⟨kk, pw, sk, ne, s, p⟩ :: fs), KVS.lookup k2 = part.lookup k2) →
          decodeFields gs KVS = .ok vals := by
        intro part hpart KVS hK
        apply hdec' KVS
        intro k2 hk2
        have hne : k2 ≠ kk := fun h => hnotin (by rw [← h]; exact hk2)
        rw [hK k2 (List.mem_cons_of_mem _ hk2), hpart k2 hne]
      -- left out
      have leftOut : (sk.holds v = true ∨ (v = .absent ∧ ne = none)) →
          ∀ KVS : List (String × TV), (∀ k2 ∈ fieldKeys (⟨kk, pw, sk, ne, s, p⟩ :: fs), KVS.lookup k2 = part'.lookup k2) →
          decodeFields (⟨kk, pr, sk', ne', s', p'⟩ :: gs) KVS = .ok ((kk, v) :: vals) := by
        intro hsk KVS hK
        obtain ⟨h1, h2, h3⟩ := skipped_value hfo htv hsk
        have hl : KVS.lookup kk = none := by rw [hK kk (List.mem_cons_self ..)]; exact hnone
        have ht' := tailOK part' (fun _ _ => rfl) KVS hK
        unfold decodeFields
        simp only [hl]
        cases pr with
        | required => exact (h1 rfl).elim
        | optional => simp [ht', h2 rfl, Except.map]
        | dflt dv => simp [ht', h3 dv rfl, Except.map]
      have subset' : ∀ kv ∈ part', kv.1 ∈ fieldKeys (⟨kk, pw, sk, ne, s, p⟩ :: fs) :=
        fun kv hkv => List.mem_cons_of_mem _ (hkeys' kv hkv)
      unfold encodeFields
      simp only [ne_eq, not_true_eq_false, if_false, hp']
      by_cases hsk : sk.holds v = true
      · simp only [hsk, if_true]
        exact ⟨part', rfl, subset', leftOut (.inl hsk)⟩
      · simp only [hsk]
        cases hv : v with
        | absent =>
          subst hv
          cases ne with
          | none => exact ⟨part', by simp, subset', leftOut (.inr ⟨rfl, rfl⟩)⟩
          | some e =>
            exfalso
            simp only [fieldOK, Bool.and_eq_true, Bool.or_eq_true, Bool.not_eq_true', beq_iff_eq] at hfo
            simp only [] at htv
            rcases hfo.1 with h1 | h1
            · rw [h1] at htv; cases htv
            · rcases h1.2 with h2 | h2
              · subst h2; simp [Skip.holds] at hsk
              · cases h2
        | _ =>
          all_goals (
            subst hv
            simp only [] at htv
            obtain ⟨t, hte, htd⟩ := roundtrip s s' _ hss htv
            refine ⟨(kk, t) :: part', by simp [hte], ?_, ?_⟩
            · intro kv hkv
              cases hkv with
              | head => exact List.mem_cons_self ..
              | tail _ hm => exact subset' kv hm
            · intro KVS hK
              have hl : KVS.lookup kk = some t := by rw [hK kk (List.mem_cons_self ..)]; exact lookup_cons_self
              have ht' := tailOK ((kk, t) :: part') (fun k2 hne => lookup_cons_ne hne) KVS hK
              unfold decodeFields
              simp [hl, htd, ht', Except.map])
  | [], _ :: _, _, h, _, _ => by simp [wrOKFields] at h
  | _ :: _, [], _, h, _, _ => by simp [wrOKFields] at h
end

end CnbVerif.Codec
