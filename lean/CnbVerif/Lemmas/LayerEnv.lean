import CnbVerif.Model.LayerEnv
import CnbVerif.Spec.EnvRules
import CnbVerif.Lemmas.Bytes
import CnbVerif.Lemmas.SortedFold
namespace CnbVerif
open Spec

/-! ### Env -/
theorem Env.get_set_eq (e : Env) (n v : Bytes) : (e.set n v).get n = some v := by
  simp [Env.get, Env.set, List.lookup]

theorem Env.get_set_ne (e : Env) (n m v : Bytes) (h : m ≠ n) : (e.set n v).get m = e.get m := by
  unfold Env.get Env.set
  have hb : (m == n) = false := by simpa using h
  simp only [List.lookup, hb]
  induction e with
  | nil => rfl
  | cons kv t ih =>
    obtain ⟨k, w⟩ := kv
    by_cases hk : k = n
    · subst hk
      simp [List.filter, List.lookup, hb, ih]
    · have hk' : (k != n) = true := by simpa using hk
      simp only [List.filter, hk', List.lookup]
      split <;> simp_all

/-! ### keys -/
theorem behIdx_inj : ∀ a b : Beh, Gen.behIdx a = Gen.behIdx b → a = b := by
  intro a b; cases a <;> cases b <;> simp [Gen.behIdx]

theorem behIdx_lt5 : ∀ a : Beh, Gen.behIdx a < 5 := by
  intro a; cases a <;> simp [Gen.behIdx]

theorem mkKey_inj {b b' : Beh} {n n' : Bytes} : mkKey b n = mkKey b' n' ↔ b = b' ∧ n = n' := by
  constructor
  · intro h
    simp only [mkKey, List.cons.injEq] at h
    exact ⟨behIdx_inj _ _ h.1, h.2⟩
  · rintro ⟨rfl, rfl⟩; rfl

theorem Entry.key_eq (e : Entry) : e.key = mkKey e.beh e.name := rfl

def Sorted (d : Delta) : Prop := d.Pairwise (fun a b => bytesLt a.key b.key = true)

theorem sorted_nil : Sorted [] := List.Pairwise.nil

theorem mem_insert {d : Delta} {b n v} {x : Entry} (hx : x ∈ d.insert b n v) :
    x = ⟨b, n, v⟩ ∨ x ∈ d := by
  induction d with
  | nil => simp [Delta.insert] at hx; exact Or.inl hx
  | cons e r ih =>
    simp only [Delta.insert] at hx
    split at hx
    · rcases List.mem_cons.mp hx with h | h
      · exact Or.inl h
      · exact Or.inr (by simp [h])
    · split at hx
      · rcases List.mem_cons.mp hx with h | h
        · exact Or.inl h
        · exact Or.inr h
      · rcases List.mem_cons.mp hx with h | h
        · exact Or.inr (by simp [h])
        · rcases ih h with h | h
          · exact Or.inl h
          · exact Or.inr (by simp [h])

theorem sorted_insert {d : Delta} (hs : Sorted d) (b : Beh) (n v : Bytes) : Sorted (d.insert b n v) := by
  induction d with
  | nil => simp [Delta.insert, Sorted]
  | cons e r ih =>
    have hs' := List.pairwise_cons.mp hs
    simp only [Delta.insert]
    split
    · rename_i heq
      apply List.pairwise_cons.mpr
      refine ⟨?_, hs'.2⟩
      intro x hx
      have := hs'.1 x hx
      show bytesLt (mkKey b n) x.key = true
      rw [← heq]; exact this
    · rename_i hne
      split
      · rename_i hlt
        apply List.pairwise_cons.mpr
        refine ⟨?_, hs⟩
        intro x hx
        rcases List.mem_cons.mp hx with rfl | hx
        · exact hlt
        · exact bytesLt_trans hlt (hs'.1 x hx)
      · rename_i hnlt
        apply List.pairwise_cons.mpr
        refine ⟨?_, ih hs'.2⟩
        intro x hx
        rcases mem_insert hx with rfl | hx
        · show bytesLt e.key (mkKey b n) = true
          cases h : bytesLt e.key (mkKey b n) with
          | true => rfl
          | false =>
            have hnlt' : bytesLt (mkKey b n) e.key = false := by simpa using hnlt
            exact absurd (bytesLt_total h hnlt') hne
        · exact hs'.1 x hx

theorem find_cons (e : Entry) (r : Delta) (b : Beh) (n : Bytes) :
    Delta.find (e :: r) b n = if e.key = mkKey b n then some e.val else Delta.find r b n := by
  unfold Delta.find
  by_cases h : e.key = mkKey b n
  · simp [List.find?_cons, h]
  · have : (e.key == mkKey b n) = false := by simpa using h
    simp [List.find?_cons, h, this]

theorem find_insert (d : Delta) (b b' : Beh) (n n' v : Bytes) :
    (d.insert b n v).find b' n' = if b = b' ∧ n = n' then some v else d.find b' n' := by
  induction d with
  | nil =>
    simp only [Delta.insert, find_cons, Entry.key_eq, mkKey_inj]
  | cons e r ih =>
    simp only [Delta.insert]
    split
    · rename_i heq
      simp only [find_cons, Entry.key_eq, mkKey_inj] at *
      by_cases h : b = b' ∧ n = n'
      · simp [h]
      · have : ¬ (e.beh = b' ∧ e.name = n') := by
          rintro ⟨rfl, rfl⟩; exact h ⟨heq.1.symm, heq.2.symm⟩
        simp [h, this]
    · rename_i hne
      split
      · simp only [find_cons, Entry.key_eq, mkKey_inj]
      · simp only [find_cons, Entry.key_eq, mkKey_inj, ih] at *
        by_cases hk : e.beh = b' ∧ e.name = n'
        · have : ¬ (b = b' ∧ n = n') := by
            rintro ⟨rfl, rfl⟩; exact hne hk
          simp [hk, this]
        · simp [hk]

/-! ### value-level effect of one entry -/
def effect (delim : Bytes) (b : Beh) (v : Bytes) (prev : Option Bytes) : Option Bytes :=
  match b with
  | .override => some v
  | .default => match prev with | some p => some p | none => some v
  | .append =>
    let p := prev.getD []
    some ((if p.isEmpty then p else p ++ delim) ++ v)
  | .prepend =>
    let p := prev.getD []
    some (if p.isEmpty then v else v ++ delim ++ p)
  | .delim => prev

theorem effect_eq_rule1 (delim : Bytes) (b : Beh) (v : Bytes) (prev : Option Bytes) :
    effect delim b v prev = rule1 delim b v prev := by
  cases b <;> cases prev <;> simp [effect, rule1] <;> split <;> simp_all

theorem step_get (d : Delta) (env : Env) (e : Entry) (n : Bytes) :
    (d.step env e).get n =
      if e.name = n then effect (d.delimFor n) e.beh e.val (env.get n) else env.get n := by
  unfold Delta.step
  by_cases hn : e.name = n
  · subst hn
    cases hb : e.beh <;> simp only [effect, if_true]
    · simp [Env.get_set_eq]
    · cases hg : env.get e.name <;> simp [Env.get_set_eq, hg]
    · simp [Env.get_set_eq]
    · simp [Env.get_set_eq]
  · simp only [hn, if_false]
    cases hb : e.beh <;> simp only []
    · exact Env.get_set_ne _ _ _ _ (Ne.symm hn)
    · split
      · rfl
      · exact Env.get_set_ne _ _ _ _ (Ne.symm hn)
    · exact Env.get_set_ne _ _ _ _ (Ne.symm hn)
    · exact Env.get_set_ne _ _ _ _ (Ne.symm hn)

def varStep (d : Delta) (n : Bytes) (p : Option Bytes) (e : Entry) : Option Bytes :=
  if e.name = n then effect (d.delimFor n) e.beh e.val p else p

theorem fold_get (d : Delta) (l : List Entry) (env : Env) (n : Bytes) :
    (l.foldl (Delta.step d) env).get n = l.foldl (varStep d n) (env.get n) := by
  induction l generalizing env with
  | nil => rfl
  | cons e t ih =>
    simp only [List.foldl_cons]
    rw [ih, step_get]
    rfl

theorem fold_filter (d : Delta) (n : Bytes) (l : List Entry) (p : Option Bytes) :
    l.foldl (varStep d n) p =
      (l.filter (fun e => e.name == n)).foldl (fun p e => effect (d.delimFor n) e.beh e.val p) p := by
  induction l generalizing p with
  | nil => rfl
  | cons e t ih =>
    rw [List.foldl_cons, List.filter_cons]
    by_cases h : e.name = n
    · have hb : (e.name == n) = true := by simpa using h
      rw [if_pos hb, List.foldl_cons, ih]; simp [varStep, h]
    · have hb : ¬ ((e.name == n) = true) := by simpa using h
      rw [if_neg hb, ih]; simp [varStep, h]

theorem filter_sorted (l : Delta) (n : Bytes) (hs : Sorted l) :
    (l.filter (fun e => e.name == n)).Pairwise (fun a b => Gen.behIdx a.beh < Gen.behIdx b.beh) := by
  have h1 := List.Pairwise.filter (fun e => e.name == n) hs
  apply List.Pairwise.imp_of_mem _ h1
  intro a b ha hb hlt
  have han : a.name = n := by simpa using (List.mem_filter.mp ha).2
  have hbn : b.name = n := by simpa using (List.mem_filter.mp hb).2
  simp only [Entry.key, han, hbn, bytesLt, bytesLt_irrefl] at hlt
  by_cases h : Gen.behIdx a.beh < Gen.behIdx b.beh
  · exact h
  · simp [h] at hlt

theorem find?_ext {α} (p q : α → Bool) (l : List α) (h : ∀ x, p x = q x) : l.find? p = l.find? q := by
  have : p = q := funext h
  rw [this]

theorem find_filter (l : Delta) (n : Bytes) (b : Beh) :
    ((l.filter (fun e => e.name == n)).find? (fun e => Gen.behIdx e.beh == Gen.behIdx b)).map (·.val)
      = Delta.find l b n := by
  unfold Delta.find
  rw [List.find?_filter]
  congr 1
  apply find?_ext
  intro e
  simp only [Entry.key, mkKey]
  by_cases h1 : e.name = n <;> by_cases h2 : Gen.behIdx e.beh = Gen.behIdx b <;> simp [h1, h2]

theorem pick_eq (d : Delta) (n : Bytes) (dl : Bytes) (b : Beh) (i : Nat) (hi : Gen.behIdx b = i)
    (p : Option Bytes) :
    pick (fun e : Entry => Gen.behIdx e.beh) (fun p e => effect dl e.beh e.val p)
        (d.filter (fun e => e.name == n)) p i
      = match d.find b n with
        | some v => effect dl b v p
        | none => p := by
  subst hi
  unfold pick
  rw [← find_filter d n b]
  cases h : (d.filter (fun e => e.name == n)).find? (fun e => Gen.behIdx e.beh == Gen.behIdx b) with
  | none => rfl
  | some e =>
    have := List.find?_some h
    have hb : e.beh = b := behIdx_inj _ _ (by simpa using this)
    simp [hb]

/-- The heart of C04: a sorted delta acts on each variable as the per-variable CNB rule. -/
theorem delta_apply_get (d : Delta) (hs : Sorted d) (env : Env) (n : Bytes) :
    (d.apply env).get n = ruleVar (fun b => d.find b n) (env.get n) := by
  unfold Delta.apply
  rw [fold_get, fold_filter]
  have hsort := filter_sorted d n hs
  have hb : ∀ e ∈ d.filter (fun e => e.name == n), 0 ≤ Gen.behIdx e.beh ∧ Gen.behIdx e.beh < 0 + 5 := by
    intro e _; exact ⟨Nat.zero_le _, by simpa using behIdx_lt5 e.beh⟩
  rw [foldl_sorted_range (fun e : Entry => Gen.behIdx e.beh) _ 5 0 _ _ hsort hb]
  simp only [List.range', List.foldl_cons, List.foldl_nil, Nat.zero_add, Nat.reduceAdd]
  rw [pick_eq d n _ .append 0 rfl, pick_eq d n _ .default 1 rfl, pick_eq d n _ .delim 2 rfl,
    pick_eq d n _ .override 3 rfl, pick_eq d n _ .prepend 4 rfl]
  unfold ruleVar Delta.delimFor
  simp only [effect_eq_rule1]
  cases d.find .append n <;> cases d.find .default n <;> cases d.find .delim n <;>
    cases d.find .override n <;> cases d.find .prepend n <;> rfl

end CnbVerif
