import CnbVerif.Model.Determinism
import CnbVerif.Spec.Determinism
import CnbVerif.Lemmas.EnvDir2
import CnbVerif.Lemmas.Bytes
/-! Helper lemmas for C20: the canonical form is determined by the lookups; lookups are invariant under permutation. -/
namespace CnbVerif.Det
open CnbVerif Spec.Det

/-! ### one level: `sortDir` -/
theorem get_cons (k : Bytes) (x : Node) (r : Dir) (n : Bytes) :
    Dir.get ((k, x) :: r) n = if n = k then some x else Dir.get r n := by
  by_cases h : n = k
  · subst h; simp [Dir.get, List.lookup]
  · have hb : (n == k) = false := by simpa using h
    simp [Dir.get, List.lookup, hb, h]

theorem get_nil (n : Bytes) : Dir.get [] n = none := rfl

theorem get_insertSorted (k : Bytes) (x : Node) (d : Dir) (n : Bytes) :
    Dir.get (insertSorted k x d) n = if n = k then some x else d.get n := by
  induction d with
  | nil => simp [insertSorted, get_cons]
  | cons kv r ih =>
    obtain ⟨k', x'⟩ := kv
    unfold insertSorted
    by_cases h1 : bytesLt k k' = true
    · rw [if_pos h1, get_cons]
    · rw [if_neg h1]
      by_cases h2 : k = k'
      · subst h2
        rw [if_pos rfl, get_cons, get_cons]
        by_cases hn : n = k <;> simp [hn]
      · rw [if_neg h2, get_cons, get_cons, ih]
        by_cases hn : n = k'
        · have : n ≠ k := fun e => h2 (e.symm.trans hn)
          simp [hn, Ne.symm h2]
        · simp [hn]

theorem get_sortDir (d : Dir) (n : Bytes) : Dir.get (sortDir d) n = d.get n := by
  induction d with
  | nil => rfl
  | cons kv r ih =>
    obtain ⟨k, x⟩ := kv
    simp only [sortDir, get_insertSorted, get_cons, ih]

theorem mem_insertSorted {k : Bytes} {x : Node} {d : Dir} {kv : Bytes × Node} (h : kv ∈ insertSorted k x d) :
    kv = (k, x) ∨ kv ∈ d := by
  induction d with
  | nil => simpa [insertSorted] using h
  | cons e r ih =>
    obtain ⟨k', x'⟩ := e
    unfold insertSorted at h
    by_cases h1 : bytesLt k k' = true
    · simp only [h1, if_true] at h
      simpa using h
    · simp only [h1] at h
      by_cases h2 : k = k'
      · simp only [h2, if_true] at h
        rcases List.mem_cons.mp h with h | h
        · exact Or.inl (by rw [h, h2])
        · exact Or.inr (List.mem_cons_of_mem _ h)
      · simp only [h2, if_false] at h
        rcases List.mem_cons.mp h with h | h
        · exact Or.inr (by rw [h]; exact List.mem_cons_self)
        · rcases ih h with h | h
          · exact Or.inl h
          · exact Or.inr (List.mem_cons_of_mem _ h)

theorem sorted_insertSorted (k : Bytes) (x : Node) (d : Dir) (h : StrictSorted d) : StrictSorted (insertSorted k x d) := by
  induction d with
  | nil => simp [insertSorted, StrictSorted]
  | cons e r ih =>
    obtain ⟨k', x'⟩ := e
    have hc := List.pairwise_cons.mp h
    unfold insertSorted
    by_cases h1 : bytesLt k k' = true
    · simp only [h1, if_true]
      refine List.pairwise_cons.mpr ⟨?_, h⟩
      intro y hy
      rcases List.mem_cons.mp hy with hy | hy
      · rw [hy]; exact h1
      · exact bytesLt_trans h1 (hc.1 y hy)
    · simp only [h1]
      by_cases h2 : k = k'
      · subst h2
        simp only [if_true]
        exact List.pairwise_cons.mpr ⟨hc.1, hc.2⟩
      · simp only [h2, if_false]
        have h3 : bytesLt k' k = true := by
          cases hb : bytesLt k' k with
          | true => rfl
          | false => exact absurd (bytesLt_total (by simpa using h1) hb) h2
        refine List.pairwise_cons.mpr ⟨?_, ih hc.2⟩
        intro y hy
        rcases mem_insertSorted hy with hy | hy
        · rw [hy]; exact h3
        · exact hc.1 y hy

theorem sorted_sortDir (d : Dir) : StrictSorted (sortDir d) := by
  induction d with
  | nil => simp [sortDir, StrictSorted]
  | cons kv r ih => obtain ⟨k, x⟩ := kv; exact sorted_insertSorted k x _ ih

theorem get_none_of_lt (d : Dir) (k : Bytes) (h : ∀ y ∈ d, bytesLt k y.1 = true) : d.get k = none := by
  induction d with
  | nil => rfl
  | cons e r ih =>
    obtain ⟨k', x'⟩ := e
    have hne : k ≠ k' := bytesLt_ne (h (k', x') List.mem_cons_self)
    rw [get_cons, if_neg hne]
    exact ih (fun y hy => h y (List.mem_cons_of_mem _ hy))

/-- a strictly sorted association list is determined by its lookups -/
theorem sorted_ext : ∀ (a b : Dir), StrictSorted a → StrictSorted b → (∀ n, a.get n = b.get n) → a = b
  | [], [], _, _, _ => rfl
  | [], (k, x) :: r, _, _, h => by have := h k; simp [get_cons, get_nil] at this
  | (k, x) :: r, [], _, _, h => by have := h k; simp [get_cons, get_nil] at this
  | (k, x) :: r, (k', x') :: r', ha, hb, h => by
    have ha' := List.pairwise_cons.mp ha
    have hb' := List.pairwise_cons.mp hb
    have hk : k = k' := by
      by_cases h1 : bytesLt k k' = true
      · have hn : Dir.get ((k', x') :: r') k = none := by
          apply get_none_of_lt
          intro y hy
          rcases List.mem_cons.mp hy with hy | hy
          · rw [hy]; exact h1
          · exact bytesLt_trans h1 (hb'.1 y hy)
        have h2 := h k
        rw [hn, get_cons] at h2
        simp at h2
      · by_cases h2 : bytesLt k' k = true
        · have hn : Dir.get ((k, x) :: r) k' = none := by
            apply get_none_of_lt
            intro y hy
            rcases List.mem_cons.mp hy with hy | hy
            · rw [hy]; exact h2
            · exact bytesLt_trans h2 (ha'.1 y hy)
          have h3 := h k'
          rw [hn, get_cons] at h3
          simp at h3
        · exact bytesLt_total (by simpa using h1) (by simpa using h2)
    subst hk
    have hx : x = x' := by have := h k; simpa [get_cons] using this
    subst hx
    have hr : r = r' := sorted_ext r r' ha'.2 hb'.2 (fun n => by
      by_cases hn : n = k
      · subst hn; rw [get_none_of_lt r n ha'.1, get_none_of_lt r' n hb'.1]
      · have := h n; simpa [get_cons, hn] using this)
    rw [hr]

theorem sortDir_ext (a b : Dir) (h : ∀ n, a.get n = b.get n) : sortDir a = sortDir b :=
  sorted_ext _ _ (sorted_sortDir a) (sorted_sortDir b) (fun n => by rw [get_sortDir, get_sortDir, h n])

/-! ### every level: `canon` -/
theorem canonNode_dir (es : Dir) : canonNode (.dir es) = .dir (canon es) := by
  rw [canonNode]; rfl

theorem get_canonEntries (d : Dir) (n : Bytes) : Dir.get (canonEntries d) n = (d.get n).map canonNode := by
  induction d with
  | nil => rfl
  | cons kv r ih =>
    obtain ⟨k, x⟩ := kv
    rw [canonEntries, get_cons, get_cons, ih]
    by_cases hn : n = k <;> simp [hn]

theorem get_canon (d : Dir) (n : Bytes) : Dir.get (canon d) n = (d.get n).map canonNode := by
  unfold canon; rw [get_sortDir, get_canonEntries]

/-- same lookups up to canonical form, at this level -/
def Ext (a b : Dir) : Prop := ∀ n, (a.get n).map canonNode = (b.get n).map canonNode

theorem sameDir_iff_ext (a b : Dir) : SameDir a b ↔ Ext a b := by
  constructor
  · intro h n
    rw [← get_canon, ← get_canon, h]
  · intro h
    unfold SameDir canon
    exact sortDir_ext _ _ (fun n => by rw [get_canonEntries, get_canonEntries]; exact h n)

theorem Ext.refl (a : Dir) : Ext a a := fun _ => rfl
theorem Ext.symm {a b : Dir} (h : Ext a b) : Ext b a := fun n => (h n).symm
theorem Ext.trans {a b c : Dir} (h : Ext a b) (h' : Ext b c) : Ext a c := fun n => (h n).trans (h' n)

theorem ext_of_get_eq {a b : Dir} (h : ∀ n, a.get n = b.get n) : Ext a b := fun n => by rw [h n]

theorem ext_set {a b : Dir} (h : Ext a b) (n : Bytes) {x y : Node} (hx : canonNode x = canonNode y) :
    Ext (a.set n x) (b.set n y) := by
  intro m
  by_cases hm : m = n
  · subst hm; rw [Dir.get_set_eq, Dir.get_set_eq]; simp [hx]
  · rw [Dir.get_set_ne _ _ _ _ hm, Dir.get_set_ne _ _ _ _ hm]; exact h m

theorem ext_erase {a b : Dir} (h : Ext a b) (n : Bytes) : Ext (a.erase n) (b.erase n) := by
  intro m
  by_cases hm : m = n
  · subst hm; rw [Dir.get_erase_eq, Dir.get_erase_eq]
  · rw [Dir.get_erase_ne _ _ _ hm, Dir.get_erase_ne _ _ _ hm]; exact h m

/-- constructor of an entry: 0 absent, 1 file, 2 directory, 3 link -/
def kind : Option Node → Nat
  | none => 0
  | some (.file _) => 1
  | some (.dir _) => 2
  | some (.link _) => 3

theorem kind_map_canon (o : Option Node) : kind (o.map canonNode) = kind o := by
  cases o with
  | none => rfl
  | some x => cases x <;> simp [kind, canonNode]

theorem kind_eq_of_ext {a b : Dir} (h : Ext a b) (n : Bytes) : kind (a.get n) = kind (b.get n) := by
  rw [← kind_map_canon, ← kind_map_canon (b.get n), h n]

/-! ### lookups and permutations -/
theorem lookup_none_of_not_mem {β} (k : Bytes) (l : List (Bytes × β)) (h : k ∉ l.map (·.1)) : List.lookup k l = none := by
  induction l with
  | nil => rfl
  | cons e r ih =>
    obtain ⟨k', v⟩ := e
    have hne : k ≠ k' := fun e => h (by simp [e])
    have hb : (k == k') = false := by simpa using hne
    simp only [List.lookup, hb]
    exact ih (fun hm => h (by simp [List.map_cons]; exact Or.inr (by simpa using hm)))

theorem nodup_keys_tail {β} {e : Bytes × β} {l : List (Bytes × β)} (h : ((e :: l).map (·.1)).Nodup) : (l.map (·.1)).Nodup :=
  (List.nodup_cons.mp (by rw [List.map_cons] at h; exact h)).2

theorem nodup_keys_head {β} {e : Bytes × β} {l : List (Bytes × β)} (h : ((e :: l).map (·.1)).Nodup) : e.1 ∉ l.map (·.1) :=
  (List.nodup_cons.mp (by rw [List.map_cons] at h; exact h)).1

/-- with pairwise distinct keys the lookup does not depend on the order of the list -/
theorem lookup_perm {β} {l l' : List (Bytes × β)} (hp : l.Perm l') (hnd : (l.map (·.1)).Nodup) (n : Bytes) :
    List.lookup n l = List.lookup n l' := by
  induction hp with
  | nil => rfl
  | cons e _ ih =>
    obtain ⟨k, v⟩ := e
    simp only [List.lookup]
    split
    · rfl
    · exact ih (nodup_keys_tail hnd)
  | swap e e' r =>
    obtain ⟨k, v⟩ := e
    obtain ⟨k', v'⟩ := e'
    have hnd1 := List.nodup_cons.mp (by rw [List.map_cons] at hnd; exact hnd)
    have hne : k' ≠ k := by
      intro e; apply hnd1.1; rw [List.map_cons]; simp [e]
    simp only [List.lookup]
    by_cases h1 : n = k
    · subst h1
      have : (n == k') = false := by simpa using Ne.symm hne
      simp [this]
    · have hb : (n == k) = false := by simpa using h1
      simp [hb]
  | trans h1 _ ih1 ih2 =>
    rw [ih1 hnd]
    exact ih2 ((h1.map (·.1)).nodup_iff.mp hnd)

theorem lookup_append' {β} (n : Bytes) (a b : List (Bytes × β)) :
    List.lookup n (a ++ b) = match List.lookup n a with | some x => some x | none => List.lookup n b := by
  induction a with
  | nil => rfl
  | cons e r ih =>
    obtain ⟨k, v⟩ := e
    simp only [List.cons_append, List.lookup]
    split
    · rfl
    · exact ih

end CnbVerif.Det
