import CnbVerif.Lemmas.RmTree2
import CnbVerif.Spec.Frame
/-! Lemmas for C11, part 3: the model's names are the specification's names; `delete_layer` and the recreating
operations against `Spec.Frame`. -/
namespace CnbVerif.RmTree
open CnbVerif CnbVerif.Spec.Frame

/-! ### the model's names are the specification's -/

theorem prefixOf_eq_isPre : ∀ a b : Path, prefixOf a b = isPre a b
  | [], _ => rfl
  | _ :: _, [] => rfl
  | a :: as, b :: bs => by
    unfold prefixOf isPre
    by_cases h : a = b
    · simp only [h, if_true]; exact prefixOf_eq_isPre as bs
    · simp only [h, if_false]

/-- the SBOM suffix table regenerated from `libcnb/src/sbom.rs` is the specification's -/
theorem sbomExts_eq : RmTree.sbomExts = Spec.Frame.sbomExts := by decide

theorem layerDir_eq (n : Name) : layerDir n = layerPath n := rfl
theorem layerToml_eq (n : Name) : layerToml n = tomlPath n := rfl
theorem layerSboms_eq (n : Name) : layerSboms n = sbomPaths n := by
  unfold layerSboms sbomPaths
  rw [sbomExts_eq]
  rfl

/-- the names `delete_layer` unlinks after the directory -/
def ownNames (n : Name) : List Name := tomlName n :: RmTree.sbomExts.map (sbomName n)

theorem ownNames_paths (n : Name) : (ownNames n).map (fun x => [layersName, x]) = tomlPath n :: sbomPaths n := by
  simp [ownNames, tomlPath, sbomPaths, List.map_map, Function.comp_def]

theorem sbomNames_paths (n : Name) : (RmTree.sbomExts.map (sbomName n)).map (fun x => [layersName, x]) = sbomPaths n := by
  simp [sbomPaths, List.map_map, Function.comp_def]

theorem own_iff (n : Name) (p : Path) :
    own n p = true ↔ isPre (layerPath n) p = true ∨ p ∈ tomlPath n :: sbomPaths n := by
  unfold own
  rw [prefixOf_eq_isPre, layerDir_eq, layerToml_eq, layerSboms_eq]
  simp [Bool.or_eq_true, or_assoc]

theorem outside_iff (n : Name) (p : Path) :
    outside n p = true ↔ isPre (layerPath n) p = false ∧ p ∉ tomlPath n :: sbomPaths n := by
  unfold outside
  have := own_iff n p
  cases h : own n p with
  | true =>
    simp only [Bool.not_true, Bool.false_eq_true, false_iff]
    rcases this.mp h with h1 | h1
    · simp [h1]
    · intro h2; exact h2.2 h1
  | false =>
    simp only [Bool.not_false, true_iff]
    constructor
    · cases hp : isPre (layerPath n) p with
      | false => rfl
      | true => rw [this.mpr (Or.inl hp)] at h; cases h
    · intro hm; rw [this.mpr (Or.inr hm)] at h; cases h

/-- every own path other than the directory's sub-tree is an entry of the layers directory, and so is the directory -/
theorem own_len {n : Name} {p : Path} (h : p ∈ tomlPath n :: sbomPaths n) : p.length = 2 := by
  rw [← ownNames_paths] at h
  obtain ⟨x, _, rfl⟩ := List.mem_map.mp h
  rfl

theorem outside_layers (n : Name) : outside n [layersName] = true := by
  rw [outside_iff]
  refine ⟨isPre_false_of_lt (by simp [layerPath]), fun h => ?_⟩
  have := own_len h
  simp at this

/-! ### frames compose -/

theorem frame_refl (n : Name) (s : FS) : Frame n s s := fun _ _ => rfl

theorem frame_trans {n : Name} {a b c : FS} (h1 : Frame n a b) (h2 : Frame n b c) : Frame n a c :=
  fun p hp => (h2 p hp).trans (h1 p hp)

theorem layersDir_of_frame {n : Name} {s s' : FS} (h : Frame n s s') (hd : isDirAt s [layersName] = true) :
    isDirAt s' [layersName] = true := by
  unfold isDirAt at hd ⊢
  rw [h _ (outside_layers n)]; exact hd

theorem frame_of_untouched {n : Name} {s s' : FS} (h : Untouched (layerPath n) s s') : Frame n s s' :=
  fun p hp => h p ((outside_iff n p).mp hp).1

theorem frame_of_own_key {n : Name} {s s' : FS} {q : Path} (hq : own n q = true)
    (h : ∀ k, k ≠ q → fget s' k = fget s k) : Frame n s s' := by
  intro p hp
  apply h
  intro e; subst e
  unfold outside at hp; rw [hq] at hp; cases hp

theorem own_toml (n : Name) : own n (tomlPath n) = true := (own_iff n _).mpr (Or.inr List.mem_cons_self)
theorem own_layer (n : Name) : own n (layerPath n) = true := (own_iff n _).mpr (Or.inl (isPre_refl _))

/-! ### trees -/

theorem wf_ancestor_dir {fs : FS} (hwf : WF fs) : ∀ (len : Nat) (r : Path), r.length = len → r ≠ [] →
    ∀ (l : Path), l ≠ [] → (fget fs (l ++ r)).isSome = true → isDirAt fs l = true := by
  intro len
  induction len with
  | zero => intro r hl hr; cases r with
    | nil => exact absurd rfl hr
    | cons a b => simp at hl
  | succ len ih =>
    intro r hl hr l hln hs
    rcases List.eq_nil_or_concat r with e | ⟨r', z, e⟩
    · exact absurd e hr
    · rw [List.concat_eq_append] at e
      subst e
      obtain ⟨v, hv⟩ := Option.isSome_iff_exists.mp hs
      have hdl : (l ++ (r' ++ [z])).dropLast = l ++ r' := by
        rw [← List.append_assoc]; simp
      have hpar := hwf _ v hv (by rw [hdl]; simp [hln])
      rw [hdl] at hpar
      cases r' with
      | nil => simpa using hpar
      | cons a b =>
        apply ih (a :: b) (by simp at hl ⊢; omega) (by simp) l hln
        unfold isDirAt at hpar
        cases hg : fget fs (l ++ a :: b) with
        | none => rw [hg] at hpar; cases hpar
        | some w => rfl

/-- in a tree, nothing is recorded below a path that is not a directory -/
theorem wf_below (fs : FS) (hwf : WF fs) (l : Path) (hl : l ≠ []) (hd : isDirAt fs l = false) :
    ∀ k, isPre l k = true → k ≠ l → fget fs k = none := by
  intro k hk hne
  obtain ⟨r, rfl⟩ := (isPre_iff l k).mp hk
  have hr : r ≠ [] := by intro e; subst e; simp at hne
  cases hg : fget fs (l ++ r) with
  | none => rfl
  | some v =>
    have := wf_ancestor_dir hwf r.length r rfl hr l hl (by simp [hg])
    rw [this] at hd; cases hd

theorem fget_some_mem {fs : FS} {k : Path} {v : Node} (h : fget fs k = some v) : (k, v) ∈ fs := by
  induction fs with
  | nil => cases h
  | cons kv r ih =>
    obtain ⟨k', v'⟩ := kv
    unfold fget at h
    by_cases hk : k' = k
    · simp only [hk, if_true, Option.some.injEq] at h
      subst hk; subst h; exact List.mem_cons_self
    · simp only [hk, if_false] at h
      exact List.mem_cons_of_mem _ (ih h)

theorem wf_of_wfB {fs : FS} (h : wfB fs = true) : WF fs := by
  intro k v hv hne
  have hm := fget_some_mem hv
  have := List.all_eq_true.mp h _ hm
  simp only [Bool.or_eq_true, decide_eq_true_eq] at this
  rcases this with e | e
  · exact absurd e hne
  · exact e

/-! ### `delete_layer` -/

theorem deleteLayer_cases (root : Bool) (t : FS) (n : Name) :
    (deleteLayer root t n = rmRec root (depthFuel t) t (layerPath n) ∧
      (∃ e, (rmRec root (depthFuel t) t (layerPath n)).1 = Except.error e ∧ e ≠ Err.notFound)) ∨
    (deleteLayer root t n = unlinkAll root (rmRec root (depthFuel t) t (layerPath n)).2 (tomlPath n :: sbomPaths n) ∧
      ((rmRec root (depthFuel t) t (layerPath n)).1 = Except.ok () ∨
       (rmRec root (depthFuel t) t (layerPath n)).1 = Except.error Err.notFound)) := by
  unfold deleteLayer deleteLayerWith
  dsimp only
  generalize rmRec root (depthFuel t) t (layerPath n) = r
  obtain ⟨res, s1⟩ := r
  cases res with
  | ok u => right; exact ⟨rfl, Or.inl rfl⟩
  | error e =>
    by_cases he : e = Err.notFound
    · subst he; right; exact ⟨by simp, Or.inr rfl⟩
    · left; exact ⟨by simp [he], e, rfl, he⟩

theorem layerPath_ne (n : Name) : layerPath n ≠ [] := by simp [layerPath]

theorem tomlName_ne (n : Name) : tomlName n ≠ n := by
  intro h
  have := congrArg List.length h
  simp [tomlName] at this

theorem tomlPath_ne_layerPath (n : Name) : tomlPath n ≠ layerPath n := by
  intro h
  simp [tomlPath, layerPath] at h
  exact tomlName_ne n h

theorem deleteLayer_frame (root : Bool) (t : FS) (n : Name) (hd : isDirAt t [layersName] = true) :
    Frame n t (deleteLayer root t n).2 := by
  have hc : Canon t (layerPath n) := canon_pair t _ _ hd
  have hu := rmRec_untouched root (depthFuel t) t (layerPath n) (layerPath_ne n) hc
  have hf1 : Frame n t (rmRec root (depthFuel t) t (layerPath n)).2 := frame_of_untouched hu
  rcases deleteLayer_cases root t n with ⟨h, _⟩ | ⟨h, _⟩
  · rw [h]; exact hf1
  · rw [h]
    have hd1 := layersDir_of_frame hf1 hd
    have := (unlinkAll_spec root layersName (ownNames n) _ hd1).1
    rw [ownNames_paths] at this
    exact frame_trans hf1 (fun p hp => this p ((outside_iff n p).mp hp).2)

theorem deleteLayer_gone (root : Bool) (t : FS) (n : Name) (hd : isDirAt t [layersName] = true)
    (hb : isDirAt t (layerPath n) = false → ∀ k, isPre (layerPath n) k = true → k ≠ layerPath n → fget t k = none)
    (hok : (deleteLayer root t n).1 = .ok ()) : Gone n (deleteLayer root t n).2 := by
  have hc : Canon t (layerPath n) := canon_pair t _ _ hd
  have hne := layerPath_ne n
  have hu := rmRec_untouched root (depthFuel t) t (layerPath n) hne hc
  have hf1 : Frame n t (rmRec root (depthFuel t) t (layerPath n)).2 := frame_of_untouched hu
  rcases deleteLayer_cases root t n with ⟨h, e, he, hne'⟩ | ⟨h, hres⟩
  · rw [h, he] at hok; cases hok
  · -- nothing at or below the layer directory after the recursion
    have hgone1 : ∀ k, isPre (layerPath n) k = true →
        fget (rmRec root (depthFuel t) t (layerPath n)).2 k = none := by
      rcases hres with hres | hres
      · exact rmRec_ok_gone root _ t _ hne hc hb hres
      · have habs : fget t (layerPath n) = none := by
          cases hg : fget t (layerPath n) with
          | none => rfl
          | some v =>
            exact absurd hres (rmRec_ne_notFound root _ t _ hne hc (by simp [hg]))
        have hs : (rmRec root (depthFuel t) t (layerPath n)).2 = t := rmRec_absent root _ t _ hne hc habs
        rw [hs]
        intro k hk
        by_cases hkl : k = layerPath n
        · rw [hkl]; exact habs
        · exact hb (by simp [isDirAt, habs]) k hk hkl
    rw [h] at hok ⊢
    have hd1 := layersDir_of_frame hf1 hd
    have hspec := unlinkAll_spec root layersName (ownNames n) _ hd1
    rw [ownNames_paths] at hspec
    intro p hp
    by_cases hm : p ∈ tomlPath n :: sbomPaths n
    · exact hspec.2 hok p hm
    · rw [hspec.1 p hm]
      rcases (own_iff n p).mp hp with h1 | h1
      · exact hgone1 p h1
      · exact absurd h1 hm

/-! ### the creating half -/

theorem statDir_single (root : Bool) (s : FS) (d : Name) (hd : isDirAt s [d] = true) :
    (∃ e, statDir root s [d] = .error e ∧ e ≠ .notFound) ∨ statDir root s [d] = .ok [d] := by
  unfold statDir
  have hl : isLinkAt s [d] = false := by
    unfold isDirAt at hd; unfold isLinkAt
    cases hg : fget s [d] with
    | none => rfl
    | some v => rw [hg] at hd; cases v <;> simp_all
  simp only [List.cons_ne_self, if_false]
  cases stat_canon root s [d] (by simp) (canon_single s d) hl with
  | access h => left; rw [h]; exact ⟨_, rfl, by intro e; cases e⟩
  | absent h hn => unfold isDirAt at hd; rw [hn] at hd; cases hd
  | here v h hv =>
    rw [h]
    unfold isDirAt at hd; rw [hv] at hd
    cases v with
    | dir m => right; rfl
    | file m c => cases hd
    | hard i m c => cases hd
    | link t => cases hd

/-- `mkdir <d>/<x>` in a real directory `<d>`: never not-found; on success exactly the key `<d>/<x>` becomes a directory -/
theorem mkdir_pair (root : Bool) (s : FS) (d x : Name) (hd : isDirAt s [d] = true) :
    (∃ e, mkdir root s [d, x] = .error e ∧ e ≠ .notFound) ∨
    (mkdir root s [d, x] = .ok (fset s [d, x] (.dir newDirMode))) := by
  unfold mkdir
  simp only [List.getLast?, List.getLast, List.dropLast]
  rcases statDir_single root s d hd with ⟨e, he, hne⟩ | h
  · left; rw [he]; exact ⟨e, rfl, hne⟩
  · rw [h]
    simp only [List.cons_append, List.nil_append]
    by_cases hs : searchOk root s [d] = true
    · simp only [hs, if_true]
      cases hg : fget s [d, x] with
      | some v => left; exact ⟨_, rfl, by intro e; cases e⟩
      | none =>
        simp only
        by_cases hw : parentW root s [d, x] = true
        · right; simp [hw]
        · left; simp only [hw]; exact ⟨_, rfl, by intro e; cases e⟩
    · left; simp only [hs]; exact ⟨_, rfl, by intro e; cases e⟩

theorem mkdirAll_pair (root : Bool) (s : FS) (d x : Name) (hd : isDirAt s [d] = true) :
    (∃ e, mkdirAll root 2 s [d, x] = .error e) ∨
    (mkdirAll root 2 s [d, x] = .ok s ∧ isDirB root s [d, x] = true) ∨
    (mkdirAll root 2 s [d, x] = .ok (fset s [d, x] (.dir newDirMode))) := by
  unfold mkdirAll
  simp only [reduceCtorEq, if_false]
  rcases mkdir_pair root s d x hd with ⟨e, he, hne⟩ | h
  · rw [he]
    simp only [hne, if_false]
    by_cases hi : isDirB root s [d, x] = true
    · right; left; simp [hi]
    · left; simp only [hi]; exact ⟨_, rfl⟩
  · right; right; rw [h]

/-- `fs::write <d>/<x>` in a real directory `<d>`: on success exactly the key `<d>/<x>` becomes a file with the content -/
theorem writeFile_pair (root : Bool) (s : FS) (d x : Name) (c : Bytes) (hd : isDirAt s [d] = true) :
    (∃ e, writeFile root s [d, x] c = .error e) ∨
    (∃ m, writeFile root s [d, x] c = .ok (fset s [d, x] (.file m c))) := by
  unfold writeFile
  cases lstat_canon root s [d, x] (by simp) (canon_pair s d x hd) with
  | access h => left; rw [h]; exact ⟨.access, by simp⟩
  | absent h hn =>
    rw [h]
    simp only [if_true, List.getLast?, List.getLast, List.dropLast]
    rcases statDir_single root s d hd with ⟨e, he, _⟩ | h2
    · left; rw [he]; exact ⟨_, rfl⟩
    · rw [h2]
      simp only [List.cons_append, List.nil_append, hn]
      by_cases hs : searchOk root s [d] = true
      · simp only [hs, if_true]
        by_cases hw : parentW root s [d, x] = true
        · right; exact ⟨newFileMode, by simp [hw]⟩
        · left; simp only [hw]; exact ⟨_, rfl⟩
      · left; simp only [hs]; exact ⟨_, rfl⟩
  | here v h hv =>
    rw [h]
    cases v with
    | dir m => left; exact ⟨_, rfl⟩
    | link t => left; exact ⟨_, rfl⟩
    | hard i m c' => left; exact ⟨_, rfl⟩
    | file m c' =>
      simp only
      by_cases hw : (root || bit m 128) = true
      · right; exact ⟨m, by simp [hw]⟩
      · left; simp only [hw]; exact ⟨_, rfl⟩

theorem frame_fset_own {n : Name} {q : Path} (s : FS) (v : Node) (hq : own n q = true) : Frame n s (fset s q v) :=
  frame_of_own_key hq (fun k hk => fget_fset_ne s q k v hk)

theorem frame_ferase_own {n : Name} {q : Path} (s : FS) (hq : own n q = true) : Frame n s (ferase s q) :=
  frame_of_own_key hq (fun k hk => fget_ferase_ne s q k hk)

theorem unlinkSboms_frame (root : Bool) (s : FS) (n : Name) (hd : isDirAt s [layersName] = true) :
    Frame n s (unlinkAll root s (sbomPaths n)).2 := by
  have := (unlinkAll_spec root layersName (RmTree.sbomExts.map (sbomName n)) s hd).1
  rw [sbomNames_paths] at this
  intro p hp
  exact this p (fun hm => ((outside_iff n p).mp hp).2 (List.mem_cons_of_mem _ hm))

theorem createLayer_frame (root : Bool) (api : Api) (bp : Bp) (s : FS) (n : Name) (hd : isDirAt s [layersName] = true) :
    Frame n s (createLayer root api bp s n).2 := by
  unfold createLayer
  have hmk : ∀ s1, mkdirAll root 2 s (layerPath n) = .ok s1 → Frame n s s1 := by
    intro s1 h
    rcases mkdirAll_pair root s layersName n hd with ⟨e, he⟩ | ⟨he, _⟩ | he
    · rw [show layerPath n = [layersName, n] from rfl, he] at h; cases h
    · rw [show layerPath n = [layersName, n] from rfl, he] at h; cases h; exact frame_refl _ _
    · rw [show layerPath n = [layersName, n] from rfl, he] at h; cases h
      exact frame_fset_own s _ (own_layer n)
  cases hm : mkdirAll root 2 s (layerPath n) with
  | error e => exact frame_refl _ _
  | ok s1 =>
    simp only
    have hf1 := hmk s1 hm
    have hd1 := layersDir_of_frame hf1 hd
    cases hcf : createFails api bp with
    | true => exact hf1
    | false =>
    simp only [Bool.false_eq_true, if_false]
    have hwr : ∀ s2, writeFile root s1 (tomlPath n) (freshToml api) = .ok s2 → Frame n s1 s2 := by
      intro s2 h
      rcases writeFile_pair root s1 layersName (tomlName n) (freshToml api) hd1 with ⟨e, he⟩ | ⟨m, he⟩
      · rw [show tomlPath n = [layersName, tomlName n] from rfl, he] at h; cases h
      · rw [show tomlPath n = [layersName, tomlName n] from rfl, he] at h; cases h
        exact frame_fset_own s1 _ (own_toml n)
    cases hw : writeFile root s1 (tomlPath n) (freshToml api) with
    | error e => exact hf1
    | ok s2 =>
      simp only
      have hf2 := frame_trans hf1 (hwr s2 hw)
      have hd2 := layersDir_of_frame hf2 hd
      by_cases ha : api = .handle
      · simp only [ha, if_true]
        by_cases hi : isDirB root s2 (layerPath n) = true
        · simp only [hi, if_true]
          have hf3 := unlinkSboms_frame root s2 n hd2
          generalize unlinkAll root s2 (sbomPaths n) = r at hf3
          obtain ⟨res, s3⟩ := r
          cases res with
          | error e => exact frame_trans hf2 hf3
          | ok u => exact frame_trans hf2 hf3
        · simp only [hi]; exact hf2
      · simp only [ha, if_false]; exact hf2

theorem tag_snd (b : Bool) (r : CreateRes) : (tag b r).2 = r.2 := by
  obtain ⟨res, s⟩ := r
  cases res with
  | ok u => rfl
  | error e => obtain ⟨st, e⟩ := e; rfl

theorem request_frame_lemma (root : Bool) (api : Api) (bp : Bp) (t : FS) (n : Name) (hd : isDirAt t [layersName] = true) :
    Frame n t (request root api bp t n).2 := by
  unfold request
  simp only
  split
  · rw [tag_snd]; exact createLayer_frame root api bp t n hd
  · split
    · -- only the metadata file exists: it is removed, then the layer is created
      cases unlink_canon root t (tomlPath n) (by simp [tomlPath]) (canon_pair t _ _ hd) with
      | failed e h _ => rw [h]; exact frame_refl _ _
      | erased h _ =>
        rw [h]
        simp only
        have hf1 : Frame n t (ferase t (tomlPath n)) := frame_ferase_own t (own_toml n)
        rw [tag_snd]
        exact frame_trans hf1 (createLayer_frame root api bp _ n (layersDir_of_frame hf1 hd))
    · -- the layer exists
      have hw : ∀ s1, (if existsB root t (tomlPath n) then Except.ok t else writeFile root t (tomlPath n) emptyToml)
          = .ok s1 → Frame n t s1 ∧ fget s1 (layerPath n) = fget t (layerPath n) := by
        intro s1 h
        split at h
        · cases h; exact ⟨frame_refl _ _, rfl⟩
        · rcases writeFile_pair root t layersName (tomlName n) emptyToml hd with ⟨e, he⟩ | ⟨m, he⟩
          · rw [show tomlPath n = [layersName, tomlName n] from rfl, he] at h; cases h
          · rw [show tomlPath n = [layersName, tomlName n] from rfl, he] at h; cases h
            exact ⟨frame_fset_own t _ (own_toml n),
              fget_fset_ne t (tomlPath n) (layerPath n) _ (Ne.symm (tomlPath_ne_layerPath n))⟩
      cases hx : (if existsB root t (tomlPath n) then Except.ok t else writeFile root t (tomlPath n) emptyToml) with
      | error e => exact frame_refl _ _
      | ok s1 =>
        simp only
        have hf1 := (hw s1 hx).1
        have hd1 := layersDir_of_frame hf1 hd
        cases readFile root s1 (tomlPath n) with
        | error e => exact hf1
        | ok content =>
          simp only
          split
          · exact hf1
          · split
            · exact hf1
            · have hf2 := frame_trans hf1 (deleteLayer_frame root s1 n hd1)
              generalize deleteLayer root s1 n = r at hf2
              obtain ⟨res, s2⟩ := r
              cases res with
              | error e => exact hf2
              | ok u =>
                simp only
                rw [tag_snd]
                exact frame_trans hf2 (createLayer_frame root api bp s2 n (layersDir_of_frame hf2 hd))

end CnbVerif.RmTree
