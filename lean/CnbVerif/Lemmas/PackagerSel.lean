import CnbVerif.Lemmas.Packager
/-!
C15 helper lemmas for the selection clause: what `execute` selects, packages and prints is a function of the workspace
and the invocation directory alone (`selectionOf`); the package directory only decides *where* the output directories
are. Also: whether a run succeeds, and with which error it fails, does not depend on `Config` at all.
-/
namespace CnbVerif.Packager
open CnbVerif.Chars CnbVerif.PkgDescriptor CnbVerif.DepGraph

/-! ### `plan` computes `selectionOf` -/

theorem plan_selection {ws : Workspace} {inv : Str} {cfg : Config} {pl : Plan} (hp : plan ws inv cfg = .ok pl) :
    selectionOf ws inv = .ok ⟨pl.roots, pl.steps.map (·.id)⟩ := by
  obtain ⟨nodes, g, order, hn, hg, ho, hne, hl, hroots⟩ := plan_ok hp
  obtain ⟨_, hids, _, _⟩ := planLoop_ok _ _ hl
  unfold selectionOf
  simp only [hn, hg, ho]
  have he : order.isEmpty = false := by
    cases order with
    | nil => exact absurd rfl hne
    | cons _ _ => rfl
  simp only [he, Bool.false_eq_true, if_false]
  rw [hroots, hids]

/-! ### sorting pairs by their first component -/

theorem insertBy_map_pair (f : String → Str) (x : String) : ∀ l : List String,
    insertBy (fun (a b : String × Str) => decide (a.1 < b.1)) (x, f x) (l.map (fun id => (id, f id))) =
      (insertBy (fun (a b : String) => decide (a < b)) x l).map (fun id => (id, f id))
  | [] => rfl
  | y :: ys => by
    simp only [List.map_cons, insertBy]
    by_cases h : x < y
    · simp [h]
    · simp only [h, decide_false, Bool.false_eq_true, if_false, List.map_cons]
      rw [insertBy_map_pair f x ys]

theorem sortDirs_map_pair (f : String → Str) : ∀ l : List String,
    sortDirs (l.map (fun id => (id, f id))) = (sortBy (fun (a b : String) => decide (a < b)) l).map (fun id => (id, f id))
  | [] => rfl
  | x :: xs => by
    have h1 : sortDirs ((x :: xs).map (fun id => (id, f id))) =
        insertBy (fun (a b : String × Str) => decide (a.1 < b.1)) (x, f x) (sortDirs (xs.map (fun id => (id, f id)))) := rfl
    have h2 : sortBy (fun (a b : String) => decide (a < b)) (x :: xs) =
        insertBy (fun (a b : String) => decide (a < b)) x (sortBy (fun (a b : String) => decide (a < b)) xs) := rfl
    rw [h1, h2, sortDirs_map_pair f xs, insertBy_map_pair]

theorem filter_map_pair (f : String → Str) (roots : List String) : ∀ l : List String,
    ((l.map (fun id => (id, f id))).filter (fun e => roots.contains e.1)).map (·.2) =
      (l.filter (fun id => roots.contains id)).map f
  | [] => rfl
  | x :: xs => by
    by_cases h : roots.contains x = true
    · simp only [List.map_cons, List.filter_cons, h, if_true]
      rw [filter_map_pair f roots xs]
    · simp only [List.map_cons, List.filter_cons, h, Bool.false_eq_true, if_false]
      rw [filter_map_pair f roots xs]

/-- the printed lines are the output directories of `printedIds`, in that order -/
theorem stdoutLines_printed (f : String → Str) (roots built : List String) :
    stdoutLines roots (built.map (fun id => (id, f id))) = (printedIds ⟨roots, built⟩).map f := by
  unfold stdoutLines printedIds
  rw [sortDirs_map_pair, filter_map_pair]

/-- a successful run: its selection is `selectionOf`, it packages `order` and prints the output directories of
`printedIds` -/
theorem package_selection {ws : Workspace} {inv : Str} {cfg : Config} {seed : FS} {res : Result}
    (h : package ws inv cfg seed = .ok res) :
    ∃ sel, selectionOf ws inv = .ok sel ∧ sel.roots = rootIds ws inv ∧ res.built = sel.order ∧
      res.stdout = (printedIds sel).map (destStr (packageDirAbs ws inv cfg) cfg) := by
  obtain ⟨pl, hp, rfl⟩ := package_ok h
  obtain ⟨nodes, g, order, _, _, _, _, hl, hroots⟩ := plan_ok hp
  obtain ⟨hdirs, hids, _, _⟩ := planLoop_ok _ _ hl
  refine ⟨⟨pl.roots, pl.steps.map (·.id)⟩, plan_selection hp, hroots, rfl, ?_⟩
  show stdoutLines pl.roots pl.dirs = _
  have hd : pl.dirs = (pl.steps.map (·.id)).map (fun id => (id, destStr (packageDirAbs ws inv cfg) cfg id)) := by
    rw [hdirs, hids]; simp
  rw [hd, stdoutLines_printed]

/-! ### the outcome does not depend on `Config` -/

/-- both succeed, or both fail with the same error -/
def SameOutcome {ε α β : Type} (a : Except ε α) (b : Except ε β) : Prop :=
  match a, b with
  | .ok _, .ok _ => True
  | .error e₁, .error e₂ => e₁ = e₂
  | _, _ => False

theorem pathsOf_isSome {d₁ d₂ : List (String × Str)} (h : d₁.map (·.1) = d₂.map (·.1)) (id : Str) :
    (pathsOf d₁ id).isSome = (pathsOf d₂ id).isSome := by
  unfold pathsOf
  induction d₁ generalizing d₂ with
  | nil =>
    cases d₂ with
    | nil => rfl
    | cons _ _ => simp at h
  | cons e₁ r₁ ih =>
    cases d₂ with
    | nil => simp at h
    | cons e₂ r₂ =>
      simp only [List.map_cons, List.cons.injEq] at h
      have ih' := ih h.2
      simp only [List.find?_cons]
      rw [← h.1]
      cases hc : (e₁.1.toList == id) with
      | true => simp
      | false => simpa using ih'

theorem replaceLibcnbUri_same {p₁ p₂ : Str → Option Str} (h : ∀ id, (p₁ id).isSome = (p₂ id).isSome) (dep : Str) :
    SameOutcome (replaceLibcnbUri p₁ dep) (replaceLibcnbUri p₂ dep) := by
  unfold replaceLibcnbUri
  cases hs : splitScheme dep with
  | none => simp [SameOutcome]
  | some sr =>
    obtain ⟨sch, rest⟩ := sr
    simp only
    by_cases h1 : sch = libcnbScheme
    · simp only [h1, if_true]
      by_cases h2 : validId rest = true
      · simp only [h2, if_true]
        have := h rest
        cases hp1 : p₁ rest with
        | none =>
          cases hp2 : p₂ rest with
          | none => simp [SameOutcome]
          | some _ => rw [hp1, hp2] at this; simp at this
        | some _ =>
          cases hp2 : p₂ rest with
          | none => rw [hp1, hp2] at this; simp at this
          | some _ => simp [SameOutcome]
      · simp [h2, SameOutcome]
    · simp [h1, SameOutcome]

theorem mapExcept_same {α β γ ε : Type} {f₁ : α → Except ε β} {f₂ : α → Except ε γ}
    (h : ∀ a, SameOutcome (f₁ a) (f₂ a)) : ∀ l : List α, SameOutcome (mapExcept f₁ l) (mapExcept f₂ l)
  | [] => by simp [mapExcept, SameOutcome]
  | a :: as => by
    have ha := h a
    have ih := mapExcept_same h as
    unfold mapExcept
    cases h1 : f₁ a with
    | error e₁ =>
      cases h2 : f₂ a with
      | error e₂ => rw [h1, h2] at ha; simpa [SameOutcome] using ha
      | ok _ => rw [h1, h2] at ha; simp [SameOutcome] at ha
    | ok b₁ =>
      cases h2 : f₂ a with
      | error e₂ => rw [h1, h2] at ha; simp [SameOutcome] at ha
      | ok b₂ =>
        simp only
        cases h3 : mapExcept f₁ as with
        | error e₁ =>
          cases h4 : mapExcept f₂ as with
          | error e₂ => rw [h3, h4] at ih; simpa [SameOutcome] using ih
          | ok _ => rw [h3, h4] at ih; simp [SameOutcome] at ih
        | ok _ =>
          cases h4 : mapExcept f₂ as with
          | error e₂ => rw [h3, h4] at ih; simp [SameOutcome] at ih
          | ok _ => simp [SameOutcome]

theorem packageDescriptor_same {p₁ p₂ : Str → Option Str} (h : ∀ id, (p₁ id).isSome = (p₂ id).isSome)
    (parent : Str) (d : Descriptor) :
    SameOutcome (packageDescriptor p₁ parent d) (packageDescriptor p₂ parent d) := by
  have hm := mapExcept_same (replaceLibcnbUri_same h) (readDescriptor d).deps
  unfold packageDescriptor normalizeDescriptor replaceLibcnbUris
  cases h1 : mapExcept (replaceLibcnbUri p₁) (readDescriptor d).deps with
  | error e₁ =>
    cases h2 : mapExcept (replaceLibcnbUri p₂) (readDescriptor d).deps with
    | error e₂ => rw [h1, h2] at hm; simpa [SameOutcome] using hm
    | ok _ => rw [h1, h2] at hm; simp [SameOutcome] at hm
  | ok _ =>
    cases h2 : mapExcept (replaceLibcnbUri p₂) (readDescriptor d).deps with
    | error e₂ => rw [h1, h2] at hm; simp [SameOutcome] at hm
    | ok _ => simp [SameOutcome]

theorem planStep_same (ws : Workspace) (cfg₁ cfg₂ : Config) {d₁ d₂ : List (String × Str)}
    (h : d₁.map (·.1) = d₂.map (·.1)) (bp : Buildpack) :
    SameOutcome (planStep ws cfg₁ d₁ bp) (planStep ws cfg₂ d₂ bp) := by
  unfold planStep itemsFor
  cases hk : bp.kind with
  | foreign => simp [SameOutcome]
  | libcnb pkgName bins =>
    simp only
    cases hm : mainTarget pkgName bins with
    | error e => simp [SameOutcome]
    | ok m => simp [SameOutcome]
  | composite pkg =>
    simp only
    have hp := packageDescriptor_same (pathsOf_isSome h) (absDir ws.root bp.dir) pkg
    cases h1 : packageDescriptor (pathsOf d₁) (absDir ws.root bp.dir) pkg with
    | error e₁ =>
      cases h2 : packageDescriptor (pathsOf d₂) (absDir ws.root bp.dir) pkg with
      | error e₂ => rw [h1, h2] at hp; simp only [SameOutcome] at hp; simp [SameOutcome, hp]
      | ok _ => rw [h1, h2] at hp; simp [SameOutcome] at hp
    | ok _ =>
      cases h2 : packageDescriptor (pathsOf d₂) (absDir ws.root bp.dir) pkg with
      | error e₂ => rw [h1, h2] at hp; simp [SameOutcome] at hp
      | ok _ => simp [SameOutcome]

theorem planLoop_same (ws : Workspace) (cfg₁ cfg₂ : Config) (pk₁ pk₂ : Str) :
    ∀ (bps : List Buildpack) (d₁ d₂ : List (String × Str)), d₁.map (·.1) = d₂.map (·.1) →
      SameOutcome (planLoop ws cfg₁ pk₁ bps d₁) (planLoop ws cfg₂ pk₂ bps d₂)
  | [], _, _, _ => by simp [planLoop, SameOutcome]
  | bp :: rest, d₁, d₂, h => by
    have hs := planStep_same ws cfg₁ cfg₂ h bp
    have hd : (d₁ ++ [(bp.id, destStr pk₁ cfg₁ bp.id)]).map (·.1) = (d₂ ++ [(bp.id, destStr pk₂ cfg₂ bp.id)]).map (·.1) := by
      simp [h]
    have ih := planLoop_same ws cfg₁ cfg₂ pk₁ pk₂ rest _ _ hd
    unfold planLoop
    cases h1 : planStep ws cfg₁ d₁ bp with
    | error e₁ =>
      cases h2 : planStep ws cfg₂ d₂ bp with
      | error e₂ => rw [h1, h2] at hs; simpa [SameOutcome] using hs
      | ok _ => rw [h1, h2] at hs; simp [SameOutcome] at hs
    | ok s₁ =>
      cases h2 : planStep ws cfg₂ d₂ bp with
      | error e₂ => rw [h1, h2] at hs; simp [SameOutcome] at hs
      | ok s₂ =>
        simp only
        cases h3 : planLoop ws cfg₁ pk₁ rest (d₁ ++ [(bp.id, destStr pk₁ cfg₁ bp.id)]) with
        | error e₁ =>
          cases h4 : planLoop ws cfg₂ pk₂ rest (d₂ ++ [(bp.id, destStr pk₂ cfg₂ bp.id)]) with
          | error e₂ => rw [h3, h4] at ih; simpa [SameOutcome] using ih
          | ok _ => rw [h3, h4] at ih; simp [SameOutcome] at ih
        | ok r₁ =>
          cases h4 : planLoop ws cfg₂ pk₂ rest (d₂ ++ [(bp.id, destStr pk₂ cfg₂ bp.id)]) with
          | error e₂ => rw [h3, h4] at ih; simp [SameOutcome] at ih
          | ok r₂ => simp [SameOutcome]

theorem plan_same (ws : Workspace) (inv : Str) (cfg₁ cfg₂ : Config) :
    SameOutcome (plan ws inv cfg₁) (plan ws inv cfg₂) := by
  unfold plan
  simp only
  cases hn : toNodes (nodesOf ws) with
  | error e => simp [SameOutcome]
  | ok nodes =>
    simp only
    cases hg : createGraph nodes with
    | error e => simp [SameOutcome]
    | ok g =>
      simp only
      cases ho : getDependencies g (rootIds ws inv) with
      | error e => simp [SameOutcome]
      | ok order =>
        simp only
        by_cases he : order.isEmpty = true
        · simp [he, SameOutcome]
        · simp only [he, Bool.false_eq_true, if_false]
          have hl := planLoop_same ws cfg₁ cfg₂ (packageDirAbs ws inv cfg₁) (packageDirAbs ws inv cfg₂)
            (order.filterMap (fun i => (nodesOf ws)[i]?)) [] [] rfl
          cases h1 : planLoop ws cfg₁ (packageDirAbs ws inv cfg₁) (order.filterMap (fun i => (nodesOf ws)[i]?)) [] with
          | error e₁ =>
            cases h2 : planLoop ws cfg₂ (packageDirAbs ws inv cfg₂) (order.filterMap (fun i => (nodesOf ws)[i]?)) [] with
            | error e₂ => rw [h1, h2] at hl; simpa [SameOutcome] using hl
            | ok _ => rw [h1, h2] at hl; simp [SameOutcome] at hl
          | ok r₁ =>
            cases h2 : planLoop ws cfg₂ (packageDirAbs ws inv cfg₂) (order.filterMap (fun i => (nodesOf ws)[i]?)) [] with
            | error e₂ => rw [h1, h2] at hl; simp [SameOutcome] at hl
            | ok r₂ => simp [SameOutcome]

theorem package_same (ws : Workspace) (inv : Str) (cfg₁ cfg₂ : Config) (seed₁ seed₂ : FS) :
    SameOutcome (package ws inv cfg₁ seed₁) (package ws inv cfg₂ seed₂) := by
  have hp := plan_same ws inv cfg₁ cfg₂
  rw [package_seed_shape, package_seed_shape]
  cases h1 : plan ws inv cfg₁ with
  | error e₁ =>
    cases h2 : plan ws inv cfg₂ with
    | error e₂ => rw [h1, h2] at hp; simpa [SameOutcome] using hp
    | ok _ => rw [h1, h2] at hp; simp [SameOutcome] at hp
  | ok _ =>
    cases h2 : plan ws inv cfg₂ with
    | error e₂ => rw [h1, h2] at hp; simp [SameOutcome] at hp
    | ok _ => simp [SameOutcome]

end CnbVerif.Packager
