import CnbVerif.Lemmas.EnvDir
namespace CnbVerif

structure LayerOk (layer : Dir) : Prop where
  env : EnvOk layer nEnv
  build : EnvOk layer nEnvBuild
  launch : EnvOk layer nEnvLaunch

/-- process types: pairwise distinct names, none equal to a file name of the launch delta -/
structure ProcOk (le : LayerEnv) : Prop where
  nodup : (le.process.map (·.1)).Nodup
  free : ∀ pd ∈ le.process, Dir.get (le.launch.map Entry.fileOf) pd.1 = none

theorem deltaNode_eq_launchNode (d : Delta) : deltaNode d = launchNode (d.map Entry.fileOf) := by
  unfold deltaNode launchNode
  cases d <;> rfl

theorem envOk_of_get_eq {l l' : Dir} {n : Bytes} (h : l'.get n = l.get n) (hok : EnvOk l n) : EnvOk l' n := by
  unfold EnvOk at *; rw [h]; exact hok

theorem writeToLayerDir_spec (le : LayerEnv) (layer : Dir) (hl : LayerOk layer) (hp : ProcOk le) :
    ∃ l', writeToLayerDir le layer = some l' ∧
      l'.get nEnv = deltaNode le.all ∧ l'.get nEnvBuild = deltaNode le.build ∧
      l'.get nEnvLaunch = launchNode (procDirs le.process ++ le.launch.map Entry.fileOf) ∧
      ∀ other, other ≠ nEnv → other ≠ nEnvBuild → other ≠ nEnvLaunch → l'.get other = layer.get other := by
  obtain ⟨l1, h1, g1, f1⟩ := writeToEnvDir_spec layer nEnv le.all hl.env
  have ok1b : EnvOk l1 nEnvBuild := envOk_of_get_eq (f1 _ (Ne.symm nEnv_ne_build)) hl.build
  obtain ⟨l2, h2, g2, f2⟩ := writeToEnvDir_spec l1 nEnvBuild le.build ok1b
  have ok2l : EnvOk l2 nEnvLaunch := by
    apply envOk_of_get_eq (l := layer)
    · rw [f2 _ (Ne.symm nEnvBuild_ne_launch), f1 _ (Ne.symm nEnv_ne_launch)]
    · exact hl.launch
  obtain ⟨l3, h3, g3, f3⟩ := writeToEnvDir_spec l2 nEnvLaunch le.launch ok2l
  rw [deltaNode_eq_launchNode] at g3
  obtain ⟨l4, h4, g4, f4⟩ := writeProcesses_spec le.process l3 _ g3 hp.free hp.nodup
  refine ⟨l4, ?_, ?_, ?_, g4, ?_⟩
  · simp [writeToLayerDir, h1, h2, h3, h4]
  · rw [f4 _ nEnv_ne_launch, f3 _ nEnv_ne_launch, f2 _ nEnv_ne_build, g1]
  · rw [f4 _ nEnvBuild_ne_launch, f3 _ nEnvBuild_ne_launch, g2]
  · intro o h1' h2' h3'
    rw [f4 _ h3', f3 _ h3', f2 _ h2', f1 _ h1']

/-! ### reading -/
theorem splitLastDot_nodot (l : Bytes) (h : ∀ c ∈ l, c ≠ 46) : splitLastDot l = none := by
  induction l with
  | nil => rfl
  | cons c t ih =>
    have hc : c ≠ 46 := h c (by simp)
    simp [splitLastDot, ih (fun x hx => h x (by simp [hx])), hc]

theorem splitLastDot_append (n suf : Bytes) (h : ∀ c ∈ suf, c ≠ 46) :
    splitLastDot (n ++ 46 :: suf) = some (n, suf) := by
  induction n with
  | nil => simp [splitLastDot, splitLastDot_nodot suf h]
  | cons c t ih => simp [splitLastDot, ih]

/-- obligation on the generated tables: every writer suffix is `.` + a dot-free extension the reader maps back -/
theorem suffix_tables_agree (b : Beh) :
    ∃ ext, Gen.writeSuffix b = 46 :: ext ∧ ext ≠ [] ∧ (∀ c ∈ ext, c ≠ 46) ∧
      List.lookup ext Gen.readSuffixTable = some b := by
  cases b <;> exact ⟨_, rfl, by decide, by decide, by decide⟩

theorem classify_fileOf (b : Beh) (n : Bytes) (hn : n ≠ []) :
    classify (n ++ Gen.writeSuffix b) = some (b, n) := by
  obtain ⟨ext, hw, hne, hnd, hl⟩ := suffix_tables_agree b
  rw [hw]
  unfold classify stemExt
  have hlen : n ++ 46 :: ext ≠ [46, 46] := by
    intro e
    have := congrArg List.length e
    cases n with
    | nil => exact hn rfl
    | cons a t =>
      cases ext with
      | nil => exact hne rfl
      | cons x y => simp at this; omega
  simp only [hlen, if_false, splitLastDot_append n ext hnd, hn]
  simp [hl]

def insEntry (acc : Delta) (e : Entry) : Delta := acc.insert e.beh e.name e.val

theorem readFromEnvDir_files (d : Delta) (acc : Delta) (hn : ∀ e ∈ d, e.name ≠ []) :
    readFromEnvDir (d.map Entry.fileOf) acc = some (d.foldl insEntry acc) := by
  induction d generalizing acc with
  | nil => rfl
  | cons e t ih =>
    simp only [List.map_cons, Entry.fileOf, readFromEnvDir, classify_fileOf e.beh e.name (hn e (by simp)),
      List.foldl_cons]
    exact ih _ (fun x hx => hn x (by simp [hx]))

theorem insert_last (l : Delta) (b : Beh) (n v : Bytes)
    (h : ∀ x ∈ l, bytesLt x.key (mkKey b n) = true) : l.insert b n v = l ++ [⟨b, n, v⟩] := by
  induction l with
  | nil => rfl
  | cons e t ih =>
    have he := h e (by simp)
    have hne : e.key ≠ mkKey b n := bytesLt_ne he
    have hnlt : bytesLt (mkKey b n) e.key = false := bytesLt_asymm he
    simp [Delta.insert, hne, hnlt, ih (fun x hx => h x (by simp [hx]))]

theorem foldl_insert_sorted (d pre : Delta) (hs : Sorted (pre ++ d)) : d.foldl insEntry pre = pre ++ d := by
  induction d generalizing pre with
  | nil => simp
  | cons e t ih =>
    simp only [List.foldl_cons, insEntry]
    have hlast : ∀ x ∈ pre, bytesLt x.key (mkKey e.beh e.name) = true := by
      intro x hx
      have := (List.pairwise_append.mp hs).2.2 x hx e (by simp)
      exact this
    rw [insert_last pre e.beh e.name e.val hlast]
    have he : ({ beh := e.beh, name := e.name, val := e.val } : Entry) = e := rfl
    rw [he]
    have : pre ++ [e] ++ t = pre ++ e :: t := by simp
    rw [ih (pre ++ [e]) (by rw [this]; exact hs), this]

/-- reading what `write_to_env_dir` wrote gives the delta back -/
theorem read_write_delta (d : Delta) (hs : Sorted d) (hn : ∀ e ∈ d, e.name ≠ []) :
    readFromEnvDir (d.map Entry.fileOf) [] = some d := by
  rw [readFromEnvDir_files d [] hn, foldl_insert_sorted d [] (by simpa using hs)]
  simp

theorem readFromEnvDir_skip (dirs rest : Dir) (acc : Delta)
    (h : ∀ kv ∈ dirs, ∃ es, kv.2 = Node.dir es) : readFromEnvDir (dirs ++ rest) acc = readFromEnvDir rest acc := by
  induction dirs with
  | nil => rfl
  | cons kv t ih =>
    obtain ⟨k, x⟩ := kv
    obtain ⟨es, hx⟩ := h (k, x) (by simp)
    simp only at hx
    subst hx
    simp only [List.cons_append, readFromEnvDir]
    exact ih (fun y hy => h y (by simp [hy]))

theorem readProcesses_files (d : Delta) (acc : List (Bytes × Delta)) :
    readProcesses (d.map Entry.fileOf) acc = some acc := by
  induction d with
  | nil => rfl
  | cons e t ih => simp only [List.map_cons, Entry.fileOf, readProcesses]; exact ih

end CnbVerif
