import CnbVerif.Lemmas.CleanupRecog
/-! From the shape of the model's log (`Pieces`, then the dropped resources) to the cleanup conditions of
`Spec/Cleanup` evaluated on the argv of that log. -/
set_option linter.unusedSimpArgs false
namespace CnbVerif.TestRunner
open CnbVerif CnbVerif.Argv CnbVerif.ArgvLemmas CnbVerif.Spec.Pflag CnbVerif.Spec.Cleanup

def specLog (l : List ACmd) : List Cmd := l.map ACmd.toCmd

theorem genName_head {n : Word} (h : GenName n) : n.head? ≠ some 45 := by
  obtain ⟨k, e⟩ := h; subst e; simp [nameWord]

/-! what the grammar sees in each class of command -/

theorem neutral_recog {img : Word} (himg : img.head? ≠ some 45) {a : ACmd} (h : Neutral img a) :
    startsDetached a.toCmd = none ∧ containerRemoval a.toCmd = none ∧ imageRemoval a.toCmd = none
      ∧ volumeRemoval a.toCmd = none := by
  cases a with
  | run c =>
    obtain ⟨hd, hi⟩ := h
    refine ⟨?_, containerRemoval_other _ (by intro n; simp), imageRemoval_other _ (by intro n; simp),
      volumeRemoval_other _ (by intro n; simp)⟩
    simp [startsDetached, runName_run c (by rw [hi]; exact himg), hd]
  | packBuild c =>
    exact ⟨by simp [startsDetached, runName_other (.packBuild c) (by intro c; simp)],
      containerRemoval_other _ (by intro n; simp), imageRemoval_other _ (by intro n; simp),
      volumeRemoval_other _ (by intro n; simp)⟩
  | sbom i d =>
    exact ⟨by simp [startsDetached, runName_other (.sbom i d) (by intro c; simp)],
      containerRemoval_other _ (by intro n; simp), imageRemoval_other _ (by intro n; simp),
      volumeRemoval_other _ (by intro n; simp)⟩
  | _ => exact absurd h (by simp [Neutral])

theorem inner_recog {ctr : Word} {a : ACmd} (h : IsInner ctr a) :
    runName a.toCmd = none ∧ containerRemoval a.toCmd = none ∧ imageRemoval a.toCmd = none
      ∧ volumeRemoval a.toCmd = none := by
  cases a with
  | logs c f => exact ⟨runName_other _ (by intro c; simp), containerRemoval_other _ (by intro n; simp),
      imageRemoval_other _ (by intro n; simp), volumeRemoval_other _ (by intro n; simp)⟩
  | port c p => exact ⟨runName_other _ (by intro c; simp), containerRemoval_other _ (by intro n; simp),
      imageRemoval_other _ (by intro n; simp), volumeRemoval_other _ (by intro n; simp)⟩
  | exec c x => exact ⟨runName_other _ (by intro c; simp), containerRemoval_other _ (by intro n; simp),
      imageRemoval_other _ (by intro n; simp), volumeRemoval_other _ (by intro n; simp)⟩
  | _ => exact absurd h (by simp [IsInner])

theorem rm_recog {n : Word} (h : GenName n) :
    runName (ACmd.rm n).toCmd = none ∧ containerRemoval (ACmd.rm n).toCmd = some ⟨[n], true, []⟩
      ∧ imageRemoval (ACmd.rm n).toCmd = none ∧ volumeRemoval (ACmd.rm n).toCmd = none :=
  ⟨runName_other _ (by intro c; simp), containerRemoval_rm n (genName_head h),
    imageRemoval_other _ (by intro n; simp), volumeRemoval_other _ (by intro n; simp)⟩

/-! ### M1 -/

theorem m1_cons_none (c : Cmd) (rest : List Cmd) (h : startsDetached c = none) : m1 (c :: rest) = m1 rest := by
  simp [m1, h]

theorem m1_inner_prefix {ctr : Word} (mid : List ACmd) (hm : ∀ a ∈ mid, IsInner ctr a) (Z : List Cmd) :
    m1 (specLog mid ++ Z) = m1 Z := by
  induction mid with
  | nil => rfl
  | cons a r ih =>
    have h := (inner_recog (hm a (by simp))).1
    simp only [specLog, List.map_cons, List.cons_append]
    rw [m1_cons_none _ _ (by simp [startsDetached, h])]
    exact ih (fun x hx => hm x (by simp [hx]))

theorem m1_pieces {img : Word} (himg : img.head? ≠ some 45) {body : List ACmd} (hp : Pieces img body)
    (Y : List Cmd) (hY : m1 Y = true) : m1 (specLog body ++ Y) = true := by
  induction hp with
  | nil => simpa [specLog] using hY
  | neutral a rest ha _ ih =>
    simp only [specLog, List.map_cons, List.cons_append]
    rw [m1_cons_none _ _ (neutral_recog himg ha).1]
    exact ih
  | container c mid rest hd hi hn hmid _ ih =>
    have hrun : startsDetached (ACmd.run c).toCmd = some c.containerName := by
      simp [startsDetached, runName_run c (by rw [hi]; exact himg), hd]
    have hrm := rm_recog hn
    simp only [specLog, List.map_cons, List.cons_append, List.map_append, List.append_assoc]
    simp only [m1, hrun]
    have hany : (List.map ACmd.toCmd mid ++ ((ACmd.rm c.containerName).toCmd :: (List.map ACmd.toCmd rest ++ Y))).any
        (forceRemovesContainer c.containerName) = true := by
      rw [List.any_append, List.any_cons]
      simp [forceRemovesContainer, hrm.2.1]
    rw [hany, Bool.true_and]
    have := m1_inner_prefix mid hmid ((ACmd.rm c.containerName).toCmd :: (specLog rest ++ Y))
    simp only [specLog] at this
    rw [this, m1_cons_none _ _ (by simp [startsDetached, hrm.1])]
    exact ih

/-! ### M2 -/

theorem pieces_noIV {img : Word} (himg : img.head? ≠ some 45) {body : List ACmd} (hp : Pieces img body) :
    ∀ a ∈ body, removesImageOrVolume a.toCmd = false := by
  induction hp with
  | nil => intro a h; simp at h
  | neutral x rest hx _ ih =>
    intro a h
    rcases List.mem_cons.mp h with e | e
    · subst e; have := neutral_recog himg hx; simp [removesImageOrVolume, this.2.2.1, this.2.2.2]
    · exact ih a e
  | container c mid rest hd hi hn hmid _ ih =>
    intro a h
    simp only [List.mem_cons, List.mem_append] at h
    rcases h with e | e | e | e
    · subst e
      simp [removesImageOrVolume, imageRemoval_other (.run c) (by intro n; simp), volumeRemoval_other (.run c) (by intro n; simp)]
    · have := inner_recog (hmid a e); simp [removesImageOrVolume, this.2.2.1, this.2.2.2]
    · subst e; have := rm_recog hn; simp [removesImageOrVolume, this.2.2.1, this.2.2.2]
    · exact ih a e

theorem m2_skip (img : Word) (body : List ACmd) (h : ∀ a ∈ body, removesImageOrVolume a.toCmd = false) (Z : List Cmd) :
    m2 img (specLog body ++ Z) = m2 img Z := by
  induction body with
  | nil => rfl
  | cons a r ih =>
    simp only [specLog, List.map_cons, List.cons_append, m2, h a (by simp), Bool.false_eq_true, if_false]
    exact ih (fun x hx => h x (by simp [hx]))

theorem m2_tail (img : Word) (himg : img.head? ≠ some 45) : m2 img (specLog (tailOf (resourcesFor img))) = true := by
  have hv : ∀ v ∈ [img ++ w!".build-cache", img ++ w!".launch-cache"], v.head? ≠ some 45 := by
    intro v hv
    simp at hv
    rcases hv with e | e <;> subst e <;> cases img <;> simp_all
  have h1 := imageRemoval_rmi img himg
  have h2 := volumeRemoval_volRm [img ++ w!".build-cache", img ++ w!".launch-cache"] (by simp) hv
  simp [specLog, tailOf, resourcesFor, m2, removesImageOrVolume, isForcedRmi, isForcedVolRm, h1, h2, volumesOf]

/-! ### M3 -/

/-- names the model's run generated: `[1000, k]`, and the two volume names derived from it -/
def ownModel (w : Word) : Bool :=
  match w with
  | 1000 :: _ :: sfx => sfx == [] || sfx == w!".build-cache" || sfx == w!".launch-cache"
  | _ => false

theorem ownModel_gen {n : Word} (h : GenName n) : ownModel n = true := by
  obtain ⟨k, e⟩ := h; subst e; simp [ownModel, nameWord]

theorem m3_cons_none (own : Word → Bool) (started : List Word) (c : Cmd) (rest : List Cmd)
    (h1 : containerRemoval c = none) (h2 : imageRemoval c = none) (h3 : volumeRemoval c = none)
    (hr : runName c = none) : m3 own started (c :: rest) = m3 own started rest := by
  rw [m3]
  simp only [h1, h2, h3, hr, Bool.true_and]

theorem m3_cons_some (own : Word → Bool) (started : List Word) (c : Cmd) (rest : List Cmd)
    (h1 : containerRemoval c = none) (h2 : imageRemoval c = none) (h3 : volumeRemoval c = none)
    (n : Word) (d : Bool) (hr : runName c = some (n, d)) : m3 own started (c :: rest) = m3 own (n :: started) rest := by
  rw [m3]
  simp only [h1, h2, h3, hr, Bool.true_and]

theorem m3_inner_prefix {ctr : Word} (own : Word → Bool) (mid : List ACmd) (hm : ∀ a ∈ mid, IsInner ctr a)
    (started : List Word) (Z : List Cmd) : m3 own started (specLog mid ++ Z) = m3 own started Z := by
  induction mid with
  | nil => rfl
  | cons a r ih =>
    have h := inner_recog (hm a (by simp))
    simp only [specLog, List.map_cons, List.cons_append]
    rw [m3_cons_none own started _ _ h.2.1 h.2.2.1 h.2.2.2 h.1]
    exact ih (fun x hx => hm x (by simp [hx]))

theorem m3_pieces {img : Word} (himg : img.head? ≠ some 45) {body : List ACmd} (hp : Pieces img body)
    (Y : List Cmd) (hY : ∀ st, m3 ownModel st Y = true) : ∀ st, m3 ownModel st (specLog body ++ Y) = true := by
  induction hp with
  | nil => simpa [specLog] using hY
  | neutral a rest ha _ ih =>
    intro st
    have h := neutral_recog himg ha
    simp only [specLog, List.map_cons, List.cons_append]
    cases hr : runName a.toCmd with
    | none => rw [m3_cons_none ownModel st _ _ h.2.1 h.2.2.1 h.2.2.2 hr]; exact ih _
    | some nd => rw [m3_cons_some ownModel st _ _ h.2.1 h.2.2.1 h.2.2.2 nd.1 nd.2 hr]; exact ih _
  | container c mid rest hd hi hn hmid _ ih =>
    intro st
    have hrun := runName_run c (by rw [hi]; exact himg)
    have hrm := rm_recog hn
    simp only [specLog, List.map_cons, List.cons_append, List.map_append, List.append_assoc]
    rw [m3_cons_some ownModel st _ _ (containerRemoval_other _ (by intro n; simp)) (imageRemoval_other _ (by intro n; simp))
      (volumeRemoval_other _ (by intro n; simp)) _ _ hrun]
    have := m3_inner_prefix ownModel mid hmid (c.containerName :: st) ((ACmd.rm c.containerName).toCmd :: (specLog rest ++ Y))
    simp only [specLog] at this
    rw [this]
    simp only [m3, hrm.1, hrm.2.1, hrm.2.2.1, hrm.2.2.2, List.all_cons, List.all_nil, Bool.and_true]
    have : (c.containerName :: st).contains c.containerName = true := by simp
    rw [this, ownModel_gen hn]
    have := ih (c.containerName :: st)
    simpa [specLog] using this

theorem m3_tail (img : Word) (hgen : GenName img) : ∀ st, m3 ownModel st (specLog (tailOf (resourcesFor img))) = true := by
  intro st
  obtain ⟨k, e⟩ := hgen
  subst e
  have himg : (nameWord k).head? ≠ some 45 := by simp [nameWord]
  have hv : ∀ v ∈ [nameWord k ++ w!".build-cache", nameWord k ++ w!".launch-cache"], v.head? ≠ some 45 := by
    intro v hv; simp at hv; rcases hv with e | e <;> subst e <;> simp [nameWord]
  have h1 := imageRemoval_rmi (nameWord k) himg
  have h2 := volumeRemoval_volRm [nameWord k ++ w!".build-cache", nameWord k ++ w!".launch-cache"] (by simp) hv
  have o1 : ownModel (nameWord k) = true := by simp [ownModel, nameWord]
  have o2 : ownModel (nameWord k ++ w!".build-cache") = true := by simp [ownModel, nameWord]
  have o3 : ownModel (nameWord k ++ w!".launch-cache") = true := by simp [ownModel, nameWord]
  simp only [specLog, tailOf, resourcesFor, List.map_cons, List.map_nil]
  rw [m3, h1, containerRemoval_other _ (by intro n; simp), volumeRemoval_other _ (by intro n; simp),
    runName_other _ (by intro c; simp)]
  rw [m3, h2, containerRemoval_other _ (by intro n; simp), imageRemoval_other _ (by intro n; simp)]
  simp [m3, o1, o2, o3]

end CnbVerif.TestRunner
