import CnbVerif.Lemmas.PkgDescriptorCore
/-!
C14 helper lemmas, part 4: the uriparse round trip (`roundTrip`) leaves a URI text alone unless it belongs to the class
of known finding C14-authority-empty-path: an authority followed by an empty path, or a registered scheme spelled with
an upper-case letter.
-/
namespace CnbVerif.PkgDescriptor
open CnbVerif.Chars CnbVerif.Spec.PathDenote

/-- the uriparse round trip changes the text: authority followed by an empty path, or a scheme that uriparse has in its
registry and that is spelled with an upper-case letter -/
def RoundTripChanges (s : Str) : Bool :=
  authorityEmptyPath s ||
    (schemeHasUpper s &&
      match schemeOf s with
      | some sch => uriparseRegistered.contains (sch.map Char.toLower)
      | none => false)

theorem toLower_of_not_upper (c : Char) (h : c.isUpper = false) : c.toLower = c := by
  unfold Char.toLower
  split
  · rename_i h1
    have : c.isUpper = true := by unfold Char.isUpper; exact decide_eq_true h1
    rw [h] at this; cases this
  · rfl

theorem lowerStr_of_no_upper {s : Str} (h : s.any Char.isUpper = false) : lowerStr s = s := by
  induction s with
  | nil => rfl
  | cons c cs ih =>
    simp only [List.any_cons, Bool.or_eq_false_iff] at h
    simp only [lowerStr, List.map_cons] at ih ⊢
    rw [toLower_of_not_upper c h.1, ih h.2]

theorem afterScheme_of_split {s sch rest : Str} (h : splitScheme s = some (sch, rest)) :
    schemeOf s = some sch ∧ afterScheme s = some rest := by
  have h1 : schemeOf s = some sch := by rw [schemeOf_eq, h]; rfl
  refine ⟨h1, ?_⟩
  unfold afterScheme
  rw [h1]
  have e := splitScheme_some h
  simp only [Option.map_some, Option.some.injEq]
  rw [e]
  have : sch ++ ':' :: rest = (sch ++ [':']) ++ rest := by simp
  rw [this, List.drop_left' (by simp)]

theorem authChar_eq : authChar = authorityChar := rfl

theorem fixAuthority_of_no_empty_path {rest : Str} (h : emptyPathAfterAuthority rest = false) :
    fixAuthority rest = rest := by
  unfold fixAuthority
  split
  · rename_i body
    simp only [emptyPathAfterAuthority, bne_eq_false_iff_eq] at h
    rw [authChar_eq]
    simp [h]
  · rfl

theorem roundTrip_schemeless {s : Str} (h : splitScheme s = none) : roundTrip s = s := by
  simp [roundTrip, h]

/-- outside the class of the known finding the round trip is the identity -/
theorem roundTrip_stable {s : Str} (h : RoundTripChanges s = false) : roundTrip s = s := by
  cases hs : splitScheme s with
  | none => exact roundTrip_schemeless hs
  | some ar =>
    obtain ⟨sch, rest⟩ := ar
    obtain ⟨h1, h2⟩ := afterScheme_of_split hs
    unfold RoundTripChanges at h
    simp only [Bool.or_eq_false_iff, Bool.and_eq_false_iff] at h
    obtain ⟨ha, hu⟩ := h
    have hc : canonScheme sch = sch := by
      unfold canonScheme
      by_cases hreg : uriparseRegistered.contains (lowerStr sch) = true
      · rcases hu with hu | hu
        · unfold schemeHasUpper at hu
          simp only [h1] at hu
          rw [if_pos hreg]
          exact lowerStr_of_no_upper hu
        · simp only [h1] at hu
          have hreg' : uriparseRegistered.contains (sch.map Char.toLower) = true := hreg
          rw [hreg'] at hu
          cases hu
      · rw [if_neg hreg]
    have hf : fixAuthority rest = rest := by
      apply fixAuthority_of_no_empty_path
      unfold authorityEmptyPath at ha
      simp only [h2] at ha
      exact ha
    unfold roundTrip
    simp only [hs, hc, hf]
    exact (splitScheme_some hs).symm

theorem lower_libcnb : lowerStr libcnbScheme = libcnbScheme := by decide

theorem libcnb_not_registered : uriparseRegistered.contains libcnbScheme = false := by decide

theorem canonScheme_libcnb : canonScheme libcnbScheme = libcnbScheme := by
  unfold canonScheme
  rw [lower_libcnb]
  simp

theorem canonScheme_eq_libcnb {sch : Str} (h : canonScheme sch = libcnbScheme) : sch = libcnbScheme := by
  unfold canonScheme at h
  by_cases hreg : uriparseRegistered.contains (lowerStr sch) = true
  · simp only [hreg, if_true] at h
    rw [h, libcnb_not_registered] at hreg
    cases hreg
  · rw [if_neg hreg] at h; exact h

theorem fixAuthority_no_authority {rest : Str} (h : ∀ body, rest ≠ '/' :: '/' :: body) : fixAuthority rest = rest := by
  unfold fixAuthority
  split
  · rename_i body
    exact absurd rfl (h body)
  · rfl

theorem hasAuthority_false {s sch rest : Str} (hs : splitScheme s = some (sch, rest)) (h : hasAuthority s = false) :
    ∀ body, rest ≠ '/' :: '/' :: body := by
  intro body e
  unfold hasAuthority at h
  simp only [(afterScheme_of_split hs).2, e, startsWithAuthority] at h
  cases h

/-- a `libcnb:` reference without authority survives the round trip unchanged -/
theorem roundTrip_libcnb {id : Str} (h : hasAuthority (libcnbScheme ++ ':' :: id) = false) :
    roundTrip (libcnbScheme ++ ':' :: id) = libcnbScheme ++ ':' :: id := by
  unfold roundTrip
  rw [splitScheme_libcnb]
  simp only [canonScheme_libcnb, fixAuthority_no_authority (hasAuthority_false (splitScheme_libcnb id) h)]

/-- … and only such a reference comes out of the round trip as one -/
theorem roundTrip_eq_libcnb {s id : Str} (h : roundTrip s = libcnbScheme ++ ':' :: id)
    (hna : ∀ id', s = libcnbScheme ++ ':' :: id' → hasAuthority s = false) : s = libcnbScheme ++ ':' :: id := by
  cases hs : splitScheme s with
  | none => rw [roundTrip_schemeless hs] at h; exact h
  | some ar =>
    obtain ⟨sch, rest⟩ := ar
    unfold roundTrip at h
    simp only [hs] at h
    have e := splitScheme_some hs
    -- compare the two texts at their first colon: schemes hold no colon
    have hsplit : splitScheme (canonScheme sch ++ ':' :: fixAuthority rest) = some (libcnbScheme, id) := by
      rw [h]; exact splitScheme_libcnb id
    -- the scheme of the left text is `canonScheme sch`; it can only be `libcnb` when `sch` is
    have hsch : sch = libcnbScheme := by
      by_cases hreg : uriparseRegistered.contains (lowerStr sch) = true
      · -- then the left text starts with a registered name followed by a colon, and so does `libcnb:…`
        exfalso
        have hc : canonScheme sch = lowerStr sch := by unfold canonScheme; rw [if_pos hreg]
        rw [hc] at h
        -- both sides split at the first colon; `lowerStr sch` has none (it is a registered name), `libcnb` has none
        have hcolon : ∀ (a b c d : Str), ':' ∉ a → ':' ∉ c → a ++ ':' :: b = c ++ ':' :: d → a = c := by
          intro a
          induction a with
          | nil =>
            intro b c d _ hc e
            cases c with
            | nil => rfl
            | cons x xs =>
              simp only [List.nil_append, List.cons_append, List.cons.injEq] at e
              exact absurd (by rw [← e.1]; simp) hc
          | cons x xs ih =>
            intro b c d ha hc e
            cases c with
            | nil =>
              simp only [List.nil_append, List.cons_append, List.cons.injEq] at e
              exact absurd (by rw [e.1]; simp) ha
            | cons y ys =>
              simp only [List.cons_append, List.cons.injEq] at e
              rw [e.1, ih b ys d (fun hm => ha (List.mem_cons_of_mem _ hm)) (fun hm => hc (List.mem_cons_of_mem _ hm)) e.2]
        have hreg_nocolon : ':' ∉ lowerStr sch := by
          intro hm
          have hall : uriparseRegistered.all (fun e => !e.contains ':') = true := by decide +kernel
          have := List.all_eq_true.1 hall _ (List.contains_iff_mem.1 hreg)
          simp only [Bool.not_eq_true', List.contains_eq_mem, decide_eq_false_iff_not] at this
          exact this hm
        have := hcolon _ _ _ _ hreg_nocolon (by decide) h
        rw [this, libcnb_not_registered] at hreg
        cases hreg
      · have hc : canonScheme sch = sch := by unfold canonScheme; rw [if_neg hreg]
        rw [hc] at hsplit
        have e' : splitScheme (sch ++ ':' :: fixAuthority rest) = some (sch, fixAuthority rest) := by
          -- `sch` is a scheme: first alphabetic, then scheme characters
          cases s with
          | nil => simp [splitScheme] at hs
          | cons c cs =>
            unfold splitScheme at hs
            by_cases hca : c.isAlpha = true
            · simp only [hca, if_true] at hs
              cases hr : scanScheme cs with
              | none => simp [hr] at hs
              | some ar =>
                obtain ⟨a, r⟩ := ar
                simp only [hr, Option.some.injEq, Prod.mk.injEq] at hs
                obtain ⟨rfl, rfl⟩ := hs
                have hall := (scanScheme_some hr).2
                show splitScheme (c :: (a ++ ':' :: fixAuthority r)) = _
                rw [splitScheme]
                simp only [hca, if_true, scanScheme_of_eq hall]
            · simp [hca] at hs
        rw [e'] at hsplit
        simp only [Option.some.injEq, Prod.mk.injEq] at hsplit
        exact hsplit.1
    subst hsch
    have hna' := hna rest e
    have hfix : fixAuthority rest = rest := fixAuthority_no_authority (hasAuthority_false hs hna')
    rw [canonScheme_libcnb, hfix] at h
    rw [e]
    exact h

end CnbVerif.PkgDescriptor
