import CnbVerif.Lemmas.LayerStore
namespace CnbVerif
open Spec

theorem sget_eq (s : Store) (n : Bytes) : sget s n = s.get n := rfl

theorem Store.get_set_eq (s : Store) (n : Bytes) (l : Layer) : (s.set n l).get n = l := by
  simp [Store.get, Store.set, List.lookup]

theorem Store.get_set_ne (s : Store) (n k : Bytes) (l : Layer) (h : k ≠ n) : (s.set n l).get k = s.get k := by
  have hb : (k == n) = false := by simpa using h
  unfold Store.get Store.set
  simp only [List.lookup, hb]
  congr 1
  induction s with
  | nil => rfl
  | cons kv t ih =>
    obtain ⟨q, x⟩ := kv
    by_cases hq : q = n
    · subst hq
      simp [List.filter, List.lookup, hb, ih]
    · have hq' : (q != n) = true := by simpa using hq
      simp only [List.filter, hq', List.lookup]
      split <;> simp_all

theorem Store.get_map (s : Store) (g : Layer → Layer) (hg : g Layer.absent = Layer.absent) (n : Bytes) :
    Store.get (s.map (fun kv => (kv.1, g kv.2))) n = g (s.get n) := by
  unfold Store.get
  induction s with
  | nil => simp [List.lookup, hg]
  | cons kv t ih =>
    obtain ⟨q, x⟩ := kv
    by_cases hq : n = q
    · subst hq; simp [List.lookup]
    · have hb : (n == q) = false := by simpa using hq
      simp only [List.map_cons, List.lookup, hb]
      exact ih

/-- reachable-state invariant of the layers directory -/
def WFS (s : Store) : Prop := ∀ n, WFL (s.get n)

theorem wfs_empty : WFS [] := by intro n; simp [Store.get, List.lookup, Layer.absent, WFL]

theorem wfs_set {s : Store} (h : WFS s) (n : Bytes) (l : Layer) (hl : WFL l) : WFS (s.set n l) := by
  intro k
  by_cases hk : k = n
  · subst hk; rw [Store.get_set_eq]; exact hl
  · rw [Store.get_set_ne _ _ _ _ hk]; exact h k

theorem wfl_restore (l : Layer) (h : WFL l) : WFL (restoreLayer l) := by
  unfold restoreLayer
  split
  · split
    · exact h
    · split <;> simp [WFL, Layer.absent]
  · simp [WFL, Layer.absent]

theorem wfl_stepLayer (l : Layer) (h : WFL l) (op : Op) : WFL (stepLayer l op).1 := by
  cases op with
  | cached n b la mt ci cr => exact handle_wf _ _ _ _ _ _ _ h
  | uncached n b la => exact handle_wf _ _ _ _ _ _ _ h
  | wmeta n m =>
    simp only [stepLayer, writeMeta, replaceMeta]
    cases htm : l.toml with
    | none => simpa using h
    | some tm => cases tm <;> simpa [WFL] using h
  | wmetaBad n => exact h
  | wenv n ins =>
    simp only [stepLayer, writeEnv]
    split
    · exact h
    · split <;> simp_all [WFL]
  | wsbom n sb =>
    simp only [stepLayer, replaceSboms]
    split <;> simp_all [WFL]
  | wexecd n ps =>
    simp only [stepLayer, replaceExecd]
    split
    · exact h
    · split
      · simp [WFL]
      · split
        · simp_all [WFL]
        · split <;> simp [WFL]
  | wfile n f b =>
    simp only [stepLayer, writeFile]
    split
    · exact h
    · split <;> simp_all [WFL]
  | breakToml n => simpa [stepLayer, WFL] using h
  | restore => exact h

theorem writeOk_noref (l : Layer) (op : Op) : writeOk l l op .noref = true := by
  cases op <;> simp [writeOk, layerEq_refl]

theorem writeOk_stepLayer (l : Layer) (op : Op) (hreq : isRequest op = false) :
    writeOk l (stepLayer l op).1 op (stepLayer l op).2.1 = true := by
  cases op with
  | wmeta n m =>
    simp only [stepLayer, writeMeta, replaceMeta]
    cases htm : l.toml with
    | none => simp [writeOk]
    | some tm => cases tm <;> simp [writeOk, htm, optBeq_refl]
  | wmetaBad n => simp [stepLayer, writeOk, layerEq_refl]
  | wsbom n sb =>
    simp only [stepLayer, replaceSboms]
    cases hd : l.dir <;> simp [writeOk, hd, optBeq_refl]
  | wenv n ins =>
    simp only [stepLayer, writeEnv]
    split
    · simp [writeOk]
    · split <;> simp [writeOk]
  | wexecd n ps =>
    simp only [stepLayer, replaceExecd]
    split
    · simp [writeOk]
    · split
      · simp [writeOk]
      · split
        · simp [writeOk]
        · split <;> simp [writeOk]
  | wfile n f b =>
    simp only [stepLayer, writeFile]
    split
    · simp [writeOk]
    · split <;> simp [writeOk]
  | cached => simp [isRequest] at hreq
  | uncached => simp [isRequest] at hreq
  | breakToml n => simp [writeOk, stepLayer]
  | restore => simp [writeOk, stepLayer]

theorem othersUntouched_refl (names : List Bytes) (s : Store) (n : Bytes) : othersUntouched names s s n = true := by
  simp [othersUntouched, layerEq_refl]

theorem othersUntouched_set (names : List Bytes) (s : Store) (n : Bytes) (l : Layer) :
    othersUntouched names s (s.set n l) n = true := by
  unfold othersUntouched
  apply List.all_eq_true.mpr
  intro k _
  by_cases hk : k = n
  · simp [hk]
  · have : (k == n) = false := by simpa using hk
    simp only [this, Bool.false_or, sget_eq, Store.get_set_ne _ _ _ _ hk, layerEq_refl]

/-- **One step of a history.** In every state of the layers directory satisfying the invariant, every operation
leads the model to a state and an observation that `Spec.stepOk` accepts, and re-establishes the invariant. -/
theorem step_ok (names : List Bytes) (s : St) (op : Op) (hwf : WFS s.store) :
    stepOk names s.store op (step s op).2.1 (step s op).2.2 (step s op).1.store = true ∧ WFS (step s op).1.store := by
  cases op with
  | restore =>
    refine ⟨by simp [stepOk], ?_⟩
    intro n
    show WFL (Store.get (s.store.map (fun kv => (kv.1, restoreLayer kv.2))) n)
    rw [Store.get_map _ _ (by simp [restoreLayer, Layer.absent])]
    exact wfl_restore _ (hwf n)
  | cached n b la mt ci cr =>
    have hr := handle_request_ok (s.store.get n) (hwf n) ⟨la, b, true⟩ mt ci cr 1 true
    refine ⟨?_, ?_⟩
    · simp only [step, Op.name, isWrite, Bool.false_and, Bool.false_eq_true, if_false, stepOk, stepLayer, sget_eq,
        Store.get_set_eq, othersUntouched_set, Bool.and_true]
      exact hr
    · simp only [step, Op.name, isWrite, Bool.false_and, Bool.false_eq_true, if_false]
      exact wfs_set hwf _ _ (wfl_stepLayer _ (hwf n) _)
  | uncached n b la =>
    have hr := handle_request_ok (s.store.get n) (hwf n) ⟨la, b, false⟩ .generic (.delete 0) (.delete 0) 1 false
    refine ⟨?_, ?_⟩
    · simp only [step, Op.name, isWrite, Bool.false_and, Bool.false_eq_true, if_false, stepOk, stepLayer, sget_eq,
        Store.get_set_eq, othersUntouched_set, Bool.and_true]
      unfold requestOk at hr ⊢
      split
      · rfl
      · rename_i eo elog emeta he
        rw [he] at hr
        simpa using hr
    · simp only [step, Op.name, isWrite, Bool.false_and, Bool.false_eq_true, if_false]
      exact wfs_set hwf _ _ (wfl_stepLayer _ (hwf n) _)
  | wmeta n m => exact step_write names s _ n rfl rfl hwf
  | wmetaBad n => exact step_write names s _ n rfl rfl hwf
  | wenv n ins => exact step_write names s _ n rfl rfl hwf
  | wsbom n sb => exact step_write names s _ n rfl rfl hwf
  | wexecd n ps => exact step_write names s _ n rfl rfl hwf
  | wfile n f b => exact step_write names s _ n rfl rfl hwf
  | breakToml n =>
    refine ⟨?_, ?_⟩
    · simp [step, Op.name, isWrite, stepOk, othersUntouched_set, writeOk, stepLayer]
    · simp only [step, Op.name, isWrite, Bool.false_and, Bool.false_eq_true, if_false]
      exact wfs_set hwf _ _ (wfl_stepLayer _ (hwf n) _)
where
  step_write (names : List Bytes) (s : St) (op : Op) (n : Bytes) (hn : op.name = some n) (hreq : isRequest op = false)
      (hwf : WFS s.store) :
      stepOk names s.store op (step s op).2.1 (step s op).2.2 (step s op).1.store = true ∧ WFS (step s op).1.store := by
    cases op <;> simp only [Op.name, Option.some.injEq, reduceCtorEq, isRequest, Bool.true_eq_false] at hn hreq <;> subst hn <;>
    · simp only [step, Op.name]
      split
      · exact ⟨by simp [stepOk, Op.name, othersUntouched_refl, writeOk_noref], hwf⟩
      · refine ⟨?_, wfs_set hwf _ _ (wfl_stepLayer _ (hwf _) _)⟩
        simp only [stepOk, Op.name, othersUntouched_set, Bool.true_and, sget_eq, Store.get_set_eq]
        exact writeOk_stepLayer _ _ (by simp [isRequest])

end CnbVerif
