import CnbVerif.Model.EnvDir
import CnbVerif.Lemmas.LayerEnv2
namespace CnbVerif

/-! ### directories as association lists -/
theorem Dir.get_erase_eq (d : Dir) (n : Bytes) : (d.erase n).get n = none := by
  unfold Dir.get Dir.erase
  induction d with
  | nil => rfl
  | cons kv t ih =>
    obtain ⟨k, x⟩ := kv
    by_cases hk : k = n
    · subst hk; simp [List.filter, ih]
    · have hk' : (k != n) = true := by simpa using hk
      have : (n == k) = false := by simpa using fun e => hk e.symm
      simp [List.filter, hk', List.lookup, this, ih]

theorem Dir.get_erase_ne (d : Dir) (n m : Bytes) (h : m ≠ n) : (d.erase n).get m = d.get m := by
  unfold Dir.get Dir.erase
  induction d with
  | nil => rfl
  | cons kv t ih =>
    obtain ⟨k, x⟩ := kv
    by_cases hk : k = n
    · subst hk
      have : (m == k) = false := by simpa using h
      simp [List.filter, List.lookup, this, ih]
    · have hk' : (k != n) = true := by simpa using hk
      simp only [List.filter, hk', List.lookup]
      split <;> simp_all

theorem Dir.get_set_eq (d : Dir) (n : Bytes) (x : Node) : (d.set n x).get n = some x := by
  simp [Dir.get, Dir.set, List.lookup]

theorem Dir.get_set_ne (d : Dir) (n m : Bytes) (x : Node) (h : m ≠ n) : (d.set n x).get m = d.get m := by
  have hb : (m == n) = false := by simpa using h
  unfold Dir.set
  show List.lookup m ((n, x) :: d.erase n) = _
  simp only [List.lookup, hb]
  exact Dir.get_erase_ne d n m h

theorem Dir.erase_of_get_none (d : Dir) (n : Bytes) (h : d.get n = none) : d.erase n = d := by
  unfold Dir.get at h
  unfold Dir.erase
  induction d with
  | nil => rfl
  | cons kv t ih =>
    obtain ⟨k, x⟩ := kv
    by_cases hk : n = k
    · subst hk; simp [List.lookup] at h
    · have hb : (n == k) = false := by simpa using hk
      simp only [List.lookup, hb] at h
      have hk' : (k != n) = true := by simpa using fun e => hk e.symm
      simp [List.filter, hk', ih h]

/-! ### write_to_env_dir -/
/-- the entry is absent or a directory (what the writer itself leaves behind) -/
def EnvOk (parent : Dir) (name : Bytes) : Prop :=
  parent.get name = none ∨ ∃ es, parent.get name = some (.dir es)

/-- what `write_to_env_dir` leaves at `name` -/
def deltaNode (d : Delta) : Option Node := if d.isEmpty then none else some (.dir (d.map Entry.fileOf))

theorem writeToEnvDir_spec (parent : Dir) (name : Bytes) (d : Delta) (h : EnvOk parent name) :
    ∃ p', writeToEnvDir parent name d = some p' ∧ p'.get name = deltaNode d ∧
      ∀ other, other ≠ name → p'.get other = parent.get other := by
  unfold writeToEnvDir deltaNode
  rcases h with h | ⟨es, h⟩
  · rw [h]
    by_cases hd : d.isEmpty = true
    · simp only [hd, if_true]
      exact ⟨parent, rfl, h, fun _ _ => rfl⟩
    · simp only [hd, if_false]
      exact ⟨_, rfl, Dir.get_set_eq _ _ _, fun o ho => Dir.get_set_ne _ _ _ _ ho⟩
  · rw [h]
    by_cases hd : d.isEmpty = true
    · simp only [hd, if_true]
      exact ⟨_, rfl, Dir.get_erase_eq _ _, fun o ho => Dir.get_erase_ne _ _ _ ho⟩
    · simp only [hd, if_false]
      refine ⟨_, rfl, Dir.get_set_eq _ _ _, fun o ho => ?_⟩
      rw [Dir.get_set_ne _ _ _ _ ho, Dir.get_erase_ne _ _ _ ho]

theorem nEnv_ne_build : nEnv ≠ nEnvBuild := by decide
theorem nEnv_ne_launch : nEnv ≠ nEnvLaunch := by decide
theorem nEnvBuild_ne_launch : nEnvBuild ≠ nEnvLaunch := by decide

/-! ### the per-process loop -/
/-- process directories written so far, newest first -/
def procDirs (ps : List (Bytes × Delta)) : Dir :=
  (ps.filter (fun pd => !pd.2.isEmpty)).reverse.map (fun pd => (pd.1, Node.dir (pd.2.map Entry.fileOf)))

/-- content of `env.launch` seen as a list that is empty iff the directory is absent -/
def launchNode (es : Dir) : Option Node := if es.isEmpty then none else some (.dir es)

theorem writeProcess_spec (layer : Dir) (es : Dir) (pd : Bytes × Delta)
    (hl : layer.get nEnvLaunch = launchNode es) (hfree : es.get pd.1 = none) :
    ∃ l', writeProcess layer pd = some l' ∧
      l'.get nEnvLaunch = launchNode (if pd.2.isEmpty then es else (pd.1, .dir (pd.2.map Entry.fileOf)) :: es) ∧
      ∀ other, other ≠ nEnvLaunch → l'.get other = layer.get other := by
  unfold writeProcess
  by_cases hes : es.isEmpty = true
  · have : es = [] := by simpa using hes
    subst this
    simp only [launchNode, List.isEmpty_nil, if_true] at hl
    rw [hl]
    by_cases hd : pd.2.isEmpty = true
    · simp only [hd, if_true]
      exact ⟨layer, rfl, by simpa [launchNode] using hl, fun _ _ => rfl⟩
    · simp only [hd, if_false]
      refine ⟨_, rfl, ?_, fun o ho => Dir.get_set_ne _ _ _ _ ho⟩
      simp [launchNode, Dir.get_set_eq]
  · have hln : launchNode es = some (.dir es) := by simp [launchNode, hes]
    rw [hl, hln]
    by_cases hd : pd.2.isEmpty = true
    · have hw : writeToEnvDir es pd.1 pd.2 = some es := by simp [writeToEnvDir, hfree, hd]
      simp only [hw, hd, if_true]
      refine ⟨_, rfl, ?_, fun o ho => Dir.get_set_ne _ _ _ _ ho⟩
      rw [hln, Dir.get_set_eq]
    · have hw : writeToEnvDir es pd.1 pd.2 = some ((pd.1, .dir (pd.2.map Entry.fileOf)) :: es) := by
        simp [writeToEnvDir, hfree, hd, Dir.set, Dir.erase_of_get_none _ _ hfree]
      simp only [hw, hd, if_false]
      refine ⟨_, rfl, ?_, fun o ho => Dir.get_set_ne _ _ _ _ ho⟩
      simp [launchNode, Dir.get_set_eq]

theorem procDirs_cons (pd : Bytes × Delta) (ps : List (Bytes × Delta)) :
    procDirs (pd :: ps) = procDirs ps ++ (if pd.2.isEmpty then [] else [(pd.1, Node.dir (pd.2.map Entry.fileOf))]) := by
  unfold procDirs
  by_cases hd : pd.2.isEmpty = true
  · simp [List.filter, hd]
  · simp [List.filter, hd]

theorem get_cons_ne (es : Dir) (k : Bytes) (x : Node) (q : Bytes) (h : q ≠ k) :
    Dir.get ((k, x) :: es) q = es.get q := by
  have : (q == k) = false := by simpa using h
  simp [Dir.get, List.lookup, this]

/-- `writeProcesses` appends (at the front) one directory per non-empty process delta, provided the
process names are pairwise distinct and none of them is already an entry of `env.launch`. -/
theorem writeProcesses_spec (ps : List (Bytes × Delta)) :
    ∀ (layer : Dir) (es : Dir), layer.get nEnvLaunch = launchNode es →
      (∀ pd ∈ ps, es.get pd.1 = none) → (ps.map (·.1)).Nodup →
      ∃ l', writeProcesses layer ps = some l' ∧
        l'.get nEnvLaunch = launchNode (procDirs ps ++ es) ∧
        ∀ other, other ≠ nEnvLaunch → l'.get other = layer.get other := by
  induction ps with
  | nil =>
    intro layer es hl _ _
    exact ⟨layer, rfl, by simpa [procDirs] using hl, fun _ _ => rfl⟩
  | cons pd rest ih =>
    intro layer es hl hfree hnd
    obtain ⟨l1, h1, hg1, hf1⟩ := writeProcess_spec layer es pd hl (hfree pd (by simp))
    have hnd' : pd.1 ∉ rest.map (·.1) ∧ (rest.map (·.1)).Nodup := by
      rw [List.map_cons] at hnd; exact List.nodup_cons.mp hnd
    let es1 : Dir := if pd.2.isEmpty then es else (pd.1, .dir (pd.2.map Entry.fileOf)) :: es
    have hfree1 : ∀ q ∈ rest, es1.get q.1 = none := by
      intro q hq
      have hne : q.1 ≠ pd.1 := by
        intro e
        apply hnd'.1
        rw [← e]
        exact List.mem_map_of_mem hq
      show Dir.get (if pd.2.isEmpty then es else (pd.1, .dir (pd.2.map Entry.fileOf)) :: es) q.1 = none
      by_cases hd : pd.2.isEmpty = true
      · rw [if_pos hd]; exact hfree q (by simp [hq])
      · rw [if_neg hd, get_cons_ne _ _ _ _ hne]; exact hfree q (by simp [hq])
    obtain ⟨l2, h2, hg2, hf2⟩ := ih l1 es1 hg1 hfree1 hnd'.2
    refine ⟨l2, ?_, ?_, fun o ho => by rw [hf2 o ho, hf1 o ho]⟩
    · simp [writeProcesses, h1, h2]
    · rw [hg2, procDirs_cons]
      show launchNode (procDirs rest ++ (if pd.2.isEmpty then es else (pd.1, .dir (pd.2.map Entry.fileOf)) :: es)) = _
      by_cases hd : pd.2.isEmpty = true
      · simp [hd]
      · simp [hd]

end CnbVerif
