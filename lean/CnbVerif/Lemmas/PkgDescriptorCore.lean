import CnbVerif.Lemmas.PkgDescriptor
/-!
C14 helper lemmas, part 3: the statements about the normaliser proper (`normalizeDescriptor` =
`normalize_package_descriptor`), position by position. `Props/C14.lean` lifts them to the whole packaging step
(`packageDescriptor`, which also models the uriparse round trip of every URI text).
-/
namespace CnbVerif.PkgDescriptor.Core
open CnbVerif.Chars CnbVerif.PkgDescriptor CnbVerif.Spec.PathDenote

/-- every packaged location in the map is an absolute path -/
def PathsAbsolute (paths : Str → Option Str) : Prop := ∀ id p, paths id = some p → isAbsolute p = true

/-- **M1a `libcnb_replaced`.** When normalisation succeeds, the dependency at every position that was `libcnb:<id>`
is exactly the packaged location of that id — same position, not left in place, not dropped. -/
theorem libcnb_replaced (paths : Str → Option Str) (parent : Str) (d out : Descriptor) (hp : PathsAbsolute paths)
    (h : normalizeDescriptor paths parent d = .ok out) (i : Nat) (dep id : Str)
    (hd : d.deps[i]? = some dep) (hk : kindOf dep = .libcnb id) :
    ∃ p, paths id = some p ∧ out.deps[i]? = some p := by
  obtain ⟨_, _, _, hidx⟩ := normalize_index h
  obtain ⟨x, hx, ho⟩ := hidx i dep hd
  obtain ⟨rfl, _⟩ := kindOf_libcnb hk
  by_cases hv : validId id = true
  · cases hpid : paths id with
    | none => rw [replace_libcnb_missing hv hpid] at hx; cases hx
    | some p =>
      rw [replace_libcnb_known hv hpid] at hx
      have hpx : p = x := Except.ok.inj hx
      subst hpx
      exact ⟨p, rfl, by rw [ho, fixup_abs (hp id p hpid)]⟩
  · rw [replace_libcnb_invalid paths (by simpa using hv)] at hx; cases hx

/-- **M1b `error_iff`.** Normalisation fails exactly when some dependency is a `libcnb:` reference whose id is
invalid or has no packaged location; there is no other error and such a reference is never skipped. -/
theorem error_iff (paths : Str → Option Str) (parent : Str) (d : Descriptor) :
    (∃ e, normalizeDescriptor paths parent d = .error e) ↔
      ∃ dep ∈ d.deps, ∃ id, kindOf dep = .libcnb id ∧ (idOk id = false ∨ paths id = none) := by
  constructor
  · rintro ⟨e, h⟩
    obtain ⟨dep, hd, he⟩ := normalize_error h
    obtain ⟨id, rfl, hid⟩ := replace_error he
    exact ⟨_, hd, id, kindOf_libcnb_text id, by rw [idOk_eq]; exact hid⟩
  · rintro ⟨dep, hd, id, hk, hid⟩
    obtain ⟨rfl, _⟩ := kindOf_libcnb hk
    rw [idOk_eq] at hid
    by_cases hv : validId id = true
    · rcases hid with hid | hid
      · rw [hv] at hid; cases hid
      · exact normalize_error_of_mem hd (replace_libcnb_missing hv hid)
    · exact normalize_error_of_mem hd (replace_libcnb_invalid paths (by simpa using hv))

/-- **M1c.** The error names the offending reference: a referenced id that is invalid, or valid and without a
packaged location. -/
theorem error_names_the_reference (paths : Str → Option Str) (parent : Str) (d : Descriptor) (e : Err)
    (h : normalizeDescriptor paths parent d = .error e) :
    (∃ id, e = .missingPath id ∧ (libcnbScheme ++ ':' :: id) ∈ d.deps ∧ idOk id = true ∧ paths id = none) ∨
    (∃ id, e = .invalidId id ∧ (libcnbScheme ++ ':' :: id) ∈ d.deps ∧ idOk id = false) := by
  obtain ⟨dep, hd, he⟩ := normalize_error h
  obtain ⟨id, rfl, _⟩ := replace_error he
  by_cases hv : validId id = true
  · cases hpid : paths id with
    | none =>
      rw [replace_libcnb_missing hv hpid] at he
      cases he
      exact Or.inl ⟨id, rfl, hd, by rw [idOk_eq]; exact hv, hpid⟩
    | some p => rw [replace_libcnb_known hv hpid] at he; cases he
  · have hv' : validId id = false := by simpa using hv
    rw [replace_libcnb_invalid paths hv'] at he
    cases he
    exact Or.inr ⟨id, rfl, hd, by rw [idOk_eq]; exact hv'⟩

/-- **M2 `relative_denotes`.** A relative path (no scheme, no leading slash) becomes, at the same position, a path
that is absolute, dot-free and denotes the very directory the original path denotes from the directory of the original
`package.toml` — for any number of `.`, `..` and redundant separators, also when it climbs above the root. -/
theorem relative_denotes (paths : Str → Option Str) (parent : Str) (d out : Descriptor)
    (hpar : isAbsolute parent = true) (h : normalizeDescriptor paths parent d = .ok out) (i : Nat) (dep : Str)
    (hd : d.deps[i]? = some dep) (hk : kindOf dep = .relative) :
    ∃ o, out.deps[i]? = some o ∧ isAbsolute o = true ∧ dotFree o = true ∧
      denote o = denoteFrom (denote parent) dep := by
  obtain ⟨_, _, _, hidx⟩ := normalize_index h
  obtain ⟨x, hx, ho⟩ := hidx i dep hd
  obtain ⟨hs, hrel⟩ := kindOf_relative hk
  rw [replace_not_libcnb (by rw [hs]; intro _ hc; cases hc)] at hx
  cases hx
  have hf : fixup parent dep = absolutizePath dep parent := by simp [fixup, hs]
  rw [hf] at ho
  exact ⟨_, ho, absolutize_relative hrel hpar⟩

/-- **M2 (idempotent).** The path produced for a relative reference is a fixed point of `normalize_path`, and
absolutising it again, from any directory, leaves it unchanged. -/
theorem relative_idempotent (path parent parent' : Str) (hrel : isAbsolute path = false)
    (hpar : isAbsolute parent = true) :
    normalizePath (absolutizePath path parent) = absolutizePath path parent ∧
      absolutizePath (absolutizePath path parent) parent' = absolutizePath path parent := by
  have hj : isAbs (joinPath parent path) = true := by
    obtain ⟨t, rfl⟩ := isAbs_cons hpar
    unfold joinPath
    simp only [List.isEmpty_cons, Bool.false_eq_true, if_false]
    split <;> simp [isAbs]
  have ho : absolutizePath path parent = '/' :: joinChar '/' (normComps (comps (joinPath parent path))) := by
    have : isAbs path = false := hrel
    simp [absolutizePath, this, normalizePath, hj]
  rw [ho]
  refine ⟨normalizePath_render (normComps_comps_normal _), ?_⟩
  simp [absolutizePath, isAbs]

/-- **M3 `others_verbatim`.** Every other URI — any scheme but `libcnb` (docker, http(s), urn, …) or an absolute
path — is copied verbatim, at the same position. -/
theorem others_verbatim (paths : Str → Option Str) (parent : Str) (d out : Descriptor)
    (h : normalizeDescriptor paths parent d = .ok out) (i : Nat) (dep : Str)
    (hd : d.deps[i]? = some dep) (hk : kindOf dep = .other) : out.deps[i]? = some dep := by
  obtain ⟨_, _, _, hidx⟩ := normalize_index h
  obtain ⟨x, hx, ho⟩ := hidx i dep hd
  have hset : Settled dep := by
    rcases kindOf_other hk with ⟨sch, rest, hs, hne⟩ | habs
    · exact Or.inr ⟨sch, rest, hs, hne⟩
    · exact Or.inl habs
  obtain ⟨h1, h2⟩ := settled_fixed hset paths parent
  rw [h1] at hx
  cases hx
  rw [ho, h2]

/-- **M4 `shape_preserved`.** Number (and, by the three position-wise theorems, order) of dependencies, the buildpack
URI and the platform are preserved. -/
theorem shape_preserved (paths : Str → Option Str) (parent : Str) (d out : Descriptor)
    (h : normalizeDescriptor paths parent d = .ok out) :
    out.deps.length = d.deps.length ∧ out.buildpack = d.buildpack ∧ out.platform = d.platform := by
  obtain ⟨h1, h2, h3, _⟩ := normalize_index h
  exact ⟨h3, h1, h2⟩

/-- **Every dependency is of one of the three kinds treated above** (so the position-wise theorems cover every
position). -/
theorem kinds_exhaustive (dep : Str) :
    (∃ id, kindOf dep = .libcnb id) ∨ kindOf dep = .relative ∨ kindOf dep = .other := by
  cases h : kindOf dep with
  | libcnb id => exact Or.inl ⟨id, rfl⟩
  | relative => exact Or.inr (Or.inl rfl)
  | other => exact Or.inr (Or.inr rfl)

/-- **M5 (in place of `reparses`, URI level) `result_is_settled`.** In the result no `libcnb:` reference and no
relative path is left: every dependency is of kind `other`, and normalising the result again — from any other
location and with any other map — returns it unchanged. (That the written TOML text parses again is observed in the
correspondence, not proved: the TOML writer is outside the model.) -/
theorem result_is_settled (paths : Str → Option Str) (parent : Str) (d out : Descriptor) (hp : PathsAbsolute paths)
    (hpar : isAbsolute parent = true) (h : normalizeDescriptor paths parent d = .ok out) :
    (∀ o ∈ out.deps, kindOf o = .other) ∧
      ∀ (paths' : Str → Option Str) (parent' : Str), normalizeDescriptor paths' parent' out = .ok out := by
  obtain ⟨_, _, hlen, hidx⟩ := normalize_index h
  have hset : ∀ o ∈ out.deps, Settled o := by
    intro o ho
    obtain ⟨i, hi⟩ := List.getElem?_of_mem ho
    have hil : i < d.deps.length := by
      rw [← hlen]
      exact (List.getElem?_eq_some_iff.1 hi).1
    have hdi : d.deps[i]? = some d.deps[i] := List.getElem?_eq_getElem hil
    rcases kinds_exhaustive d.deps[i] with ⟨id, hk⟩ | hk | hk
    · obtain ⟨p, hpid, hop⟩ := libcnb_replaced paths parent d out hp h i _ id hdi hk
      rw [hi] at hop
      cases hop
      exact Or.inl (hp id _ hpid)
    · obtain ⟨o', ho', habs, _⟩ := relative_denotes paths parent d out hpar h i _ hdi hk
      rw [hi] at ho'
      cases ho'
      exact Or.inl habs
    · have := others_verbatim paths parent d out h i _ hdi hk
      rw [hi] at this
      cases this
      rcases kindOf_other hk with ⟨sch, rest, hs, hne⟩ | habs
      · exact Or.inr ⟨sch, rest, hs, hne⟩
      · exact Or.inl habs
  constructor
  · intro o ho
    rcases hset o ho with habs | ⟨sch, rest, hs, hne⟩
    · unfold kindOf
      rw [schemeOf_eq, splitScheme_abs habs]
      simp [isAbsolute_eq_isAbs, habs]
    · unfold kindOf
      rw [schemeOf_eq, hs]
      simp only [Option.map_some]
      exact if_neg hne
  · intro paths' parent'
    have h1 : mapExcept (replaceLibcnbUri paths') out.deps = .ok out.deps :=
      mapExcept_fixed (fun a ha => (settled_fixed (hset a ha) paths' parent').1)
    have hmap : out.deps.map (fixup parent') = out.deps := by
      have : ∀ a ∈ out.deps, fixup parent' a = a := fun a ha => (settled_fixed (hset a ha) paths' parent').2
      calc _ = out.deps.map id := List.map_congr_left this
        _ = out.deps := List.map_id _
    have h2 : absolutizeDeps parent' out = out := by
      show ({ out with deps := out.deps.map (fixup parent') } : Descriptor) = out
      rw [hmap]
    simp only [normalizeDescriptor, replaceLibcnbUris, h1]
    exact congrArg Except.ok h2


end CnbVerif.PkgDescriptor.Core
