import CnbVerif.Spec.Topo
/-!
The executable judge `Spec.Topo.checkOrder` accepts exactly the build orders (`IsBuildOrder`), on every graph
(cyclic or not): "wanted" — selected, or a dependency of something *later* — together with "dependencies first"
is the same as "reachable from the selection".
-/
namespace CnbVerif.Spec.Topo
set_option linter.unusedSectionVars false

variable {α : Type} [DecidableEq α]

theorem Reachable.mono {deps : α → List α} {r r' : List α} (h : ∀ x ∈ r, x ∈ r') {v : α}
    (hv : Reachable deps r v) : Reachable deps r' v := by
  induction hv with
  | root hr => exact .root (h _ hr)
  | step _ hw ih => exact .step ih hw

/-- reachable from a dependency of `v` ⇒ reachable from `v` -/
theorem Reachable.of_dep {deps : α → List α} {v w u : α} (hw : w ∈ deps v) (hu : Reachable deps [w] u) :
    Reachable deps [v] u := by
  induction hu with
  | @root r hr =>
    have : r = w := by simpa using hr
    subst this
    exact .step (.root (by simp)) hw
  | step _ hx ih => exact .step ih hx

theorem Reachable.inv {deps : α → List α} {roots : List α} {v : α} (h : Reachable deps roots v) :
    v ∈ roots ∨ ∃ u, Reachable deps roots u ∧ v ∈ deps u := by
  cases h with
  | root hr => exact Or.inl hr
  | step hu hw => exact Or.inr ⟨_, hu, hw⟩

/-- an order that is closed under dependencies and contains the selection contains the whole closure -/
theorem reachable_mem_of_depsFirst {deps : α → List α} {roots out : List α} (hr : ∀ r ∈ roots, r ∈ out)
    (hd : DepsFirst deps out) {v : α} (hv : Reachable deps roots v) : v ∈ out := by
  induction hv with
  | root h => exact hr _ h
  | step _ hw ih =>
    obtain ⟨pre, post, e⟩ := List.append_of_mem ih
    have := hd pre _ post e _ hw
    rw [e]
    exact List.mem_append.2 (Or.inl this)

theorem nodup_of_splits {l : List α} (h : ∀ a u b, l = a ++ u :: b → u ∉ a) : l.Nodup := by
  induction l with
  | nil => exact List.nodup_nil
  | cons x xs ih =>
    refine List.nodup_cons.2 ⟨?_, ih ?_⟩
    · intro hx
      obtain ⟨a, b, e⟩ := List.append_of_mem hx
      exact h (x :: a) x b (by rw [e]; rfl) (by simp)
    · intro a u b e hu
      exact h (x :: a) u b (by rw [e]; rfl) (List.mem_cons_of_mem _ hu)

theorem splits_of_nodup {l : List α} (h : l.Nodup) : ∀ a u b, l = a ++ u :: b → u ∉ a ∧ u ∉ b := by
  intro a u b e
  subst e
  have h1 := List.nodup_append.1 h
  have h2 := List.nodup_cons.1 h1.2.1
  exact ⟨fun hu => h1.2.2 u hu u (by simp) rfl, h2.1⟩

/-- what `scan` checks, as a statement about every split of the scanned part -/
def ScanOk (deps : α → List α) (roots : List α) (pre rest : List α) : Prop :=
  ∀ a u b, rest = a ++ u :: b →
    (∀ w ∈ deps u, w ∈ pre ++ a) ∧ u ∉ pre ++ a ∧ (u ∈ roots ∨ ∃ x ∈ b, u ∈ deps x)

theorem scan_iff (deps : α → List α) (roots : List α) :
    ∀ (rest pre : List α), scan deps roots pre rest = true ↔ ScanOk deps roots pre rest := by
  intro rest
  induction rest with
  | nil => intro pre; simp [scan, ScanOk]
  | cons u post ih =>
    intro pre
    simp only [scan, Bool.and_eq_true, ih]
    constructor
    · rintro ⟨⟨⟨h1, h2⟩, h3⟩, h4⟩ a x b e
      cases a with
      | nil =>
        have e1 : u = x := by simpa using (List.cons.inj e).1
        have e2 : post = b := (List.cons.inj e).2
        subst e1; subst e2
        refine ⟨?_, ?_, ?_⟩
        · intro w hw
          have := List.all_eq_true.1 h1 w hw
          simpa using this
        · simpa using h2
        · simpa using h3
      | cons y a' =>
        have e1 : u = y := (List.cons.inj e).1
        have e2 : post = a' ++ x :: b := (List.cons.inj e).2
        subst e1
        have := h4 a' x b e2
        simpa [List.append_assoc] using this
    · intro h
      refine ⟨⟨⟨?_, ?_⟩, ?_⟩, ?_⟩
      · have := (h [] u post rfl).1
        apply List.all_eq_true.2
        intro w hw
        simpa using this w hw
      · have := (h [] u post rfl).2.1
        simpa using this
      · have := (h [] u post rfl).2.2
        simpa using this
      · intro a x b e
        have := h (u :: a) x b (by rw [e]; rfl)
        simpa [List.append_assoc] using this

/-- **soundness and completeness of the judge** -/
theorem checkOrder_iff (deps : α → List α) (roots out : List α) :
    checkOrder deps roots out = true ↔ IsBuildOrder deps roots out := by
  unfold checkOrder
  rw [Bool.and_eq_true, scan_iff]
  constructor
  · rintro ⟨hroots, hscan⟩
    have hroots' : ∀ r ∈ roots, r ∈ out := by
      intro r hr
      have := List.all_eq_true.1 hroots r hr
      simpa using this
    have hdf : DepsFirst deps out := by
      intro pre u post e w hw
      have := (hscan pre u post e).1 w hw
      simpa using this
    refine ⟨fun v => ⟨?_, reachable_mem_of_depsFirst hroots' hdf⟩, ?_, hdf⟩
    · -- every element is wanted, hence reachable: induction from the end of the list
      have key : ∀ (b a : List α), out = a ++ b → ∀ v ∈ b, Reachable deps roots v := by
        intro b
        induction b with
        | nil => intro a _ v hv; simp at hv
        | cons u b' ih =>
          intro a e v hv
          have hb' : ∀ v ∈ b', Reachable deps roots v := ih (a ++ [u]) (by simpa using e)
          rcases List.mem_cons.1 hv with rfl | hv
          · rcases (hscan a v b' e).2.2 with h | ⟨x, hx, hvx⟩
            · exact .root h
            · exact .step (hb' x hx) hvx
          · exact hb' v hv
      exact key out [] rfl v
    · apply nodup_of_splits
      intro a u b e hu
      exact (hscan a u b e).2.1 (by simpa using hu)
  · intro h
    refine ⟨?_, ?_⟩
    · apply List.all_eq_true.2
      intro r hr
      have := (h.exact r).2 (.root hr)
      simpa using this
    · intro a u b e
      have hnd := splits_of_nodup h.nodup a u b e
      refine ⟨by simpa using h.depsFirst a u b e, by simpa using hnd.1, ?_⟩
      have hu : u ∈ out := by rw [e]; simp
      rcases ((h.exact u).1 hu).inv with hr | ⟨x, hx, hux⟩
      · exact Or.inl hr
      · right
        have hxo : x ∈ out := (h.exact x).2 hx
        obtain ⟨p, q, e2⟩ := List.append_of_mem hxo
        have hup : u ∈ p := h.depsFirst p x q e2 u hux
        -- u occurs before x; u occurs once; so x lies in b
        refine ⟨x, ?_, hux⟩
        obtain ⟨p1, p2, e3⟩ := List.append_of_mem hup
        have e4 : out = p1 ++ u :: (p2 ++ x :: q) := by rw [e2, e3]; simp
        have hnd4 := splits_of_nodup h.nodup p1 u (p2 ++ x :: q) e4
        -- two splits of a duplicate-free list at the same element coincide
        have hsame : a = p1 ∧ b = p2 ++ x :: q := by
          have e5 : a ++ u :: b = p1 ++ u :: (p2 ++ x :: q) := by rw [← e, e4]
          rcases List.append_eq_append_iff.1 e5 with ⟨c, hc1, hc2⟩ | ⟨c, hc1, hc2⟩
          · cases c with
            | nil => simp at hc1 hc2; exact ⟨hc1.symm, hc2⟩
            | cons y c' =>
              have : u = y := by simpa using (List.cons.inj hc2).1
              subst this
              exact absurd (show u ∈ p1 by rw [hc1]; simp) hnd4.1
          · cases c with
            | nil => simp at hc1 hc2; exact ⟨hc1, hc2.symm⟩
            | cons y c' =>
              have : u = y := by simpa using (List.cons.inj hc2).1
              subst this
              exact absurd (show u ∈ a by rw [hc1]; simp) hnd.1
        rw [hsame.2]
        simp

end CnbVerif.Spec.Topo
