import CnbVerif.Lemmas.Determinism
/-! C20: the hash-ordered loops of the layer writers under permutation of their input. -/
namespace CnbVerif.Det
open CnbVerif Spec.Det

theorem isEmpty_perm {α} {l l' : List α} (h : l.Perm l') : l.isEmpty = l'.isEmpty := by
  have := h.length_eq
  cases l <;> cases l' <;> simp_all

/-! ### `write_to_layer_dir`: the per-process loop -/
theorem procDirs_perm {ps ps' : List (Bytes × Delta)} (hp : ps'.Perm ps) : (procDirs ps').Perm (procDirs ps) := by
  unfold procDirs
  exact (((List.reverse_perm _).trans ((hp.filter _).trans (List.reverse_perm _).symm))).map _

theorem procDirs_nodup (ps : List (Bytes × Delta)) (h : (ps.map (·.1)).Nodup) : ((procDirs ps).map (·.1)).Nodup := by
  have hk : (procDirs ps).map (·.1) = ((ps.filter (fun pd => !pd.2.isEmpty)).map (·.1)).reverse := by
    unfold procDirs
    rw [List.map_map, List.map_reverse]
    rfl
  rw [hk]
  exact (List.reverse_perm _).nodup_iff.mpr ((List.filter_sublist.map _).nodup h)

theorem launch_content_get {ps ps' : List (Bytes × Delta)} (hp : ps'.Perm ps) (hnd : (ps.map (·.1)).Nodup)
    (lf : Dir) (n : Bytes) : Dir.get (procDirs ps' ++ lf) n = Dir.get (procDirs ps ++ lf) n := by
  have hnd' : (ps'.map (·.1)).Nodup := (hp.map (·.1)).nodup_iff.mpr hnd
  unfold Dir.get
  rw [lookup_append', lookup_append', lookup_perm (procDirs_perm hp) (procDirs_nodup ps' hnd') n]

theorem procOk_perm {le : LayerEnv} {ps' : List (Bytes × Delta)} (hp : ps'.Perm le.process) (h : ProcOk le) :
    ProcOk { le with process := ps' } :=
  ⟨(hp.map (·.1)).nodup_iff.mpr h.nodup, fun pd hpd => h.free pd (hp.mem_iff.mp hpd)⟩

theorem launchNode_canon {es es' : Dir} (he : es.isEmpty = es'.isEmpty) (h : Ext es es') :
    (launchNode es).map canonNode = (launchNode es').map canonNode := by
  unfold launchNode
  rw [he]
  split
  · rfl
  · have : canon es = canon es' := (sameDir_iff_ext es es').mpr h
    simp [canonNode_dir, this]

/-- the per-process loop may visit `le.process` in any order: the written layer directories have the same entries,
up to the order inside `env.launch` -/
theorem writeToLayerDir_perm (le : LayerEnv) (ps' : List (Bytes × Delta)) (layer : Dir)
    (hp : ps'.Perm le.process) (hl : LayerOk layer) (hok : ProcOk le) :
    ∃ a b, writeToLayerDir { le with process := ps' } layer = some a ∧ writeToLayerDir le layer = some b ∧ Ext a b := by
  obtain ⟨b, hb, b1, b2, b3, b4⟩ := writeToLayerDir_spec le layer hl hok
  obtain ⟨a, ha, a1, a2, a3, a4⟩ := writeToLayerDir_spec { le with process := ps' } layer hl (procOk_perm hp hok)
  refine ⟨a, b, ha, hb, ?_⟩
  intro n
  by_cases h1 : n = nEnv
  · subst h1; rw [a1, b1]
  · by_cases h2 : n = nEnvBuild
    · subst h2; rw [a2, b2]
    · by_cases h3 : n = nEnvLaunch
      · subst h3
        rw [a3, b3]
        apply launchNode_canon
        · exact isEmpty_perm ((procDirs_perm hp).append_right _)
        · exact ext_of_get_eq (launch_content_get hp hok.nodup _)
      · rw [a4 n h1 h2 h3, b4 n h1 h2 h3]

/-! ### `replace_layer_exec_d_programs` -/
def progFile (p : Bytes × Option Bytes) : Option (Bytes × Node) := p.2.map (fun b => (p.1, Node.file b))

/-- what a lookup in the written `exec.d` gives, from the program list -/
def progLookup (progs : List (Bytes × Option Bytes)) (n : Bytes) : Option Node :=
  match List.lookup n progs with
  | some (some b) => some (.file b)
  | _ => none

theorem progLookup_perm {progs progs' : List (Bytes × Option Bytes)} (hp : progs'.Perm progs)
    (hnd : (progs.map (·.1)).Nodup) (n : Bytes) : progLookup progs' n = progLookup progs n := by
  unfold progLookup
  rw [lookup_perm hp ((hp.map (·.1)).nodup_iff.mpr hnd) n]

theorem allSome_files_get : ∀ (progs : List (Bytes × Option Bytes)) (files : Dir),
    allSome (progs.map progFile) = some files → ∀ n, Dir.get files n = progLookup progs n
  | [], files, h, n => by
    simp [allSome] at h
    subst h
    rfl
  | (k, none) :: rest, files, h, n => by simp [allSome, progFile] at h
  | (k, some b) :: rest, files, h, n => by
    simp only [List.map_cons, progFile, Option.map_some, allSome, Option.map_eq_some_iff] at h
    obtain ⟨fr, hfr, hf⟩ := h
    subst hf
    have ih := allSome_files_get rest fr hfr n
    rw [get_cons, ih]
    unfold progLookup
    by_cases hn : n = k
    · subst hn; simp [List.lookup]
    · have hb : (n == k) = false := by simpa using hn
      simp [List.lookup, hb, hn]

theorem allSome_isSome_perm {progs progs' : List (Bytes × Option Bytes)} (hp : progs'.Perm progs) :
    (allSome (progs'.map progFile)).isSome = (allSome (progs.map progFile)).isSome := by
  induction hp with
  | nil => rfl
  | cons e _ ih =>
    obtain ⟨k, ob⟩ := e
    cases ob with
    | none => simp [allSome, progFile]
    | some b =>
      simp only [List.map_cons, progFile, Option.map_some, allSome, Option.isSome_map]
      exact ih
  | swap e e' r =>
    obtain ⟨k, ob⟩ := e
    obtain ⟨k', ob'⟩ := e'
    cases ob <;> cases ob' <;> simp [allSome, progFile]
  | trans _ _ ih1 ih2 => rw [ih1, ih2]

/-- the `remove_dir_all` at the start: an existing `exec.d` directory is removed, anything else stays -/
def clearExecd (d : Dir) : Dir :=
  match d.get nExecd with
  | some (.dir _) => d.erase nExecd
  | _ => d

theorem clearExecd_ext {d d' : Dir} (h : Ext d d') : Ext (clearExecd d) (clearExecd d') := by
  have hk := kind_eq_of_ext h nExecd
  unfold clearExecd
  cases h1 : d.get nExecd with
  | none =>
    cases h2 : d'.get nExecd with
    | none => exact h
    | some y => rw [h1, h2] at hk; cases y <;> simp [kind] at hk
  | some x =>
    cases h2 : d'.get nExecd with
    | none => rw [h1, h2] at hk; cases x <;> simp [kind] at hk
    | some y =>
      rw [h1, h2] at hk
      cases x <;> cases y <;> simp [kind] at hk <;> first | exact h | exact ext_erase h nExecd

theorem replaceExecd_some (l : Layer) (d : Dir) (h : l.dir = some d) (progs : List (Bytes × Option Bytes)) :
    replaceExecd l progs =
      if progs.isEmpty then ({ l with dir := some (clearExecd d) }, .ok)
      else match (clearExecd d).get nExecd with
        | some _ => (l, .err .io)
        | none =>
          match allSome (progs.map progFile) with
          | some files => ({ l with dir := some ((clearExecd d).set nExecd (.dir files)) }, .ok)
          | none => ({ l with dir := some ((clearExecd d).set nExecd (.dir [])) }, .err .missingExecd) := by
  unfold replaceExecd clearExecd progFile
  rw [h]
  rfl

theorem replaceExecdLoop_some (l : Layer) (d : Dir) (h : l.dir = some d) (progs : List (Bytes × Option Bytes)) :
    replaceExecdLoop l progs =
      if progs.isEmpty then ({ l with dir := some (clearExecd d) }, .ok)
      else match (clearExecd d).get nExecd with
        | some _ => (l, .err .io)
        | none => ({ l with dir := some ((clearExecd d).set nExecd (.dir (copyExecd [] progs).1)) },
                   if (copyExecd [] progs).2 then .ok else .err .missingExecd) := by
  unfold replaceExecdLoop clearExecd
  rw [h]
  rfl

theorem sameLayer_refl (l : Layer) : SameLayer l l := ⟨rfl, rfl, rfl⟩
theorem sameLayer_symm {a b : Layer} (h : SameLayer a b) : SameLayer b a := ⟨h.1.symm, h.2.1.symm, h.2.2.symm⟩
theorem sameLayer_trans {a b c : Layer} (h : SameLayer a b) (h' : SameLayer b c) : SameLayer a c :=
  ⟨h.1.trans h'.1, h.2.1.trans h'.2.1, h.2.2.trans h'.2.2⟩

theorem sameOptDir_some {a b : Dir} : SameOptDir (some a) (some b) ↔ Ext a b := by
  unfold SameOptDir
  simp only [Option.map_some, Option.some.injEq]
  exact sameDir_iff_ext a b

/-- `replaceExecd` (the C01 model): any iteration order of the program map, distinct names -/
theorem replaceExecd_perm (l : Layer) {progs progs' : List (Bytes × Option Bytes)} (hp : progs'.Perm progs)
    (hnd : (progs.map (·.1)).Nodup) :
    (replaceExecd l progs').2 = (replaceExecd l progs).2 ∧ SameLayer (replaceExecd l progs').1 (replaceExecd l progs).1 := by
  cases hd : l.dir with
  | none => simp [replaceExecd, hd, sameLayer_refl]
  | some d =>
    rw [replaceExecd_some l d hd, replaceExecd_some l d hd, isEmpty_perm hp]
    by_cases he : progs.isEmpty = true
    · simp [he, sameLayer_refl]
    · simp only [he]
      cases hg : (clearExecd d).get nExecd with
      | some x => simp [sameLayer_refl]
      | none =>
        have hs := allSome_isSome_perm hp
        cases hA : allSome (progs.map progFile) with
        | none =>
          rw [hA] at hs
          cases hA' : allSome (progs'.map progFile) with
          | none => simp [sameLayer_refl]
          | some f => rw [hA'] at hs; simp at hs
        | some files =>
          rw [hA] at hs
          cases hA' : allSome (progs'.map progFile) with
          | none => rw [hA'] at hs; simp at hs
          | some files' =>
            refine ⟨rfl, ?_, rfl, rfl⟩
            apply sameOptDir_some.mpr
            apply ext_set (Ext.refl _)
            rw [canonNode_dir, canonNode_dir]
            congr 1
            apply (sameDir_iff_ext _ _).mpr
            apply ext_of_get_eq
            intro n
            rw [allSome_files_get _ _ hA', allSome_files_get _ _ hA, progLookup_perm hp hnd]

/-! ### the copy loop spelled out -/
theorem copyExecd_spec : ∀ (progs : List (Bytes × Option Bytes)), (∀ p ∈ progs, p.2.isSome = true) →
    (progs.map (·.1)).Nodup → ∀ (acc : Dir),
    (copyExecd acc progs).2 = true ∧
    ∀ n, Dir.get (copyExecd acc progs).1 n = match progLookup progs n with | some x => some x | none => acc.get n
  | [], _, _, acc => ⟨rfl, fun n => by simp [copyExecd, progLookup, List.lookup]⟩
  | (k, none) :: rest, hall, _, _ => by have := hall (k, none) List.mem_cons_self; simp at this
  | (k, some b) :: rest, hall, hnd, acc => by
    have ih := copyExecd_spec rest (fun p hp => hall p (List.mem_cons_of_mem _ hp)) (nodup_keys_tail hnd) (acc.set k (.file b))
    have hk : k ∉ rest.map (·.1) := nodup_keys_head hnd
    refine ⟨by simpa [copyExecd] using ih.1, fun n => ?_⟩
    have := ih.2 n
    simp only [copyExecd]
    rw [this]
    unfold progLookup
    by_cases hn : n = k
    · subst hn
      rw [lookup_none_of_not_mem n rest hk]
      simp [List.lookup, Dir.get_set_eq]
    · have hb : (n == k) = false := by simpa using hn
      simp only [List.lookup, hb]
      cases List.lookup n rest with
      | none => simp [Dir.get_set_ne _ _ _ _ hn]
      | some o => cases o <;> simp [Dir.get_set_ne _ _ _ _ hn]

/-- congruence in the layer and permutation of the programs at once (all sources present, distinct names) -/
theorem replaceExecdLoop_ext (l l' : Layer) {progs progs' : List (Bytes × Option Bytes)} (hl : SameLayer l' l)
    (hp : progs'.Perm progs) (hnd : (progs.map (·.1)).Nodup) (hall : ∀ p ∈ progs, p.2.isSome = true) :
    (replaceExecdLoop l' progs').2 = (replaceExecdLoop l progs).2 ∧
      SameLayer (replaceExecdLoop l' progs').1 (replaceExecdLoop l progs).1 := by
  obtain ⟨hdir, htoml, hsb⟩ := hl
  cases hd : l.dir with
  | none =>
    cases hd' : l'.dir with
    | none =>
      have e1 : replaceExecdLoop l progs = (l, .err .missingLayer) := by simp [replaceExecdLoop, hd]
      have e2 : replaceExecdLoop l' progs' = (l', .err .missingLayer) := by simp [replaceExecdLoop, hd']
      rw [e1, e2]
      refine ⟨rfl, ?_, htoml, hsb⟩
      show SameOptDir l'.dir l.dir
      rw [hd, hd']
      rfl
    | some d' => rw [hd, hd'] at hdir; simp [SameOptDir] at hdir
  | some d =>
    cases hd' : l'.dir with
    | none => rw [hd, hd'] at hdir; simp [SameOptDir] at hdir
    | some d' =>
      rw [hd, hd'] at hdir
      have hext : Ext d' d := sameOptDir_some.mp hdir
      have hc := clearExecd_ext hext
      rw [replaceExecdLoop_some l' d' hd', replaceExecdLoop_some l d hd, isEmpty_perm hp]
      by_cases he : progs.isEmpty = true
      · rw [if_pos he, if_pos he]
        exact ⟨rfl, sameOptDir_some.mpr hc, htoml, hsb⟩
      · rw [if_neg he, if_neg he]
        have hk := kind_eq_of_ext hc nExecd
        have hall' : ∀ p ∈ progs', p.2.isSome = true := fun p hm => hall p (hp.mem_iff.mp hm)
        have hnd' : (progs'.map (·.1)).Nodup := (hp.map (·.1)).nodup_iff.mpr hnd
        have c := copyExecd_spec progs hall hnd []
        have c' := copyExecd_spec progs' hall' hnd' []
        cases hg : (clearExecd d).get nExecd with
        | some x =>
          cases hg' : (clearExecd d').get nExecd with
          | some y => exact ⟨rfl, by show SameOptDir l'.dir l.dir; rw [hd, hd']; exact hdir, htoml, hsb⟩
          | none => rw [hg, hg'] at hk; cases x <;> simp [kind] at hk
        | none =>
          cases hg' : (clearExecd d').get nExecd with
          | some y => rw [hg, hg'] at hk; cases y <;> simp [kind] at hk
          | none =>
            dsimp only
            rw [c.1, c'.1]
            refine ⟨rfl, ?_, htoml, hsb⟩
            apply sameOptDir_some.mpr
            apply ext_set hc
            rw [canonNode_dir, canonNode_dir]
            congr 1
            apply (sameDir_iff_ext _ _).mpr
            apply ext_of_get_eq
            intro n
            rw [c.2 n, c'.2 n, progLookup_perm hp hnd]

/-- with every source present the loop model and the C01 model write the same layer -/
theorem replaceExecdLoop_refines (l : Layer) (progs : List (Bytes × Option Bytes)) (hnd : (progs.map (·.1)).Nodup)
    (hall : ∀ p ∈ progs, p.2.isSome = true) :
    (replaceExecdLoop l progs).2 = (replaceExecd l progs).2 ∧ SameLayer (replaceExecdLoop l progs).1 (replaceExecd l progs).1 := by
  cases hd : l.dir with
  | none => simp [replaceExecdLoop, replaceExecd, hd, sameLayer_refl]
  | some d =>
    rw [replaceExecdLoop_some l d hd, replaceExecd_some l d hd]
    by_cases he : progs.isEmpty = true
    · simp [he, sameLayer_refl]
    · simp only [he]
      cases hg : (clearExecd d).get nExecd with
      | some x => simp [sameLayer_refl]
      | none =>
        have c := copyExecd_spec progs hall hnd []
        cases hA : allSome (progs.map progFile) with
        | none =>
          -- impossible: every source is present
          exfalso
          have : ∀ (ps : List (Bytes × Option Bytes)), (∀ p ∈ ps, p.2.isSome = true) → (allSome (ps.map progFile)).isSome = true := by
            intro ps
            induction ps with
            | nil => intro _; rfl
            | cons e r ih =>
              intro h
              obtain ⟨k, ob⟩ := e
              cases ob with
              | none => have := h (k, none) List.mem_cons_self; simp at this
              | some b =>
                simp only [List.map_cons, progFile, Option.map_some, allSome, Option.isSome_map]
                exact ih (fun p hp => h p (List.mem_cons_of_mem _ hp))
          have h2 := this progs hall
          rw [hA] at h2
          simp at h2
        | some files =>
          simp only [c.1]
          refine ⟨rfl, ?_, rfl, rfl⟩
          apply sameOptDir_some.mpr
          apply ext_set (Ext.refl _)
          rw [canonNode_dir, canonNode_dir]
          congr 1
          apply (sameDir_iff_ext _ _).mpr
          apply ext_of_get_eq
          intro n
          rw [c.2 n, allSome_files_get _ _ hA]
          cases progLookup progs n <;> rfl

/-! ### trait API `write_layer`: both loops -/
theorem writeLayerTrait_perm (l : Layer) (t : LTypes) (m : Option MetaTbl) (le : LayerEnv)
    {procs procs' : List (Bytes × Delta)} (sb : List (Nat × Bytes)) {progs progs' : List (Bytes × Option Bytes)}
    (hpp : procs'.Perm procs) (hpe : progs'.Perm progs)
    (hl : LayerOk (l.dir.getD [])) (hok : ProcOk { le with process := procs })
    (hnd : (progs.map (·.1)).Nodup) (hall : ∀ p ∈ progs, p.2.isSome = true) :
    (writeLayerTrait l t m le procs' sb progs').2 = (writeLayerTrait l t m le procs sb progs).2 ∧
      SameLayer (writeLayerTrait l t m le procs' sb progs').1 (writeLayerTrait l t m le procs sb progs).1 := by
  obtain ⟨a, b, ha, hb, hab⟩ := writeToLayerDir_perm { le with process := procs } procs' (l.dir.getD []) hpp hl hok
  have ha' : writeToLayerDir { le with process := procs' } (l.dir.getD []) = some a := ha
  unfold writeLayerTrait
  simp only [ha', hb, replaceSboms]
  exact replaceExecdLoop_ext _ _ ⟨sameOptDir_some.mpr hab, rfl, rfl⟩ hpe hnd hall

/-! ### a restored `exec.d` written again: what it held before does not reach the result -/

theorem erase_set_same (d : Dir) (n : Bytes) (x : Node) : (d.set n x).erase n = d.erase n := by
  simp [Dir.set, Dir.erase, List.filter_filter]

/-- `Dir` level: an existing `exec.d` directory is removed first, so its entries (files, links, directories) are gone
before anything is written -/
theorem replaceExecdLoop_forgets (l : Layer) (d old : Dir) (progs : List (Bytes × Option Bytes)) :
    replaceExecdLoop { l with dir := some (d.set nExecd (.dir old)) } progs =
      replaceExecdLoop { l with dir := some (d.erase nExecd) } progs := by
  rw [replaceExecdLoop_some _ _ rfl, replaceExecdLoop_some _ _ rfl]
  have h1 : clearExecd (d.set nExecd (.dir old)) = d.erase nExecd := by
    unfold clearExecd; rw [Dir.get_set_eq]; exact erase_set_same d nExecd _
  have h2 : clearExecd (d.erase nExecd) = d.erase nExecd := by
    unfold clearExecd; rw [Dir.get_erase_eq]
  rw [h1, h2, Dir.get_erase_eq]

/-- every name is a file created by the call itself -/
def OwnOnly (ns : List (Bytes × XEnt)) : Prop := ∀ e ∈ ns, ∃ b, e.2 = .own b

theorem lookup_ownOnly : ∀ {ns : List (Bytes × XEnt)}, OwnOnly ns → ∀ n, List.lookup n ns = none ∨ ∃ b, List.lookup n ns = some (.own b)
  | [], _, n => Or.inl rfl
  | (k, v) :: r, h, n => by
    by_cases hn : n = k
    · subst hn
      obtain ⟨b, hb⟩ := h (n, v) List.mem_cons_self
      exact Or.inr ⟨b, by simp [List.lookup, ← hb]⟩
    · have hb : (n == k) = false := by simpa using hn
      simp only [List.lookup, hb]
      exact lookup_ownOnly (fun e he => h e (List.mem_cons_of_mem _ he)) n

theorem ownOnly_set {ns : List (Bytes × XEnt)} (h : OwnOnly ns) (n b : Bytes) :
    OwnOnly ((n, XEnt.own b) :: ns.filter (fun kv => kv.1 != n)) := by
  intro e he
  rcases List.mem_cons.mp he with rfl | he
  · exact ⟨b, rfl⟩
  · exact h e (List.mem_filter.mp he).1

theorem copyTo_ownOnly (fs : XFs) (h : OwnOnly fs.names) (n b : Bytes) (fuel : Nat) :
    fs.copyTo n b (fuel + 1) = some (fs.setName n (.own b)) := by
  unfold XFs.copyTo
  rcases lookup_ownOnly h n with h0 | ⟨b', h0⟩ <;> rw [h0]

/-- the names after copying `progs` into a directory that holds only files of the call's own -/
def ownNames : List (Bytes × XEnt) → List (Bytes × Bytes) → List (Bytes × XEnt)
  | acc, [] => acc
  | acc, (n, b) :: r => ownNames ((n, .own b) :: acc.filter (fun kv => kv.1 != n)) r

theorem ownNames_ownOnly : ∀ (progs : List (Bytes × Bytes)) (acc : List (Bytes × XEnt)), OwnOnly acc → OwnOnly (ownNames acc progs)
  | [], _, h => h
  | (n, b) :: r, _, h => ownNames_ownOnly r _ (ownOnly_set h n b)

theorem copyAll_ownOnly : ∀ (progs : List (Bytes × Bytes)) (fs : XFs), OwnOnly fs.names →
    XFs.copyAll fs progs = ({ fs with names := ownNames fs.names progs }, true)
  | [], fs, _ => rfl
  | (n, b) :: r, fs, h => by
    unfold XFs.copyAll
    rw [copyTo_ownOnly fs h n b 39]
    exact copyAll_ownOnly r (fs.setName n (.own b)) (ownOnly_set h n b)

def ownView (ns : List (Bytes × XEnt)) : Dir :=
  ns.map (fun kv => (kv.1, match kv.2 with | .own b => Node.file b | _ => Node.dir []))

theorem toDir_ownOnly (fs : XFs) (h : OwnOnly fs.names) : fs.toDir = ownView fs.names := by
  unfold XFs.toDir ownView
  apply List.map_congr_left
  intro e he
  obtain ⟨b, hb⟩ := h e he
  rw [hb]
  rfl

theorem ownView_ownNames : ∀ (progs : List (Bytes × Bytes)) (acc : List (Bytes × XEnt)),
    ownView (ownNames acc progs) = (copyExecd (ownView acc) (progs.map (fun p => (p.1, some p.2)))).1
  | [], _ => rfl
  | (n, b) :: r, acc => by
    simp only [ownNames, List.map_cons, copyExecd]
    rw [ownView_ownNames r]
    congr 2
    simp [ownView, Dir.set, Dir.erase, List.filter_map, Function.comp_def]

theorem lookup_map_some : ∀ (progs : List (Bytes × Bytes)) (n : Bytes),
    List.lookup n (progs.map (fun p => (p.1, some p.2))) = (List.lookup n progs).map some
  | [], _ => rfl
  | (k, b) :: r, n => by
    by_cases hn : n = k
    · subst hn; simp [List.lookup]
    · have hb : (n == k) = false := by simpa using hn
      simp only [List.map_cons, List.lookup, hb]
      exact lookup_map_some r n

/-- storage level: the wipe leaves no pre-existing name, so the loop only ever creates files of its own — it
completes, writes no pre-existing storage, and `exec.d` is what the `Dir`-level loop writes into an empty directory -/
theorem replaceExecdX_spec (fs : XFs) (progs : List (Bytes × Bytes)) (hne : progs ≠ []) :
    ∃ r, replaceExecdX fs progs = (some r, true) ∧ r.data = fs.data ∧ r.outer = fs.outer ∧ OwnOnly r.names ∧
      r.toDir = (copyExecd [] (progs.map (fun p => (p.1, some p.2)))).1 := by
  have he : progs.isEmpty = false := by cases progs <;> simp_all
  have h0 : OwnOnly ({ fs with names := [] } : XFs).names := fun e he => by cases he
  refine ⟨{ fs with names := ownNames [] progs }, ?_, rfl, rfl, ownNames_ownOnly progs [] h0, ?_⟩
  · unfold replaceExecdX
    rw [he, copyAll_ownOnly progs _ h0]
    rfl
  · rw [toDir_ownOnly _ (ownNames_ownOnly progs [] h0)]
    exact ownView_ownNames progs []

/-- … and a lookup in it gives the wanted program's own bytes -/
theorem copyExecd_get_wanted (progs : List (Bytes × Bytes)) (hnd : (progs.map (·.1)).Nodup) (n : Bytes) :
    Dir.get (copyExecd [] (progs.map (fun p => (p.1, some p.2)))).1 n = (List.lookup n progs).map Node.file := by
  have hall : ∀ p ∈ progs.map (fun p => (p.1, some p.2)), p.2.isSome = true := by
    intro p hp
    obtain ⟨q, _, rfl⟩ := List.mem_map.mp hp
    rfl
  have hnd' : ((progs.map (fun p => ((p.1, some p.2) : Bytes × Option Bytes))).map (·.1)).Nodup := by
    simpa [List.map_map, Function.comp_def] using hnd
  rw [(copyExecd_spec _ hall hnd' []).2 n]
  unfold progLookup
  rw [lookup_map_some]
  cases List.lookup n progs <;> rfl

end CnbVerif.Det
