import CnbVerif.Lemmas.LayerEnv
import CnbVerif.Spec.EnvSpec
namespace CnbVerif
open Spec

/-! ### process map -/
theorem procGet_procSet (m : List (Bytes × Delta)) (p q : Bytes) (d : Delta) :
    procGet (procSet m p d) q = if p = q then some d else procGet m q := by
  induction m with
  | nil =>
    by_cases h : p = q
    · subst h; simp [procSet, procGet, List.lookup]
    · have : (q == p) = false := by simpa using fun e => h e.symm
      simp [procSet, procGet, List.lookup, h, this]
  | cons kv r ih =>
    obtain ⟨k, x⟩ := kv
    simp only [procSet]
    by_cases hk : k = p
    · subst hk
      by_cases h : k = q
      · subst h; simp [procGet, List.lookup]
      · have : (q == k) = false := by simpa using fun e => h e.symm
        simp [procGet, List.lookup, h, this]
    · simp only [hk, if_false]
      unfold procGet at ih ⊢
      by_cases h : p = q
      · subst h
        have : (p == k) = false := by simpa using fun e => hk e.symm
        simp only [List.lookup, this, ih]
      · simp only [h, if_false] at ih ⊢
        simp only [List.lookup, ih]

/-! ### well-formedness: every delta is in BTreeMap iteration order -/
structure LayerEnv.WF (le : LayerEnv) : Prop where
  all : Sorted le.all
  build : Sorted le.build
  launch : Sorted le.launch
  process : ∀ p d, procGet le.process p = some d → Sorted d
  pathsBuild : Sorted le.pathsBuild
  pathsLaunch : Sorted le.pathsLaunch

theorem LayerEnv.wf_empty : LayerEnv.empty.WF :=
  ⟨sorted_nil, sorted_nil, sorted_nil, by intro p d h; simp [LayerEnv.empty, procGet] at h, sorted_nil, sorted_nil⟩

theorem LayerEnv.wf_insert {le : LayerEnv} (h : le.WF) (s : Scope) (b : Beh) (n v : Bytes) :
    (le.insert s b n v).WF := by
  cases s with
  | all => exact ⟨sorted_insert h.all _ _ _, h.build, h.launch, h.process, h.pathsBuild, h.pathsLaunch⟩
  | build => exact ⟨h.all, sorted_insert h.build _ _ _, h.launch, h.process, h.pathsBuild, h.pathsLaunch⟩
  | launch => exact ⟨h.all, h.build, sorted_insert h.launch _ _ _, h.process, h.pathsBuild, h.pathsLaunch⟩
  | process p =>
    refine ⟨h.all, h.build, h.launch, ?_, h.pathsBuild, h.pathsLaunch⟩
    intro q d hq
    simp only [LayerEnv.insert, procGet_procSet] at hq
    by_cases hpq : p = q
    · simp only [hpq, if_true, Option.some.injEq] at hq
      subst hq
      apply sorted_insert
      cases hg : procGet le.process q with
      | none => exact sorted_nil
      | some d0 => exact h.process q d0 hg
    · simp only [hpq, if_false] at hq
      exact h.process q d hq

theorem LayerEnv.scoped_sorted {le : LayerEnv} (h : le.WF) (s : Scope) : Sorted (le.scoped s) := by
  cases s with
  | all => exact h.all
  | build => exact h.build
  | launch => exact h.launch
  | process p =>
    simp only [LayerEnv.scoped]
    cases hg : procGet le.process p with
    | none => exact sorted_nil
    | some d => exact h.process p d hg

theorem LayerEnv.scoped_insert (le : LayerEnv) (s s' : Scope) (b : Beh) (n v : Bytes) :
    (le.insert s b n v).scoped s' = if s = s' then (le.scoped s').insert b n v else le.scoped s' := by
  cases s <;> cases s' <;> simp [LayerEnv.insert, LayerEnv.scoped, procGet_procSet]
  rename_i p q
  by_cases h : p = q
  · subst h; simp
  · simp [h]

def Spec.Ins.apply (le : LayerEnv) (i : Ins) : LayerEnv := le.insert i.scope i.beh i.name i.val

/-- the layer environment a buildpack gets from `LayerEnv::new()` followed by the inserts -/
def buildEnv (ins : List Ins) : LayerEnv := ins.foldl Ins.apply LayerEnv.empty

theorem wf_foldl (ins : List Ins) (le : LayerEnv) (h : le.WF) : (ins.foldl Ins.apply le).WF := by
  induction ins generalizing le with
  | nil => exact h
  | cons i t ih => exact ih _ (LayerEnv.wf_insert h _ _ _ _)

theorem wf_buildEnv (ins : List Ins) : (buildEnv ins).WF := wf_foldl ins _ LayerEnv.wf_empty

theorem find_foldl (ins : List Ins) (le : LayerEnv) (s : Scope) (b : Beh) (n : Bytes) :
    ((ins.foldl Ins.apply le).scoped s).find b n =
      ins.foldl (fun acc i => if i.scope = s ∧ i.beh = b ∧ i.name = n then some i.val else acc)
        ((le.scoped s).find b n) := by
  induction ins generalizing le with
  | nil => rfl
  | cons i t ih =>
    simp only [List.foldl_cons]
    rw [ih]
    congr 1
    simp only [Ins.apply, LayerEnv.scoped_insert]
    by_cases hs : i.scope = s
    · simp only [hs, if_true, find_insert, true_and]
    · simp [hs]

theorem find_buildEnv (ins : List Ins) (s : Scope) (b : Beh) (n : Bytes) :
    ((buildEnv ins).scoped s).find b n = lookIns ins s b n := by
  unfold buildEnv lookIns
  rw [find_foldl]
  cases s <;> rfl

theorem paths_foldl (ins : List Ins) (le : LayerEnv) :
    (ins.foldl Ins.apply le).pathsBuild = le.pathsBuild ∧ (ins.foldl Ins.apply le).pathsLaunch = le.pathsLaunch := by
  induction ins generalizing le with
  | nil => exact ⟨rfl, rfl⟩
  | cons i t ih =>
    simp only [List.foldl_cons]
    rw [(ih _).1, (ih _).2]
    cases hi : i.scope <;> simp [Ins.apply, LayerEnv.insert, hi]

theorem ruleVar_none (prev : Option Bytes) : ruleVar (fun _ => none) prev = prev := rfl

theorem delta_apply_nil (env : Env) : Delta.apply [] env = env := rfl

/-- `LayerEnv::apply` seen through one variable, for any well-formed layer environment. -/
theorem layerEnv_apply_get (le : LayerEnv) (h : le.WF) (s : Scope) (env : Env) (n : Bytes) :
    (le.apply s env).get n =
      let afterAll := ruleVar (fun b => le.all.find b n) (env.get n)
      match s with
      | .all => afterAll
      | .build => ruleVar (fun b => le.pathsBuild.find b n) (ruleVar (fun b => le.build.find b n) afterAll)
      | .launch => ruleVar (fun b => le.pathsLaunch.find b n) (ruleVar (fun b => le.launch.find b n) afterAll)
      | .process p => ruleVar (fun b => (le.scoped (.process p)).find b n) afterAll := by
  cases s with
  | all => simp [LayerEnv.apply, LayerEnv.deltas, delta_apply_get _ h.all]
  | build =>
    simp [LayerEnv.apply, LayerEnv.deltas, delta_apply_get _ h.all, delta_apply_get _ h.build,
      delta_apply_get _ h.pathsBuild]
  | launch =>
    simp [LayerEnv.apply, LayerEnv.deltas, delta_apply_get _ h.all, delta_apply_get _ h.launch,
      delta_apply_get _ h.pathsLaunch]
  | process p =>
    simp only [LayerEnv.apply, LayerEnv.deltas, LayerEnv.scoped]
    cases hg : procGet le.process p with
    | none =>
      simp [delta_apply_get _ h.all, Delta.find, ruleVar_none]
    | some d =>
      simp [delta_apply_get _ h.all, delta_apply_get _ (h.process p d hg)]

end CnbVerif
