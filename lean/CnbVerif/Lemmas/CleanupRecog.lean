import CnbVerif.Spec.Cleanup
import CnbVerif.Lemmas.ArgvPack
import CnbVerif.Lemmas.TestRunner
/-! How docker's reference grammar reads each typed command of the model (C16): which commands start a detached
container, which remove a container / an image / volumes. -/
set_option linter.unusedSimpArgs false
namespace CnbVerif.TestRunner
open CnbVerif CnbVerif.Argv CnbVerif.ArgvLemmas CnbVerif.Spec.Pflag CnbVerif.Spec.Cleanup

theorem lastOf_runOpts_name (c : DockerRunCommand) : lastOf (runOpts c) w!"name" = some c.containerName := by
  unfold runOpts lastOf
  cases c.detach <;> cases c.remove <;> cases c.platform <;> cases c.entrypoint <;>
    simp [valuesOf_append, valuesOf_map, valuesOf_cons, valuesOf_nil]

theorem boolOf_runOpts_detach (c : DockerRunCommand) : boolOf (runOpts c) w!"detach" = some c.detach := by
  unfold runOpts boolOf
  cases c.detach <;> cases c.remove <;> cases c.platform <;> cases c.entrypoint <;>
    simp [valuesOf_append, valuesOf_map, valuesOf_cons, valuesOf_nil, allSome, parseBool, wTrue]

/-- the first word of each command -/
def ACmd.headWord : ACmd → Word
  | .packBuild _ => w!"build"
  | .sbom _ _ => w!"sbom"
  | .run _ => w!"run"
  | .exec _ _ => w!"exec"
  | .logs _ _ => w!"logs"
  | .port _ _ => w!"port"
  | .rm _ => w!"rm"
  | .rmi _ => w!"rmi"
  | .volRm _ => w!"volume"

theorem toCmd_args (a : ACmd) : ∃ r, a.toCmd.args = a.headWord :: r := by
  cases a with
  | run c => exact ⟨_, dockerRunArgv_eq c⟩
  | packBuild c => exact ⟨_, packBuildArgv_eq c⟩
  | _ => exact ⟨_, rfl⟩

theorem toCmd_prog (a : ACmd) : a.toCmd.prog = (match a with | .packBuild _ => .pack | .sbom _ _ => .pack | _ => .docker) := by
  cases a <;> rfl

/-! #### `docker run` -/

theorem runName_run (c : DockerRunCommand) (h : c.imageName.head? ≠ some 45) :
    runName (ACmd.run c).toCmd = some (c.containerName, c.detach) := by
  obtain ⟨rest, e, hp⟩ := parseArgs_dockerRun c h
  simp only [runName, dockerSub, ACmd.toCmd, e, if_true, hp, lastOf_runOpts_name, boolOf_runOpts_detach]

theorem runName_other (a : ACmd) (h : ∀ c, a ≠ .run c) : runName a.toCmd = none := by
  obtain ⟨r, e⟩ := toCmd_args a
  have hp := toCmd_prog a
  cases a with
  | run c => exact absurd rfl (h c)
  | packBuild c => simp [runName, dockerSub, hp]
  | sbom i d => simp [runName, dockerSub, hp]
  | _ => simp [runName, dockerSub, hp, e, ACmd.headWord]

/-! #### removals -/

theorem containerRemoval_rm (n : Word) (h : n.head? ≠ some 45) :
    containerRemoval (ACmd.rm n).toCmd = some ⟨[n], true, []⟩ := by
  simp [containerRemoval, ACmd.toCmd, parseDockerRm_argv n h]

theorem containerRemoval_other (a : ACmd) (h : ∀ n, a ≠ .rm n) : containerRemoval a.toCmd = none := by
  obtain ⟨r, e⟩ := toCmd_args a
  have hp := toCmd_prog a
  cases a with
  | rm n => exact absurd rfl (h n)
  | packBuild c => simp [containerRemoval, hp]
  | sbom i d => simp [containerRemoval, hp]
  | _ => simp [containerRemoval, hp, e, ACmd.headWord, Spec.Docker.parseDockerRm]

theorem imageRemoval_rmi (i : Word) (h : i.head? ≠ some 45) :
    imageRemoval (ACmd.rmi i).toCmd = some ⟨[i], true, []⟩ := by
  simp [imageRemoval, ACmd.toCmd, parseDockerRmi_argv i h]

theorem imageRemoval_other (a : ACmd) (h : ∀ n, a ≠ .rmi n) : imageRemoval a.toCmd = none := by
  obtain ⟨r, e⟩ := toCmd_args a
  have hp := toCmd_prog a
  cases a with
  | rmi n => exact absurd rfl (h n)
  | packBuild c => simp [imageRemoval, hp]
  | sbom i d => simp [imageRemoval, hp]
  | _ => simp [imageRemoval, hp, e, ACmd.headWord, Spec.Docker.parseDockerRmi]

theorem volumeRemoval_volRm (vs : List Word) (hne : vs ≠ []) (h : ∀ v ∈ vs, v.head? ≠ some 45) :
    volumeRemoval (ACmd.volRm vs).toCmd = some ⟨vs, true, []⟩ := by
  simp [volumeRemoval, ACmd.toCmd, parseDockerVolumeRm_argv vs hne h]

theorem volumeRemoval_other (a : ACmd) (h : ∀ n, a ≠ .volRm n) : volumeRemoval a.toCmd = none := by
  obtain ⟨r, e⟩ := toCmd_args a
  have hp := toCmd_prog a
  cases a with
  | volRm n => exact absurd rfl (h n)
  | packBuild c => simp [volumeRemoval, hp]
  | sbom i d => simp [volumeRemoval, hp]
  | _ =>
    simp only [volumeRemoval, hp, e, ACmd.headWord]
    cases r with
    | nil => simp [Spec.Docker.parseDockerVolumeRm]
    | cons x xs => simp [Spec.Docker.parseDockerVolumeRm]

end CnbVerif.TestRunner
