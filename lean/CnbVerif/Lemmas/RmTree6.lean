import CnbVerif.Lemmas.RmTree5
/-! Lemmas for C11, part 6: requests whose buildpack part fails — the deciding callback (nothing was deleted), or
`Layer::create` after the deleting half (no entry of the old layer survives). -/
namespace CnbVerif.RmTree
open CnbVerif CnbVerif.Spec.Frame

/-! ### the propositions imply their executable checks -/

theorem oldGoneB_of_oldGone {n : Name} {b a : FS} (h : OldGone n b a) : oldGoneB n b a = true := by
  obtain ⟨h1, h2, h3⟩ := h
  unfold oldGoneB
  have e1 : (a.map Prod.fst).all (fun p => !below n p || (fget a p).isNone) = true := by
    rw [List.all_eq_true]
    intro p _
    cases hb : below n p with
    | false => rfl
    | true => simp [h1 p hb]
  have e2 : (match fget a (layerDir n) with | none => true | some (.dir _) => true | _ => false) = true := by
    rcases h2 with h | ⟨m, h⟩ <;> rw [h]
  have e3 : (sideFiles n).all (fun p => (fget b p).isNone || !sameNode (fget a p) (fget b p)) = true := by
    rw [List.all_eq_true]
    intro p hp
    cases hb : fget b p with
    | none => rfl
    | some v =>
      have := h3 p hp v hb
      simp [sameNode, this]
  simp only [e1, e3, Bool.and_true, Bool.true_and]
  exact e2

theorem intactB_of_intact {n : Name} {b a : FS} (h : Intact n b a) : intactB n b a = true := by
  unfold intactB
  rw [List.all_eq_true]
  intro p _
  cases ho : own n p with
  | false => rfl
  | true =>
    rcases h p ho with e | ⟨e1, e2⟩
    · simp [sameNode, e]
    · subst e1; simp [e2]

/-! ### what the model leaves when `Layer::create` fails after the deletion -/

/-- an empty real directory at `<layers>/<n>` and no other own path -/
def EmptyDirOnly (n : Name) (a : FS) : Prop :=
  (∃ m, fget a (layerPath n) = some (.dir m)) ∧ ∀ p, own n p = true → p ≠ layerPath n → fget a p = none

theorem oldGone_of_emptyDirOnly {n : Name} (b : FS) {a : FS} (h : EmptyDirOnly n a) : OldGone n b a := by
  obtain ⟨hd, hrest⟩ := h
  refine ⟨?_, Or.inr (by rw [layerDir_eq]; exact hd), ?_⟩
  · intro p hp
    obtain ⟨hpre, hne⟩ := (below_iff n p).mp hp
    exact hrest p ((own_iff n p).mpr (Or.inl hpre)) hne
  · intro p hp v _ hv
    have hmem : p ∈ tomlPath n :: sbomPaths n := by
      unfold sideFiles at hp
      rw [layerToml_eq, layerSboms_eq] at hp
      exact hp
    have hne : p ≠ layerPath n := by
      intro e; subst e
      rcases List.mem_cons.mp hmem with h | h
      · exact tomlPath_ne_layerPath n h.symm
      · exact layerPath_not_sbom n h
    rw [hrest p ((own_iff n p).mpr (Or.inr hmem)) hne] at hv
    cases hv

/-- `create_layer` fails at the stage `write` or — the buildpack's `create` — `create`, nowhere else -/
theorem createLayer_stage (root : Bool) (api : Api) (bp : Bp) (s : FS) (n : Name) (st : Stage) (e : Err)
    (h : (createLayer root api bp s n).1 = .error (st, e)) : st = .write ∨ (st = .create ∧ createFails api bp = true) := by
  unfold createLayer at h
  split at h
  · cases h; exact Or.inl rfl
  · split at h
    · rename_i hcf; cases h; exact Or.inr ⟨rfl, hcf⟩
    · split at h
      · cases h; exact Or.inl rfl
      · split at h
        · split at h
          · split at h
            · cases h; exact Or.inl rfl
            · cases h
          · cases h; exact Or.inl rfl
        · cases h

/-- `Layer::create` failing on a deleted layer: the new empty directory is all there is -/
theorem createLayer_create_err (root : Bool) (api : Api) (bp : Bp) (s : FS) (n : Name) (hd : isDirAt s [layersName] = true)
    (hg : Gone n s) (e : Err) (h : (createLayer root api bp s n).1 = .error (.create, e)) :
    EmptyDirOnly n (createLayer root api bp s n).2 := by
  have hcf : createFails api bp = true := by
    rcases createLayer_stage root api bp s n _ _ h with h' | ⟨_, h'⟩
    · cases h'
    · exact h'
  have hL : fget s (layerPath n) = none := hg _ (own_layer n)
  unfold createLayer at h ⊢
  rcases mkdirAll_pair root s layersName n hd with ⟨e', he⟩ | ⟨_, hi⟩ | he
  · rw [show layerPath n = [layersName, n] from rfl, he] at h; cases h
  · rw [isDirB_absent root s layersName n hd hL] at hi; cases hi
  · rw [show layerPath n = [layersName, n] from rfl, he]
    simp only [hcf, if_true]
    refine ⟨⟨newDirMode, fget_fset_self _ _ _⟩, ?_⟩
    intro p hp hne
    rw [fget_fset_ne _ [layersName, n] p _ hne]
    exact hg p hp

theorem tag_fst_err {b : Bool} {r : CreateRes} {st : Stage} {e : Err} (h : (tag b r).1 = .error (st, e)) :
    ∃ st', r.1 = .error (st', e) ∧ st = (if b && decide (st' = .create) then Stage.recreate else st') := by
  obtain ⟨res, s⟩ := r
  cases res with
  | ok u => cases h
  | error x =>
    obtain ⟨st', e'⟩ := x
    simp only [tag] at h
    cases h
    exact ⟨st', rfl, rfl⟩

/-- a request fails at the stage `recreate` only through `tag true` of a `create` failure -/
theorem tag_recreate {root : Bool} {api : Api} {bp : Bp} {s : FS} {n : Name} {b : Bool} {e : Err}
    (h : (tag b (createLayer root api bp s n)).1 = .error (.recreate, e)) :
    b = true ∧ (createLayer root api bp s n).1 = .error (.create, e) := by
  obtain ⟨st', hr, hst⟩ := tag_fst_err h
  rcases createLayer_stage root api bp s n st' e hr with h' | ⟨h', _⟩
  · subst h'; cases b <;> simp at hst
  · subst h'
    cases b with
    | false => simp at hst
    | true => exact ⟨rfl, hr⟩

theorem tag_not_decide {root : Bool} {api : Api} {bp : Bp} {s : FS} {n : Name} {b : Bool} {e : Err}
    (h : (tag b (createLayer root api bp s n)).1 = .error (.decide, e)) : False := by
  obtain ⟨st', hr, hst⟩ := tag_fst_err h
  rcases createLayer_stage root api bp s n st' e hr with h' | ⟨h', _⟩
  · subst h'; cases b <;> simp at hst
  · subst h'; cases b <;> simp at hst

/-- a request whose `create` fails after the deletion leaves the new empty directory and nothing else of the layer -/
theorem request_failed_create_lemma (root : Bool) (api : Api) (bp : Bp) (t : FS) (n : Name) (hd : isDirAt t [layersName] = true)
    (hb : isDirAt t (layerPath n) = false → ∀ k, isPre (layerPath n) k = true → k ≠ layerPath n → fget t k = none)
    (e : Err) (herr : (request root api bp t n).1 = .error (.recreate, e)) :
    EmptyDirOnly n (request root api bp t n).2 := by
  unfold request at herr ⊢
  dsimp only at herr ⊢
  split at herr
  · have := (tag_recreate herr).1; cases this
  · rename_i h1
    rw [if_neg h1]
    split at herr
    · exfalso
      split at herr
      · cases herr
      · have := (tag_recreate herr).1; cases this
    · rename_i h2
      rw [if_neg h2]
      have hw : ∀ s1, (if existsB root t (tomlPath n) then Except.ok t else writeFile root t (tomlPath n) emptyToml)
          = .ok s1 → ∀ k, k ≠ tomlPath n → fget s1 k = fget t k := by
        intro s1 h
        split at h
        · cases h; intro _ _; rfl
        · rcases writeFile_pair root t layersName (tomlName n) emptyToml hd with ⟨e, he⟩ | ⟨m, he⟩
          · rw [show tomlPath n = [layersName, tomlName n] from rfl, he] at h; cases h
          · rw [show tomlPath n = [layersName, tomlName n] from rfl, he] at h; cases h
            intro k hk; exact fget_fset_ne _ _ _ _ hk
      cases hx : (if existsB root t (tomlPath n) then Except.ok t else writeFile root t (tomlPath n) emptyToml) with
      | error e => rw [hx] at herr; cases herr
      | ok s1 =>
        rw [hx] at herr
        dsimp only at herr ⊢
        have hsame := hw s1 hx
        have hf1 : Frame n t s1 := frame_of_own_key (own_toml n) hsame
        have hd1 := layersDir_of_frame hf1 hd
        have hb1 : isDirAt s1 (layerPath n) = false → ∀ k, isPre (layerPath n) k = true → k ≠ layerPath n →
            fget s1 k = none := by
          intro hnd k hk hne
          have hkt : k ≠ tomlPath n := by
            intro e; subst e
            obtain ⟨r, hr⟩ := (isPre_iff _ _).mp hk
            simp [tomlPath, layerPath] at hr
            exact tomlName_ne n hr.1
          rw [hsame k hkt]
          apply hb _ k hk hne
          unfold isDirAt at hnd ⊢
          rw [← hsame _ (Ne.symm (tomlPath_ne_layerPath n))]; exact hnd
        cases hr : readFile root s1 (tomlPath n) with
        | error e => rw [hr] at herr; cases herr
        | ok content =>
          rw [hr] at herr
          dsimp only at herr ⊢
          split at herr
          · cases herr
          · rename_i hgar
            simp only [hgar, if_false]
            split at herr
            · cases herr
            · rename_i hdec
              simp only [hdec, Bool.false_eq_true, if_false]
              have hgone := deleteLayer_gone root s1 n hd1 hb1
              have hfr := deleteLayer_frame root s1 n hd1
              generalize deleteLayer root s1 n = r at hgone hfr herr
              obtain ⟨res, s2⟩ := r
              cases res with
              | error e => cases herr
              | ok u =>
                dsimp only at herr ⊢
                rw [tag_snd]
                exact createLayer_create_err root api bp s2 n (layersDir_of_frame hfr hd1) (hgone rfl) e (tag_recreate herr).2

/-! ### the deciding callback fails: nothing of the layer was touched -/

/-- for a regular file `<d>/<x>` in a real directory `lstat` and `stat` are the same call -/
theorem stat_eq_lstat_file (root : Bool) (s : FS) (d x : Name) (hd : isDirAt s [d] = true) (m : Nat) (c : Bytes)
    (hv : fget s [d, x] = some (.file m c)) : stat root s [d, x] = lstat root s [d, x] := by
  unfold isDirAt at hd
  cases hg : fget s [d] with
  | none => rw [hg] at hd; cases hd
  | some v =>
    rw [hg] at hd
    cases v with
    | file _ _ => cases hd
    | link _ => cases hd
    | hard _ _ _ => cases hd
    | dir md =>
      have hg' : fget s ([] ++ [d]) = some (.dir md) := hg
      have hv' : fget s ([] ++ [d] ++ [x]) = some (.file m c) := hv
      have hwc : ∀ follow, walkComps root s follow [] [Comp.name d, Comp.name x] =
          if searchOk root s [] then (if searchOk root s [d] then StepRes.done [d, x] else .err .access)
          else .err .access := by
        intro follow
        simp [walkComps, hg, hv]
      unfold stat lstat resolve walk
      simp only [List.map]
      rw [hwc true, hwc false]
      by_cases h1 : searchOk root s [] = true <;> by_cases h2 : searchOk root s [d] = true <;> simp [h1, h2]

/-- the reader's normalisation writes `<name>.toml` only where nothing stood -/
theorem write_when_absent (root : Bool) (s s1 : FS) (d x : Name) (c : Bytes) (hd : isDirAt s [d] = true)
    (hex : existsB root s [d, x] = false) (hw : writeFile root s [d, x] c = .ok s1) : fget s [d, x] = none := by
  unfold writeFile at hw
  cases lstat_canon root s [d, x] (by simp) (canon_pair s d x hd) with
  | access h => rw [h] at hw; simp at hw
  | absent _ hn => exact hn
  | here v h hv =>
    rw [h] at hw
    cases v with
    | dir m => cases hw
    | link t => cases hw
    | hard i m c' => cases hw
    | file m c' =>
      exfalso
      unfold existsB at hex
      rw [stat_eq_lstat_file root s d x hd m c' hv, h] at hex
      cases hex

theorem request_failed_decide_lemma (root : Bool) (api : Api) (bp : Bp) (t : FS) (n : Name) (hd : isDirAt t [layersName] = true)
    (e : Err) (herr : (request root api bp t n).1 = .error (.decide, e)) :
    Intact n t (request root api bp t n).2 := by
  unfold request at herr ⊢
  dsimp only at herr ⊢
  split at herr
  · exact (tag_not_decide herr).elim
  · rename_i h1
    rw [if_neg h1]
    split at herr
    · exfalso
      split at herr
      · cases herr
      · exact tag_not_decide herr
    · rename_i h2
      rw [if_neg h2]
      have hw : ∀ s1, (if existsB root t (tomlPath n) then Except.ok t else writeFile root t (tomlPath n) emptyToml)
          = .ok s1 → Intact n t s1 := by
        intro s1 h
        split at h
        · cases h; intro _ _; exact Or.inl rfl
        · rename_i hex
          have hex' : existsB root t [layersName, tomlName n] = false := by
            cases hh : existsB root t (tomlPath n) with
            | true => exact absurd hh hex
            | false => exact hh
          have habs := write_when_absent root t s1 layersName (tomlName n) emptyToml hd hex' h
          rcases writeFile_pair root t layersName (tomlName n) emptyToml hd with ⟨e, he⟩ | ⟨m, he⟩
          · rw [show tomlPath n = [layersName, tomlName n] from rfl, he] at h; cases h
          · rw [show tomlPath n = [layersName, tomlName n] from rfl, he] at h; cases h
            intro p _
            by_cases hp : p = tomlPath n
            · exact Or.inr ⟨hp, by rw [hp]; exact habs⟩
            · exact Or.inl (fget_fset_ne _ _ _ _ hp)
      cases hx : (if existsB root t (tomlPath n) then Except.ok t else writeFile root t (tomlPath n) emptyToml) with
      | error e => rw [hx] at herr; cases herr
      | ok s1 =>
        rw [hx] at herr
        dsimp only at herr ⊢
        cases hr : readFile root s1 (tomlPath n) with
        | error e => rw [hr] at herr; cases herr
        | ok content =>
          rw [hr] at herr
          dsimp only at herr ⊢
          split at herr
          · cases herr
          · rename_i hgar
            simp only [hgar, if_false]
            split at herr
            · rename_i hdec
              simp only [hdec, if_true]
              exact hw s1 hx
            · exfalso
              generalize deleteLayer root s1 n = r at herr
              obtain ⟨res, s2⟩ := r
              cases res with
              | error e => cases herr
              | ok u => exact tag_not_decide herr

/-- how the specification classifies the model's result -/
def outcomeOf : Except (Stage × Err) Bool → Outcome
  | .ok true => .recreated
  | .error (.recreate, _) => .failedCreate
  | .error (.decide, _) => .failedDecide
  | _ => .other

end CnbVerif.RmTree
