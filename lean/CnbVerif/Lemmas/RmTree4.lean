import CnbVerif.Lemmas.RmTree3
/-! Lemmas for C11, part 4: the propositions of `Spec.Frame` imply its executable checks; the recreated layer. -/
namespace CnbVerif.RmTree
open CnbVerif CnbVerif.Spec.Frame

theorem frameB_of_frame {n : Name} {b a : FS} (h : Frame n b a) : frameB n b a = true := by
  unfold frameB frameBreach
  rw [Option.isNone_iff_eq_none, List.find?_eq_none]
  intro p _
  cases ho : outside n p with
  | false => simp
  | true => simp [sameNode, h p ho]

theorem goneB_of_gone {n : Name} {a : FS} (h : Gone n a) : goneB n a = true := by
  unfold goneB
  rw [List.all_eq_true]
  intro p _
  cases ho : own n p with
  | false => simp
  | true => simp [h p ho]

theorem recreatedB_of_recreated {n : Name} {toml : Bytes} {a : FS} (h : Recreated n toml a) :
    recreatedB n toml a = true := by
  obtain ⟨⟨m, h1⟩, h2, ⟨m', h3⟩, h4⟩ := h
  unfold recreatedB
  rw [h1, h3]
  have e1 : (a.map Prod.fst).all (fun p => !below n p || (fget a p).isNone) = true := by
    rw [List.all_eq_true]
    intro p _
    cases hb : below n p with
    | false => rfl
    | true => simp [h2 p hb]
  have e2 : (layerSboms n).all (fun p => (fget a p).isNone) = true := by
    rw [List.all_eq_true]
    intro p hp
    simp [h4 p hp]
  rw [e1, e2]
  simp

/-! ### the recreated layer -/

theorem below_iff (n : Name) (p : Path) : below n p = true ↔ isPre (layerPath n) p = true ∧ p ≠ layerPath n := by
  unfold below
  rw [prefixOf_eq_isPre, layerDir_eq]
  simp

theorem below_len {n : Name} {p : Path} (h : below n p = true) : 2 < p.length := by
  obtain ⟨hp, hne⟩ := (below_iff n p).mp h
  obtain ⟨r, rfl⟩ := (isPre_iff _ _).mp hp
  cases r with
  | nil => simp at hne
  | cons a b => simp [layerPath]

theorem sbomName_ne (n : Name) (e : Bytes) : sbomName n e ≠ n := by
  intro h
  have := congrArg List.length h
  simp [sbomName] at this

theorem sbomName_ne_toml (n : Name) (e : Bytes) : sbomName n e ≠ tomlName n := by
  intro h
  simp [sbomName, tomlName] at h

theorem layerPath_not_sbom (n : Name) : layerPath n ∉ sbomPaths n := by
  intro h
  obtain ⟨e, _, he⟩ := List.mem_map.mp h
  simp [layerPath] at he
  exact sbomName_ne n e he

theorem tomlPath_not_sbom (n : Name) : tomlPath n ∉ sbomPaths n := by
  intro h
  obtain ⟨e, _, he⟩ := List.mem_map.mp h
  simp [tomlPath] at he
  exact sbomName_ne_toml n e he

/-- after a successful deletion the directory cannot be "already there" -/
theorem isDirB_absent (root : Bool) (s : FS) (d x : Name) (hd : isDirAt s [d] = true) (hn : fget s [d, x] = none) :
    isDirB root s [d, x] = false := by
  unfold isDirB
  cases stat_canon root s [d, x] (by simp) (canon_pair s d x hd) (by simp [isLinkAt, hn]) with
  | access h => rw [h]
  | absent h _ => rw [h]
  | here v h hv => rw [hn] at hv; cases hv

theorem createLayer_recreated (root : Bool) (api : Api) (bp : Bp) (s : FS) (n : Name) (hd : isDirAt s [layersName] = true)
    (hg : Gone n s) (hok : (createLayer root api bp s n).1 = .ok ()) :
    Recreated n (freshToml api) (createLayer root api bp s n).2 := by
  have hL : fget s (layerPath n) = none := hg _ (own_layer n)
  have hT : fget s (tomlPath n) = none := hg _ (own_toml n)
  unfold createLayer at hok ⊢
  rcases mkdirAll_pair root s layersName n hd with ⟨e, he⟩ | ⟨_, hi⟩ | he
  · rw [show layerPath n = [layersName, n] from rfl, he] at hok; cases hok
  · rw [isDirB_absent root s layersName n hd hL] at hi; cases hi
  · rw [show layerPath n = [layersName, n] from rfl] at hok ⊢
    rw [he] at hok ⊢
    dsimp only at hok ⊢
    cases hcf : createFails api bp with
    | true => rw [hcf] at hok; cases hok
    | false =>
    rw [hcf] at hok
    simp only [Bool.false_eq_true, if_false] at hok ⊢
    -- s1: the directory exists
    have hf1 : Frame n s (fset s [layersName, n] (.dir newDirMode)) := frame_fset_own s _ (own_layer n)
    have hd1 := layersDir_of_frame hf1 hd
    rcases writeFile_pair root (fset s [layersName, n] (.dir newDirMode)) layersName (tomlName n) (freshToml api) hd1
      with ⟨e, hw⟩ | ⟨m, hw⟩
    · rw [show tomlPath n = [layersName, tomlName n] from rfl, hw] at hok; cases hok
    · rw [show tomlPath n = [layersName, tomlName n] from rfl] at hok ⊢
      rw [hw] at hok ⊢
      dsimp only at hok ⊢
      -- facts about s2
      have key : ∀ (s3 : FS), (∀ k, k ∉ sbomPaths n →
            fget s3 k = fget (fset (fset s [layersName, n] (.dir newDirMode)) [layersName, tomlName n] (.file m (freshToml api))) k) →
          (∀ k ∈ sbomPaths n, fget s3 k = none) → Recreated n (freshToml api) s3 := by
        intro s3 hsame hsb
        refine ⟨⟨newDirMode, ?_⟩, ?_, ⟨m, ?_⟩, ?_⟩
        · rw [layerDir_eq, hsame _ (layerPath_not_sbom n)]
          rw [fget_fset_ne _ [layersName, tomlName n] (layerPath n) _ (Ne.symm (tomlPath_ne_layerPath n))]
          exact fget_fset_self _ _ _
        · intro p hp
          have hlen := below_len hp
          have hnot : p ∉ sbomPaths n := by
            intro hm
            have := own_len (List.mem_cons_of_mem _ hm)
            omega
          rw [hsame p hnot]
          rw [fget_fset_ne _ _ _ _ (by intro e; subst e; simp at hlen)]
          rw [fget_fset_ne _ _ _ _ (by intro e; subst e; simp at hlen)]
          exact hg p ((own_iff n p).mpr (Or.inl ((below_iff n p).mp hp).1))
        · rw [layerToml_eq, hsame _ (tomlPath_not_sbom n)]
          exact fget_fset_self _ _ _
        · intro p hp
          rw [layerSboms_eq] at hp
          exact hsb p hp
      have hf2 : Frame n s (fset (fset s [layersName, n] (.dir newDirMode)) [layersName, tomlName n] (.file m (freshToml api))) :=
        frame_trans hf1 (frame_fset_own _ _ (own_toml n))
      have hd2 := layersDir_of_frame hf2 hd
      by_cases ha : api = .handle
      · simp only [ha, if_true] at hok ⊢
        split at hok
        · rename_i hi
          simp only [hi, if_true]
          have hspec := unlinkAll_spec root layersName (RmTree.sbomExts.map (sbomName n)) _ hd2
          rw [sbomNames_paths] at hspec
          subst ha
          generalize unlinkAll root _ (sbomPaths n) = r at hspec hok
          obtain ⟨res, s3⟩ := r
          cases res with
          | error e => cases hok
          | ok u => exact key s3 hspec.1 (hspec.2 rfl)
        · cases hok
      · simp only [ha, if_false]
        apply key _ (fun _ _ => rfl)
        intro k hk
        have hown : own n k = true := (own_iff n k).mpr (Or.inr (List.mem_cons_of_mem _ hk))
        rw [fget_fset_ne _ _ _ _ (by intro e; subst e; exact tomlPath_not_sbom n hk)]
        rw [fget_fset_ne _ _ _ _ (by intro e; subst e; exact layerPath_not_sbom n hk)]
        exact hg k hown

theorem tag_fst_ok {b b' : Bool} {r : CreateRes} (h : (tag b r).1 = .ok b') : r.1 = .ok () ∧ b = b' := by
  obtain ⟨res, s⟩ := r
  cases res with
  | error e => obtain ⟨st, e⟩ := e; cases h
  | ok u => simp [tag] at h; exact ⟨rfl, h⟩

/-- a request that reports having deleted an existing layer leaves a fresh empty layer -/
theorem request_recreated_lemma (root : Bool) (api : Api) (bp : Bp) (t : FS) (n : Name) (hd : isDirAt t [layersName] = true)
    (hb : isDirAt t (layerPath n) = false → ∀ k, isPre (layerPath n) k = true → k ≠ layerPath n → fget t k = none)
    (hok : (request root api bp t n).1 = .ok true) :
    Recreated n (freshToml api) (request root api bp t n).2 := by
  unfold request at hok ⊢
  dsimp only at hok ⊢
  split at hok
  · have := (tag_fst_ok hok).2; cases this
  · rename_i h1
    rw [if_neg h1]
    split at hok
    · exfalso
      split at hok
      · cases hok
      · have := (tag_fst_ok hok).2; cases this
    · rename_i h2
      rw [if_neg h2]
      -- the optional write of an empty metadata file changes only that file
      have hw : ∀ s1, (if existsB root t (tomlPath n) then Except.ok t else writeFile root t (tomlPath n) emptyToml)
          = .ok s1 → ∀ k, k ≠ tomlPath n → fget s1 k = fget t k := by
        intro s1 h
        split at h
        · cases h; intro _ _; rfl
        · rcases writeFile_pair root t layersName (tomlName n) emptyToml hd with ⟨e, he⟩ | ⟨m, he⟩
          · rw [show tomlPath n = [layersName, tomlName n] from rfl, he] at h; cases h
          · rw [show tomlPath n = [layersName, tomlName n] from rfl, he] at h; cases h
            intro k hk; exact fget_fset_ne _ _ _ _ hk
      cases hx : (if existsB root t (tomlPath n) then Except.ok t else writeFile root t (tomlPath n) emptyToml) with
      | error e => rw [hx] at hok; cases hok
      | ok s1 =>
        rw [hx] at hok
        dsimp only at hok ⊢
        have hsame := hw s1 hx
        have hf1 : Frame n t s1 := frame_of_own_key (own_toml n) hsame
        have hd1 := layersDir_of_frame hf1 hd
        have hb1 : isDirAt s1 (layerPath n) = false → ∀ k, isPre (layerPath n) k = true → k ≠ layerPath n →
            fget s1 k = none := by
          intro hnd k hk hne
          have hkt : k ≠ tomlPath n := by
            intro e; subst e
            obtain ⟨r, hr⟩ := (isPre_iff _ _).mp hk
            simp [tomlPath, layerPath] at hr
            exact tomlName_ne n hr.1
          rw [hsame k hkt]
          apply hb _ k hk hne
          unfold isDirAt at hnd ⊢
          rw [← hsame _ (Ne.symm (tomlPath_ne_layerPath n))]; exact hnd
        cases hr : readFile root s1 (tomlPath n) with
        | error e => rw [hr] at hok; cases hok
        | ok content =>
          rw [hr] at hok
          dsimp only at hok ⊢
          split at hok
          · cases hok
          · rename_i hgar
            simp only [hgar, if_false]
            split at hok
            · cases hok
            · rename_i hdec
              simp only [hdec, Bool.false_eq_true, if_false]
              have hgone := deleteLayer_gone root s1 n hd1 hb1
              have hfr := deleteLayer_frame root s1 n hd1
              generalize deleteLayer root s1 n = r at hgone hfr hok
              obtain ⟨res, s2⟩ := r
              cases res with
              | error e => cases hok
              | ok u =>
                dsimp only at hok ⊢
                rw [tag_snd]
                exact createLayer_recreated root api bp s2 n (layersDir_of_frame hfr hd1) (hgone rfl) (tag_fst_ok hok).1

end CnbVerif.RmTree
