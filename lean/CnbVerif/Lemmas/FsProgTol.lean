import CnbVerif.Model.FsProgOps
/-!
Where the `tolerate` combinator sits in the modelled programs: every `tolerate` body consists of best-effort calls only
(`Prim.isBestEffort`), so a call logged as tolerant is one of those.
-/
namespace CnbVerif.FsProg

/-- a `tolerate` body: every call it can make is a best-effort call -/
inductive BodyOk : Prog → Prop
  | ret (v : Val) : BodyOk (.ret v)
  | fail (t : String) : BodyOk (.fail t)
  | call (c : Prim) (k : Val → Prog) : c.isBestEffort = true → (∀ v, BodyOk (k v)) → BodyOk (.call c k)
  | probe (q : Probe) (k : Bool → Prog) : (∀ b, BodyOk (k b)) → BodyOk (.probe q k)
  | tolerate (b k : Prog) : BodyOk b → BodyOk k → BodyOk (.tolerate b k)

/-- every `tolerate` of the program has such a body -/
inductive WellTol : Prog → Prop
  | ret (v : Val) : WellTol (.ret v)
  | fail (t : String) : WellTol (.fail t)
  | call (c : Prim) (k : Val → Prog) : (∀ v, WellTol (k v)) → WellTol (.call c k)
  | probe (q : Probe) (k : Bool → Prog) : (∀ b, WellTol (k b)) → WellTol (.probe q k)
  | tolerate (b k : Prog) : BodyOk b → WellTol k → WellTol (.tolerate b k)

variable {σ : Type} (S : Sem σ)

theorem bodyOk_log (plan : Plan) (p : Prog) (hp : BodyOk p) : ∀ (tol : Bool) (s : σ) (n : Nat),
    ∀ ev ∈ (run S plan tol p s n).log, ev.prim.isBestEffort = true := by
  induction hp with
  | ret v => intro tol s n ev h; simp [run] at h
  | fail t => intro tol s n ev h; simp [run] at h
  | probe q k _ ih => intro tol s n ev h; simp only [run] at h; exact ih _ tol s n ev h
  | call c k hc _ ih =>
    intro tol s n ev h
    simp only [run] at h
    cases hinj : injected plan n with
    | some e => simp [hinj] at h; rw [h]; exact hc
    | none =>
      simp only [hinj] at h
      rcases hex : S.exec c s with ⟨r, s'⟩
      rw [hex] at h
      cases r with
      | error e => simp at h; rw [h]; exact hc
      | ok v =>
        simp only [List.mem_cons] at h
        rcases h with h | h
        · rw [h]; exact hc
        · exact ih v tol s' (n + 1) ev h
  | tolerate b k _ _ ihb ihk =>
    intro tol s n ev h
    simp only [run] at h
    split at h
    · simp only [List.mem_append] at h
      rcases h with h | h
      · exact ihb true s n ev h
      · exact ihk _ _ _ ev h
    · exact ihb true s n ev h

theorem wellTol_log_gen (plan : Plan) (p : Prog) (hp : WellTol p) : ∀ (tol : Bool) (s : σ) (n : Nat),
    ∀ ev ∈ (run S plan tol p s n).log, ev.tol = true → tol = true ∨ ev.prim.isBestEffort = true := by
  induction hp with
  | ret v => intro tol s n ev h; simp [run] at h
  | fail t => intro tol s n ev h; simp [run] at h
  | probe q k _ ih => intro tol s n ev h; simp only [run] at h; exact ih _ tol s n ev h
  | call c k _ ih =>
    intro tol s n ev h ht
    simp only [run] at h
    cases hinj : injected plan n with
    | some e => simp [hinj] at h; rw [h] at ht; exact Or.inl ht
    | none =>
      simp only [hinj] at h
      rcases hex : S.exec c s with ⟨r, s'⟩
      rw [hex] at h
      cases r with
      | error e => simp at h; rw [h] at ht; exact Or.inl ht
      | ok v =>
        simp only [List.mem_cons] at h
        rcases h with h | h
        · rw [h] at ht; exact Or.inl ht
        · exact ih v tol s' (n + 1) ev h ht
  | tolerate b k hb _ ihk =>
    intro tol s n ev h ht
    simp only [run] at h
    split at h
    · simp only [List.mem_append] at h
      rcases h with h | h
      · exact Or.inr (bodyOk_log S plan b hb true s n ev h)
      · exact ihk _ _ _ ev h ht
    · exact Or.inr (bodyOk_log S plan b hb true s n ev h)

/-- in a whole operation (started outside any `tolerate`) a tolerant call is a best-effort call -/
theorem wellTol_log (plan : Plan) (p : Prog) (hp : WellTol p) (tol : Bool) (s : σ) (n : Nat) :
    ∀ ev ∈ (run S plan tol p s n).log, ev.tol = true → tol = false → ev.prim.isBestEffort = true := by
  intro ev h ht hf
  rcases wellTol_log_gen S plan p hp tol s n ev h ht with h' | h'
  · rw [hf] at h'; cases h'
  · exact h'

/-! ### the building blocks are well-formed -/

theorem wt_fsWrite {p c k} (hk : WellTol k) : WellTol (fsWrite p c k) := WellTol.call _ _ (fun _ => hk)

theorem wt_fsRead {p} {k : Content → Prog} (hk : ∀ c, WellTol (k c)) : WellTol (fsRead p k) := by
  apply WellTol.call; intro v; cases v <;> first | exact hk _ | exact WellTol.fail _

theorem wt_readLayer {n mt} {k : RL → Prog} (hk : ∀ r, WellTol (k r)) : WellTol (readLayer n mt k) := by
  unfold readLayer
  apply WellTol.probe; intro d; apply WellTol.probe; intro t
  have hrest : WellTol (fsRead (layerToml n) fun c =>
      match parseLToml c with
      | some (ty, m) => if decodes mt m then k (.some ty m) else k .parseErr
      | none => k .parseErr) := by
    apply wt_fsRead; intro c; split
    · split <;> exact hk _
    · exact hk _
  split
  · exact hk _
  · split
    · apply WellTol.call; intro _; exact hk _
    · simp only []; split
      · exact wt_fsWrite hrest
      · exact hrest

theorem wt_readGeneric {p} {k : Option LTypes → Option MetaTbl → Prog} (hk : ∀ t m, WellTol (k t m)) :
    WellTol (readGeneric p k) := by
  apply wt_fsRead; intro c; split
  · exact hk _ _
  · exact WellTol.fail _

theorem wt_unit : WellTol unit := WellTol.ret _
theorem bo_unit : BodyOk unit := BodyOk.ret _

theorem wt_writeLayerShared {n t m k} (hk : WellTol k) : WellTol (writeLayerShared n t m k) :=
  WellTol.call _ _ (fun _ => wt_fsWrite hk)

theorem wt_createLayer {n t} : WellTol (createLayer n t) := by
  apply wt_writeLayerShared; apply wt_readLayer; intro r
  cases r <;> first | exact wt_unit | exact WellTol.fail _

theorem bo_rmRec : ∀ (f : Nat) (p : Path) (k : Prog), BodyOk k → BodyOk (rmRec f p k) := by
  intro f
  induction f with
  | zero => intro p k _; exact BodyOk.fail _
  | succ f ih =>
    intro p k hk
    unfold rmRec
    apply BodyOk.call _ _ rfl; intro _
    apply BodyOk.call _ _ rfl; intro v
    cases v with
    | names es =>
      simp only []
      induction es with
      | nil => exact BodyOk.call _ _ rfl (fun _ => hk)
      | cons e rest ihr =>
        simp only [List.foldr_cons]
        split
        · exact ih _ _ ihr
        · exact BodyOk.call _ _ rfl (fun _ => ihr)
    | unit => exact BodyOk.fail _
    | content c => exact BodyOk.fail _

theorem wt_unlinkSboms {n k} (hk : WellTol k) : ∀ l, WellTol (unlinkSboms n l k) := by
  intro l
  induction l with
  | nil => exact hk
  | cons s rest ih => exact WellTol.tolerate _ _ (BodyOk.call _ _ rfl (fun _ => bo_unit)) ih

theorem wt_deleteLayer {n k} (hk : WellTol k) : WellTol (deleteLayer n k) :=
  WellTol.tolerate _ _ (bo_rmRec _ _ _ bo_unit)
    (WellTol.tolerate _ _ (BodyOk.call _ _ rfl (fun _ => bo_unit)) (wt_unlinkSboms hk _))

theorem wt_replaceTypes {n t k} (hk : WellTol k) : WellTol (replaceTypes n t k) :=
  wt_readGeneric (fun _ _ => wt_fsWrite hk)

theorem wt_replaceMeta {n m k} (hk : WellTol k) : WellTol (replaceMeta n m k) :=
  wt_readGeneric (fun _ _ => wt_fsWrite hk)

theorem wt_handleLayer {n t mt ci cr} : ∀ f, WellTol (handleLayer n t mt ci cr f) := by
  intro f
  induction f with
  | zero => exact WellTol.fail _
  | succ f ih =>
    unfold handleLayer
    apply wt_readLayer; intro r
    cases r with
    | none => exact wt_createLayer
    | some _ _ =>
      cases cr with
      | fail => exact WellTol.fail _
      | delete _ => exact wt_deleteLayer wt_createLayer
      | keep _ => exact wt_replaceTypes wt_unit
    | parseErr =>
      apply wt_readGeneric; intro _ _
      cases ci with
      | fail => exact WellTol.fail _
      | delete _ => exact wt_deleteLayer wt_createLayer
      | replace m' _ => exact wt_replaceMeta ih

theorem wt_handleLayerD {n t mt ci cr} : ∀ f, WellTol (handleLayerD n t mt ci cr f) := by
  intro f
  induction f with
  | zero => exact WellTol.fail _
  | succ f ih =>
    unfold handleLayerD
    apply wt_readLayer; intro r
    cases r with
    | none => exact wt_createLayer
    | some _ m =>
      dsimp only
      split
      · exact WellTol.fail _
      · exact wt_deleteLayer wt_createLayer
      · exact wt_replaceTypes wt_unit
    | parseErr =>
      apply wt_readGeneric; intro _ gm
      split
      · exact WellTol.fail _
      · exact wt_deleteLayer wt_createLayer
      · exact wt_replaceMeta ih

theorem wt_writeSboms {n k} (hk : WellTol k) : ∀ l, WellTol (writeSboms n l k) := by
  intro l
  induction l with
  | nil => exact hk
  | cons x rest ih => obtain ⟨s, d⟩ := x; exact wt_fsWrite ih

theorem wt_replaceSboms {n sb k} (hk : WellTol k) : WellTol (replaceSboms n sb k) := by
  apply WellTol.probe; intro d; split
  · exact WellTol.fail _
  · exact wt_unlinkSboms (wt_writeSboms hk _) _

theorem wt_copyProgs {dir k} (hk : WellTol k) : ∀ l, WellTol (copyProgs dir l k) := by
  intro l
  induction l with
  | nil => exact hk
  | cons x rest ih => obtain ⟨a, b⟩ := x; exact WellTol.call _ _ (fun _ => ih)

theorem wt_replaceExecd {n ps k} (hk : WellTol k) : WellTol (replaceExecd n ps k) := by
  apply WellTol.probe; intro d; split
  · exact WellTol.fail _
  · have hrest : WellTol (if ps.isEmpty then k else .call (.mkdirAll (layerDir n ++ ["exec.d"])) fun _ =>
        copyProgs (layerDir n ++ ["exec.d"]) ps k) := by
      split
      · exact hk
      · exact WellTol.call _ _ (fun _ => wt_copyProgs hk _)
    apply WellTol.probe; intro e; split
    · exact WellTol.call _ _ (fun _ => hrest)
    · exact hrest

theorem wt_writeFiles {dir k} (hk : WellTol k) : ∀ l, WellTol (writeFiles dir l k) := by
  intro l
  induction l with
  | nil => exact hk
  | cons x rest ih => obtain ⟨a, b⟩ := x; exact wt_fsWrite ih

theorem wt_writeEnvDir {dir fs k} (hk : WellTol k) : WellTol (writeEnvDir dir fs k) := by
  have hrest : WellTol (if fs.isEmpty then k else .call (.mkdirAll dir) fun _ => writeFiles dir fs k) := by
    split
    · exact hk
    · exact WellTol.call _ _ (fun _ => wt_writeFiles hk _)
  apply WellTol.probe; intro e; split
  · exact WellTol.call _ _ (fun _ => hrest)
  · exact hrest

theorem wt_writeProcDirs {d k} (hk : WellTol k) : ∀ l, WellTol (writeProcDirs d l k) := by
  intro l
  induction l with
  | nil => exact hk
  | cons x rest ih => obtain ⟨a, b⟩ := x; exact wt_writeEnvDir ih

theorem wt_writeToLayerDir {layer e k} (hk : WellTol k) : WellTol (writeToLayerDir layer e k) :=
  wt_writeEnvDir (wt_writeEnvDir (wt_writeEnvDir (wt_writeProcDirs hk _)))

theorem wt_readFiles {dir} : ∀ (l : List (String × Bool)) (k : EnvFiles → Prog), (∀ x, WellTol (k x)) → WellTol (readFiles dir l k) := by
  intro l
  induction l with
  | nil => intro k hk; exact hk _
  | cons x rest ih =>
    intro k hk
    obtain ⟨name, isDir⟩ := x
    unfold readFiles
    split
    · exact ih k hk
    · apply wt_fsRead; intro c; exact ih _ (fun _ => hk _)

theorem wt_readEnvDir {dir} {k : EnvFiles → Prog} (hk : ∀ x, WellTol (k x)) : WellTol (readEnvDir dir k) := by
  apply WellTol.call; intro v
  cases v <;> first | exact wt_readFiles _ _ hk | exact WellTol.fail _

theorem wt_readEnvDirIf {dir} {k : EnvFiles → Prog} (hk : ∀ x, WellTol (k x)) : WellTol (readEnvDirIf dir k) := by
  apply WellTol.probe; intro d; split
  · exact wt_readEnvDir hk
  · exact hk _

theorem wt_readProcDirs {d} : ∀ (l : List (String × Bool)) (k : List (String × EnvFiles) → Prog), (∀ x, WellTol (k x)) →
    WellTol (readProcDirs d l k) := by
  intro l
  induction l with
  | nil => intro k hk; exact hk _
  | cons x rest ih =>
    intro k hk
    obtain ⟨name, isDir⟩ := x
    unfold readProcDirs
    split
    · exact wt_readEnvDir (fun _ => ih _ (fun _ => hk _))
    · exact ih k hk

theorem wt_readFromLayerDir {layer} {k : EnvSpec → Prog} (hk : ∀ x, WellTol (k x)) : WellTol (readFromLayerDir layer k) := by
  apply wt_readEnvDirIf; intro a
  apply wt_readEnvDirIf; intro b
  apply WellTol.probe; intro d; split
  · apply wt_readEnvDir; intro l
    apply WellTol.call; intro v
    cases v <;> first | exact wt_readProcDirs _ _ (fun _ => hk _) | exact WellTol.fail _
  · exact hk _

theorem wt_tWriteLayer {n t m e execd sboms k} (hk : WellTol k) : WellTol (tWriteLayer n t m e execd sboms k) := by
  apply wt_writeLayerShared; apply wt_writeToLayerDir
  cases sboms <;> cases execd <;> simp only [id] <;>
    first | exact hk | exact wt_replaceSboms hk | exact wt_replaceExecd hk | exact wt_replaceSboms (wt_replaceExecd hk)

theorem wt_tReadLayer {n mt} {k : TRL → Prog} (hk : ∀ r, WellTol (k r)) : WellTol (tReadLayer n mt k) := by
  apply wt_readLayer; intro r
  cases r <;> first | exact hk _ | exact wt_readFromLayerDir (fun _ => hk _)

theorem wt_tReread {n} : WellTol (tReread n) := by
  apply wt_tReadLayer; intro r; cases r <;> first | exact wt_unit | exact WellTol.fail _

theorem wt_tCreate {n t r} : WellTol (tCreate n t r) :=
  WellTol.call _ _ (fun _ => wt_tWriteLayer wt_tReread)

theorem wt_tHandle {n t st mig c u} : ∀ f, WellTol (tHandle n t st mig c u f) := by
  intro f
  induction f with
  | zero => exact WellTol.fail _
  | succ f ih =>
    unfold tHandle
    apply wt_tReadLayer; intro r
    cases r with
    | none => exact wt_tCreate
    | some _ m e =>
      cases st with
      | recreate => exact wt_deleteLayer wt_tCreate
      | update => exact wt_tWriteLayer wt_tReread
      | keep => exact wt_tWriteLayer wt_tReread
    | parseErr =>
      apply wt_tReadLayer; intro g
      cases g with
      | some gt _ ge =>
        cases mig with
        | recreate => exact wt_deleteLayer ih
        | replace m' => exact wt_tWriteLayer ih
      | none => exact WellTol.fail _
      | parseErr => exact WellTol.fail _

theorem wt_tHandleD {n t st mig c u} : ∀ f, WellTol (tHandleD n t st mig c u f) := by
  intro f
  induction f with
  | zero => exact WellTol.fail _
  | succ f ih =>
    unfold tHandleD
    apply wt_tReadLayer; intro r
    cases r with
    | none => exact wt_tCreate
    | some _ m e =>
      dsimp only
      split
      · exact wt_deleteLayer wt_tCreate
      · exact wt_tWriteLayer wt_tReread
      · exact wt_tWriteLayer wt_tReread
    | parseErr =>
      apply wt_tReadLayer; intro g
      cases g with
      | some gt gm ge =>
        dsimp only
        split
        · exact wt_deleteLayer ih
        · exact wt_tWriteLayer ih
      | none => exact WellTol.fail _
      | parseErr => exact WellTol.fail _

theorem wt_buildWrites {l s bs ls} : WellTol (buildWrites l s bs ls) := by
  unfold buildWrites
  apply WellTol.tolerate
  · apply BodyOk.call _ _ (by decide); intro v
    cases v with
    | content c => cases c <;> first | exact bo_unit | exact BodyOk.fail _
    | unit => exact BodyOk.fail _
    | names _ => exact BodyOk.fail _
  · cases l <;> cases s <;> simp only [id, if_true, if_false, Bool.false_eq_true] <;>
      first
        | exact wt_writeSboms (wt_writeSboms wt_unit _) _
        | exact wt_fsWrite (wt_writeSboms (wt_writeSboms wt_unit _) _)
        | exact wt_fsWrite (wt_fsWrite (wt_writeSboms (wt_writeSboms wt_unit _) _))

/-- every modelled operation keeps `tolerate` on best-effort calls -/
theorem opProg_wellTol (op : String) (p : Prog) (h : opProg op = some p) : WellTol p := by
  unfold opProg at h
  split at h <;> cases h <;> first
    | exact wt_handleLayer _
    | exact wt_handleLayerD _
    | exact wt_tHandleD _
    | exact wt_replaceMeta wt_unit
    | exact wt_writeToLayerDir wt_unit
    | exact wt_replaceSboms wt_unit
    | exact wt_replaceExecd wt_unit
    | exact wt_tHandle _
    | exact wt_fsWrite wt_unit
    | exact wt_buildWrites

end CnbVerif.FsProg
