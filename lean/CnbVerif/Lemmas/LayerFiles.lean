import CnbVerif.Model.Builders
import CnbVerif.Spec.Written
/-! C07, layers through the public layer APIs: the file at a layer's path holds what was constructed under that name. -/
namespace CnbVerif.Builders
open CnbVerif CnbVerif.Cnb CnbVerif.Spec.Written

def toLayerOp : LayerCall → LayerOp
  | .cached n l b md => .cachedKept n l b md
  | .uncached n l b md => .uncached n l b md
  | .handle n ty md => .handled n ty md

theorem layerFilePath_inj {a b : Bytes} : layerFilePath a = layerFilePath b ↔ a = b :=
  ⟨fun h => List.append_cancel_right h, fun h => by rw [h]⟩

theorem dirGet_put_same (d : LayersDir) (p : Bytes) (m : LayerMeta) : dirGet (dirPut d p m) p = some m := by
  simp [dirPut, dirGet]

theorem dirGet_put_other (d : LayersDir) (p q : Bytes) (m : LayerMeta) (h : p ≠ q) : dirGet (dirPut d p m) q = dirGet d q := by
  simp [dirPut, dirGet, h]

/-- one call, seen at the path of the layer `n` -/
theorem dirGet_layerStep (d : LayersDir) (c : LayerCall) (n : Bytes) :
    dirGet (layerStep d c) (layerFilePath n) =
      if (toLayerOp c).name = n then some ((toLayerOp c).apply (dirGet d (layerFilePath n))) else dirGet d (layerFilePath n) := by
  cases c with
  | cached m l b md =>
    by_cases h : m = n
    · subst h
      cases hd : dirGet d (layerFilePath m) <;> cases md <;>
        simp [layerStep, thenMetadata, structHandle, writeMetadata, hd, dirGet_put_same, toLayerOp, LayerOp.name, LayerOp.apply]
    · have hp : layerFilePath m ≠ layerFilePath n := fun e => h (layerFilePath_inj.mp e)
      cases hd : dirGet d (layerFilePath m) <;> cases md <;>
        simp [layerStep, thenMetadata, structHandle, writeMetadata, hd, dirGet_put_same, dirGet_put_other, hp, toLayerOp, LayerOp.name, h]
  | uncached m l b md =>
    by_cases h : m = n
    · subst h
      cases hd : dirGet d (layerFilePath m) <;> cases md <;>
        simp [layerStep, thenMetadata, structHandle, writeMetadata, hd, dirGet_put_same, toLayerOp, LayerOp.name, LayerOp.apply]
    · have hp : layerFilePath m ≠ layerFilePath n := fun e => h (layerFilePath_inj.mp e)
      cases hd : dirGet d (layerFilePath m) <;> cases md <;>
        simp [layerStep, thenMetadata, structHandle, writeMetadata, hd, dirGet_put_same, dirGet_put_other, hp, toLayerOp, LayerOp.name, h]
  | handle m ty md =>
    by_cases h : m = n
    · subst h
      simp [layerStep, dirGet_put_same, toLayerOp, LayerOp.name, LayerOp.apply]
    · have hp : layerFilePath m ≠ layerFilePath n := fun e => h (layerFilePath_inj.mp e)
      simp [layerStep, dirGet_put_other, hp, toLayerOp, LayerOp.name, h]

theorem dirGet_foldl_layerStep (calls : List LayerCall) (d : LayersDir) (n : Bytes) :
    dirGet (calls.foldl layerStep d) (layerFilePath n) = intendedLayer n (dirGet d (layerFilePath n)) (calls.map toLayerOp) := by
  induction calls generalizing d with
  | nil => simp [intendedLayer]
  | cons c rest ih =>
    simp only [List.foldl_cons, List.map_cons, intendedLayer]
    rw [ih, dirGet_layerStep]
    by_cases h : (toLayerOp c).name = n <;> simp [h]

theorem firstUses_eq_layerNames (calls : List LayerCall) : firstUses (calls.map LayerCall.name) = layerNames (calls.map toLayerOp) := by
  induction calls with
  | nil => rfl
  | cons c rest ih =>
    have hn : (toLayerOp c).name = c.name := by cases c <;> rfl
    simp only [List.map_cons, firstUses, layerNames, ih, hn]

end CnbVerif.Builders
