import CnbVerif.Lemmas.Effective
/-!
# C03 — layer env is persisted in the spec's on-disk layout and reads back unchanged

Model: `Model/EnvDir.lean` (`writeToLayerDir`, `readFromLayerDir`, file-name splitting as `Path::file_stem /
extension`), suffix tables from `Gen.Tables` (regenerated from layer_env.rs). Hypotheses, all explicit:

* `LayerOk layer`: the three env entries of the layer directory are absent or directories (what the writer
  itself leaves; a regular file there makes the real call fail);
* `le.Ok`: deltas in map order, variable names non-empty, process types pairwise distinct and not equal to
  a file name of the launch delta (`buildEnv_ok`: every environment built by inserts with non-empty names
  satisfies it, given the no-clash condition).
-/
namespace CnbVerif.C03
open CnbVerif Spec

/-- **M1 (layout).** Writing succeeds and leaves: `env` = one file `NAME<suffix>` per entry of the `all` delta
with the raw value (absent when the delta is empty), likewise `env.build`; `env.launch` = one directory per
non-empty process delta holding that delta's files, plus the launch delta's files (absent when all are empty). -/
theorem layout (le : LayerEnv) (layer : Dir) (hl : LayerOk layer) (hp : ProcOk le) :
    ∃ l', writeToLayerDir le layer = some l' ∧
      l'.get nEnv = deltaNode le.all ∧ l'.get nEnvBuild = deltaNode le.build ∧
      l'.get nEnvLaunch = launchNode (procDirs le.process ++ le.launch.map Entry.fileOf) :=
  let ⟨l', h, g1, g2, g3, _⟩ := writeToLayerDir_spec le layer hl hp
  ⟨l', h, g1, g2, g3⟩

/-- **M1 (layout = the spec's files, as sets).** For every environment built through the public API (hypotheses as in
`api_environments_are_ok`), the regular files found after the write in `env`, `env.build`, `env.launch` and in each
`env.launch/<process>` are exactly those the CNB layout prescribes: a file `NAME.<suffix>` holding the raw value of the
last insert for (scope, behaviour, NAME) — nothing more, nothing less (`SpecFileIn`, `Spec.lookIns`). -/
theorem layout_is_spec_files (ins : List Ins) (layer : Dir) (hl : LayerOk layer) (hok : (buildEnv ins).Ok) :
    ∃ l', writeToLayerDir (buildEnv ins) layer = some l' ∧
      (∀ f c, (∃ es, l'.get nEnv = some (.dir es) ∧ (f, Node.file c) ∈ es) ↔ SpecFileIn ins .all f c) ∧
      (∀ f c, (∃ es, l'.get nEnvBuild = some (.dir es) ∧ (f, Node.file c) ∈ es) ↔ SpecFileIn ins .build f c) ∧
      (∀ f c, (∃ es, l'.get nEnvLaunch = some (.dir es) ∧ (f, Node.file c) ∈ es) ↔ SpecFileIn ins .launch f c) ∧
      (∀ p f c, (∃ es ps, l'.get nEnvLaunch = some (.dir es) ∧ (p, Node.dir ps) ∈ es ∧ (f, Node.file c) ∈ ps) ↔
        SpecFileIn ins (.process p) f c) :=
  layout_spec_files ins layer hl hok

/-- **M1c (the oracle is the spec).** The file list the driver compares the real directory with, `Spec.specFiles ins`, holds
exactly the `SpecFileIn` files of each scope's directory: the executable oracle and the theorem's specification coincide. -/
theorem oracle_files_are_spec_files (ins : List Ins) (path : List Bytes) (c : Bytes) :
    (path, c) ∈ Spec.specFiles ins ↔ ∃ s f, path = Spec.scopeDir s ++ [f] ∧ SpecFileIn ins s f c :=
  mem_specFiles_iff ins path c

/-- **M1b.** The generated writer suffixes are the spec's: file name = `NAME` ++ `.` ++ suffix name. -/
theorem file_names_are_spec_names (e : Entry) :
    (Entry.fileOf e).1 = e.name ++ [46] ++ Spec.suffixName e.beh := by
  cases e with
  | mk b n v => cases b <;> simp [Entry.fileOf, Gen.writeSuffix, Spec.suffixName]

/-- **M2 (overwrite).** Whatever environment was in the directory before, the env entries after a write are
those of the new environment alone: two different old directories give the same three entries. -/
theorem overwrite (le : LayerEnv) (t t' : Dir) (ht : LayerOk t) (ht' : LayerOk t') (hp : ProcOk le) :
    ∃ l l', writeToLayerDir le t = some l ∧ writeToLayerDir le t' = some l' ∧
      l.get nEnv = l'.get nEnv ∧ l.get nEnvBuild = l'.get nEnvBuild ∧ l.get nEnvLaunch = l'.get nEnvLaunch := by
  obtain ⟨l, h, g1, g2, g3, _⟩ := writeToLayerDir_spec le t ht hp
  obtain ⟨l', h', g1', g2', g3', _⟩ := writeToLayerDir_spec le t' ht' hp
  exact ⟨l, l', h, h', by rw [g1, g1'], by rw [g2, g2'], by rw [g3, g3']⟩

/-- **M2b.** In particular a second write removes everything of the first: writing `le₂` over the result of
writing `le₁` leaves the same env entries as writing `le₂` into the untouched directory. -/
theorem second_write_erases_first (le₁ le₂ : LayerEnv) (t : Dir) (ht : LayerOk t) (hp₁ : ProcOk le₁) (hp₂ : ProcOk le₂) :
    ∃ l1 l12 l2, writeToLayerDir le₁ t = some l1 ∧ writeToLayerDir le₂ l1 = some l12 ∧
      writeToLayerDir le₂ t = some l2 ∧
      l12.get nEnv = l2.get nEnv ∧ l12.get nEnvBuild = l2.get nEnvBuild ∧ l12.get nEnvLaunch = l2.get nEnvLaunch := by
  obtain ⟨l1, h1, g1, g2, g3, _⟩ := writeToLayerDir_spec le₁ t ht hp₁
  have ok1 : LayerOk l1 := by
    refine ⟨?_, ?_, ?_⟩
    · unfold EnvOk; rw [g1]; unfold deltaNode; split
      · exact Or.inl rfl
      · exact Or.inr ⟨_, rfl⟩
    · unfold EnvOk; rw [g2]; unfold deltaNode; split
      · exact Or.inl rfl
      · exact Or.inr ⟨_, rfl⟩
    · unfold EnvOk; rw [g3]; unfold launchNode; split
      · exact Or.inl rfl
      · exact Or.inr ⟨_, rfl⟩
  obtain ⟨l12, l2, h12, h2, e1, e2, e3⟩ := overwrite le₂ l1 t ok1 ht hp₂
  exact ⟨l1, l12, l2, h1, h12, h2, e1, e2, e3⟩

/-- **M3 (frame).** Nothing else in the layer directory is touched. -/
theorem frame (le : LayerEnv) (layer : Dir) (hl : LayerOk layer) (hp : ProcOk le) :
    ∃ l', writeToLayerDir le layer = some l' ∧
      ∀ other, other ≠ nEnv → other ≠ nEnvBuild → other ≠ nEnvLaunch → l'.get other = layer.get other :=
  let ⟨l', h, _, _, _, f⟩ := writeToLayerDir_spec le layer hl hp
  ⟨l', h, f⟩

/-- **M4 (round trip).** Reading the written directory back yields the same deltas for every scope, including
every process type, and therefore an environment that applies identically for every scope and starting
environment — when the layer has none of the implicit layer-path directories (those are C10). -/
theorem read_back_applies_identically (le : LayerEnv) (hok : le.Ok) (hnp : le.pathsBuild = [] ∧ le.pathsLaunch = [])
    (lp : Bytes) (layer : Dir) (hl : LayerOk layer)
    (hno : ∀ sub : LSub, Node.isDirFollow (layer.get sub.dirName) = false) :
    ∃ l' le', writeToLayerDir le layer = some l' ∧ readFromLayerDir lp l' = some le' ∧
      ∀ s env, le'.apply s env = le.apply s env := by
  obtain ⟨l', h, g1, g2, g3, f⟩ := writeToLayerDir_spec le layer hl hok.proc
  obtain ⟨le', hr, ea, eb, el, ep, _, epb, epl⟩ := read_written le hok lp l' g1 g2 g3
  refine ⟨l', le', h, hr, fun s env => apply_congr le le' ea eb el ep ?_ ?_ s env⟩
  · have hsub : ∀ sub : LSub, l'.get sub.dirName = layer.get sub.dirName :=
      fun sub => f _ (sub_ne_env sub).1 (sub_ne_env sub).2.1 (sub_ne_env sub).2.2
    rw [epb, readLayerPaths_congr lp layer l' _ _ hsub, readLayerPaths_noDirs lp layer _ _ hno, hnp.1]; rfl
  · have hsub : ∀ sub : LSub, l'.get sub.dirName = layer.get sub.dirName :=
      fun sub => f _ (sub_ne_env sub).1 (sub_ne_env sub).2.1 (sub_ne_env sub).2.2
    rw [epl, readLayerPaths_congr lp layer l' _ _ hsub, readLayerPaths_noDirs lp layer _ _ hno, hnp.2]; rfl

/-- **M4b.** The hypotheses of M4 hold for every environment built through the public API with non-empty
variable names (and process types that do not clash with a launch file name). -/
theorem api_environments_are_ok (ins : List Ins) (hn : ∀ i ∈ ins, i.name ≠ [])
    (hfree : ∀ pd ∈ (buildEnv ins).process, Dir.get ((buildEnv ins).launch.map Entry.fileOf) pd.1 = none) :
    (buildEnv ins).Ok ∧ (buildEnv ins).pathsBuild = [] ∧ (buildEnv ins).pathsLaunch = [] :=
  ⟨buildEnv_ok ins hn hfree, (paths_foldl ins LayerEnv.empty).1, (paths_foldl ins LayerEnv.empty).2⟩

/-- **M5a (reader).** A file name without a dot — or whose only dot is the first character — designates
`override` of the variable with that whole name. -/
theorem suffixless_is_override (name : Bytes) (h : (∀ c ∈ name, c ≠ 46) ∨ ∃ r, name = 46 :: r ∧ ∀ c ∈ r, c ≠ 46) :
    classify name = some (.override, name) := by
  have h22 : name ≠ [46, 46] := by
    rintro rfl
    rcases h with h | ⟨r, hr, hd⟩
    · exact h 46 (by simp) rfl
    · simp only [List.cons.injEq, true_and] at hr; subst hr; exact hd 46 (by simp) rfl
  unfold classify stemExt
  rcases h with h | ⟨r, rfl, hr⟩
  · simp [h22, splitLastDot_nodot name h, Gen.readNoExtension]
  · have : splitLastDot (46 :: r) = some ([], r) := splitLastDot_append [] r hr
    simp [h22, this, Gen.readNoExtension]

/-- **M5b.** `STEM.ext` (ext dot-free, STEM non-empty) designates the behaviour the extension names, for
variable `STEM` — also when `STEM` itself contains dots or non-UTF-8 bytes; any other extension is ignored. -/
theorem extension_decides (stem ext : Bytes) (hs : stem ≠ []) (he : ∀ c ∈ ext, c ≠ 46) (hne : stem ++ 46 :: ext ≠ [46, 46]) :
    classify (stem ++ 46 :: ext) =
      match Beh.all.find? (fun b => Spec.suffixName b = ext) with
      | some b => some (b, stem)
      | none => none := by
  unfold classify stemExt
  simp only [hne, if_false, splitLastDot_append stem ext he, hs]
  by_cases h1 : ext = Spec.suffixName .append
  · subst h1; rfl
  by_cases h2 : ext = Spec.suffixName .default
  · subst h2; rfl
  by_cases h3 : ext = Spec.suffixName .delim
  · subst h3; rfl
  by_cases h4 : ext = Spec.suffixName .override
  · subst h4; rfl
  by_cases h5 : ext = Spec.suffixName .prepend
  · subst h5; rfl
  have b1 : (ext == Spec.suffixName .append) = false := by simpa using h1
  have b2 : (ext == Spec.suffixName .default) = false := by simpa using h2
  have b3 : (ext == Spec.suffixName .delim) = false := by simpa using h3
  have b4 : (ext == Spec.suffixName .override) = false := by simpa using h4
  have b5 : (ext == Spec.suffixName .prepend) = false := by simpa using h5
  have hl : List.lookup ext Gen.readSuffixTable = none := by
    simp only [Spec.suffixName] at b1 b2 b3 b4 b5
    simp only [Gen.readSuffixTable, List.lookup, b1, b2, b3, b4, b5]
  have c1 : decide (Spec.suffixName .append = ext) = false := by simpa using fun e => h1 (Eq.symm e)
  have c2 : decide (Spec.suffixName .default = ext) = false := by simpa using fun e => h2 (Eq.symm e)
  have c3 : decide (Spec.suffixName .delim = ext) = false := by simpa using fun e => h3 (Eq.symm e)
  have c4 : decide (Spec.suffixName .override = ext) = false := by simpa using fun e => h4 (Eq.symm e)
  have c5 : decide (Spec.suffixName .prepend = ext) = false := by simpa using fun e => h5 (Eq.symm e)
  have hf : Beh.all.find? (fun b => Spec.suffixName b = ext) = none := by
    simp only [Beh.all, List.find?_cons, List.find?_nil, c1, c2, c3, c4, c5]
  rw [hl, hf]

/-- Non-vacuity: an environment with all five behaviours on a dotted name, a process scope and a non-UTF-8
name satisfies the hypotheses and round-trips through a layer directory holding an unrelated file. -/
example :
    let ins : List Ins := [⟨.all, .append, [65, 46, 98], [1]⟩, ⟨.all, .default, [65, 46, 98], [2]⟩,
      ⟨.all, .delim, [65, 46, 98], [58]⟩, ⟨.all, .override, [65, 46, 98], [3]⟩, ⟨.all, .prepend, [65, 46, 98], [4]⟩,
      ⟨.process [119], .append, [255], [0]⟩, ⟨.launch, .override, [46, 104], []⟩]
    (∀ i ∈ ins, i.name ≠ []) ∧
    (∀ pd ∈ (buildEnv ins).process, Dir.get ((buildEnv ins).launch.map Entry.fileOf) pd.1 = none) ∧
    LayerOk [([100], .file [7])] := by
  refine ⟨by decide, by decide, ⟨Or.inl rfl, Or.inl rfl, Or.inl rfl⟩⟩

end CnbVerif.C03
