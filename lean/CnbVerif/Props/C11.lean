import CnbVerif.Lemmas.RmTree6
/-!
# C11 — deleting or recreating a layer never touches anything outside that layer

Model: `Model/RmTree.lean` — a file system with symlinks and permission modes, path resolution as the kernel does it,
`remove_dir_recursively` (as repaired for D4 and D8: a path that is not a directory — a symlink, a regular file — is
unlinked as such, never `chmod`-ed, never descended into),
`delete_layer`, and the three public operations that delete and recreate a layer, each with the outcome of the
buildpack's part of the call (`Bp`: every callback succeeds / `Layer::create` returns `Err` / the deciding callback
returns `Err`), in the code's order: read, decide, delete, `create_dir_all`, `create`, write. Spec: `Spec/Frame.lean` — `Frame`
(everything outside the layer's own paths is exactly as it was: kind, mode, content, link target), `Gone`, `Recreated`,
`OldGone` (after the deleting half of a recreate no entry of the old layer survives, whether or not the creating half
succeeds), `Intact` (a call that ends before the deletion has deleted or altered nothing of the layer),
and their executable forms `judgeDelete` / `judgeRequest` / `judgeOutcome`, which are what judges the real code's snapshots.

Every theorem is for **every** file system state `t` (any depth, any modes, links to files or directories inside or
outside the layer, relative or absolute, dangling, cyclic, the layer path itself a link, **hard links**: names inside
the layer sharing an inode with names outside it, with each other, or the other way round), every layer name, as root
and as an unprivileged caller, and whether or not the call succeeds — also when `<layers>/<n>` itself is a regular file,
with one name or with a second name outside the layer (`d8_repaired`; `d8_counterexample` shows what the code did to such
a file before the repair of D8: its `chmod 0777` went through to the inode before `read_dir` failed). The one hypothesis on
the state is that the layers directory is a real directory (the platform hands the buildpack one); completeness
additionally needs the state to be a tree (`WF`: a recorded path's parent is a recorded directory) — snapshots always are.

*Hard links.* A file with several names is the node `hard ino mode content` under each name; `Frame` compares whole
nodes, so "exactly as it was" covers the mode and the content of an outside name whose inode also has a name inside the
layer. What carries it: the recursion `chmod`s only directories and removes everything else — at the top as well as
below — by `unlink`, which takes the *name* away and nothing else (`unlink_keeps_other_names`).

*Partial (non-root):* permission failures are modelled coarsely (owner bits; search on directories walked through, read
to list, write+search on the parent to add or remove an entry; the caller owns every node). The theorems hold for both
values of `root`; what is partial is the faithfulness of that permission model, sampled by the uid-65534 batch.
-/
namespace CnbVerif.C11
open CnbVerif CnbVerif.RmTree CnbVerif.Spec.Frame

/-- the layers directory is a real directory -/
abbrev LayersDir (t : FS) : Prop := isDirAt t [layersName] = true

/-- **M1 (frame of `delete_layer`).** Whatever the layer contains and however the call ends — success or failure
half-way — every path outside `<layers>/<n>`, `<layers>/<n>.toml` and the layer's SBOM files has exactly the node it
had before: same kind, mode, content, link target — also when its inode has further names inside the layer (same inode,
same mode, same content). -/
theorem delete_frame (root : Bool) (t : FS) (n : Name) (hL : LayersDir t) :
    ∀ p, outside n p = true → fget (deleteLayer root t n).2 p = fget t p :=
  deleteLayer_frame root t n hL

/-- **M2 (completeness of `delete_layer`).** If the call succeeds, none of the layer's own paths exists any more: not
the directory, nothing below it, not `<n>.toml`, no SBOM file. -/
theorem delete_complete (root : Bool) (t : FS) (n : Name) (hwf : WF t) (hL : LayersDir t)
    (hok : (deleteLayer root t n).1 = .ok ()) :
    ∀ p, own n p = true → fget (deleteLayer root t n).2 p = none :=
  deleteLayer_gone root t n hL (wf_below t hwf (layerPath n) (layerPath_ne n)) hok

/-- M1 + M2 in the form the oracle evaluates on two snapshots. -/
theorem delete_meets_oracle (root : Bool) (t : FS) (n : Name) (hwf : WF t) (hL : LayersDir t) :
    judgeDelete n (decide ((deleteLayer root t n).1 = .ok ())) t (deleteLayer root t n).2 = true := by
  unfold judgeDelete
  rw [frameB_of_frame (deleteLayer_frame root t n hL)]
  by_cases hok : (deleteLayer root t n).1 = .ok ()
  · simp [hok, goneB_of_gone (delete_complete root t n hwf hL hok)]
  · simp [hok]

/-- **M1 for the recursion itself.** `remove_dir_recursively p` on any path whose parents are real directories changes
nothing that is neither `p` nor below `p` — in particular nothing a symlink inside (or at) `p` points to, and no other
name of an inode that has a name at or below `p`. -/
theorem remove_dir_recursively_frame (root : Bool) (fuel : Nat) (t : FS) (p : Path) (hne : p ≠ []) (hc : Canon t p) :
    ∀ k, isPre p k = false → fget (rmRec root fuel t p).2 k = fget t k :=
  rmRec_untouched root fuel t p hne hc

/-- **Removing a name leaves the inode's other names alone.** Whatever `remove_file p` resolves to, every other recorded
path — among them the other names of the same inode — keeps exactly its node: same inode, same mode, same content. -/
theorem unlink_keeps_other_names (root : Bool) (t t' : FS) (p : Path) (h : unlink root t p = .ok t') :
    ∃ q, fget t' q = none ∧ ∀ k, k ≠ q → fget t' k = fget t k := by
  unfold unlink at h
  cases hl : lstat root t p with
  | error e => rw [hl] at h; cases h
  | ok qv =>
    obtain ⟨q, v⟩ := qv
    rw [hl] at h
    have key : (if parentW root t q then Except.ok (ferase t q) else Except.error Err.access) = .ok t' →
        ∃ q, fget t' q = none ∧ ∀ k, k ≠ q → fget t' k = fget t k := by
      intro h
      split at h
      · cases h; exact ⟨q, fget_ferase_self t q, fun k hk => fget_ferase_ne t q k hk⟩
      · cases h
    cases v with
    | dir m => cases h
    | file m c => exact key h
    | link x => exact key h
    | hard i m c => exact key h

/-- **M3 (frame of the public operations).** `uncached_layer`, `cached_layer` with a `DeleteLayer` decision and the
trait API's `handle_layer` with `Recreate` — reading the layer, deleting it, creating it anew, wherever they stop —
leave every path outside the layer's own exactly as it was, whatever the buildpack's callbacks answer (`bp`: all succeed,
`Layer::create` fails, the deciding callback fails). -/
theorem request_frame (root : Bool) (api : Api) (bp : Bp) (t : FS) (n : Name) (hL : LayersDir t) :
    ∀ p, outside n p = true → fget (request root api bp t n).2 p = fget t p :=
  request_frame_lemma root api bp t n hL

/-- **M3 (the layer's own entries are gone).** When such an operation reports having deleted an existing layer and
succeeds, all former entries are gone and a fresh empty layer stands in their place: a real directory with nothing
below it, the freshly written `<n>.toml`, no SBOM file. -/
theorem request_recreated (root : Bool) (api : Api) (bp : Bp) (t : FS) (n : Name) (hwf : WF t) (hL : LayersDir t)
    (hok : (request root api bp t n).1 = .ok true) :
    Recreated n (freshDoc api) (request root api bp t n).2 := by
  have : freshDoc api = freshToml api := by cases api <;> rfl
  rw [this]
  exact request_recreated_lemma root api bp t n hL (wf_below t hwf (layerPath n) (layerPath_ne n)) hok

/-- **M3 (the old layer's entries are gone also when the creating half fails).** A recreate is a deletion followed by
the buildpack's `Layer::create`. When that callback returns `Err` after the existing layer was deleted (the request
fails at stage `recreate`), no entry of the old layer survives: nothing below `<layers>/<n>`, which is at most a real
(new, empty) directory — never the old link or file —, and neither the old `<n>.toml` nor any old SBOM file stands where
it stood. (The model leaves exactly the new empty directory: `failed_create_leaves_empty_dir`.) -/
theorem request_failed_create (root : Bool) (api : Api) (bp : Bp) (t : FS) (n : Name) (hwf : WF t) (hL : LayersDir t)
    (e : Err) (herr : (request root api bp t n).1 = .error (.recreate, e)) :
    OldGone n t (request root api bp t n).2 :=
  oldGone_of_emptyDirOnly t
    (request_failed_create_lemma root api bp t n hL (wf_below t hwf (layerPath n) (layerPath_ne n)) e herr)

/-- What exactly the failed creating half leaves in the model (`create_dir_all` runs before `Layer::create`): a real
directory at `<layers>/<n>` and no other own path — no `<n>.toml`, no SBOM file, nothing below the directory. -/
theorem failed_create_leaves_empty_dir (root : Bool) (api : Api) (bp : Bp) (t : FS) (n : Name) (hwf : WF t) (hL : LayersDir t)
    (e : Err) (herr : (request root api bp t n).1 = .error (.recreate, e)) :
    (∃ m, fget (request root api bp t n).2 (layerDir n) = some (.dir m)) ∧
    ∀ p, own n p = true → p ≠ layerDir n → fget (request root api bp t n).2 p = none :=
  request_failed_create_lemma root api bp t n hL (wf_below t hwf (layerPath n) (layerPath_ne n)) e herr

/-- **M3 (a call that ends before the deletion deletes nothing).** When the deciding callback
(`restored_layer_action` / `invalid_metadata_action`, `existing_layer_strategy` / `migrate_incompatible_metadata`)
returns `Err`, every own path of the layer has exactly the node it had — except that a `<n>.toml` may have been written
where there was none (the reader's normalisation of a layer directory without metadata file). With `request_frame`:
nothing at all changed but, possibly, that one new file. -/
theorem request_failed_decide (root : Bool) (api : Api) (bp : Bp) (t : FS) (n : Name) (hL : LayersDir t)
    (e : Err) (herr : (request root api bp t n).1 = .error (.decide, e)) :
    Intact n t (request root api bp t n).2 :=
  request_failed_decide_lemma root api bp t n hL e herr

/-- M3 in the form the oracle evaluates on the two snapshots of a request. -/
theorem request_meets_oracle (root : Bool) (api : Api) (bp : Bp) (t : FS) (n : Name) (hwf : WF t) (hL : LayersDir t) :
    judgeRequest n (freshDoc api) (decide ((request root api bp t n).1 = .ok true)) t (request root api bp t n).2 = true := by
  unfold judgeRequest
  rw [frameB_of_frame (request_frame_lemma root api bp t n hL)]
  by_cases hok : (request root api bp t n).1 = .ok true
  · simp [hok, recreatedB_of_recreated (request_recreated root api bp t n hwf hL hok)]
  · simp [hok]

/-- M3 with the failing callbacks, in the form the oracle evaluates on the two snapshots of a request, by how the request
ended (`outcomeOf`: recreated / `create` failed after the deletion / the deciding callback failed / anything else). -/
theorem request_meets_outcome_oracle (root : Bool) (api : Api) (bp : Bp) (t : FS) (n : Name) (hwf : WF t) (hL : LayersDir t) :
    judgeOutcome n (freshDoc api) (outcomeOf (request root api bp t n).1) t (request root api bp t n).2 = true := by
  unfold judgeOutcome
  rw [frameB_of_frame (request_frame_lemma root api bp t n hL)]
  cases hres : (request root api bp t n).1 with
  | ok b =>
    cases b with
    | false => rfl
    | true => simp [outcomeOf, recreatedB_of_recreated (request_recreated root api bp t n hwf hL hres)]
  | error x =>
    obtain ⟨st, e⟩ := x
    cases st with
    | read => rfl
    | delete => rfl
    | write => rfl
    | create => rfl
    | decide => simp [outcomeOf, intactB_of_intact (request_failed_decide root api bp t n hL e hres)]
    | recreate => simp [outcomeOf, oldGoneB_of_oldGone (request_failed_create root api bp t n hwf hL e hres)]

/-- The buildpack's errors arise only where the callbacks are: stage `decide` only when the deciding callback was made
to fail on an API that has one, stages `create` / `recreate` only when `Layer::create` was (trait API). So a request
with well-behaved callbacks (`Bp.ok`) is the request of `request_recreated`. -/
theorem buildpack_errors_only_when_asked (root : Bool) (api : Api) (t : FS) (n : Name) (st : Stage) (e : Err)
    (h : (request root api .ok t n).1 = .error (st, e)) : st = .read ∨ st = .delete ∨ st = .write := by
  have hcl : ∀ (b : Bool) (s : FS), (tag b (createLayer root api .ok s n)).1 = .error (st, e) → st = .write := by
    intro b s h
    obtain ⟨st', hr, hst⟩ := tag_fst_err h
    rcases createLayer_stage root api .ok s n st' e hr with h' | ⟨_, h'⟩
    · subst h'; cases b <;> simp at hst <;> exact hst
    · simp [createFails] at h'
  unfold request at h
  dsimp only at h
  split at h
  · exact Or.inr (Or.inr (hcl _ _ h))
  · split at h
    · split at h
      · cases h; exact Or.inl rfl
      · exact Or.inr (Or.inr (hcl _ _ h))
    · split at h
      · cases h; exact Or.inl rfl
      · split at h
        · cases h; exact Or.inl rfl
        · split at h
          · cases h; exact Or.inl rfl
          · split at h
            · rename_i hd; simp [decideFails] at hd
            · split at h
              · cases h; exact Or.inr (Or.inl rfl)
              · exact Or.inr (Or.inr (hcl _ _ h))

/-- M3 over an abstract creating step: deleting a layer and then doing anything that only writes the layer's own paths
leaves everything else as it was. -/
theorem recreate_frame_abstract (root : Bool) (t : FS) (n : Name) (hL : LayersDir t) (create : FS → FS)
    (hcreate : ∀ s, Frame n s (create s)) : Frame n t (create (deleteLayer root t n).2) :=
  frame_trans (deleteLayer_frame root t n hL) (hcreate _)

/-- The SBOM file names `delete_layer` removes (table regenerated from `libcnb/src/sbom.rs`) are the specification's. -/
theorem sbom_paths_tied (n : Name) : sbomPaths n = layerSboms n := (layerSboms_eq n).symm

/-- `remove_dir_recursively` never reports not-found for something that is there (so the not-found tolerance of
`delete_layer` cannot hide a half-deleted layer). -/
theorem not_found_means_absent (root : Bool) (fuel : Nat) (t : FS) (p : Path) (hne : p ≠ []) (hc : Canon t p)
    (h : (rmRec root fuel t p).1 = .error .notFound) : fget t p = none := by
  cases hg : fget t p with
  | none => rfl
  | some v => exact absurd h (rmRec_ne_notFound root fuel t p hne hc (by simp [hg]))

/-- The model's recursion carries a depth budget (`fuel`) only to be a total function; it is never exhausted, so
"success" in M2/M3 is not narrowed by it and a failure of the model is always a failure of a system call. -/
theorem depth_budget_suffices (root : Bool) (t : FS) (n : Name) (hL : LayersDir t) :
    (deleteLayer root t n).1 ≠ .error .fuel :=
  deleteLayer_ne_fuel root t n hL

/-! ## The defect D4 and non-vacuity -/

/-- `<layers>/a` is a link to the directory `c` beside the layers directory, which holds a private file. -/
def topLink : FS :=
  [([layersName], .dir 0o755), ([layersName, [97]], .link [46, 46, 47, 99]),
   ([[99]], .dir 0o700), ([[99], [5]], .file 0o600 [1])]

/-- **D4.** The code before the repair (`chmod` and `read_dir` follow the top-level link): the outside directory `c`
is made world-writable and emptied, and the call fails. -/
theorem d4_counterexample :
    (deleteLayerOld true topLink [97]).1 = .error .notDir ∧
    fget (deleteLayerOld true topLink [97]).2 [[99]] = some (.dir 0o777) ∧
    fget (deleteLayerOld true topLink [97]).2 [[99], [5]] = none ∧
    frameB [97] topLink (deleteLayerOld true topLink [97]).2 = false := by decide

/-- the repaired code on the same tree: the link is removed, the outside directory is untouched -/
example : (deleteLayer true topLink [97]).1 = .ok () ∧
    fget (deleteLayer true topLink [97]).2 [[99]] = some (.dir 0o700) ∧
    fget (deleteLayer true topLink [97]).2 [[99], [5]] = some (.file 0o600 [1]) ∧
    fget (deleteLayer true topLink [97]).2 [layersName, [97]] = none := by decide

/-! ## Hard links -/

/-- The layer `a` holds `h` and, in the read-only directory `r`, `g`: two names of inode 1 (mode 0444), whose third name
is `c/5` beside the layers directory; `i` and `j` are two names of inode 2 that both lie inside the layer; `k` shares
inode 3 with `ax/f` in a sibling layer; `c/6` is an outside name of inode 4 whose other name `m` is inside. -/
def hardLinked : FS :=
  [([layersName], .dir 0o755),
   ([layersName, [97]], .dir 0o755),
   ([layersName, [97], [104]], .hard 1 0o444 [1]),
   ([layersName, [97], [114]], .dir 0o500), ([layersName, [97], [114], [103]], .hard 1 0o444 [1]),
   ([layersName, [97], [105]], .hard 2 0o400 [2]), ([layersName, [97], [106]], .hard 2 0o400 [2]),
   ([layersName, [97], [107]], .hard 3 0 []), ([layersName, [97], [109]], .hard 4 0o644 [4]),
   ([layersName, tomlName [97]], .file 0o644 [84]),
   ([layersName, [97, 120]], .dir 0o700), ([layersName, [97, 120], [102]], .hard 3 0 []),
   ([[99]], .dir 0o500), ([[99], [5]], .hard 1 0o444 [1]), ([[99], [6]], .hard 4 0o644 [4])]

/-- non-vacuity of the hard-link half of M1–M3: the hypotheses hold of `hardLinked`; as root and as an unprivileged
owner the deletion succeeds and the outside names of the shared inodes keep inode, mode and content -/
example : WF hardLinked ∧ LayersDir hardLinked := ⟨wf_of_wfB (by decide), by decide⟩

example : (deleteLayer true hardLinked [97]).1 = .ok () ∧ (deleteLayer false hardLinked [97]).1 = .ok () ∧
    (deleteLayer false hardLinked [97]).2 =
      [([layersName], .dir 0o755), ([layersName, [97, 120]], .dir 0o700), ([layersName, [97, 120], [102]], .hard 3 0 []),
       ([[99]], .dir 0o500), ([[99], [5]], .hard 1 0o444 [1]), ([[99], [6]], .hard 4 0o644 [4])] ∧
    (request false .cached .ok hardLinked [97]).1 = .ok true ∧
    fget (request false .cached .ok hardLinked [97]).2 [[99], [5]] = some (.hard 1 0o444 [1]) := by decide

/-- The inode semantics is not vacuous: clearing the read-only flag through the inside name `h` (what a "make it
writable, then remove it" loop body would do) shows under the outside name `c/5` — the mode belongs to the inode. -/
example : (chmod true hardLinked [layersName, [97], [104]] 0o666).toOption.bind (fun s => fget s [[99], [5]]) =
    some (.hard 1 0o666 [1]) := by decide

/-- `<layers>/a` itself a regular file with a second name `c/5` (mode 0444) beside the layers directory. -/
def sharedTop : FS :=
  [([layersName], .dir 0o755), ([layersName, [97]], .hard 1 0o444 [1]), ([layersName, tomlName [97]], .file 0o644 [84]),
   ([[99]], .dir 0o700), ([[99], [5]], .hard 1 0o444 [1])]

/-- **D8.** The code before the repair (only a symlink was unlinked as such): `remove_dir_recursively` set mode 0777 on
the path it was given before listing it; on a regular file that has a second name outside the layer the mode of that
outside name became 0777, then `read_dir` failed. -/
theorem d8_counterexample :
    (deleteLayerMid true sharedTop [97]).1 = .error .notDir ∧
    fget (deleteLayerMid true sharedTop [97]).2 [[99], [5]] = some (.hard 1 0o777 [1]) ∧
    frameB [97] sharedTop (deleteLayerMid true sharedTop [97]).2 = false := by decide

/-- **D8 repaired.** The same tree under the repaired code (a path that is not a directory is unlinked as such): the
layer's name of the inode goes, the outside name keeps inode, mode and content, the deletion and the requests succeed —
as root and as an unprivileged owner. (An instance of M1–M3, which now hold without any condition on the layer path.) -/
theorem d8_repaired :
    (deleteLayer true sharedTop [97]).1 = .ok () ∧ (deleteLayer false sharedTop [97]).1 = .ok () ∧
    (deleteLayer false sharedTop [97]).2 = [([layersName], .dir 0o755), ([[99]], .dir 0o700), ([[99], [5]], .hard 1 0o444 [1])] ∧
    frameB [97] sharedTop (deleteLayer true sharedTop [97]).2 = true ∧
    (request false .handle .ok sharedTop [97]).1 = .ok true ∧
    fget (request false .handle .ok sharedTop [97]).2 [[99], [5]] = some (.hard 1 0o444 [1]) := by decide

/-- `<layers>/a` a private regular file without write permission: it is unlinked (never `chmod`-ed), the request
recreates the layer as a directory -/
example :
    let t : FS := [([layersName], .dir 0o755), ([layersName, [97]], .file 0 [1]), ([layersName, tomlName [97]], .file 0o644 [84]),
      ([layersName, [98]], .dir 0o700)]
    (deleteLayer false t [97]).1 = .ok () ∧ (deleteLayer false t [97]).2 = [([layersName], .dir 0o755), ([layersName, [98]], .dir 0o700)] ∧
    (request false .uncached .ok t [97]).1 = .ok true ∧
    fget (request false .uncached .ok t [97]).2 [layersName, [97]] = some (.dir 0o755) := by decide

/-- A layer with a read-only nested directory (`r`, mode 0500, holding a file), a non-searchable one (`z`, mode 000),
a relative link to an outside directory, an absolute link to an outside file, a two-link cycle, a dangling link, a
metadata file and an SBOM file; beside it a sibling layer `ax` with its own metadata file, and the outside tree `c`. -/
def mixed : FS :=
  [([layersName], .dir 0o755),
   ([layersName, [97]], .dir 0o755),
   ([layersName, [97], [114]], .dir 0o500), ([layersName, [97], [114], [102]], .file 0o444 [9]),
   ([layersName, [97], [122]], .dir 0), ([layersName, [97], [122], [103]], .file 0o600 []),
   ([layersName, [97], [111]], .link [46, 46, 47, 46, 46, 47, 99]),      -- ../../c
   ([layersName, [97], [112]], .link [47, 99, 47, 5]),                    -- /c/<5>
   ([layersName, [97], [120]], .link [121]), ([layersName, [97], [121]], .link [120]),
   ([layersName, [97], [100]], .link [110, 111, 112, 101]),
   ([layersName, tomlName [97]], .file 0o644 [84]),
   ([layersName, sbomName [97] [99, 100, 120, 46, 106, 115, 111, 110]], .file 0o644 [1, 2]),
   ([layersName, [97, 120]], .dir 0o755), ([layersName, [97, 120], [102]], .file 0o644 [3]),
   ([layersName, tomlName [97, 120]], .file 0o644 [4]),
   ([[99]], .dir 0o700), ([[99], [5]], .file 0o600 [1])]

/-- non-vacuity: the hypotheses hold of `mixed`, and both as root and as an unprivileged owner the deletion succeeds,
removes every own path and leaves the sibling layer and the outside tree -/
example : WF mixed ∧ LayersDir mixed := ⟨wf_of_wfB (by decide), by decide⟩

example : (deleteLayer true mixed [97]).1 = .ok () ∧ (deleteLayer false mixed [97]).1 = .ok () ∧
    (deleteLayer false mixed [97]).2 =
      [([layersName], .dir 0o755), ([layersName, [97, 120]], .dir 0o755), ([layersName, [97, 120], [102]], .file 0o644 [3]),
       ([layersName, tomlName [97, 120]], .file 0o644 [4]), ([[99]], .dir 0o700), ([[99], [5]], .file 0o600 [1])] := by
  decide

/-- non-vacuity of the failure half of M1: an unprivileged caller in a read-only layers directory empties the layer
(allowed: its own paths), cannot remove it, and the call fails -/
example :
    let t : FS := [([layersName], .dir 0o555), ([layersName, [97]], .dir 0o700), ([layersName, [97], [102]], .file 0o600 [1]),
      ([layersName, [98]], .dir 0o700)]
    (deleteLayer false t [97]).1 = .error .access ∧
    fget (deleteLayer false t [97]).2 [layersName, [97], [102]] = none ∧
    fget (deleteLayer false t [97]).2 [layersName, [98]] = some (.dir 0o700) := by decide

/-- non-vacuity of M3: a request on `mixed` and on the top-level link deletes and recreates -/
example : (request true .uncached .ok mixed [97]).1 = .ok true ∧ (request false .handle .ok mixed [97]).1 = .ok true ∧
    (request true .cached .ok topLink [97]).1 = .ok true ∧
    fget (request true .cached .ok topLink [97]).2 [[99], [5]] = some (.file 0o600 [1]) := by decide

/-- non-vacuity of `request_failed_create`: on `mixed` (read-only and non-searchable directories, outside links, a cycle,
`a.toml`, an SBOM file) the trait API's request with a failing `Layer::create` fails at stage `recreate`, as root and as
an unprivileged owner, and leaves the new empty directory and no other own path; the sibling layer and the outside tree
are as they were -/
example : (request true .handle .createErr mixed [97]).1 = .error (.recreate, .buildpack) ∧
    (request false .handle .createErr mixed [97]).1 = .error (.recreate, .buildpack) ∧
    (request false .handle .createErr mixed [97]).2 =
      [([layersName, [97]], .dir 0o755),
       ([layersName], .dir 0o755), ([layersName, [97, 120]], .dir 0o755), ([layersName, [97, 120], [102]], .file 0o644 [3]),
       ([layersName, tomlName [97, 120]], .file 0o644 [4]), ([[99]], .dir 0o700), ([[99], [5]], .file 0o600 [1])] := by
  decide

/-- the struct API has no creating callback: the same outcome parameter changes nothing there; and a layer that did not
exist fails at stage `create` (nothing was deleted: `OldGone` is not demanded) -/
example : (request true .cached .createErr mixed [97]).1 = .ok true ∧
    (request true .handle .createErr [([layersName], .dir 0o755)] [97]).1 = .error (.create, .buildpack) := by decide

/-- non-vacuity of `request_failed_decide`: the deciding callback fails on `mixed` — nothing changes at all; on a layer
directory without metadata file the empty `<n>.toml` of the reader's normalisation is the one change; `uncached_layer`
has no such callback -/
example : (request false .cached .decideErr mixed [97]).1 = .error (.decide, .buildpack) ∧
    (request false .cached .decideErr mixed [97]).2 = mixed ∧
    (request true .handle .decideErr mixed [97]).1 = .error (.decide, .buildpack) ∧
    (request true .handle .decideErr mixed [97]).2 = mixed ∧
    (request true .handle .decideErr [([layersName], .dir 0o755), ([layersName, [97]], .dir 0o700)] [97]).1 =
      .error (.decide, .buildpack) ∧
    (request true .handle .decideErr [([layersName], .dir 0o755), ([layersName, [97]], .dir 0o700)] [97]).2 =
      [([layersName, tomlName [97]], .file 0o644 emptyToml), ([layersName], .dir 0o755), ([layersName, [97]], .dir 0o700)] ∧
    (request true .uncached .decideErr mixed [97]).1 = .ok true := by decide

/-- `OldGone` is not vacuous — what a recreate that removes only the layer *directory* before calling `Layer::create`
leaves when that callback fails (the new empty directory beside the old `a.toml` and the old SBOM file) is rejected,
as is a surviving entry below the directory; the state the model leaves is accepted -/
example :
    let stale : FS := [([layersName], .dir 0o755), ([layersName, [97]], .dir 0o755),
      ([layersName, tomlName [97]], .file 0o644 [84]),
      ([layersName, sbomName [97] [99, 100, 120, 46, 106, 115, 111, 110]], .file 0o644 [1, 2]),
      ([layersName, [97, 120]], .dir 0o755), ([layersName, [97, 120], [102]], .file 0o644 [3]),
      ([layersName, tomlName [97, 120]], .file 0o644 [4]), ([[99]], .dir 0o700), ([[99], [5]], .file 0o600 [1])]
    frameB [97] mixed stale = true ∧ oldGoneB [97] mixed stale = false ∧
    oldGoneB [97] mixed (ferase stale [layersName, sbomName [97] [99, 100, 120, 46, 106, 115, 111, 110]]) = false ∧
    oldGoneB [97] mixed (([layersName, [97], [114]], Node.dir 0o777) :: (request true .handle .createErr mixed [97]).2) = false ∧
    oldGoneB [97] mixed (request true .handle .createErr mixed [97]).2 = true ∧
    intactB [97] mixed stale = false ∧ intactB [97] mixed mixed = true := by decide

end CnbVerif.C11
