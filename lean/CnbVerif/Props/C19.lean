import CnbVerif.Lemmas.MappedWrite
import CnbVerif.Lemmas.Pipes
/-!
# C19 — child output streamed fully without deadlock; writers chunking-independent

Property theorems only. Models: `Model/MappedWrite.lean` (A: `MappedWrite`, `TeeWrite` of write.rs — the mapped writer
*as it is after the minimal fix of D5*: the remainder is flushed on drop/unwrap only when non-empty) and `Model/Pipes.lean`
(B: child script, two bounded pipes, one copier thread per stream, of command.rs). Specification:
`Spec/Streaming.lean` (whole-input split at markers; per-stream bytes of a script; the input of a sequence of `write` and
`flush` calls; a child's life with closes and pauses, `mustBeRunningAtReturn`).

`flush()` is part of the op alphabet of model A (`MappedWrite::flush` / `TeeWrite::flush` only forward, the pending buffer is
kept): a copier that flushes the supplied writer after every pipe read, or a caller who flushes for a live view, must not turn
read boundaries into segment boundaries. Wrappers are modelled by the calls they make on what they wrap, so the theorems about
`tee` into `mapped`, `mapped` into `tee`, `mapped` of `mapped` are compositions of the same functions.

The streaming half (B) is a statement about the model; OS pipes, the scheduler and threads are not exhibited by it, their
behaviour is sampled by the correspondence under a watchdog (claim labelled partial in `propcfg/C19.py`).
-/
namespace CnbVerif.C19
open CnbVerif MW Pipes Spec.Streaming

/-! ## A. mapped writer and tee -/

/-- **M1 (regardless of how the input was split across write calls).** Two sequences of `write` calls with the same
concatenation leave a mapped writer — starting from any state — in the same state: same pending buffer, same bytes handed
to the inner writer. Hence also the same final output. -/
theorem chunk_independent (m : Nat) (f : Bytes → Bytes) (s : St) (c1 c2 : List Bytes) (h : c1.flatten = c2.flatten) :
    c1.foldl (write m f) s = c2.foldl (write m f) s ∧ run m f c1 = run m f c2 := by
  refine ⟨by rw [foldl_write_flatten, foldl_write_flatten, h], ?_⟩
  simp only [run, foldl_write_flatten, h]

/-- **M2 (the mapping of each marker-terminated segment and of the non-empty remainder).** For every marker, mapping
function and sequence of writes, what the inner writer holds after drop/unwrap is `f` of every marker-terminated segment
of the whole input, in order, followed by `f` of the remainder exactly when the remainder is non-empty. -/
theorem output_spec (m : Nat) (f : Bytes → Bytes) (chunks : List Bytes) :
    run m f chunks = mappedOutput m f chunks.flatten := by
  simp only [run, foldl_write_flatten, finish_write, St.init, List.nil_append, prependBuf_nil]
  rfl

/-- **M3 (the tee writer gives both targets the full input).** After any sequence of writes both targets hold exactly
the concatenation of the chunks. -/
theorem tee_full_input (chunks : List Bytes) :
    (teeRun chunks).a = teeOutput chunks.flatten ∧ (teeRun chunks).b = teeOutput chunks.flatten := by
  simp [teeRun, teeRun_aux, Tee.init, teeOutput]

/-- **M3′ (short-writing targets).** The same for targets that accept only a prefix of what they are offered or fail with
`Interrupted`, in any pattern (`sa`, `sb`: one entry per `write` call the target receives): because `TeeWrite::write` hands
the chunk to each target with `write_all`, both targets still end up with exactly the input, once. -/
theorem tee_full_input_short_writes (sa sb : List Nat) (chunks : List Bytes) :
    (teeRunS sa sb chunks).a = teeOutput chunks.flatten ∧ (teeRunS sa sb chunks).b = teeOutput chunks.flatten := by
  simpa [teeRunS, teeOutput] using teeRunS_aux chunks ⟨[], [], sa, sb⟩

/-- **M2′ (short-writing inner writer).** A mapped writer whose inner writer short-writes or is interrupted in any pattern
delivers the same bytes as over a plain buffer — hence `output_spec` and `chunk_independent` hold for it unchanged. -/
theorem mapped_output_short_writes (m : Nat) (f : Bytes → Bytes) (script : List Nat) (chunks : List Bytes) :
    runS m f script chunks = mappedOutput m f chunks.flatten := by
  rw [← output_spec]
  have h := foldl_writeS_sim m f chunks ⟨[], [], script⟩
  simp only [runS, run, finishS, finish, St.init, h.1, h.2, writeAll_content]
  rfl

/-- **M1+M2 with `flush()` in the op alphabet (regardless of how the input was split across write calls — and of whether
and where the caller flushes in between).** For every marker, mapping function, interleaving `ops` of writes (`some chunk`)
and flushes (`none`) — flushes first, last, twice in a row, none at all — and every short-write / interrupt behaviour `script`
of the inner writer: what the inner writer holds once the mapped writer is dropped / unwrapped is `mappedOutput` of the
concatenated input. A flush is forwarded to the inner writer and leaves the pending buffer alone
(`MappedWrite::flush` of write.rs); it never turns a partial segment into a segment. By induction over `ops`
(`foldl_callT_sim`). -/
theorem mapped_output_independent_of_flushes (m : Nat) (f : Bytes → Bytes) (script : List Nat) (ops : List (Option Bytes)) :
    sinkRunS script [] (mappedCalls m f ops) = mappedOutput m f (writtenBytes ops) := by
  rw [sinkRunS_content, List.nil_append, mappedCalls_content]

/-- The same as a statement about two histories: same concatenated input ⇒ same output and same number of flushes seen by
the inner writer as were given, whatever the two splits and the two placements of flushes; in particular the flush-free
model `run` (`output_spec`) describes every history with flushes removed. -/
theorem flushes_change_nothing (m : Nat) (f : Bytes → Bytes) (script : List Nat) (ops : List (Option Bytes)) (chunks : List Bytes)
    (h : writtenBytes ops = chunks.flatten) :
    sinkRunS script [] (mappedCalls m f ops) = run m f chunks ∧ sinkFlushes (mappedCalls m f ops) = sinkFlushes ops := by
  rw [mapped_output_independent_of_flushes, output_spec, h]
  exact ⟨rfl, mappedCalls_flushes m f ops⟩

/-- **M3 with flushes (the tee writer gives both targets the full input).** Both targets of a tee — plain or short-writing —
hold exactly the concatenated input after any interleaving of writes and flushes, and each has received every flush. -/
theorem tee_full_input_with_flushes (sa sb : List Nat) (ops : List (Option Bytes)) :
    sinkRunS sa [] (teeCalls ops).1 = teeOutput (writtenBytes ops) ∧ sinkRunS sb [] (teeCalls ops).2 = teeOutput (writtenBytes ops) ∧
    sinkFlushes (teeCalls ops).1 = sinkFlushes ops ∧ sinkFlushes (teeCalls ops).2 = sinkFlushes ops := by
  simp [teeCalls, teeOutput, sinkRunS_content, sinkContent_eq_writtenBytes]

/-- **Compositions.** `tee(a, mapped(b, m, f))`: `a` holds the input, `b` its mapping. `mapped(tee(a, b), m, f)`: both hold the
mapping. `mapped(mapped(w, m₂, g), m, f)`: `w` holds the `g`-mapping (at `m₂`) of the `f`-mapping (at `m`) of the input —
for every interleaving of writes and flushes and all short-write behaviours of the targets. -/
theorem compositions_independent_of_flushes (m m₂ : Nat) (f g : Bytes → Bytes) (sa sb : List Nat) (ops : List (Option Bytes)) :
    (sinkRunS sa [] (teeCalls ops).1 = writtenBytes ops ∧
     sinkRunS sb [] (mappedCalls m f (teeCalls ops).2) = mappedOutput m f (writtenBytes ops)) ∧
    (sinkRunS sa [] (teeCalls (mappedCalls m f ops)).1 = mappedOutput m f (writtenBytes ops) ∧
     sinkRunS sb [] (teeCalls (mappedCalls m f ops)).2 = mappedOutput m f (writtenBytes ops)) ∧
    sinkRunS sa [] (mappedCalls m₂ g (mappedCalls m f ops)) = mappedOutput m₂ g (mappedOutput m f (writtenBytes ops)) := by
  refine ⟨⟨?_, ?_⟩, ⟨?_, ?_⟩, ?_⟩
  · simp [teeCalls, sinkRunS_content, sinkContent_eq_writtenBytes]
  · simp [teeCalls, mapped_output_independent_of_flushes]
  · simp [teeCalls, mapped_output_independent_of_flushes]
  · simp [teeCalls, mapped_output_independent_of_flushes]
  · rw [mapped_output_independent_of_flushes, ← sinkContent_eq_writtenBytes, mappedCalls_content]

/-- **The flush statement discriminates.** A `flush` that maps and emits the pending buffer (instead of keeping it) makes the
output depend on where the caller flushes: `line_mapped(w, add_prefix("> "))` given `write("a"); flush(); write("b\n")` would
emit `"> a> b\n"`; the property (and the model of the code) give `"> ab\n"`. -/
theorem emitting_flush_violates_spec :
    sinkContent (mappedCallsEmitting 10 (addPrefix [62, 32]) [some [97], none, some [98, 10]]) ≠
      mappedOutput 10 (addPrefix [62, 32]) (writtenBytes [some [97], none, some [98, 10]]) ∧
    sinkContent (mappedCalls 10 (addPrefix [62, 32]) [some [97], none, some [98, 10]]) = [62, 32, 97, 98, 10] := by
  decide

/-- D5, the defect the unfixed code has: applying `f` to an *empty* remainder. `line_mapped(w, add_prefix("> "))` fed
`"a\nb\n"` yields `"> a\n> b\n> "`; the property (and the fixed model) give `"> a\n> b\n"`. -/
theorem unfixed_drop_violates_spec :
    runUnfixed 10 (addPrefix [62, 32]) [[97, 10, 98, 10]] ≠ mappedOutput 10 (addPrefix [62, 32]) [97, 10, 98, 10] := by
  decide

/-- non-vacuity: three segments' worth of input in awkward chunks, remainder non-empty -/
example : run 10 (addPrefix [62]) [[97], [], [10, 98, 10, 10], [99]] = [62, 97, 10, 62, 98, 10, 62, 10, 62, 99] := by decide
example : mappedOutput 10 (addPrefix [62]) [97, 10, 98, 10] = [62, 97, 10, 62, 98, 10] := by decide
example : segments 10 [97, 10, 10, 98] = ([[97, 10], [10]], [98]) := by decide
/-- flushes at the start, inside a segment, twice in a row and at the end; the inner writer sees all five -/
example : mappedCalls 10 (addPrefix [62]) [none, some [97], none, none, some [10, 98], none, some [10, 99], none] =
    [none, none, none, some [62, 97, 10], none, some [62, 98, 10], none, some [62, 99]] := by decide
example : writtenBytes [none, some [97], none, none, some [10, 98], none, some [10, 99], none] = [97, 10, 98, 10, 99] := by decide
/-- a second target taking one byte per call, a first one interrupted on every other call -/
example : teeRunS [0, 3, 0, 3] [1, 1, 1] [[1, 2, 3], [4]] = ⟨[1, 2, 3, 4], [1, 2, 3, 4], [], []⟩ := by decide

/-! ## B. two pipes, two copier threads -/

/-- **Tie to the source.** `write_child_process_output` spawns both copier threads before joining either, inside one
`thread::scope` (regenerated from command.rs on every run): the discipline the theorems below are about is the code's. -/
theorem copier_threads_spawned_before_joined : codeMode = .parallel := by decide

/-- **Tie to the source, copier bodies.** The closure of each of the two copier threads is exactly
`std::io::copy(<pipe end>, <writer>)` (regenerated from command.rs on every run; a hand-written loop in its place — which
could call anything on the writer between the writes — makes the translator report the tie as broken): the copier step of
the model, "forward what was read, in order, until EOF", is about this call. -/
theorem copiers_are_plain_io_copy : Gen.Sites.copierBodies = [.ioCopy, .ioCopy] := by decide

/-- **M4a progress (no deadlock).** With pipes of any positive capacity and any child script, no state reachable under
the code's discipline is stuck: either the call has returned (`final`) or some process or thread can move. -/
theorem progress (cap : Nat) (hcap : 0 < cap) (script : Script) (s : PSt)
    (hr : Reachable codeMode cap (init script) s) (hnf : final s = false) : succs codeMode cap s ≠ [] := by
  rw [copier_threads_spawned_before_joined] at hr ⊢
  exact progress_of_inv hcap (inv_reachable hr) hnf

/-- **M4b termination.** Every step lowers `measure`; hence every execution from a state `s` has at most `measure s`
steps — whatever the volume and interleaving, the call returns after finitely many steps (with `progress`: in a final
state). -/
theorem termination (mode : Mode) (cap : Nat) (s : PSt) (rest : List PSt) (h : Exec mode cap (s :: rest)) :
    rest.length ≤ measure s ∧ ∀ s' ∈ succs mode cap s, measure s' < measure s :=
  ⟨exec_length h s rest rfl, fun _ hs => measure_succs hs⟩

/-- **M4c delivery (every byte, in order per stream, to the writers and to the returned output).** In every reachable
state the bytes delivered so far, the bytes in the pipe and the bytes still to be written make up, in this order, exactly
what the script writes to that stream, and both tee targets hold the same. So when the call returns, the returned
`Output` buffer (`tee.a`) and the supplied writer (`tee.b`) of each stream hold exactly the stream's bytes. -/
theorem delivery (mode : Mode) (cap : Nat) (script : Script) (s : PSt) (hr : Reachable mode cap (init script) s) :
    (∀ st, (s.chan st).tee.a ++ (s.chan st).pipe ++ streamBytes st s.script = streamBytes st script ∧
           (s.chan st).tee.b = (s.chan st).tee.a) ∧
    (final s = true → s = finalOf script ∧
      s.o.tee.a = streamBytes false script ∧ s.o.tee.b = streamBytes false script ∧
      s.e.tee.a = streamBytes true script ∧ s.e.tee.b = streamBytes true script) := by
  have hinv := inv_reachable hr
  refine ⟨fun st => ⟨?_, hinv.same st⟩, ?_⟩
  · simpa [written_eq_streamBytes] using hinv.acct st
  · intro hf
    simp only [final, Bool.and_eq_true, List.isEmpty_iff] at hf
    obtain ⟨⟨hscr, ho⟩, he⟩ := hf
    have ao := hinv.acct false
    have ae := hinv.acct true
    have po := (hinv.eof false (by simpa [PSt.chan] using ho)).2
    have pe := (hinv.eof true (by simpa [PSt.chan] using he)).2
    have so := hinv.same false
    have se := hinv.same true
    simp only [PSt.chan, Bool.false_eq_true, if_false, if_true] at ao ae po pe so se
    rw [po, hscr] at ao
    rw [pe, hscr] at ae
    simp only [written, List.filter_nil, List.map_nil, List.flatten_nil, List.append_nil] at ao ae
    have ao' : s.o.tee.a = written false script := ao
    have ae' : s.e.tee.a = written true script := ae
    refine ⟨?_, ?_, ?_, ?_, ?_⟩
    · obtain ⟨scr, ⟨op, ⟨oa, ob⟩, oe⟩, ⟨ep, ⟨ea, eb⟩, ee⟩⟩ := s
      simp_all [finalOf]
    · rw [ao', written_eq_streamBytes]
    · rw [so, ao', written_eq_streamBytes]
    · rw [ae', written_eq_streamBytes]
    · rw [se, ae', written_eq_streamBytes]

/-- **The statement discriminates.** Under the *sequential* variant (drain stdout to EOF, then stderr) a child that
writes more to stderr than the pipe holds reaches a state that is not final and has no successor: the child is blocked on
the full stderr pipe, the stdout copier waits for data or EOF, the stderr copier has not started. -/
theorem sequential_variant_deadlocks :
    ∃ s, Reachable .sequential 1 (init [(true, [1, 2])]) s ∧ final s = false ∧ succs .sequential 1 s = [] := by
  refine ⟨⟨[(true, [2])], Chan.init, ⟨[1], Tee.init, false⟩⟩, ?_, by decide, by decide⟩
  exact Reachable.step Reachable.refl (by decide)

/-- non-vacuity of `progress`/`delivery`: the same script under the code's discipline runs to the final state -/
example : runFirst codeMode 1 100 (init [(true, [1, 2]), (false, [3])]) = finalOf [(true, [1, 2]), (false, [3])] := by decide
example : Reachable codeMode 1 (init [(true, [1, 2])]) (init [(true, [1, 2])]) := Reachable.refl
example : measure (init [(true, [1, 2]), (false, [3])]) = 10 := by decide

/-! ## B′. the return point: stream close, not child exit -/

/-- **Tie to the source, return point.** Neither `spawn_and_write_streams` nor any function of command.rs it mentions
(`write_child_process_output`, `join_and_unwind_panic`, `unwind_panic`, …) calls `wait` / `try_wait` / `wait_with_output`
(regenerated from command.rs on every run): the call hands the `Child` back right after the copier threads are joined. -/
theorem spawn_does_not_wait_for_exit : Gen.Sites.spawnWaitCalls = [] := by decide

/-- **M5 (returns once both streams close).** For every behaviour of the child — any order of the two closes, anything after them —
at any moment `pre` of its life at which it has closed both streams, `spawn_and_write_streams` has returned; in particular, if the
exit comes after both closes (`CEv.exit ∉ pre`), the return precedes the exit: the child is handed back running. Under the same
history `output_and_write_streams` (which returns the exit status) has not returned. -/
theorem spawn_returns_at_stream_close (pre : List CEv) (ho : CEv.close false ∈ pre) (he : CEv.close true ∈ pre) :
    returned spawnProg pre = true ∧ (CEv.exit ∉ pre → returned outputProg pre = false) := by
  have hp : spawnProg = [.joinCopier false, .joinCopier true] := by simp [spawnProg, spawn_does_not_wait_for_exit]
  refine ⟨?_, fun hx => ?_⟩
  · simp [hp, returned, enabledAfter, ho, he]
  · simp [outputProg, hp, returned, enabledAfter, hx]

/-- … and not earlier: while a stream is still open (and the child alive) the call has not returned — bytes written to that stream
later are still delivered (`delivery`). -/
theorem spawn_does_not_return_before_close (pre : List CEv) (st : Bool) (hc : CEv.close st ∉ pre) (hx : CEv.exit ∉ pre) :
    returned spawnProg pre = false := by
  have hp : spawnProg = [.joinCopier false, .joinCopier true] := by simp [spawnProg, spawn_does_not_wait_for_exit]
  cases st <;> simp [hp, returned, enabledAfter, hc, hx]

/-- **The statement discriminates.** The variant that waits for the exit before handing the child back has not returned at any
moment before the exit, however long ago both streams were closed. -/
theorem waiting_variant_returns_only_after_exit (pre : List CEv) (hx : CEv.exit ∉ pre) : returned spawnProgWaiting pre = false := by
  simp [spawnProgWaiting, returned, enabledAfter, hx]

/-- non-vacuity: a daemon-like child (closes stdout, then stderr, exits later) -/
example : returned spawnProg [.close false, .close true] = true ∧ returned spawnProg [.close false] = false ∧
    returned outputProg [.close false, .close true] = false ∧ returned outputProg [.close false, .close true, .exit] = true ∧
    returned spawnProgWaiting [.close false, .close true] = false := by decide
example : mustBeRunningAtReturn [(0, .write false [1]), (0, .close false), (100, .write true [2]), (0, .close true), (1500, .idle)] = some true := by decide
example : mustBeRunningAtReturn [(0, .write false [1]), (0, .close false), (1500, .idle)] = none := by decide

end CnbVerif.C19
