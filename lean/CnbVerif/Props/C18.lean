import CnbVerif.Lemmas.Inventory
import CnbVerif.Lemmas.Checksum
/-!
# C18 — inventory resolution returns a maximal matching artifact; checksums round-trip

Property theorems only. Model: `Model/Inventory.lean` (`resolve` = filter + `max_by_key` (last maximum),
`partialResolve` = the fold of `partial_max_by_key`, `parseChecksum` / `renderChecksum`, the serde record of an artifact).
Specification: `Spec/Inventory.lean` (`Acceptable`: matches and no matching version exceeds; `ChecksumGrammar`).

Generic over the version type, its comparison and the metadata type. The TOML *text* layer (crate `toml`) is not modelled:
the round trip is proved at the level of the serde record and the text layer is exercised by the correspondence.
-/
namespace CnbVerif.C18
open CnbVerif CnbVerif.Inventory CnbVerif.Spec.Inventory

/-- **M1 (totally ordered versions).** For every version type with a lawful `Ord` comparison, every inventory and every
query: `resolve` returns an artifact of the inventory that matches OS, architecture and requirement and whose version no
matching artifact exceeds; it returns nothing only when no artifact matches. -/
theorem resolve_maximal {V M : Type} (cmp : V → V → Ordering) (laws : TotalLaws cmp) (inv : List (Artifact V M))
    (os : Os) (arch : Arch) (req : Req V M) :
    Acceptable (ltOfCmp cmp) inv os arch req (resolve cmp inv os arch req) := by
  apply acceptable_of_filter_max
  have h := maxByKeyLast_spec laws (fun a : Artifact V M => a.version) (inv.filter (selects os arch req))
  unfold resolve
  cases hr : maxByKeyLast cmp (fun a : Artifact V M => a.version) (inv.filter (selects os arch req)) with
  | none => rw [hr] at h; exact h
  | some r =>
    rw [hr] at h
    exact ⟨h.1, fun w hw => by simpa [ltOfCmp] using h.2 w hw⟩

/-- **M2 (partially ordered versions).** The same for every version type with a lawful `PartialOrd` comparison, where
versions may be incomparable: no matching artifact's version is strictly greater than the returned one's. -/
theorem partial_resolve_maximal {V M : Type} (pcmp : V → V → Option Ordering) (laws : PartialLaws pcmp)
    (inv : List (Artifact V M)) (os : Os) (arch : Arch) (req : Req V M) :
    Acceptable (ltOfPCmp pcmp) inv os arch req (partialResolve pcmp inv os arch req) := by
  apply acceptable_of_filter_max
  have h := partialMaxByKey_spec laws (fun a : Artifact V M => a.version) (inv.filter (selects os arch req))
  unfold partialResolve
  cases hr : partialMaxByKey pcmp (fun a : Artifact V M => a.version) (inv.filter (selects os arch req)) with
  | none => rw [hr] at h; exact h
  | some r =>
    rw [hr] at h
    exact ⟨h.1, fun w hw => by simpa [ltOfPCmp] using h.2 w hw⟩

/-- **"returns nothing only when no artifact matches"**, both directions, for both resolvers: with an acceptable result,
`none` ⇔ nothing in the inventory matches. -/
theorem none_iff_nothing_matches {V M : Type} (lt : V → V → Bool) (inv : List (Artifact V M)) (os : Os) (arch : Arch)
    (req : Req V M) (res : Option (Artifact V M)) (h : Acceptable lt inv os arch req res) :
    res = none ↔ ∀ w ∈ inv, ¬ Matches os arch req w := by
  cases res with
  | none => simpa [Acceptable] using h
  | some r =>
    simp only [reduceCtorEq, false_iff]
    intro hall
    exact hall r h.1 h.2.1

/-- **M2b (artifacts that do not match have no influence).** Dropping from the inventory any artifacts that do not match
the query (any sub-selection `p` that keeps every matching artifact) leaves the result of both resolvers unchanged — the
answer is a function of the matching artifacts, in their inventory order, alone. -/
theorem non_matching_artifacts_have_no_influence {V M : Type} (cmp : V → V → Ordering) (pcmp : V → V → Option Ordering)
    (inv : List (Artifact V M)) (os : Os) (arch : Arch) (req : Req V M) (p : Artifact V M → Bool)
    (hp : ∀ a, selects os arch req a = true → p a = true) :
    resolve cmp (inv.filter p) os arch req = resolve cmp inv os arch req ∧
      partialResolve pcmp (inv.filter p) os arch req = partialResolve pcmp inv os arch req := by
  have h : (inv.filter p).filter (selects os arch req) = inv.filter (selects os arch req) := by
    rw [List.filter_filter]
    apply List.filter_congr
    intro a _
    cases hs : selects os arch req a with
    | false => simp
    | true => simp [hp a hs]
  unfold resolve partialResolve
  rw [h]
  exact ⟨rfl, rfl⟩

/-- **M3a.** `hex::decode (hex::encode b) = b` for every byte string. -/
theorem hex_roundtrip (b : Bytes) (hb : ∀ x ∈ b, x < 256) : decodeHex (encodeHex b) = some b :=
  hexDecode_hexEncode b hb

/-- **M3b (a checksum string is accepted exactly when it is `<algorithm>:<hex>` …).** For every digest and every
string, `Checksum::from_str` succeeds iff the string is a colon-free algorithm name the digest accepts, a colon, and an
even number of hex digits (either case) denoting as many bytes as the digest accepts; the parsed value is that name and
those bytes. -/
theorem checksum_accepted_iff_grammar (d : Digest) (s : List Char) :
    (∃ c, parseChecksum d s = .ok c) ↔ ChecksumGrammar d s := by
  unfold parseChecksum ChecksumGrammar
  constructor
  · rintro ⟨c, hc⟩
    cases hs : splitOnceColon s with
    | none => simp [hs] at hc
    | some p =>
      obtain ⟨k, v⟩ := p
      cases hd : decodeHex v with
      | none => simp [hs, hd] at hc
      | some bytes =>
        simp only [hs, hd] at hc
        split at hc
        · simp at hc
        · rename_i hn
          split at hc
          · simp at hc
          · rename_i hl
            obtain ⟨h1, h2⟩ := (splitOnceColon_some_iff s k v).mp hs
            obtain ⟨g1, g2, _⟩ := (hexDecode_some_iff v bytes).mp hd
            exact ⟨k, v, h1, h2, by simpa using hn, g1, bytes.length, g2, by simpa using hl⟩
  · rintro ⟨name, hex, hs, hcolon, hname, hhex, n, hlen, hn⟩
    have h1 := (splitOnceColon_some_iff s name hex).mpr ⟨hs, hcolon⟩
    have hv : (hexValue hex).length = n := by
      have : ∀ (l : List Char) (k : Nat), l.length = 2 * k → (hexValue l).length = k := by
        intro l
        induction l using two_step_induction with
        | h0 => intro k hk; simp at hk; simp [hexValue]; omega
        | h1 c => intro k hk; simp at hk; omega
        | h2 a c rest ih =>
          intro k hk
          simp only [List.length_cons] at hk
          simp only [hexValue, List.length_cons]
          have := ih (k - 1) (by omega)
          omega
      exact this hex n hlen
    have h2 := (hexDecode_some_iff hex (hexValue hex)).mpr ⟨hhex, by omega, rfl⟩
    exact ⟨⟨name, hexValue hex⟩, by simp [h1, h2, hname, hv, hn]⟩

/-- the parsed checksum is the algorithm name and the bytes the hex digits denote -/
theorem checksum_value (d : Digest) (s : List Char) (c : Checksum) (h : parseChecksum d s = .ok c) :
    s = c.name ++ ':' :: (s.drop (c.name.length + 1)) ∧ c.value = hexValue (s.drop (c.name.length + 1)) := by
  unfold parseChecksum at h
  cases hs : splitOnceColon s with
  | none => simp [hs] at h
  | some p =>
    obtain ⟨k, v⟩ := p
    cases hd : decodeHex v with
    | none => simp [hs, hd] at h
    | some bytes =>
      simp only [hs, hd] at h
      split at h
      · simp at h
      · split at h
        · simp at h
        · simp only [Except.ok.injEq] at h
          subst h
          obtain ⟨h1, _⟩ := (splitOnceColon_some_iff s k v).mp hs
          obtain ⟨_, _, g3⟩ := (hexDecode_some_iff v bytes).mp hd
          subst h1
          simp [g3]

/-- **M3b′ (acceptance does not depend on the entry path: a checksum inside an artifact record).** `impl Deserialize for
Checksum<D>` is `String::deserialize` followed by `from_str`, so a checksum that arrives as the `checksum` string of an
artifact record (an inventory document, any serde format) is judged exactly like the same string handed to
`Checksum::from_str`: whenever the record decodes, the artifact holds `from_str`'s result for the record's string. -/
theorem record_checksum_is_from_str {V M EV EM : Type} (cv : Codec V EV) (cm : Codec M EM) (d : Digest) (r : Rec EV EM)
    (a : Artifact V M) (h : decodeArtifact cv cm d r = some a) : parseChecksum d r.checksum = .ok a.checksum := by
  unfold decodeArtifact at h
  split at h
  · rename_i hc _
    simp only [Option.some.injEq] at h
    subst h
    exact hc
  · simp at h

/-- … and a record whose other fields decode is accepted **exactly when** its checksum string is `<algorithm>:<hex>` of the
expected digest — the same grammar as on the `FromStr` path (`checksum_accepted_iff_grammar`), nothing trimmed or added on the way. -/
theorem record_accepted_iff_checksum_grammar {V M EV EM : Type} (cv : Codec V EV) (cm : Codec M EM) (d : Digest) (r : Rec EV EM)
    (hv : ∃ v, cv.dec r.version = some v) (hos : ∃ o, Os.parse r.os = some o) (harch : ∃ x, Arch.parse r.arch = some x)
    (hm : ∃ m, cm.dec r.metadata = some m) :
    (∃ a : Artifact V M, decodeArtifact cv cm d r = some a) ↔ ChecksumGrammar d r.checksum := by
  rw [← checksum_accepted_iff_grammar]
  obtain ⟨v, hv⟩ := hv
  obtain ⟨o, hos⟩ := hos
  obtain ⟨x, harch⟩ := harch
  obtain ⟨m, hm⟩ := hm
  constructor
  · rintro ⟨a, ha⟩
    exact ⟨a.checksum, record_checksum_is_from_str cv cm d r a ha⟩
  · rintro ⟨c, hc⟩
    exact ⟨⟨v, o, x, r.url, c, m⟩, by simp [decodeArtifact, hv, hos, harch, hm, hc]⟩

/-- an inventory document is accepted only if every artifact's checksum string is in the grammar -/
theorem inventory_accepts_only_grammar_checksums {V M EV EM : Type} (cv : Codec V EV) (cm : Codec M EM) (d : Digest)
    (recs : List (Rec EV EM)) (inv : List (Artifact V M)) (h : decodeInventory cv cm d recs = some inv) :
    ∀ r ∈ recs, ChecksumGrammar d r.checksum := by
  induction recs generalizing inv with
  | nil => simp
  | cons r rest ih =>
    simp only [decodeInventory] at h
    cases ha : decodeArtifact (V := V) (M := M) cv cm d r with
    | none => simp [ha] at h
    | some a =>
      cases hr : decodeInventory (V := V) (M := M) cv cm d rest with
      | none => simp [ha, hr] at h
      | some as =>
        intro r' hr'
        rcases List.mem_cons.mp hr' with rfl | hmem
        · exact (checksum_accepted_iff_grammar d r'.checksum).mp ⟨a.checksum, record_checksum_is_from_str cv cm d r' a ha⟩
        · exact ih as hr r' hmem

/-- the decision procedure the driver judges the implementation with is the grammar -/
theorem spec_oracle_is_grammar (d : Digest) (s : List Char) : accepts d s = true ↔ ChecksumGrammar d s :=
  accepts_iff_grammar d s

/-- **M3c (checksums round-trip).** Rendering a checksum that is valid for the digest and parsing it back gives the same
checksum. -/
theorem checksum_roundtrip (d : Digest) (c : Checksum) (hcolon : ':' ∉ c.name) (hname : d.nameCompatible c.name = true)
    (hlen : d.lengthCompatible c.value.length = true) (hb : ∀ x ∈ c.value, x < 256) :
    parseChecksum d (renderChecksum c) = .ok c := by
  unfold parseChecksum renderChecksum
  have h1 := (splitOnceColon_some_iff (c.name ++ ':' :: encodeHex c.value) c.name (encodeHex c.value)).mpr ⟨rfl, hcolon⟩
  simp [h1, hexDecode_hexEncode c.value hb, hname, hlen]

/-- what `Checksum::from_str` guarantees of every checksum it returns (and the only way to obtain one outside the crate) -/
def ValidChecksum (d : Digest) (c : Checksum) : Prop :=
  ':' ∉ c.name ∧ d.nameCompatible c.name = true ∧ d.lengthCompatible c.value.length = true ∧ ∀ x ∈ c.value, x < 256

/-- **M4 (rendering an inventory and parsing it back gives equal artifacts), at the level of the serde record.** For every
inventory whose checksums are valid for the digest and whose version and metadata types round-trip through their own
`Serialize`/`Deserialize`, decoding the encoded inventory gives the same list of artifacts. (The TOML text below the
record is the `toml` crate's; it is exercised by the correspondence, not proved.) -/
theorem inventory_roundtrip_partial {V M EV EM : Type} (cv : Codec V EV) (cm : Codec M EM) (d : Digest)
    (hv : ∀ v, cv.dec (cv.enc v) = some v) (hm : ∀ m, cm.dec (cm.enc m) = some m)
    (inv : List (Artifact V M)) (hc : ∀ a ∈ inv, ValidChecksum d a.checksum) :
    decodeInventory cv cm d (encodeInventory cv cm inv) = some inv := by
  induction inv with
  | nil => simp [encodeInventory, decodeInventory]
  | cons a rest ih =>
    have ha := hc a (by simp)
    have hrt := checksum_roundtrip d a.checksum ha.1 ha.2.1 ha.2.2.1 ha.2.2.2
    have hos : Os.parse a.os.render = some a.os := by cases a.os <;> decide
    have harch : Arch.parse a.arch.render = some a.arch := by cases a.arch <;> decide
    have ih' := ih (fun b hb => hc b (by simp [hb]))
    simp only [encodeInventory, List.map_cons, decodeInventory] at ih' ⊢
    simp [decodeArtifact, encodeArtifact, hv, hm, hos, harch, hrt, ih']

/-- The full M4 is about TOML text: `parse (to_string inv) = inv`. What `inventory_roundtrip_partial` leaves out is
exactly this statement about the `toml` crate's serializer / deserializer pair on artifact records (not modelled). -/
def FullStatement {EV EM : Type} (tomlToString : List (Rec EV EM) → List Char)
    (tomlFromStr : List Char → Option (List (Rec EV EM))) : Prop :=
  ∀ recs, tomlFromStr (tomlToString recs) = some recs

/-! ## the hypotheses are satisfiable: concrete orders -/

/-- `u32`-like versions satisfy the laws `resolve_maximal` asks for -/
example : TotalLaws natCmp := natCmp_laws
example (inv : List (Artifact Nat Unit)) (os : Os) (arch : Arch) (req : Req Nat Unit) :
    Acceptable (ltOfCmp natCmp) inv os arch req (resolve natCmp inv os arch req) := resolve_maximal natCmp natCmp_laws inv os arch req

/-- pairs under the product order — a partial order with incomparable elements — satisfy the laws
`partial_resolve_maximal` asks for -/
example : PartialLaws pairPCmp := pairPCmp_laws
example (inv : List (Artifact (Nat × Nat) Unit)) (os : Os) (arch : Arch) (req : Req (Nat × Nat) Unit) :
    Acceptable (ltOfPCmp pairPCmp) inv os arch req (partialResolve pairPCmp inv os arch req) :=
  partial_resolve_maximal pairPCmp pairPCmp_laws inv os arch req

/-- the partial order really has incomparable elements -/
example : pairPCmp (0, 1) (1, 0) = none ∧ pairPCmp (1, 0) (0, 1) = none := by decide

def anyReq {V : Type} : Req V Unit := ⟨fun _ => true, fun _ => true⟩
def art {V : Type} (v : V) (u : Char) : Artifact V Unit := ⟨v, .linux, .amd64, [u], ⟨[], []⟩, ()⟩

/-- three matching artifacts, two of them incomparable maxima, one below both: the fold returns a maximal one -/
example : (partialResolve pairPCmp [art (0, 0) 'a', art (0, 1) 'b', art (1, 0) 'c'] .linux .amd64 anyReq).map (·.url)
    = some ['b'] := by decide

/-- ties under a total order: the last maximum -/
example : (resolve natCmp [art 2 'a', art 1 'b', art 2 'c', art 0 'd'] .linux .amd64 anyReq).map (·.url) = some ['c'] := by
  decide

example : resolve natCmp [art 2 'a'] .darwin .amd64 anyReq = none := by decide

def d2 : Digest := ⟨fun n => n == "d2".toList, fun l => l == 2⟩
example : parseChecksum d2 "d2:0aFf".toList = .ok ⟨"d2".toList, [10, 255]⟩ := by rfl
example : parseChecksum d2 "d2:0aF".toList = .error .invalidValue := by rfl
example : parseChecksum d2 "d2:0aFf00".toList = .error .invalidLength := by rfl
example : ChecksumGrammar d2 "d2:0aFf".toList := (spec_oracle_is_grammar _ _).mp (by decide)

def idCodec : Codec Nat Nat := ⟨id, some⟩
/-- the record path on concrete strings: the well-formed checksum is accepted with `from_str`'s value, the same string followed
by a line break is rejected (as `from_str` rejects it) -/
example : (decodeArtifact idCodec idCodec d2 ⟨1, "linux".toList, "amd64".toList, ['u'], "d2:0aFf".toList, 0⟩).map (·.checksum)
    = some ⟨"d2".toList, [10, 255]⟩ := by rfl
example : decodeArtifact idCodec idCodec d2 ⟨1, "linux".toList, "amd64".toList, ['u'], "d2:0aFf\n".toList, 0⟩ = none := by rfl
example : parseChecksum d2 "d2:0aFf\n".toList = .error .invalidValue := by rfl

end CnbVerif.C18
