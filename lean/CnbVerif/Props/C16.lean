import CnbVerif.Lemmas.CleanupSpec
import CnbVerif.Lemmas.NoAbort
import CnbVerif.Model.TestRunnerFaults
import CnbVerif.Lemmas.ContainerBrackets
/-!
# C16 — libcnb-test removes every Docker resource and temp dir however the test ends

Property theorems only (helper lemmas: `Lemmas/TestRunner` — shape of the log, `Lemmas/CleanupRecog` +
`Lemmas/CleanupSpec` — what docker's reference grammar reads in it, `Lemmas/NoAbort`). The model is
`Model/TestRunner.lean` (scenario chains `build cfg [acts …, rebuild cfg' [acts' …]]`, acts `startContainer cfg [cacts]`,
`runShell`, `downloadSbom`, `panic`; cacts `logsNow | logsWait | port | exec | panic`; an oracle overriding the result
of any external command with `nonzero`/`notFound`; ownership, `Drop` and unwinding encoded by hand — that encoding is
the **partial** part of the claim). The specification is `Spec/Cleanup.lean`: conditions on the issued argv, read
through docker's reference option grammar.

All statements quantify over **every** scenario (no depth or length bound) and **every** oracle, restricted only where
stated. "Aborted" is the double fault — a panic inside `Drop for ContainerContext` (a failing `docker rm`) while already
unwinding — which is outside the property's quantifier; `double_fault_aborts` shows what the model does there. Every other
combination of faults (any panics, any failing commands other than `docker rm`) is covered by
`cleanup_whenever_docker_rm_works`.
-/
namespace CnbVerif.C16
open CnbVerif CnbVerif.Argv CnbVerif.TestRunner CnbVerif.Spec.Cleanup

/-- the image name `TestRunner::build` generates (the first identifier of the run) -/
def image : Word := nameWord 0

/-- the argv of every command the scenario issued, in order -/
def issued (o : Oracle) (sc : Scenario) : List Cmd := specLog (cmdsOf (run o sc).2.log)

/-- at most one injection: either no external command is overridden (any `panic` steps), or the scenario's container
closures do not panic by themselves and at most one command (index `k`) is overridden, with any result -/
def SingleInjection (sc : Scenario) (o : Oracle) : Prop :=
  (∀ i c n, o i c n = none) ∨ (NoPanicInContainers sc ∧ ∃ k, OnlyAt o k)

/-- **M1.** Whatever the scenario, wherever it panics, whichever commands fail: every `docker run … --detach` the run
issued is followed by a `docker rm <that name> --force` (holds even for runs that end in the double-fault abort). -/
theorem detached_containers_force_removed (o : Oracle) (sc : Scenario) : m1 (issued o sc) = true := by
  have himg : (nameWord 0).head? ≠ some 45 := by simp [nameWord]
  have hfresh : Fresh initSt := by intro g hg; simp [initSt] at hg
  obtain ⟨h1, h2⟩ := evalBuilds_spec o (resourcesFor (nameWord 0)) sc initSt hfresh
  unfold issued run
  by_cases hab : (evalBuilds o (resourcesFor (nameWord 0)) sc initSt).1 = .aborted
  · obtain ⟨es, l, hp⟩ := h2 hab
    have : (evalBuilds o (resourcesFor (nameWord 0)) sc initSt).2.log = es := by rw [l]; simp [initSt]
    rw [this]
    simpa using m1_pieces himg hp [] rfl
  · obtain ⟨⟨es, l, body, hb, hp⟩, _, _⟩ := h1 hab
    have : (evalBuilds o (resourcesFor (nameWord 0)) sc initSt).2.log = es := by rw [l]; simp [initSt]
    rw [this, hb]
    have hY : m1 (specLog (tailOf (resourcesFor (nameWord 0)))) = true := by
      simp [specLog, tailOf, m1, startsDetached, runName_other]
    simpa [specLog] using m1_pieces himg hp _ hY

/-- **M1, exactly once after the last use.** Whatever commands fail (any oracle) and wherever the closures panic — for
every way the run ends, the double-fault abort included: every `docker run --detach` of the log is followed by
**exactly one** `docker rm` of the container it named (which the reference grammar reads as the forced removal of just
that container: `rm_recog`), and no command after that `rm` addresses the container again (`--name`, or the container
argument of exec / logs / port / rm). Stated on the typed commands of the model (`removedOnce`); on the real argv the
same clause is `Spec.Cleanup.m1x`, judged by the driver on every in-scope run of the implementation. -/
theorem every_container_removed_exactly_once_after_last_use (o : Oracle) (sc : Scenario) :
    removedOnce (cmdsOf (run o sc).2.log) = true :=
  run_removedOnce o sc

/-- **M2.** Unless the run aborted: `docker rmi <image> --force` and `docker volume remove <image>.build-cache
<image>.launch-cache --force` are each issued exactly once — no earlier command removes an image or a volume — and
they are the last two commands: nothing after them mentions the image. Covers rebuilds (same image, removed once at
the end of the innermost closure), pack failing against either expectation, an invalid app dir. -/
theorem image_and_volumes_removed_once_after_last_use (o : Oracle) (sc : Scenario)
    (h : (run o sc).1 ≠ .aborted) : m2 image (issued o sc) = true := by
  have himg : (nameWord 0).head? ≠ some 45 := by simp [nameWord]
  have hfresh : Fresh initSt := by intro g hg; simp [initSt] at hg
  obtain ⟨⟨es, l, body, hb, hp⟩, _, _⟩ := (evalBuilds_spec o (resourcesFor (nameWord 0)) sc initSt hfresh).1 h
  have : (run o sc).2.log = es := by unfold run; rw [l]; simp [initSt]
  unfold issued image
  rw [this, hb]
  have := m2_skip (nameWord 0) body (pieces_noIV himg hp) (specLog (tailOf (resourcesFor (nameWord 0))))
  simp only [specLog, List.map_append] at this ⊢
  rw [this]
  exact m2_tail (nameWord 0) himg

/-- **M3.** Whatever happens (abort included): every container a `docker rm` names was named by an earlier
`docker run` of this log, and every name passed to `rm` / `rmi` / `volume remove` is one the run generated itself
(`libcnbtest_…` identifiers, here `[1000, k]`, and the two volume names derived from the image name) — never a
user-supplied string. -/
theorem only_generated_names_removed (o : Oracle) (sc : Scenario) : m3 ownModel [] (issued o sc) = true := by
  have himg : (nameWord 0).head? ≠ some 45 := by simp [nameWord]
  have hfresh : Fresh initSt := by intro g hg; simp [initSt] at hg
  obtain ⟨h1, h2⟩ := evalBuilds_spec o (resourcesFor (nameWord 0)) sc initSt hfresh
  unfold issued run
  by_cases hab : (evalBuilds o (resourcesFor (nameWord 0)) sc initSt).1 = .aborted
  · obtain ⟨es, l, hp⟩ := h2 hab
    have : (evalBuilds o (resourcesFor (nameWord 0)) sc initSt).2.log = es := by rw [l]; simp [initSt]
    rw [this]
    simpa using m3_pieces himg hp [] (fun _ => rfl) []
  · obtain ⟨⟨es, l, body, hb, hp⟩, _, _⟩ := h1 hab
    have : (evalBuilds o (resourcesFor (nameWord 0)) sc initSt).2.log = es := by rw [l]; simp [initSt]
    rw [this, hb]
    simpa [specLog] using m3_pieces himg hp _ (m3_tail (nameWord 0) (genName_nameWord 0)) []

/-- **M4.** Unless the run aborted, no temp-dir guard (private app copy, buildpack directory, SBOM directory) is alive
when it ends, normally or by panic. -/
theorem no_temp_dir_left (o : Oracle) (sc : Scenario) (h : (run o sc).1 ≠ .aborted) : (run o sc).2.guards = [] := by
  have hfresh : Fresh initSt := by intro g hg; simp [initSt] at hg
  obtain ⟨_, hg, _⟩ := (evalBuilds_spec o (resourcesFor (nameWord 0)) sc initSt hfresh).1 h
  unfold run
  rw [hg]; rfl

/-- **No abort under a single injection**: one panic step anywhere (or several), *or* one failing external command
anywhere — including the cleanup commands themselves — never leads to the double-fault abort. -/
theorem single_injection_never_aborts (o : Oracle) (sc : Scenario) (h : SingleInjection sc o) :
    (run o sc).1 ≠ .aborted := by
  rcases h with h | ⟨hq, k, hk⟩
  · exact run_not_aborted_of_rm_ok o sc (fun i ctr n => h i _ n)
  · exact run_not_aborted_of_single o sc k hk hq

/-- **No abort while `docker rm` works**, for any number of panics and failures of every other command (pack missing,
containers failing to start, logs/port/exec failing, `rmi`/`volume remove` failing). -/
theorem working_docker_rm_never_aborts (o : Oracle) (sc : Scenario) (h : RmNeverFails o) : (run o sc).1 ≠ .aborted :=
  run_not_aborted_of_rm_ok o sc h

/-- **C16 on the model.** For every scenario chain and every single injection (a panic at any step of the test
closure or of a nested container closure, or any one external command failing with any result, with either expected
pack result, with or without an app preprocessor): every container started detached is force-removed, the image and
both cache volumes are force-removed exactly once after their last use, only names the run generated are removed,
and no temporary directory is left. -/
theorem cleanup_under_single_injection (o : Oracle) (sc : Scenario) (h : SingleInjection sc o) :
    m1 (issued o sc) = true ∧ m2 image (issued o sc) = true ∧ m3 ownModel [] (issued o sc) = true
      ∧ (run o sc).2.guards = [] :=
  have hna := single_injection_never_aborts o sc h
  ⟨detached_containers_force_removed o sc, image_and_volumes_removed_once_after_last_use o sc hna,
    only_generated_names_removed o sc, no_temp_dir_left o sc hna⟩

/-- **C16 on the model, any number of faults.** While `docker rm` itself works, *every* combination of panics (test closure,
container closures, at any steps) and of failing external commands (pack build, sbom download, `docker run` detached or
not, logs, logs --follow, port, exec, rmi, volume remove — any subset, any number of times, decided by any oracle) leaves
nothing behind: every container started detached is force-removed, image and both volumes are force-removed exactly once
after their last use, only generated names are removed, no temp dir guard stays alive. In particular a `docker logs`
(or exec / port) that fails inside a container closure is just a panic of that closure: `Drop` still issues the `rm`. -/
theorem cleanup_whenever_docker_rm_works (o : Oracle) (sc : Scenario) (h : RmNeverFails o) :
    m1 (issued o sc) = true ∧ m2 image (issued o sc) = true ∧ m3 ownModel [] (issued o sc) = true
      ∧ (run o sc).2.guards = [] :=
  have hna := working_docker_rm_never_aborts o sc h
  ⟨detached_containers_force_removed o sc, image_and_volumes_removed_once_after_last_use o sc hna,
    only_generated_names_removed o sc, no_temp_dir_left o sc hna⟩

/-- a fault script (`Model/TestRunnerFaults`: the language the harness' stand-in docker/pack executes) whose rules all
spare `docker rm` never makes a `docker rm` fail — the scripts of the correspondence run that the driver judges are
exactly instances of `cleanup_whenever_docker_rm_works` -/
theorem fault_script_sparing_rm (rules : List FRule) (h : rules.all FRule.sparesRm = true) :
    RmNeverFails (faultOracle rules) := by
  intro i ctr n
  have : rules.any (fun r => r.hits i (.rm ctr)) = false := by
    rw [List.any_eq_false]
    intro r hr
    have hs := List.all_eq_true.mp h r hr
    simp only [FRule.sparesRm, Bool.and_eq_true, bne_iff_ne, ne_eq] at hs
    have hk : r.kind.selects (.rm ctr) = false := by
      cases hkind : r.kind <;> simp_all [FKind.selects]
    simp [FRule.hits, hk]
  simp [faultOracle, this]

/-- **C16 on the model under every fault script that spares `docker rm`** -/
theorem cleanup_under_fault_script (rules : List FRule) (sc : Scenario) (h : rules.all FRule.sparesRm = true) :
    m1 (issued (faultOracle rules) sc) = true ∧ m2 image (issued (faultOracle rules) sc) = true
      ∧ m3 ownModel [] (issued (faultOracle rules) sc) = true ∧ (run (faultOracle rules) sc).2.guards = [] :=
  cleanup_whenever_docker_rm_works _ sc (fault_script_sparing_rm rules h)

/-! ### outside the quantifier: the double fault; and non-vacuity -/

def sampleCfg : BuildCfg :=
  { cfg := { appDir := w!"fixtures/app", builder := w!"heroku/builder:24", buildpacks := [w!"heroku/procfile"], env := [] },
    appDirValid := true, preprocessor := true, expectSuccess := true, triple := w!"x86_64-unknown-linux-musl", packResult := .ok }

def sampleContainer : ContainerConfig :=
  { entrypoint := some w!"web", command := none, env := [], exposedPorts := [], bindMounts := [] }

/-- a panic inside the container closure … -/
def doubleFaultScenario : Scenario := [⟨sampleCfg, [.startContainer sampleContainer [.panic]]⟩]
/-- … and the `docker rm` of that container (third command) failing -/
def doubleFaultOracle : Oracle := fun i _ _ => if i = 2 then some .nonzero else none

/-- **Double fault** (panic in the closure *and* `docker rm` failing ⇒ panic in `Drop` while unwinding ⇒ abort): the
image is never removed and both temp dirs of the build stay behind. Not a single injection. -/
theorem double_fault_aborts :
    (run doubleFaultOracle doubleFaultScenario).1 = .aborted
    ∧ (run doubleFaultOracle doubleFaultScenario).2.guards = [.bpDir 1, .appCopy 0]
    ∧ (cmdsOf (run doubleFaultOracle doubleFaultScenario).2.log).all (fun c => match c with | .rmi _ => false | _ => true) = true := by
  refine ⟨by decide, by decide, by decide⟩

/-- the hypothesis of the main theorem is met by non-trivial values: the same scenario with only the panic … -/
example : SingleInjection doubleFaultScenario (fun _ _ _ => none) := Or.inl (fun _ _ _ => rfl)

/-- … or, without the panic step, with only the failing `docker rm`; a rebuild chain with a failing `pack build` -/
example : SingleInjection [⟨sampleCfg, [.startContainer sampleContainer [.logsNow]]⟩, ⟨sampleCfg, [.runShell w!"true"]⟩]
    doubleFaultOracle := by
  refine Or.inr ⟨?_, 2, ?_⟩
  · intro b hb a ha
    simp at hb
    rcases hb with e | e <;> subst e <;> simp at ha <;> subst ha <;> simp [QuietCAct]
  · intro i c n hi; simp [doubleFaultOracle, hi]

example : (run (fun _ _ _ => none) doubleFaultScenario).1 = .panicked := by decide

/-- non-vacuity of the fault-script theorems: the container closure panics **and** every `docker logs`, `docker exec`,
`docker rmi` fails: the run ends by panic, the container is removed, nothing is left -/
def brokenLogs : List FRule := [⟨.logs, .all⟩, ⟨.exec, .ctr 1⟩, ⟨.rmi, .all⟩]
example : brokenLogs.all FRule.sparesRm = true := by decide
example : (run (faultOracle brokenLogs) [⟨sampleCfg, [.startContainer sampleContainer [.logsNow, .panic]]⟩]).1 = .panicked := by decide
example : (run (faultOracle brokenLogs) [⟨sampleCfg, [.startContainer sampleContainer [.logsNow, .panic]]⟩]).2.guards = [] := by decide
/-- the failing `logs_now()` ended the closure (the `panic` step was never reached) and `Drop` issued the `rm`:
pack build, run, logs, rm, rmi, volume remove -/
example : (cmdsOf (run (faultOracle brokenLogs) [⟨sampleCfg, [.startContainer sampleContainer [.logsNow, .panic]]⟩]).2.log).length = 6 := by decide

/-- `removedOnce` is falsifiable: a started container without `rm`, one removed twice, one used after its removal -/
example : removedOnce [.run (startContainerCommand image (nameWord 1) w!"linux/amd64" sampleContainer)] = false := by decide
example : removedOnce [.run (startContainerCommand image (nameWord 1) w!"linux/amd64" sampleContainer), .rm (nameWord 1), .rm (nameWord 1)] = false := by decide
example : removedOnce [.run (startContainerCommand image (nameWord 1) w!"linux/amd64" sampleContainer), .rm (nameWord 1), .logs (nameWord 1) false] = false := by decide
example : removedOnce [.run (startContainerCommand image (nameWord 1) w!"linux/amd64" sampleContainer), .logs (nameWord 1) false, .rm (nameWord 1)] = true := by decide

end CnbVerif.C16

