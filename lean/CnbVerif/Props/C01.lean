import CnbVerif.Lemmas.LayerStore2
/-!
# C01 — cached/uncached layer requests obey the layer state machine over build histories

Model: `Model/LayerStore.lean` (`read_layer` with both normalisations, `handle_layer`, `create_layer`,
`delete_layer` as repaired for D1, `replace_layer_*`, `LayerRef::write_*`, the lifecycle restore fixed by the
property text). Spec: `Spec/LayerSpec.lean` — `stepOk`, the executable statement of the property for one step,
which is also what judges every step of the real code's histories in the correspondence.
-/
namespace CnbVerif.C01
open CnbVerif Spec

/-- one entry of a history's trace: state before, operation, reported state, callback log, state after -/
structure Entry where
  pre : Store
  op : Op
  out : Out
  log : List CbCall
  post : Store

def trace : St → List Op → List Entry
  | _, [] => []
  | s, op :: rest => ⟨s.store, op, (step s op).2.1, (step s op).2.2, (step s op).1.store⟩ :: trace (step s op).1 rest

/-- **M6 (every history).** From the empty layers directory, for every sequence of operations — of any length,
over any layer names, with any callback decisions, layer writes and restores — every step satisfies the
property's step statement `stepOk`. (`names` is any universe of layer names the frame clause is checked over.) -/
theorem every_history (names : List Bytes) (ops : List Op) :
    ∀ e ∈ trace {} ops, stepOk names e.pre e.op e.out e.log e.post = true := by
  have gen : ∀ (ops : List Op) (s : St), WFS s.store →
      ∀ e ∈ trace s ops, stepOk names e.pre e.op e.out e.log e.post = true := by
    intro ops
    induction ops with
    | nil => intro s _ e he; simp [trace] at he
    | cons op rest ih =>
      intro s hwf e he
      have hs := step_ok names s op hwf
      simp only [trace, List.mem_cons] at he
      rcases he with rfl | he
      · exact hs.1
      · exact ih _ hs.2 e he
  exact gen ops {} wfs_empty

/-- **M1–M5 (every state).** The step statement holds from *every* state of the layers directory in which no SBOM
file exists without its layer directory (the invariant all reachable states satisfy), not only reachable ones. -/
theorem every_state (names : List Bytes) (s : St) (op : Op) (hwf : WFS s.store) :
    stepOk names s.store op (step s op).2.1 (step s op).2.2 (step s op).1.store = true ∧ WFS (step s op).1.store :=
  step_ok names s op hwf

/-! What `stepOk` says, clause by clause (facts about the specification itself). -/

/-- **M1 + M2.** A cached request that is accepted reports exactly what the decision table prescribes for the
classified pre-state and the callbacks' answers, with exactly the prescribed callback invocations. -/
theorem stepOk_reported_state (names : List Bytes) (pre post : Store) (n : Bytes) (b la : Bool) (mt : MetaT)
    (ci : CbInv) (cr : CbRes) (out : Out) (log : List CbCall)
    (h : stepOk names pre (.cached n b la mt ci cr) out log post = true)
    (eo : Out) (elog : List CbCall) (em : Option MetaTbl)
    (hexp : expected (Spec.classify (sget pre n) mt) mt ci cr = some (eo, elog, em)) :
    out = eo ∧ log = elog := by
  simp only [stepOk, requestOk, hexp, Bool.and_eq_true, beq_iff_eq, Bool.not_true, Bool.false_or] at h
  exact ⟨h.1.1.1.1, h.1.1.1.2⟩

/-- **M3.** A layer reported as restored has its directory (files, env, exec.d), its SBOMs and its metadata exactly as
before the request, the directory is present, and the metadata file declares exactly the requested flags. -/
theorem stepOk_restored_preserves (names : List Bytes) (pre post : Store) (n : Bytes) (b la : Bool) (mt : MetaT)
    (ci : CbInv) (cr : CbRes) (c : Nat) (log : List CbCall)
    (h : stepOk names pre (.cached n b la mt ci cr) (.restored c) log post = true)
    (eo : Out) (elog : List CbCall) (em : Option MetaTbl)
    (hexp : expected (Spec.classify (sget pre n) mt) mt ci cr = some (eo, elog, em)) :
    (sget post n).dir = (sget pre n).dir ∧ (sget post n).dir.isSome = true ∧ (sget post n).sboms = (sget pre n).sboms ∧
      (sget post n).toml = some (.doc (some ⟨la, b, true⟩) em) := by
  simp only [stepOk, requestOk, hexp, isRestoredOut, isEmptyOut, Bool.and_eq_true, beq_iff_eq, Bool.not_true,
    Bool.false_or, Bool.not_false, Bool.true_or, Bool.and_true] at h
  obtain ⟨⟨_, h1⟩, _⟩ := h
  obtain ⟨⟨⟨hd, hs⟩, hsb⟩, ht⟩ := h1
  refine ⟨(Dir.optBeq_iff _ _).mp hd, hs, hsb, ?_⟩
  unfold tomlIs at ht
  split at ht
  · rename_i t' m' heq
    simp only [Bool.and_eq_true, beq_iff_eq] at ht
    rw [heq, ht.1, ht.2]
  · cases ht

/-- **M4.** A layer reported as empty has an empty directory, no metadata and no SBOMs; its metadata file declares
exactly the requested flags. -/
theorem stepOk_empty_is_empty (names : List Bytes) (pre post : Store) (n : Bytes) (b la : Bool) (mt : MetaT)
    (ci : CbInv) (cr : CbRes) (out : Out) (hout : isEmptyOut out = true) (log : List CbCall)
    (h : stepOk names pre (.cached n b la mt ci cr) out log post = true)
    (eo : Out) (elog : List CbCall) (em : Option MetaTbl)
    (hexp : expected (Spec.classify (sget pre n) mt) mt ci cr = some (eo, elog, em)) :
    (sget post n).dir = some [] ∧ (sget post n).sboms = [] ∧
      (sget post n).toml = some (.doc (some ⟨la, b, true⟩) none) := by
  simp only [stepOk, requestOk, hexp, hout, Bool.and_eq_true, beq_iff_eq, Bool.not_true, Bool.false_or] at h
  obtain ⟨⟨_, h1⟩, _⟩ := h
  obtain ⟨⟨hd, hsb⟩, ht⟩ := h1
  refine ⟨(Dir.optBeq_iff _ _).mp hd, hsb, ?_⟩
  unfold tomlIs at ht
  split at ht
  · rename_i t' m' heq
    simp only [Bool.and_eq_true, beq_iff_eq] at ht
    rw [heq, ht.1, ht.2]
  · cases ht

/-- **M5 (frame).** Whatever the operation on layer `n`, every other layer of the universe — directory, metadata
file and SBOMs — is exactly as before. -/
theorem stepOk_others_untouched (names : List Bytes) (pre post : Store) (op : Op) (n : Bytes) (hn : op.name = some n)
    (out : Out) (log : List CbCall) (h : stepOk names pre op out log post = true) (k : Bytes) (hk : k ∈ names) (hkn : k ≠ n) :
    (sget post k).dir = (sget pre k).dir ∧ (sget post k).toml = (sget pre k).toml ∧ (sget post k).sboms = (sget pre k).sboms := by
  have hu : othersUntouched names pre post n = true := by
    cases op <;> simp only [Op.name, Option.some.injEq, reduceCtorEq] at hn <;> subst hn <;>
      simp only [stepOk, Op.name, Bool.and_eq_true] at h
    · exact h.2
    · exact h.2
    all_goals exact h.1
  have := List.all_eq_true.mp hu k hk
  have hb : (k == n) = false := by simpa using hkn
  simp only [hb, Bool.false_or, layerEq, Bool.and_eq_true, beq_iff_eq] at this
  exact ⟨(Dir.optBeq_iff _ _).mp this.1.1, this.1.2, this.2⟩

/-- **Writers.** A successful `write_metadata` replaces exactly the metadata (types, directory, SBOMs untouched); a
successful `write_sboms` replaces exactly the SBOM set; an operation without a layer reference changes nothing. -/
theorem stepOk_writers (names : List Bytes) (pre post : Store) (op : Op) (n : Bytes) (hn : op.name = some n)
    (hreq : isRequest op = false) (hr : op ≠ .restore) (out : Out) (log : List CbCall)
    (h : stepOk names pre op out log post = true) : writeOk (sget pre n) (sget post n) op out = true := by
  cases op <;> simp only [Op.name, Option.some.injEq, reduceCtorEq, isRequest, Bool.true_eq_false] at hn hreq <;>
    first
    | (subst hn; simp only [stepOk, Op.name, Bool.and_eq_true] at h; exact h.2)
    | exact absurd rfl hr

/-- **A rejected metadata write changes nothing.** `write_metadata` with a value TOML cannot encode returns an error in
every state, and the whole store — in particular the file declaring the requested flags and the metadata the layer
holds — is exactly as before (the code serialises before it opens the file). -/
theorem rejected_metadata_write_changes_nothing (s : St) (n : Bytes) :
    (step s (.wmetaBad n)).2.1 ≠ .ok ∧ ((step s (.wmetaBad n)).1.store.get n) = s.store.get n ∧
      ∀ k, k ≠ n → (step s (.wmetaBad n)).1.store.get k = s.store.get k := by
  simp only [step, Op.name, isWrite, Bool.true_and]
  split
  · exact ⟨by simp, rfl, fun _ _ => rfl⟩
  · refine ⟨by simp [stepLayer], ?_, ?_⟩
    · simp [stepLayer, Store.get_set_eq]
    · intro k hk
      simp [stepLayer, Store.get_set_ne _ _ _ _ hk]

/-- The history the existing examples miss (D1): cached request, write an SBOM, uncached request. In the model of the
repaired code the layer reported as empty carries no SBOM. -/
example :
    let ops : List Op := [.cached [97] true true .generic (.delete 1) (.keep 2), .wsbom [97] [(1, [110])], .uncached [97] true true]
    ((trace {} ops).map (fun e => (e.out, (sget e.post [97]).sboms))) =
      [(.emptyNew, []), (.ok, [(1, [110])]), (.emptyRes 0, [])] := by decide

/-- Non-vacuity: three builds with a restore between them, an SBOM, an env and a metadata migration
(invalid `versioned` metadata replaced, then kept). -/
example :
    let ops : List Op := [.cached [97] true true .generic (.delete 1) (.keep 2), .wmeta [97] ⟨none, some 7⟩,
      .wsbom [97] [(0, [99])], .wenv [97] [⟨.build, .prepend, [80], [47]⟩], .wmetaBad [97], .restore,
      .cached [97] false true .versioned (.replace ⟨some 5, none⟩ 6) (.keep 4), .restore,
      .cached [97] true false .versioned (.delete 8) (.delete 9)]
    ((trace {} ops).map (fun e => e.out)) =
      [.emptyNew, .ok, .ok, .ok, .err .metaFile, .ok, .restored 4, .ok, .emptyRes 9] := by decide

end CnbVerif.C01
