import CnbVerif.Lemmas.Platform
/-!
# C06 — detect/build contexts faithfully reflect what the platform supplied

Property theorems only (helper lemmas: `Lemmas/Platform.lean`). The model is `Model/Platform.lean`
(`readPlatformEnv`, `contextTarget`, `assemble`, mirroring `read_platform_env`, `context_target` and the record
construction in `libcnb_runtime_detect` / `libcnb_runtime_build`); the specification is `Spec/ContextSpec.lean`
(`supplied`, `mustError`, `faithful`). All theorems hold for every representability predicate `valid`
(Rust: "is a `String`"), every directory listing, every combination of target variables, every payload type `X`.

**Open finding (D7).** The last clause of the property — "a value that cannot be represented is a reported error,
never silently dropped" — does not hold for `CNB_TARGET_ARCH_VARIANT`: the code reads it with `.ok()`, so a value that
is not a `String` becomes `None`. `FullStatement` is therefore false (`unrepresentable_is_error_counterexample`, the
same witness the harness replays on the real executable, corpus/C06/D7-variant-not-utf8.case); it is proved with the
hypothesis that excludes exactly that case (`unrepresentable_is_error_partial`).
-/
namespace CnbVerif.C06
open CnbVerif CnbVerif.Platform CnbVerif.Platform.Spec

/-! ## M1 — the platform environment -/

/-- **M1a.** When every supplied file content is representable, reading `<platform>/env` succeeds and the resulting
environment is *exactly* `{(name, content) | the entry is a regular file or a symlink to one}`: nothing else is in it
(directories, links to directories and dangling links contribute nothing and do no harm), nothing is missing, names and
contents are unchanged. Entry names are distinct, as in any directory listing; the listing order is arbitrary. -/
theorem platform_env (valid : Bytes → Bool) (l : List (Bytes × EntryKind)) (hnd : (l.map (·.1)).Nodup)
    (hv : ∀ kv ∈ supplied l, valid kv.2 = true) :
    ∃ env, readPlatformEnv valid (.entries l) = .ok env ∧ (env.map (·.1)).Nodup ∧
      ∀ n c, env.get n = some c ↔ (n, c) ∈ supplied l := by
  obtain ⟨env, he, hn, hg⟩ := readEntries_ok valid l [] hnd hv (by simp)
  refine ⟨env, he, hn, fun n c => ?_⟩
  rw [hg n, ← lookup_iff_mem _ (supplied_nodup l hnd)]
  cases List.lookup n (supplied l) <;> simp [PEnv.get]

/-- **M1b.** A supplied content that cannot be represented is an error — wherever the file sits in the listing and
whatever else is there; it is never dropped. Conversely nothing else makes the loop fail. -/
theorem platform_env_error_iff (valid : Bytes → Bool) (l : List (Bytes × EntryKind)) :
    readPlatformEnv valid (.entries l) = .error () ↔ ∃ kv ∈ supplied l, valid kv.2 = false := by
  unfold readPlatformEnv
  rw [readEntries_error_iff]
  simp [List.any_eq_true]

/-- **M1c.** A missing `env` directory is tolerated: the environment is empty. -/
theorem platform_env_missing_dir (valid : Bytes → Bool) : readPlatformEnv valid .noEnv = .ok [] := rfl

/-- **M1d.** Directories, links to directories and dangling links are tolerated: deleting them from the listing changes
neither success nor the resulting environment. -/
theorem platform_env_ignores_non_files (valid : Bytes → Bool) (l : List (Bytes × EntryKind)) :
    readPlatformEnv valid (.entries (l.filter (fun e => e.2.fileContent.isSome))) = readPlatformEnv valid (.entries l) := by
  unfold readPlatformEnv
  generalize ([] : PEnv) = env0
  induction l generalizing env0 with
  | nil => rfl
  | cons x xs ih =>
    obtain ⟨m, k⟩ := x
    cases hk : k.fileContent with
    | none => simp [hk, readEntries, ih]
    | some c =>
      simp only [List.filter_cons, hk, Option.isSome_some, if_true, readEntries]
      cases valid c <;> simp [ih]

/-! ## M3 — the target table -/

/-- **M3a.** With os, arch, distro name and distro version set and representable, the target is built from exactly those
values; the variant is the variable's value when it is set and representable. -/
theorem target_ok (valid : Bytes → Bool) (v : TargetVars)
    (h : varOk valid v.os = true ∧ varOk valid v.arch = true ∧ varOk valid v.dname = true ∧ varOk valid v.dver = true) :
    contextTarget valid v = .ok { os := varBytes v.os, arch := varBytes v.arch, variant := envVar valid v.variant,
                                  dname := varBytes v.dname, dver := varBytes v.dver } := by
  simp [contextTarget, envVar_ok _ _ h.1, envVar_ok _ _ h.2.1, envVar_ok _ _ h.2.2.1, envVar_ok _ _ h.2.2.2]

/-- **M3b.** A mandatory variable that is missing or not representable is an error, and the error names the first such
variable in the order os, arch, distro name, distro version. -/
theorem target_error (valid : Bytes → Bool) (v : TargetVars) :
    (varOk valid v.os = false → contextTarget valid v = .error .targetOs) ∧
    (varOk valid v.os = true → varOk valid v.arch = false → contextTarget valid v = .error .targetArch) ∧
    (varOk valid v.os = true → varOk valid v.arch = true → varOk valid v.dname = false →
      contextTarget valid v = .error .distroName) ∧
    (varOk valid v.os = true → varOk valid v.arch = true → varOk valid v.dname = true → varOk valid v.dver = false →
      contextTarget valid v = .error .distroVersion) := by
  refine ⟨fun h1 => ?_, fun h1 h2 => ?_, fun h1 h2 h3 => ?_, fun h1 h2 h3 h4 => ?_⟩
  · simp [contextTarget, envVar_bad _ _ h1]
  · simp [contextTarget, envVar_ok _ _ h1, envVar_bad _ _ h2]
  · simp [contextTarget, envVar_ok _ _ h1, envVar_ok _ _ h2, envVar_bad _ _ h3]
  · simp [contextTarget, envVar_ok _ _ h1, envVar_ok _ _ h2, envVar_ok _ _ h3, envVar_bad _ _ h4]

/-! ## M2 — every field of the context equals the corresponding input -/

/-- **M2.** When nothing forces an error (`mustError = false`: the env directory can be listed, every supplied content and
every set target variable is representable, the mandatory ones are set), the context exists and every field of it
equals what was supplied: app / buildpack / layers directories, target os / arch / variant / distro, the platform
environment as a set, buildpack plan, store (or none), buildpack descriptor. -/
theorem context_fields {X : Type} [DecidableEq X] (valid : Bytes → Bool) (i : Inputs X)
    (hnames : ∀ l, i.plat = .entries l → (l.map (·.1)).Nodup) (h : mustError valid i = false) :
    ∃ c, assemble valid i = .ok c ∧ ∀ x ∈ faithful i c, x.2 = true := by
  simp only [mustError, Bool.or_eq_false_iff, Bool.not_eq_false'] at h
  obtain ⟨⟨⟨⟨⟨hplat, hos⟩, harch⟩, hvar⟩, hdn⟩, hdv⟩ := h
  -- the platform environment
  have henv : ∃ env sup, readPlatformEnv valid i.plat = .ok env ∧ suppliedBy i.plat = some sup ∧ sameVars env sup = true := by
    cases hp : i.plat with
    | noEnv => exact ⟨[], [], rfl, rfl, by decide⟩
    | notDir => simp [hp, platBad, suppliedBy] at hplat
    | entries l =>
      simp only [hp, platBad, suppliedBy, List.any_eq_false] at hplat
      obtain ⟨env, he, hn, hg⟩ := platform_env valid l (hnames l hp) (fun kv hkv => by simpa using hplat kv hkv)
      refine ⟨env, supplied l, he, rfl, ?_⟩
      simp only [sameVars, Bool.and_eq_true, List.all_eq_true, List.contains_iff_mem, decide_eq_true_eq]
      refine ⟨⟨fun x hx => ?_, fun x hx => ?_⟩, hn⟩
      · obtain ⟨n, c⟩ := x
        exact (hg n c).mp ((lookup_iff_mem env hn n c).mpr hx)
      · obtain ⟨n, c⟩ := x
        exact (lookup_iff_mem env hn n c).mp ((hg n c).mpr hx)
  obtain ⟨env, sup, he, hs, hsame⟩ := henv
  have ht := target_ok valid i.vars ⟨hos, harch, hdn, hdv⟩
  have hv : envVar valid i.vars.variant = optVar i.vars.variant := by
    cases hvv : i.vars.variant with
    | unset => rfl
    | val b => simp [hvv, optVarOk] at hvar; simp [envVar, optVar, hvar]
  refine ⟨_, by simp only [assemble, he, ht]; rfl, ?_⟩
  intro x hx
  simp only [faithful, List.mem_cons, List.not_mem_nil, or_false] at hx
  rcases hx with rfl | rfl | rfl | rfl | rfl | rfl | rfl | rfl | rfl | rfl | rfl | rfl <;> simp [hv, hs, hsame]

/-- **M2'.** Conversely the context is only ever assembled from the inputs: whenever the model produces a context, its
directories, plan, store and descriptor are the inputs, its environment is the one `readPlatformEnv` built and its target
the one `contextTarget` built (record construction, no other source). -/
theorem context_sources {X : Type} (valid : Bytes → Bool) (i : Inputs X) (c : Ctx X) (h : assemble valid i = .ok c) :
    c.appDir = i.cwd ∧ c.bpDir = i.bpDir ∧ c.layersDir = i.layersDir ∧ c.plan = i.plan ∧ c.store = i.store ∧ c.desc = i.desc ∧
    readPlatformEnv valid i.plat = .ok c.env ∧ contextTarget valid i.vars = .ok c.target := by
  unfold assemble at h
  cases he : readPlatformEnv valid i.plat with
  | error e => simp [he] at h
  | ok env =>
    cases ht : contextTarget valid i.vars with
    | error e => simp [he, ht] at h
    | ok t =>
      simp only [he, ht, Except.ok.injEq] at h
      subst h
      exact ⟨rfl, rfl, rfl, rfl, rfl, rfl, rfl, rfl⟩

/-! ## M2p — the directories are the texts the platform wrote -/

/-- **M2p.** The clause "contains exactly … the app, buildpack and layers directories", for every spelling: whatever byte
strings the platform writes as `<layers>` argument and as value of `CNB_BUILDPACK_DIR` (absolute or relative, through links,
with `.` / `..`, doubled or trailing slashes — `layers`, `bp` range over all of `Bytes`), and whatever `getcwd` reports
(`cwd`), a context that is assembled carries exactly those texts: identity, nothing resolved, nothing normalised. The
`<platform>` and `<plan>` texts are quantified as well; they are in no context field. -/
theorem context_paths_are_supplied_verbatim {X : Type} (valid : Bytes → Bool) (i : Inputs X)
    (layers : Option Bytes) (bp cwd platArg planArg : Bytes) (c : Ctx X)
    (h : assemble valid { i with cwd := cwd, bpDir := bp, layersDir := layers, platArg := platArg, planArg := planArg } = .ok c) :
    c.layersDir = layers ∧ c.bpDir = bp ∧ c.appDir = cwd := by
  have hs := context_sources valid _ c h
  exact ⟨hs.2.2.1, hs.2.1, hs.1⟩

/-- **M2p'.** … and the spelling decides nothing else: rewriting the five paths leaves success / the reported error and every
other context field as they were; the new context is the old one with the three directory texts replaced. (Together with
`context_fields`: when nothing forces an error the context exists for every spelling.) -/
theorem context_paths_are_supplied_verbatim_nothing_else {X : Type} (valid : Bytes → Bool) (i : Inputs X)
    (layers : Option Bytes) (bp cwd platArg planArg : Bytes) :
    assemble valid { i with cwd := cwd, bpDir := bp, layersDir := layers, platArg := platArg, planArg := planArg } =
      (assemble valid i).map (fun c => { c with appDir := cwd, bpDir := bp, layersDir := layers }) := by
  unfold assemble
  cases readPlatformEnv valid i.plat with
  | error e => rfl
  | ok env =>
    cases contextTarget valid i.vars with
    | error e => rfl
    | ok t => rfl

/-! ## "A value that cannot be represented is a reported error" -/

/-- The clause at full strength: whenever something supplied cannot be represented (or is mandatory and missing), the
assembly reports an error. -/
def FullStatement : Prop :=
  ∀ (valid : Bytes → Bool) (X : Type) (i : Inputs X), mustError valid i = true → ∃ e, assemble valid i = .error e

/-- **M4 (partial).** The clause holds for every input whose `CNB_TARGET_ARCH_VARIANT` is unset or representable
(`optVarOk`), i.e. for everything except the class of finding D7: unrepresentable platform files, an unlistable env
directory, missing or unrepresentable os / arch / distro name / distro version are all reported errors. -/
theorem unrepresentable_is_error_partial (valid : Bytes → Bool) {X : Type} (i : Inputs X)
    (hvariant : optVarOk valid i.vars.variant = true) (h : mustError valid i = true) :
    ∃ e, assemble valid i = .error e := by
  unfold assemble
  cases he : readPlatformEnv valid i.plat with
  | error e => exact ⟨_, rfl⟩
  | ok env =>
    have hplat : platBad valid i.plat = false := by
      cases hp : i.plat with
      | noEnv => rfl
      | notDir => simp [hp, readPlatformEnv] at he
      | entries l =>
        simp only [platBad, suppliedBy]
        cases ha : (supplied l).any (fun kv => !valid kv.2) with
        | false => rfl
        | true =>
          have := (readEntries_error_iff valid l []).mpr ha
          simp [hp, readPlatformEnv, this] at he
    simp only [mustError, hplat, hvariant, Bool.false_or, Bool.not_true, Bool.or_false] at h
    have t := target_error valid i.vars
    cases h1 : varOk valid i.vars.os with
    | false => simp only [t.1 h1]; exact ⟨_, rfl⟩
    | true =>
      cases h2 : varOk valid i.vars.arch with
      | false => simp only [t.2.1 h1 h2]; exact ⟨_, rfl⟩
      | true =>
        cases h3 : varOk valid i.vars.dname with
        | false => simp only [t.2.2.1 h1 h2 h3]; exact ⟨_, rfl⟩
        | true =>
          cases h4 : varOk valid i.vars.dver with
          | false => simp only [t.2.2.2 h1 h2 h3 h4]; exact ⟨_, rfl⟩
          | true => simp [h1, h2, h3, h4] at h

/-- the witness of D7: everything in order, `CNB_TARGET_ARCH_VARIANT` = the single byte 0xFF -/
def d7Witness : Inputs Unit :=
  { cwd := [97], bpDir := [98], layersDir := none,
    vars := { os := .val [108], arch := .val [97], variant := .val [255], dname := .val [117], dver := .val [49] },
    plat := .noEnv, plan := none, store := none, desc := () }

/-- **D7 in the model.** For the witness the assembly succeeds and the variant is silently `none`. -/
theorem variant_silently_dropped :
    mustError utf8Valid d7Witness = true ∧
    ∃ c, assemble utf8Valid d7Witness = .ok c ∧ c.target.variant = none := by
  refine ⟨by decide, _, rfl, by decide⟩

/-- **M4 (counterexample).** The clause at full strength is false for the model (hence, by the correspondence, for the code). -/
theorem unrepresentable_is_error_counterexample : ¬ FullStatement := by
  intro h
  obtain ⟨e, he⟩ := h utf8Valid Unit d7Witness (by decide)
  have : assemble utf8Valid d7Witness = .ok
      { appDir := [97], bpDir := [98], layersDir := none,
        target := { os := [108], arch := [97], variant := none, dname := [117], dver := [49] }, env := [],
        plan := none, store := none, desc := () } := by rfl
  rw [this] at he
  cases he

/-- **M4'.** No spurious errors: an error is reported only when something forces one. -/
theorem error_only_when_forced {X : Type} (valid : Bytes → Bool) (i : Inputs X)
    (hnames : ∀ l, i.plat = .entries l → (l.map (·.1)).Nodup) (e : Err) (h : assemble valid i = .error e) :
    mustError valid i = true := by
  cases hm : mustError valid i with
  | true => rfl
  | false =>
    -- `context_fields` needs decidable equality on `X` only for the field comparison; use the assembly part directly
    exfalso
    classical
    obtain ⟨c, hc, _⟩ := context_fields valid i hnames hm
    rw [hc] at h
    cases h

/-! ## M5 — plan, store and descriptor as raw file-system state -/

/-- **M5a.** "The buildpack plan …, the parsed buildpack descriptor …, the previous store if present; … a value that cannot be
represented is a reported error, never silently dropped": whenever a document the phase reads is there but cannot be turned into
its value — for **every** byte string that is not a `String` (not valid UTF-8, whatever `valid` is) or that the decoder rejects
(`undecodable b`, all `b`), for a directory or anything else unreadable at the path, and for a missing descriptor / plan — no context
is produced: the run ends in a reported error, whatever else was supplied (every platform directory, every target combination,
both phases). In particular a `store.toml` that is present is never treated as "no previous store". -/
theorem unrepresentable_document_is_reported {X : Type} (valid : Bytes → Bool) (build : Bool) (i : Inputs X) (which : String)
    (h : badDoc build i.docs = some which) : ∃ e, assembleDocs valid build i = .error e := by
  unfold assembleDocs
  cases hd : i.docs.desc.readError valid with
  | some e => exact ⟨_, rfl⟩
  | none =>
    have hdesc := readError_none valid _ hd
    cases hp : readPlatformEnv valid i.plat with
    | error e => exact ⟨_, rfl⟩
    | ok env =>
      cases build with
      | false => simp [badDoc, hdesc, docBad] at h
      | true =>
        cases hpl : i.docs.plan.readError valid with
        | some e => exact ⟨_, rfl⟩
        | none =>
          have hplan := readError_none valid _ hpl
          cases hs : i.docs.store.readError valid with
          | none =>
            have hstore := readError_none valid _ hs
            simp [badDoc, hdesc, hplan, hstore, docBad] at h
          | some e =>
            cases e with
            | ioNotFound =>
              have hstore := readError_notFound valid _ hs
              simp [badDoc, hdesc, hplan, hstore, docBad] at h
            | ioOther => exact ⟨_, rfl⟩
            | tomlDe => exact ⟨_, rfl⟩

/-- **M5a'.** … and the error names the document: with the platform directory readable, an unrepresentable `store.toml` behind a
readable descriptor and plan is reported as `CannotReadStore` (the seeded `.ok()` on the read turns exactly this into a context). -/
theorem unrepresentable_store_is_reported {X : Type} (valid : Bytes → Bool) (i : Inputs X) (env : PEnv)
    (hdesc : i.docs.desc = .asGiven) (hplan : i.docs.plan = .asGiven) (hp : readPlatformEnv valid i.plat = .ok env)
    (h : docBad true i.docs.store = true) : assembleDocs valid true i = .error .store := by
  unfold assembleDocs
  simp only [hdesc, hplan, hp, Doc.readError, if_true]
  cases hs : i.docs.store with
  | asGiven => simp [hs, docBad] at h
  | missing => simp [hs, docBad] at h
  | unreadable => rfl
  | undecodable b => cases hv : valid b <;> simp [hv]

/-- **M5b.** "A missing … store.toml [is] tolerated": nothing at the path is "no previous store", and nothing else changes. -/
theorem missing_store_is_no_store {X : Type} (valid : Bytes → Bool) (i : Inputs X)
    (hdesc : i.docs.desc = .asGiven) (hplan : i.docs.plan = .asGiven) (hs : i.docs.store = .missing) :
    assembleDocs valid true i = assemble valid { i with store := none } := by
  unfold assembleDocs
  simp only [hdesc, hplan, hs, Doc.readError, if_true]
  cases hp : readPlatformEnv valid i.plat with
  | error e => simp [assemble, hp]
  | ok env => rfl

/-- **M5c.** With the three documents readable and decoded the raw states add nothing: the assembly is the one all other theorems
speak about. -/
theorem documents_as_given {X : Type} (valid : Bytes → Bool) (build : Bool) (i : Inputs X) (h : i.docs = {}) :
    assembleDocs valid build i = assemble valid i := by
  unfold assembleDocs
  simp only [h, Doc.readError]
  cases hp : readPlatformEnv valid i.plat with
  | error e => simp [assemble, hp]
  | ok env => cases build <;> rfl

/-! ## Non-vacuity -/

/-- a build whose `store.toml` holds `[metadata]\nowner = "Ren\xE9"\n`-like bytes (here: `o = "` E9 `"`), everything else in order -/
def latin1Store : Inputs Unit :=
  { d7Witness with vars := { d7Witness.vars with variant := .unset }, layersDir := some [108], plan := some (), store := some (),
                   docs := { store := .undecodable [111, 32, 61, 32, 34, 233, 34] } }

example : badDoc true latin1Store.docs = some "store.toml" := by decide
example : assembleDocs utf8Valid true latin1Store = .error .store := by rfl
example : ∃ c, assembleDocs utf8Valid true { latin1Store with docs := { store := .missing } } = .ok c ∧ c.store = none := ⟨_, rfl, rfl⟩
example : ∃ c, assembleDocs utf8Valid true { latin1Store with docs := {} } = .ok c ∧ c.store = some () := ⟨_, rfl, rfl⟩
example : assembleDocs utf8Valid false { latin1Store with docs := { desc := .unreadable } } = .error .descriptor := by rfl

/-- a listing with every kind of entry: file, directory, link to file, link to directory, dangling link -/
def sampleListing : List (Bytes × EntryKind) :=
  [([70], .file [118, 10]), ([68], .dir), ([76], .linkFile []), ([75], .linkDir), ([88], .dangling)]

example : (sampleListing.map (·.1)).Nodup ∧ ∀ kv ∈ supplied sampleListing, utf8Valid kv.2 = true := by decide
example : readPlatformEnv utf8Valid (.entries sampleListing) = .ok [([76], []), ([70], [118, 10])] := by rfl
example : readPlatformEnv utf8Valid (.entries (sampleListing ++ [([66], .linkFile [255])])) = .error () := by rfl
example : mustError utf8Valid { d7Witness with vars := { d7Witness.vars with variant := .unset }, plat := .entries sampleListing } = false := by decide
example : mustError utf8Valid { d7Witness with vars := { d7Witness.vars with variant := .unset, dname := .unset } } = true := by decide

/-- a build whose paths are written as `/r/mnt/./layers/` (a linked parent, a dot, a trailing slash), `../bp` (relative),
`./plat//`, `/r/vol/0f3a/plan.toml`; the working directory is `/r/app` -/
def spelledWitness : Inputs Unit :=
  { cwd := strBytes "/r/app", bpDir := strBytes "../bp", layersDir := some (strBytes "/r/mnt/./layers/"),
    platArg := strBytes "./plat//", planArg := strBytes "/r/vol/0f3a/plan.toml",
    vars := { os := .val [108], arch := .val [97], variant := .unset, dname := .val [117], dver := .val [49] },
    plat := .entries sampleListing, plan := some (), store := none, desc := () }

example : mustError utf8Valid spelledWitness = false := by decide
example : ∃ c, assemble utf8Valid spelledWitness = .ok c ∧ c.layersDir = some (strBytes "/r/mnt/./layers/") ∧
    c.bpDir = strBytes "../bp" ∧ c.appDir = strBytes "/r/app" := ⟨_, rfl, rfl, rfl, rfl⟩

end CnbVerif.C06
