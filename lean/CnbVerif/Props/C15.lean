import CnbVerif.Lemmas.Packager
import CnbVerif.Lemmas.PackagerSel
import CnbVerif.Props.C13
import CnbVerif.Props.C14
/-!
# C15 — `cargo libcnb package` writes complete buildpack directories, also over stale output

Property theorems only. Model: `Model/Packager.lean` (`package ws inv cfg seed` = `execute`: from the tree the package
directory holds before the run to the tree after it, the lines on stdout and the ids packaged; the order is C13's
`getDependencies`, composite descriptors are C14's `packageDescriptor`). Specification: `Spec/Packaging.lean`
(`PackagedLibcnb`, `PackagedComposite`, `mainOf`, `additionalOf`), `Spec/Topo.lean` (`IsBuildOrder`: exactly the selected
and their transitive dependencies, each once, dependencies first).

Throughout, `ws` is the abstract workspace, `inv` the invocation directory, `cfg` profile / target / `--package-dir`,
`seed` an **arbitrary** tree found in the package directory (whatever an earlier or interrupted run, or anybody else,
left there), `nodes` the dependency-graph nodes of the workspace (`toNodes`: id and `libcnb:` references of every
libcnb.rs and composite buildpack). `WellFormed`: every `libcnb:` reference carries a valid id, buildpack ids are pairwise
distinct, so are the names of their output directories (implied for ids over the CNB alphabet: `output_names_distinct`),
and the references are acyclic (a DAG, as in the property's quantifier). The tree model takes path components as names:
an id whose directory name is `.` or `..` is outside the model (boundary, see propcfg).

Partial claim (cargo, rustc, the `ignore` walker and the file system are runtime): what cargo builds is the abstract
`Content.artifact`, the directory walk is the given list `ws.dirs`, and `remove_dir_all` is taken to succeed (its result is
ignored by the code). The correspondence harness ties these to the real executable.
-/
namespace CnbVerif.C15
open CnbVerif.Chars CnbVerif.Packager CnbVerif.DepGraph CnbVerif.Spec.Topo CnbVerif.Spec.Packaging
open CnbVerif.PkgDescriptor (Descriptor packageDescriptor)

/-- the hypotheses on a workspace (see the header) -/
structure WellFormed (ws : Workspace) (nodes : List DepGraph.Node) : Prop where
  nodes_ok : toNodes (nodesOf ws) = .ok nodes
  ids_distinct : ((nodesOf ws).map (·.id)).Nodup
  names_distinct : ((nodesOf ws).map (fun bp => dirName bp.id)).Nodup
  acyclic : Acyclic (depsOf nodes)

/-- **M1 `selection`** ("for exactly the selected buildpacks and their dependencies"). The buildpacks a successful run
packages are exactly the selected ones (`rootIds`: the buildpack whose directory is the invocation directory, else every
buildpack when invoked from the workspace root) and everything they transitively depend on through `libcnb:`
references, each once, every buildpack after all of its dependencies — C13's theorem carried through `execute`. -/
theorem selection (ws : Workspace) (inv : Str) (cfg : Config) (seed : FS) (res : Result) (nodes : List DepGraph.Node)
    (hwf : WellFormed ws nodes) (h : package ws inv cfg seed = .ok res) :
    IsBuildOrder (depsOf nodes) (rootIds ws inv) res.built := by
  obtain ⟨_, _, _, _, _, _, hbo, _, _, _⟩ := package_facts hwf.nodes_ok hwf.ids_distinct hwf.acyclic h
  exact hbo

/-- **M1 (which are the selected).** Invoked from the directory of a libcnb.rs or composite buildpack, exactly that
buildpack is selected (buildpack directories pairwise distinct). -/
theorem selected_from_buildpack_dir (ws : Workspace) (bp : Buildpack) (hbp : bp ∈ nodesOf ws)
    (hdirs : ((nodesOf ws).map (fun b => absDir ws.root b.dir)).Nodup) :
    rootIds ws (absDir ws.root bp.dir) = [bp.id] := by
  unfold rootIds
  cases hf : (nodesOf ws).find? (fun b => absDir ws.root b.dir == absDir ws.root bp.dir) with
  | some b =>
    have h1 := List.find?_some hf
    have h2 := List.mem_of_find?_eq_some hf
    simp only [beq_iff_eq] at h1
    have : b = bp := inj_of_nodup_map (fun b : Buildpack => absDir ws.root b.dir) hdirs h2 hbp h1
    simp [this]
  | none =>
    have := List.find?_eq_none.1 hf bp hbp
    simp at this

/-- **M1 (which are the selected).** Invoked from the workspace root (which is not itself a buildpack directory), every
libcnb.rs and composite buildpack of the workspace is selected; foreign buildpack directories never are. -/
theorem selected_from_workspace_root (ws : Workspace) (h : ∀ bp ∈ nodesOf ws, absDir ws.root bp.dir ≠ ws.root) :
    rootIds ws ws.root = (nodesOf ws).map (·.id) ∧ ∀ bp ∈ ws.dirs, bp.kind = .foreign → bp ∉ nodesOf ws := by
  constructor
  · unfold rootIds
    cases hf : (nodesOf ws).find? (fun b => absDir ws.root b.dir == ws.root) with
    | some b =>
      have h1 := List.find?_some hf
      have h2 := List.mem_of_find?_eq_some hf
      simp only [beq_iff_eq] at h1
      exact absurd h1 (h b h2)
    | none => simp
  · intro bp _ hk hm
    unfold nodesOf at hm
    have := (List.mem_filter.1 hm).2
    simp [packable, hk] at this

/-- **M2 `contents`, libcnb.rs buildpacks.** After a successful run the output directory of every packaged libcnb.rs
buildpack holds the byte-identical `buildpack.toml`, the compiled main binary (`mainOf`: the only bin target, or the one
named like the package) as `bin/build`, `bin/detect` as a link to it, every additional binary under
`.libcnb-cargo/additional-bin/<target name>`, a `package.toml` — **and nothing else**, whatever `seed` held there. -/
theorem contents_libcnb (ws : Workspace) (inv : Str) (cfg : Config) (seed : FS) (res : Result) (nodes : List DepGraph.Node)
    (hwf : WellFormed ws nodes) (h : package ws inv cfg seed = .ok res) (bp : Buildpack) (hbp : bp ∈ nodesOf ws)
    (hb : bp.id ∈ res.built) (pkgName : String) (bins : List String) (hk : bp.kind = .libcnb pkgName bins) :
    ∃ main, mainOf pkgName bins = some main ∧
      PackagedLibcnb (fun rel => lookup res.fs (destPath cfg bp.id ++ rel)) bp.descriptor pkgName main
        (additionalOf main bins) cfg.profile := by
  obtain ⟨before, items, hi, _, hl⟩ :=
    built_lookup hwf.nodes_ok hwf.ids_distinct hwf.names_distinct hwf.acyclic h hbp hb
  unfold itemsFor at hi
  rw [hk] at hi
  simp only at hi
  cases hm : mainTarget pkgName bins with
  | error e => rw [hm] at hi; cases hi
  | ok main =>
    rw [hm] at hi
    simp only [Except.ok.injEq] at hi
    subst hi
    refine ⟨main, (mainTarget_ok_iff _ _ _).1 hm, ?_⟩
    have : (fun rel => lookup res.fs (destPath cfg bp.id ++ rel)) =
        atRel (libcnbItems cfg.profile bp.descriptor pkgName main (additionalTargets main bins)) := funext hl
    rw [this, additional_eq]
    exact libcnbItems_packaged _ _ _ _ _

/-- **M2 `contents`, composite buildpacks.** After a successful run the output directory of every packaged composite
buildpack holds the byte-identical `buildpack.toml` and a `package.toml` — and nothing else — and that `package.toml` is
C14's normalisation of the original one, from the buildpack's own directory, under a map that sends ids only to the
output directories of buildpacks packaged in this run (C14's theorems then say: every `libcnb:` reference replaced by
that directory, relative paths absolute and denoting the same directory, the rest verbatim, order and number kept). -/
theorem contents_composite (ws : Workspace) (inv : Str) (cfg : Config) (seed : FS) (res : Result)
    (nodes : List DepGraph.Node) (hwf : WellFormed ws nodes) (h : package ws inv cfg seed = .ok res) (bp : Buildpack)
    (hbp : bp ∈ nodesOf ws) (hb : bp.id ∈ res.built) (pkg : Descriptor) (hk : bp.kind = .composite pkg) :
    ∃ (paths : Str → Option Str) (out : Descriptor),
      packageDescriptor paths (absDir ws.root bp.dir) pkg = .ok out ∧
      (∀ id p, paths id = some p → ∃ b ∈ nodesOf ws, b.id.toList = id ∧ b.id ∈ res.built ∧
        p = destStr (packageDirAbs ws inv cfg) cfg b.id) ∧
      PackagedComposite (fun rel => lookup res.fs (destPath cfg bp.id ++ rel)) bp.descriptor out := by
  obtain ⟨before, items, hi, hbefore, hl⟩ :=
    built_lookup hwf.nodes_ok hwf.ids_distinct hwf.names_distinct hwf.acyclic h hbp hb
  unfold itemsFor at hi
  rw [hk] at hi
  simp only at hi
  cases hd : packageDescriptor (pathsOf before) (absDir ws.root bp.dir) pkg with
  | error e => rw [hd] at hi; cases hi
  | ok out =>
    rw [hd] at hi
    simp only [Except.ok.injEq] at hi
    subst hi
    refine ⟨pathsOf before, out, hd, ?_, ?_⟩
    · intro id p hp
      unfold pathsOf at hp
      cases hf : before.find? (fun e => e.1.toList == id) with
      | none => rw [hf] at hp; cases hp
      | some e =>
        rw [hf] at hp
        simp only [Option.map_some, Option.some.injEq] at hp
        have h1 := List.find?_some hf
        have h2 := List.mem_of_find?_eq_some hf
        simp only [beq_iff_eq] at h1
        obtain ⟨b, hbm, hbb, rfl⟩ := hbefore e h2
        exact ⟨b, hbm, h1, hbb, hp.symm⟩
    · have : (fun rel => lookup res.fs (destPath cfg bp.id ++ rel)) = atRel (compositeItems bp.descriptor out) :=
        funext hl
      rw [this]
      exact compositeItems_packaged _ _

/-- **M2 `contents`, composite buildpacks: the references.** With C14's theorems: in the written `package.toml` of a
packaged composite the number of dependencies is unchanged and every `libcnb:<id>` reference has become, at its
position, the output directory of the buildpack with that id — a buildpack packaged in this very run (absolute package
directory; `libcnb:` references without an authority part, C14's boundary). -/
theorem composite_refs_resolved (ws : Workspace) (inv : Str) (cfg : Config) (seed : FS) (res : Result)
    (nodes : List DepGraph.Node) (hwf : WellFormed ws nodes) (h : package ws inv cfg seed = .ok res) (bp : Buildpack)
    (hbp : bp ∈ nodesOf ws) (hb : bp.id ∈ res.built) (pkg : Descriptor) (hk : bp.kind = .composite pkg)
    (hna : C14.NoLibcnbAuthority pkg) (habs : Spec.PathDenote.isAbsolute (packageDirAbs ws inv cfg) = true) :
    ∃ out, lookup res.fs (destPath cfg bp.id ++ relPackageToml) = some (.file (.pkg out)) ∧
      out.deps.length = pkg.deps.length ∧
      ∀ (i : Nat) (dep id : Str), pkg.deps[i]? = some dep → Spec.PathDenote.kindOf dep = .libcnb id →
        ∃ b ∈ nodesOf ws, b.id.toList = id ∧ b.id ∈ res.built ∧
          out.deps[i]? = some (destStr (packageDirAbs ws inv cfg) cfg b.id) := by
  obtain ⟨paths, out, hd, hpaths, hpc⟩ := contents_composite ws inv cfg seed res nodes hwf h bp hbp hb pkg hk
  refine ⟨out, hpc.package, (C14.shape_preserved _ _ _ _ hd).1, ?_⟩
  intro i dep id hdep hkind
  have hp : C14.PathsAbsolute paths := by
    intro id' p hp'
    obtain ⟨b, _, _, _, rfl⟩ := hpaths id' p hp'
    exact isAbsolute_destStr cfg b.id habs
  obtain ⟨p, hp1, hp2⟩ := C14.libcnb_replaced paths _ pkg out hp hna hd i dep id hdep hkind
  obtain ⟨b, hb1, hb2, hb3, rfl⟩ := hpaths id p hp1
  exact ⟨b, hb1, hb2, hb3, hp2⟩

/-- **M3 `stdout_exact`** ("prints exactly the selected buildpacks' output directories"). The lines on stdout are the
output directories of the selected buildpacks — each selected buildpack once, no dependency that was not itself
selected, nothing else. -/
theorem stdout_exact (ws : Workspace) (inv : Str) (cfg : Config) (seed : FS) (res : Result) (nodes : List DepGraph.Node)
    (hwf : WellFormed ws nodes) (h : package ws inv cfg seed = .ok res) :
    ∃ ids : List String, ids.Perm (rootIds ws inv) ∧
      res.stdout = ids.map (destStr (packageDirAbs ws inv cfg) cfg) := by
  obtain ⟨steps, dirs, bps, _, hbuilt, hout, hbo, _, hids, hl⟩ :=
    package_facts hwf.nodes_ok hwf.ids_distinct hwf.acyclic h
  obtain ⟨hdirs, _, _, _⟩ := planLoop_ok _ _ hl
  let f := destStr (packageDirAbs ws inv cfg) cfg
  have hdirs' : dirs = res.built.map (fun id => (id, f id)) := by
    rw [hdirs, ← hids]; simp [f]
  let sel := (sortDirs dirs).filter (fun e => (rootIds ws inv).contains e.1)
  have hmem : ∀ e ∈ sel, e.2 = f e.1 := by
    intro e he
    have h1 : e ∈ sortDirs dirs := (List.mem_filter.1 he).1
    have h2 : e ∈ dirs := (sortBy_perm _ dirs).mem_iff.1 h1
    rw [hdirs'] at h2
    obtain ⟨id, _, rfl⟩ := List.mem_map.1 h2
    rfl
  refine ⟨sel.map (·.1), ?_, ?_⟩
  · -- as lists of ids: a permutation of the selected ones
    have hp1 : sel.Perm (dirs.filter (fun e => (rootIds ws inv).contains e.1)) :=
      (sortBy_perm _ dirs).filter _
    have hp2 : (sel.map (·.1)).Perm ((dirs.filter (fun e => (rootIds ws inv).contains e.1)).map (·.1)) := hp1.map _
    have heq : (dirs.filter (fun e => (rootIds ws inv).contains e.1)).map (·.1) =
        res.built.filter (fun id => (rootIds ws inv).contains id) := by
      rw [hdirs']
      generalize res.built = l
      induction l with
      | nil => rfl
      | cons x xs ih =>
        by_cases hx : (rootIds ws inv).contains x = true
        · simp only [List.map_cons, List.filter_cons, hx, if_true, List.map_cons]
          rw [ih]
        · simp only [List.map_cons, List.filter_cons, hx, if_false, Bool.false_eq_true]
          rw [ih]
    rw [heq] at hp2
    refine hp2.trans ?_
    apply (List.perm_ext_iff_of_nodup ?_ (rootIds_nodup hwf.ids_distinct inv)).2
    · intro a
      simp only [List.mem_filter, List.contains_iff_mem]
      constructor
      · exact fun ha => ha.2
      · exact fun ha => ⟨(hbo.exact a).2 (.root ha), ha⟩
    · exact List.Nodup.sublist List.filter_sublist hbo.nodup
  · rw [hout]
    show sel.map (·.2) = (sel.map (·.1)).map f
    rw [List.map_map]
    exact List.map_congr_left (fun e he => hmem e he)

/-- **M4 `stale_independent`** ("whatever an earlier or interrupted run left in those output directories, the result is
the same as packaging into an empty directory"). For **any two** trees found in the package directory the run has the
same outcome, prints the same lines, packages the same buildpacks and leaves the same entry at every path at or below
every output directory it packaged (with `seed₂ := []`: the same as packaging into an empty directory). No hypothesis on
the workspace or on the trees. -/
theorem stale_independent (ws : Workspace) (inv : Str) (cfg : Config) (seed₁ seed₂ : FS) :
    match package ws inv cfg seed₁, package ws inv cfg seed₂ with
    | .ok r₁, .ok r₂ => r₁.stdout = r₂.stdout ∧ r₁.built = r₂.built ∧
        ∀ id ∈ r₁.built, ∀ rel, lookup r₁.fs (destPath cfg id ++ rel) = lookup r₂.fs (destPath cfg id ++ rel)
    | .error e₁, .error e₂ => e₁ = e₂
    | _, _ => False := by
  rw [package_seed_shape, package_seed_shape]
  cases hp : plan ws inv cfg with
  | error e => rfl
  | ok pl =>
    refine ⟨rfl, rfl, ?_⟩
    intro id hid rel
    obtain ⟨s, hs, rfl⟩ := List.mem_map.1 hid
    apply lookup_steps_congr
    right
    exact ⟨s, hs, by rw [plan_steps_dest hp s hs]; exact isPrefixOf_append _ _⟩

/-- **M4 (frame; "exactly").** A run changes nothing below the package directory except at or below the output
directories of the packaged buildpacks and the directories on the way to them (`<target>`, `<target>/<profile>`, which
`create_dir_all` makes). -/
theorem untouched_elsewhere (ws : Workspace) (inv : Str) (cfg : Config) (seed : FS) (res : Result)
    (h : package ws inv cfg seed = .ok res) (q : Path)
    (hq : ∀ id ∈ res.built, (destPath cfg id).isPrefixOf q = false ∧ q.isPrefixOf (destPath cfg id) = false) :
    lookup res.fs q = lookup seed q := by
  obtain ⟨pl, hp, rfl⟩ := package_ok h
  apply lookup_steps_outside
  · intro s hs
    rw [plan_steps_dest hp s hs]
    exact (hq s.id (List.mem_map.2 ⟨s, hs, rfl⟩)).1
  · intro s hs
    rw [plan_steps_dest hp s hs]
    cases hm : isMadeDir (destPath cfg s.id) q with
    | false => rfl
    | true =>
      have := (hq s.id (List.mem_map.2 ⟨s, hs, rfl⟩)).2
      rw [(isMadeDir_prefix hm).1] at this
      cases this

/-- **M5 `main_target_rule`.** `determine_buildpack_cargo_target_name` finds the main binary exactly when the
specification determines one, and then the same: no bin target ⇒ `NoBinTargets`; one ⇒ that one whatever its name;
several ⇒ the one named like the package, and `AmbiguousBinTargets` when none is. The additional binaries are all the
other bin targets. -/
theorem main_target_rule (pkgName : String) (bins : List String) :
    (∀ m, mainTarget pkgName bins = .ok m ↔ mainOf pkgName bins = some m) ∧
    (mainTarget pkgName bins = .error .noBinTargets ↔ bins = []) ∧
    (mainTarget pkgName bins = .error .ambiguousBinTargets ↔ 2 ≤ bins.length ∧ pkgName ∉ bins) ∧
    (∀ m, additionalTargets m bins = additionalOf m bins) := by
  refine ⟨fun m => mainTarget_ok_iff _ _ _, ?_, ?_, fun m => additional_eq m bins⟩
  · unfold mainTarget
    match bins with
    | [] => simp
    | [b] => simp
    | b :: c :: rest =>
      cases hc : (b :: c :: rest).contains pkgName with
      | true => simp only [if_true]; simp
      | false => simp only [Bool.false_eq_true, if_false]; simp
  · unfold mainTarget
    match bins with
    | [] => simp
    | [b] => simp
    | b :: c :: rest =>
      cases hc : (b :: c :: rest).contains pkgName with
      | true =>
        have hm : pkgName ∈ b :: c :: rest := by simpa using hc
        simp only [if_true]
        simp [hm]
      | false =>
        have hm : pkgName ∉ b :: c :: rest := by
          intro hm
          have : (b :: c :: rest).contains pkgName = true := by simpa using hm
          rw [hc] at this; cases this
        simp only [Bool.false_eq_true, if_false]
        simp [hm]

/-- **M5 (ambiguous ⇒ error).** A run that has to package a libcnb.rs buildpack whose main binary is not determined
(no bin target, or several and none named like the package) fails: no successful run has it among the packaged ones. -/
theorem undetermined_main_is_error (ws : Workspace) (inv : Str) (cfg : Config) (seed : FS) (res : Result)
    (nodes : List DepGraph.Node) (hwf : WellFormed ws nodes) (h : package ws inv cfg seed = .ok res) (bp : Buildpack)
    (hbp : bp ∈ nodesOf ws) (pkgName : String) (bins : List String) (hk : bp.kind = .libcnb pkgName bins)
    (hu : mainOf pkgName bins = none) : bp.id ∉ res.built := by
  intro hb
  obtain ⟨main, hm, _⟩ := contents_libcnb ws inv cfg seed res nodes hwf h bp hbp hb pkgName bins hk
  rw [hu] at hm; cases hm

/-- **Output directories do not collide.** Distinct buildpack ids over the CNB id alphabet (no `_`) get distinct
directory names, hence distinct output directories: `names_distinct` of `WellFormed` follows from `ids_distinct`. -/
theorem output_names_distinct (a b : String) (ha : '_' ∉ a.toList) (hb : '_' ∉ b.toList)
    (h : dirName a = dirName b) : a = b := dirName_inj ha hb h

/-- **M1 `selection_independent_of_package_dir`** ("for exactly the selected buildpacks and their dependencies … prints
exactly the selected buildpacks' output directories" — whatever `--package-dir` is). What a successful run selects,
packages and prints is `selectionOf ws inv`, a function of the workspace and the invocation directory that takes neither
`cfg` (profile, target, `--package-dir`) nor the tree in the package directory: for **every** package directory — outside
the workspace, the workspace root, an ancestor of buildpack source directories, a buildpack's own directory — the selected
ids are `rootIds ws inv`, the packaged ids in order are `sel.order` (C13's `getDependencies` over the workspace graph: for a
well-formed workspace exactly the selected and their transitive dependencies, each once, dependencies first), and the
printed lines are the output directories of `printedIds sel`; the package directory only enters through the directory
names (`destStr (packageDirAbs ws inv cfg)`). -/
theorem selection_independent_of_package_dir (ws : Workspace) (inv : Str) (cfg : Config) (seed : FS) (res : Result)
    (h : package ws inv cfg seed = .ok res) :
    ∃ sel : Selection, selectionOf ws inv = .ok sel ∧ sel.roots = rootIds ws inv ∧ res.built = sel.order ∧
      res.stdout = (printedIds sel).map (destStr (packageDirAbs ws inv cfg) cfg) ∧
      ∀ nodes, WellFormed ws nodes → IsBuildOrder (depsOf nodes) sel.roots sel.order := by
  obtain ⟨sel, h1, h2, h3, h4⟩ := package_selection h
  refine ⟨sel, h1, h2, h3, h4, ?_⟩
  intro nodes hwf
  rw [h2, ← h3]
  exact selection ws inv cfg seed res nodes hwf h

/-- **M1 (two runs).** Two runs over the same workspace from the same invocation directory with **any two** configurations
(in particular any two `--package-dir`s) and any two trees in their package directories: both succeed or both fail with
the same error; when they succeed they package the same buildpacks in the same order and print the output directories of
the same ids in the same order, each below its own package directory. No hypothesis. -/
theorem outcome_independent_of_package_dir (ws : Workspace) (inv : Str) (cfg₁ cfg₂ : Config) (seed₁ seed₂ : FS) :
    match package ws inv cfg₁ seed₁, package ws inv cfg₂ seed₂ with
    | .ok r₁, .ok r₂ => r₁.built = r₂.built ∧ ∃ ids : List String,
        r₁.stdout = ids.map (destStr (packageDirAbs ws inv cfg₁) cfg₁) ∧
        r₂.stdout = ids.map (destStr (packageDirAbs ws inv cfg₂) cfg₂)
    | .error e₁, .error e₂ => e₁ = e₂
    | _, _ => False := by
  have hs := package_same ws inv cfg₁ cfg₂ seed₁ seed₂
  cases h1 : package ws inv cfg₁ seed₁ with
  | error e₁ =>
    cases h2 : package ws inv cfg₂ seed₂ with
    | error e₂ => rw [h1, h2] at hs; simpa [SameOutcome] using hs
    | ok _ => rw [h1, h2] at hs; simp [SameOutcome] at hs
  | ok r₁ =>
    cases h2 : package ws inv cfg₂ seed₂ with
    | error e₂ => rw [h1, h2] at hs; simp [SameOutcome] at hs
    | ok r₂ =>
      obtain ⟨s₁, ha1, _, hb1, hc1⟩ := package_selection h1
      obtain ⟨s₂, ha2, _, hb2, hc2⟩ := package_selection h2
      rw [ha1] at ha2
      simp only [Except.ok.injEq] at ha2
      subst ha2
      exact ⟨by rw [hb1, hb2], printedIds s₁, hc1, hc2⟩

/-! ### non-vacuity -/

def aToml : String := "a-descriptor"
def mToml : String := "m-descriptor"

/-- two libcnb.rs buildpacks (one with additional binaries, one whose only bin target is not named like the package),
a foreign buildpack directory, a composite depending on one of them, on the foreign directory by path and on an image -/
def sampleWs : Workspace :=
  ⟨"/w".toList,
   [⟨"v/a", "bps/a".toList, aToml, .libcnb "bp-a" ["bp-a", "helper"]⟩,
    ⟨"ext/f", "vendor/f".toList, "f-descriptor", .foreign⟩,
    ⟨"v/m", "meta/m".toList, mToml, .composite ⟨".".toList, ["libcnb:v/a".toList, "../../vendor/f".toList,
      "docker://docker.io/x/y:1".toList], "linux".toList⟩⟩,
    ⟨"v/b", "bps/b".toList, "b-descriptor", .libcnb "bp-b" ["only"]⟩]⟩

def sampleNodes : List DepGraph.Node := [⟨"v/a", []⟩, ⟨"v/m", ["v/a"]⟩, ⟨"v/b", []⟩]

def sampleCfg : Config := ⟨.dev, "t", none⟩

/-- stale content of every kind in the output directory of `v/a`, and foreign content elsewhere -/
def sampleSeed : FS :=
  [(["t", "debug", "v_a", "bin", "build", "nested"], .file (.raw "dir where a file should be")),
   (["t", "debug", "v_a", "bin", "detect"], .link "gone"),
   (["t", "debug", "v_a", "stale.txt"], .file (.raw "stale")),
   (["t", "release", "v_a", "buildpack.toml"], .file (.raw "other profile"))]

example : WellFormed sampleWs sampleNodes := by
  refine ⟨by rfl, by decide +kernel, by decide +kernel, ?_⟩
  refine ⟨fun x => if x = "v/m" then 1 else 0, ?_⟩
  intro u w hw
  by_cases h1 : u = "v/m"
  · subst h1
    have : depsOf sampleNodes "v/m" = ["v/a"]  := by rfl
    rw [this] at hw
    simp only [List.mem_cons, List.not_mem_nil, or_false] at hw
    subst hw; decide +kernel
  · have : depsOf sampleNodes u = [] := by
      unfold depsOf sampleNodes
      by_cases h2 : u = "v/a"
      · subst h2; decide +kernel
      · by_cases h3 : u = "v/b"
        · subst h3; decide +kernel
        · simp [List.find?, Ne.symm h1, Ne.symm h2, Ne.symm h3]
    rw [this] at hw; simp at hw

/-- the run succeeds and its result satisfies `p` (a `Bool`, so that the kernel evaluates it) -/
def okWith (r : Except Err Result) (p : Result → Bool) : Bool :=
  match r with
  | .ok res => p res
  | .error _ => false

def failsWith (r : Except Err Result) (e : Err) : Bool :=
  match r with
  | .ok _ => false
  | .error e' => e' == e

/-- from the composite's directory: its dependency is packaged first, only the composite is printed, the stale entries
in `v_a` are gone (incl. the directory where a file belongs and the stale link), the other profile's directory is
untouched -/
example : okWith (package sampleWs "/w/meta/m".toList sampleCfg sampleSeed) (fun r =>
    r.built == ["v/a", "v/m"] && r.stdout.map String.ofList == ["/w/packaged/t/debug/v_m"] &&
    lookup r.fs ["t", "debug", "v_a", "stale.txt"] == none &&
    lookup r.fs ["t", "debug", "v_a", "bin", "build", "nested"] == none &&
    lookup r.fs ["t", "debug", "v_a", "bin", "build"] == some (.file (.artifact "bp-a" "bp-a" .dev)) &&
    lookup r.fs ["t", "debug", "v_a", "bin", "detect"] == some (.link "build") &&
    lookup r.fs ["t", "debug", "v_a", ".libcnb-cargo", "additional-bin", "helper"] == some (.file (.artifact "bp-a" "helper" .dev)) &&
    lookup r.fs ["t", "debug", "v_a", "buildpack.toml"] == some (.file (.raw aToml)) &&
    lookup r.fs ["t", "debug", "v_m", "package.toml"] == some (.file (.pkg ⟨".".toList,
      ["/w/packaged/t/debug/v_a".toList, "/w/vendor/f".toList, "docker://docker.io/x/y:1".toList], "linux".toList⟩)) &&
    lookup r.fs ["t", "release", "v_a", "buildpack.toml"] == some (.file (.raw "other profile"))) = true := by
  decide +kernel

/-- from the workspace root every libcnb.rs and composite buildpack is selected and printed, the foreign one is not -/
example : okWith (package sampleWs "/w".toList sampleCfg []) (fun r =>
    r.built == ["v/a", "v/m", "v/b"] &&
    r.stdout.map String.ofList == ["/w/packaged/t/debug/v_a", "/w/packaged/t/debug/v_b", "/w/packaged/t/debug/v_m"] &&
    lookup r.fs ["t", "debug", "v_b", "bin", "build"] == some (.file (.artifact "bp-b" "only" .dev))) = true := by
  decide +kernel

/-- the package directory is the workspace root (`--package-dir .`), an ancestor of buildpack sources (`bps`), a
buildpack's own directory, given relative, absolute, with a trailing slash: from the workspace root every buildpack is
selected, packaged and printed all the same — below that directory -/
example : (match selectionOf sampleWs "/w".toList with
    | .ok sel => sel.roots == ["v/a", "v/m", "v/b"] && sel.order == ["v/a", "v/m", "v/b"] && printedIds sel == ["v/a", "v/b", "v/m"]
    | .error _ => false) = true := by decide +kernel
example : okWith (package sampleWs "/w".toList ⟨.dev, "t", some ".".toList⟩ []) (fun r =>
    r.built == ["v/a", "v/m", "v/b"] &&
    r.stdout.map String.ofList == ["/w/t/debug/v_a", "/w/t/debug/v_b", "/w/t/debug/v_m"]) = true := by decide +kernel
example : okWith (package sampleWs "/w".toList ⟨.dev, "t", some "bps".toList⟩ []) (fun r =>
    r.built == ["v/a", "v/m", "v/b"] &&
    r.stdout.map String.ofList == ["/w/bps/t/debug/v_a", "/w/bps/t/debug/v_b", "/w/bps/t/debug/v_m"] &&
    lookup r.fs ["t", "debug", "v_m", "package.toml"] == some (.file (.pkg ⟨".".toList,
      ["/w/bps/t/debug/v_a".toList, "/w/vendor/f".toList, "docker://docker.io/x/y:1".toList], "linux".toList⟩))) = true := by
  decide +kernel
example : okWith (package sampleWs "/w".toList ⟨.release, "t", some "/w/bps/a/".toList⟩ []) (fun r =>
    r.built == ["v/a", "v/m", "v/b"] &&
    r.stdout.map String.ofList == ["/w/bps/a/t/release/v_a", "/w/bps/a/t/release/v_b", "/w/bps/a/t/release/v_m"]) = true := by
  decide +kernel
/-- from a buildpack's directory with `--package-dir ..` (its parent, which holds every libcnb.rs buildpack) -/
example : okWith (package sampleWs "/w/bps/b".toList ⟨.dev, "t", some "..".toList⟩ []) (fun r =>
    r.built == ["v/b"] && r.stdout.map String.ofList == ["/w/bps/t/debug/v_b"]) = true := by decide +kernel

/-- the workspace root is itself a buildpack directory (root package + members): invoked there, only the root buildpack
(and what it depends on) is selected, packaged and printed — not every buildpack of the workspace; the member `v/one` is
only packaged from its own directory. From a directory inside a buildpack that is not a buildpack directory nothing is
selected. -/
def rootWs : Workspace :=
  ⟨"/w".toList, [⟨"v/root", [], "r", .libcnb "root-pkg" ["root-pkg"]⟩, ⟨"v/one", "sub/one".toList, "o", .libcnb "one" ["one"]⟩]⟩

example : rootIds rootWs "/w".toList = ["v/root"] := by decide +kernel
example : okWith (package rootWs "/w".toList sampleCfg []) (fun r =>
    r.built == ["v/root"] && r.stdout.map String.ofList == ["/w/packaged/t/debug/v_root"] &&
    lookup r.fs ["t", "debug", "v_one"] == none) = true := by decide +kernel
example : okWith (package rootWs "/w/sub/one".toList sampleCfg []) (fun r => r.built == ["v/one"]) = true := by decide +kernel
example : failsWith (package rootWs "/w/src".toList sampleCfg []) .noBuildpacksFound = true := by decide +kernel

/-- a crate that is its own cargo workspace: from its directory the tool sees only the buildpacks below it -/
example : (effectiveWorkspace rootWs ["sub/one".toList] "/w/sub/one/src".toList).root = "/w/sub/one".toList ∧
    (effectiveWorkspace rootWs ["sub/one".toList] "/w/sub/one/src".toList).dirs.map (fun b => (b.id, String.ofList b.dir)) = [("v/one", "")] ∧
    (effectiveWorkspace rootWs ["sub/one".toList] "/w/sub".toList).root = "/w".toList := by decide +kernel

/-- the main-target rule: one bin target of any name; several need one named like the package -/
example : mainTarget "bp-b" ["only"] = .ok "only" := by rfl
example : mainTarget "bp" ["x", "bp", "y"] = .ok "bp" := by rfl
example : mainTarget "bp" ["x", "y"] = .error .ambiguousBinTargets := by rfl
example : mainTarget "bp" [] = .error .noBinTargets := by rfl

/-- an ambiguous buildpack makes the run fail, from the root; from another buildpack's directory it is not touched -/
def ambWs : Workspace :=
  ⟨"/w".toList, [⟨"v/a", "a".toList, aToml, .libcnb "bp-a" ["bp-a"]⟩, ⟨"v/x", "x".toList, "x", .libcnb "bp-x" ["p", "q"]⟩]⟩

example : failsWith (package ambWs "/w".toList sampleCfg []) .ambiguousBinTargets = true := by decide +kernel
example : okWith (package ambWs "/w/a".toList sampleCfg []) (fun r => r.built == ["v/a"]) = true := by decide +kernel
example : failsWith (package ambWs "/w/elsewhere".toList sampleCfg []) .noBuildpacksFound = true := by decide +kernel

end CnbVerif.C15
