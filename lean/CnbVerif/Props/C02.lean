import CnbVerif.Lemmas.LayerTrait4
/-!
# C02 — trait-based layer handling runs the right callbacks and persists their result

Model: `Model/LayerTrait.lean` (`handle_layer`, `handle_create_layer`, `handle_update_layer`, `write_layer` with
`ExecDPrograms/Sboms::{Keep, Replace}`, re-read after every write, the lifecycle restore fixed by the property text) on
the layers directory of C01 (`Model/LayerStore.lean`, `delete_layer` as repaired for D1) with the environment
reader/writer of C03/C10 (`Model/EnvDir.lean`, reader as repaired for D2).
Spec: `Spec/TraitSpec.lean` — `tStepOk`, the executable statement of the property for one step (decision table for the
callback log, on-disk layer = returned `LayerResult` after create/update, = pre-state with refreshed types after keep,
= pre-state with a requested metadata replacement carried out after a failing strategy/update callback, returned layer data = what the directory on disk means as an environment, other layers untouched). The same `tStepOk`
judges every step of the real code's histories in the correspondence.

Hypotheses, all explicit: `TOpOk` (every `Layer` implementation is well typed: results carry API-built environments with
non-empty variable names, callbacks write no entry named `env`, `env.build`, `env.launch`, `exec.d`, metadata values are
values of the layer's metadata type) and, for the state-level theorems, the reachable-state invariant `WFT` (no SBOM
file without its layer directory; env directories as the writer leaves them; `exec.d` absent or a directory).

Known deviation (listed as a finding): `Keep` re-writes the metadata *as decoded by the layer's metadata type*, so keys
of the stored `[metadata]` table that the type does not know are dropped, although keep must leave everything but the
types as it was. `FullStatement` is therefore false (`keep_drops_unknown_keys_counterexample`); the property is proved
under the decidable condition excluding exactly that case (`every_history_partial`, `every_state_partial`), and with
that one clause weakened to "metadata as the type sees it" without any condition (`every_history_modulo_dropped_keys`).
-/
namespace CnbVerif.C02
open CnbVerif Spec

/-- C02 at full strength: from the empty layers directory, every step of every history of well-typed `handle_layer`
calls, restores (and corruptions of a metadata file) satisfies `tStepOk`, for every universe of layer names the frame
clause is checked over and every set of probes the returned environment is observed through. -/
def FullStatement : Prop :=
  ∀ (names : List Bytes) (probes : List (Scope × Env)) (ops : List TOp), (∀ op ∈ ops, TOpOk op) →
    ∀ e ∈ ttrace [] ops, tStepOk names e.pre e.op (e.out.observe probes) e.log e.post = true

/-- **M5 (every history), partial.** `FullStatement` for all histories in which no step keeps a layer whose stored
metadata has keys unknown to the layer's metadata type (`stepKeepsAll`, decidable per step). No bound on the length,
the names, the callbacks' answers, the returned environments, exec.d sets, SBOM sets, metadata. -/
theorem every_history_partial (names : List Bytes) (probes : List (Scope × Env)) (ops : List TOp)
    (hops : ∀ op ∈ ops, TOpOk op) (hfree : ∀ e ∈ ttrace [] ops, stepKeepsAll e.pre e.op = true) :
    ∀ e ∈ ttrace [] ops, tStepOk names e.pre e.op (e.out.observe probes) e.log e.post = true :=
  history_gen names probes true ops [] wft_empty hops (fun _ => hfree)

/-- **M5 (every history), all clauses but one at full strength.** Without any condition on the history, every step
satisfies `tStepOk` with the single clause "metadata after keep = metadata before" read as "… as the layer's metadata
type sees it": callback log, types, env directories, exec.d, SBOMs, files, returned data, frame are all as required. -/
theorem every_history_modulo_dropped_keys (names : List Bytes) (probes : List (Scope × Env)) (ops : List TOp)
    (hops : ∀ op ∈ ops, TOpOk op) :
    ∀ e ∈ ttrace [] ops, tStepOk names e.pre e.op (e.out.observe probes) e.log e.post false = true :=
  history_gen names probes false ops [] wft_empty hops (fun h => by cases h)

/-- **M1–M4 (every state), partial.** The step statement holds from *every* state of the layers directory satisfying
the invariant, not only reachable ones, and the invariant is re-established. -/
theorem every_state_partial (names : List Bytes) (probes : List (Scope × Env)) (s : Store) (op : TOp) (hwf : WFT s)
    (hop : TOpOk op) (hfree : stepKeepsAll s op = true) :
    tStepOk names s op ((tStep s op).2.1.observe probes) (tStep s op).2.2 (tStep s op).1 = true ∧ WFT (tStep s op).1 :=
  tstep_ok names probes s op hwf hop true (fun _ => hfree)

/-- **Invariant.** Every operation preserves the reachable-state invariant, whatever the callbacks answer (no
condition about unknown metadata keys). -/
theorem invariant_preserved (s : Store) (op : TOp) (hwf : WFT s) (hop : TOpOk op) : WFT (tStep s op).1 :=
  (tstep_ok [] [] s op hwf hop false (fun h => by cases h)).2

/-- a layer definition with generic metadata whose `create` returns metadata `{v = 1, w = 2}` -/
def cexG : LDef :=
  { types := ⟨true, true, true⟩, mt := .generic, strategy := .keep, migrate := .recreate,
    create := .ok { mdata := some ⟨some 1, some 2⟩ }, update := .fail }

/-- a layer definition with metadata type `struct { v }` that keeps what it finds -/
def cexV : LDef :=
  { types := ⟨true, true, true⟩, mt := .versioned, strategy := .keep, migrate := .recreate, create := .fail, update := .fail }

/-- The finding that keeps `FullStatement` from holding: a layer created with generic metadata `{v = 1, w = 2}` and
then kept by a layer definition whose metadata type is `struct { v }` ends with metadata `{v = 1}` on disk. -/
theorem keep_drops_unknown_keys_counterexample : ¬ FullStatement := by
  intro h
  have hres : ResOk .generic { mdata := some ⟨some 1, some 2⟩ } :=
    ⟨emptyEnv_ok, (by intro f hf; cases hf), ⟨rfl, rfl⟩⟩
  have hops : ∀ op ∈ [TOp.handle [97] cexG, TOp.handle [97] cexV], TOpOk op := by
    intro op hop
    simp only [List.mem_cons, List.mem_nil_iff, or_false] at hop
    rcases hop with rfl | rfl
    · exact ⟨hres, trivial, (by intro m hm; cases hm)⟩
    · exact ⟨trivial, trivial, (by intro m hm; cases hm)⟩
  have h2 := h [[97]] [] [TOp.handle [97] cexG, TOp.handle [97] cexV] hops
  have hbad : ((ttrace [] [TOp.handle [97] cexG, TOp.handle [97] cexV]).map
      (fun e => tStepOk [[97]] e.pre e.op (e.out.observe []) e.log e.post)) = [true, false] := by decide
  have hall : ∀ b ∈ (ttrace [] [TOp.handle [97] cexG, TOp.handle [97] cexV]).map
      (fun e => tStepOk [[97]] e.pre e.op (e.out.observe []) e.log e.post), b = true := by
    intro b hb
    obtain ⟨e, he, rfl⟩ := List.mem_map.mp hb
    exact h2 e he
  rw [hbad] at hall
  exact absurd (hall false (by simp)) (by decide)

/-! What the model guarantees, clause by clause, for every state satisfying the invariant (full strength: these do not
depend on the known deviation). -/

/-- **M1 (callback log).** The callbacks that run, their order and the metadata each is shown are exactly the decision
table's: `create` once exactly when the layer is absent or to be recreated (and then on an empty directory),
`existing_layer_strategy` once exactly on a decodable existing layer, `update` once exactly when it answers update,
`migrate_incompatible_metadata` once exactly on undecodable metadata, nothing else, nothing twice. -/
theorem callback_log (s : Store) (hwf : WFT s) (n : Bytes) (L : LDef) (hL : LOk L)
    (elog : List TCall) (oc : Outcome) (hexp : expectedT (Spec.classify (sget s n) L.mt) L = some (elog, oc)) :
    (tStep s (.handle n L)).2.2 = elog := by
  have h := (tstep_ok [] [] s (.handle n L) hwf hL false (fun h => by cases h)).1
  simp only [tStepOk, handleOk, hexp, Bool.and_eq_true, beq_iff_eq] at h
  exact h.1.1

/-- **M3 (returned = disk).** Whenever layer data is returned, the layer directory exists afterwards and the returned
environment applies — for *every* scope (every process type), starting environment and variable — exactly as the
CNB reading of that directory prescribes (env files by suffix, `env/` first, then the scope's directory, then the
implicit layer paths of the sub-directories that exist). -/
theorem returned_equals_disk (s : Store) (hwf : WFT s) (n : Bytes) (L : LDef) (hL : LOk L) (m : Option MetaTbl) (le : LayerEnv)
    (hout : (tStep s (.handle n L)).2.1 = .data m le) :
    ∃ d, (sget (tStep s (.handle n L)).1 n).dir = some d ∧
      ∀ sc env v, (le.apply sc env).get v = specVar (layerPathOf n) d sc env v := by
  have hwf' := invariant_preserved s (.handle n L) hwf hL
  have hd := tHandle_dfd (layerPath n) L tFuel (s.get n) [] m le hout
  obtain ⟨d, hdir, hr⟩ := hd
  refine ⟨d, ?_, ?_⟩
  · simp only [tStep, sget_eq, Store.get_set_eq]; exact hdir
  · have hsh : Shaped d := by
      have := (hwf' n).2 d
      simp only [tStep, Store.get_set_eq] at this
      exact this hdir
    rw [layerPathOf_eq]
    exact read_shaped (layerPath n) d hsh le hr

/-! What `tStepOk` says, clause by clause (facts about the specification itself). -/

/-- **M1.** An accepted step has exactly the callback log of the decision table. -/
theorem stepOk_callback_log (names : List Bytes) (pre post : Store) (n : Bytes) (L : LDef) (obs : TObs) (log : List TCall)
    (strict : Bool) (h : tStepOk names pre (.handle n L) obs log post strict = true)
    (elog : List TCall) (oc : Outcome) (hexp : expectedT (Spec.classify (sget pre n) L.mt) L = some (elog, oc)) :
    log = elog := by
  simp only [tStepOk, handleOk, hexp, Bool.and_eq_true, beq_iff_eq] at h
  exact h.1.1

/-- **M2 (create / update).** When the table says the result `r` of `create` (`fresh`) or `update` is to be persisted
and all exec.d sources exist: layer data is returned with `r`'s metadata; on disk the types are the layer's, the metadata
is `r`'s, the SBOM set is `r`'s, the directory is exactly `r`'s env layout + `r`'s exec.d programs + the callback's
files (+ for update what the layer held elsewhere), and the returned data reads back from it. -/
theorem stepOk_persisted (names : List Bytes) (pre post : Store) (n : Bytes) (L : LDef) (obs : TObs) (log : List TCall)
    (strict : Bool) (h : tStepOk names pre (.handle n L) obs log post strict = true)
    (elog : List TCall) (r : LResult) (fresh : Bool)
    (hexp : expectedT (Spec.classify (sget pre n) L.mt) L = some (elog, .persist r fresh))
    (progs : List (Bytes × Bytes)) (hp : progsOf r.execd = some progs) :
    ∃ applied d, obs = .data (seenAs L.mt r.mdata) applied ∧ (sget post n).dir = some d ∧
      (sget post n).toml = some (.doc (some L.types) r.mdata) ∧ sameSboms (sget post n).sboms r.sboms = true ∧
      persistDirOk (if fresh then [] else (sget pre n).dir.getD []) d r progs = true ∧
      readBackOk (layerPathOf n) d applied = true := by
  simp only [tStepOk, handleOk, hexp, hp, Bool.and_eq_true, beq_iff_eq] at h
  obtain ⟨⟨_, h⟩, _⟩ := h
  cases obs with
  | err k => simp at h
  | ok => simp at h
  | data m applied =>
    cases hd : (sget post n).dir with
    | none => rw [hd] at h; simp at h
    | some d =>
      rw [hd] at h
      simp only [Bool.and_eq_true, beq_iff_eq] at h
      obtain ⟨⟨⟨⟨hm, ht⟩, hs⟩, hpd⟩, hrb⟩ := h
      refine ⟨applied, d, by rw [hm], rfl, ?_, hs, hpd, hrb⟩
      unfold tomlIs at ht
      split at ht
      · rename_i t' m' heq
        simp only [Bool.and_eq_true, beq_iff_eq] at ht
        rw [heq, ht.1, ht.2]
      · cases ht

/-- **M2 (keep).** When the table says keep (metadata `m`): layer data is returned; on disk the types are the layer's,
the metadata is `m`, the SBOMs are the previous ones, every entry of the layer directory is as before (directories as
sets of entries), and the returned data reads back from it. -/
theorem stepOk_kept (names : List Bytes) (pre post : Store) (n : Bytes) (L : LDef) (obs : TObs) (log : List TCall)
    (h : tStepOk names pre (.handle n L) obs log post = true)
    (elog : List TCall) (m : Option MetaTbl)
    (hexp : expectedT (Spec.classify (sget pre n) L.mt) L = some (elog, .keep m)) :
    ∃ applied d d0, obs = .data (seenAs L.mt m) applied ∧ (sget post n).dir = some d ∧ (sget pre n).dir = some d0 ∧
      (sget post n).toml = some (.doc (some L.types) m) ∧ sameSboms (sget post n).sboms (sget pre n).sboms = true ∧
      keepDirOk d0 d = true ∧ readBackOk (layerPathOf n) d applied = true := by
  simp only [tStepOk, handleOk, hexp, Bool.and_eq_true, beq_iff_eq] at h
  obtain ⟨⟨_, h⟩, _⟩ := h
  cases obs with
  | err k => simp at h
  | ok => simp at h
  | data m' applied =>
    cases hd : (sget post n).dir with
    | none => rw [hd] at h; simp at h
    | some d =>
      cases hd0 : (sget pre n).dir with
      | none => rw [hd, hd0] at h; simp at h
      | some d0 =>
        rw [hd, hd0] at h
        simp only [if_true, Bool.and_eq_true, beq_iff_eq] at h
        obtain ⟨⟨⟨⟨hm, ht⟩, hs⟩, hk⟩, hrb⟩ := h
        refine ⟨applied, d, d0, by rw [hm], rfl, rfl, ?_, hs, hk, hrb⟩
        unfold tomlIs at ht
        split at ht
        · rename_i t' m'' heq
          simp only [Bool.and_eq_true, beq_iff_eq] at ht
          rw [heq, ht.1, ht.2]
        · cases ht

/-- **Errors.** A failing `create` or migration callback (`.error .buildpack`), a metadata file that is no
content-metadata document (`.error .genericMeta`) or a missing exec.d source is reported as that error. -/
theorem stepOk_error (names : List Bytes) (pre post : Store) (n : Bytes) (L : LDef) (obs : TObs) (log : List TCall)
    (strict : Bool) (h : tStepOk names pre (.handle n L) obs log post strict = true)
    (elog : List TCall) (k : ErrKind) (hexp : expectedT (Spec.classify (sget pre n) L.mt) L = some (elog, .error k)) :
    isErr obs k = true := by
  simp only [tStepOk, handleOk, hexp, Bool.and_eq_true] at h
  exact h.1.2

/-- **Errors after the layer's callbacks were consulted.** When the table says `existing_layer_strategy` or `update`
fails on a layer carrying metadata `m` (its own, or the replacement the migration callback asked for in this call): the
buildpack error is reported and, judged from the layer after the call alone, the metadata file is a document with the
types stored before and metadata `m`, the SBOMs are the previous ones and every entry of the layer directory is as
before. In particular a requested metadata replacement is on disk although a later callback failed. -/
theorem stepOk_declined (names : List Bytes) (pre post : Store) (n : Bytes) (L : LDef) (obs : TObs) (log : List TCall)
    (strict : Bool) (h : tStepOk names pre (.handle n L) obs log post strict = true)
    (elog : List TCall) (m : Option MetaTbl)
    (hexp : expectedT (Spec.classify (sget pre n) L.mt) L = some (elog, .declined m)) :
    obs = .err .buildpack ∧ ∃ d d0, (sget post n).dir = some d ∧ (sget pre n).dir = some d0 ∧
      (sget post n).toml = some (.doc (storedTypes (sget pre n)) m) ∧
      sameSboms (sget post n).sboms (sget pre n).sboms = true ∧ keepDirOk d0 d = true := by
  simp only [tStepOk, handleOk, hexp, Bool.and_eq_true, beq_iff_eq] at h
  obtain ⟨⟨_, he, h⟩, _⟩ := h
  refine ⟨?_, ?_⟩
  · cases obs with
    | err k => simp only [isErr, beq_iff_eq] at he; rw [he]
    | ok => simp [isErr] at he
    | data m' a => simp [isErr] at he
  · cases hd : (sget post n).dir with
    | none => rw [hd] at h; simp at h
    | some d =>
      cases hd0 : (sget pre n).dir with
      | none => rw [hd, hd0] at h; simp at h
      | some d0 =>
        rw [hd, hd0] at h
        simp only [Bool.and_eq_true] at h
        obtain ⟨⟨ht, hs⟩, hk⟩ := h
        refine ⟨d, d0, rfl, rfl, ?_, hs, hk⟩
        unfold docIs at ht
        split at ht
        · rename_i t' m'' heq
          simp only [Bool.and_eq_true, beq_iff_eq] at ht
          rw [heq, ht.1, ht.2]
        · cases ht

/-- **Migration is carried out whatever the later callbacks answer.** From every state satisfying the invariant: when
the layer's metadata does not decode as the layer's metadata type, the migration callback answers
`ReplaceMetadata m'`, and then `existing_layer_strategy` fails, or it answers `Update` and `update` fails, the call
returns the buildpack error and the layer is left with the replacement carried out — metadata file = the stored types
with metadata `m'`, directory entries and SBOMs as before — so no migration is due at the next call on that layer
(it classifies as decodable with metadata `m'`). No condition about unknown metadata keys. -/
theorem migration_survives_later_failure (s : Store) (hwf : WFT s) (n : Bytes) (L : LDef) (hL : LOk L)
    (m : Option MetaTbl) (m' : MetaTbl) (hc : Spec.classify (sget s n) L.mt = .invalid m)
    (hmg : L.migrate = .replace m')
    (hfail : L.strategy = .fail ∨ (L.strategy = .update ∧ L.update = .fail)) :
    (tStep s (.handle n L)).2.1 = .err .buildpack ∧
    ∃ d d0, (sget (tStep s (.handle n L)).1 n).dir = some d ∧ (sget s n).dir = some d0 ∧
      (sget (tStep s (.handle n L)).1 n).toml = some (.doc (storedTypes (sget s n)) (some m')) ∧
      sameSboms (sget (tStep s (.handle n L)).1 n).sboms (sget s n).sboms = true ∧ keepDirOk d0 d = true ∧
      Spec.classify (sget (tStep s (.handle n L)).1 n) L.mt = .valid (some m') := by
  have hcd : canDecode L.mt (some m') = true := by rw [← decodes_eq]; exact (hL.migrate m' hmg).1
  have hexp : ∃ elog, expectedT (Spec.classify (sget s n) L.mt) L = some (elog, .declined (some m')) := by
    rw [hc]
    rcases hfail with hst | ⟨hst, hup⟩
    · exact ⟨[.migrate m, .strategy (seenAs L.mt (some m'))], by simp [expectedT, hmg, hcd, afterValidT, hst]⟩
    · exact ⟨[.migrate m, .strategy (seenAs L.mt (some m')), .update (seenAs L.mt (some m'))],
        by simp [expectedT, hmg, hcd, afterValidT, hst, hup]⟩
  obtain ⟨elog, hexp⟩ := hexp
  have h := (tstep_ok [] [] s (.handle n L) hwf hL false (fun h => by cases h)).1
  obtain ⟨hobs, d, d0, hd, hd0, ht, hs, hk⟩ := stepOk_declined [] s _ n L _ _ false h elog (some m') hexp
  refine ⟨?_, d, d0, hd, hd0, ht, hs, hk, ?_⟩
  · cases ho : (tStep s (.handle n L)).2.1 with
    | err k => rw [ho] at hobs; simp only [TOut.observe, TObs.err.injEq] at hobs; rw [hobs]
    | ok => rw [ho] at hobs; simp [TOut.observe] at hobs
    | data m1 le => rw [ho] at hobs; simp [TOut.observe] at hobs
  · simp only [Spec.classify, hd, ht, hcd, if_true]

/-- **M4 (frame).** Every other layer of the universe — directory, metadata file, SBOMs — is exactly as before. -/
theorem stepOk_others_untouched (names : List Bytes) (pre post : Store) (n : Bytes) (L : LDef) (obs : TObs)
    (log : List TCall) (strict : Bool) (h : tStepOk names pre (.handle n L) obs log post strict = true)
    (k : Bytes) (hk : k ∈ names) (hkn : k ≠ n) :
    (sget post k).dir = (sget pre k).dir ∧ (sget post k).toml = (sget pre k).toml ∧ (sget post k).sboms = (sget pre k).sboms := by
  simp only [tStepOk, Bool.and_eq_true] at h
  have := List.all_eq_true.mp h.2 k hk
  have hb : (k == n) = false := by simpa using hkn
  simp only [hb, Bool.false_or, layerEq, Bool.and_eq_true, beq_iff_eq] at this
  exact ⟨(Dir.optBeq_iff _ _).mp this.1.1, this.1.2, this.2⟩

/-! Non-vacuity. -/

/-- a result with entries in all four scopes incl. two process types, an exec.d program, an SBOM, a file and a `bin` -/
def exResult : LResult :=
  { mdata := some ⟨some 4, none⟩,
    env := some (buildEnv [⟨.all, .append, [80], [118]⟩, ⟨.build, .prepend, [80, 65, 84, 72], [47, 120]⟩,
      ⟨.launch, .default, [80], [108]⟩, ⟨.process [119, 101, 98], .override, [81], [119]⟩,
      ⟨.process [119, 111, 114, 107, 101, 114], .append, [80], [120]⟩]),
    execd := [([112], some [35, 33])], sboms := [(0, [99])], files := [([102, 49], .file [100]), ([98, 105, 110], .dir [])] }

def exUpdate : LResult :=
  { mdata := some ⟨some 6, none⟩, env := some (buildEnv [⟨.process [119, 101, 98], .prepend, [80], [122]⟩]),
    execd := [], sboms := [(1, [110])], files := [([102, 50], .file [101])] }

def exLayer (mt : MetaT) (st : Strat) (mg : Migr) : LDef :=
  { types := ⟨true, false, true⟩, mt := mt, strategy := st, migrate := mg, create := .ok exResult, update := .ok exUpdate }

/-- the hypotheses on layer definitions are satisfiable by definitions with rich results -/
example : LOk (exLayer .versioned .keep (.replace ⟨some 7, none⟩)) := by
  refine ⟨⟨buildEnv_ok _ (by decide) (by decide), ?_, ⟨rfl, rfl⟩⟩, ⟨buildEnv_ok _ (by decide) (by decide), ?_, ⟨rfl, rfl⟩⟩, ?_⟩
  · intro f hf; simp only [exResult, List.mem_cons, List.mem_nil_iff, or_false] at hf
    rcases hf with rfl | rfl <;> decide
  · intro f hf; simp only [exUpdate, List.mem_cons, List.mem_nil_iff, or_false] at hf
    subst hf; decide
  · intro m hm; simp only [exLayer, Migr.replace.injEq] at hm; subst hm; exact ⟨rfl, rfl⟩

/-- a history with create, restore, keep (with per-process env), update, a layer written with generic metadata `{w}`
that a `struct { v }` definition migrates (replace, then keep), and a recreate: the callback logs are as the table says -/
example :
    let a : Bytes := [97]
    let Lw : LDef := { exLayer .generic .recreate .recreate with create := .ok { exResult with mdata := some ⟨none, some 9⟩ } }
    let ops : List TOp := [.handle a (exLayer .versioned .keep .recreate), .restore, .handle a (exLayer .versioned .keep .recreate),
                           .handle a (exLayer .versioned .update .recreate), .restore, .handle a Lw,
                           .restore, .handle a (exLayer .versioned .keep (.replace ⟨some 7, none⟩))]
    ((ttrace [] ops).map (fun e => e.log)) =
      [[.create true], [], [.strategy (some ⟨some 4, none⟩)],
       [.strategy (some ⟨some 4, none⟩), .update (some ⟨some 4, none⟩)], [],
       [.strategy (some ⟨some 6, none⟩), .create true], [],
       [.migrate (some ⟨none, some 9⟩), .strategy (some ⟨some 7, none⟩)]] := by decide

/-- the situation of `migration_survives_later_failure` occurs: a layer written with generic metadata `{w = 9}`, then
handled twice by a `struct { v }` definition whose migration answers `ReplaceMetadata {v = 7}` and whose strategy
callback fails (second variant: asks for update, and `update` fails): the first call migrates and fails with `{v = 7}`
on disk (types as stored), the second call is asked about `{v = 7}` directly — no second migration -/
example :
    let a : Bytes := [97]
    let Lw : LDef := { exLayer .generic .recreate .recreate with create := .ok { exResult with mdata := some ⟨none, some 9⟩ } }
    let Lf : LDef := exLayer .versioned .fail (.replace ⟨some 7, none⟩)
    let Lu : LDef := { exLayer .versioned .update (.replace ⟨some 7, none⟩) with update := .fail }
    ((ttrace [] [.handle a Lw, .handle a Lf, .handle a Lf]).map (fun e => (e.log, (sget e.post a).toml))) =
      [([.create true], some (.doc (some ⟨true, false, true⟩) (some ⟨none, some 9⟩))),
       ([.migrate (some ⟨none, some 9⟩), .strategy (some ⟨some 7, none⟩)], some (.doc (some ⟨true, false, true⟩) (some ⟨some 7, none⟩))),
       ([.strategy (some ⟨some 7, none⟩)], some (.doc (some ⟨true, false, true⟩) (some ⟨some 7, none⟩)))] ∧
    ((ttrace [] [.handle a Lw, .restore, .handle a Lu, .handle a Lu]).map (fun e => (e.log, (sget e.post a).toml))) =
      [([.create true], some (.doc (some ⟨true, false, true⟩) (some ⟨none, some 9⟩))),
       ([], some (.doc none (some ⟨none, some 9⟩))),
       ([.migrate (some ⟨none, some 9⟩), .strategy (some ⟨some 7, none⟩), .update (some ⟨some 7, none⟩)], some (.doc none (some ⟨some 7, none⟩))),
       ([.strategy (some ⟨some 7, none⟩), .update (some ⟨some 7, none⟩)], some (.doc none (some ⟨some 7, none⟩)))] := by decide

end CnbVerif.C02
